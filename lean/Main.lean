import Gofasta.Driver.Dispatch
open Gofasta.Driver

partial def loop (h : IO.FS.Stream) (out : IO.FS.Stream) : IO Unit := do
  let line ← h.getLine
  if line.isEmpty then return ()
  match parseCase line with
  | some c => out.putStrLn ((dispatch c).render c.id)
  | none => out.putStrLn "?\tBADLINE"
  loop h out

def main (args : List String) : IO Unit := do
  let stdout ← IO.getStdout
  match args with
  | ["tables", pid] =>
    for l in tableReport pid do stdout.putStrLn l
  | _ =>
    let stdin ← IO.getStdin
    loop stdin stdout
  stdout.flush
