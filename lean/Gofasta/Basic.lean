def hello := "world"
