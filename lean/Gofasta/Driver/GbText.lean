import Gofasta.Driver.Proto
import Gofasta.Driver.C16
import Gofasta.Driver.Csv
import Gofasta.Model.GbText
import Gofasta.Lemmas.GbRoundTrip
/-
Stream C14gb: a GenBank text through the model of genbank.ReadGenBank and of Location.GetPositions / IsReverse; the
canonical dump must be the one the Go harness printed from what the real reader returned.

  ok|O:<hex of ORIGIN, - when nil>|F:<number of features, - when nil>{|<feature>}
  feature = <hex Feature>;<hex Location.Representation>;<Info: - when nil, else hexkey=hexvalue,.. sorted by key>;<positions>;<reverse>
  positions = P<runs> | Eloc | Esyn~<hex of the text Atoi rejected> | Erng~<hex> | X (panic) | S (not called: a digit
              run of 7 to 19 digits); runs = maximal runs of steps +1 or -1 written a:b (a alone for one position)
  reverse = T | F | E (error) | X (panic) | S
  !panic when ReadGenBank itself panics.
-/
namespace Gofasta.Driver
open Gofasta.Model Gofasta.Model.GbText Gofasta.Model.Csv

def gbFmtRun (a b : Int) : String := if a = b then toString a else toString a ++ ":" ++ toString b

/-- greedy runs: start s, current end c, direction d (0 = a run of one so far) -/
def gbRunsAux : List Int → Int → Int → Int → List String
  | [], s, c, _ => [gbFmtRun s c]
  | x :: t, s, c, d =>
    if d = 0 then
      (if x = c + 1 then gbRunsAux t s x 1 else if x = c - 1 then gbRunsAux t s x (-1) else gbFmtRun s c :: gbRunsAux t x x 0)
    else if x = c + d then gbRunsAux t s x d
    else gbFmtRun s c :: gbRunsAux t x x 0

def gbRuns : List Int → String
  | [] => ""
  | x :: t => joinWith "," (gbRunsAux t x x 0)

/-- the harness does not call GetPositions on a location with a digit run of 7 to 19 digits -/
def gbSkipAux : List Nat → Nat → Bool
  | [], run => 7 ≤ run && run ≤ 19
  | b :: t, run =>
    if 48 ≤ b && b ≤ 57 then gbSkipAux t (run + 1)
    else (7 ≤ run && run ≤ 19) || gbSkipAux t 0

def gbSkipLoc (s : List Nat) : Bool := gbSkipAux s 0

def gbPosStr (s : List Nat) : String :=
  if gbSkipLoc s then "S" else
  match getPositions s with
  | .ok ps => "P" ++ gbRuns ps
  | .errLoc => "Eloc"
  | .errNum false n => "Esyn~" ++ hex n
  | .errNum true n => "Erng~" ++ hex n
  | .panic => "X"

def gbRevStr (s : List Nat) : String :=
  if gbSkipLoc s then "S" else
  match isReverse s with
  | .ok true => "T"
  | .ok false => "F"
  | .err => "E"
  | .panic => "X"

def bytesLt : List Nat → List Nat → Bool
  | [], [] => false
  | [], _ :: _ => true
  | _ :: _, [] => false
  | a :: s, b :: t => a < b || (a == b && bytesLt s t)

def gbInsert (e : List Nat × List Nat) : List (List Nat × List Nat) → List (List Nat × List Nat)
  | [] => [e]
  | h :: t => if bytesLt e.1 h.1 then e :: h :: t else h :: gbInsert e t

def gbSortInfo (m : List (List Nat × List Nat)) : List (List Nat × List Nat) := m.foldr gbInsert []

def gbInfoStr : Option Info → String
  | none => "-"
  | some m => joinWith "," ((gbSortInfo m).map fun e => hex e.1 ++ "=" ++ hex e.2)

def gbFeatStr (f : Feat) : String :=
  hex f.key ++ ";" ++ hex f.loc ++ ";" ++ gbInfoStr f.info ++ ";" ++ gbPosStr f.loc ++ ";" ++ gbRevStr f.loc

def gbDump : Res → String
  | .panic => "!panic"
  | .error => "!error"
  | .ok r =>
    "ok|O:" ++ (match r.origin with | none => "-" | some o => hex o) ++ "|F:" ++
      (match r.features with
       | none => "-"
       | some fs => toString fs.length ++ String.join (fs.map fun f => "|" ++ gbFeatStr f))

/-! the structured rows of a generated record -/

def gbForm (s : String) : Option LocForm :=
  match s with
  | "range" => some .range
  | "join" => some .join
  | "comp" => some .comp
  | "compjoin" => some .compJoin
  | "joincomp" => some .joinComp
  | _ => none

def gbSegs (s : String) : List (Nat × Nat) :=
  (splitList s "+").map fun p =>
    match p.splitOn "-" with
    | [a, b] => (a.toNat?.getD 0, b.toNat?.getD 0)
    | _ => (0, 0)

structure GbRow where
  key : List Nat
  form : Option LocForm
  segs : List (Nat × Nat)
  quals : List (List Nat × List Nat)
  chunks : List (List Nat × List (List Nat))   -- the value as laid out over lines (one piece unless the row says otherwise)
  loc : List Nat
  strand : Bool

def gbParseRow (s : String) : GbRow :=
  match s.splitOn "~" with
  | [k, f, sg, qs, lc, st] =>
    { key := unhex k, form := gbForm f, segs := gbSegs sg, loc := unhex lc, strand := st == "1",
      quals := (splitList qs).map (fun q => match q.splitOn "=" with
        | [a, b] => (unhex a, unhex (b.replace "." ""))
        | _ => ([], [])),
      chunks := (splitList qs).map (fun q => match q.splitOn "=" with
        | [a, b] => (unhex a, (b.splitOn ".").map unhex)
        | _ => ([], [])) }
  | _ => { key := [], form := none, segs := [], quals := [], chunks := [], loc := [], strand := false }

/-- what reading a written feature back must give: key, qualifiers (as a set of distinct keys), and for a structured
location its text and the positions of Model/Regions.lean; a free-text location must at least not panic -/
def gbRowOk (row : GbRow) (f : Feat) : Option String :=
  if f.key ≠ row.key then some "feature-key"
  else if (f.info.map gbSortInfo) ≠ some (gbSortInfo row.quals) then some "qualifiers"
  else if f.loc ≠ row.loc then some "location-text"
  else if gbSkipLoc f.loc then none
  else match row.form with
    | none => if getPositions f.loc = .panic then some "positions-panic" else none
    | some form =>
      if getPositions f.loc ≠ .ok (locPositionsInt (form, row.segs)) then some "positions"
      else if row.strand && isReverse f.loc ≠ .ok (form != .range && form != .join) then some "strand"
      else none

def gbRowsOk : List GbRow → List Feat → Option String
  | [], [] => none
  | r :: rs, f :: fs => (match gbRowOk r f with | some e => some e | none => gbRowsOk rs fs)
  | _, _ => some "feature-count"

def gbLetters (s : List Nat) : List Nat := s.filter fun b => (65 ≤ b && b ≤ 90) || (97 ≤ b && b ≤ 122)

/-- the rows renderGenbank emits: name~form~segs~codon_start~translation, against the CDS features read back -/
def gbFeatsOk (feats : String) (fs : List Feat) : Option String :=
  let rows := splitList feats ";"
  let cds := fs.filter fun f => f.key == strBytes "CDS" &&
    (match f.info with
     | some m => m.any (·.1 == strBytes "gene") && m.any (·.1 == strBytes "codon_start") && m.any (·.1 == strBytes "translation")
     | none => false)
  let get (f : Feat) (k : String) : List Nat := ((f.info.getD []).find? (·.1 == strBytes k)).map (·.2) |>.getD []
  let want := rows.map fun r => match r.splitOn "~" with
    | [n, f, sg, cs, tr] => (strBytes n, (gbForm f).map fun fm => renderLocation (fm, gbSegs sg), strBytes cs, strBytes tr)
    | _ => ([], none, [], [])
  let got := cds.map fun f => (get f "gene", some f.loc, get f "codon_start", get f "translation")
  if want == got then none else some "cds-rows"

/-- every location the strict parser accepts must get the positions of Model/Regions.lean from the model of
GetPositions -/
def gbParserLands (fs : List Feat) : Bool :=
  fs.all fun f => gbSkipLoc f.loc || match parseLocation f.loc with
    | some l => renderLocation l == f.loc && getPositions f.loc == .ok (locPositionsInt l)
    | none => true

/-- kind=thm: the structured rows are inside the class of theorem gb_roundtrip (FeatOk, OriginOk decided here), the text
is byte for byte the Lean `render` of them, and the model returns what the theorem says -/
def gbThmCheck (c : Case) (text : List Nat) (res : Res) : String :=
  let rows := (splitList (c.get "gbrows") ";").map gbParseRow
  let origin := c.bytes "origin"
  if rows.any (fun r => r.form.isNone) then "fail:theorem-class:free-location" else
  let fs : List Lemmas.GbRT.FeatS := rows.map fun r => { key := r.key, loc := (r.form.getD .range, r.segs), quals := r.chunks }
  if fs.isEmpty then "fail:theorem-class:no-feature"
  else if !decide (∀ f ∈ fs, Lemmas.GbRT.FeatOk f) then "fail:theorem-class:FeatOk"
  else if !decide (Lemmas.GbRT.OriginOk origin) then "fail:theorem-class:OriginOk"
  else if Lemmas.GbRT.render fs origin ≠ text then "fail:theorem-class:rendered-bytes-differ"
  else if res ≠ .ok { features := some (fs.map Lemmas.GbRT.expected), origin := some origin } then "fail:theorem-conclusion"
  else "ok"

def runGbText (c : Case) : Verdict :=
  let text := unhex (c.get "text")
  let res := readGenBank text
  let model := gbDump res
  let go := c.get "go"
  let agree := go == model
  -- kind=quirk: records the flat-file format allows and this reader mishandles (a gene across the origin of a circular
  -- genome, `<`/`>` markers, a one-base complement, wrapped locations, `=` or doubled quotes inside a value ...). None of
  -- the listed properties quantifies over them (DESIGN, notes on the text layers): model and code must still agree.
  let spec : String :=
    if c.get "kind" == "quirk" then "ok" else
    match res with
    | .panic => if c.has "gbrows" then "fail:reader-panics-on-a-legal-record" else "ok"
    | .error => if c.has "gbrows" then "fail:written-record-rejected" else "ok"
    | .ok r =>
      if !gbParserLands (r.features.getD []) then "fail:parseLocation-and-getPositions-differ"
      else if c.get "kind" == "thm" && gbThmCheck c text res != "ok" then gbThmCheck c text res
      else if c.has "gbrows" then
        let rows := (splitList (c.get "gbrows") ";").map gbParseRow
        match gbRowsOk rows (r.features.getD []) with
        | some e => "fail:read-back-differs:" ++ e
        | none =>
          if r.origin ≠ some (gbLetters (c.bytes "origin")) then "fail:read-back-differs:origin"
          else if c.get "kind" == "clean" then
            (match gbFeatsOk (c.get "feats") (r.features.getD []) with
             | some e => "fail:read-back-differs:" ++ e
             | none => "ok")
          else "ok"
      else "ok"
  { agree := agree, spec := spec, model := model }

end Gofasta.Driver
