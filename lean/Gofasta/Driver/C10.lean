import Gofasta.Driver.Proto
import Gofasta.Driver.C03
import Gofasta.Model.Updown
import Gofasta.Spec.Updown
namespace Gofasta.Driver
open Gofasta.Model Gofasta.Spec Gofasta.Base

def specUdListOutput (ref : List Nat) (recs : List (String × List Nat)) : String :=
  "query,SNPs,ambiguities,SNPcount,ambcount\n" ++ String.join (recs.map fun r => udRow (specUdLine r.1 ref r.2))

def runC10 (c : Case) : Verdict :=
  let ref := c.bytes "ref"
  let recs := recsOf c
  let v := functional (c.get "go") (udListOutput ref recs) (specUdListOutput ref recs)
  -- the specification's own consistency on this case: tracts separated, reconstruction exact
  let refACGT := ref.all isACGT
  let consistent := recs.all fun r =>
    let l := specUdLine r.1 ref r.2
    tractsSeparated 0 l.ambs && (!refACGT || reconstruct ref l == r.2.map mask)
  if consistent then v else { v with spec := "fail:spec-inconsistent" }

end Gofasta.Driver
