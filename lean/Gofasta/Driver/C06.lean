import Gofasta.Driver.Proto
import Gofasta.Model.Closest
import Gofasta.Model.Fasta
import Gofasta.Spec.Closest
import Gofasta.Spec.Fasta
namespace Gofasta.Driver
open Gofasta.Model Gofasta.Spec Gofasta.Base

instance : Inhabited Target := ⟨{ name := "", seq := [], score := 0, cA := 0, cC := 0, cG := 0, cT := 0 }⟩

def parseMeasure (s : String) : Measure :=
  match s with | "snp" => .snp | "tn93" => .tn93 | _ => .raw

/-- parse a Go 9-decimal string into nano units -/
def parseNano (s : String) : Option Nat :=
  match s.splitOn "." with
  | [a, b] => match a.toNat?, b.toNat? with
    | some x, some y => if b.length == 9 then some (x * pow10_9 + y) else none
    | _, _ => none
  | _ => none

def floatNano (x : Float) : Nat := (x * 1000000000.0).round.toUInt64.toNat

/-- does a printed distance match a model/spec distance value (tn93: ±1 in the ninth decimal) -/
def distMatches (v : DVal) (s : String) : Bool :=
  match v with
  | .nat n => s == toString n
  | .rat n d => s == fmt9 n d
  | .flt x =>
    if x.isNaN then s == "NaN"
    else if x.isInf then s == (if x > 0 then "+Inf" else "-Inf")
    else match parseNano s with
      | some g => let m := floatNano x; (g ≤ m + 1) && (m ≤ g + 1)
      | none => false

def dvalString (v : DVal) : String :=
  match v with
  | .nat n => toString n
  | .rat n d => fmt9 n d
  | .flt x => if x.isNaN then "NaN" else if x.isInf then (if x > 0 then "+Inf" else "-Inf") else nanoToString (floatNano x)

/-- an expected output row: fixed text fields and an optional distance at a given column -/
structure ERow where
  pre : List String          -- fields before the distance
  dist : Option DVal
  post : List String         -- fields after the distance

def ERow.matches (r : ERow) (line : String) : Bool :=
  let f := line.splitOn ","
  match r.dist with
  | none => f == r.pre ++ r.post
  | some v =>
    f.length == r.pre.length + 1 + r.post.length &&
    f.take r.pre.length == r.pre && distMatches v (f.getD r.pre.length "") && f.drop (r.pre.length + 1) == r.post

def ERow.render (r : ERow) : String :=
  joinWith "," (r.pre ++ (match r.dist with | some v => [dvalString v] | none => []) ++ r.post)

def rowsMatch (header : String) (rows : List ERow) (go : String) : Bool :=
  let lines := go.splitOn "\n"
  -- output ends with a newline: last element is empty
  lines.length == rows.length + 2 && lines.head? == some header && lines.getLast? == some "" &&
  ((lines.drop 1).zip rows).all fun (l, r) => r.matches l

def renderRows (header : String) (rows : List ERow) : String :=
  header ++ "\n" ++ String.join (rows.map fun r => r.render ++ "\n")

structure ClosestIn where
  measure : Measure
  mode : String
  k : Nat
  maxd : Option (Nat × Nat)
  qs : List (String × List Nat)      -- raw bytes
  ts : List (String × List Nat)

def closestIn (c : Case) : ClosestIn :=
  { measure := parseMeasure (c.get "measure"), mode := c.get "mode", k := c.nat "k",
    maxd := if c.nat "dd" == 0 then none else some (c.nat "dn", c.nat "dd"),
    qs := (c.list "qnames").zip ((c.list "qseqs").map strBytes),
    ts := (c.list "tnames").zip ((c.list "tseqs").map strBytes) }

def modelTargets (ts : List (String × List Nat)) : List Target :=
  ts.map fun (n, s) =>
    let e := s.map (enc false)
    { name := n, seq := e, score := scoreSeq e, cA := countCode 136 e, cC := countCode 40 e, cG := countCode 72 e, cT := countCode 24 e }

def specHits (m : Measure) (q : List Nat) (ts : List (String × List Nat)) : List Hit :=
  (ts.zip (List.range ts.length)).map fun ((n, s), i) =>
    { name := n, score := specScore false s, dist := specDistance m q s, idx := i }

def specSnpStrings : Nat → List Nat → List Nat → List String
  | i, q :: qs, t :: ts =>
    if disjointSyms false q t then (itoa (i + 1) ++ bytesToString [upper q] ++ bytesToString [upper t]) :: specSnpStrings (i + 1) qs ts
    else specSnpStrings (i + 1) qs ts
  | _, _, _ => []

/-- effective K as in ClosestN: only -d given means "all" -/
def effK (ci : ClosestIn) : Nat := if ci.k == 0 then 1000000000 else ci.k

def rowsFor (ci : ClosestIn) (hitsFor : List Nat → List Hit) (pick1 : List Hit → Option Hit)
    (pickN : List Hit → List Hit) (snps : List Nat → Nat → List String) : String × List ERow :=
  match ci.mode with
  | "plain" =>
    ("query,closest,distance,SNPs", ci.qs.map fun (qn, q) =>
      match pick1 (hitsFor q) with
      | some h => { pre := [qn, h.name], dist := some h.dist, post := [joinWith ";" (snps q h.idx)] }
      | none => { pre := [qn, ""], dist := none, post := [] })
  | "table" =>
    ("query,target,distance", ci.qs.flatMap fun (qn, q) =>
      (pickN (hitsFor q)).map fun h => { pre := [qn, h.name], dist := some h.dist, post := [] })
  | _ =>
    ("query,closest", ci.qs.map fun (qn, q) =>
      { pre := [qn, joinWith ";" ((pickN (hitsFor q)).map (·.name))], dist := none, post := [] })

/-- C07 is about the distance of every pair, not about the order of the rows: sort the data lines -/
def sortDataLines (out : String) : String :=
  match out.splitOn "\n" with
  | h :: rest =>
    let body := rest.filter (!·.isEmpty)
    joinWith "\n" (h :: sortStable (fun a b => decide (a < b)) body) ++ "\n"
  | [] => out

def runC06 (c : Case) : Verdict :=
  let ci := closestIn c
  let go := if c.prop == "C07" then sortDataLines (c.get "go") else c.get "go"
  let mts := modelTargets ci.ts
  let (mh, mrows) := rowsFor ci (fun q => hitsOf ci.measure (q.map (enc false)) mts) findClosest
      (findClosestN (effK ci) ci.maxd)
      (fun q i => closestSnps 0 (q.map (enc false)) ((mts.getD i default).seq))
  let (sh, srows) := rowsFor ci (fun q => specHits ci.measure q ci.ts) (fun hs => (selectK 1 hs).head?)
      (specClosestN (effK ci) ci.maxd)
      (fun q i => specSnpStrings 0 q ((ci.ts.getD i default).2))
  let byText (rows : List ERow) : List ERow :=
    if c.prop == "C07" then sortStable (fun a b => decide (a.render < b.render)) rows else rows
  { agree := rowsMatch mh (byText mrows) go
    spec := if rowsMatch sh (byText srows) go then "ok" else "fail:output-differs-from-spec"
    model := renderRows mh (byText mrows) }

end Gofasta.Driver
