import Gofasta.Driver.Proto
import Gofasta.Model.Sam
import Gofasta.Spec.Sam
namespace Gofasta.Driver
open Gofasta.Model Gofasta.Spec Gofasta.Base

def opIndex (c : Char) : Nat :=
  match c with
  | 'M' => 0 | 'I' => 1 | 'D' => 2 | 'N' => 3 | 'S' => 4 | 'H' => 5 | 'P' => 6 | '=' => 7 | 'X' => 8 | _ => 99

def parseCigarL : List Char → Nat → List (Nat × Nat)
  | [], _ => []
  | c :: t, acc => if c.isDigit then parseCigarL t (acc * 10 + (c.toNat - 48)) else (opIndex c, acc) :: parseCigarL t 0

def parseCigar (s : String) : List (Nat × Nat) := if s == "*" then [] else parseCigarL s.toList 0

/-- recs = name~flag~POS~CIGAR~SEQ ; … (POS 1-based as in the file) -/
def parseRecs (s : String) : List SamRec :=
  (splitList s ";").filterMap fun r => match r.splitOn "~" with
    | [n, f, p, c, q] => some { name := n, flag := f.toNat?.getD 0, pos := (p.toNat?.getD 1) - 1, cigar := parseCigar c,
                                seq := if q == "*" then [] else strBytes q }
    | _ => none

/-- one block per query name in order of first appearance, unmapped and secondary records removed -/
def specBlocks (recs : List SamRec) : List (List SamRec) :=
  let kept := recs.filter fun r => !(r.flag / 4 % 2 == 1 || r.flag / 256 % 2 == 1)
  ((kept.map (·.name)).eraseDups).map fun n => kept.filter fun r => r.name == n

def tomaOpts (c : Case) : TomaOpts := { start := c.int "start", stop := c.int "end", pad := c.bool "pad", wrap := c.int "wrap" }

def specToma (refLen : Nat) (o : TomaOpts) (recs : List SamRec) : Option String :=
  match checkArgs refLen o.start o.stop with
  | none => none
  | some (s, e, trim) =>
    some (String.join ((specBlocks recs).map fun b =>
      tomaRecordText o.wrap (b.headD default).name (specWindow (specTomaRow b refLen o.pad) o.pad trim s e)))

def optText (o : Option String) : String := o.getD "!error"

def runToma (c : Case) : Verdict :=
  let recs := parseRecs (c.get "recs")
  let L := c.nat "reflen"
  let o := tomaOpts c
  functional (c.get "go") (optText (toMultiAlign L o recs)) (optText (specToma L o recs))

def specTopa (ref : List Nat) (refName : String) (start stop wrap : Int) (omitRef omitIns : Bool)
    (recs : List SamRec) : Option (List (String × String)) :=
  match checkArgs ref.length start stop with
  | none => none
  | some (s, e, trim) =>
    some ((specBlocks recs).map fun b =>
      let p := if omitIns then specPairNoIns b ref else specPair b ref
      let p' := if trim then specTrimPair p s e else p
      ((b.headD default).name, pairText wrap refName (b.headD default).name omitRef p'))

def FSs : String := String.singleton (Char.ofNat 28)

def topaText (o : Option (List (String × String))) : String :=
  match o with
  | some l => joinWith FSs (l.map fun (n, t) => n ++ "\n" ++ t)
  | none => "!error"

def runTopa (c : Case) : Verdict :=
  let recs := parseRecs (c.get "recs")
  let ref := (c.bytes "ref").map upper
  let m := toPairAlign ref (c.get "rname") (c.int "start") (c.int "end") (c.int "wrap") (c.bool "omitref") (c.bool "omitins") recs
  let s := specTopa ref (c.get "rname") (c.int "start") (c.int "end") (c.int "wrap") (c.bool "omitref") (c.bool "omitins") recs
  -- directory output: the file of a name holds the pair of the LAST block of that name in input order (since fix af2594e
  -- the files are written in input order); each block is compared with what its file holds at the end
  let dirView (o : Option (List (String × String))) : Option (List (String × String)) :=
    if c.get "dirmode" == "1" then o.map fun l => l.map fun (n, t) => (n, ((l.filter (·.1 == n)).getLast?.map (·.2)).getD t) else o
  functional (c.get "go") (topaText (dirView m)) (topaText (dirView s))

end Gofasta.Driver

namespace Gofasta.Driver
open Gofasta.Model Gofasta.Spec Gofasta.Base

end Gofasta.Driver
