import Gofasta.Driver.C03
namespace Gofasta.Driver

def dispatch (c : Case) : Verdict :=
  match c.prop with
  | "C03" => runC03 c
  | _ => { agree := false, spec := "na", model := "unknown-property" }

end Gofasta.Driver
