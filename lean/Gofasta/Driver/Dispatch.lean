import Gofasta.Driver.C03
import Gofasta.Driver.C17
import Gofasta.Driver.C16
import Gofasta.Driver.C06
import Gofasta.Driver.C10
import Gofasta.Driver.Var
import Gofasta.Driver.Sam
import Gofasta.Driver.SamVar
import Gofasta.Driver.C08
import Gofasta.Driver.Fault
import Gofasta.Driver.Sched
import Gofasta.Driver.Csv
import Gofasta.Driver.SamText
import Gofasta.Driver.GffText
import Gofasta.Driver.GbText
namespace Gofasta.Driver

def dispatch (c : Case) : Verdict :=
  match c.prop with
  | "C03" => runC03 c
  | "C17" => runC17 c
  | "C16" => runC16 c
  | "C06" => runC06 c
  | "C07" => runC06 c
  | "C10" => runC10 c
  | "VAR" => runVar c
  | "REL" => runRel c
  | "TOMA" => runToma c
  | "TOPA" => runTopa c
  | "SAMVAR" => runSamVar c
  | "C08" => runC08 c
  | "FAULT" => runFault c
  | "EXIT" => runExit c
  | "REORD" => runReord c
  | "SCHED" => runSched c
  | "CSV" => runCsv c
  | "SAMTXT" => runSamText c
  | "GFFTXT" => runGffText c
  | "GBTXT" => runGbText c
  | _ => { agree := false, spec := "na", model := "unknown-property" }

end Gofasta.Driver
