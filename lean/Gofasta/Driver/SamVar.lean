import Gofasta.Driver.Sam
import Gofasta.Driver.Var
namespace Gofasta.Driver
open Gofasta.Model Gofasta.Spec Gofasta.Base

/-- sam.Variants on structured input: blocks -> pairs -> the shared caller -/
def samVarCommand (c : Case) (blocksFn : List SamRec → List (List SamRec))
    (pairOf : List SamRec → List Nat → List Nat × List Nat)
    (caller : List Nat → List Nat → List Region → List Nat → List Variant) : String :=
  let vi := varIn c
  let recs := parseRecs (c.get "recs")
  let refFromFile := c.bool "reffromfile"
  let refRaw := if refFromFile then (c.bytes "ref") else vi.origin
  let refID := if refFromFile then c.get "rname" else "annotation_fasta"
  let refU := refRaw.map upper
  let refD := degapUpper refRaw
  let regs := if vi.annfmt == "gb" then regionsFromGenbank vi.gb refD.length else regionsFromGFF vi.gff refD
  match regs with
  | none => "!error"
  | some (regions, inter) =>
    let lists := (blocksFn recs).map fun b =>
      let p := pairOf b refU
      ((b.headD default).name, caller p.1 p.2 regions inter)
    if vi.agg then variantsAggregate vi.append vi.start vi.stop vi.thrn vi.thrd refID lists
    else variantsOutput vi.append vi.start vi.stop refID lists

def runSamVar (c : Case) : Verdict :=
  let f := focusOutput (c.get "focus") (c.bool "agg")
  functional (f (c.get "go"))
    (f (samVarCommand c samBlocks (fun b r => blockToSeqPair b r) modelPair))
    (f (samVarCommand c specBlocks specPair specVariants))

end Gofasta.Driver
