import Gofasta.Driver.Proto
import Gofasta.Model.Pipeline
import Gofasta.Model.Sched
import Gofasta.Model.SchedChain
import Gofasta.Gen.Facts
namespace Gofasta.Driver
open Gofasta.Model

/-- the writer of the SCHED cases: the index-keyed re-ordering writer; with a write fault planted at record k its loop
body fails in the iteration whose flush reaches index k -/
def schedAbsorb (failAt : Option Nat) (st : Reorder.St Nat) (r : Nat × Nat) : Except Nat (Reorder.St Nat) :=
  let st' := Reorder.recv st r
  match failAt with
  | some k => if st.counter ≤ k && k < st'.counter then .error 2 else .ok st'
  | none => .ok st'

/-- capacities of the two data channels of a one-pool driver, from the regenerated shape: the channels closed by the
first two stages that close anything; "n" = as many slots as workers, "0" = unbuffered -/
def schedCaps (fn : String) (n : Nat) : Nat × Nat :=
  match Gofasta.Gen.pipes.find? (·.1 == fn) with
  | none => (0, 0)
  | some p =>
    let closes := (p.2.2.2.1.flatMap fun st => st.flatMap fun a => a.2.2.1)
    let cap (c : String) : Nat := if p.2.1.contains (c, "n") then n else 0
    match closes.filter (fun c => c != "cSH") with
    | c1 :: c2 :: _ => (cap c1, cap c2)
    | _ => (0, 0)

/-- a pseudo-random schedule (numbers the runner reduces modulo the count of enabled steps) -/
def lcgList (seed : Nat) : Nat → List Nat
  | 0 => []
  | k + 1 => let s := (seed * 6364136223846793005 + 1442695040888963407) % 18446744073709551616
             (s / 4294967296) :: lcgList s k

/-- SCHED: outcome of a one-pool command under a planted failure = outcome of the small-step model under three
pseudo-random schedules (which must agree among themselves: `Lemmas/SchedProofs`) -/
def runSched (c : Case) : Verdict :=
  let n := c.nat "n"
  let k := c.nat "k"
  let fail := c.get "fail"
  let threads := c.nat "threads"
  let fn := match c.get "cmd" with
    | "snps" => "snps.SNPs"
    | "list" => "updown.List"
    | _ => "variants.Variants"
  let (capIn, capOut) := schedCaps fn threads
  let cfg : Sched.Cfg Nat Nat Nat (Reorder.St Nat) :=
    { items := List.range n
      f := fun i => if fail == "work" then .error 1 else .ok i
      N := threads
      capIn := capIn
      capOut := capOut
      readFail := if fail == "read" then some (k, 3) else none
      absorb := schedAbsorb (if fail == "write" || fail == "write-once" then some k else none)
      finish := fun st => .ok st
      init := ⟨[], 0, []⟩ }
  let len := Sched.μ cfg (Sched.init cfg) + 1
  let outcome (seed : Nat) : String :=
    let s := Sched.runSchedule cfg (lcgList seed len)
    match s.main with
    | .ret none => "ok:" ++ " ".intercalate (s.wst.out.map toString)
    | .ret (some _) => "!error"
    | _ => "stuck"
  -- sam variants: two pools (pair alignment, variant calling), the chain model; capacities from the regenerated shape
  let capOf (fnc ch : String) : Nat :=
    match Gofasta.Gen.pipes.find? (·.1 == fnc) with
    | some p => if p.2.1.contains (ch, "n") then threads else 0
    | none => 0
  let ccfg : SchedChain.Cfg Nat Nat (Reorder.St Nat) :=
    { items := List.range n
      pools := [⟨threads, fun i => .ok i, capOf "sam.Variants" "cPairAlign"⟩, ⟨threads, fun i => .ok i, capOf "sam.Variants" "cVariants"⟩]
      cap0 := capOf "sam.Variants" "cSR"
      readFail := if fail == "read" then some (k, 3) else none
      absorb := schedAbsorb (if fail == "write" || fail == "write-once" then some k else none)
      finish := fun st => .ok st
      init := ⟨[], 0, []⟩ }
  let clen := SchedChain.μ ccfg (SchedChain.init ccfg) + 1
  let coutcome (seed : Nat) : String :=
    let s := SchedChain.runSchedule ccfg (lcgList seed clen)
    match s.main with
    | .ret none => "ok:" ++ " ".intercalate (s.wst.out.map toString)
    | .ret (some _) => "!error"
    | _ => "stuck"
  let outcome := if c.get "cmd" == "samvariants" then coutcome else outcome
  let s0 := c.nat "schedseed"
  let o1 := outcome s0
  let o2 := outcome (s0 + 1)
  let o3 := outcome (s0 * 7 + 3)
  let model := if o1 == o2 && o2 == o3 then o1 else "schedules-differ:" ++ o1 ++ "|" ++ o2 ++ "|" ++ o3
  let spec := if fail == "none" then "ok:" ++ " ".intercalate ((List.range n).map toString) else "!error"
  functional (c.get "go") model spec

end Gofasta.Driver
