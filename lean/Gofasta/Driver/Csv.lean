import Gofasta.Driver.Proto
import Gofasta.Driver.C03
import Gofasta.Driver.C16
import Gofasta.Model.Csv
namespace Gofasta.Driver
open Gofasta.Model Gofasta.Model.Csv

def hexOf (bs : List Nat) : String := hex bs

def hexVal (c : Char) : Nat :=
  let n := c.toNat
  if 48 ≤ n ∧ n ≤ 57 then n - 48 else if 97 ≤ n ∧ n ≤ 102 then n - 87 else 0

def unhexL : List Char → List Nat
  | a :: b :: t => (hexVal a * 16 + hexVal b) :: unhexL t
  | _ => []

def unhex (s : String) : List Nat := unhexL s.toList

def renderRowC (r : Row) : String :=
  hexOf r.id ++ ";" ++ joinWith "|" (r.snps.map hexOf) ++ ";" ++ joinWith "|" (r.snpPos.map toString) ++ ";" ++
    joinWith "|" (r.ambs.map toString) ++ ";" ++ toString r.ambCount

def renderOutcome : Outcome → String
  | .ok rows => "ok:" ++ joinWith "/" (rows.map renderRowC)
  | .error => "error"
  | .panic => "panic"

/-- kind=raw: any text through the reader, model against Go.
    kind=list: the text is what the real `updown list` wrote for an alignment; the rendering model must give the same
    bytes, and the specification (the rows themselves) is what the real reader must return -/
def runCsv (c : Case) : Verdict :=
  let text := unhex (c.get "hex")
  let model := renderOutcome (readUDL text)
  let go := c.get "go"
  if c.get "kind" == "list" then
    let ref := c.bytes "ref"
    let recs := (c.names "names").zip ((c.list "seqs").map strBytes)
    let rows := recs.map fun r => (strBytes r.1, getLine r.1 (ref.map (enc false)) (r.2.map (enc false)))
    let spec := renderOutcome (.ok (rows.map fun r =>
      ({ id := r.1, snps := r.2.snps.map snpB, snpPos := r.2.snps.map fun s => (s.1 : Int),
         ambs := r.2.ambs.flatMap fun a => [(a.1 : Int), (a.2 : Int)], ambCount := (r.2.ambCount : Int) } : Row)))
    if fileB rows != text then
      { agree := false, spec := "fail:rendered-bytes-differ-from-updown-list", model := hexOf (fileB rows) }
    else { agree := go == model, spec := if go == spec then "ok" else "fail:csv-does-not-read-back", model := model }
  else { agree := go == model, spec := "na", model := model }

end Gofasta.Driver
