import Gofasta.Driver.Proto
import Gofasta.Driver.Csv
import Gofasta.Driver.Sam
import Gofasta.Model.SamText
import Gofasta.Lemmas.SamRoundTrip
/-
Prop SAMTXT: field `text` (hex) through the model of the biogo SAM reader; the canonical dump must equal field `go`
(the dump the harness made from what the real reader returned; format: harness/cmd/gfh/samtext.go).
Specification, for texts written from structured rows (fields recs, rnames, refs): what was read back is what was
written - the @SQ lines, every row's name, flag, POS, CIGAR, SEQ and RNAME, in order, ending in io.EOF.
-/
namespace Gofasta.Driver
open Gofasta.Model Gofasta.Model.SamText

def hxS (b : List Nat) : String := if b.isEmpty then "-" else hex b

def tagListS (kv : List (List Nat × List Nat)) : String :=
  if kv.isEmpty then "-" else joinWith "," (kv.map fun p => hxS p.1 ++ ":" ++ hxS p.2)

/-- the M5 value as Tags() prints it: lower-case hex text -/
def hexText (b : List Nat) : List Nat := strBytes (hex b)

def refTagsS (r : Ref) : String :=
  tagListS ((if r.asm.isEmpty then [] else [(tAS, r.asm)]) ++ (if r.md5.isEmpty then [] else [(tM5, hexText r.md5)]) ++
    (if r.species.isEmpty then [] else [(tSP, r.species)]) ++ r.other)

def refViewS : Option RefView → String
  | none => "*"
  | some v => hxS v.name ++ ":" ++ toString v.id ++ ":" ++ toString v.len

def cigarS (c : List (Nat × Nat)) : String :=
  if c.isEmpty then "*" else joinWith "," (c.map fun o => toString o.1 ++ ":" ++ toString o.2)

def rErrS : RErr → String
  | .fields => "fields" | .flags => "flags" | .ref => "ref" | .pos => "pos" | .mapq => "mapq" | .cigar => "cigar"
  | .mateRef => "materef" | .matePos => "matepos" | .tlen => "tlen" | .seqCigar => "seqcigar" | .qual => "qual" | .aux => "aux"

def hErrS : HErr → String
  | .eof => "eof" | .unexpectedEOF => "unexpected-eof" | .badHeader => "bad-header" | .dupTag => "dup-tag"
  | .dupRef => "dup-ref" | .badLen => "bad-len" | .dupRG => "dup-rg" | .dupPG => "dup-pg" | .hex => "hex" | .atoi => "atoi"

def endS : End → String
  | .eof => "E eof" | .error e => "E error:" ++ rErrS e | .panic => "E panic" | .unsup => "E unsup"

def recS (r : Rec) : String :=
  joinWith " " ["R", hxS r.name, toString r.flags, refViewS r.ref, toString r.pos, toString r.mapq, cigarS r.cigar,
    refViewS r.mate, toString r.matePos, toString r.tlen, toString r.seq.length, hxS r.seq, hxS r.qual,
    (if r.aux.isEmpty then "-" else joinWith "," (r.aux.map hxS))]

def resultS : Result → String
  | .headerError e => "!error:" ++ hErrS e.e ++ (if e.line = 0 then "" else "@" ++ toString e.line)
  | .headerPanic => "!panic"
  | .unsup => "!unsup"
  | .ok h recs e after =>
    joinWith "\n" (
      ["HD " ++ hxS h.version ++ " " ++ toString h.so ++ " " ++ toString h.go ++ " " ++ tagListS h.other] ++
      h.refs.map (fun r => "SQ " ++ toString r.id ++ " " ++ hxS r.name ++ " " ++ toString r.len ++ " " ++ refTagsS r) ++
      h.rgs.map (fun n => "RG " ++ hxS n) ++ h.progs.map (fun n => "PG " ++ hxS n) ++ h.comments.map (fun n => "CO " ++ hxS n) ++
      recs.map recS ++ [endS e] ++
      after.map (fun v => "ZQ " ++ toString v.id ++ " " ++ hxS v.name ++ " " ++ toString v.len))

def unhx (s : String) : List Nat := if s == "-" then [] else unhex s

def opLetter (i : String) : String :=
  match i with
  | "0" => "M" | "1" => "I" | "2" => "D" | "3" => "N" | "4" => "S" | "5" => "H" | "6" => "P" | "7" => "=" | "8" => "X"
  | "9" => "B" | _ => "?"

def cigarText (s : String) : String :=
  if s == "*" then "*" else String.join ((s.splitOn ",").map fun o => match o.splitOn ":" with
    | [t, l] => l ++ opLetter t
    | _ => "?")

/-- the rows a dump says were read: name~flag~POS~CIGAR~SEQ per R line (as bytes), the RNAMEs, the @SQ name~length -/
def rowsOfDump (dump : String) : List (List Nat) × List (List Nat) × List (List Nat) × String :=
  let lines := dump.splitOn "\n"
  let rs := lines.filterMap fun l => match l.splitOn " " with
    | "R" :: nm :: fl :: rf :: pos :: _ :: cg :: _ :: _ :: _ :: _ :: sq :: _ =>
      let sqb := unhx sq
      some (unhx nm ++ strBytes ("~" ++ fl ++ "~" ++ toString (pos.toInt?.getD 0 + 1) ++ "~" ++ cigarText cg ++ "~") ++
              (if sqb.isEmpty then [42] else sqb),
            if rf == "*" then [42] else unhx ((rf.splitOn ":").headD ""))
    | _ => none
  let sq := lines.filterMap fun l => match l.splitOn " " with
    | ["SQ", _, nm, ln, _] => some (unhx nm ++ strBytes ("~" ++ ln))
    | _ => none
  let e := (lines.find? fun l => l.startsWith "E ").getD ""
  (rs.map (·.1), rs.map (·.2), sq, e)

def joinBytes (sep : Nat) : List (List Nat) → List Nat
  | [] => []
  | [x] => x
  | x :: xs => x ++ sep :: joinBytes sep xs

def utf8 (s : String) : List Nat := s.toUTF8.toList.map UInt8.toNat

def specSamText (c : Case) (go : String) : String :=
  if !c.has "recs" then "ok"
  else
    let d := rowsOfDump go
    if go.startsWith "!" then "fail:not-read"
    else if d.2.2.2 != "E eof" then "fail:read-ended-in:" ++ d.2.2.2
    else if joinBytes 59 d.2.2.1 != utf8 (c.get "refs") then "fail:references-differ"
    else if joinBytes 59 d.1 != utf8 (c.get "recs") then "fail:rows-differ"
    else if joinBytes 59 d.2.1 != utf8 (c.get "rnames") then "fail:rnames-differ"
    else "ok"

/-- kind=plain: the text is what `samText` wrote for (rname, reflen, recs). The rendering function of the round-trip
theorem must give the same bytes, the rows must satisfy the theorem's premises, and the real reader must return what
the theorem says: the reference and the rows. -/
def specPlain (c : Case) (text : List Nat) (go : String) : String :=
  let recs := parseRecs (c.get "recs")
  let rname := strBytes (c.get "rname")
  let L := c.nat "reflen"
  if Lemmas.SamRT.renderSam rname L recs != text then "fail:rendered-bytes-differ-from-samText"
  else if !(Lemmas.SamRT.refOk rname L && recs.all (Lemmas.SamRT.recOk L)) then "fail:rows-outside-the-theorem"
  else
    let expect := resultS (.ok (Lemmas.SamRT.hdrOf rname L) (recs.map (Lemmas.SamRT.expected rname L)) .eof
      [{ name := rname, id := 0, len := L }])
    if go == expect then "ok" else "fail:read-back-differs"

def runSamText (c : Case) : Verdict :=
  let text := unhex (c.get "text")
  let model := resultS (readSam text)
  let go := c.get "go"
  { agree := go == model, spec := if c.get "kind" == "plain" then specPlain c text go else specSamText c go, model := model }

end Gofasta.Driver
