import Gofasta.Driver.Proto
import Gofasta.Model.Fasta
import Gofasta.Spec.Fasta
namespace Gofasta.Driver
open Gofasta.Model Gofasta.Spec Gofasta.Base

def US : String := String.singleton (Char.ofNat 31)
def RS : String := String.singleton (Char.ofNat 30)
def FS : String := String.singleton (Char.ofNat 28)

def hexDigit (n : Nat) : Char := if n < 10 then Char.ofNat (48 + n) else Char.ofNat (87 + n)
def hex (bs : List Nat) : String := String.ofList (bs.flatMap fun b => [hexDigit (b / 16), hexDigit (b % 16)])

def renderPlain (r : FaRec) : String :=
  joinWith US [bytesToString r.id, bytesToString r.desc, bytesToString r.seq, toString r.idx]
def renderEnc (r : FaRec) : String :=
  joinWith US [bytesToString r.id, bytesToString r.desc, hex r.seq, toString r.idx]
def renderScore (r : FaRec) : String :=
  joinWith US [bytesToString r.id, bytesToString r.desc, hex r.seq, toString r.idx, toString r.score,
    toString (countCode 136 r.seq), toString (countCode 40 r.seq), toString (countCode 72 r.seq), toString (countCode 24 r.seq)]

def outOf (f : FaRec → String) : Except (List FaRec × RdErr) (List FaRec) → String
  | .ok rs => joinWith RS (rs.map f)
  | .error _ => "!error"

def modelReaders (hard : Bool) (refID : List Nat) (text : List Nat) : List String :=
  let e := readFasta (.encoded hard) text
  [ outOf renderPlain (readFasta .plain text),
    outOf renderEnc e,
    outOf renderScore e,
    (match readFastaList hard text with | .ok rs => joinWith RS (rs.map renderEnc) | .error _ => "!error"),
    (match findReference refID text with | .ok r => renderEnc r | .error _ => "!error") ]

/-- expectation for a valid alignment given as structured records, from base sets -/
def expectReaders (hard : Bool) (refID : List Nat) (recs : List (List Nat × List Nat × List Nat)) : List String :=
  let idx := List.range recs.length
  let rows := recs.zip idx
  let encSeq (s : List Nat) := s.map (enc hard)
  let plain := rows.map fun (r, i) => joinWith US [bytesToString r.1, bytesToString r.2.1, bytesToString (r.2.2.map upper), toString i]
  let encd := rows.map fun (r, i) => joinWith US [bytesToString r.1, bytesToString r.2.1, hex (encSeq r.2.2), toString i]
  let scored := rows.map fun (r, i) => joinWith US [bytesToString r.1, bytesToString r.2.1, hex (encSeq r.2.2), toString i,
      toString (specScore hard r.2.2), toString (countSym 65 r.2.2), toString (countSym 67 r.2.2), toString (countSym 71 r.2.2), toString (countSym 84 r.2.2)]
  let find := match rows.find? (fun (r, _) => r.1 == refID) with
    | some (r, i) => joinWith US [bytesToString r.1, bytesToString r.2.1, hex (r.2.2.map (enc false)), toString i]
    | none => "!error"
  [joinWith RS plain, joinWith RS encd, joinWith RS scored, joinWith RS encd, find]

def statusOf (s : String) : String := if s.startsWith "!" then s else "ok"

def runC16 (c : Case) : Verdict :=
  let hard := c.bool "hard"
  let text := c.bytes "text"
  let refID := c.bytes "refid"
  let go := (c.get "go").splitOn FS
  let model := modelReaders hard refID text
  let names := ["ReadAlignment", "ReadEncodeAlignment", "ReadEncodeScoreAlignment", "ReadEncodeAlignmentToList", "findReference"]
  match c.get "kind" with
  | "layout" =>
    let recs := ((c.list "ids").zip ((splitList (c.get "descs") US).zip (c.list "seqs"))).map
      fun (i, d, s) => (strBytes i, strBytes d, strBytes s)
    let expect := expectReaders hard refID recs
    let bad := (names.zip (go.zip expect)).filter fun (_, g, e) => g != e
    { agree := go == model
      spec := if go.length == 5 && bad.isEmpty then "ok" else "fail:" ++ joinWith "," (bad.map (·.1)) ++ "-differs-from-expected-records"
      model := joinWith FS model }
  | _ =>
    -- arbitrary / corrupted streams: only the status is specified
    let gs := go.map statusOf
    let ms := model.map statusOf
    let crash := (names.zip gs).filter fun (_, s) => s == "!panic" || s == "!timeout"
    let must := mustReject hard text
    -- the encoded readers (positions 1,2,3) must reject what the property lists; blank lines: any non-crash status
    let encStatuses := (gs.drop 1).take 3
    let wrong := if hasBlankLine text then false
      else encStatuses.any fun s => (s == "ok") == must
    -- the plain-text reader (position 0) agrees with the others on everything but the alphabet, which it does not check
    let mustPlain := mustRejectPlain text
    let wrongPlain := if hasBlankLine text then false else ((gs.headD "") == "ok") == mustPlain
    { agree := gs == ms
      spec := if !crash.isEmpty then "fail:" ++ joinWith "," (crash.map fun (n, s) => n ++ s)
              else if wrong then (if must then "fail:invalid-input-accepted" else "fail:valid-input-rejected")
              else if wrongPlain then (if mustPlain then "fail:invalid-input-accepted-by-ReadAlignment" else "fail:valid-input-rejected-by-ReadAlignment")
              else "ok"
      model := joinWith FS ms }

end Gofasta.Driver
