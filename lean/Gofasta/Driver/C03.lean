import Gofasta.Driver.Proto
import Gofasta.Model.Snps
import Gofasta.Spec.Snps
namespace Gofasta.Driver
open Gofasta.Model Gofasta.Spec

/-- spec-side rendering (shares only the text formatting with the model) -/
def specSnpsOutput (hard : Bool) (ref : List Nat) (recs : List (String × List Nat)) : String :=
  "query,SNPs\n" ++ String.join (recs.map fun r => snpsLine r.1 (specSnps hard ref r.2))

def recsOf (c : Case) : List (String × List Nat) :=
  (c.names "names").zip ((c.list "seqs").map strBytes)

/-- aggregate table from the specification's rows: each distinct SNP once, frequency = rows containing it / rows -/
def specSnpsAggregate (hard : Bool) (thrNum thrDen : Nat) (ref : List Nat) (recs : List (String × List Nat)) : String :=
  let rows := recs.map fun r => specSnps hard ref r.2
  let total := rows.length
  let distinct := (rows.flatMap id).eraseDups
  let counted := distinct.map fun s => (s, (rows.filter fun row => row.contains s).length)
  let sorted := sortStable snpLt counted
  "SNP,frequency\n" ++ String.join ((sorted.filter fun e => e.2 * thrDen ≥ thrNum * total).map fun e =>
    fmtSnp e.1 ++ "," ++ fmt9 e.2 total ++ "\n")

def runC03 (c : Case) : Verdict :=
  let hard := c.bool "hard"
  let ref := c.bytes "ref"
  let recs := recsOf c
  if c.bool "agg" then
    let thrd := if c.nat "thrd" == 0 then 1 else c.nat "thrd"
    functional (c.get "go") (snpsAggregate hard (c.nat "thrn") thrd ref recs) (specSnpsAggregate hard (c.nat "thrn") thrd ref recs)
  else
  functional (c.get "go") (snpsOutput hard ref recs) (specSnpsOutput hard ref recs)

end Gofasta.Driver
