import Gofasta.Driver.Proto
import Gofasta.Model.Snps
import Gofasta.Spec.Snps
namespace Gofasta.Driver
open Gofasta.Model Gofasta.Spec

/-- spec-side rendering (shares only the text formatting with the model) -/
def specSnpsOutput (hard : Bool) (ref : List Nat) (recs : List (String × List Nat)) : String :=
  "query,SNPs\n" ++ String.join (recs.map fun r => snpsLine r.1 (specSnps hard ref r.2))

def recsOf (c : Case) : List (String × List Nat) :=
  (c.list "names").zip ((c.list "seqs").map strBytes)

def runC03 (c : Case) : Verdict :=
  let hard := c.bool "hard"
  let ref := c.bytes "ref"
  let recs := recsOf c
  functional (c.get "go") (snpsOutput hard ref recs) (specSnpsOutput hard ref recs)

end Gofasta.Driver
