import Gofasta.Driver.Proto
import Gofasta.Spec.Tables
import Gofasta.Spec.EncChecks
import Gofasta.Model.Util
namespace Gofasta.Driver
open Gofasta.Model Gofasta.Spec Gofasta.Base

/-- specification of Translate over base sets; none = error -/
def specTranslateSeq (strict : Bool) : List Nat → Option (List Nat)
  | [] => some []
  | a :: b :: c :: rest =>
    match specCodon [a, b, c] with
    | some aa => (specTranslateSeq strict rest).map (aa ++ ·)
    | none => if strict then none else (specTranslateSeq strict rest).map (88 :: ·)
  | _ => none

def optOut (o : Option (List Nat)) : String :=
  match o with
  | some bs => bytesToString bs
  | none => "!error"

def runC17 (c : Case) : Verdict :=
  let seq := c.bytes "seq"
  match c.get "kind" with
  | "translate" =>
    let strict := c.bool "strict"
    functional (c.get "go") (optOut (translateGo strict seq)) (optOut (specTranslateSeq strict seq))
  | "comp" => functional (c.get "go") (bytesToString (complement seq)) (bytesToString (seq.map specCompSym))
  | "revcomp" => functional (c.get "go") (bytesToString (reverseComplement seq)) (bytesToString ((seq.map specCompSym).reverse))
  | "enccomp" =>
    -- EncodedFastaRecord.Complement / ReverseComplement, observed after decoding: upper-cased text complement
    let m := (complementEnc (seq.map (enc false))).map dec
    let s := seq.map fun b => upper (specCompSym b)
    functional (c.get "go") (bytesToString m) (bytesToString s)
  | "encdec" =>
    -- encode under either gap mode, then EncodedFastaRecord.Decode: the upper-cased text
    let m := (seq.map (enc (c.bool "hard"))).map dec
    functional (c.get "go") (bytesToString m) (bytesToString (seq.map upper))
  | "encrevcomp" =>
    let m := (reverseComplementEnc (seq.map (enc false))).map dec
    let s := (seq.map fun b => upper (specCompSym b)).reverse
    functional (c.get "go") (bytesToString m) (bytesToString s)
  | _ => { agree := false, spec := "na", model := "unknown-kind" }

/-- search of the finite table obligations: one FAIL line per offending entry -/
def tableReport (pid : String) : List String :=
  let codon := (badCodons.map fun c => s!"FAIL codon {bytesToString c} dict={optOut (dictLookup c)} spec={optOut (specCodon c)}") ++
    (badCodonKeys.map fun k => s!"FAIL codon-key-outside-domain {bytesToString k}")
  let comp := badComp.map fun b => s!"FAIL complement byte={b} ({bytesToString [b]}) go={bytesToString [compText b]} spec={bytesToString [specCompSym b]}"
  match pid with
  | "C17" => codon ++ comp ++ encWitnesses
  | "C04" | "C14" | "C11" => codon ++ encWitnesses
  | _ => encWitnesses

end Gofasta.Driver
