import Gofasta.Driver.Proto
import Gofasta.Model.Pipeline
namespace Gofasta.Driver
open Gofasta.Model

/-- fault enumeration: `go` has one letter per fault point k = 1..n: E error reported, S success reported,
    H hang, P panic. The model (all sites checked, C19.sites_checked) reports an error at every k. -/
def runFault (c : Case) : Verdict :=
  let n := c.nat "n"
  let go := c.get "go"
  let model := String.ofList ((List.range n).map fun k => if Writer.reportsFailure (List.replicate n true) (k + 1) then 'E' else 'S')
  let bad := (go.toList.zip (List.range go.length)).filter fun (ch, _) => ch != 'E'
  { agree := go == model
    spec := if n == 0 then "fail:the-run-performed-no-write"
            else if go.length != n then "fail:fault-enumeration-incomplete"
            else match bad with
              | [] => "ok"
              | (ch, k) :: _ => "fail:write-failure-at-call-" ++ toString (k + 1) ++ "-reported-as-" ++
                  (if ch == 'S' then "success" else if ch == 'H' then "a-hang" else "a-panic")
    model := model }

/-- binary runs (C18/C19): go = "exit=<code>;timeout=<0|1>" ; a refusal = non-zero exit, promptly -/
def runExit (c : Case) : Verdict :=
  let go := c.get "go"
  let refused := !(go.startsWith "exit=0;") && go.endsWith "timeout=0"
  let want := c.get "expect"     -- "refuse" | "accept"
  let ok := if want == "accept" then go == "exit=0;timeout=0" else refused
  { agree := ok
    spec := if ok then "ok"
            else if go.endsWith "timeout=1" then "fail:did-not-terminate-promptly"
            else if want == "accept" then "fail:valid-input-refused"
            else "fail:invalid-input-or-failed-write-exited-0"
    model := if want == "accept" then "exit=0;timeout=0" else "exit!=0;timeout=0" }

end Gofasta.Driver

namespace Gofasta.Driver
open Gofasta.Model

/-- REORD: the exported writers fed an arbitrary arrival permutation; model = L-reorder's `Reorder.run` -/
def runReord (c : Case) : Verdict :=
  let perm := c.natList "perm"
  let sl := c.nat "seqlen"
  let w := c.int "wrap"
  let recText (i : Nat) : String :=
    let seq := List.replicate sl ("ACGT".toList.getD (i % 4) 'A')
    ">r" ++ toString i ++ "\n" ++
      (if w > 0 then String.join ((List.range ((sl + w.toNat - 1) / w.toNat)).map fun k => String.ofList ((seq.drop (k * w.toNat)).take w.toNat) ++ "\n")
       else String.ofList seq ++ "\n")
  if c.get "writer" == "variants" then
    -- variants.WriteVariants: header, then one row per record that is not the reference, in index order; the counter
    -- starts at `first` (1 when the reader consumed the reference)
    let first := c.nat "first"
    let refidx := c.int "refidx"
    let row (i : Nat) : String := if Int.ofNat i = refidx then "" else "r" ++ toString i ++ ",\n"
    let model := "query,mutations\n" ++ String.join (Reorder.runFrom first (perm.map fun i => (i + first, row i)))
    let spec := "query,mutations\n" ++ String.join (((List.range (c.nat "n")).filter fun (i : Nat) => (Int.ofNat i) != refidx).map fun i => "r" ++ toString i ++ ",\n")
    functional (c.get "go") model spec
  else
  let model := String.join (Reorder.run (perm.map fun i => (i, recText i)))
  let spec := String.join ((List.range (c.nat "n")).map recText)
  functional (c.get "go") model spec

end Gofasta.Driver
