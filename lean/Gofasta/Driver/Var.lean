import Gofasta.Driver.Proto
import Gofasta.Model.Regions
import Gofasta.Model.Fasta
import Gofasta.Spec.Variants
namespace Gofasta.Driver
open Gofasta.Model Gofasta.Spec Gofasta.Base

def parseSegs (s : String) : List (Nat × Nat) :=
  (splitList s "+").map fun seg => match seg.splitOn "-" with
    | [a, b] => (a.toNat?.getD 0, b.toNat?.getD 0)
    | _ => (0, 0)

def parseForm (s : String) : LocForm :=
  match s with
  | "range" => .range | "join" => .join | "comp" => .comp | "compjoin" => .compJoin | _ => .joinComp

/-- feats = gene~form~segs~codon_start~translation ; … -/
def parseGb (s : String) : List GbFeature :=
  (splitList s ";").filterMap fun f => match f.splitOn "~" with
    | [g, form, segs, cs, tr] => some { gene := g, form := parseForm form, segs := parseSegs segs,
                                        codonStart := cs.toNat?.getD 1, translation := strBytes tr }
    | _ => none

def optStr (s : String) : Option String := if s == "." then none else some s

/-- rows = type~start~end~strand~phase~id~name ; … -/
def parseGff (s : String) : List GffRow :=
  (splitList s ";").filterMap fun f => match f.splitOn "~" with
    | [t, a, b, st, ph, id, nm] => some { type := t, start := a.toNat?.getD 0, stop := b.toNat?.getD 0, strand := st,
                                          phase := ph.toNat?.getD 0, id := optStr id, name := optStr nm }
    | _ => none

structure VarIn where
  annfmt : String
  gb : List GbFeature
  gff : List GffRow
  refmode : String            -- msa | stdin | ann
  refname : String
  origin : List Nat
  recs : List (String × List Nat)
  append : Bool
  start : Int
  stop : Int
  agg : Bool
  thrn : Nat
  thrd : Nat

def varIn (c : Case) : VarIn :=
  { annfmt := c.get "annfmt", gb := parseGb (c.get "feats"), gff := parseGff (c.get "rows"),
    refmode := c.get "refmode", refname := c.get "refname", origin := c.bytes "origin",
    recs := (c.list "names").zip ((c.list "seqs").map strBytes),
    append := c.bool "append", start := c.int "start", stop := c.int "end",
    agg := c.bool "agg", thrn := c.nat "thrn", thrd := (if c.nat "thrd" == 0 then 1 else c.nat "thrd") }

/-- the reference row (raw bytes), the records that are rows of the output, the ID to skip -/
def refAndRows (vi : VarIn) : Option (List Nat × List (String × List Nat) × String) :=
  match vi.refmode with
  | "ann" => some (vi.origin, vi.recs, "annotation_fasta")
  | "stdin" => match vi.recs with
    | (n, s) :: rest => if n == vi.refname then some (s, rest, vi.refname) else none
    | [] => none
  | _ => match vi.recs.find? (fun r => r.1 == vi.refname) with
    | some (_, s) => some (s, vi.recs, vi.refname)
    | none => none

def degapUpper (s : List Nat) : List Nat := (s.filter (· != 45)).map upper

/-- the whole command on structured input; `pairFn` is the model's or the specification's caller -/
def varCommand (vi : VarIn) (pairFn : List Nat → List Nat → List Region → List Nat → List Variant) : String :=
  match refAndRows vi with
  | none => "!error"
  | some (refRow, rows, refID) =>
    let refD := degapUpper refRow
    let regs := if vi.annfmt == "gb" then
        (if refD.length != vi.origin.length then none else regionsFromGenbank vi.gb refD.length)
      else regionsFromGFF vi.gff refD
    match regs with
    | none => "!error"
    | some (regions, inter) =>
      if rows.any (fun r => r.2.length != refRow.length) then "!error" else
      let lists := rows.map fun r => (r.1, pairFn refRow r.2 regions inter)
      if vi.agg then variantsAggregate vi.append vi.start vi.stop vi.thrn vi.thrd refID lists
      else variantsOutput vi.append vi.start vi.stop refID lists

def modelPair (refRow q : List Nat) (regions : List Region) (inter : List Nat) : List Variant :=
  getVariantsPair (refRow.map (enc false)) (q.map (enc false)) regions inter

/-- keep only the records a property speaks about: focus=nucaa drops ins:/del:, focus=indel keeps only them -/
def focusOutput (focus : String) (agg : Bool) (out : String) : String :=
  if focus == "" || focus == "all" || out.startsWith "!" then out else
  let keep (m : String) : Bool :=
    let indel := m.startsWith "ins:" || m.startsWith "del:"
    if focus == "indel" then indel else !indel
  match out.splitOn "\n" with
  | h :: rest =>
    let body := rest.filter (!·.isEmpty)
    let body' := if agg then body.filter keep else body.map fun l =>
      match l.splitOn "," with
      | n :: ms => n ++ "," ++ joinWith "|" ((splitList (joinWith "," ms) "|").filter keep)
      | [] => l
    joinWith "\n" (h :: body') ++ "\n"
  | [] => out

def runVar (c : Case) : Verdict :=
  let vi := varIn c
  let f := focusOutput (c.get "focus") vi.agg
  functional (f (c.get "go")) (f (varCommand vi modelPair)) (f (varCommand vi specVariants))

/-! ### relations between two real runs (metamorphic properties) -/

def sortStrings (l : List String) : List String := sortStable (fun a b => decide (a < b)) l

/-- per-row multisets of mutation strings -/
def rowsAsMultisets (out : String) : List (String × List String) :=
  ((out.splitOn "\n").drop 1).filterMap fun l =>
    if l.isEmpty then none else
    match l.splitOn "," with
    | n :: rest => some (n, sortStrings (splitList (joinWith "," rest) "|"))
    | [] => none

/-- the aggregate table implied by a per-sequence output: (mutation, count, total) -/
def impliedCounts (perSeq : String) : List (String × Nat) × Nat :=
  let rows := rowsAsMultisets perSeq
  let muts := rows.flatMap fun r => r.2.eraseDups
  let distinct := muts.eraseDups
  (distinct.map fun m => (m, (muts.filter (· == m)).length), rows.length)

def runRel (c : Case) : Verdict :=
  let a := c.get "goa"
  let b := c.get "gob"
  match c.get "rel" with
  | "eq" =>
    let ok := a == b && !(a.startsWith "!")
    { agree := ok, spec := if ok then "ok" else if a == b then "fail:both-runs-failed" else "fail:the-two-runs-differ", model := a }
  | "same" =>
    -- two readers of one text: the same records, or both refuse it
    let ok := a == b && !(a.startsWith "!panic") && !(a.startsWith "!timeout")
    { agree := ok, spec := if ok then "ok" else "fail:the-two-readers-differ", model := a }
  | "allsame" =>
    let ok := c.nat "ndistinct" == 1 && !(a.startsWith "!")
    { agree := ok, spec := if ok then "ok" else if a.startsWith "!" then "fail:a-run-failed"
        else "fail:" ++ c.get "ndistinct" ++ "-different-outputs-over-" ++ c.get "runs" ++ "-runs", model := a }
  | "eq4" =>
    let all := [a, b, c.get "goc", c.get "god"]
    let ok := all.all (· == a) && !(a.startsWith "!")
    { agree := ok, spec := if ok then "ok" else "fail:the-four-input-combinations-differ", model := a }
  | "multiset" =>
    let ok := !(a.startsWith "!") && rowsAsMultisets a == rowsAsMultisets b
    { agree := ok, spec := if ok then "ok" else "fail:the-two-runs-differ-beyond-order", model := a }
  | "aggregate" =>
    -- a = per-sequence output, b = aggregate output of the same run; thrn/thrd = threshold
    let (counts, total) := impliedCounts a
    let thrn := c.nat "thrn"
    let thrd := if c.nat "thrd" == 0 then 1 else c.nat "thrd"
    let expect := sortStrings ((counts.filter fun e => e.2 * thrd ≥ thrn * total).map fun e => e.1 ++ "," ++ fmt9 e.2 total)
    let got := sortStrings (((b.splitOn "\n").drop 1).filter (!·.isEmpty))
    let ok := !(a.startsWith "!") && expect == got
    { agree := ok, spec := if ok then "ok" else "fail:aggregate-table-is-not-the-count-of-the-per-sequence-output",
      model := joinWith "\n" expect }
  | _ => { agree := false, spec := "na", model := "unknown-relation" }

end Gofasta.Driver
