import Gofasta.Driver.Proto
import Gofasta.Model.Updown
import Gofasta.Spec.Updown
namespace Gofasta.Driver
open Gofasta.Model Gofasta.Spec Gofasta.Base

structure TRIn where
  ref : List Nat
  qs : List (String × List Nat)
  ts : List (String × List Nat)
  table : Bool
  args : Option (List Nat × List Nat)
  opts : TROpts

def trIn (c : Case) : TRIn :=
  let args := udCheckArgs (c.int "sizetotal") (c.int "sizeup") (c.int "sizedown") (c.int "sizeside") (c.int "sizesame")
      (c.int "distall") (c.int "distup") (c.int "distdown") (c.int "distside") (c.int "distpush")
  { ref := c.bytes "ref",
    qs := (c.names "qnames").zip ((c.list "qseqs").map strBytes),
    ts := (c.names "tnames").zip ((c.list "tseqs").map strBytes),
    table := c.bool "table", args := args,
    opts := { sizes := (args.map (·.1)).getD [], dists := (args.map (·.2)).getD [], nofill := c.bool "nofill",
              thrNum := c.nat "thrn", thrDen := (if c.nat "thrd" == 0 then 1 else c.nat "thrd"),
              threshTarg := c.nat "threshtarg", push := (c.int "distpush").toNat, ignore := c.names "ignore" } }

def modelTR (ti : TRIn) : String :=
  match ti.args with
  | none => "!error"
  | some _ =>
    let encRef := ti.ref.map (enc false)
    let tl := ti.ts.map fun (n, s) => getLine n encRef (s.map (enc false))
    let rows := ti.qs.map fun (n, s) => (n, topRankingQuery ti.opts (getLine n encRef (s.map (enc false))) tl)
    if ti.table then trTableOutput rows else trListOutput rows

/-- the four bins of every query as reported by Go: (name, distance if the table form shows it) -/
def parseTR (ti : TRIn) (go : String) : Option (List (String × List (List (String × Option Nat)))) :=
  let lines := ((go.splitOn "\n").drop 1).filter (!·.isEmpty)
  if ti.table then
    some (ti.qs.map fun (qn, _) =>
      (qn, (List.range 4).map fun d => lines.filterMap fun l => match l.splitOn "," with
        | [q, dir, dist, t] => if q == qn && dir == dirName d then some (t, dist.toNat?) else none
        | _ => none))
  else
    if lines.length != ti.qs.length then none else
    some ((lines.zip ti.qs).map fun (l, (qn, _)) =>
      let f := l.splitOn ","
      (f.headD "", (List.range 4).map fun d => (splitList (f.getD (d + 1) "") ";").map fun t => (t, none)))

def runC08 (c : Case) : Verdict :=
  let ti := trIn c
  let go := c.get "go"
  let model := modelTR ti
  let spec : String :=
    match ti.args with
    | none => if go == "!error" then "ok" else "fail:option-set-without-size-or-distance-accepted"
    | some _ =>
      if go.startsWith "!" then "fail:valid-input-rejected" else
      match parseTR ti go with
      | none => "fail:not-one-row-per-query"
      | some rows =>
        let fails := (rows.zip ti.qs).filterMap fun ((qn, bins), (qn', q)) =>
          if qn != qn' then some "rows-not-in-query-order" else
          checkBins (candidates ti.ref q ti.ts ti.opts.thrNum ti.opts.thrDen ti.opts.threshTarg ti.opts.ignore)
            ti.opts.sizes ti.opts.dists ti.opts.nofill ti.opts.push bins
        match fails with
        | [] => "ok"
        | f :: _ => "fail:" ++ f
  { agree := go == model, spec := spec, model := model }

end Gofasta.Driver
