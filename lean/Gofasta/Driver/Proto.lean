/-
Line protocol shared with the Go harness: `prop \t id \t k=v \t …` ; values escaped (\\n \\t \\r \\\\).
-/
namespace Gofasta.Driver

def unescL : List Char → List Char
  | '\\' :: 'n' :: t => '\n' :: unescL t
  | '\\' :: 't' :: t => '\t' :: unescL t
  | '\\' :: 'r' :: t => '\r' :: unescL t
  | '\\' :: c :: t => c :: unescL t
  | c :: t => c :: unescL t
  | [] => []

def unesc (s : String) : String := String.ofList (unescL s.toList)

def escL : List Char → List Char
  | '\\' :: t => '\\' :: '\\' :: escL t
  | '\n' :: t => '\\' :: 'n' :: escL t
  | '\t' :: t => '\\' :: 't' :: escL t
  | '\r' :: t => '\\' :: 'r' :: escL t
  | c :: t => c :: escL t
  | [] => []

def esc (s : String) : String := String.ofList (escL s.toList)

structure Case where
  prop : String
  id : String
  fields : List (String × String)

def splitKV (s : String) : Option (String × String) :=
  let cs := s.toList
  let k := cs.takeWhile (· != '=')
  let rest := cs.dropWhile (· != '=')
  match rest with
  | [] => none
  | _ :: v => some (String.ofList k, unesc (String.ofList v))

def parseCase (line : String) : Option Case :=
  let l := String.ofList (line.toList.filter (· != '\n'))
  match l.splitOn "\t" with
  | prop :: id :: rest => some { prop := prop, id := id, fields := rest.filterMap splitKV }
  | _ => none

def Case.get (c : Case) (k : String) : String :=
  match c.fields.find? (·.1 == k) with
  | some (_, v) => v
  | none => ""

def Case.has (c : Case) (k : String) : Bool := (c.fields.find? (·.1 == k)).isSome

def Case.nat (c : Case) (k : String) : Nat := (c.get k).toNat?.getD 0

def Case.int (c : Case) (k : String) : Int := (c.get k).toInt?.getD 0

def Case.bool (c : Case) (k : String) : Bool := c.get k == "1"

def strBytes (s : String) : List Nat := s.toList.map Char.toNat

def Case.bytes (c : Case) (k : String) : List Nat := strBytes (c.get k)

/-- comma-separated list ; the empty string is the empty list -/
def splitList (s : String) (sep : String := ",") : List String :=
  if s.isEmpty then [] else s.splitOn sep

def Case.list (c : Case) (k : String) : List String := splitList (c.get k)

/-- record names: a comma inside a name travels as %2C (the list separator is the comma) -/
def Case.names (c : Case) (k : String) : List String := (c.list k).map fun s => s.replace "%2C" ","

def Case.natList (c : Case) (k : String) : List Nat := (c.list k).map fun s => s.toNat?.getD 0

structure Verdict where
  agree : Bool
  spec : String        -- "ok" | "fail:<why>" | "na"
  model : String

def Verdict.render (id : String) (v : Verdict) : String :=
  id ++ "\t" ++ (if v.agree then "AGREE" else "DISAGREE") ++ "\tspec-" ++ v.spec ++
    (if v.agree then "" else "\t" ++ esc v.model)

/-- verdict for a functional specification: the Go output must equal both -/
def functional (go model spec : String) : Verdict :=
  { agree := go == model, spec := if go == spec then "ok" else "fail:output-differs-from-spec", model := model }

end Gofasta.Driver
