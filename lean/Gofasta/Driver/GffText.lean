import Gofasta.Driver.Proto
import Gofasta.Model.GffText
/-
Stream C14gff / property GFFTXT: a GFF3 text -> the real gff.ReadGFF -> a canonical dump of everything it returned;
the Lean model of the reader must produce the same dump.

Strings travel "hex-rle" encoded (field `text`, and every string of the dump): two lower-case hex digits per byte;
a maximal run of n >= 16 equal bytes is written hh{n}; the empty string is "-". (The decoder accepts hh{n} for any n.)

The dump ("go" field; the items are separated by LF):
  !error:<kind>                  kind = version | seqreg | atoi | nfields | seqid | strand | phase | attributes |
                                        fasta-format | fasta-noid | fasta-difflen | fasta-invalid | fasta-empty
  ok
  V <version>
  H <header line>                one per element of HeaderLines, in order
  C <comment line>               one per element of CommentLines, in order
  R <key> <seqid> <start> <end>  SequenceRegions, sorted by key
  F <seqid> <source> <type> <start> <end> <score> <strand> <phase> <tag>=<v>,<v>;<tag>=<v>...   Features in order,
                                 attributes sorted by tag ("-" alone when the map is empty)
  I <id> <i>,<j>,...             IDmap, sorted by id
  A <key> <ID> <Description> <Seq> <Idx>   FASTA, sorted by key
-/
namespace Gofasta.Driver.GffTextD
open Gofasta.Driver Gofasta.Model Gofasta.Model.GffText

def hexCh (n : Nat) : Char := Char.ofNat (if n < 10 then 48 + n else 87 + n)

def hex2 (b : Nat) : String := String.ofList [hexCh (b / 16), hexCh (b % 16)]

def hexValC (c : Char) : Nat :=
  let n := c.toNat
  if 48 ≤ n ∧ n ≤ 57 then n - 48 else if 97 ≤ n ∧ n ≤ 102 then n - 87 else if 65 ≤ n ∧ n ≤ 70 then n - 55 else 0

partial def unrleLoop (cs : List Char) (acc : List Nat) : List Nat :=
  match cs with
  | '-' :: t => unrleLoop t acc
  | a :: b :: '{' :: t =>
    let (ds, rest) := t.span (· != '}')
    let n := (String.ofList ds).toNat?.getD 0
    unrleLoop (rest.drop 1) (List.replicate n (hexValC a * 16 + hexValC b) ++ acc)
  | a :: b :: t => unrleLoop t ((hexValC a * 16 + hexValC b) :: acc)
  | _ => acc

def unrle (s : String) : List Nat := (unrleLoop s.toList []).reverse

partial def rleLoop (bs : List Nat) (acc : List String) : List String :=
  match bs with
  | [] => acc
  | b :: t =>
    let run := (t.takeWhile (· == b)).length
    let rest := t.drop run
    let n := run + 1
    if n ≥ 16 then rleLoop rest ((hex2 b ++ "{" ++ toString n ++ "}") :: acc)
    else rleLoop rest (String.join (List.replicate n (hex2 b)) :: acc)

def rle (bs : List Nat) : String :=
  if bs.isEmpty then "-" else String.join (rleLoop bs []).reverse

def bytesLe : List Nat → List Nat → Bool
  | [], _ => true
  | _ :: _, [] => false
  | a :: s, b :: t => if a < b then true else if b < a then false else bytesLe s t

def sortByKey {α : Type} (m : List (List Nat × α)) : List (List Nat × α) := m.mergeSort fun a b => bytesLe a.1 b.1

def renderAttrsD (attrs : List (List Nat × List (List Nat))) : String :=
  if attrs.isEmpty then "-"
  else joinWith ";" ((sortByKey attrs).map fun a => rle a.1 ++ "=" ++ joinWith "," (a.2.map rle))

def renderFeatureD (f : Feature) : String :=
  "F " ++ rle f.seqid ++ " " ++ rle f.source ++ " " ++ rle f.type ++ " " ++ toString f.start ++ " " ++ toString f.stop ++
    " " ++ rle f.score ++ " " ++ rle f.strand ++ " " ++ toString f.phase ++ " " ++ renderAttrsD f.attrs

def errKind : Err → String
  | .version => "version"
  | .seqreg => "seqreg"
  | .atoi => "atoi"
  | .nfields => "nfields"
  | .seqid => "seqid"
  | .strand => "strand"
  | .phase => "phase"
  | .attrs => "attributes"
  | .faFormat => "fasta-format"
  | .faNoId => "fasta-noid"
  | .faDiffLen => "fasta-difflen"
  | .faInvalid => "fasta-invalid"
  | .faEmpty => "fasta-empty"
  | .tooLong => "toolong"

def renderFaD (a : List Nat × FaRecord) : String :=
  "A " ++ rle a.1 ++ " " ++ rle a.2.id ++ " " ++ rle a.2.desc ++ " " ++ rle a.2.seq ++ " " ++ toString a.2.idx

def renderResult : Result → String
  | .error e => "!error:" ++ errKind e
  | .ok g =>
    joinWith "\n" (["ok", "V " ++ rle g.version] ++ g.headers.map (fun h => "H " ++ rle h) ++
      g.comments.map (fun h => "C " ++ rle h) ++
      (sortByKey g.regions).map (fun r => "R " ++ rle r.1 ++ " " ++ rle r.2.seqid ++ " " ++ toString r.2.start ++ " " ++
        toString r.2.stop) ++
      g.features.map renderFeatureD ++
      (sortByKey g.idmap).map (fun r => "I " ++ rle r.1 ++ " " ++ joinWith "," (r.2.map toString)) ++
      (sortByKey g.fasta).map renderFaD)

/-! ### the structured rows a text was written from (field `rows`) -/

def parseAttrsD (s : String) : List (List Nat × List (List Nat)) :=
  if s.isEmpty then []
  else (s.splitOn "&").map fun kv =>
    match kv.splitOn "=" with
    | [k, v] => (unrle k, (v.splitOn ",").map unrle)
    | _ => ([], [])

def parseRowD (s : String) : Option Row :=
  match s.splitOn "~" with
  | [a, b, t, st, en, sc, sd, ph, ats] =>
    some { seqid := unrle a, source := unrle b, type := unrle t, start := st.toNat?.getD 0, stop := en.toNat?.getD 0,
           score := unrle sc, strand := unrle sd, phase := (if ph == "." then none else some (ph.toNat?.getD 0)),
           attrs := parseAttrsD ats }
  | _ => none

def hasDupTag (r : Row) : Bool :=
  let ks := r.attrs.map (·.1)
  ks.length != ks.eraseDups.length

/-- the FASTA records a text was written with (field `fa`: id~description~sequence;...) -/
def parseFaD (s : String) : List (List Nat × List Nat × List Nat) :=
  (splitList s ";").filterMap fun r =>
    match r.splitOn "~" with
    | [i, d, q] => some (unrle i, unrle d, unrle q)
    | _ => none

def upperB (b : Nat) : Nat := if 97 ≤ b ∧ b ≤ 122 then b - 32 else b

def specVerdict (c : Case) (text : List Nat) (go : String) : String :=
  -- dialect=gff3: constructs the GFF3 specification allows and this reader rejects or mangles (percent-escapes, a seqid
  -- with '-', a trailing ';', blank lines, several contigs under ##FASTA, a line of 64 KiB ...). None of the listed
  -- properties quantifies over them (DESIGN, notes on the text layers): model and code must still agree on them.
  if !c.has "rows" || c.get "dialect" == "gff3" then "ok"
  else
    let rowsO := (splitList (c.get "rows") ";").map parseRowD
    if rowsO.any Option.isNone then "fail:bad-rows-field"
    else
      let rows := rowsO.filterMap id
      let ver := unrle (c.get "ver")
      if c.get "canon" == "1" && render ver rows != text then "fail:rendered-bytes-differ-from-generator"
      else if go.startsWith "!" then "fail:written-gff-rejected:" ++ (go.drop 1).toString
      else
        let lines := go.splitOn "\n"
        let goF := lines.filter (·.startsWith "F ")
        let goA := lines.filter (·.startsWith "A ")
        let fa := parseFaD (c.get "fa")
        let expA := (sortByKey (fa.zipIdx.map fun p => (p.1.1, p))).map fun p =>
          "A " ++ rle p.1 ++ " " ++ rle p.1 ++ " " ++ rle p.2.1.2.1 ++ " " ++ rle (p.2.1.2.2.map upperB) ++ " " ++ toString p.2.2
        let longLine := (splitLinesAux text []).any fun l => l.length ≥ maxToken
        if longLine then "fail:over-long-line-not-reported"
        else if c.has "ver" && !lines.contains ("V " ++ rle ver) then "fail:version-does-not-read-back"
        else if c.has "fa" && goA != expA then "fail:fasta-does-not-read-back"
        else if goF == rows.map (fun r => renderFeatureD r.toFeatureRaw) then "ok"
        else if goF == rows.map (fun r => renderFeatureD r.toFeature) then "fail:percent-escapes-not-decoded"
        else if rows.any hasDupTag then "fail:duplicate-tag-collapsed"
        else "fail:gff-does-not-read-back"

end Gofasta.Driver.GffTextD

namespace Gofasta.Driver
open Gofasta.Model.GffText Gofasta.Driver.GffTextD

def runGffText (c : Case) : Verdict :=
  let text := unrle (c.get "text")
  let model := renderResult (readGFF text)
  let go := c.get "go"
  { agree := go == model, spec := specVerdict c text go, model := model }

end Gofasta.Driver
