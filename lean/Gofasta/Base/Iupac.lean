/-
Independent literals: nothing in this file is derived from the Go source.
IUPAC nucleotide codes as base sets, the standard genetic code (NCBI table 1),
base-wise complement, SAM CIGAR operator semantics (SAMv1 §1.4.6).
-/
namespace Gofasta.Base

/-- ASCII upper-casing of a byte -/
def upper (b : Nat) : Nat := if 97 ≤ b ∧ b ≤ 122 then b - 32 else b

/-- base set of an upper-case IUPAC letter as a 4-bit mask: A=1, C=2, G=4, T=8 -/
def letterSet : Nat → Option Nat
  | 65 => some 1    -- A
  | 67 => some 2    -- C
  | 71 => some 4    -- G
  | 84 => some 8    -- T
  | 82 => some 5    -- R = A|G
  | 89 => some 10   -- Y = C|T
  | 83 => some 6    -- S = C|G
  | 87 => some 9    -- W = A|T
  | 75 => some 12   -- K = G|T
  | 77 => some 3    -- M = A|C
  | 66 => some 14   -- B = C|G|T
  | 68 => some 13   -- D = A|G|T
  | 72 => some 11   -- H = A|C|T
  | 86 => some 7    -- V = A|C|G
  | 78 => some 15   -- N = any
  | _ => none

/-- base set denoted by a FASTA byte; `hard` = --hard-gaps ('-' denotes no base).
    `none` = the byte is not in the accepted alphabet. -/
def baseSet (hard : Bool) (b : Nat) : Option Nat :=
  if b = 45 then some (if hard then 0 else 15)       -- '-'
  else if b = 63 then some 15                         -- '?'
  else letterSet (upper b)

/-- the byte is one of A, C, G, T in either case -/
def isACGT (b : Nat) : Bool :=
  let u := upper b
  u == 65 || u == 67 || u == 71 || u == 84

/-- two symbols certainly differ: their base sets are disjoint -/
def disjointSyms (hard : Bool) (a b : Nat) : Bool :=
  match baseSet hard a, baseSet hard b with
  | some x, some y => x &&& y == 0
  | _, _ => false

/-- complement of a base set: A<->T, C<->G -/
def compSet (m : Nat) : Nat :=
  (if m &&& 1 != 0 then 8 else 0) ||| (if m &&& 8 != 0 then 1 else 0) |||
  (if m &&& 2 != 0 then 4 else 0) ||| (if m &&& 4 != 0 then 2 else 0)

/-- NCBI translation table 1, in the published order of bases T, C, A, G -/
def stdCodeTCAG : List Char :=
  "FFLLSSSSYY**CC*WLLLLPPPPHHQQRRRRIIIMTTTTNNKKSSRRVVVVAAAADDEEGGGG".toList

/-- index of a single base (mask 1,2,4,8 = A,C,G,T) in T,C,A,G order -/
def tcagIdx : Nat → Nat
  | 8 => 0 | 2 => 1 | 1 => 2 | 4 => 3 | _ => 0

/-- amino acid (as a byte) of an unambiguous codon given as three single-base masks -/
def stdAA (a b c : Nat) : Nat :=
  (stdCodeTCAG.getD (tcagIdx a * 16 + tcagIdx b * 4 + tcagIdx c) 'X').toNat

/-- single bases contained in a mask -/
def basesOf (m : Nat) : List Nat := [1, 2, 4, 8].filter (fun b => m &&& b != 0)

/-- products of all A/C/G/T expansions of a codon of three base sets -/
def expansions (x y z : Nat) : List Nat :=
  (basesOf x).flatMap fun a => (basesOf y).flatMap fun b => (basesOf z).map fun c => stdAA a b c

/-- the common product of all expansions, if there is one -/
def specTranslate (x y z : Nat) : Option Nat :=
  match expansions x y z with
  | [] => none
  | p :: ps => if ps.all (· == p) then some p else none

/-- SAM CIGAR operators, indexed M I D N S H P = X -> 0..8 : (consumes query, consumes reference) -/
def opConsumes : Nat → Bool × Bool
  | 0 => (true, true)    -- M
  | 1 => (true, false)   -- I
  | 2 => (false, true)   -- D
  | 3 => (false, true)   -- N
  | 4 => (true, false)   -- S
  | 5 => (false, false)  -- H
  | 6 => (false, false)  -- P
  | 7 => (true, true)    -- =
  | 8 => (true, true)    -- X
  | _ => (false, false)

end Gofasta.Base

namespace Gofasta.Base

/-- the upper-case IUPAC letter that denotes a base set (inverse of `letterSet`) -/
def symOfSet : Nat → Nat
  | 1 => 65 | 2 => 67 | 4 => 71 | 8 => 84
  | 5 => 82 | 10 => 89 | 6 => 83 | 9 => 87 | 12 => 75 | 3 => 77
  | 14 => 66 | 13 => 68 | 11 => 72 | 7 => 86 | 15 => 78
  | _ => 0

/-- complement of one text symbol, from base sets: case kept, '-' and '?' fixed -/
def specCompSym (b : Nat) : Nat :=
  if b = 45 ∨ b = 63 then b
  else match letterSet (upper b) with
    | some m => let u := symOfSet (compSet m); if 97 ≤ b ∧ b ≤ 122 then u + 32 else u
    | none => 0

end Gofasta.Base
