import Gofasta.Base.Iupac
import Gofasta.Model.Alphabet
/-
Executable Boolean checks of the regenerated tables against the independent literals of
Base/Iupac. Lemmas/… proves each `= true` by kernel evaluation; the driver uses the witness
variants to *search* for the failing entry when a table has changed.
-/
namespace Gofasta.Spec
open Gofasta.Base Gofasta.Model

/-- the 15 IUPAC nucleotide codes, upper case, in ascending byte order -/
def codes15 : List Nat := [65, 66, 67, 68, 71, 72, 75, 77, 78, 82, 83, 84, 86, 87, 89]

def allCodons : List (List Nat) :=
  codes15.flatMap fun x => codes15.flatMap fun y => codes15.map fun z => [x, y, z]

/-- what the dictionary must hold for a codon: the common product of all expansions, if unique -/
def specCodon : List Nat → Option (List Nat)
  | [x, y, z] =>
    match letterSet x, letterSet y, letterSet z with
    | some a, some b, some c => (specTranslate a b c).map fun aa => [aa]
    | _, _, _ => none
  | _ => none

def codonOk (c : List Nat) : Bool := dictLookup c == specCodon c

/-- linear merge of the (ascending) list of all codons with the (ascending) dictionary:
    every codon is either the next dictionary key, with the specified value, or has no product -/
def mergeCheck : List (List Nat) → List (List Nat × List Nat) → Bool
  | [], d => d.isEmpty
  | c :: cs, [] => (specCodon c).isNone && mergeCheck cs []
  | c :: cs, (k, v) :: d =>
    if k == c then (specCodon c == some v) && mergeCheck cs d
    else (specCodon c).isNone && mergeCheck cs ((k, v) :: d)

/-- a codon as a number, for the ordering argument -/
def codonCode : List Nat → Nat
  | [x, y, z] => x * 65536 + y * 256 + z
  | _ => 0

def ascCheck : List Nat → Bool
  | a :: b :: t => a < b && ascCheck (b :: t)
  | _ => true

def chkCodons : Bool := mergeCheck allCodons Gen.codonDict && ascCheck (allCodons.map codonCode)

def badCodons : List (List Nat) := allCodons.filter fun c => !codonOk c
def badCodonKeys : List (List Nat) := (Gen.codonDict.filter fun e => !allCodons.contains e.1).map (·.1)

/-- the 32 accepted nucleotide characters -/
def accepted32 : List Nat := (List.range 256).filter fun b => (baseSet false b).isSome

/-- text complement: denotes the complemented base set, keeps the case, fixes '-' and '?' -/
def compTextOk (b : Nat) : Bool :=
  let c := compText b
  (baseSet false c == (baseSet false b).map compSet) &&
  ((c == b) == (baseSet false b == (baseSet false b).map compSet)) &&   -- fixed exactly when self-complementary
  ((97 ≤ b && b ≤ 122) == (97 ≤ c && c ≤ 122))                          -- case preserved

def chkCompText : Bool := accepted32.all compTextOk

/-- encoded complement agrees with the text complement through the encoding -/
def compEncOk (b : Nat) : Bool := compEnc (enc false b) == enc false (compText b)

def chkCompEnc : Bool := accepted32.all compEncOk

def chkCompInvolutive : Bool :=
  (accepted32.all fun b => compText (compText b) == b) &&
  (accepted32.all fun b => compEnc (compEnc (enc false b)) == enc false b)

def badComp : List Nat := accepted32.filter fun b => !(compTextOk b && compEncOk b && compText (compText b) == b)

end Gofasta.Spec
