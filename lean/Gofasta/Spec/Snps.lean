import Gofasta.Base.Iupac
import Gofasta.Model.Util
/-
Specification of `snps` (C03, C13): written from the property statement, over base sets,
with no reference to the bit encoding.
-/
namespace Gofasta.Spec
open Gofasta.Base Gofasta.Model

/-- the symbol as it is printed: upper-case letter, '-' and '?' unchanged -/
def shown (b : Nat) : Nat := upper b

/-- columns (1-based) whose base sets are disjoint, ascending, with both symbols -/
def specSnpsFrom (hard : Bool) : Nat → List Nat → List Nat → List (Nat × Nat × Nat)
  | _, [], _ => []
  | _, _, [] => []
  | i, r :: rs, q :: qs =>
    if disjointSyms hard r q then (i + 1, shown r, shown q) :: specSnpsFrom hard (i + 1) rs qs
    else specSnpsFrom hard (i + 1) rs qs

def specSnps (hard : Bool) (ref q : List Nat) : List (Nat × Nat × Nat) := specSnpsFrom hard 0 ref q

end Gofasta.Spec
