import Gofasta.Base.Iupac
import Gofasta.Model.Updown
/-
Specification of `updown list` (C10) over raw symbols and base sets.
-/
namespace Gofasta.Spec
open Gofasta.Base Gofasta.Model

/-- what a row lets one know about a column: the base if it is A/C/G/T, otherwise '?' -/
def mask (b : Nat) : Nat := if isACGT b then upper b else 63

/-- is 1-based column p inside one of the tracts -/
def inTracts (p : Nat) (ambs : List (Nat × Nat)) : Bool := ambs.any fun a => a.1 ≤ p && p ≤ a.2

/-- base recorded for column p in the SNP list, if any -/
def snpAt (p : Nat) (snps : List Snp) : Option Nat := (snps.find? fun s => s.1 == p).map (·.2.2)

/-- reconstruct a sequence from a row and the reference (upper-cased), column by column -/
def reconstructFrom (snps : List Snp) (ambs : List (Nat × Nat)) : Nat → List Nat → List Nat
  | _, [] => []
  | i, r :: rs =>
    (if inTracts (i + 1) ambs then 63 else match snpAt (i + 1) snps with
      | some b => b
      | none => upper r) :: reconstructFrom snps ambs (i + 1) rs

def reconstruct (ref : List Nat) (l : UDLine) : List Nat := reconstructFrom l.snps l.ambs 0 ref

/-- tracts are well-formed, ascending and separated by at least one column (hence maximal, given
    that they cover exactly the ambiguous columns) -/
def tractsSeparated : Nat → List (Nat × Nat) → Bool
  | _, [] => true
  | lo, (a, b) :: t => lo < a && a ≤ b && tractsSeparated (b + 1) t

/-- the SNP list from base sets: A/C/G/T columns whose base is not in the reference symbol's set -/
def specUdSnps : Nat → List Nat → List Nat → List Snp
  | i, r :: rs, q :: qs =>
    if isACGT q && disjointSyms false r q then (i + 1, upper r, upper q) :: specUdSnps (i + 1) rs qs
    else specUdSnps (i + 1) rs qs
  | _, _, _ => []

def specAmbCount (q : List Nat) : Nat := (q.filter fun b => !isACGT b).length

theorem length_dropWhile_le' (p : Nat → Bool) : ∀ l : List Nat, (l.dropWhile p).length ≤ l.length
  | [] => by simp
  | x :: t => by
    simp only [List.dropWhile_cons]
    split
    · have := length_dropWhile_le' p t; simp only [List.length_cons]; omega
    · simp

/-- ambiguity tracts as maximal runs, computed declaratively: a tract starts at a non-A/C/G/T column
    whose predecessor is A/C/G/T (or the start) and runs while columns stay non-A/C/G/T -/
def specRuns : Nat → List Nat → List (Nat × Nat)
  | _, [] => []
  | i, b :: t =>
    if isACGT b then specRuns (i + 1) t
    else
      let run := t.takeWhile fun x => !isACGT x
      have : (t.dropWhile fun x => !isACGT x).length < (b :: t).length := by
        have := length_dropWhile_le' (fun x => !isACGT x) t
        simp only [List.length_cons]; omega
      (i + 1, i + 1 + run.length) :: specRuns (i + 1 + run.length) (t.dropWhile fun x => !isACGT x)
termination_by _ l => l.length

def specUdLine (id : String) (ref q : List Nat) : UDLine :=
  let s := specUdSnps 0 ref q
  { id := id, snps := s, ambs := specRuns 0 q, snpCount := s.length, ambCount := specAmbCount q }

end Gofasta.Spec
