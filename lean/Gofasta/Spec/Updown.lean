import Gofasta.Base.Iupac
import Gofasta.Model.Updown
/-
Specification of `updown list` (C10) over raw symbols and base sets.
-/
namespace Gofasta.Spec
open Gofasta.Base Gofasta.Model

/-- what a row lets one know about a column: the base if it is A/C/G/T, otherwise '?' -/
def mask (b : Nat) : Nat := if isACGT b then upper b else 63

/-- is 1-based column p inside one of the tracts -/
def inTracts (p : Nat) (ambs : List (Nat × Nat)) : Bool := ambs.any fun a => a.1 ≤ p && p ≤ a.2

/-- base recorded for column p in the SNP list, if any -/
def snpAt (p : Nat) (snps : List Snp) : Option Nat := (snps.find? fun s => s.1 == p).map (·.2.2)

/-- reconstruct a sequence from a row and the reference (upper-cased), column by column -/
def reconstructFrom (snps : List Snp) (ambs : List (Nat × Nat)) : Nat → List Nat → List Nat
  | _, [] => []
  | i, r :: rs =>
    (if inTracts (i + 1) ambs then 63 else match snpAt (i + 1) snps with
      | some b => b
      | none => upper r) :: reconstructFrom snps ambs (i + 1) rs

def reconstruct (ref : List Nat) (l : UDLine) : List Nat := reconstructFrom l.snps l.ambs 0 ref

/-- tracts are well-formed, ascending and separated by at least one column (hence maximal, given
    that they cover exactly the ambiguous columns) -/
def tractsSeparated : Nat → List (Nat × Nat) → Bool
  | _, [] => true
  | lo, (a, b) :: t => lo < a && a ≤ b && tractsSeparated (b + 1) t

/-- the SNP list from base sets: A/C/G/T columns whose base is not in the reference symbol's set -/
def specUdSnps : Nat → List Nat → List Nat → List Snp
  | i, r :: rs, q :: qs =>
    if isACGT q && disjointSyms false r q then (i + 1, upper r, upper q) :: specUdSnps (i + 1) rs qs
    else specUdSnps (i + 1) rs qs
  | _, _, _ => []

def specAmbCount (q : List Nat) : Nat := (q.filter fun b => !isACGT b).length

theorem length_dropWhile_le' (p : Nat → Bool) : ∀ l : List Nat, (l.dropWhile p).length ≤ l.length
  | [] => by simp
  | x :: t => by
    simp only [List.dropWhile_cons]
    split
    · have := length_dropWhile_le' p t; simp only [List.length_cons]; omega
    · simp

/-- ambiguity tracts as maximal runs, computed declaratively: a tract starts at a non-A/C/G/T column
    whose predecessor is A/C/G/T (or the start) and runs while columns stay non-A/C/G/T -/
def specRuns : Nat → List Nat → List (Nat × Nat)
  | _, [] => []
  | i, b :: t =>
    if isACGT b then specRuns (i + 1) t
    else
      let run := t.takeWhile fun x => !isACGT x
      have : (t.dropWhile fun x => !isACGT x).length < (b :: t).length := by
        have := length_dropWhile_le' (fun x => !isACGT x) t
        simp only [List.length_cons]; omega
      (i + 1, i + 1 + run.length) :: specRuns (i + 1 + run.length) (t.dropWhile fun x => !isACGT x)
termination_by _ l => l.length

def specUdLine (id : String) (ref q : List Nat) : UDLine :=
  let s := specUdSnps 0 ref q
  { id := id, snps := s, ambs := specRuns 0 q, snpCount := s.length, ambCount := specAmbCount q }

end Gofasta.Spec

namespace Gofasta.Spec
open Gofasta.Base Gofasta.Model

/-! ### updown topranking (C08): from the sequences themselves -/

structure PairTable where
  qOnly : Nat := 0    -- query A/C/G/T differences from the reference that the target (resolved there) lacks
  tOnly : Nat := 0
  shared : Nat := 0
  amb : Nat := 0      -- a difference of one sequence at a site where the other is not A/C/G/T
  dist : Nat := 0     -- columns where both are A/C/G/T and differ
  deriving Repr

/-- one column of (reference, query, target), reference A/C/G/T -/
def pairCol (r q t : Nat) (p : PairTable) : PairTable :=
  let qs := isACGT q && upper q != upper r     -- query SNP
  let ts := isACGT t && upper t != upper r     -- target SNP
  let p1 := if qs then
      (if !isACGT t then { p with amb := p.amb + 1 }
       else if upper t == upper q then { p with shared := p.shared + 1 }
       else { p with qOnly := p.qOnly + 1 })
    else p
  let p2 := if ts then
      (if !isACGT q then { p1 with amb := p1.amb + 1 }
       else if upper t == upper q then p1
       else { p1 with tOnly := p1.tOnly + 1 })
    else p1
  if isACGT q && isACGT t && upper q != upper t then { p2 with dist := p2.dist + 1 } else p2

def pairTable : List Nat → List Nat → List Nat → PairTable
  | r :: rs, q :: qs, t :: ts => pairCol r q t (pairTable rs qs ts)
  | _, _, _ => {}

/-- bin: 0 same, 1 up (only the query has private differences), 2 down, 3 side -/
def binOf (p : PairTable) : Nat :=
  if p.qOnly = 0 ∧ p.tOnly = 0 then 0 else if p.tOnly = 0 then 1 else if p.qOnly = 0 then 2 else 3

structure Cand where
  name : String
  bin : Nat
  dist : Nat
  amb : Nat
  idx : Nat
  deriving Repr, Inhabited

def candLt (a b : Cand) : Bool :=
  a.dist < b.dist || (a.dist == b.dist && (a.amb < b.amb || (a.amb == b.amb && a.idx < b.idx)))

/-- eligible targets of a query: pass both ambiguity thresholds, not ignored -/
def candidates (ref q : List Nat) (targets : List (String × List Nat)) (thrNum thrDen threshTarg : Nat) (ignore : List String) : List Cand :=
  (targets.zip (List.range targets.length)).filterMap fun ((n, t), i) =>
    let p := pairTable ref q t
    let sum := p.qOnly + p.tOnly + p.shared + p.amb
    let ambT := specAmbCount t
    if ambT > threshTarg || ignore.contains n then none
    else if sum > 0 && p.amb * thrDen > thrNum * sum then none
    else some { name := n, bin := binOf p, dist := p.dist, amb := ambT, idx := i }

def insCand (x : Cand) : List Cand → List Cand
  | [] => [x]
  | y :: t => if candLt x y then x :: y :: t else y :: insCand x t

def sortCands (l : List Cand) : List Cand := l.foldl (fun acc x => insCand x acc) []

/-- verdict on the four reported bins of one query (names and, if known, distances);
    returns a reason on failure -/
def checkBins (cands : List Cand) (sizes dists : List Nat) (nofill : Bool) (push : Nat)
    (bins : List (List (String × Option Nat))) : Option String :=
  let per := (List.range 4).map fun b => sortCands (cands.filter fun c => c.bin == b)
  if push > 0 then
    let ok := (List.range 4).all fun b =>
      let cs := per.getD b []
      let expect := if b = 0 then cands.filter (fun c => c.bin == 0) else     -- every identical target, in file order
        let ds := ((cs.map (·.dist)).eraseDups).take push     -- cs is sorted: the k smallest occurring distances
        cs.filter fun c => ds.contains c.dist
      (bins.getD b []).map (·.1) == expect.map (·.name)
    if ok then none else some "push-bins-are-not-the-k-nearest-distances"
  else
    let lim := (List.range 4).map fun b => (per.getD b []).filter fun c => c.dist ≤ dists.getD b 0
    let total := if sizes.contains bigN then bigN else sizes.sum
    let got := (List.range 4).map fun b => bins.getD b []
    let prefixOk := (List.range 4).all fun b =>
      (got.getD b []).map (·.1) == ((lim.getD b []).take (got.getD b []).length).map (·.name)
    let distOk := (List.range 4).all fun b => ((got.getD b []).zip (lim.getD b [])).all fun (g, c) =>
      match g.2 with | some d => d == c.dist | none => true
    let n := got.map (·.length)
    let obs := lim.map (·.length)
    let want := (List.range 4).map fun b => min (sizes.getD b 0) (obs.getD b 0)
    let sumOk := n.sum ≤ total
    let nofillOk := !nofill || n == want
    let atLeast := (List.range 4).all fun b => want.getD b 0 ≤ n.getD b 0
    let fillOk := nofill || n.sum == min total obs.sum
    -- evenness: among bins that still had spare candidates, extras differ by at most one, earlier bins first
    let extras := (List.range 4).map fun b => n.getD b 0 - want.getD b 0
    let spare := (List.range 4).filter fun b => n.getD b 0 < obs.getD b 0
    let evenOk := nofill || spare.all fun a => (List.range 4).all fun b =>
      extras.getD b 0 ≤ extras.getD a 0 + 1 && (!(b > a) || extras.getD b 0 ≤ extras.getD a 0 || n.getD a 0 == obs.getD a 0)
    if !prefixOk then some "a-bin-is-not-a-prefix-of-its-ranked-candidates"
    else if !distOk then some "reported-distance-is-not-the-number-of-differing-resolved-columns"
    else if !sumOk then some "total-exceeds-the-requested-size"
    else if !nofillOk then some "no-fill-bin-size-is-not-min(requested,available)"
    else if !atLeast then some "a-bin-got-fewer-than-min(requested,available)"
    else if !fillOk then some "fill-did-not-reach-min(total,supply)"
    else if !evenOk then some "fill-is-not-even"
    else none

end Gofasta.Spec
