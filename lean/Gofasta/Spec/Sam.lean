import Gofasta.Base.Iupac
import Gofasta.Model.Sam
/-
Specification of sam toMultiAlign (C01) and sam toPairAlign (C02) from the SAM alignment relation:
which reference position each query base is aligned to, which positions a record deletes, and where
it inserts — defined from the operators' meaning in the SAM specification, per column.
-/
namespace Gofasta.Spec
open Gofasta.Base Gofasta.Model

/-- what one record says about a reference position -/
inductive Cov where
  | base (b : Nat)
  | del
  deriving DecidableEq, Repr

/-- the alignment relation of one record: (0-based reference index, coverage), from SAMv1 §1.4.6:
    M,=,X align a query base to a reference base; D deletes a reference base; N skips reference
    bases (no coverage); I and S consume query only; H and P consume nothing -/
def isAligned (op : Nat) : Bool := op == 0 || op == 7 || op == 8      -- M = X
def isQueryOnly (op : Nat) : Bool := op == 1 || op == 4              -- I S

def covList (seq : List Nat) : List (Nat × Nat) → Nat → Nat → List (Nat × Cov)
  | [], _, _ => []
  | (op, len) :: rest, q, r =>
    if isAligned op then
      ((List.range len).map fun k => (r + k, Cov.base (seq.getD (q + k) 0))) ++ covList seq rest (q + len) (r + len)
    else if op == 2 then ((List.range len).map fun k => (r + k, Cov.del)) ++ covList seq rest q (r + len)   -- D
    else if op == 3 then covList seq rest q (r + len)                                                         -- N
    else if isQueryOnly op then covList seq rest (q + len) r
    else covList seq rest q r                                                                                 -- H P

def covOf (rec : SamRec) : List (Nat × Cov) := covList rec.seq rec.cigar 0 rec.pos

def covAt (rec : SamRec) (i : Nat) : Option Cov := ((covOf rec).find? fun e => e.1 == i).map (·.2)

/-- insertions of a record: (number of reference bases to the left, inserted bases) -/
def insList (seq : List Nat) : List (Nat × Nat) → Nat → Nat → List (Nat × List Nat)
  | [], _, _ => []
  | (op, len) :: rest, q, r =>
    if isAligned op then insList seq rest (q + len) (r + len)
    else if op == 2 || op == 3 then insList seq rest q (r + len)
    else if op == 1 then (r, (seq.drop q).take len) :: insList seq rest (q + len) r
    else if op == 4 then insList seq rest (q + len) r
    else insList seq rest q r

/-- a query's symbol at reference position i before the flank rule: the base if exactly one base value is
    aligned there, 'N' if two different ones are, '-' if some record deletes it and none aligns a base,
    none if no record covers it -/
def flatCol (block : List SamRec) (i : Nat) : Option Nat :=
  let covs := block.filterMap fun r => covAt r i
  let bases := (covs.filterMap fun c => match c with | .base b => some b | .del => none).eraseDups
  match bases with
  | [b] => some b
  | _ :: _ :: _ => some letN
  | [] => if covs.contains .del then some dash else none

/-- one toMultiAlign row over the whole reference -/
def specTomaRow (block : List SamRec) (L : Nat) (pad : Bool) : List Nat :=
  let cols := (List.range L).map (flatCol block)
  let isBase (c : Option Nat) : Bool := match c with | some b => isLetter b | none => false
  let first := (List.range L).find? fun i => isBase (cols.getD i none)
  let last := ((List.range L).reverse).find? fun i => isBase (cols.getD i none)
  (cols.zip (List.range L)).map fun (c, i) =>
    match c with
    | some b => b
    | none =>
      if pad then letN else
      match first, last with
      | some f, some l => if f < i ∧ i < l then letN else dash
      | _, _ => dash

/-- window s..e (1-based inclusive) of a row: the columns, or 'N' outside when padding -/
def specWindow (row : List Nat) (pad trim : Bool) (s e : Nat) : List Nat :=
  if !trim then row
  else if pad then (row.zip (List.range row.length)).map fun (b, i) => if s ≤ i + 1 ∧ i + 1 ≤ e then b else letN
  else (row.drop (s - 1)).take (e + 1 - s)

/-- the pair by position merge: before reference base p come the columns of every insertion located at p
    (reference '-', query = the inserted bases), then the column of base p itself -/
def specPair (block : List SamRec) (ref : List Nat) : List Nat × List Nat :=
  let inss := block.flatMap fun r => insList r.seq r.cigar 0 r.pos
  let colsAt (p : Nat) : List (Nat × Nat) :=
    ((inss.filter fun x => x.1 == p).flatMap fun x => x.2.map fun b => (dash, b)) ++
    (match ref[p]? with
     | some rb => [(rb, (flatCol block p).getD letN)]
     | none => [])
  let cols := (List.range (ref.length + 1)).flatMap colsAt
  (cols.map (·.1), cols.map (·.2))

/-- with skip-insertions: the reference as it is, the query row is the padded row of toMultiAlign -/
def specPairNoIns (block : List SamRec) (ref : List Nat) : List Nat × List Nat :=
  (ref, specTomaRow block ref.length true)

/-- cut a gapped pair from the column of reference base s to that of base e -/
def specTrimPair (p : List Nat × List Nat) (s e : Nat) : List Nat × List Nat :=
  let idx := (p.1.zip (List.range p.1.length)).filter fun (b, _) => b != dash
  match idx[s - 1]?, idx[e - 1]? with
  | some (_, a), some (_, b) => ((p.1.drop a).take (b + 1 - a), (p.2.drop a).take (b + 1 - a))
  | _, _ => p

end Gofasta.Spec
