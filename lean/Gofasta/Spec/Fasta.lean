import Gofasta.Base.Iupac
import Gofasta.Model.Fasta
/-
Declarative reading of a FASTA byte stream (C16), independent of the readers' state machine:
cut the line list at header lines; a record's sequence is the concatenation of the lines up to
the next header. Only `splitLines`/`firstField` (the trusted line/token splitting) are shared.
-/
namespace Gofasta.Spec
open Gofasta.Base Gofasta.Model

def isHeader (l : List Nat) : Bool := l.head? == some 62

/-- sequence lines up to the next header, and the rest -/
def takeSeq : List (List Nat) → List Nat × List (List Nat)
  | [] => ([], [])
  | l :: ls => if isHeader l then ([], l :: ls) else
      let r := takeSeq ls
      (l ++ r.1, r.2)

theorem takeSeq_length_le (ls : List (List Nat)) : (takeSeq ls).2.length ≤ ls.length := by
  induction ls with
  | nil => simp [takeSeq]
  | cons l t ih => simp only [takeSeq]; split <;> simp <;> omega

/-- (header without '>', raw sequence) blocks; `none` when the stream does not start with a header -/
def blocks : List (List Nat) → Option (List (List Nat × List Nat))
  | [] => some []
  | l :: ls =>
    if isHeader l then
      have : (takeSeq ls).2.length < (l :: ls).length := by
        have := takeSeq_length_le ls; simp only [List.length_cons]; omega
      (blocks (takeSeq ls).2).map fun bs => (l.drop 1, (takeSeq ls).1) :: bs
    else none
termination_by ls => ls.length

/-- no records: no header at all, or a file that consists of one single header followed by no sequence.
    (A last header without a sequence AFTER other records is not a special case: it is a record of length 0 and
    falls under "unequal lengths" unless all records are empty.) -/
def noRecords : List (List Nat × List Nat) → Bool
  | [] => true
  | [(_, [])] => true
  | _ => false

/-- unequal record lengths: some record - the last one included, an empty one included - differs in length
    from the first -/
def unequalLengths : List (List Nat × List Nat) → Bool
  | [] => false
  | r :: rs => rs.any fun x => x.2.length != r.2.length

/-- the conditions under which the property demands an error (for an encoded reader):
    no leading header, a header without ID, a symbol outside the alphabet, unequal lengths, no records -/
def mustReject (hard : Bool) (text : List Nat) : Bool :=
  let lines := (splitLines text).filter (fun l => !l.isEmpty)
  match blocks lines with
  | none => true
  | some bs =>
    noRecords bs ||
    bs.any (fun b => (firstField b.1).isNone) ||
    bs.any (fun b => b.2.any fun c => (baseSet hard c).isNone) ||
    unequalLengths bs

/-- the same for the plain-text reader, which does not look at the alphabet: no leading header, a header without ID,
unequal lengths, no records -/
def mustRejectPlain (text : List Nat) : Bool :=
  let lines := (splitLines text).filter (fun l => !l.isEmpty)
  match blocks lines with
  | none => true
  | some bs =>
    noRecords bs ||
    bs.any (fun b => (firstField b.1).isNone) ||
    unequalLengths bs

def hasBlankLine (text : List Nat) : Bool := (splitLines text).any (·.isEmpty)

/-- completeness score and A/C/G/T counts from base sets -/
def specScore (hard : Bool) (s : List Nat) : Nat :=
  (s.map fun b => match baseSet hard b with
    | some m => if (basesOf m).length = 0 then 0 else 12 / (basesOf m).length   -- a hard gap denotes no base: scores 0
    | none => 0).sum

def countSym (u : Nat) (s : List Nat) : Nat := (s.filter fun b => upper b == u).length

end Gofasta.Spec
