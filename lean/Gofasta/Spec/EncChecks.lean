import Gofasta.Base.Iupac
import Gofasta.Model.Encoding
/-
Executable Boolean checks of the regenerated encoding tables against the independent base-set
literals (definitions only; Lemmas/Enc proves each `= true` by kernel evaluation).
-/
namespace Gofasta.Spec
open Gofasta.Base Gofasta.Model

/-- bytes the encoder accepts under gap mode `hard` -/
def acceptedBytes (hard : Bool) : List Nat := (List.range 256).filter (fun b => enc hard b != 0)

def chkAccept (hard : Bool) : Bool :=
  (List.range 256).all fun b => (enc hard b != 0) == (baseSet hard b).isSome

def chkDisjoint (hard : Bool) : Bool :=
  (acceptedBytes hard).all fun a => (acceptedBytes hard).all fun b =>
    encDiffer (enc hard a) (enc hard b) == disjointSyms hard a b

def chkDec (hard : Bool) : Bool :=
  (acceptedBytes hard).all fun b => dec (enc hard b) == upper b

def chkCase (hard : Bool) : Bool :=
  (List.range 256).all fun b => enc hard (upper b) == enc hard b

def chkResolved (hard : Bool) : Bool :=
  (acceptedBytes hard).all fun b => encResolved (enc hard b) == isACGT b

def popcount4 (m : Nat) : Nat := (basesOf m).length

def chkScore : Bool :=
  (acceptedBytes false).all fun b =>
    match baseSet false b with
    | some m => scoreOf (enc false b) * popcount4 m == 12
    | none => false

def chkTransitions : Bool :=
  (acceptedBytes false).all fun a => (acceptedBytes false).all fun b =>
    (!(isACGT a && isACGT b)) ||
      (((enc false a ||| enc false b) == 200) ==
          ((upper a == 65 && upper b == 71) || (upper a == 71 && upper b == 65))) &&
      (((enc false a ||| enc false b) == 56) ==
          ((upper a == 67 && upper b == 84) || (upper a == 84 && upper b == 67)))

def chkSame : Bool :=
  (acceptedBytes false).all fun a => (acceptedBytes false).all fun b =>
    (!(isACGT a)) || ((enc false a == enc false b) == (upper a == upper b))

def chkResolvedDiffer : Bool :=
  (acceptedBytes false).all fun a => (acceptedBytes false).all fun b =>
    (!(isACGT a && isACGT b)) || (encDiffer (enc false a) (enc false b) == !(enc false a == enc false b))

/-- the code of the soft gap is reserved for '-' -/
def chkGapCode : Bool := (acceptedBytes false).all fun b => (enc false b == 244) == (b == 45)

/-! witness search (used by the driver when an obligation no longer checks) -/
def encWitnesses : List String :=
  let modes := [false, true]
  (modes.flatMap fun h => ((List.range 256).filter fun b => ((enc h b != 0) == (baseSet h b).isSome) == false).map
      fun b => s!"FAIL enc-accept hard={h} byte={b} enc={enc h b}") ++
  (modes.flatMap fun h => (acceptedBytes h).flatMap fun a => ((acceptedBytes h).filter fun b =>
      (encDiffer (enc h a) (enc h b) == disjointSyms h a b) == false).map
      fun b => s!"FAIL enc-disjoint hard={h} a={a} b={b} go-differ={encDiffer (enc h a) (enc h b)} spec-disjoint={disjointSyms h a b}") ++
  (modes.flatMap fun h => ((acceptedBytes h).filter fun b => (dec (enc h b) == upper b) == false).map
      fun b => s!"FAIL dec-enc hard={h} byte={b} dec={dec (enc h b)}") ++
  (modes.flatMap fun h => ((List.range 256).filter fun b => (enc h (upper b) == enc h b) == false).map
      fun b => s!"FAIL enc-case hard={h} byte={b}") ++
  (modes.flatMap fun h => ((acceptedBytes h).filter fun b => (encResolved (enc h b) == isACGT b) == false).map
      fun b => s!"FAIL enc-resolved hard={h} byte={b}") ++
  (((acceptedBytes false).filter fun b => match baseSet false b with
      | some m => (scoreOf (enc false b) * popcount4 m == 12) == false
      | none => true).map fun b => s!"FAIL score byte={b} score={scoreOf (enc false b)}") ++
  (if chkTransitions then [] else ["FAIL transitions (a|b)==200 / ==56 no longer mean {A,G} / {C,T}"]) ++
  (if chkResolvedDiffer then [] else ["FAIL resolved-differ: two resolved bases test as different iff their codes differ"]) ++
  (if chkGapCode then [] else ["FAIL gap-code: 244 no longer encodes exactly '-'"]) ++
  (if chkSame then [] else ["FAIL same-code: equal codes on resolved bases no longer mean equal bases"])

end Gofasta.Spec
