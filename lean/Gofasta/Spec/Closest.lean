import Gofasta.Base.Iupac
import Gofasta.Model.Closest
/-
Specification of the distances (C07) and of nearest-neighbour selection (C06), from the property
statements: per-column definitions over base sets; "sort by the total key and take K".
-/
namespace Gofasta.Spec
open Gofasta.Base Gofasta.Model

/-- snp distance: number of columns with disjoint base sets -/
def specSnp : List Nat → List Nat → Nat
  | q :: qs, t :: ts => (if disjointSyms false q t then 1 else 0) + specSnp qs ts
  | _, _ => 0

/-- both symbols are the same unambiguous base -/
def sameBase (a b : Nat) : Bool := isACGT a && isACGT b && upper a == upper b

/-- raw distance as a fraction: n / (n + same) -/
def specRaw : List Nat → List Nat → Nat × Nat
  | q :: qs, t :: ts =>
    let r := specRaw qs ts
    let n := if disjointSyms false q t then 1 else 0
    let s := if sameBase q t then 1 else 0
    (r.1 + n, r.2 + n + s)
  | _, _ => (0, 0)

def isPair (a b x y : Nat) : Bool := (upper a == x && upper b == y) || (upper a == y && upper b == x)

/-- tn93 counts on the columns where both are A/C/G/T -/
def specTn : List Nat → List Nat → TnCounts
  | q :: qs, t :: ts =>
    let r := specTn qs ts
    if isACGT q && isACGT t then
      if upper q == upper t then { r with l := r.l + 1 }
      else { r with l := r.l + 1, d := r.d + 1,
                    p1 := r.p1 + (if isPair q t 65 71 then 1 else 0),     -- A <-> G
                    p2 := r.p2 + (if isPair q t 67 84 then 1 else 0) }    -- C <-> T
    else r
  | _, _ => {}

def countUpper (u : Nat) (s : List Nat) : Nat := (s.filter fun b => upper b == u).length

/-- distance of a (query, target) pair given as raw FASTA bytes -/
def specDistance (m : Measure) (q t : List Nat) : DVal :=
  match m with
  | .snp => .nat (specSnp q t)
  | .raw => let r := specRaw q t; .rat r.1 r.2
  | .tn93 => .flt (tn93Float (specTn q t) (countUpper 65 t) (countUpper 67 t) (countUpper 71 t) (countUpper 84 t))

/-- the documented total order: distance, then higher completeness, then position in the file -/
def keyLt (a b : Hit) : Bool :=
  a.dist.lt b.dist || (a.dist.eq b.dist && (a.score > b.score || (a.score == b.score && a.idx < b.idx)))

/-- minimum of a non-empty list under the total order, with the rest -/
def extractMin : Hit → List Hit → Hit × List Hit
  | x, [] => (x, [])
  | x, y :: t =>
    let r := extractMin y t
    if keyLt r.1 x then (r.1, x :: r.2) else (x, y :: t)

theorem extractMin_length (x : Hit) (l : List Hit) : (extractMin x l).2.length = l.length := by
  induction l generalizing x with
  | nil => simp [extractMin]
  | cons y t ih => simp only [extractMin]; split <;> simp [ih]

/-- selection sort under the total order, truncated at K -/
def selectK : Nat → List Hit → List Hit
  | 0, _ => []
  | _, [] => []
  | k + 1, x :: t =>
    let r := extractMin x t
    have : r.2.length < (x :: t).length := by simp [r, extractMin_length]
    r.1 :: selectK k r.2
termination_by _ l => l.length

/-- the first K targets, within distance D (undefined distances are within no D), in the documented order -/
def specClosestN (K : Nat) (maxd : Option (Nat × Nat)) (hits : List Hit) : List Hit :=
  let within := match maxd with
    | none => hits
    | some (n, d) => hits.filter fun h => !h.dist.beyond n d
  selectK K within

end Gofasta.Spec
