import Gofasta.Base.Iupac
import Gofasta.Model.Regions
/-
Specification of the mutation list of one (reference row, query row) pair (C04, C05), written from
the property statements over raw symbols and base sets, per column / per codon, without the
alignment<->reference offset tables and without the stateful scans of the implementation.
-/
namespace Gofasta.Spec
open Gofasta.Base Gofasta.Model

def isGap (b : Nat) : Bool := b == 45

/-- drop the columns that are gaps in both rows: the pairwise relation of query and reference -/
def normalise : List Nat → List Nat → List (Nat × Nat)
  | r :: rs, q :: qs => if isGap r && isGap q then normalise rs qs else (r, q) :: normalise rs qs
  | _, _ => []

theorem length_dropWhile_le {α : Type} (p : α → Bool) : ∀ l : List α, (l.dropWhile p).length ≤ l.length
  | [] => by simp
  | x :: t => by
    simp only [List.dropWhile_cons]
    split
    · have := length_dropWhile_le p t; simp only [List.length_cons]; omega
    · simp

/-- insertions: each maximal run of (reference gap, query base) columns of the normalised pair,
    reported as (number of reference bases to its left, length); `g` recognises a gap symbol -/
def specInsBy (g : Nat → Bool) : Nat → List (Nat × Nat) → List (Nat × Nat)
  | _, [] => []
  | n, (r, q) :: t =>
    if g r then
      have : (t.dropWhile fun c => g c.1).length < ((r, q) :: t).length := by
        have := length_dropWhile_le (fun c : Nat × Nat => g c.1) t; simp only [List.length_cons]; omega
      (n, 1 + (t.takeWhile fun c => g c.1).length) :: specInsBy g n (t.dropWhile fun c => g c.1)
    else specInsBy g (n + 1) t
termination_by _ l => l.length

def specIns : Nat → List (Nat × Nat) → List (Nat × Nat) := specInsBy isGap

/-- the query symbols opposite the reference bases, in reference order -/
def refColumnQueryBy (g : Nat → Bool) (cols : List (Nat × Nat)) : List Nat := (cols.filter fun c => !g c.1).map (·.2)

def refColumnQuery (cols : List (Nat × Nat)) : List Nat := refColumnQueryBy isGap cols

/-- deletions: maximal runs of gaps in the reference-column subsequence, as (1-based first base, length);
    `i` = 0-based reference index of the head -/
def specDelRunsBy (g : Nat → Bool) : Nat → List Nat → List (Nat × Nat)
  | _, [] => []
  | i, q :: t =>
    if g q then
      have : (t.dropWhile g).length < (q :: t).length := by
        have := length_dropWhile_le g t; simp only [List.length_cons]; omega
      (i + 1, 1 + (t.takeWhile g).length) :: specDelRunsBy g (i + 1 + (t.takeWhile g).length) (t.dropWhile g)
    else specDelRunsBy g (i + 1) t
termination_by _ l => l.length

def specDelRuns : Nat → List Nat → List (Nat × Nat) := specDelRunsBy isGap

/-- deletions reported: runs that contain neither the first nor the last reference base -/
def specDelsBy (g : Nat → Bool) (cols : List (Nat × Nat)) : List (Nat × Nat) :=
  let qs := refColumnQueryBy g cols
  (specDelRunsBy g 0 qs).filter fun d => d.1 ≠ 1 ∧ d.1 + d.2 - 1 ≠ qs.length

def specDels (cols : List (Nat × Nat)) : List (Nat × Nat) := specDelsBy isGap cols

def specIndels (ref q : List Nat) : List Variant :=
  let cols := normalise ref q
  ((specIns 0 cols).map fun i => ({ kind := .ins, pos := (i.1 : Int), len := i.2 } : Variant)) ++
  ((specDels cols).map fun d => ({ kind := .del, pos := (d.1 : Int), len := d.2 } : Variant))

/-! ### nucleotide and amino-acid records, per codon -/

/-- the (reference symbol, query symbol) opposite reference position p (1-based) -/
def pairAt (ref q : List Nat) (p : Nat) : Option (Nat × Nat) :=
  ((ref.zip q).filter fun c => !isGap c.1)[p - 1]?

def differsAt (ref q : List Nat) (p : Nat) : Bool :=
  match pairAt ref q p with
  | some (r, x) => disjointSyms false r x
  | none => false

def nucRecord (ref q : List Nat) (p : Nat) : Variant :=
  match pairAt ref q p with
  | some (r, x) => { kind := .nuc, pos := (p : Int), refAl := [upper r], queAl := [upper x] }
  | none => { kind := .nuc, pos := (p : Int) }

/-- translation of a codon of symbols on a strand: all three must be IUPAC letters and every
    expansion must give the same product -/
def specCodonAA (strand : Int) (syms : List Nat) : Option Nat :=
  match syms.map (fun b => letterSet (upper b)) with
  | [some a, some b, some c] =>
    if strand = -1 then specTranslate (compSet a) (compSet b) (compSet c) else specTranslate a b c
  | _ => none

def chunks3 : List Nat → List (List Nat)
  | a :: b :: c :: t => [a, b, c] :: chunks3 t
  | _ => []

/-- an amino-acid call of codon k (0-based) of a region, if the property demands one -/
def aaCall (ref q : List Nat) (reg : Region) (k : Nat) (codon : List Nat) : Option Variant :=
  let qsyms := codon.filterMap fun p => (pairAt ref q p).map (·.2)
  let refaa := reg.translation.getD k 0
  match specCodonAA reg.strand qsyms with
  | some aa =>
    if aa ≠ refaa then
      some { kind := .aa, feature := reg.name, refAl := [refaa], queAl := [aa],
             pos := ((codon.getD 2 0 : Nat) : Int) - 2 * reg.strand, residue := k + 1,
             snps := joinWith ";" (((codon.filter (differsAt ref q)).map (nucRecord ref q)).map fmtNuc) }
    else none
  | none => none

/-- records contributed by one region: per codon either the call or the codon's SNPs -/
def regionRecords (ref q : List Nat) (reg : Region) : List Variant :=
  ((chunks3 reg.positions).zip (List.range (reg.positions.length / 3))).flatMap fun (codon, k) =>
    match aaCall ref q reg k codon with
    | some v => [v]
    | none => (codon.filter (differsAt ref q)).map (nucRecord ref q)

/-- keep the first occurrence of every record -/
def dedupAll (l : List Variant) : List Variant :=
  l.foldl (fun acc v => if acc.contains v then acc else acc ++ [v]) []

/-- the specified mutation list: indels, SNPs at positions outside every region, per-codon records of
    every region; ordered by position then kind (ties in generation order); exact repeats once -/
def specVariants (ref q : List Nat) (regions : List Region) (inter : List Nat) : List Variant :=
  let all := specIndels ref q ++ ((inter.filter (differsAt ref q)).map (nucRecord ref q)) ++
    regions.flatMap (regionRecords ref q)
  sortStable variantLt (dedupAll all)

end Gofasta.Spec
