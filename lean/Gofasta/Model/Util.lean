/-
Small shared helpers for the executable model (core Lean only).
-/
namespace Gofasta.Model

/-- a byte list as a String -/
def bytesToString (bs : List Nat) : String := String.ofList (bs.map Char.ofNat)

def stringToBytes (s : String) : List Nat := s.toList.map Char.toNat

/-- strconv.Itoa on a natural -/
def itoa (n : Nat) : String := toString n

def pow10_9 : Nat := 1000000000

def padLeft (s : String) (n : Nat) (c : Char) : String :=
  String.ofList (List.replicate (n - s.length) c) ++ s

/-- round-half-even of c·10⁹/t as a natural (t > 0) -/
def roundNano (c t : Nat) : Nat :=
  let x := c * pow10_9
  let q := x / t
  let r := x % t
  if 2 * r > t then q + 1 else if 2 * r = t then (if q % 2 = 0 then q else q + 1) else q

/-- nano-units rendered as a 9-decimal string -/
def nanoToString (v : Nat) : String := toString (v / pow10_9) ++ "." ++ padLeft (toString (v % pow10_9)) 9 '0'

/-- strconv.FormatFloat(float64(c)/float64(t), 'f', 9, 64), modelled over exact rationals
    (faithful while t < 1024, see DESIGN §3) ; 0/0 prints NaN, c/0 prints +Inf -/
def fmt9 (c t : Nat) : String :=
  if t = 0 then (if c = 0 then "NaN" else "+Inf")
  else nanoToString (roundNano c t)

def joinWith (sep : String) : List String → String
  | [] => ""
  | [x] => x
  | x :: xs => x ++ sep ++ joinWith sep xs

end Gofasta.Model
