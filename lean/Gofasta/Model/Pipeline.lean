/-
Model of the index-keyed re-ordering writers (fastaio.WriteAlignment, WriteWrapAlignment,
snps.writeOutput, updown/list.writeOutput, variants.WriteVariants, updown.reorderRecords):
a pending map keyed by input index, a running counter, and a flush loop.
The Go `map[int]T` is an association list; `delete` removes the key.
-/
namespace Gofasta.Model.Reorder
variable {α : Type}

def lookup (k : Nat) : List (Nat × α) → Option α
  | [] => none
  | (k', v) :: t => if k' = k then some v else lookup k t

def erase (k : Nat) : List (Nat × α) → List (Nat × α)
  | [] => []
  | (k', v) :: t => if k' = k then erase k t else (k', v) :: erase k t

structure St (α : Type) where
  pending : List (Nat × α)
  counter : Nat
  out : List α

/-- the inner `for { if x, ok := m[counter]; ok { emit; delete; counter++ } else break }` loop;
    fuel = number of pending entries, which bounds the iterations -/
def flush : Nat → St α → St α
  | 0, s => s
  | fuel+1, s =>
    match lookup s.counter s.pending with
    | some v => flush fuel { pending := erase s.counter s.pending, counter := s.counter + 1, out := s.out ++ [v] }
    | none => s

/-- one arrival on the channel: `m[idx] = rec`, then flush -/
def recv (s : St α) (a : Nat × α) : St α :=
  let p := (a.1, a.2) :: erase a.1 s.pending
  flush p.length { s with pending := p }

/-- the writer started at `start` (0, or 1 when the first record was consumed as the reference) -/
def runFrom (start : Nat) (arr : List (Nat × α)) : List α := (arr.foldl recv ⟨[], start, []⟩).out

def run (arr : List (Nat × α)) : List α := runFrom 0 arr

end Gofasta.Model.Reorder

/-
Model of an output writer under write faults: a run is the sequence of write calls it makes, each
call made at a call site that either checks (and propagates) the returned error or drops it.
The destination fails every call from the k-th on (device full, closed pipe).
-/
namespace Gofasta.Model.Writer

/-- run the calls; `true` = the writer reported an error to its caller -/
def run : List Bool → Nat → Nat → Bool
  | [], _, _ => false
  | checked :: rest, k, i =>
    if i + 1 ≥ k ∧ checked then true          -- this call fails and the site propagates the error
    else run rest k (i + 1)                    -- the call succeeded, or its error was dropped

/-- the writer reports failure when the destination fails from call k on -/
def reportsFailure (calls : List Bool) (k : Nat) : Bool := run calls k 0

end Gofasta.Model.Writer
