import Gofasta.Model.Updown
/-
Model of the CSV text layer between `updown list` and `updown topranking`:
  * rendering of a row as bytes (list.writeOutput, with the RFC 4180 quoting of the ID),
  * Go's encoding/csv Reader with default settings (comma, no lazy quotes, FieldsPerRecord = 0) on a whole file,
  * readCSVToUDLList / readCSVToUDLChan: header check, getAmbArr, the SNP positions, strconv.Atoi.
Texts are lists of bytes. encoding/csv itself is *modelled* (standard library, not part of /repo): see DESIGN §3.
-/
namespace Gofasta.Model.Csv

abbrev Bytes := List Nat

def comma : Nat := 44
def quote : Nat := 34
def nl : Nat := 10
def cr : Nat := 13
def pipe : Nat := 124
def dashB : Nat := 45

/-! ### rendering -/

def digitsOf (n : Nat) : Bytes := (Nat.toDigits 10 n).map Char.toNat

def joinB (sep : Nat) : List Bytes → Bytes
  | [] => []
  | [x] => x
  | x :: xs => x ++ sep :: joinB sep xs

def needsQuote (id : Bytes) : Bool := id.any fun b => b == comma || b == quote || b == cr || b == nl

def quoteField (id : Bytes) : Bytes :=
  if needsQuote id then quote :: (id.flatMap fun b => if b == quote then [quote, quote] else [b]) ++ [quote] else id

def snpB (s : Snp) : Bytes := s.2.1 :: digitsOf s.1 ++ [s.2.2]

def ambB (a : Nat × Nat) : Bytes := if a.1 = a.2 then digitsOf a.1 else digitsOf a.1 ++ dashB :: digitsOf a.2

/-- one row of `updown list`, without the line terminator -/
def rowB (id : Bytes) (l : UDLine) : Bytes :=
  quoteField id ++ comma :: joinB pipe (l.snps.map snpB) ++ comma :: joinB pipe (l.ambs.map ambB) ++ comma ::
    digitsOf l.snpCount ++ comma :: digitsOf l.ambCount

def headerB : Bytes := "query,SNPs,ambiguities,SNPcount,ambcount".toList.map Char.toNat

def fileB (rows : List (Bytes × UDLine)) : Bytes :=
  headerB ++ [nl] ++ rows.flatMap fun r => rowB r.1 r.2 ++ [nl]

/-! ### encoding/csv Reader (defaults) -/

/-- line-end normalisation of readLine: every \r\n becomes \n, a \r right before the end of input is dropped -/
def normalise : Bytes → Bytes
  | [] => []
  | [b] => if b = cr then [] else [b]
  | a :: b :: t => if a = cr ∧ b = nl then nl :: normalise t else a :: normalise (b :: t)

inductive St where
  | fieldStart
  | bare (acc : Bytes)
  | quoted (acc : Bytes)
  | afterQuote (acc : Bytes)
  deriving DecidableEq, Repr

/-- the reader as a byte machine over the normalised text: finished records (reversed), fields of the current
record (reversed), state; none = parse error -/
def step (recs : List (List Bytes)) (cur : List Bytes) (st : St) (b : Nat) : Option (List (List Bytes) × List Bytes × St) :=
  match st with
  | .fieldStart =>
    if b = quote then some (recs, cur, .quoted [])
    else if b = comma then some (recs, [] :: cur, .fieldStart)
    else if b = nl then (if cur = [] then some (recs, [], .fieldStart) else some ((([] :: cur).reverse) :: recs, [], .fieldStart))
    else some (recs, cur, .bare [b])
  | .bare acc =>
    if b = comma then some (recs, acc :: cur, .fieldStart)
    else if b = nl then some (((acc :: cur).reverse) :: recs, [], .fieldStart)
    else if b = quote then none
    else some (recs, cur, .bare (acc ++ [b]))
  | .quoted acc =>
    if b = quote then some (recs, cur, .afterQuote acc) else some (recs, cur, .quoted (acc ++ [b]))
  | .afterQuote acc =>
    if b = quote then some (recs, cur, .quoted (acc ++ [quote]))
    else if b = comma then some (recs, acc :: cur, .fieldStart)
    else if b = nl then some (((acc :: cur).reverse) :: recs, [], .fieldStart)
    else none

/-- run the machine; on a quoting error stop and report the records completed before it -/
def run : List (List Bytes) → List Bytes → St → Bytes → (List (List Bytes) × List Bytes × St) × Bool
  | recs, cur, st, [] => ((recs, cur, st), true)
  | recs, cur, st, b :: t =>
    match step recs cur st b with
    | none => ((recs, cur, st), false)
    | some (r, c, s) => run r c s t

/-- end of input: the last record, if one is open; false = a quoted field was never closed -/
def finish (recs : List (List Bytes)) (cur : List Bytes) (st : St) : List (List Bytes) × Bool :=
  match st with
  | .fieldStart => if cur = [] then (recs.reverse, true) else ((([] :: cur).reverse :: recs).reverse, true)
  | .bare acc => (((acc :: cur).reverse :: recs).reverse, true)
  | .quoted _ => (recs.reverse, false)
  | .afterQuote acc => (((acc :: cur).reverse :: recs).reverse, true)

/-- the longest prefix of records with the field count of the first; false = a later record has another count -/
def sameCount (rs : List (List Bytes)) : List (List Bytes) × Bool :=
  match rs with
  | [] => ([], true)
  | r0 :: _ =>
    let good := rs.takeWhile fun r => r.length == r0.length
    (good, good.length == rs.length)

/-- the records Read returns one after the other, and whether the input ended cleanly (io.EOF) rather than in an
error (quoting, field count) -/
def readRecs (text : Bytes) : List (List Bytes) × Bool :=
  let (r, ok1) := run [] [] .fieldStart (normalise text)
  let (rs, ok2) := if ok1 then finish r.1 r.2.1 r.2.2 else (r.1.reverse, false)
  let (good, ok3) := sameCount rs
  (good, ok2 && ok3)

/-! ### strconv.Atoi -/

def isDigitB (b : Nat) : Bool := 48 ≤ b && b ≤ 57

def digitsVal (s : Bytes) : Nat := s.foldl (fun acc b => 10 * acc + (b - 48)) 0

def maxInt64 : Nat := 9223372036854775807

/-- optional sign, at least one digit, nothing else, within int64 -/
def atoi (s : Bytes) : Option Int :=
  match s with
  | [] => none
  | b :: t =>
    let (neg, ds) := if b = 45 then (true, t) else if b = 43 then (false, t) else (false, s)
    if ds = [] ∨ !ds.all isDigitB then none
    else
      let v := digitsVal ds
      if neg then (if v ≤ maxInt64 + 1 then some (-(v : Int)) else none)
      else (if v ≤ maxInt64 then some (v : Int) else none)

/-! ### the rows of readCSVToUDLList -/

def splitB (sep : Nat) : Bytes → List Bytes
  | [] => [[]]
  | b :: t =>
    if b = sep then [] :: splitB sep t
    else match splitB sep t with
      | [] => [[b]]
      | h :: r => (b :: h) :: r

structure Row where
  id : Bytes
  snps : List Bytes        -- the SNP strings as written
  snpPos : List Int
  ambs : List Int          -- flattened start/stop pairs
  ambCount : Int
  deriving DecidableEq, Repr

inductive Outcome where
  | ok (rows : List Row)
  | error
  | panic                  -- a SNP entry shorter than two bytes: snp[1:len(snp)-1] is out of range
  deriving DecidableEq, Repr

/-- getAmbArr -/
def ambArr (s : Bytes) : Option (List Int) :=
  if s = [] then some [] else
  (splitB pipe s).foldl (fun acc a =>
    match acc with
    | none => none
    | some A =>
      match splitB dashB a with
      | [x] => (match atoi x with | some v => some (A ++ [v, v]) | none => none)
      | [x, y] => (match atoi x, atoi y with | some v, some w => some (A ++ [v, w]) | _, _ => none)
      | _ => none) (some [])

inductive SnpRes where
  | ok (ps : List Int)
  | error
  | panic

/-- the SNP positions: Atoi of everything between the first and the last byte of each entry, in order; the first
entry that cannot be handled decides the outcome -/
def snpPositions : List Bytes → SnpRes
  | [] => .ok []
  | s :: t =>
    if s.length < 2 then .panic
    else match atoi ((s.drop 1).take (s.length - 2)) with
      | none => .error
      | some p => match snpPositions t with
        | .ok ps => .ok (p :: ps)
        | r => r

def parseRow (rec : List Bytes) : Outcome → Outcome
  | .ok rows =>
    match ambArr (rec.getD 2 []) with
    | none => .error
    | some a =>
      let snps := if rec.getD 1 [] = [] then [] else splitB pipe (rec.getD 1 [])
      match snpPositions snps with
      | .panic => .panic
      | .error => .error
      | .ok ps =>
        match atoi (rec.getD 4 []) with
        | none => .error
        | some c => .ok (rows ++ [{ id := rec.getD 0 [], snps := snps, snpPos := ps, ambs := a, ambCount := c }])
  | o => o

/-- readCSVToUDLList on a whole file: records are handled one after the other, so whatever goes wrong first decides -/
def readUDL (text : Bytes) : Outcome :=
  let (recs, clean) := readRecs text
  match recs with
  | [] => .error                                         -- nothing readable / empty file
  | h :: rows =>
    if h ≠ splitB comma headerB then .error
    else match rows.foldl (fun o r => parseRow r o) (.ok []) with
      | .ok parsed => if clean then .ok parsed else .error
      | o => o

end Gofasta.Model.Csv
