import Gofasta.Model.Encoding
import Gofasta.Model.Util
import Gofasta.Model.Sort
import Gofasta.Model.Snps
/-
Model of pkg/updown: getLines (one pass emitting SNPs and ambiguity tracts), list writer,
CSV row parsing, whichWay, catchments, balance, push-distance bins, checkArgs.
-/
namespace Gofasta.Model

/-- one record of `updown list` -/
structure UDLine where
  id : String := ""
  snps : List Snp := []              -- (1-based position, reference symbol, query base)
  ambs : List (Nat × Nat) := []      -- 1-based inclusive tracts of non-A/C/G/T columns
  snpCount : Nat := 0
  ambCount : Nat := 0
  deriving DecidableEq, Repr, Inhabited

/-- the single pass of getLines over encoded columns; `i` = 0-based column, `open_` = start (0-based)
    of the ambiguity tract that is currently open -/
def udScan : Nat → Option Nat → List Nat → List Nat → List Snp × List (Nat × Nat) × Nat
  | i, open_, r :: rs, q :: qs =>
    if encResolved q then
      let rest := udScan (i + 1) none rs qs
      let snp := if encDiffer r q then [(i + 1, dec r, dec q)] else []
      let closed := match open_ with | some a => [(a + 1, i)] | none => []
      (snp ++ rest.1, closed ++ rest.2.1, rest.2.2)
    else
      let rest := udScan (i + 1) (some (open_.getD i)) rs qs
      (rest.1, rest.2.1, rest.2.2 + 1)
  | i, open_, _, _ => ([], (match open_ with | some a => [(a + 1, i)] | none => []), 0)

def getLine (id : String) (ref q : List Nat) : UDLine :=
  let r := udScan 0 none ref q
  { id := id, snps := r.1, ambs := r.2.1, snpCount := r.1.length, ambCount := r.2.2 }

def fmtAmb (a : Nat × Nat) : String := if a.1 = a.2 then itoa a.1 else itoa a.1 ++ "-" ++ itoa a.2

/-- one row of updown/list.writeOutput -/
def udRow (l : UDLine) : String :=
  l.id ++ "," ++ joinWith "|" (l.snps.map fmtSnp) ++ "," ++ joinWith "|" (l.ambs.map fmtAmb) ++ "," ++
    itoa l.snpCount ++ "," ++ itoa l.ambCount ++ "\n"

def udListOutput (ref : List Nat) (recs : List (String × List Nat)) : String :=
  "query,SNPs,ambiguities,SNPcount,ambcount\n" ++
    String.join (recs.map fun r => udRow (getLine r.1 (ref.map (enc false)) (r.2.map (enc false))))

end Gofasta.Model
