import Gofasta.Model.Encoding
import Gofasta.Model.Util
import Gofasta.Model.Sort
import Gofasta.Model.Snps
/-
Model of pkg/updown: getLines (one pass emitting SNPs and ambiguity tracts), list writer,
CSV row parsing, whichWay, catchments, balance, push-distance bins, checkArgs.
-/
namespace Gofasta.Model

/-- one record of `updown list` -/
structure UDLine where
  id : String := ""
  snps : List Snp := []              -- (1-based position, reference symbol, query base)
  ambs : List (Nat × Nat) := []      -- 1-based inclusive tracts of non-A/C/G/T columns
  snpCount : Nat := 0
  ambCount : Nat := 0
  deriving DecidableEq, Repr, Inhabited

/-- the single pass of getLines over encoded columns; `i` = 0-based column, `open_` = start (0-based)
    of the ambiguity tract that is currently open -/
def udScan : Nat → Option Nat → List Nat → List Nat → List Snp × List (Nat × Nat) × Nat
  | i, open_, r :: rs, q :: qs =>
    if encResolved q then
      let rest := udScan (i + 1) none rs qs
      let snp := if encDiffer r q then [(i + 1, dec r, dec q)] else []
      let closed := match open_ with | some a => [(a + 1, i)] | none => []
      (snp ++ rest.1, closed ++ rest.2.1, rest.2.2)
    else
      let rest := udScan (i + 1) (some (open_.getD i)) rs qs
      (rest.1, rest.2.1, rest.2.2 + 1)
  | i, open_, _, _ => ([], (match open_ with | some a => [(a + 1, i)] | none => []), 0)

def getLine (id : String) (ref q : List Nat) : UDLine :=
  let r := udScan 0 none ref q
  { id := id, snps := r.1, ambs := r.2.1, snpCount := r.1.length, ambCount := r.2.2 }

def fmtAmb (a : Nat × Nat) : String := if a.1 = a.2 then itoa a.1 else itoa a.1 ++ "-" ++ itoa a.2

/-- csvField: an ID containing a comma, a double quote or a line break is written as a quoted CSV field -/
def csvField (s : String) : String :=
  if s.any (fun c => c == ',' || c == '"' || c == '\r' || c == '\n') then "\"" ++ s.replace "\"" "\"\"" ++ "\"" else s

/-- one row of updown/list.writeOutput -/
def udRow (l : UDLine) : String :=
  csvField l.id ++ "," ++ joinWith "|" (l.snps.map fmtSnp) ++ "," ++ joinWith "|" (l.ambs.map fmtAmb) ++ "," ++
    itoa l.snpCount ++ "," ++ itoa l.ambCount ++ "\n"

def udListOutput (ref : List Nat) (recs : List (String × List Nat)) : String :=
  "query,SNPs,ambiguities,SNPcount,ambcount\n" ++
    String.join (recs.map fun r => udRow (getLine r.1 (ref.map (enc false)) (r.2.map (enc false))))

end Gofasta.Model

namespace Gofasta.Model

/-! ### updown topranking -/

/-- isSiteAmb -/
def isSiteAmb (p : Nat) (ambs : List (Nat × Nat)) : Bool := ambs.any fun a => a.1 ≤ p && p ≤ a.2

structure WhichWay where
  qOnly : Nat := 0      -- table[0]
  shared : Nat := 0     -- table[1]
  tOnly : Nat := 0      -- table[2]
  amb : Nat := 0        -- table[3]
  d : List Nat := []    -- positions of query-only SNPs
  dPlus : Nat := 0
  deriving Repr

/-- the two loops of whichWay -/
def whichWayTable (q t : UDLine) : WhichWay :=
  let w1 := q.snps.foldl (fun (w : WhichWay) s =>
    if isSiteAmb s.1 t.ambs then { w with amb := w.amb + 1 }
    else if t.snps.contains s then { w with shared := w.shared + 1 }
    else { w with qOnly := w.qOnly + 1, d := w.d ++ [s.1] }) {}
  t.snps.foldl (fun (w : WhichWay) s =>
    if isSiteAmb s.1 q.ambs then { w with amb := w.amb + 1 }
    else if !q.snps.contains s then
      { w with tOnly := w.tOnly + 1, dPlus := if w.d.contains s.1 then w.dPlus else w.dPlus + 1 }
    else w) w1

/-- whichWay: none = fails the pairwise ambiguity threshold (threshold = num/den) ; some (direction, distance) -/
def whichWay (q t : UDLine) (thrNum thrDen : Nat) : Option (Nat × Nat) :=
  let w := whichWayTable q t
  let sum := w.qOnly + w.shared + w.tOnly + w.amb
  if sum > 0 ∧ w.amb * thrDen > thrNum * sum then none else
  let dir := if w.qOnly = 0 ∧ w.tOnly = 0 then 0 else if w.tOnly = 0 then 1 else if w.qOnly = 0 then 2 else 3
  some (dir, w.d.length + w.dPlus)

structure UDHit where
  name : String
  dist : Nat
  amb : Nat
  deriving Repr, Inhabited, DecidableEq

def udLt (a b : UDHit) : Bool := a.dist < b.dist || (a.dist == b.dist && a.amb < b.amb)

def bigN : Nat := 2147483647   -- math.MaxInt32

def sum4 (a : List Nat) : Nat := a.sum

/-- checkArgs: (sizeArray, distArray) in the order same, up, down, side; none = error -/
def udCheckArgs (sizetotal sizeup sizedown sizeside sizesame : Int) (distall distup distdown distside distpush : Int) :
    Option (List Nat × List Nat) :=
  let sizesZero := sizeup = 0 ∧ sizedown = 0 ∧ sizeside = 0 ∧ sizesame = 0
  let distsZero := distup = 0 ∧ distdown = 0 ∧ distside = 0 ∧ distall = 0
  if sizetotal = 0 ∧ sizesZero ∧ distpush = 0 ∧ distsZero then none
  else if (sizetotal ≠ 0 ∧ ¬ sizesZero) ∧ ¬ distsZero ∧ distpush > 0 then none
  else
    let sz : List Nat :=
      if sizetotal > 0 then
        let q := (sizetotal / 4).toNat
        [sizetotal.toNat - 3 * q, q, q, q]
      else if ¬ sizesZero then
        [sizesame, sizeup, sizedown, sizeside].map fun n => if n = -1 then bigN else n.toNat
      else [bigN, bigN, bigN, bigN]
    let ds : List Nat :=
      if distall > 0 then [0, distall.toNat, distall.toNat, distall.toNat]
      else if ¬ (distup = 0 ∧ distdown = 0 ∧ distside = 0) then [0, distup.toNat, distdown.toNat, distside.toNat]
      else [bigN, bigN, bigN, bigN]
    some (sz, ds)

/-- the round-robin fill of balance, with fuel -/
def fillLoop : Nat → Nat → List Nat → List Nat → List Nat → List Nat → Nat → List Nat
  | 0, _, size, _, _, _, _ => size
  | fuel + 1, total, size, avail, obs, ideal, i =>
    if avail.sum = 0 then size else
    let can := obs.getD i 0 > ideal.getD i 0 ∧ avail.getD i 0 > 0
    let size' := if can then size.set i (size.getD i 0 + 1) else size
    let avail' := if can then avail.set i (avail.getD i 0 - 1) else avail
    if size'.sum = total then size' else fillLoop fuel total size' avail' obs ideal ((i + 1) % 4)

/-- balance -/
def balance (total : Nat) (ideal obs : List Nat) (nofill : Bool) : List Nat :=
  if (List.range 4).all fun i => obs.getD i 0 ≥ ideal.getD i 0 then ideal else
  let size := (List.range 4).map fun i => min (obs.getD i 0) (ideal.getD i 0)
  if nofill then size else
  let avail := (List.range 4).map fun i => obs.getD i 0 - ideal.getD i 0
  fillLoop (4 * avail.sum + 8) total size avail obs ideal 0

/-- the k-smallest-distances map of push mode: association list distance -> hits in file order -/
def pushInsert (k : Nat) (m : List (Nat × List UDHit)) (h : UDHit) : List (Nat × List UDHit) :=
  let maxKey := (m.map (·.1)).foldl max 0
  if !(h.dist ≤ maxKey ∨ m.length < k) then m
  else if m.any (fun e => e.1 == h.dist) then m.map fun e => if e.1 == h.dist then (e.1, e.2 ++ [h]) else e
  else if m.length = k then (m.filter fun e => e.1 != maxKey) ++ [(h.dist, [h])]
  else m ++ [(h.dist, [h])]

structure TROpts where
  sizes : List Nat
  dists : List Nat
  nofill : Bool
  thrNum : Nat
  thrDen : Nat
  threshTarg : Nat
  push : Nat
  ignore : List String

/-- the four bins (same, up, down, side) of one query -/
def topRankingQuery (o : TROpts) (q : UDLine) (targets : List UDLine) : List (List UDHit) :=
  let cands : List (Nat × UDHit) := targets.filterMap fun t =>
    if t.ambCount > o.threshTarg then none
    else if o.ignore.contains t.id then none
    else match whichWay q t o.thrNum o.thrDen with
      | none => none
      | some (dir, dist) => some (dir, { name := t.id, dist := dist, amb := t.ambCount })
  if o.push > 0 then
    (List.range 4).map fun dir =>
      let hs := (cands.filter fun c => c.1 == dir).map (·.2)
      if dir = 0 then hs
      else sortStable udLt ((hs.foldl (pushInsert o.push) []).flatMap (·.2))
  else
    let total := if o.sizes.contains bigN then bigN else o.sizes.sum
    let bins := (List.range 4).map fun dir =>
      topKG udLt total (((cands.filter fun c => c.1 == dir).map (·.2)).filter fun h => h.dist ≤ o.dists.getD dir 0)
    let size := balance total o.sizes (bins.map (·.length)) o.nofill
    (bins.zip size).map fun (b, s) => b.take s

def trListOutput (rows : List (String × List (List UDHit))) : String :=
  "query,closestsame,closestup,closestdown,closestside\n" ++ String.join (rows.map fun (qn, bins) =>
    qn ++ "," ++ joinWith "," (bins.map fun b => joinWith ";" (b.map (·.name))) ++ "\n")

def dirName (d : Nat) : String := match d with | 0 => "same" | 1 => "up" | 2 => "down" | _ => "side"

def trTableOutput (rows : List (String × List (List UDHit))) : String :=
  "query,direction,distance,target\n" ++ String.join (rows.flatMap fun (qn, bins) =>
    (bins.zip (List.range 4)).flatMap fun (b, d) => b.map fun h =>
      joinWith "," [qn, dirName d, toString h.dist, h.name] ++ "\n")

end Gofasta.Model
