import Gofasta.Model.Encoding
import Gofasta.Model.Util
import Gofasta.Model.Snps
/-
Model of pkg/closest: rawDistance, snpDistance, tn93Distance (counts exact, final expression in
Float), findClosest (running best), findClosestN (bounded catchment), writers.
Undefined distances (0/0, NaN) are ordered after every defined distance and are never "within"
a -d limit: this is the behaviour the property demands (finding F-C06, repaired in /repo).
-/
namespace Gofasta.Model

inductive Measure where | raw | snp | tn93
  deriving DecidableEq, Repr

/-- snpDistance: columns whose codes test as different -/
def snpCount : List Nat → List Nat → Nat
  | q :: qs, t :: ts => (if encDiffer q t then 1 else 0) + snpCount qs ts
  | _, _ => 0

/-- rawDistance: (n, d) with n = differing columns, d = n + columns where the query is resolved and equal to the target -/
def rawCounts : List Nat → List Nat → Nat × Nat
  | q :: qs, t :: ts =>
    let r := rawCounts qs ts
    let n := if encDiffer q t then 1 else 0
    let s := if encResolved q && q == t then 1 else 0
    (r.1 + n, r.2 + n + s)
  | _, _ => (0, 0)

structure TnCounts where
  p1 : Nat := 0   -- purine transitions A<->G
  p2 : Nat := 0   -- pyrimidine transitions C<->T
  d : Nat := 0    -- all differences between resolved bases
  l : Nat := 0    -- resolved columns compared
  deriving DecidableEq, Repr

/-- the counting loop of tn93Distance -/
def tnCounts : List Nat → List Nat → TnCounts
  | q :: qs, t :: ts =>
    let r := tnCounts qs ts
    if encDiffer q t && encResolved q && encResolved t then
      { r with d := r.d + 1, l := r.l + 1,
               p1 := r.p1 + (if (q ||| t) == 200 then 1 else 0),
               p2 := r.p2 + (if (q ||| t) != 200 && (q ||| t) == 56 then 1 else 0) }
    else if encResolved q && q == t then { r with l := r.l + 1 }
    else r
  | _, _ => {}

/-- Tamura & Nei (1993) eq. 7, evaluated in IEEE double in the order of operations of the Go code.
    (cA, cC, cG, cT) are the summed A/C/G/T counts of target and query records. -/
def tn93Float (c : TnCounts) (cA cC cG cT : Nat) : Float :=
  let L := (cA + cC + cG + cT).toFloat
  let gA := cA.toFloat / L
  let gC := cC.toFloat / L
  let gG := cG.toFloat / L
  let gT := cT.toFloat / L
  let gR := (cA + cG).toFloat / L
  let gY := (cC + cT).toFloat / L
  let k1 := 2.0 * gA * gG / gR
  let k2 := 2.0 * gT * gC / gY
  let k3 := 2.0 * (gR * gY - gA * gG * gY / gR - gT * gC * gR / gY)
  let P1 := c.p1.toFloat / c.l.toFloat
  let P2 := c.p2.toFloat / c.l.toFloat
  let Q := (c.d - (c.p1 + c.p2)).toFloat / c.l.toFloat
  let w1 := 1.0 - P1 / k1 - Q / (2 * gR)
  let w2 := 1.0 - P2 / k2 - Q / (2 * gY)
  let w3 := 1.0 - Q / (2 * gR * gY)
  let d := -k1 * Float.log w1 - k2 * Float.log w2 - k3 * Float.log w3
  if d == 0.0 then 0.0 else d

/-- a distance value -/
inductive DVal where
  | nat (n : Nat)        -- snp
  | rat (n d : Nat)      -- raw = n/d ; 0/0 undefined
  | flt (x : Float)      -- tn93
  deriving Inhabited

def DVal.undef : DVal → Bool
  | .rat _ 0 => true
  | .flt x => x.isNaN
  | _ => false

/-- strictly closer; an undefined distance is further than every defined one -/
def DVal.lt (a b : DVal) : Bool :=
  if a.undef then false else if b.undef then true else
  match a, b with
  | .nat x, .nat y => x < y
  | .rat n d, .rat n' d' => n * d' < n' * d
  | .flt x, .flt y => x < y
  | _, _ => false

def DVal.eq (a b : DVal) : Bool :=
  if a.undef || b.undef then a.undef && b.undef else
  match a, b with
  | .nat x, .nat y => x == y
  | .rat n d, .rat n' d' => n * d' == n' * d
  | .flt x, .flt y => x == y
  | _, _ => false

/-- `distance > maxdist` with maxdist a decimal num/den (Float for tn93); undefined is never within -/
def DVal.beyond (a : DVal) (num den : Nat) : Bool :=
  if a.undef then true else
  match a with
  | .nat x => x * den > num
  | .rat n d => n * den > num * d
  | .flt x => x > num.toFloat / den.toFloat

structure Target where
  name : String
  seq : List Nat        -- encoded
  score : Nat
  cA : Nat
  cC : Nat
  cG : Nat
  cT : Nat

def distance (m : Measure) (q : List Nat) (t : Target) : DVal :=
  match m with
  | .snp => .nat (snpCount q t.seq)
  | .raw => let r := rawCounts q t.seq; .rat r.1 r.2
  | .tn93 => .flt (tn93Float (tnCounts q t.seq) t.cA t.cC t.cG t.cT)

structure Hit where
  name : String
  score : Nat
  dist : DVal
  idx : Nat            -- position in the target file
  deriving Inhabited

/-- the comparator of rearrangeCatchment: distance, then higher completeness -/
def hitLt (a b : Hit) : Bool := a.dist.lt b.dist || (a.dist.eq b.dist && a.score > b.score)

/-- findClosest: running best over the targets in file order -/
def findClosest (hits : List Hit) : Option Hit :=
  hits.foldl (fun best h => match best with
    | none => some h
    | some b => if h.dist.lt b.dist then some h
                else if h.dist.eq b.dist && h.score > b.score then some h else some b) none

/-- one target arriving at findClosestN (after the -d filter) -/
def catchStep (K : Nat) (cat : List Hit) (h : Hit) : List Hit := catchStepG hitLt K cat h

def catchFinish (K : Nat) (cat : List Hit) : List Hit := catchFinishG hitLt K cat

/-- findClosestN with optional -d (num/den) -/
def findClosestN (K : Nat) (maxd : Option (Nat × Nat)) (hits : List Hit) : List Hit :=
  let within := match maxd with
    | none => hits
    | some (n, d) => hits.filter fun h => !h.dist.beyond n d
  catchFinish K (within.foldl (catchStep K) [])

def hitsOf (m : Measure) (q : List Nat) (ts : List Target) : List Hit :=
  (ts.zip (List.range ts.length)).map fun (t, i) => { name := t.name, score := t.score, dist := distance m q t, idx := i }

/-- the SNP list printed by plain `closest`: position, query symbol, target symbol -/
def closestSnps : Nat → List Nat → List Nat → List String
  | i, q :: qs, t :: ts =>
    if encDiffer q t then (itoa (i + 1) ++ String.singleton (Char.ofNat (dec q)) ++ String.singleton (Char.ofNat (dec t))) :: closestSnps (i + 1) qs ts
    else closestSnps (i + 1) qs ts
  | _, _, _ => []

end Gofasta.Model
