import Gofasta.Model.Fasta
import Gofasta.Model.Sam
import Gofasta.Model.Updown
/-
Decision logic of the explicit input validations (C18): small total functions mirroring the checks
the commands perform before/while they compute. `true` = the command refuses the input.
-/
namespace Gofasta.Model

/-- snps / updown list / topranking / variants: every alignment row must be as wide as the reference -/
def refusesWidths (refWidth : Nat) (rowWidths : List Nat) : Bool := rowWidths.any (· != refWidth)

/-- closest: the first target must be as wide as the first query -/
def refusesQueryTarget (queryWidth targetWidth : Nat) : Bool := queryWidth != targetWidth

/-- the reference file must hold exactly one record (toPairAlign) / at most one (the others; none is already a reader error) -/
def refusesReferenceCount (n : Nat) : Bool := n != 1

/-- annotation suffix -/
def refusesSuffix (ext : String) : Bool := !(ext == ".gb" || ext == ".gff")

/-- toMultiAlign / toPairAlign window -/
def refusesWindow (refLen : Nat) (start stop : Int) : Bool := (checkArgs refLen start stop).isNone

/-- topranking options -/
def refusesOptions (sizetotal sizeup sizedown sizeside sizesame distall distup distdown distside distpush : Int) : Bool :=
  (udCheckArgs sizetotal sizeup sizedown sizeside sizesame distall distup distdown distside distpush).isNone

/-- updown CSV: the first row must be the `updown list` header; no row at all is refused too -/
def udHeader : List String := ["query", "SNPs", "ambiguities", "SNPcount", "ambcount"]
def refusesCsv (rows : List (List String)) : Bool :=
  match rows with
  | [] => true
  | h :: _ => h != udHeader

end Gofasta.Model
