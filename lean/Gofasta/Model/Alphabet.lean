import Gofasta.Gen.Codon
import Gofasta.Model.Encoding
/-
Model of pkg/alphabet: codon dictionary look-up, Translate, Complement, ReverseComplement.
-/
namespace Gofasta.Model

/-- `CD[codon]` : look-up in the regenerated dictionary -/
def dictLookup (codon : List Nat) : Option (List Nat) :=
  (Gen.codonDict.find? (fun e => e.1 == codon)).map (·.2)

/-- alphabet.Translate : fold over codons; strict = error on a codon without entry, else 'X' (88).
    `none` = error (length not a multiple of three, or strict and untranslatable) -/
def translateGo (strict : Bool) : List Nat → Option (List Nat)
  | [] => some []
  | a :: b :: c :: rest =>
    match dictLookup [a, b, c] with
    | some aa => (translateGo strict rest).map (aa ++ ·)
    | none => if strict then none else (translateGo strict rest).map (88 :: ·)
  | _ => none

/-- alphabet.Complement -/
def complement (s : List Nat) : List Nat := s.map compText

/-- alphabet.ReverseComplement -/
def reverseComplement (s : List Nat) : List Nat := (complement s).reverse

/-- EncodedFastaRecord.Complement / ReverseComplement -/
def complementEnc (s : List Nat) : List Nat := s.map compEnc
def reverseComplementEnc (s : List Nat) : List Nat := (complementEnc s).reverse

end Gofasta.Model
