import Gofasta.Gen.Cigar
import Gofasta.Model.Util
import Gofasta.Model.Sort
/-
Model of pkg/sam: grouping of records by query name, the CIGAR walks (operator behaviour taken
from the tables regenerated from the Go source), per-column flattening, flank rewriting,
toMultiAlign windowing/padding/wrapping, toPairAlign's re-gapping of a query's records
(the repaired algorithm, finding F-C02), reference-coordinate trimming.
Rows are lists of bytes; '*' = 42 (no coverage), '-' = 45, 'N' = 78.
-/
namespace Gofasta.Model

def star : Nat := 42
def dash : Nat := 45
def letN : Nat := 78

structure SamRec where
  name : String
  flag : Nat
  pos : Nat                       -- 0-based leftmost reference position (POS - 1)
  cigar : List (Nat × Nat)        -- (operator index in "MIDNSHP=X", length)
  seq : List Nat
  deriving Repr, Inhabited

/-- operator entry (consumes query, consumes reference, query-row kind, reference-row kind) -/
def opEntry (tab : List (Nat × Bool × Bool × Nat × Nat)) (op : Nat) : Option (Bool × Bool × Nat × Nat) :=
  (tab.find? (fun e => e.1 == op)).map (·.2)

/-- what an operator appends to a row: 0 nothing, 1 query bases, 2 '-', 3 '*', 4 reference bases -/
def emit (kind : Nat) (len q r : Nat) (seq ref : List Nat) : List Nat :=
  match kind with
  | 1 => (seq.drop q).take len
  | 2 => List.replicate len dash
  | 3 => List.replicate len star
  | 4 => (ref.drop r).take len
  | _ => []

/-- the CIGAR loop of getOneLine / getOneLinePlusRef: returns (query row, reference row) extensions -/
def walkOps (tab : List (Nat × Bool × Bool × Nat × Nat)) (seq ref : List Nat) :
    List (Nat × Nat) → Nat → Nat → List Nat × List Nat
  | [], _, _ => ([], [])
  | (op, len) :: rest, q, r =>
    match opEntry tab op with
    | some (cq, cr, ek, rk) =>
      let t := walkOps tab seq ref rest (if cq then q + len else q) (if cr then r + len else r)
      (emit ek len q r seq ref ++ t.1, emit rk len q r seq ref ++ t.2)
    | none => walkOps tab seq ref rest q r

/-- getOneLine (no insertions): reference-length row -/
def walkNoIns (rec : SamRec) (refLen : Nat) : List Nat :=
  let body := List.replicate rec.pos star ++ (walkOps Gen.cigarTab0 rec.seq [] rec.cigar 0 rec.pos).1
  body ++ List.replicate (refLen - body.length) star

/-- getOneLinePlusRef: (query row, reference row); with insertions the rows are not right-padded -/
def walkWithRef (rec : SamRec) (ref : List Nat) (includeIns : Bool) : List Nat × List Nat :=
  let w := walkOps (if includeIns then Gen.cigarTab3 else Gen.cigarTab2) rec.seq ref rec.cigar 0 rec.pos
  let qrow := List.replicate rec.pos star ++ w.1
  let rrow := ref.take rec.pos ++ w.2
  if includeIns then (qrow, rrow) else (qrow ++ List.replicate (ref.length - qrow.length) star, rrow)

/-! ### grouping -/

def isSkipped (r : SamRec) : Bool := (r.flag / 4) % 2 == 1 || (r.flag / 256) % 2 == 1

/-- groupSamRecords: consecutive retained records with the same name form a block -/
def groupRecs : List SamRec → List (List SamRec)
  | [] => []
  | r :: rest =>
    match groupRecs rest with
    | [] => [[r]]
    | (g :: gs) => match g with
      | [] => [r] :: gs
      | h :: _ => if h.name == r.name then (r :: g) :: gs else [r] :: g :: gs

def samBlocks (recs : List SamRec) : List (List SamRec) := groupRecs (recs.filter fun r => !isSkipped r)

/-! ### flattening -/

def isLetter (b : Nat) : Bool := (65 ≤ b && b ≤ 90) || (97 ≤ b && b ≤ 122)

/-- getNucFromSite: two or more different letters -> 'N'; otherwise the largest byte (letter > '-' > '*') -/
def flattenSite (site : List Nat) : Nat :=
  let set := site.eraseDups
  if (set.filter isLetter).length > 1 then letN else set.foldl max 0

def colAt (rows : List (List Nat)) (j : Nat) : List Nat := rows.map fun r => r.getD j 0

/-- checkAndGetFlattenedSeq: column-wise over the length of the first row -/
def flattenRows (rows : List (List Nat)) : List Nat :=
  match rows with
  | [] => []
  | r0 :: _ => (List.range r0.length).map fun j => flattenSite (colAt rows j)

/-- getSeqFromBlock: a single record is returned as is -/
def seqFromBlock (block : List SamRec) (refLen : Nat) : List Nat :=
  match block with
  | [r] => walkNoIns r refLen
  | _ => flattenRows (block.map fun r => walkNoIns r refLen)

def swapInNs (s : List Nat) : List Nat := s.map fun b => if b = star then letN else b

def firstLetterIdx (s : List Nat) : Option Nat := (List.range s.length).find? fun i => isLetter (s.getD i 0)
def lastLetterIdx (s : List Nat) : Option Nat := ((List.range s.length).reverse).find? fun i => isLetter (s.getD i 0)

/-- swapInGapsNs: '*' outside the first/last letter -> '-', between them -> 'N'; no letter at all -> all '-' -/
def swapInGapsNs (s : List Nat) : List Nat :=
  match firstLetterIdx s, lastLetterIdx s with
  | some f, some l => (s.zip (List.range s.length)).map fun (b, i) =>
      if b = star then (if i < f then dash else if i > l then dash else if f < i ∧ i < l then letN else b) else b
  | _, _ => s.map fun b => if b = star then dash else b

structure TomaOpts where
  start : Int := -1      -- 1-based inclusive, -1 = absent
  stop : Int := -1
  pad : Bool := false
  wrap : Int := -1

/-- toma.checkArgs -/
def checkArgs (refLen : Nat) (start stop : Int) : Option (Nat × Nat × Bool) :=
  let s : Int := if start = -1 then 1 else start
  let e : Int := if stop = -1 then refLen else stop
  let trim := start != -1 || stop != -1
  if s > refLen ∨ s < 1 then none
  else if e > refLen ∨ e < 1 then none
  else if s > e then none
  else some (s.toNat, e.toNat, trim)

/-- getFastaRecord -/
def fastaRecordSeq (raw : List Nat) (trim pad : Bool) (s e : Nat) : List Nat :=
  let seq := if pad then swapInNs raw else swapInGapsNs raw
  if trim then
    if pad then (seq.zip (List.range seq.length)).map fun (b, i) => if i < s - 1 ∨ i ≥ e then letN else b
    else (seq.drop (s - 1)).take (e - (s - 1))
  else seq

/-- split into lines of width w (last line shorter, none if empty) -/
def chunk (w : Nat) (s : List Nat) : List (List Nat) :=
  if h : w = 0 ∨ s = [] then (if s = [] then [] else [s]) else
    have : (s.drop w).length < s.length := by
      have hw : 0 < w := by omega
      have hs : 0 < s.length := by cases s with | nil => simp at h | cons _ _ => simp
      simp [List.length_drop]; omega
    s.take w :: chunk w (s.drop w)
termination_by s.length

/-- the sequence lines of WriteWrapAlignment / topa.wrap -/
def wrapLines (w : Int) (s : List Nat) : String :=
  if w ≤ 0 then bytesToString s ++ "\n"
  else String.join ((chunk w.toNat s).map fun l => bytesToString l ++ "\n")

/-- WriteAlignment prints the sequence on one line even when it is empty; WriteWrapAlignment prints no line -/
def tomaRecordText (wrap : Int) (name : String) (s : List Nat) : String :=
  ">" ++ name ++ "\n" ++ (if wrap > 0 then wrapLines wrap s else bytesToString s ++ "\n")

/-- sam.ToMultiAlign on parsed records; none = error -/
def toMultiAlign (refLen : Nat) (o : TomaOpts) (recs : List SamRec) : Option String :=
  match checkArgs refLen o.start o.stop with
  | none => none
  | some (s, e, trim) =>
    some (String.join ((samBlocks recs).map fun b =>
      tomaRecordText o.wrap (b.headD default).name (fastaRecordSeq (seqFromBlock b refLen) trim o.pad s e)))

/-! ### toPairAlign -/

/-- insertions of a record: (reference position = number of reference bases to the left, length) -/
def insertionsOf (pos : Nat) : List (Nat × Nat) → List (Nat × Nat)
  | [] => []
  | (op, len) :: rest =>
    let here := if op = 1 then [(pos, len)] else []
    -- Consumes().Reference is a property of biogo's operator table: M D N = X
    let cr := op = 0 ∨ op = 2 ∨ op = 3 ∨ op = 7 ∨ op = 8
    here ++ insertionsOf (if cr then pos + len else pos) rest

def spliceAt (at_ len : Nat) (row : List Nat) : List Nat := row.take at_ ++ List.replicate len dash ++ row.drop at_

structure PairRow where
  ref : List Nat
  que : List Nat
  refEnd : Nat
  offset : Nat := 0

/-- one insertion (start, length, owner row) applied to every row -/
def applyInsertion (rows : List PairRow) (ins : Nat × Nat × Nat) : List PairRow :=
  (rows.zip (List.range rows.length)).map fun (row, j) =>
    if j = ins.2.2 then { row with offset := row.offset + ins.2.1 }
    else if ins.1 > row.refEnd then row
    else { row with ref := spliceAt (ins.1 + row.offset) ins.2.1 row.ref,
                    que := spliceAt (ins.1 + row.offset) ins.2.1 row.que,
                    offset := row.offset + ins.2.1 }

def padTo (n : Nat) (row : List Nat) : List Nat := row ++ List.replicate (n - row.length) star

/-- blockToSeqPair (repaired): (reference row, query row) -/
def blockToSeqPair (block : List SamRec) (ref : List Nat) : List Nat × List Nat :=
  let walked := block.map fun r => walkWithRef r ref true
  let rows : List PairRow := walked.map fun w => { ref := w.2, que := w.1, refEnd := (w.2.filter (· != dash)).length }
  let inss : List (Nat × Nat × Nat) := (block.zip (List.range block.length)).flatMap fun (r, i) =>
    (insertionsOf r.pos r.cigar).map fun x => (x.1, x.2, i)
  let sorted := sortStable (fun a b => decide (a.1 < b.1)) inss
  let merged := sorted.foldl applyInsertion rows
  let mx := (merged.map fun r => r.ref.length).foldl max 0
  let R := flattenRows (merged.map fun r => padTo mx r.ref)
  let Q := flattenRows (merged.map fun r => padTo mx r.que)
  let total := (inss.map (·.2.1)).sum
  let diff := (total + ref.length) - R.length
  (R ++ ref.drop (ref.length - diff), swapInNs (Q ++ List.replicate diff star))

/-- blockToPairwiseAlignment -/
def pairOfBlock (block : List SamRec) (ref : List Nat) (omitIns : Bool) : List Nat × List Nat :=
  if omitIns then (ref, swapInNs (flattenRows (block.map fun r => (walkWithRef r ref false).1)))
  else blockToSeqPair block ref

/-- trimAlignment: cut from the column of reference base s to that of base e (1-based) -/
def trimPair (p : List Nat × List Nat) (s e : Nat) : List Nat × List Nat :=
  let cols := (p.1.zip (List.range p.1.length)).filterMap fun (b, i) => if b != dash then some i else none
  let a := cols.getD (s - 1) 0
  let b := cols.getD (e - 1) 0 + 1
  ((p.1.drop a).take (b - a), (p.2.drop a).take (b - a))

def pairText (wrap : Int) (refName qName : String) (omitRef : Bool) (p : List Nat × List Nat) : String :=
  (if omitRef then "" else ">" ++ refName ++ "\n" ++ wrapLines wrap p.1) ++ ">" ++ qName ++ "\n" ++ wrapLines wrap p.2

/-- sam.ToPairAlign on parsed records: one text per query, in input order; none = error -/
def toPairAlign (ref : List Nat) (refName : String) (start stop wrap : Int) (omitRef omitIns : Bool)
    (recs : List SamRec) : Option (List (String × String)) :=
  match checkArgs ref.length start stop with
  | none => none
  | some (s, e, trim) =>
    some ((samBlocks recs).map fun b =>
      let p := pairOfBlock b ref omitIns
      let p' := if trim then trimPair p s e else p
      ((b.headD default).name, pairText wrap refName (b.headD default).name omitRef p'))

end Gofasta.Model
