/-
Small-step model of the goroutines and channels shared by every pipeline command
(snps.SNPs, sam.ToMultiAlign, variants.Variants, updown list, ...).  The scheduler is the
nondeterminism: a step is a `Label`, `step?` says whether it is enabled and what it does.

    cErr := make(chan error)                 // unbuffered, main is the only receiver
    cIn := make(chan A, capIn)               // capIn may be 0
    cReadDone := make(chan bool)             // unbuffered, main is the only receiver
    cOut := make(chan B, capOut)
    cWgDone := make(chan bool)
    cWriteDone := make(chan bool)
    go reader(input, cIn, cErr, cReadDone)
    go writer(w, cOut, cErr, cWriteDone)
    wg.Add(N); for n := 0; n < N; n++ { go func(){ worker(cIn, cOut, cErr); wg.Done() }() }
    go func(){ wg.Wait(); cWgDone <- true }()
    for n := 1; n > 0; { select { case err := <-cErr: return err ; case <-cReadDone: close(cIn); n-- } }
    for n := 1; n > 0; { select { case err := <-cErr: return err ; case <-cWgDone: close(cOut); n-- } }
    for n := 1; n > 0; { select { case err := <-cErr: return err ; case <-cWriteDone: n-- } }
    return nil

A goroutine that is blocked on a communication sits at a program counter naming that
communication; local computation (calling f, absorb, finish) is folded into the step that
delivers its input.  A state in which main has returned (or the process has panicked) is final.
-/
namespace Gofasta.Model.Sched

/-- the parameters of one pipeline run -/
structure Cfg (α β ε σ : Type) where
  items : List α                          -- what the reader will read
  f : α → Except ε β                      -- the worker's transformation
  N : Nat                                 -- number of workers
  capIn : Nat                             -- capacity of cIn (0 = unbuffered)
  capOut : Nat                            -- capacity of cOut (0 = unbuffered)
  readFail : Option (Nat × ε)             -- some (k, e): after k items the reader reports e
  absorb : σ → Nat × β → Except ε σ       -- the writer's loop body
  finish : σ → Except ε σ                 -- the writer's code after its loop
  init : σ                                -- the writer's initial state

/-- reader: `for i, x := range items { cIn <- (i, x) }; cReadDone <- true`, or `cErr <- e; return` -/
inductive RPc (ε : Type) where
  | sending (i : Nat)     -- at `cIn <- (i, items[i])`
  | errS (e : ε)          -- at `cErr <- e`
  | doneS                 -- at `cReadDone <- true`
  | exited
  deriving DecidableEq, Repr

/-- worker: `for (i,x) := range cIn { y, err := f(x); if err != nil { cErr <- err; return }; cOut <- (i,y) }; wg.Done()` -/
inductive WPc (β ε : Type) where
  | recv                          -- at the head of `for (i, x) := range cIn`
  | sendOut (i : Nat) (y : β)     -- at `cOut <- (i, y)`
  | errS (i : Nat) (e : ε)        -- at `cErr <- err` (the index i is a ghost: which record failed)
  | exited                        -- range loop left and wg.Done() executed
  deriving DecidableEq, Repr

/-- waiter: `wg.Wait(); cWgDone <- true` -/
inductive TPc where
  | waiting               -- at `wg.Wait()`
  | doneS                 -- at `cWgDone <- true`
  | exited
  deriving DecidableEq, Repr

/-- writer: `for r := range cOut { absorb }; finish; cWriteDone <- true`, errors go to cErr -/
inductive OPc (ε : Type) where
  | recv                  -- at the head of `for r := range cOut`
  | errS (e : ε)          -- at `cErr <- err`
  | doneS                 -- at `cWriteDone <- true`
  | exited
  deriving DecidableEq, Repr

/-- main: the three select loops, then `return` -/
inductive MPc (ε : Type) where
  | stage1                -- select { <-cErr ; <-cReadDone  }
  | stage2                -- select { <-cErr ; <-cWgDone    }
  | stage3                -- select { <-cErr ; <-cWriteDone }
  | ret (r : Option ε)    -- returned r (none = nil)
  deriving DecidableEq, Repr

/-- a Go channel: its buffer and whether `close` was called -/
structure Chan (τ : Type) where
  queue : List τ
  closed : Bool
  deriving Repr

structure State (α β ε σ : Type) where
  reader : RPc ε
  workers : List (WPc β ε)
  waiter : TPc
  writer : OPc ε
  main : MPc ε
  cIn : Chan (Nat × α)
  cOut : Chan (Nat × β)
  wst : σ                          -- the writer's local state
  arrival : List (Nat × β)         -- ghost (history): what the writer received, in order
  panicked : Bool                  -- a send on, or a close of, a closed channel happened

/-- one constructor per kind of step -/
inductive Label where
  | readerSend                -- reader: `cIn <- (i,x)` into the buffer (capIn > 0)
  | workerRecv (w : Nat)      -- worker w: `range cIn` takes the head of the buffer
  | handIn (w : Nat)          -- capIn = 0: reader's send and worker w's receive, together
  | workerClosed (w : Nat)    -- worker w: `range cIn` ends (closed and empty); wg.Done()
  | workerSend (w : Nat)      -- worker w: `cOut <- (i,y)` into the buffer (capOut > 0)
  | writerRecv                -- writer: `range cOut` takes the head of the buffer; absorb
  | handOut (w : Nat)         -- capOut = 0: worker w's send and the writer's receive, together; absorb
  | writerClosed              -- writer: `range cOut` ends (closed and empty); finish
  | wait                      -- waiter: `wg.Wait()` returns
  | mainErrReader             -- main: `case err := <-cErr`, the sender is the reader
  | mainErrWorker (w : Nat)   -- main: `case err := <-cErr`, the sender is worker w
  | mainErrWriter             -- main: `case err := <-cErr`, the sender is the writer
  | mainReadDone              -- main, stage 1: `case <-cReadDone: close(cIn)`
  | mainWgDone                -- main, stage 2: `case <-cWgDone: close(cOut)`
  | mainWriteDone             -- main, stage 3: `case <-cWriteDone`
  deriving DecidableEq, Repr

variable {α β ε σ : Type}

def WPc.isExited : WPc β ε → Bool
  | .exited => true
  | _ => false

def MPc.isRet : MPc ε → Bool
  | .ret _ => true
  | _ => false

/-- nothing happens after main has returned (the process exits) or after a panic -/
def State.final (s : State α β ε σ) : Bool := s.panicked || s.main.isRet

/-- how many items the reader sends before it stops -/
def nSend (cfg : Cfg α β ε σ) : Nat :=
  match cfg.readFail with
  | none => cfg.items.length
  | some (k, _) => min k cfg.items.length

/-- where the reader goes after its last send -/
def rAfter (cfg : Cfg α β ε σ) : RPc ε :=
  match cfg.readFail with
  | none => .doneS
  | some (_, e) => .errS e

/-- reader's program counter once j items have been sent -/
def rnext (cfg : Cfg α β ε σ) (j : Nat) : RPc ε :=
  if j < nSend cfg then .sending j else rAfter cfg

/-- worker's program counter after it received r: it calls f -/
def wnext (cfg : Cfg α β ε σ) (r : Nat × α) : WPc β ε :=
  match cfg.f r.2 with
  | .ok y => .sendOut r.1 y
  | .error e => .errS r.1 e

/-- the writer's loop body on a received record -/
def absorbInto (cfg : Cfg α β ε σ) (s : State α β ε σ) (r : Nat × β) : State α β ε σ :=
  match cfg.absorb s.wst r with
  | .ok st => { s with wst := st, arrival := s.arrival ++ [r] }
  | .error e => { s with writer := .errS e, arrival := s.arrival ++ [r] }

def init (cfg : Cfg α β ε σ) : State α β ε σ where
  reader := rnext cfg 0
  workers := List.replicate cfg.N .recv
  waiter := .waiting
  writer := .recv
  main := .stage1
  cIn := ⟨[], false⟩
  cOut := ⟨[], false⟩
  wst := cfg.init
  arrival := []
  panicked := false

/-! one function per label; `none` = not enabled -/

/-- `cIn <- (i,x)`: panics on a closed channel, else needs room in the buffer -/
def stepReaderSend (cfg : Cfg α β ε σ) (s : State α β ε σ) : Option (State α β ε σ) :=
  match s.reader, s.cIn.closed with
  | .sending _, true => some { s with panicked := true }
  | .sending i, false =>
    match cfg.items[i]? with
    | some x =>
      if s.cIn.queue.length < cfg.capIn then
        some { s with reader := rnext cfg (i + 1), cIn := { s.cIn with queue := s.cIn.queue ++ [(i, x)] } }
      else none
    | none => none
  | _, _ => none

/-- `(i,x) := <-cIn` from a non-empty buffer (also after close: the buffer is drained) -/
def stepWorkerRecv (cfg : Cfg α β ε σ) (s : State α β ε σ) (w : Nat) : Option (State α β ε σ) :=
  match s.workers[w]?, s.cIn.queue with
  | some .recv, r :: rest =>
    some { s with workers := s.workers.set w (wnext cfg r), cIn := { s.cIn with queue := rest } }
  | _, _ => none

/-- rendezvous on an unbuffered, open cIn -/
def stepHandIn (cfg : Cfg α β ε σ) (s : State α β ε σ) (w : Nat) : Option (State α β ε σ) :=
  match s.reader, s.workers[w]?, s.cIn.closed, cfg.capIn with
  | .sending i, some .recv, false, 0 =>
    match cfg.items[i]? with
    | some x => some { s with reader := rnext cfg (i + 1), workers := s.workers.set w (wnext cfg (i, x)) }
    | none => none
  | _, _, _, _ => none

/-- `range cIn` on a closed and empty channel leaves the loop; then wg.Done() -/
def stepWorkerClosed (s : State α β ε σ) (w : Nat) : Option (State α β ε σ) :=
  match s.workers[w]?, s.cIn.closed, s.cIn.queue with
  | some .recv, true, [] => some { s with workers := s.workers.set w .exited }
  | _, _, _ => none

/-- `cOut <- (i,y)`: panics on a closed channel, else needs room in the buffer -/
def stepWorkerSend (cfg : Cfg α β ε σ) (s : State α β ε σ) (w : Nat) : Option (State α β ε σ) :=
  match s.workers[w]?, s.cOut.closed with
  | some (.sendOut _ _), true => some { s with panicked := true }
  | some (.sendOut i y), false =>
    if s.cOut.queue.length < cfg.capOut then
      some { s with workers := s.workers.set w .recv, cOut := { s.cOut with queue := s.cOut.queue ++ [(i, y)] } }
    else none
  | _, _ => none

/-- `r := <-cOut` from a non-empty buffer, then the loop body -/
def stepWriterRecv (cfg : Cfg α β ε σ) (s : State α β ε σ) : Option (State α β ε σ) :=
  match s.writer, s.cOut.queue with
  | .recv, r :: rest => some (absorbInto cfg { s with cOut := { s.cOut with queue := rest } } r)
  | _, _ => none

/-- rendezvous on an unbuffered, open cOut, then the writer's loop body -/
def stepHandOut (cfg : Cfg α β ε σ) (s : State α β ε σ) (w : Nat) : Option (State α β ε σ) :=
  match s.workers[w]?, s.writer, s.cOut.closed, cfg.capOut with
  | some (.sendOut i y), .recv, false, 0 =>
    some (absorbInto cfg { s with workers := s.workers.set w .recv } (i, y))
  | _, _, _, _ => none

/-- `range cOut` on a closed and empty channel leaves the loop; then finish -/
def stepWriterClosed (cfg : Cfg α β ε σ) (s : State α β ε σ) : Option (State α β ε σ) :=
  match s.writer, s.cOut.closed, s.cOut.queue with
  | .recv, true, [] =>
    match cfg.finish s.wst with
    | .ok st => some { s with wst := st, writer := .doneS }
    | .error e => some { s with writer := .errS e }
  | _, _, _ => none

/-- `wg.Wait()` returns when every worker has run wg.Done() -/
def stepWait (s : State α β ε σ) : Option (State α β ε σ) :=
  match s.waiter with
  | .waiting => if s.workers.all WPc.isExited then some { s with waiter := .doneS } else none
  | _ => none

/-- `case err := <-cErr: return err` (present in all three selects), sender = reader.
    The sender's own continuation does not matter: the process exits. -/
def stepMainErrReader (s : State α β ε σ) : Option (State α β ε σ) :=
  match s.reader with
  | .errS e => some { s with main := .ret (some e) }
  | _ => none

def stepMainErrWorker (s : State α β ε σ) (w : Nat) : Option (State α β ε σ) :=
  match s.workers[w]? with
  | some (.errS _ e) => some { s with main := .ret (some e) }
  | _ => none

def stepMainErrWriter (s : State α β ε σ) : Option (State α β ε σ) :=
  match s.writer with
  | .errS e => some { s with main := .ret (some e) }
  | _ => none

/-- stage 1: `case <-cReadDone: close(cIn)` (closing a closed channel panics) -/
def stepMainReadDone (s : State α β ε σ) : Option (State α β ε σ) :=
  match s.main, s.reader with
  | .stage1, .doneS =>
    if s.cIn.closed then some { s with panicked := true }
    else some { s with main := .stage2, reader := .exited, cIn := { s.cIn with closed := true } }
  | _, _ => none

/-- stage 2: `case <-cWgDone: close(cOut)` -/
def stepMainWgDone (s : State α β ε σ) : Option (State α β ε σ) :=
  match s.main, s.waiter with
  | .stage2, .doneS =>
    if s.cOut.closed then some { s with panicked := true }
    else some { s with main := .stage3, waiter := .exited, cOut := { s.cOut with closed := true } }
  | _, _ => none

/-- stage 3: `case <-cWriteDone`, then `return nil` -/
def stepMainWriteDone (s : State α β ε σ) : Option (State α β ε σ) :=
  match s.main, s.writer with
  | .stage3, .doneS => some { s with main := .ret none, writer := .exited }
  | _, _ => none

/-- the step relation in executable form -/
def step? (cfg : Cfg α β ε σ) (s : State α β ε σ) (l : Label) : Option (State α β ε σ) :=
  if s.final then none else
  match l with
  | .readerSend => stepReaderSend cfg s
  | .workerRecv w => stepWorkerRecv cfg s w
  | .handIn w => stepHandIn cfg s w
  | .workerClosed w => stepWorkerClosed s w
  | .workerSend w => stepWorkerSend cfg s w
  | .writerRecv => stepWriterRecv cfg s
  | .handOut w => stepHandOut cfg s w
  | .writerClosed => stepWriterClosed cfg s
  | .wait => stepWait s
  | .mainErrReader => stepMainErrReader s
  | .mainErrWorker w => stepMainErrWorker s w
  | .mainErrWriter => stepMainErrWriter s
  | .mainReadDone => stepMainReadDone s
  | .mainWgDone => stepMainWgDone s
  | .mainWriteDone => stepMainWriteDone s

def workerLabels (w : Nat) : List Label :=
  [.workerRecv w, .handIn w, .workerClosed w, .workerSend w, .handOut w, .mainErrWorker w]

/-- every label that can ever be enabled with n workers -/
def allLabels (n : Nat) : List Label :=
  [.readerSend, .writerRecv, .writerClosed, .wait, .mainErrReader, .mainErrWriter,
   .mainReadDone, .mainWgDone, .mainWriteDone] ++ (List.range n).flatMap workerLabels

/-- the enabled labels of a step function -/
def enabledWith (stp : State α β ε σ → Label → Option (State α β ε σ)) (n : Nat)
    (s : State α β ε σ) : List Label :=
  (allLabels n).filter (fun l => (stp s l).isSome)

def enabled (cfg : Cfg α β ε σ) (s : State α β ε σ) : List Label :=
  enabledWith (step? cfg) cfg.N s

/-- the states some schedule can reach -/
inductive Reach (cfg : Cfg α β ε σ) : State α β ε σ → Prop where
  | init : Reach cfg (init cfg)
  | step {s s' : State α β ε σ} (l : Label) : Reach cfg s → step? cfg s l = some s' → Reach cfg s'

/-- run a schedule: the k-th number picks `enabled[k mod length]`; stops when nothing is enabled -/
def runWith (stp : State α β ε σ → Label → Option (State α β ε σ)) (n : Nat) :
    State α β ε σ → List Nat → State α β ε σ
  | s, [] => s
  | s, k :: ks =>
    let en := enabledWith stp n s
    match en[k % en.length]? with
    | none => s
    | some l =>
      match stp s l with
      | some s' => runWith stp n s' ks
      | none => s

def runSchedule (cfg : Cfg α β ε σ) (sched : List Nat) : State α β ε σ :=
  runWith (step? cfg) cfg.N (init cfg) sched

/-- the same, keeping the labels chosen (for test drivers) -/
def traceWith (stp : State α β ε σ → Label → Option (State α β ε σ)) (n : Nat) :
    State α β ε σ → List Nat → List Label
  | _, [] => []
  | s, k :: ks =>
    let en := enabledWith stp n s
    match en[k % en.length]? with
    | none => []
    | some l =>
      match stp s l with
      | some s' => l :: traceWith stp n s' ks
      | none => []

/-- run an explicit list of labels; `none` if one of them is not enabled -/
def runLabels (stp : State α β ε σ → Label → Option (State α β ε σ)) :
    State α β ε σ → List Label → Option (State α β ε σ)
  | s, [] => some s
  | s, l :: ls =>
    match stp s l with
    | some s' => runLabels stp s' ls
    | none => none

/-- the writer's loop over a whole arrival sequence -/
def absorbAll (absorb : σ → Nat × β → Except ε σ) : σ → List (Nat × β) → Except ε σ
  | st, [] => .ok st
  | st, r :: rs =>
    match absorb st r with
    | .ok st' => absorbAll absorb st' rs
    | .error e => .error e

/-- record i as it leaves a worker, if item i exists and f accepts it -/
def rec? (cfg : Cfg α β ε σ) (i : Nat) : Option (Nat × β) :=
  match cfg.items[i]? with
  | some x =>
    match cfg.f x with
    | .ok y => some (i, y)
    | .error _ => none
  | none => none

/-- the measure that every step decreases -/
def rμ (cfg : Cfg α β ε σ) : RPc ε → Nat
  | .sending i => 4 * (nSend cfg - i) + 5
  | .errS _ => 1
  | .doneS => 1
  | .exited => 0

def wμ : WPc β ε → Nat
  | .recv => 1
  | .sendOut _ _ => 3
  | .errS _ _ => 1
  | .exited => 0

def wsμ : List (WPc β ε) → Nat
  | [] => 0
  | p :: ps => wμ p + wsμ ps

def tμ : TPc → Nat
  | .waiting => 2
  | .doneS => 1
  | .exited => 0

def oμ : OPc ε → Nat
  | .recv => 2
  | .errS _ => 1
  | .doneS => 1
  | .exited => 0

def mμ : MPc ε → Nat
  | .stage1 => 3
  | .stage2 => 2
  | .stage3 => 1
  | .ret _ => 0

def μ (cfg : Cfg α β ε σ) (s : State α β ε σ) : Nat :=
  rμ cfg s.reader + wsμ s.workers + tμ s.waiter + oμ s.writer + mμ s.main +
    3 * s.cIn.queue.length + s.cOut.queue.length + (if s.panicked then 0 else 1)

/-! ### Variants: the same pipeline with one statement wrong -/

/-- (a) stage 1 closes cOut instead of cIn (wrong variable) -/
def stepA (cfg : Cfg α β ε σ) (s : State α β ε σ) (l : Label) : Option (State α β ε σ) :=
  if s.final then none else
  match l with
  | .mainReadDone =>
    match s.main, s.reader with
    | .stage1, .doneS =>
      if s.cOut.closed then some { s with panicked := true }
      else some { s with main := .stage2, reader := .exited, cOut := { s.cOut with closed := true } }
    | _, _ => none
  | l => step? cfg s l

/-- (b) the stage-2 select has no `case err := <-cErr` arm -/
def stepB (cfg : Cfg α β ε σ) (s : State α β ε σ) (l : Label) : Option (State α β ε σ) :=
  match s.main, l with
  | .stage2, .mainErrReader => none
  | .stage2, .mainErrWorker _ => none
  | .stage2, .mainErrWriter => none
  | _, l => step? cfg s l

/-- (c) the worker drops its error and goes on with the next record -/
def swallow : WPc β ε → WPc β ε
  | .errS _ _ => .recv
  | p => p

def stepC (cfg : Cfg α β ε σ) (s : State α β ε σ) (l : Label) : Option (State α β ε σ) :=
  (step? cfg s l).map fun s' => { s' with workers := s'.workers.map swallow }

end Gofasta.Model.Sched
