/-
Generic pieces shared by the models: stable insertion sort (sort.SliceStable with a strict weak
order) and the bounded "catchment" used by closest.findClosestN and updown.findUpDownCatchment:
append below capacity; on reaching capacity sort and truncate; at capacity admit a newcomer only
if it is strictly better than the current worst (then sort and truncate); final sort if the
capacity was never reached.
-/
namespace Gofasta.Model
variable {α : Type}

def insSorted (lt : α → α → Bool) (x : α) : List α → List α
  | [] => [x]
  | y :: t => if lt x y then x :: y :: t else y :: insSorted lt x t

/-- stable insertion sort -/
def sortStable (lt : α → α → Bool) (l : List α) : List α :=
  l.foldl (fun acc x => insSorted lt x acc) []

def catchStepG (lt : α → α → Bool) (K : Nat) (cat : List α) (x : α) : List α :=
  if cat.length < K then
    let c := cat ++ [x]
    if c.length = K then (sortStable lt c).take K else c
  else match cat.getLast? with
    | some w => if lt x w then (sortStable lt (cat ++ [x])).take K else cat
    | none => cat

def catchFinishG (lt : α → α → Bool) (K : Nat) (cat : List α) : List α :=
  if cat.length < K then sortStable lt cat else cat

def topKG (lt : α → α → Bool) (K : Nat) (l : List α) : List α :=
  catchFinishG lt K (l.foldl (catchStepG lt K) [])

end Gofasta.Model
