import Gofasta.Model.Variants
/-
Model of the region construction: genbank.Location.GetPositions on the five location shapes,
variants.CDSRegion2fromGenbank / RegionsFromGenbank, CDSRegion2fromGFF / RegionsFromGFF.
The text tokenisers of both formats are not modelled: the model starts from structured features.
-/
namespace Gofasta.Model

/-- the five GenBank location shapes of property C14 -/
inductive LocForm where
  | range       -- a..b
  | join        -- join(a..b,c..d,…)
  | comp        -- complement(a..b)
  | compJoin    -- complement(join(a..b,c..d,…))
  | joinComp    -- join(complement(c..d),complement(a..b),…)
  deriving DecidableEq, Repr

def rangeUp (a b : Nat) : List Nat := List.range' a (b + 1 - a)

/-- Location.GetPositions -/
def locPositions (f : LocForm) (segs : List (Nat × Nat)) : List Nat :=
  match f with
  | .range | .join => segs.flatMap fun s => rangeUp s.1 s.2
  | .comp => segs.flatMap fun s => (rangeUp s.1 s.2).reverse
  | .compJoin => (segs.flatMap fun s => rangeUp s.1 s.2).reverse
  | .joinComp => segs.flatMap fun s => (rangeUp s.1 s.2).reverse

structure GbFeature where
  gene : String
  form : LocForm
  segs : List (Nat × Nat)
  codonStart : Nat
  translation : List Nat

/-- CDSRegion2fromGenbank; none = error (length not a multiple of three) -/
def regionFromGenbank (f : GbFeature) : Option Region :=
  let all := locPositions f.form f.segs
  let pos := all.drop (f.codonStart - 1)
  if pos.length % 3 ≠ 0 then none else
  let rev := match all.head?, all.getLast? with
    | some a, some b => decide (a > b)
    | _, _ => false
  some { name := f.gene, strand := if rev then -1 else 1, positions := pos, translation := f.translation ++ [42] }

def regionsFromGenbank (fs : List GbFeature) (L : Nat) : Option (List Region × List Nat) :=
  match fs.mapM regionFromGenbank with
  | some rs => some (rs, codes rs L)
  | none => none

structure GffRow where
  type : String
  start : Nat
  stop : Nat
  strand : String
  phase : Nat
  id : Option String
  name : Option String
  deriving Repr

/-- reference bases (decoded, upper case) at 1-based positions -/
def refBasesAt (refDegapped : List Nat) (ps : List Nat) : List Nat := ps.map fun p => refDegapped.getD (p - 1) 0

/-- stable insertion of a row by genomic start (sort.SliceStable on Start) -/
def insertRow (r : GffRow) : List GffRow → List GffRow
  | [] => [r]
  | x :: xs => if r.start < x.start then r :: x :: xs else x :: insertRow r xs

/-- the rows of one feature ordered by genomic start, rows of equal start in file order -/
def sortRows (rows : List GffRow) : List GffRow := rows.foldl (fun acc r => insertRow r acc) []

/-- CDSRegion2fromGFF with the phase taken from the 5'-most row only; none = error. Since fix a19382f the rows are first
    ordered by genomic start (the name is still that of the first row in file order) -/
def regionFromGFF (rows0 : List GffRow) (refDegapped : List Nat) : Option Region :=
  let rows := sortRows rows0
  match rows0, rows with
  | [], _ => none
  | _, [] => none
  | f0 :: _, r0 :: _ =>
    let name := f0.name.getD ""
    match r0.strand with
    | "+" =>
      if rows.any (fun r => r.strand != "+") then none else
      let pos := (rows.zip (List.range rows.length)).flatMap fun (r, j) =>
        rangeUp (if j = 0 then r.start + r.phase else r.start) r.stop
      match translateGo true (refBasesAt refDegapped pos) with
      | some t => some { name := name, strand := 1, positions := pos, translation := t }
      | none => none
    | "-" =>
      if rows.any (fun r => r.strand != "-") then none else
      let n := rows.length
      let pos := ((rows.zip (List.range n)).reverse).flatMap fun (r, j) =>
        (rangeUp r.start (if j = n - 1 then r.stop - r.phase else r.stop)).reverse
      match translateGo true (complement (refBasesAt refDegapped pos)) with
      | some t => some { name := name, strand := -1, positions := pos, translation := t }
      | none => none
    | _ => none

def minPos (ps : List Nat) : Nat := ps.foldl min (ps.headD 0)

def regionStartLt (a b : Region) : Bool := minPos a.positions < minPos b.positions

/-- first-appearance order of the IDs -/
def idOrder (rows : List GffRow) : List String :=
  rows.foldl (fun acc r => match r.id with
    | some i => if acc.contains i then acc else acc ++ [i]
    | none => acc) []

/-- RegionsFromGFF (repaired: intergenic positions are the complement of the *named* regions; regions
    are visited in file order) -/
def regionsFromGFF (rows : List GffRow) (refDegapped : List Nat) : Option (List Region × List Nat) :=
  let cdsRows := rows.filter fun r => r.type == "CDS" || r.type == "mature_protein_region_of_CDS"
  let groups := (idOrder cdsRows).map fun i => cdsRows.filter fun r => r.id == some i
  let others := (cdsRows.filter fun r => r.id.isNone).map fun r => [r]
  match (groups ++ others).mapM fun g => regionFromGFF g refDegapped with
  | none => none
  | some temp =>
    let named := temp.filter fun r => r.name != ""
    let cds := sortStable regionStartLt named
    some (cds, codes cds refDegapped.length)

end Gofasta.Model
