import Gofasta.Model.Sched
/-
Small-step model of the goroutines and channels of a CHAIN of m worker pools (m = 0, 1, 2, ...):

    reader -> c_0 -> pool 0 -> c_1 -> pool 1 -> ... -> c_m -> writer

  m = 0 (closest, closest -n, updown topranking): reader -> c_0 -> one consumer (the "writer").
  m = 1 (snps, sam toMultiAlign, variants, updown list, ...): Model/Sched.lean.
  m = 2 (sam toPairAlign, sam variants): reader -> c_0 -> pool A -> c_1 -> pool B -> c_2 -> writer.

    cErr := make(chan error)                       // unbuffered, main is the only receiver
    c_0 := make(chan T, cap0); c_{j+1} := make(chan T, pools[j].cap)
    go reader(input, c_0, cErr, cReadDone)
    for each pool j:  wg_j.Add(N_j); N_j times: go func(){ worker_j(c_j, c_{j+1}, cErr); wg_j.Done() }()
                      go func(){ wg_j.Wait(); cDone_j <- true }()
    go writer(w, c_m, cErr, cWriteDone)
    stage 0:            select { case err := <-cErr: return err ; case <-cReadDone:  close(c_0)     }
    stage j+1 (j < m):  select { case err := <-cErr: return err ; case <-cDone_j:    close(c_{j+1}) }
    stage m+1:          select { case err := <-cErr: return err ; case <-cWriteDone:                }
    return nil

The program counters of reader, workers, waiters and writer and the channel type are those of
Model/Sched.lean.  One value type γ for all channels.  Channel semantics of Go as in Model/Sched.lean:
a buffered send appends when there is room, a receive takes the head, `range` ends on closed and
empty, capacity 0 means sender and receiver move together in ONE step, a send on (or close of) a
closed channel sets `panicked`.  A state in which main has returned or the process panicked is final.
-/
namespace Gofasta.Model.SchedChain
open Gofasta.Model.Sched (RPc WPc TPc OPc Chan)

/-- one worker pool: N goroutines running `for (i,x) := range in { y, err := f(x); ...; out <- (i,y) }` -/
structure Pool (γ ε : Type) where
  N : Nat                          -- number of workers
  f : γ → Except ε γ               -- the transformation
  cap : Nat                        -- capacity of the pool's OUTPUT channel

structure Cfg (γ ε σ : Type) where
  items : List γ                          -- what the reader will read
  pools : List (Pool γ ε)                 -- the m pools, upstream first
  cap0 : Nat                              -- capacity of the reader's channel c_0
  readFail : Option (Nat × ε)             -- some (k, e): after k items the reader reports e
  absorb : σ → Nat × γ → Except ε σ       -- the writer's loop body
  finish : σ → Except ε σ                 -- the writer's code after its loop
  init : σ

/-- main: the select loop of stage j (0 .. m+1), or returned -/
inductive MPc (ε : Type) where
  | stage (j : Nat)
  | ret (r : Option ε)
  deriving DecidableEq, Repr

structure State (γ ε σ : Type) where
  reader : RPc ε
  workers : List (List (WPc γ ε))    -- workers[j][w]: worker w of pool j
  waiters : List TPc                 -- waiters[j]: `wg_j.Wait(); cDone_j <- true`
  writer : OPc ε
  main : MPc ε
  chans : List (Chan (Nat × γ))      -- c_0 .. c_m
  wst : σ                            -- the writer's local state
  arrival : List (Nat × γ)           -- ghost (history): what the writer received, in order
  panicked : Bool                    -- a send on, or a close of, a closed channel happened

/-- a goroutine that sends on a data channel: the reader (on c_0) or worker w of pool j (on c_{j+1}) -/
inductive Snd where
  | reader
  | worker (j w : Nat)
  deriving DecidableEq, Repr

/-- a goroutine that ranges over a data channel: worker w of pool j (over c_j) or the writer (over c_m) -/
inductive Rcv where
  | worker (j w : Nat)
  | writer
  deriving DecidableEq, Repr

/-- a goroutine that may sit at `cErr <- err` -/
inductive Who where
  | reader
  | worker (j w : Nat)
  | writer
  deriving DecidableEq, Repr

inductive Label where
  | send (a : Snd)            -- a: `c <- v` into the buffer (capacity > 0); panics if c is closed
  | recv (b : Rcv)            -- b: `range c` takes the head of the buffer; then its loop body
  | hand (a : Snd) (b : Rcv)  -- capacity 0: a's send and b's receive, together; then b's loop body
  | closed (b : Rcv)          -- b: `range c` ends (closed and empty); worker: wg.Done(); writer: finish
  | wait (j : Nat)            -- waiter j: `wg_j.Wait()` returns
  | mainErr (who : Who)       -- main: `case err := <-cErr`, the sender is `who`
  | mainDone                  -- main: the other arm of the current stage's select
  deriving DecidableEq, Repr

variable {γ ε σ : Type}

def Cfg.m (cfg : Cfg γ ε σ) : Nat := cfg.pools.length

def Snd.chan : Snd → Nat
  | .reader => 0
  | .worker j _ => j + 1

def Rcv.chan (m : Nat) : Rcv → Nat
  | .worker j _ => j
  | .writer => m

/-- capacity of c_k -/
def capOf (cfg : Cfg γ ε σ) : Nat → Nat
  | 0 => cfg.cap0
  | k + 1 =>
    match cfg.pools[k]? with
    | some P => P.cap
    | none => 0

/-- the reader's part of the configuration in the shape of Model/Sched.lean, whose reader is reused -/
def Cfg.rd (cfg : Cfg γ ε σ) : Sched.Cfg γ γ ε σ where
  items := cfg.items
  f := .ok
  N := 0
  capIn := cfg.cap0
  capOut := 0
  readFail := cfg.readFail
  absorb := cfg.absorb
  finish := cfg.finish
  init := cfg.init

def MPc.isRet : MPc ε → Bool
  | .ret _ => true
  | _ => false

def State.final (s : State γ ε σ) : Bool := s.panicked || s.main.isRet

/-- worker's program counter after it received r: it calls f -/
def wnext (P : Pool γ ε) (r : Nat × γ) : WPc γ ε :=
  match P.f r.2 with
  | .ok y => .sendOut r.1 y
  | .error e => .errS r.1 e

def getW (s : State γ ε σ) (j w : Nat) : Option (WPc γ ε) :=
  match s.workers[j]? with
  | some ws => ws[w]?
  | none => none

def setW (s : State γ ε σ) (j w : Nat) (p : WPc γ ε) : State γ ε σ :=
  match s.workers[j]? with
  | some ws => { s with workers := s.workers.set j (ws.set w p) }
  | none => s

def putChan (s : State γ ε σ) (k : Nat) (ch : Chan (Nat × γ)) : State γ ε σ :=
  { s with chans := s.chans.set k ch }

/-- the writer's loop body on a received record -/
def absorbInto (cfg : Cfg γ ε σ) (s : State γ ε σ) (r : Nat × γ) : State γ ε σ :=
  match cfg.absorb s.wst r with
  | .ok st => { s with wst := st, arrival := s.arrival ++ [r] }
  | .error e => { s with writer := .errS e, arrival := s.arrival ++ [r] }

/-- the value a is about to send, if a sits at a send -/
def sndVal (cfg : Cfg γ ε σ) (s : State γ ε σ) : Snd → Option (Nat × γ)
  | .reader =>
    match s.reader with
    | .sending i =>
      match cfg.items[i]? with
      | some x => some (i, x)
      | none => none
    | _ => none
  | .worker j w =>
    match getW s j w with
    | some (.sendOut i y) => some (i, y)
    | _ => none

/-- a after its send went through -/
def sndAdvance (cfg : Cfg γ ε σ) (s : State γ ε σ) : Snd → State γ ε σ
  | .reader =>
    match s.reader with
    | .sending i => { s with reader := Sched.rnext cfg.rd (i + 1) }
    | _ => s
  | .worker j w => setW s j w .recv

/-- b sits at the head of its `range` loop -/
def rcvReady (cfg : Cfg γ ε σ) (s : State γ ε σ) : Rcv → Bool
  | .worker j w =>
    match cfg.pools[j]?, getW s j w with
    | some _, some .recv => true
    | _, _ => false
  | .writer =>
    match s.writer with
    | .recv => true
    | _ => false

/-- b after it received r: the loop body up to its next communication -/
def rcvDeliver (cfg : Cfg γ ε σ) (s : State γ ε σ) (b : Rcv) (r : Nat × γ) : State γ ε σ :=
  match b with
  | .worker j w =>
    match cfg.pools[j]? with
    | some P => setW s j w (wnext P r)
    | none => s
  | .writer => absorbInto cfg s r

/-- b after its `range` loop ended: a worker runs wg.Done(), the writer runs finish -/
def rcvEnd (cfg : Cfg γ ε σ) (s : State γ ε σ) : Rcv → State γ ε σ
  | .worker j w => setW s j w .exited
  | .writer =>
    match cfg.finish s.wst with
    | .ok st => { s with wst := st, writer := .doneS }
    | .error e => { s with writer := .errS e }

/-- the error `who` is trying to send on cErr -/
def errOf (s : State γ ε σ) : Who → Option ε
  | .reader =>
    match s.reader with
    | .errS e => some e
    | _ => none
  | .worker j w =>
    match getW s j w with
    | some (.errS _ e) => some e
    | _ => none
  | .writer =>
    match s.writer with
    | .errS e => some e
    | _ => none

def init (cfg : Cfg γ ε σ) : State γ ε σ where
  reader := Sched.rnext cfg.rd 0
  workers := cfg.pools.map fun P => List.replicate P.N .recv
  waiters := cfg.pools.map fun _ => .waiting
  writer := .recv
  main := .stage 0
  chans := List.replicate (cfg.m + 1) ⟨[], false⟩
  wst := cfg.init
  arrival := []
  panicked := false

/-! one function per label; `none` = not enabled -/

/-- `c <- v`: panics on a closed channel, else needs room in the buffer -/
def stepSend (cfg : Cfg γ ε σ) (s : State γ ε σ) (a : Snd) : Option (State γ ε σ) :=
  match sndVal cfg s a, s.chans[a.chan]? with
  | some v, some ch =>
    if ch.closed then some { s with panicked := true }
    else if ch.queue.length < capOf cfg a.chan then
      some (putChan (sndAdvance cfg s a) a.chan { ch with queue := ch.queue ++ [v] })
    else none
  | _, _ => none

/-- `r := <-c` from a non-empty buffer (also after close: the buffer is drained), then the loop body -/
def stepRecv (cfg : Cfg γ ε σ) (s : State γ ε σ) (b : Rcv) : Option (State γ ε σ) :=
  match rcvReady cfg s b, s.chans[b.chan cfg.m]? with
  | true, some ch =>
    match ch.queue with
    | r :: rest => some (rcvDeliver cfg (putChan s (b.chan cfg.m) { ch with queue := rest }) b r)
    | [] => none
  | _, _ => none

/-- rendezvous on an unbuffered, open channel -/
def stepHand (cfg : Cfg γ ε σ) (s : State γ ε σ) (a : Snd) (b : Rcv) : Option (State γ ε σ) :=
  if a.chan = b.chan cfg.m ∧ capOf cfg a.chan = 0 then
    match sndVal cfg s a, rcvReady cfg s b, s.chans[a.chan]? with
    | some v, true, some ch =>
      if ch.closed then none else some (rcvDeliver cfg (sndAdvance cfg s a) b v)
    | _, _, _ => none
  else none

/-- `range c` on a closed and empty channel leaves the loop -/
def stepClosed (cfg : Cfg γ ε σ) (s : State γ ε σ) (b : Rcv) : Option (State γ ε σ) :=
  match rcvReady cfg s b, s.chans[b.chan cfg.m]? with
  | true, some ch =>
    match ch.closed, ch.queue with
    | true, [] => some (rcvEnd cfg s b)
    | _, _ => none
  | _, _ => none

/-- `wg_j.Wait()` returns when every worker of pool j has run wg_j.Done() -/
def stepWait (s : State γ ε σ) (j : Nat) : Option (State γ ε σ) :=
  match s.waiters[j]?, s.workers[j]? with
  | some .waiting, some ws =>
    if ws.all WPc.isExited then some { s with waiters := s.waiters.set j .doneS } else none
  | _, _ => none

/-- `case err := <-cErr: return err` (present in every stage) -/
def stepMainErr (s : State γ ε σ) (who : Who) : Option (State γ ε σ) :=
  match errOf s who with
  | some e => some { s with main := .ret (some e) }
  | none => none

/-- stage 0: `case <-cReadDone: close(c_0)` -/
def stepDoneReader (s : State γ ε σ) : Option (State γ ε σ) :=
  match s.reader, s.chans[0]? with
  | .doneS, some ch =>
    if ch.closed then some { s with panicked := true }
    else some { s with main := .stage 1, reader := .exited, chans := s.chans.set 0 { ch with closed := true } }
  | _, _ => none

/-- stage j+1 (j < m): `case <-cDone_j: close(c_{j+1})` -/
def stepDoneWaiter (s : State γ ε σ) (j : Nat) : Option (State γ ε σ) :=
  match s.waiters[j]?, s.chans[j + 1]? with
  | some .doneS, some ch =>
    if ch.closed then some { s with panicked := true }
    else some { s with main := .stage (j + 2), waiters := s.waiters.set j .exited,
                       chans := s.chans.set (j + 1) { ch with closed := true } }
  | _, _ => none

/-- stage m+1: `case <-cWriteDone`, then `return nil` -/
def stepDoneWriter (s : State γ ε σ) : Option (State γ ε σ) :=
  match s.writer with
  | .doneS => some { s with main := .ret none, writer := .exited }
  | _ => none

def stepMainDone (cfg : Cfg γ ε σ) (s : State γ ε σ) : Option (State γ ε σ) :=
  match s.main with
  | .ret _ => none
  | .stage j =>
    if j = cfg.m + 1 then stepDoneWriter s
    else
      match j with
      | 0 => stepDoneReader s
      | j' + 1 => stepDoneWaiter s j'

/-- the step relation in executable form -/
def step? (cfg : Cfg γ ε σ) (s : State γ ε σ) (l : Label) : Option (State γ ε σ) :=
  if s.final then none else
  match l with
  | .send a => stepSend cfg s a
  | .recv b => stepRecv cfg s b
  | .hand a b => stepHand cfg s a b
  | .closed b => stepClosed cfg s b
  | .wait j => stepWait s j
  | .mainErr who => stepMainErr s who
  | .mainDone => stepMainDone cfg s

/-- (j, w) for every worker w of every pool j, pools numbered from j0 -/
def wids : Nat → List (Pool γ ε) → List (Nat × Nat)
  | _, [] => []
  | j0, P :: t => (List.range P.N).map (fun w => (j0, w)) ++ wids (j0 + 1) t

def senders (cfg : Cfg γ ε σ) : List Snd := .reader :: (wids 0 cfg.pools).map fun p => .worker p.1 p.2
def receivers (cfg : Cfg γ ε σ) : List Rcv := .writer :: (wids 0 cfg.pools).map fun p => .worker p.1 p.2
def whos (cfg : Cfg γ ε σ) : List Who := .reader :: .writer :: (wids 0 cfg.pools).map fun p => .worker p.1 p.2

/-- every label that can ever be enabled -/
def allLabels (cfg : Cfg γ ε σ) : List Label :=
  .mainDone :: ((senders cfg).map .send ++ (receivers cfg).map .recv ++ (receivers cfg).map .closed ++
    (List.range cfg.m).map .wait ++ (whos cfg).map .mainErr ++
    (senders cfg).flatMap fun a => ((receivers cfg).filter fun b => a.chan == b.chan cfg.m).map (.hand a))

def enabledWith (stp : State γ ε σ → Label → Option (State γ ε σ)) (labels : List Label)
    (s : State γ ε σ) : List Label :=
  labels.filter (fun l => (stp s l).isSome)

def enabled (cfg : Cfg γ ε σ) (s : State γ ε σ) : List Label :=
  enabledWith (step? cfg) (allLabels cfg) s

/-- the states some schedule can reach -/
inductive Reach (cfg : Cfg γ ε σ) : State γ ε σ → Prop where
  | init : Reach cfg (init cfg)
  | step {s s' : State γ ε σ} (l : Label) : Reach cfg s → step? cfg s l = some s' → Reach cfg s'

/-- run a schedule: the k-th number picks `enabled[k mod length]`; stops when nothing is enabled -/
def runWith (stp : State γ ε σ → Label → Option (State γ ε σ)) (labels : List Label) :
    State γ ε σ → List Nat → State γ ε σ
  | s, [] => s
  | s, k :: ks =>
    let en := enabledWith stp labels s
    match en[k % en.length]? with
    | none => s
    | some l =>
      match stp s l with
      | some s' => runWith stp labels s' ks
      | none => s

def runSchedule (cfg : Cfg γ ε σ) (sched : List Nat) : State γ ε σ :=
  runWith (step? cfg) (allLabels cfg) (init cfg) sched

/-- the same, keeping the labels chosen (for test drivers) -/
def traceWith (stp : State γ ε σ → Label → Option (State γ ε σ)) (labels : List Label) :
    State γ ε σ → List Nat → List Label
  | _, [] => []
  | s, k :: ks =>
    let en := enabledWith stp labels s
    match en[k % en.length]? with
    | none => []
    | some l =>
      match stp s l with
      | some s' => l :: traceWith stp labels s' ks
      | none => []

/-- run an explicit list of labels; `none` if one of them is not enabled -/
def runLabels (stp : State γ ε σ → Label → Option (State γ ε σ)) :
    State γ ε σ → List Label → Option (State γ ε σ)
  | s, [] => some s
  | s, l :: ls =>
    match stp s l with
    | some s' => runLabels stp s' ls
    | none => none

/-- the numeric schedule that makes `runWith` follow the given labels (for test drivers) -/
def toSched (stp : State γ ε σ → Label → Option (State γ ε σ)) (labels : List Label) :
    State γ ε σ → List Label → List Nat
  | _, [] => []
  | s, l :: ls =>
    match stp s l with
    | some s' => (enabledWith stp labels s).idxOf l :: toSched stp labels s' ls
    | none => []

/-- a record through the pools in turn -/
def pass : List (Pool γ ε) → γ → Except ε γ
  | [], x => .ok x
  | P :: t, x =>
    match P.f x with
    | .ok y => pass t y
    | .error e => .error e

/-- record i as it reaches the writer, if item i exists and every pool accepts it -/
def rec? (cfg : Cfg γ ε σ) (i : Nat) : Option (Nat × γ) :=
  match cfg.items[i]? with
  | some x =>
    match pass cfg.pools x with
    | .ok y => some (i, y)
    | .error _ => none
  | none => none

/-! the measure that every step decreases: an item weighs 2m+2 before it is read, 2(m-k)+1 in c_k,
    2(m-j) in the hands of a worker of pool j, 0 once absorbed -/

def rμ (cfg : Cfg γ ε σ) : RPc ε → Nat
  | .sending i => (2 * cfg.m + 2) * (Sched.nSend cfg.rd - i) + (2 * cfg.m + 3)
  | .errS _ => 1
  | .doneS => 1
  | .exited => 0

def wμ (h : Nat) : WPc γ ε → Nat
  | .recv => 1
  | .sendOut _ _ => 1 + h
  | .errS _ _ => 1
  | .exited => 0

def wsμ (h : Nat) : List (WPc γ ε) → Nat
  | [] => 0
  | p :: ps => wμ h p + wsμ h ps

def poolsμ (m : Nat) : Nat → List (List (WPc γ ε)) → Nat
  | _, [] => 0
  | j, ws :: t => wsμ (2 * (m - j)) ws + poolsμ m (j + 1) t

def tμ : TPc → Nat
  | .waiting => 2
  | .doneS => 1
  | .exited => 0

def tsμ : List TPc → Nat
  | [] => 0
  | t :: ts => tμ t + tsμ ts

def chansμ (m : Nat) : Nat → List (Chan (Nat × γ)) → Nat
  | _, [] => 0
  | k, ch :: t => (2 * (m - k) + 1) * ch.queue.length + chansμ m (k + 1) t

def oμ : OPc ε → Nat
  | .recv => 2
  | .errS _ => 1
  | .doneS => 1
  | .exited => 0

def mμ (m : Nat) : MPc ε → Nat
  | .stage j => m + 3 - j
  | .ret _ => 0

def μ (cfg : Cfg γ ε σ) (s : State γ ε σ) : Nat :=
  rμ cfg s.reader + poolsμ cfg.m 0 s.workers + tsμ s.waiters + oμ s.writer + mμ cfg.m s.main +
    chansμ cfg.m 0 s.chans + (if s.panicked then 0 else 1)

/-! ### Variants of the m = 2 driver with one statement wrong -/

/-- (a) the closes of stage 2 and stage 3 swapped: stage 2 closes c_2, stage 3 closes c_1 -/
def stepSwap (cfg : Cfg γ ε σ) (s : State γ ε σ) (l : Label) : Option (State γ ε σ) :=
  if s.final then none else
  match l, s.main with
  | .mainDone, .stage 1 =>
    match s.waiters[0]?, s.chans[2]? with
    | some TPc.doneS, some ch =>
      if ch.closed then some { s with panicked := true }
      else some { s with main := .stage 2, waiters := s.waiters.set 0 .exited,
                         chans := s.chans.set 2 { ch with closed := true } }
    | _, _ => none
  | .mainDone, .stage 2 =>
    match s.waiters[1]?, s.chans[1]? with
    | some TPc.doneS, some ch =>
      if ch.closed then some { s with panicked := true }
      else some { s with main := .stage 3, waiters := s.waiters.set 1 .exited,
                         chans := s.chans.set 1 { ch with closed := true } }
    | _, _ => none
  | l, _ => step? cfg s l

/-- (b) waiter B (pool 1) waits for wait group A (pool 0) -/
def stepWrongWg (cfg : Cfg γ ε σ) (s : State γ ε σ) (l : Label) : Option (State γ ε σ) :=
  if s.final then none else
  match l with
  | .wait 1 =>
    match s.waiters[1]?, s.workers[0]? with
    | some TPc.waiting, some ws =>
      if ws.all WPc.isExited then some { s with waiters := s.waiters.set 1 .doneS } else none
    | _, _ => none
  | l => step? cfg s l

end Gofasta.Model.SchedChain
