import Gofasta.Model.Alphabet
import Gofasta.Model.Util
import Gofasta.Model.Sort
/-
Model of pkg/variants (pairwise.go, variants.go) on one encoded (reference row, query row) pair:
getIndelsPair, getNucsPair, getAAsPair, GetVariantsPair, FormatVariant, the writers, and the
construction of regions from GenBank features and GFF rows. The model follows the behaviour the
properties demand (findings F-C04, F-C05, F-C12a/b, F-C14, F-C15 are repaired in /repo).
-/
namespace Gofasta.Model

inductive VKind where | aa | del | ins | nuc
  deriving DecidableEq, Repr, Inhabited

/-- order of the Changetype strings "aa" < "del" < "ins" < "nuc" -/
def VKind.rank : VKind → Nat | .aa => 0 | .del => 1 | .ins => 2 | .nuc => 3
def VKind.name : VKind → String | .aa => "aa" | .del => "del" | .ins => "ins" | .nuc => "nuc"

structure Variant where
  kind : VKind
  pos : Int
  len : Nat := 0
  refAl : List Nat := []
  queAl : List Nat := []
  feature : String := ""
  residue : Nat := 0
  snps : String := ""
  deriving DecidableEq, Repr, Inhabited

structure Region where
  name : String
  strand : Int               -- +1 or -1
  positions : List Nat       -- 1-based reference positions in coding order
  translation : List Nat     -- one amino-acid byte per codon
  deriving Repr, Inhabited

def gapCode : Nat := 244

/-- alignment columns of the reference bases, in order (refToMSA as absolute columns) -/
def refColsFrom : Nat → List Nat → List Nat
  | _, [] => []
  | i, r :: rs => if r = gapCode then refColsFrom (i + 1) rs else i :: refColsFrom (i + 1) rs

def refCols (ref : List Nat) : List Nat := refColsFrom 0 ref

/-! ### indels: run-length scan with a running count of reference bases -/

structure IndelState where
  insOpen : Bool := false
  insStart : Nat := 0
  insLen : Nat := 0
  delOpen : Bool := false
  delStart : Nat := 0      -- 0-based reference index of the first deleted base
  delLen : Nat := 0
  refBases : Nat := 0
  out : List Variant := []

def indelStep (s : IndelState) (rq : Nat × Nat) : IndelState :=
  let (r, q) := rq
  if r = gapCode then
    if q = gapCode then s
    else if s.insOpen then { s with insLen := s.insLen + 1 }
    else { s with insOpen := true, insStart := s.refBases, insLen := 1 }
  else
    let s1 := if s.insOpen then { s with insOpen := false, out := s.out ++ [{ kind := .ins, pos := (s.insStart : Int), len := s.insLen }] } else s
    let s2 :=
      if q = gapCode then
        if s1.delOpen then { s1 with delLen := s1.delLen + 1 }
        else { s1 with delOpen := true, delStart := s1.refBases, delLen := 1 }
      else if s1.delOpen then
        { s1 with delOpen := false,
                  out := if s1.delStart ≠ 0 then s1.out ++ [{ kind := .del, pos := ((s1.delStart + 1 : Nat) : Int), len := s1.delLen }] else s1.out }
      else s1
    { s2 with refBases := s2.refBases + 1 }

def getIndelsPair (ref q : List Nat) : List Variant :=
  let s := (ref.zip q).foldl indelStep {}
  if s.insOpen then s.out ++ [{ kind := .ins, pos := (s.insStart : Int), len := s.insLen }] else s.out

/-! ### SNPs at non-coding positions -/

def getNucsPair (ref q : List Nat) (cols : List Nat) (inter : List Nat) : List Variant :=
  inter.filterMap fun (p : Nat) =>
    match cols[p - 1]? with
    | some c =>
      let r := ref.getD c 0
      let x := q.getD c 0
      if encDiffer r x then some { kind := .nuc, pos := (p : Int), refAl := [dec r], queAl := [dec x] } else none
    | none => none

/-! ### amino-acid calls -/

structure AAState where
  codonSnps : List Variant := []
  codon : List Nat := []
  aaCounter : Nat := 0
  out : List Variant := []

def fmtNuc (v : Variant) : String :=
  "nuc:" ++ bytesToString v.refAl ++ toString v.pos ++ bytesToString v.queAl

def aaStep (ref q : List Nat) (cols : List Nat) (reg : Region) (s : AAState) (refPos : Nat) : AAState :=
  match cols[refPos - 1]? with
  | none => s
  | some c =>
    let r := ref.getD c 0
    let x := q.getD c 0
    let snps := if encDiffer x r then s.codonSnps ++ [{ kind := .nuc, pos := (refPos : Int), refAl := [dec r], queAl := [dec x] }] else s.codonSnps
    let codon := s.codon ++ [dec x]
    if codon.length = 3 then
      let codon' := if reg.strand = -1 then complement codon else codon
      let aa := match dictLookup codon' with | some a => a | none => [88]
      let refaa := [reg.translation.getD s.aaCounter 0]
      if aa ≠ refaa ∧ aa ≠ [88] then
        { codonSnps := [], codon := [], aaCounter := s.aaCounter + 1,
          out := s.out ++ [{ kind := .aa, feature := reg.name, refAl := refaa, queAl := aa,
                             pos := (refPos : Int) - 2 * reg.strand, residue := s.aaCounter + 1,
                             snps := joinWith ";" (snps.map fmtNuc) }] }
      else { codonSnps := [], codon := [], aaCounter := s.aaCounter + 1, out := s.out ++ snps }
    else { s with codonSnps := snps, codon := codon }

def getAAsPair (ref q : List Nat) (cols : List Nat) (reg : Region) : List Variant :=
  (reg.positions.foldl (aaStep ref q cols reg) {}).out

/-! ### merge, sort, de-duplicate -/

def variantLt (a b : Variant) : Bool := a.pos < b.pos || (a.pos == b.pos && a.kind.rank < b.kind.rank)

/-- the de-duplication of the Go code BEFORE its repair (no longer used by `getVariantsPair`; kept for the lemmas that
compare the two): drop deletions at position 0 and exact repeats of the previously kept record -/
def dedupAdj : Option Variant → List Variant → List Variant
  | _, [] => []
  | prev, v :: t =>
    if v.kind = .del ∧ v.pos = 0 then dedupAdj prev t
    else if prev = some v then dedupAdj prev t
    else v :: dedupAdj (some v) t

/-- the inner backward scan of the repaired loop: is `v` among the kept records (newest first), looking only at the
leading run of kept records that have the position and the kind of `v`? The scan stops at the first kept record of
another position or kind. -/
def seenInRun (v : Variant) : List Variant → Bool
  | [] => false
  | k :: t => if k.pos == v.pos && k.kind == v.kind then (k == v || seenInRun v t) else false

/-- the repaired de-duplication loop over the sorted records; `keptRev` is `final`, the records kept so far, newest
first. A deletion at position 0 is skipped; a record equal to one of the kept records of its own position and kind
(`seenInRun`) is skipped; every other record is appended to `final`. -/
def dedupRun (keptRev : List Variant) : List Variant → List Variant
  | [] => keptRev.reverse
  | v :: t =>
    if v.kind = .del ∧ v.pos = 0 then dedupRun keptRev t
    else if seenInRun v keptRev then dedupRun keptRev t
    else dedupRun (v :: keptRev) t

/-- all records of the pair in generation order, stably sorted by (position, kind), then passed through the
de-duplication loop `dedupRun` -/
def getVariantsPair (ref q : List Nat) (regions : List Region) (inter : List Nat) : List Variant :=
  let cols := refCols ref
  let all := getIndelsPair ref q ++ getNucsPair ref q cols inter ++ (regions.flatMap fun r => getAAsPair ref q cols r)
  dedupRun [] (sortStable variantLt all)

def formatVariant (appendSnp : Bool) (v : Variant) : String :=
  match v.kind with
  | .del => "del:" ++ toString v.pos ++ ":" ++ toString v.len
  | .ins => "ins:" ++ toString v.pos ++ ":" ++ toString v.len
  | .nuc => fmtNuc v
  | .aa => "aa:" ++ v.feature ++ ":" ++ bytesToString v.refAl ++ toString v.residue ++ bytesToString v.queAl ++
      (if appendSnp then "(" ++ v.snps ++ ")" else "")

/-- `--start` / `--end` (0 or negative = absent), each on its own -/
def inWindow (start stop : Int) (v : Variant) : Bool :=
  !((start > 0 && v.pos < start) || (stop > 0 && v.pos > stop))

def variantsLine (appendSnp : Bool) (start stop : Int) (name : String) (vs : List Variant) : String :=
  name ++ "," ++ joinWith "|" ((vs.filter (inWindow start stop)).map (formatVariant appendSnp)) ++ "\n"

/-- per-sequence output; records named like the reference are skipped -/
def variantsOutput (appendSnp : Bool) (start stop : Int) (refID : String) (rows : List (String × List Variant)) : String :=
  "query,mutations\n" ++ String.join ((rows.filter fun r => r.1 != refID).map fun r => variantsLine appendSnp start stop r.1 r.2)

/-! ### aggregate -/

structure AggKey where
  v : Variant            -- with snps blanked (Vskinny)
  rep : String
  deriving DecidableEq

def aggInsert (k : AggKey) : List (AggKey × Nat) → List (AggKey × Nat)
  | [] => [(k, 1)]
  | (k', n) :: t => if k' = k then (k', n + 1) :: t else (k', n) :: aggInsert k t

/-- total order of the aggregate table: position, kind, query allele, then the printed form -/
def aggLt (a b : AggKey × Nat) : Bool :=
  if a.1.v.pos != b.1.v.pos then a.1.v.pos < b.1.v.pos
  else if a.1.v.kind.rank != b.1.v.kind.rank then a.1.v.kind.rank < b.1.v.kind.rank
  else if a.1.v.queAl != b.1.v.queAl then bytesToString a.1.v.queAl < bytesToString b.1.v.queAl
  else a.1.rep < b.1.rep

def variantsAggregate (appendSnp : Bool) (start stop : Int) (thrNum thrDen : Nat) (refID : String)
    (rows : List (String × List Variant)) : String :=
  let qrows := rows.filter fun r => r.1 != refID
  let total := qrows.length
  let counts := qrows.foldl (fun m r => (r.2.filter (inWindow start stop)).foldl (fun m v =>
      aggInsert { v := { v with snps := "" }, rep := formatVariant appendSnp v } m) m) []
  let sorted := sortStable aggLt counts
  "mutation,frequency\n" ++ String.join ((sorted.filter fun e => e.2 * thrDen ≥ thrNum * total).map fun e =>
    e.1.rep ++ "," ++ fmt9 e.2 total ++ "\n")

/-! ### regions -/

/-- variants.codes: complement of the union of the regions' positions in 1..L -/
def codes (regions : List Region) (L : Nat) : List Nat :=
  (List.range L).filterMap fun i => if regions.any (fun r => r.positions.contains (i + 1)) then none else some (i + 1)

end Gofasta.Model
