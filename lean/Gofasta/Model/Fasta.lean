import Gofasta.Model.Encoding
import Gofasta.Model.Util
/-
Model of the five hand-copied FASTA reader loops (fastaio.ReadAlignment, ReadEncodeAlignment,
ReadEncodeScoreAlignment, ReadEncodeAlignmentToList, variants.findReference) as ONE state machine
over the lines produced by bufio.ScanLines, parameterised by what is done with a sequence line.
Bytes are naturals < 256.
-/
namespace Gofasta.Model

/-- bufio.ScanLines: split on LF, drop one trailing CR of each line; a final line without LF is a
    line; nothing after a final LF. -/
def splitLinesAux : List Nat → List Nat → List (List Nat)
  | [], cur => if cur.isEmpty then [] else [cur.reverse]
  | 10 :: rest, cur => cur.reverse :: splitLinesAux rest []
  | b :: rest, cur => splitLinesAux rest (b :: cur)

def dropCR (l : List Nat) : List Nat :=
  match l.getLast? with
  | some 13 => l.dropLast
  | _ => l

def splitLines (bs : List Nat) : List (List Nat) := (splitLinesAux bs []).map dropCR

/-- unicode.IsSpace restricted to ASCII (the generators keep headers ASCII) -/
def isSpaceB (b : Nat) : Bool := b == 32 || (9 ≤ b && b ≤ 13)

/-- strings.Fields(s)[0] : the first whitespace-delimited token, if any -/
def firstField (s : List Nat) : Option (List Nat) :=
  let t := s.dropWhile isSpaceB
  if t.isEmpty then none else some (t.takeWhile (fun b => !isSpaceB b))

inductive RdErr where
  | badFormat      -- no leading '>' / header without an ID
  | diffLen        -- different length sequences
  | invalidNuc     -- symbol outside the alphabet
  | empty          -- no records
  | refNotFound
  deriving DecidableEq, Repr

structure FaRec where
  id : List Nat
  desc : List Nat
  seq : List Nat       -- encoded bytes (encoded readers) or upper-cased text (plain reader)
  idx : Nat
  score : Nat := 0
  deriving DecidableEq, Repr

/-- what a reader does with a sequence line -/
inductive Mode where
  | plain                  -- ReadAlignment : strings.ToUpper, no symbol check
  | encoded (hard : Bool)  -- the encoded readers
  deriving DecidableEq

def asciiUpper (b : Nat) : Nat := if 97 ≤ b ∧ b ≤ 122 then b - 32 else b

/-- encode one sequence line; none = invalid nucleotide -/
def encodeLine (hard : Bool) : List Nat → Option (List Nat)
  | [] => some []
  | b :: t => if enc hard b = 0 then none else (encodeLine hard t).map (enc hard b :: ·)

def seqLine (m : Mode) (line : List Nat) : Option (List Nat) :=
  match m with
  | .plain => some (line.map asciiUpper)
  | .encoded hard => encodeLine hard line

structure RdState where
  started : Bool := false
  id : List Nat := []
  desc : List Nat := []
  buf : List Nat := []
  width : Nat := 0
  counter : Nat := 0
  out : List FaRec := []

def scoreSeq (s : List Nat) : Nat := (s.map scoreOf).sum

def mkRec (s : RdState) : FaRec :=
  { id := s.id, desc := s.desc, seq := s.buf, idx := s.counter, score := scoreSeq s.buf }

/-- one scanned line. Blank lines are skipped (repaired behaviour, F-C16a); a header without an
    ID is a format error (repaired behaviour, F-C16b). -/
def rdStep (m : Mode) (s : RdState) (line : List Nat) : Except (List FaRec × RdErr) RdState :=
  match line with
  | [] => .ok s
  | 62 :: d =>                                   -- '>'
    match firstField d with
    | none => .error (s.out, .badFormat)
    | some id =>
      if !s.started then .ok { s with started := true, id := id, desc := d }
      else if s.counter != 0 && s.buf.length != s.width then .error (s.out, .diffLen)
      else .ok { s with id := id, desc := d, buf := [], width := (if s.counter = 0 then s.buf.length else s.width),
                        counter := s.counter + 1, out := s.out ++ [mkRec s] }
  | _ =>
    if !s.started then .error (s.out, .badFormat)
    else match seqLine m line with
      | none => .error (s.out, .invalidNuc)
      | some e => .ok { s with buf := s.buf ++ e }

def rdLines (m : Mode) : RdState → List (List Nat) → Except (List FaRec × RdErr) RdState
  | s, [] => .ok s
  | s, l :: ls => match rdStep m s l with
    | .ok s' => rdLines m s' ls
    | .error e => .error e

/-- after the last line (repaired behaviour): the pending record is handled like every other one.
    It is flushed when its buffer is non-empty OR a record was already emitted, so a last header
    followed by no sequence is a record of length 0 and goes through the ordinary width check;
    only when nothing at all was collected (no header, or one single header without a sequence)
    there are no records, which is an error. -/
def rdFinish (s : RdState) : Except (List FaRec × RdErr) (List FaRec) :=
  if s.buf.length > 0 || s.counter > 0 then
    if s.counter > 0 && s.buf.length != s.width then .error (s.out, .diffLen)
    else .ok (s.out ++ [mkRec s])
  else .error (s.out, .empty)

/-- the loop end BEFORE the repair (kept for comparison only, not used by any reader): the pending
    record was flushed only when its buffer was non-empty, so a last header followed by no
    sequence was silently dropped. -/
def rdFinishOld (s : RdState) : Except (List FaRec × RdErr) (List FaRec) :=
  if s.buf.length > 0 then
    if s.counter > 0 && s.buf.length != s.width then .error (s.out, .diffLen)
    else .ok (s.out ++ [mkRec s])
  else if s.counter = 0 then .error (s.out, .empty)
  else .ok s.out

/-- a streaming reader: records delivered before an error stay delivered -/
def readFasta (m : Mode) (bytes : List Nat) : Except (List FaRec × RdErr) (List FaRec) :=
  match rdLines m {} (splitLines bytes) with
  | .ok s => rdFinish s
  | .error e => .error e

/-- the list reader returns nothing on error -/
def readFastaList (hard : Bool) (bytes : List Nat) : Except RdErr (List FaRec) :=
  match readFasta (.encoded hard) bytes with
  | .ok rs => .ok rs
  | .error (_, e) => .error e

/-- variants.findReference: the first record whose ID equals `refID`, read up to the next header
    (later records are not validated); widths of the records before it are checked. -/
def findRefLines (refID : List Nat) : RdState → Bool → List (List Nat) → Except RdErr FaRec
  | s, found, [] => if found then .ok (mkRec s) else .error .refNotFound
  | s, found, line :: ls =>
    match line with
    | [] => findRefLines refID s found ls
    | 62 :: d =>
      if s.started && found then .ok (mkRec s)          -- early exit at the header after the reference
      else if s.started && s.counter != 0 && s.buf.length != s.width then .error .diffLen
      else match firstField d with
        | none => .error .badFormat
        | some id =>
          if !s.started then findRefLines refID { s with started := true, id := id, desc := d } (id == refID) ls
          else
            let w := if s.counter = 0 then s.buf.length else s.width
            findRefLines refID { s with id := id, desc := d, buf := [], width := w, counter := s.counter + 1 } (id == refID) ls
    | _ =>
      if !s.started then .error .badFormat
      else match encodeLine false line with
        | none => .error .invalidNuc
        | some e => findRefLines refID { s with buf := s.buf ++ e } found ls

def findReference (refID : List Nat) (bytes : List Nat) : Except RdErr FaRec :=
  findRefLines refID {} false (splitLines bytes)

/-- A/C/G/T counts of an encoded sequence (codes 136, 40, 72, 24) -/
def countCode (c : Nat) (s : List Nat) : Nat := (s.filter (· == c)).length

end Gofasta.Model
