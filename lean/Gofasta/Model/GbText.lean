import Gofasta.Model.Csv
import Gofasta.Model.Regions
import Gofasta.Model.GbUnicode
/-
Text-level model of pkg/genbank: ReadGenBank (bufio.Scanner line splitting, section detection by the first byte of
a line, parseGenbankFEATURES, parseGenbankORIGIN) and Location.GetPositions / IsReverse (isNested, unNestRecur,
posFromJoin, posFromComp, posFromRange, splitOnOuterCommas), on byte lists, mirroring the Go statements branch by
branch. Where the Go code indexes or slices out of range, or assigns into a nil map, the outcome is `panic`.
The standard-library functions the reader calls are *modelled* (not part of the repository): bufio.Scanner with
ScanLines and the 64 KiB token limit, strings.Fields, strings.TrimSpace, strings.TrimLeft/TrimRight with an ASCII
cutset, strings.Split, `for range` over a string (UTF-8 decoding with U+FFFD for invalid bytes), string(rune),
unicode.IsSpace / IsLetter / IsUpper, strconv.Atoi.
ReadGenBank has no error return path: its outcome is a record or a panic.
-/
namespace Gofasta.Model.GbText
open Gofasta.Model.Csv (Bytes splitB isDigitB)
open Gofasta.Model.GbUnicode (isSpace isLetter)

/-! ### UTF-8 as Go decodes it -/

def runeError : Nat := 0xFFFD

/-- size and accepted range of the second byte, by first byte (utf8.first / acceptRanges); none = invalid starter -/
def firstInfo (b : Nat) : Option (Nat × Nat × Nat) :=
  if 0xC2 ≤ b ∧ b ≤ 0xDF then some (2, 0x80, 0xBF)
  else if b = 0xE0 then some (3, 0xA0, 0xBF)
  else if b = 0xED then some (3, 0x80, 0x9F)
  else if 0xE1 ≤ b ∧ b ≤ 0xEF then some (3, 0x80, 0xBF)
  else if b = 0xF0 then some (4, 0x90, 0xBF)
  else if 0xF1 ≤ b ∧ b ≤ 0xF3 then some (4, 0x80, 0xBF)
  else if b = 0xF4 then some (4, 0x80, 0x8F)
  else none

def isCont (b : Nat) : Bool := 0x80 ≤ b && b ≤ 0xBF

/-- utf8.DecodeRuneInString: (rune, width); invalid or short sequences give (U+FFFD, 1) -/
def decodeRune : Bytes → Nat × Nat
  | [] => (runeError, 0)
  | b0 :: t =>
    if b0 < 0x80 then (b0, 1) else
    match firstInfo b0 with
    | none => (runeError, 1)
    | some (sz, lo, hi) =>
      match t with
      | [] => (runeError, 1)
      | s1 :: t1 =>
        if s1 < lo || hi < s1 then (runeError, 1)
        else if sz = 2 then ((b0 % 32) * 64 + s1 % 64, 2)
        else match t1 with
          | [] => (runeError, 1)
          | s2 :: t2 =>
            if !isCont s2 then (runeError, 1)
            else if sz = 3 then (((b0 % 16) * 64 + s1 % 64) * 64 + s2 % 64, 3)
            else match t2 with
              | [] => (runeError, 1)
              | s3 :: _ =>
                if !isCont s3 then (runeError, 1)
                else ((((b0 % 8) * 64 + s1 % 64) * 64 + s2 % 64) * 64 + s3 % 64, 4)

/-- utf8.AppendRune -/
def encodeRune (r : Nat) : Bytes :=
  if r < 0x80 then [r]
  else if r < 0x800 then [0xC0 + r / 64, 0x80 + r % 64]
  else
    let r := if r > 0x10FFFF ∨ (0xD800 ≤ r ∧ r ≤ 0xDFFF) then runeError else r
    if r < 0x10000 then [0xE0 + r / 4096, 0x80 + (r / 64) % 64, 0x80 + r % 64]
    else [0xF0 + r / 262144, 0x80 + (r / 4096) % 64, 0x80 + (r / 64) % 64, 0x80 + r % 64]

def encodeRunes (rs : List Nat) : Bytes := rs.flatMap encodeRune

/-- `for i, r := range s`: the runes with the bytes they were decoded from; the counter skips the bytes already
consumed by a multi-byte rune -/
def toksAux : Nat → Bytes → List (Nat × Bytes)
  | _, [] => []
  | 0, b :: t =>
    let d := decodeRune (b :: t)
    (d.1, (b :: t).take d.2) :: toksAux (d.2 - 1) t
  | k + 1, _ :: t => toksAux k t

def toks (s : Bytes) : List (Nat × Bytes) := toksAux 0 s

def runes (s : Bytes) : List Nat := (toks s).map (·.1)

/-! ### strings.Fields, strings.TrimSpace -/

def consHead (bs : Bytes) : List Bytes → List Bytes
  | [] => [bs]
  | h :: r => (bs ++ h) :: r

/-- FieldsFunc(s, unicode.IsSpace) over the decoded runes (the ASCII fast path of Fields gives the same) -/
def fieldsT : List (Nat × Bytes) → List Bytes
  | [] => []
  | (r, bs) :: t =>
    if isSpace r then fieldsT t
    else match t with
      | [] => [bs]
      | (r2, _) :: _ => if isSpace r2 then bs :: fieldsT t else consHead bs (fieldsT t)

def fields (s : Bytes) : List Bytes := fieldsT (toks s)

def trimLeftAux : Nat → Bytes → Bytes
  | _, [] => []
  | 0, b :: t =>
    let d := decodeRune (b :: t)
    if isSpace d.1 then trimLeftAux (d.2 - 1) t else b :: t
  | k + 1, _ :: t => trimLeftAux k t

def runeStart (b : Nat) : Bool := !isCont b

/-- utf8.DecodeLastRuneInString on the reversed string: the last rune if a valid encoding ends exactly at the end,
otherwise (U+FFFD, 1) -/
def decodeLastRev : Bytes → Nat × Nat
  | [] => (runeError, 0)
  | b :: rest =>
    if b < 0x80 then (b, 1) else
    let attempt (k : Nat) : Nat × Nat :=
      let d := decodeRune ((rest.take (k + 1)).reverse ++ [b])
      if d.2 = k + 2 then d else (runeError, 1)
    match rest with
    | [] => (runeError, 1)
    | r0 :: rest1 =>
      if runeStart r0 then attempt 0 else
      match rest1 with
      | [] => (runeError, 1)
      | r1 :: rest2 =>
        if runeStart r1 then attempt 1 else
        match rest2 with
        | [] => (runeError, 1)
        | r2 :: _ => if runeStart r2 then attempt 2 else (runeError, 1)

def trimRightAux : Nat → Bytes → Bytes
  | _, [] => []
  | 0, b :: t =>
    let d := decodeLastRev (b :: t)
    if isSpace d.1 then trimRightAux (d.2 - 1) t else b :: t
  | k + 1, _ :: t => trimRightAux k t

/-- strings.TrimSpace -/
def trimSpace (s : Bytes) : Bytes := (trimRightAux 0 (trimLeftAux 0 s).reverse).reverse

/-! ### bufio.Scanner with ScanLines -/

def maxTok : Nat := 1048576

def dropCRrev : Bytes → Bytes
  | 13 :: t => t
  | l => l

/-- the tokens Scan delivers: lines without their \n and without one trailing \r; a last line without \n counts;
as soon as 1 MiB without a \n has been buffered Scan gives up (ErrTooLong, which ReadGenBank reports after its loop
since the fix; `tooLong` below) and the rest of the input is never seen. `acc` is the current line reversed, `n` its length. -/
def scanLines : Bytes → Bytes → Nat → List Bytes
  | [], acc, _ => if acc = [] then [] else [(dropCRrev acc).reverse]
  | b :: t, acc, n =>
    if b = 10 then (dropCRrev acc).reverse :: scanLines t [] 0
    else if n + 1 ≥ maxTok then []
    else scanLines t (b :: acc) (n + 1)

/-- Scan gave up on an over-long line somewhere in the text -/
def tooLong : Bytes → Nat → Bool
  | [], _ => false
  | b :: t, n =>
    if b = 10 then tooLong t 0
    else if n + 1 ≥ maxTok then true
    else tooLong t (n + 1)

/-! ### strconv.Atoi with the kind of failure -/

inductive AtoiRes where
  | ok (v : Int)
  | synErr
  | rngErr
  deriving DecidableEq, Repr

def maxUint64 : Nat := 18446744073709551615

/-- ParseUint's loop (base 10, 64 bits): the first offending byte decides; an overflow of uint64 is reported as
soon as it happens, before later bytes are looked at -/
def parseDigits : Bytes → Nat → AtoiRes
  | [], n => .ok (n : Int)
  | b :: t, n =>
    if !(48 ≤ b && b ≤ 57) then .synErr
    else if n ≥ maxUint64 / 10 + 1 then .rngErr
    else
      let n1 := n * 10 + (b - 48)
      if n1 > maxUint64 then .rngErr else parseDigits t n1

/-- the digits after the optional sign, then the int64 range check of ParseInt -/
def atoiSigned (neg : Bool) (ds : Bytes) : AtoiRes :=
  if ds = [] then .synErr else
  match parseDigits ds 0 with
  | .ok v =>
    if neg then (if v > (Csv.maxInt64 : Int) + 1 then .rngErr else .ok (-v))
    else (if v > (Csv.maxInt64 : Int) then .rngErr else .ok v)
  | r => r

/-- strconv.Atoi on a 64-bit platform -/
def atoiE (s : Bytes) : AtoiRes :=
  match s with
  | [] => .synErr
  | b :: t => if b = 45 then atoiSigned true t else if b = 43 then atoiSigned false t else atoiSigned false (b :: t)

/-- the error kind forgotten -/
def AtoiRes.toOption : AtoiRes → Option Int
  | .ok v => some v
  | _ => none

/-! ### Location.GetPositions -/

inductive PosRes where
  | ok (ps : List Int)
  | errLoc                               -- locationErr
  | errNum (range : Bool) (num : Bytes)  -- the *strconv.NumError of Atoi: ErrRange or ErrSyntax, and the text
  | panic
  deriving DecidableEq, Repr

/-- `for i := a; i <= b; i++` (no int64 wrap-around: b = MaxInt64 is not modelled) -/
def rangeInt (a b : Int) : List Int :=
  if a ≤ b then (List.range (b - a + 1).toNat).map fun (k : Nat) => a + (k : Int) else []

def lp : Nat := 40
def rp : Nat := 41
def commaB : Nat := 44
def dot : Nat := 46

/-- isNested: the parenthesis depth exceeds one somewhere -/
def isNestedAux : Bytes → Int → Bool
  | [], _ => false
  | b :: t, d =>
    let d' := if b = lp then d + 1 else if b = rp then d - 1 else d
    if d' > 1 then true else isNestedAux t d'

def isNested (s : Bytes) : Bool := isNestedAux s 0

def consB (b : Nat) : List Bytes → List Bytes
  | [] => [[b]]
  | h :: r => (b :: h) :: r

/-- splitOnOuterCommas: cut at the commas seen at depth zero -/
def splitOuterAux : Bytes → Int → List Bytes
  | [], _ => [[]]
  | b :: t, d =>
    if b = lp then consB b (splitOuterAux t (d + 1))
    else if b = rp then consB b (splitOuterAux t (d - 1))
    else if b = commaB ∧ d = 0 then [] :: splitOuterAux t d
    else consB b (splitOuterAux t d)

def splitOuter (s : Bytes) : List Bytes := splitOuterAux s 0

/-- strings.Split(s, "..") -/
def splitDD : Bytes → List Bytes
  | [] => [[]]
  | [b] => [[b]]
  | a :: b :: t => if a = dot ∧ b = dot then [] :: splitDD t else consB a (splitDD (b :: t))

/-- strings.Contains(s, "..") -/
def hasDD : Bytes → Bool
  | [] => false
  | [_] => false
  | a :: b :: t => (a = dot ∧ b = dot) || hasDD (b :: t)

/-- the bytes of `join(` -/
def joinCut : List Nat := [106, 111, 105, 110, 40]
/-- the bytes of `complement(` -/
def compCut : List Nat := [99, 111, 109, 112, 108, 101, 109, 101, 110, 116, 40]
/-- the bytes of `join` -/
def joinWord : List Nat := [106, 111, 105, 110]
/-- the bytes of `comp` -/
def compWord : List Nat := [99, 111, 109, 112]
/-- the bytes of `join()` -/
def joinOuter : List Nat := [106, 111, 105, 110, 40, 41]
/-- the bytes of `complement()` -/
def compOuter : List Nat := [99, 111, 109, 112, 108, 101, 109, 101, 110, 116, 40, 41]

/-- strings.TrimLeft with an ASCII cutset: byte-wise -/
def trimLeftSet (cut : List Nat) (s : Bytes) : Bytes := s.dropWhile fun b => cut.contains b

/-- strings.TrimRight(s, ")") -/
def trimRightRp (s : Bytes) : Bytes := (s.reverse.dropWhile fun b => b == rp).reverse

/-- `f := strings.Split(x, ".."); a, err := Atoi(f[0]); ...; b, err := Atoi(f[1])`: the first number is converted
before the second field is indexed -/
inductive PairRes where
  | ok (a b : Int)
  | errNum (range : Bool) (num : Bytes)
  | panic

def atoiPair (x : Bytes) : PairRes :=
  match splitDD x with
  | [] => .panic
  | f0 :: rest =>
    match atoiE f0 with
    | .synErr => .errNum false f0
    | .rngErr => .errNum true f0
    | .ok a =>
      match rest with
      | [] => .panic
      | f1 :: _ =>
        match atoiE f1 with
        | .synErr => .errNum false f1
        | .rngErr => .errNum true f1
        | .ok b => .ok a b

/-- posFromComp -/
def posFromComp (s : Bytes) : PosRes :=
  match atoiPair (trimRightRp (trimLeftSet compCut s)) with
  | .ok a b => .ok (rangeInt a b).reverse
  | .errNum r n => .errNum r n
  | .panic => .panic

def joinParts : List Bytes → List Int → PosRes
  | [], acc => .ok acc
  | p :: t, acc =>
    match atoiPair p with
    | .ok a b => joinParts t (acc ++ rangeInt a b)
    | .errNum r n => .errNum r n
    | .panic => .panic

/-- posFromJoin -/
def posFromJoin (s : Bytes) : PosRes :=
  joinParts (splitB commaB (trimRightRp (trimLeftSet joinCut s))) []

/-- posFromRange -/
def posFromRange (s : Bytes) : PosRes :=
  match splitDD s with
  | [f0, f1] =>
    (match atoiE f0 with
     | .synErr => .errNum false f0
     | .rngErr => .errNum true f0
     | .ok a =>
       match atoiE f1 with
       | .synErr => .errNum false f1
       | .rngErr => .errNum true f1
       | .ok b => .ok (rangeInt a b))
  | _ => .errLoc

/-- the index scan of unNestRecur: open_idx is the index after the first `(` (0 when there is none or it is the last
byte), closed_idx the index of the last `)` at which as many `)` as `(` have been seen -/
def scanParens : Bytes → (i o c oi ci : Nat) → Nat × Nat
  | [], _, _, _, oi, ci => (oi, ci)
  | b :: t, i, o, c, oi, ci =>
    let oi := if o = 1 ∧ oi = 0 then i else oi
    if b = lp then scanParens t (i + 1) (o + 1) c oi ci
    else if b = rp then scanParens t (i + 1) o (c + 1) oi (if o = c + 1 then i else ci)
    else scanParens t (i + 1) o c oi ci

inductive NestRes where
  | ok (rs : List (List Int))
  | err
  | panic
  | fuel
  deriving DecidableEq, Repr

/-- the body of the loop over the top-level fields, with the recursive call as a parameter -/
def procFields (recur : Bytes → NestRes) : List Bytes → List (List Int) → NestRes
  | [], acc => .ok acc
  | f :: fs, acc =>
    let nested := isNested f
    if !nested ∧ f.length < 4 then .panic
    else if !nested ∧ f.take 4 = joinWord then
      (match posFromJoin f with
       | .panic => .panic
       | .ok ps => procFields recur fs (acc ++ [ps])
       | _ => procFields recur fs (acc ++ [[]]))
    else if !nested ∧ f.take 4 = compWord then
      (match posFromComp f with
       | .panic => .panic
       | .ok ps => procFields recur fs (acc ++ [ps])
       | _ => procFields recur fs (acc ++ [[]]))
    else
      let (oi, ci) := scanParens f 0 0 0 0 0
      if oi > ci then .panic else
      let outer := f.take oi ++ f.drop ci
      let inner := (f.drop oi).take (ci - oi)
      match recur inner with
      | .ok inner_result =>
        if outer = joinOuter then procFields recur fs (acc ++ [inner_result.flatten])
        else if outer = compOuter then
          (match inner_result with
           | [r] => procFields recur fs (acc ++ [r.reverse])
           | _ => .err)
        else procFields recur fs (acc ++ [[]])
      | .err => .err
      | .panic => .panic
      | .fuel => .fuel

/-- unNestRecur; the inner string is strictly shorter than the field it was cut from, so `s.length + 1` units of
fuel always suffice (GbRoundTrip.unNest_fuel) -/
def unNest : Nat → Bytes → NestRes
  | 0, _ => .fuel
  | n + 1, s => procFields (unNest n) (splitOuter s) []

/-- Location.GetPositions on the Representation -/
def getPositions (s : Bytes) : PosRes :=
  if isNested s then
    match unNest (s.length + 1) s with
    | .ok [r] => .ok r
    | .panic => .panic
    | _ => .errLoc
  else
    match s with
    | [] => .panic
    | b :: _ =>
      if isDigitB b then (if hasDD s then posFromRange s else .errLoc)
      else if s.length < 4 then .panic
      else if s.take 4 = joinWord then posFromJoin s
      else if s.take 4 = compWord then posFromComp s
      else .errLoc

inductive RevRes where
  | ok (rev : Bool)
  | err
  | panic
  deriving DecidableEq, Repr

/-- Location.IsReverse: pos[0] > pos[len(pos)-1], a panic on an empty list of positions -/
def isReverse (s : Bytes) : RevRes :=
  match getPositions s with
  | .ok [] => .panic
  | .ok (p :: ps) => .ok (decide (p > (p :: ps).getLast?.getD p))
  | .panic => .panic
  | _ => .err

/-! ### parseGenbankFEATURES -/

abbrev Info := List (Bytes × Bytes)

/-- `m[k] = v` on the insertion-ordered view of the map: an existing key keeps its place -/
def setKV (m : Info) (k v : Bytes) : Info :=
  if m.any (fun e => e.1 == k) then m.map fun e => if e.1 == k then (k, v) else e else m ++ [(k, v)]

structure Feat where
  key : Bytes
  loc : Bytes
  info : Option Info        -- none = the nil map of a zero GenbankFeature
  deriving DecidableEq, Repr

def zeroFeat : Feat := { key := [], loc := [], info := none }

structure FSt where
  feats : List Feat
  quoteClosed : Bool
  gb : Feat
  key : List Nat          -- keyBuffer (runes)
  val : List Nat          -- valueBuffer (runes)
  deriving Repr

def slash : Nat := 47
def eqB : Nat := 61
def quoteB : Nat := 34

/-- the value part of the loop over `strings.TrimSpace(line)[1:]` (isKey = false): every `=` is dropped, every `"` is
dropped and toggles quoteClosed, anything else is appended to valueBuffer; returns what was appended and quoteClosed -/
def valScan : List Nat → Bool → List Nat × Bool
  | [], qc => ([], qc)
  | r :: t, qc =>
    if r = eqB then valScan t qc
    else if r = quoteB then valScan t (!qc)
    else ((r :: (valScan t qc).1), (valScan t qc).2)

/-- the loop over `strings.TrimSpace(line)[1:]` from its start (isKey = true, quoteClosed = true, empty buffers):
runes go to keyBuffer until the first `=`; returns keyBuffer, valueBuffer, quoteClosed -/
def qualScan : List Nat → List Nat × List Nat × Bool
  | [] => ([], [], true)
  | r :: t =>
    if r = eqB then ([], (valScan t true).1, (valScan t true).2)
    else (r :: (qualScan t).1, (qualScan t).2.1, (qualScan t).2.2)

/-- the loop over a continuation line: what is appended to valueBuffer, and quoteClosed -/
def contScan : List Nat → Bool → List Nat × Bool
  | [], qc => ([], qc)
  | r :: t, qc =>
    if r = quoteB then contScan t (!qc)
    else (r :: (contScan t qc).1, (contScan t qc).2)

/-- gb.Info[string(keyBuffer)] = string(valueBuffer); none = assignment to an entry of a nil map -/
def store (s : FSt) : Option Feat :=
  match s.gb.info with
  | none => none
  | some m => some { s.gb with info := some (setKV m (encodeRunes s.key) (encodeRunes s.val)) }

def isFeatureLine (line : Bytes) (quoteClosed : Bool) : Bool :=
  quoteClosed &&
    match fields line with
    | [f0, _] => f0.head? != some slash
    | _ => false

def newGb (line : Bytes) : Feat :=
  match fields line with
  | f0 :: f1 :: _ => { key := f0, loc := f1, info := some [] }
  | _ => zeroFeat

/-- one iteration of the loop over the lines of the section; none = panic -/
def featStep (first : Bool) (line : Bytes) (s : FSt) : Option FSt :=
  let newFeature := isFeatureLine line s.quoteClosed
  if newFeature ∧ first then
    some { s with gb := newGb line, key := [], val := [] }
  else
    match trimSpace line with
    | [] => none                                         -- strings.TrimSpace(line)[0]
    | c :: rest =>
      if c = slash ∧ s.key = [] then
        let (k, v, qc) := qualScan (runes rest)
        some { s with key := k, val := v, quoteClosed := qc }
      else if !s.quoteClosed then
        let (v, qc) := contScan (runes (c :: rest)) s.quoteClosed
        some { s with val := s.val ++ v, quoteClosed := qc }
      else if c = slash then
        match store s with
        | none => none
        | some gb =>
          let (k, v, qc) := qualScan (runes rest)
          some { s with gb := gb, key := k, val := v, quoteClosed := qc }
      else if newFeature then
        match store s with
        | none => none
        | some gb => some { feats := s.feats ++ [gb], quoteClosed := true, gb := newGb line, key := [], val := [] }
      else some s

def featLoop : List Bytes → Bool → FSt → Option FSt
  | [], _, s => some s
  | l :: t, first, s =>
    match featStep first l s with
    | none => none
    | some s' => featLoop t false s'

/-- after the loop: the pending qualifier is stored only when both its key and its value are non-empty, then the
current feature is appended (also when no feature line was ever seen); none = panic -/
def featFinish (s : FSt) : Option (List Feat) :=
  if s.key ≠ [] ∧ s.val ≠ [] then
    match store s with
    | none => none
    | some gb => some (s.feats ++ [gb])
  else some (s.feats ++ [s.gb])

def featInit : FSt := { feats := [], quoteClosed := true, gb := zeroFeat, key := [], val := [] }

/-- parseGenbankFEATURES; none = panic -/
def parseFeatures (lines : List Bytes) : Option (List Feat) :=
  match featLoop lines true featInit with
  | none => none
  | some s => featFinish s

/-! ### parseGenbankORIGIN -/

def originLine (l : Bytes) : Bytes :=
  (toks l).flatMap fun t => if isLetter t.1 then encodeRune t.1 else []

def parseOrigin (lines : List Bytes) : Bytes := lines.flatMap originLine

/-! ### ReadGenBank -/

structure Record where
  features : Option (List Feat)   -- none = gb.FEATURES was never assigned (nil)
  origin : Option Bytes           -- none = gb.ORIGIN was never assigned (nil)
  deriving DecidableEq, Repr

inductive Res where
  | ok (r : Record)
  | panic
  | error      -- Scanner.Err after the loop (a line of 1 MiB or more)
  deriving DecidableEq, Repr

/-- the bytes of `FEATURES` -/
def featuresWord : Bytes := [70, 69, 65, 84, 85, 82, 69, 83]
/-- the bytes of `ORIGIN` -/
def originWord : Bytes := [79, 82, 73, 71, 73, 78]

structure RSt where
  first : Bool
  header : Bytes
  lines : List Bytes      -- reversed
  record : Record

/-- the `switch` that hands the collected lines to a section parser; none = panic -/
def flush (s : RSt) : Option Record :=
  if s.header = featuresWord then
    match parseFeatures s.lines.reverse with
    | none => none
    | some fs => some { s.record with features := some fs }
  else if s.header = originWord then
    some { s.record with origin := some (parseOrigin s.lines.reverse) }
  else some s.record

def isUpperB (b : Nat) : Bool := 65 ≤ b && b ≤ 90

def readLoop : List Bytes → RSt → Res
  | [], s =>
    match flush s with
    | none => .panic
    | some r => .ok r
  | l :: t, s =>
    match l with
    | [] => readLoop t s
    | b :: _ =>
      if isUpperB b then
        let h := (fields l).headD []
        if s.first then readLoop t { s with header := h, first := false }
        else match flush s with
          | none => .panic
          | some r => readLoop t { first := false, header := h, lines := [], record := r }
      else readLoop t { s with lines := l :: s.lines }

def readGenBank (text : Bytes) : Res :=
  match readLoop (scanLines text [] 0) { first := true, header := [], lines := [], record := { features := none, origin := none } } with
  | .panic => .panic
  | .error => .error
  | .ok r => if tooLong text 0 then .error else .ok r

/-! ### structured locations: the five shapes of Model/Regions.lean as text -/

open Gofasta.Model.Csv (digitsOf joinB digitsVal maxInt64)

abbrev Loc := LocForm × List (Nat × Nat)

/-- a..b -/
def segB (s : Nat × Nat) : Bytes := digitsOf s.1 ++ dot :: dot :: digitsOf s.2

/-- complement(a..b) -/
def compSegB (s : Nat × Nat) : Bytes := compCut ++ segB s ++ [rp]

/-- the text of a location; the segments are written in the order given (for join(complement(..),..) that is the
order of transcription, as in Model/Regions.lean); `range` and `comp` write their first segment -/
def renderLocation : Loc → Bytes
  | (.range, segs) => segB (segs.headD (0, 0))
  | (.join, segs) => joinCut ++ joinB commaB (segs.map segB) ++ [rp]
  | (.comp, segs) => compCut ++ segB (segs.headD (0, 0)) ++ [rp]
  | (.compJoin, segs) => compCut ++ (joinCut ++ joinB commaB (segs.map segB) ++ [rp]) ++ [rp]
  | (.joinComp, segs) => joinCut ++ joinB commaB (segs.map compSegB) ++ [rp]

/-- a canonical decimal numeral within int64: digits only, and exactly what strconv.Itoa writes for its value (no sign,
no leading zero) -/
def parseNum (d : Bytes) : Option Nat :=
  if d.all isDigitB = true ∧ digitsVal d ≤ maxInt64 ∧ digitsOf (digitsVal d) = d then some (digitsVal d)
  else none

def parseSeg (x : Bytes) : Option (Nat × Nat) :=
  match splitDD x with
  | [a, b] =>
    (match parseNum a, parseNum b with
     | some m, some n => some (m, n)
     | _, _ => none)
  | _ => none

def stripPrefix : Bytes → Bytes → Option Bytes
  | [], s => some s
  | _ :: _, [] => none
  | p :: ps, b :: t => if p = b then stripPrefix ps t else none

def stripSuffix (q s : Bytes) : Option Bytes := (stripPrefix q.reverse s.reverse).map List.reverse

def parseCompSeg (x : Bytes) : Option (Nat × Nat) :=
  match stripPrefix compCut x with
  | none => none
  | some y =>
    match stripSuffix [rp] y with
    | none => none
    | some z => parseSeg z

/-- a strict parser of exactly the five shapes with canonical numerals: the inverse of renderLocation
(GbRoundTrip.parse_render / render_parse). The Go code has no such parser: GetPositions goes from the text to the
positions in one step; GbRoundTrip.getPositions_of_parse ties the two together. -/
def parseLocation (s : Bytes) : Option Loc :=
  match stripPrefix joinCut s with
  | some r =>
    (match stripSuffix [rp] r with
     | none => none
     | some m =>
       let parts := splitB commaB m
       match parts.mapM parseSeg with
       | some segs => some (.join, segs)
       | none =>
         match parts.mapM parseCompSeg with
         | some segs => some (.joinComp, segs)
         | none => none)
  | none =>
    match stripPrefix compCut s with
    | some r =>
      (match stripSuffix [rp] r with
       | none => none
       | some m =>
         match stripPrefix joinCut m with
         | some r2 =>
           (match stripSuffix [rp] r2 with
            | none => none
            | some m2 => ((splitB commaB m2).mapM parseSeg).map fun segs => (LocForm.compJoin, segs))
         | none => (parseSeg m).map fun sg => (LocForm.comp, [sg]))
    | none => (parseSeg s).map fun sg => (LocForm.range, [sg])

/-- the positions of a structured location as GetPositions types them -/
def locPositionsInt (l : Loc) : List Int := (locPositions l.1 l.2).map fun (p : Nat) => (p : Int)

end Gofasta.Model.GbText
