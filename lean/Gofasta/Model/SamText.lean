import Gofasta.Model.Sam
import Gofasta.Model.Csv
/-
Model of the SAM text reader gofasta relies on: github.com/biogo/hts/sam v1.2.1
  sam.NewReader + repeated Reader.Read on a byte list, as driven by pkg/sam/sam.go groupSamRecords
  (NewReader, Header, Read until io.EOF or the first error).
Mirrored branch by branch:
  * sam.go        NewReader (Peek / ReadBytes loop over the lines that start with '@'), Reader.Read
                  (ReadBytes, line-end stripping, the reference book-keeping of header-less files)
  * parse_header.go  Header.UnmarshalText, headerLine, referenceLine, readGroupLine, programLine, commentLine
  * reference.go  equalRefs ; header.go AddReference (the only path Read uses)
  * record.go     Record.UnmarshalSAM, referenceForName, NewSeq / Seq.Expand
  * cigar.go      ParseCigar, atoi, Cigar.IsValid
  * auxtags.go    ParseAux / NewAux (the BAM encoding of the value)
  * strconv       Atoi, ParseUint, ParseInt (base 0 with prefixes and underscores), ParseFloat(…, 32)
  * encoding/hex  Decode
bufio: ReadBytes('\n') returns a line of any length; an unterminated last line comes with io.EOF.
Texts are lists of bytes (List Nat, every element < 256).
Outside the modelled fragment (outcome `unsup`): @SQ UR: (net/url.Parse) and @RG DT: (time.ParseInLocation).
-/
namespace Gofasta.Model.SamText
open Gofasta.Model.Csv (splitB atoi isDigitB)

abbrev Bytes := List Nat

def bTab : Nat := 9
def bNl : Nat := 10
def bCr : Nat := 13
def bStar : Nat := 42
def bComma : Nat := 44
def bColon : Nat := 58
def bEq : Nat := 61
def bAt : Nat := 64
def bUnder : Nat := 95

/-- outcome of a piece of Go code: value, error (with a class), run-time panic, or outside the model -/
inductive Res (ε α : Type) where
  | ok (a : α)
  | err (e : ε)
  | panic
  | unsup
  deriving Repr, DecidableEq

def Res.bind {ε α β : Type} (r : Res ε α) (f : α → Res ε β) : Res ε β :=
  match r with
  | .ok a => f a
  | .err e => .err e
  | .panic => .panic
  | .unsup => .unsup

/-! ### strconv -/

/-- strconv.lower on the bytes it is compared with (letters) -/
def lowerB (c : Nat) : Nat := if 65 ≤ c ∧ c ≤ 90 then c + 32 else c

/-- digit value of a byte in ParseUint: 0-9, a-z, A-Z -/
def digitOf (c : Nat) : Option Nat :=
  if 48 ≤ c ∧ c ≤ 57 then some (c - 48)
  else if 97 ≤ lowerB c ∧ lowerB c ≤ 122 then some (lowerB c - 87)
  else none

inductive Saw where
  | start | digit | under | other
  deriving DecidableEq, Repr

def usLoop (hex : Bool) : Bytes → Saw → Bool
  | [], saw => saw != .under
  | c :: t, saw =>
    if isDigitB c || (hex && 97 ≤ lowerB c && lowerB c ≤ 102) then usLoop hex t .digit
    else if c = bUnder then (if saw = .digit then usLoop hex t .under else false)
    else if saw = .under then false
    else usLoop hex t .other

/-- strconv.underscoreOK -/
def underscoreOK (s : Bytes) : Bool :=
  let s1 := match s with
    | c :: t => if c = 45 ∨ c = 43 then t else s
    | [] => s
  match s1 with
  | a :: c :: t =>
    if a = 48 ∧ (lowerB c = 98 ∨ lowerB c = 111 ∨ lowerB c = 120) then usLoop (lowerB c = 120) t .digit
    else usLoop false s1 .start
  | _ => usLoop false s1 .start

/-- the digit loop of ParseUint; none = syntax or range error (both end the call with an error; the cutoff test
`n >= cutoff` is subsumed by the unbounded `n*base + d > maxVal`) -/
def puLoop (base maxVal : Nat) (base0 : Bool) : Bytes → Nat → Option Nat
  | [], n => some n
  | c :: t, n =>
    if c = bUnder ∧ base0 then puLoop base maxVal base0 t n
    else match digitOf c with
      | none => none
      | some d =>
        if d ≥ base then none
        else if n * base + d > maxVal then none
        else puLoop base maxVal base0 t (n * base + d)

/-- base and digits after the prefix for base 0 -/
def basePrefix (s : Bytes) : Nat × Bytes :=
  match s with
  | a :: t =>
    if a = 48 then
      match t with
      | c :: d :: u =>
        if lowerB c = 98 then (2, d :: u)
        else if lowerB c = 111 then (8, d :: u)
        else if lowerB c = 120 then (16, d :: u)
        else (8, t)
      | _ => (8, t)
    else (10, s)
  | [] => (10, s)

/-- strconv.ParseUint(s, base, bits) for base 0 or 10 ; none = error -/
def parseUint (s : Bytes) (base bits : Nat) : Option Nat :=
  if s = [] then none
  else
    let bp := if base = 0 then basePrefix s else (base, s)
    match puLoop bp.1 (2 ^ bits - 1) (base = 0) bp.2 0 with
    | none => none
    | some n => if base = 0 ∧ bp.2.contains bUnder ∧ !underscoreOK s then none else some n

/-- strconv.ParseInt(s, 0, bits) -/
def parseInt0 (s : Bytes) (bits : Nat) : Option Int :=
  match s with
  | [] => none
  | c :: t =>
    let neg := c = 45
    let body := if c = 43 ∨ c = 45 then t else s
    match parseUint body 0 64 with
    | none => none
    | some un =>
      if neg then (if un > 2 ^ (bits - 1) then none else some (-(un : Int)))
      else (if un ≥ 2 ^ (bits - 1) then none else some (un : Int))

/-! ### strconv.ParseFloat(s, 32) -/

def lowerAll (s : Bytes) : Bytes := s.map lowerB

def strB (s : String) : Bytes := s.toList.map Char.toNat

def sInf : Bytes := [105, 110, 102]
def sInfinity : Bytes := [105, 110, 102, 105, 110, 105, 116, 121]
def sNan : Bytes := [110, 97, 110]

/-- round a positive rational p/q to the nearest float32 (ties to even): the 31 low bits, none = overflow -/
def roundF32 (p q : Nat) : Option Nat :=
  if p = 0 ∨ q = 0 then some 0
  else
    let e0 : Int := (Nat.log2 p : Int) - (Nat.log2 q : Int)
    let ge : Bool := if e0 ≥ 0 then p ≥ q * 2 ^ e0.toNat else p * 2 ^ (-e0).toNat ≥ q
    let e : Int := if ge then e0 else e0 - 1
    let u : Int := (if e ≥ -126 then e else -126) - 23
    let num := if u ≥ 0 then p else p * 2 ^ (-u).toNat
    let den := if u ≥ 0 then q * 2 ^ u.toNat else q
    let q0 := num / den
    let r := num % den
    let qv := if 2 * r > den then q0 + 1 else if 2 * r = den then (if q0 % 2 = 0 then q0 else q0 + 1) else q0
    if e ≥ -126 then
      let e' : Int := if qv = 2 ^ 24 then e + 1 else e
      let m := if qv = 2 ^ 24 then 2 ^ 23 else qv
      if e' > 127 then none else some ((e' + 127).toNat * 2 ^ 23 + (m - 2 ^ 23))
    else some qv

structure FState where
  sawdot : Bool := false
  sawdigits : Bool := false
  nd : Nat := 0
  dp : Int := 0
  mant : Nat := 0
  deriving Repr

/-- the exponent digits of readFloat (saturating) ; returns (e, rest) -/
def expDigits : Bytes → Nat → Nat × Bytes
  | [], e => (e, [])
  | c :: t, e =>
    if isDigitB c then expDigits t (if e < 10000 then e * 10 + (c - 48) else e)
    else if c = bUnder then expDigits t e
    else (e, c :: t)

/-- what follows the mantissa: optional exponent, then the end of the string ; none = syntax error.
Returns the signed exponent. -/
def floatExp (hex : Bool) (s : Bytes) : Option Int :=
  match s with
  | [] => if hex then none else some 0
  | c :: t =>
    if lowerB c = (if hex then 112 else 101) then
      match t with
      | [] => none
      | d :: u =>
        let neg := d = 45
        let ds := if d = 43 ∨ d = 45 then u else t
        match ds with
        | [] => none
        | x :: _ =>
          if !isDigitB x then none
          else
            let r := expDigits ds 0
            if r.2 = [] then some (if neg then -(r.1 : Int) else (r.1 : Int)) else none
    else none

/-- the mantissa loop of readFloat ; returns the state and what is left -/
def mantLoop (hex : Bool) : Bytes → FState → FState × Bytes
  | [], st => (st, [])
  | c :: t, st =>
    if c = bUnder then mantLoop hex t st
    else if c = 46 then
      (if st.sawdot then (st, c :: t) else mantLoop hex t { st with sawdot := true, dp := st.nd })
    else if isDigitB c then
      (if c = 48 ∧ st.nd = 0 then mantLoop hex t { st with sawdigits := true, dp := st.dp - 1 }
       else mantLoop hex t { st with sawdigits := true, nd := st.nd + 1, mant := st.mant * (if hex then 16 else 10) + (c - 48) })
    else if hex ∧ 97 ≤ lowerB c ∧ lowerB c ≤ 102 then
      mantLoop hex t { st with sawdigits := true, nd := st.nd + 1, mant := st.mant * 16 + (lowerB c - 87) }
    else (st, c :: t)

/-- bits of the float32 ParseFloat(s, 32) returns ; none = error (syntax or range).
Exact for mantissas of up to 800 digits (beyond that the library truncates). -/
def parseFloat32 (s : Bytes) : Option Nat :=
  let neg := s.head? = some 45
  let body := match s with
    | c :: t => if c = 43 ∨ c = 45 then t else s
    | [] => s
  let signBit := if neg then 2 ^ 31 else 0
  if lowerAll body = sInf ∨ lowerAll body = sInfinity then some (signBit + 255 * 2 ^ 23)
  else if lowerAll s = sNan then some (255 * 2 ^ 23 + 2 ^ 22)
  else
    let hex : Bool := match body with
      | a :: c :: _ :: _ => a = 48 ∧ lowerB c = 120
      | _ => false
    let digits := if hex then body.drop 2 else body
    let r := mantLoop hex digits {}
    let st := r.1
    if !st.sawdigits then none
    else
      let dp : Int := if st.sawdot then st.dp else st.nd
      match floatExp hex r.2 with
      | none => none
      | some e =>
        if s.contains bUnder ∧ !underscoreOK s then none
        else
          -- value = mant * B^(dp - nd) * (10 or 2)^e
          let ex : Int := if hex then 4 * (dp - st.nd) + e else dp - st.nd + e
          let b : Nat := if hex then 2 else 10
          let p := if ex ≥ 0 then st.mant * b ^ ex.toNat else st.mant
          let q := if ex ≥ 0 then 1 else b ^ (-ex).toNat
          match roundF32 p q with
          | none => none
          | some bits => some (signBit + bits)

/-- little-endian bytes -/
def leBytes : Nat → Nat → Bytes
  | 0, _ => []
  | k + 1, v => (v % 256) :: leBytes k (v / 256)

/-- two's complement of an integer on k bytes -/
def leInt (k : Nat) (v : Int) : Bytes :=
  leBytes k (if v < 0 then (2 ^ (8 * k) - (-v).toNat) else v.toNat)

/-! ### encoding/hex -/

def hexVal (c : Nat) : Option Nat :=
  if 48 ≤ c ∧ c ≤ 57 then some (c - 48)
  else if 97 ≤ c ∧ c ≤ 102 then some (c - 87)
  else if 65 ≤ c ∧ c ≤ 70 then some (c - 55)
  else none

/-- hex.Decode into a buffer of `cap` bytes: the decoded bytes, an error (bad byte, odd length), or the panic of
writing past the buffer -/
def hexDecode (cap : Nat) : Bytes → Nat → Res Unit Bytes
  | [], _ => .ok []
  | [_], _ => .err ()
  | p :: q :: t, i =>
    match hexVal p, hexVal q with
    | some a, some b =>
      if i ≥ cap then .panic
      else (hexDecode cap t (i + 1)).bind fun r => .ok ((a * 16 + b) :: r)
    | _, _ => .err ()

/-! ### auxtags.go -/

def intElems (bits : Nat) (signed : Bool) : List Bytes → Option Bytes
  | [] => some []
  | n :: t =>
    let v : Option Bytes :=
      if signed then (parseInt0 n bits).map (leInt (bits / 8))
      else (parseUint n 0 bits).map (leBytes (bits / 8))
    match v with
    | none => none
    | some b => (intElems bits signed t).map (b ++ ·)

def floatElems : List Bytes → Option Bytes
  | [] => some []
  | n :: t =>
    match parseFloat32 n with
    | none => none
    | some b => (floatElems t).map (leBytes 4 b ++ ·)

/-- ParseAux: the BAM encoding of the field (what NewAux builds) -/
def parseAux (text : Bytes) : Res Unit Bytes :=
  match text with
  | t0 :: t1 :: c2 :: typ :: c4 :: txt =>
    if txt = [] ∨ c2 ≠ bColon ∨ c4 ≠ bColon then .err ()
    else if typ = 65 then                                   -- A
      (match txt with | [x] => .ok [t0, t1, 65, x] | _ => .err ())
    else if typ = 105 then                                  -- i
      (match atoi txt with
       | none => .err ()
       | some i =>
         if i < 0 then
           (if i ≥ -128 then .ok ([t0, t1, 99] ++ leInt 1 i)
            else if i ≥ -32768 then .ok ([t0, t1, 115] ++ leInt 2 i)
            else if i ≥ -2147483648 then .ok ([t0, t1, 105] ++ leInt 4 i)
            else .err ())
         else
           (if i ≤ 255 then .ok ([t0, t1, 67] ++ leInt 1 i)
            else if i ≤ 65535 then .ok ([t0, t1, 83] ++ leInt 2 i)
            else if i ≤ 4294967295 then .ok ([t0, t1, 73] ++ leInt 4 i)
            else .err ()))
    else if typ = 102 then                                  -- f
      (match parseFloat32 txt with
       | none => .err ()
       | some b => .ok ([t0, t1, 102] ++ leBytes 4 b))
    else if typ = 90 then .ok ([t0, t1, 90] ++ txt)         -- Z
    else if typ = 72 then                                   -- H
      (match hexDecode (txt.length / 2) txt 0 with
       | .ok b => .ok ([t0, t1, 72] ++ b)
       | _ => .err ())
    else if typ = 66 then                                   -- B
      (match txt with
       | sub :: c :: body =>
         if c ≠ bComma then .err ()
         else
           let nf := splitB bComma body
           let hdr := [t0, t1, 66, sub] ++ leBytes 4 nf.length
           let elems : Option Bytes :=
             if sub = 99 then intElems 8 true nf
             else if sub = 67 then intElems 8 false nf
             else if sub = 115 then intElems 16 true nf
             else if sub = 83 then intElems 16 false nf
             else if sub = 105 then intElems 32 true nf
             else if sub = 73 then intElems 32 false nf
             else if sub = 102 then floatElems nf
             else none
           (match elems with
            | none => .err ()
            | some e => .ok (hdr ++ e))
       | _ => .panic)                                       -- txt[1] on a one-byte value
    else .err ()
  | _ => .err ()

def parseAuxes : List Bytes → Res Unit (List Bytes)
  | [] => .ok []
  | a :: t => (parseAux a).bind fun x => (parseAuxes t).bind fun r => .ok (x :: r)

/-! ### cigar.go -/

def cigarK : Nat := 2 ^ 28 - 1

/-- operator index of a byte (cigarOpTypeLookup): "MIDNSHP=XB", anything else 10 = lastCigar -/
def cigarOpOf (c : Nat) : Nat :=
  if c = 77 then 0 else if c = 73 then 1 else if c = 68 then 2 else if c = 78 then 3 else if c = 83 then 4
  else if c = 72 then 5 else if c = 80 then 6 else if c = 61 then 7 else if c = 88 then 8 else if c = 66 then 9 else 10

/-- the `for { append ; n -= 1<<28-1 ; if n <= 0 break }` loop for n ≥ 0: operations of at most 2^28-1 -/
def emitOps (op : Nat) : Nat → Nat → List (Nat × Nat)
  | 0, n => [(op, min n cigarK)]
  | fuel + 1, n => if n ≤ cigarK then [(op, n)] else (op, cigarK) :: emitOps op fuel (n - cigarK)

inductive CigErr where
  | overflow | unknownOp
  deriving Repr, DecidableEq

/-- ParseCigar as a machine over the bytes: `cur` = the digits read since the last operator (reversed is not needed:
only their count and value matter), `n` = the variable n after the last emission (≤ 0), `op` = the last operator.
Digits at the end of the text re-emit the stale (op, n): n = 0 appends a zero-length operation once, a negative n
panics in NewCigarOp. -/
def cigLoop : Bytes → Bytes → Int → Nat → Res CigErr (List (Nat × Nat))
  | [], cur, n, op =>
    match cur with
    | [] => .ok []
    | [_] => if n < 0 then .panic else .ok [(op, 0)]
    | _ :: _ :: _ => .panic
  | c :: t, cur, n, op =>
    if isDigitB c then cigLoop t (cur ++ [c]) n op
    else
      if cur.length > 13 then .err .overflow
      else
        let v := Csv.digitsVal cur
        let o := cigarOpOf c
        if o = 10 then .err .unknownOp
        else (cigLoop t [] (if v > 0 ∧ v % cigarK = 0 then 0 else -1) o).bind fun r => .ok (emitOps o (v / cigarK) v ++ r)

/-- ParseCigar -/
def parseCigar (b : Bytes) : Res CigErr (List (Nat × Nat)) :=
  if b = [bStar] then .ok [] else cigLoop b [] 0 0

/-- (query, reference) consumption of an operator -/
def consumes (op : Nat) : Int × Int :=
  match op with
  | 0 => (1, 1) | 1 => (1, 0) | 2 => (0, 1) | 3 => (0, 1) | 4 => (1, 0)
  | 5 => (0, 0) | 6 => (0, 0) | 7 => (1, 1) | 8 => (1, 1) | 9 => (0, -1) | _ => (0, 0)

/-- Cigar.IsValid: the loop from index i on (prev = type of c[i-1]) -/
def validLoop : List (Nat × Nat) → Nat → Nat → Int → Int → Bool
  | [], _, _, length, _ => length == 0
  | (op, len) :: rest, i, prev, length, pos =>
    let last := rest.isEmpty
    if op = 5 ∧ i ≠ 0 ∧ !last then false
    else if op = 4 ∧ i ≠ 0 ∧ !last ∧ prev ≠ 5 ∧ (rest.head?.map (·.1)) ≠ some 5 then false
    else
      let con := consumes op
      if pos < 0 ∧ con.1 ≠ 0 then false
      else validLoop rest (i + 1) op (length - len * con.1) (pos + len * con.2)

def cigarIsValid (c : List (Nat × Nat)) (length : Nat) : Bool := validLoop c 0 0 length 0

/-! ### record.go -/

/-- n16TableRev[n16Table[b]]: what Seq.Expand returns for a byte given to NewSeq -/
def seqCanonTab : List (Nat × Nat) :=
  [(48, 65), (49, 67), (50, 71), (51, 84), (61, 61), (65, 65), (66, 66), (67, 67), (68, 68), (71, 71), (72, 72),
   (75, 75), (77, 77), (82, 82), (83, 83), (84, 84), (86, 86), (87, 87), (89, 89), (97, 65), (98, 66), (99, 67),
   (100, 68), (103, 71), (104, 72), (107, 75), (109, 77), (114, 82), (115, 83), (116, 84), (118, 86), (119, 87),
   (121, 89)]

def seqCanon (b : Nat) : Nat := (seqCanonTab.lookup b).getD 78

/-- a reference as a record sees it -/
structure RefView where
  name : Bytes
  id : Int
  len : Nat
  deriving Repr, DecidableEq

/-- a @SQ line held by the header -/
structure Ref where
  id : Int
  name : Bytes
  len : Nat
  md5 : Bytes := []
  asm : Bytes := []
  species : Bytes := []
  other : List (Bytes × Bytes) := []
  deriving Repr, DecidableEq

def Ref.view (r : Ref) : RefView := { name := r.name, id := r.id, len := r.len }

structure Rec where
  name : Bytes
  flags : Nat
  ref : Option RefView
  pos : Int                       -- 0-based (POS - 1)
  mapq : Nat
  cigar : List (Nat × Nat)        -- (operator index in "MIDNSHP=XB", length)
  mate : Option RefView
  matePos : Int
  tlen : Int
  seq : Bytes                     -- Seq.Expand() ; Seq.Length is its length
  qual : Bytes
  aux : List Bytes
  deriving Repr, DecidableEq

inductive RErr where
  | fields | flags | ref | pos | mapq | cigar | mateRef | matePos | tlen | seqCigar | qual | aux
  deriving Repr, DecidableEq

/-- referenceForName: none for `*` ; without a header a fake reference (id -1, length 0) -/
def refForName (h : Option (List Ref)) (name : Bytes) : Option (Option RefView) :=
  if name = [bStar] then some none
  else match h with
    | none => some (some { name := name, id := -1, len := 0 })
    | some refs =>
      match refs.find? (fun r => r.name = name) with
      | some r => some (some r.view)
      | none => none

def field (f : List Bytes) (i : Nat) : Bytes := f.getD i []

/-- `x--` on an int: the int64 value wraps around at the smallest integer -/
def decWrap (x : Int) : Int := if x = -9223372036854775808 then 9223372036854775807 else x - 1

/-- Record.UnmarshalSAM -/
def parseRecord (h : Option (List Ref)) (line : Bytes) : Res RErr Rec :=
  let f := splitB bTab line
  if f.length < 11 then .err .fields
  else match parseUint (field f 1) 0 16 with
  | none => .err .flags
  | some flags =>
  match refForName h (field f 2) with
  | none => .err .ref
  | some ref =>
  match atoi (field f 3) with
  | none => .err .pos
  | some pos1 =>
  match parseUint (field f 4) 10 8 with
  | none => .err .mapq
  | some mapq =>
  match parseCigar (field f 5) with
  | .panic => .panic
  | .unsup => .unsup
  | .err _ => .err .cigar
  | .ok cigar =>
  let mate? : Option (Option RefView) :=
    if field f 2 = field f 6 ∨ field f 6 = [bEq] then some ref else refForName h (field f 6)
  match mate? with
  | none => .err .mateRef
  | some mate =>
  match atoi (field f 7) with
  | none => .err .matePos
  | some mpos1 =>
  match atoi (field f 8) with
  | none => .err .tlen
  | some tlen =>
  let seqRaw : Bytes := if field f 9 = [bStar] then [] else field f 9
  if field f 9 ≠ [bStar] ∧ cigar ≠ [] ∧ !cigarIsValid cigar seqRaw.length then .err .seqCigar
  else
    let qual : Bytes :=
      if field f 10 ≠ [bStar] then (field f 10).map fun b => (b + 223) % 256
      else List.replicate seqRaw.length 255
    if qual.length ≠ 0 ∧ qual.length ≠ seqRaw.length then .err .qual
    else match parseAuxes (f.drop 11) with
      | .panic => .panic
      | .unsup => .unsup
      | .err _ => .err .aux
      | .ok aux =>
        .ok { name := field f 0, flags := flags, ref := ref, pos := decWrap pos1, mapq := mapq, cigar := cigar,
              mate := mate, matePos := decWrap mpos1, tlen := tlen, seq := seqRaw.map seqCanon, qual := qual, aux := aux }

/-! ### parse_header.go -/

inductive HErr where
  | eof | unexpectedEOF | badHeader | dupTag | dupRef | badLen | dupRG | dupPG | hex | atoi
  deriving Repr, DecidableEq

structure Hdr where
  version : Bytes := []
  so : Nat := 0
  go : Nat := 0
  other : List (Bytes × Bytes) := []
  refs : List Ref := []
  rgs : List Bytes := []
  progs : List Bytes := []
  comments : List Bytes := []
  deriving Repr, DecidableEq

def sortOrderOf (s : Bytes) : Nat :=
  if s = strB "unsorted" then 1 else if s = strB "queryname" then 2 else if s = strB "coordinate" then 3 else 0

def groupOrderOf (s : Bytes) : Nat :=
  if s = strB "none" then 1 else if s = strB "query" then 2 else if s = strB "reference" then 3 else 0

/-- a `TG:value` field of a header line: f[2] is read first (panic on fewer than three bytes) -/
def tagField (f : Bytes) : Res HErr (Bytes × Bytes) :=
  match f with
  | a :: b :: c :: v => if c ≠ bColon then .err .badHeader else .ok ([a, b], v)
  | _ => .panic

def tHD : Bytes := [72, 68]
def tSQ : Bytes := [83, 81]
def tRG : Bytes := [82, 71]
def tPG : Bytes := [80, 71]
def tCO : Bytes := [67, 79]
def tVN : Bytes := [86, 78]
def tSO : Bytes := [83, 79]
def tGO : Bytes := [71, 79]
def tSN : Bytes := [83, 78]
def tLN : Bytes := [76, 78]
def tAS : Bytes := [65, 83]
def tM5 : Bytes := [77, 53]
def tSP : Bytes := [83, 80]
def tUR : Bytes := [85, 82]
def tID : Bytes := [73, 68]
def tDT : Bytes := [68, 84]
def tPI : Bytes := [80, 73]

/-- the field loop of headerLine -/
def hdFields : List Bytes → Hdr → Res HErr Hdr
  | [], h => .ok h
  | f :: rest, h =>
    (tagField f).bind fun tv =>
      if tv.1 = tVN then (if h.version ≠ [] then .err .badHeader else hdFields rest { h with version := tv.2 })
      else if tv.1 = tSO then (if h.so ≠ 0 then .err .badHeader else hdFields rest { h with so := sortOrderOf tv.2 })
      else if tv.1 = tGO then (if h.go ≠ 0 then .err .badHeader else hdFields rest { h with go := groupOrderOf tv.2 })
      else hdFields rest { h with other := h.other ++ [tv] }

def headerLine (l : Bytes) (h : Hdr) : Res HErr Hdr :=
  let fields := splitB bTab l
  if fields.length < 2 then .err .badHeader
  else (hdFields (fields.drop 1) h).bind fun h' => if h'.version = [] then .err .badHeader else .ok h'

def validLen (l : Int) : Bool := 1 ≤ l && l ≤ 2147483647

/-- state of the field loop of referenceLine -/
structure SqState where
  rf : Ref := { id := 0, name := [], len := 0 }
  seen : List Bytes := []
  nok : Bool := false
  lok : Bool := false
  dup : Option Nat := none
  deriving Repr

def sqFields (refs : List Ref) : List Bytes → SqState → Res HErr SqState
  | [], st => .ok st
  | f :: rest, st =>
    (tagField f).bind fun tv =>
      if st.seen.contains tv.1 then .err .dupTag
      else
        let st := { st with seen := tv.1 :: st.seen }
        if tv.1 = tSN then
          let idx := refs.findIdx? (fun r => r.name = tv.2)
          sqFields refs rest { st with dup := idx, rf := { st.rf with name := tv.2 }, nok := true }
        else if tv.1 = tLN then
          (match atoi tv.2 with
           | none => .err .badHeader
           | some l => if !validLen l then .err .badLen
                       else sqFields refs rest { st with rf := { st.rf with len := l.toNat }, lok := true })
        else if tv.1 = tAS then sqFields refs rest { st with rf := { st.rf with asm := tv.2 } }
        else if tv.1 = tM5 then
          (match hexDecode 16 tv.2 0 with
           | .panic => .panic
           | .unsup => .unsup
           | .err _ => .err .hex
           | .ok b => if b.length ≠ 16 then .err .badHeader
                      else sqFields refs rest { st with rf := { st.rf with md5 := b } })
        else if tv.1 = tSP then sqFields refs rest { st with rf := { st.rf with species := tv.2 } }
        else if tv.1 = tUR then .unsup
        else sqFields refs rest { st with rf := { st.rf with other := st.rf.other ++ [tv] } }

/-- the comparison of the sorted otherTags lists: tags are unique within a line, so equal length and inclusion -/
def sameTags (a b : List (Bytes × Bytes)) : Bool := a.length == b.length && a.all fun p => b.contains p

/-- equalRefs (without the uri clauses: a UR: field is outside the model) for two different Reference values -/
def equalRefs (a b : Ref) : Bool :=
  if (a.id ≠ -1 ∧ b.id ≠ -1 ∧ a.id ≠ b.id) ∨ a.name ≠ b.name ∨ a.len ≠ b.len ∨
     (a.md5 ≠ [] ∧ b.md5 ≠ [] ∧ a.md5 ≠ b.md5) ∨ (a.asm ≠ [] ∧ b.asm ≠ [] ∧ a.asm ≠ b.asm) ∨
     (a.species ≠ [] ∧ b.species ≠ [] ∧ a.species ≠ b.species) then false
  else sameTags a.other b.other

def referenceLine (l : Bytes) (h : Hdr) : Res HErr Hdr :=
  let fields := splitB bTab l
  if fields.length < 3 then .err .badHeader
  else (sqFields h.refs (fields.drop 1) {}).bind fun st =>
    match st.dup with
    | some d =>
      match h.refs[d]? with
      | none => .panic
      | some er =>
        if equalRefs er st.rf then .ok h
        else if !equalRefs er { id := er.id, name := er.name, len := er.len } then .err .dupRef
        else .ok { h with refs := h.refs.set d st.rf }       -- the new Reference keeps id 0
    | none =>
      if !st.nok ∨ !st.lok then .err .badHeader
      else .ok { h with refs := h.refs ++ [{ st.rf with id := (h.refs.length : Int) }] }

/-- the field loop of readGroupLine ; returns the ID if one was given -/
def rgFields (rgs : List Bytes) : List Bytes → List Bytes → Option Bytes → Res HErr (Option Bytes)
  | [], _, id => .ok id
  | f :: rest, seen, id =>
    (tagField f).bind fun tv =>
      if seen.contains tv.1 then .err .dupTag
      else if tv.1 = tID then
        (if rgs.contains tv.2 then .err .dupRG else rgFields rgs rest (tv.1 :: seen) (some tv.2))
      else if tv.1 = tDT then .unsup
      else if tv.1 = tPI then
        (match atoi tv.2 with
         | none => .err .atoi
         | some i => if -2147483648 ≤ i ∧ i ≤ 2147483647 then rgFields rgs rest (tv.1 :: seen) id else .err .badLen)
      else rgFields rgs rest (tv.1 :: seen) id

def readGroupLine (l : Bytes) (h : Hdr) : Res HErr Hdr :=
  let fields := splitB bTab l
  if fields.length < 2 then .err .badHeader
  else (rgFields h.rgs (fields.drop 1) [] none).bind fun id =>
    match id with
    | none => .err .badHeader
    | some n => .ok { h with rgs := h.rgs ++ [n] }

def pgFields (progs : List Bytes) : List Bytes → List Bytes → Option Bytes → Res HErr (Option Bytes)
  | [], _, id => .ok id
  | f :: rest, seen, id =>
    (tagField f).bind fun tv =>
      if seen.contains tv.1 then .err .dupTag
      else if tv.1 = tID then
        (if progs.contains tv.2 then .err .dupPG else pgFields progs rest (tv.1 :: seen) (some tv.2))
      else pgFields progs rest (tv.1 :: seen) id

def programLine (l : Bytes) (h : Hdr) : Res HErr Hdr :=
  let fields := splitB bTab l
  if fields.length < 2 then .err .badHeader
  else (pgFields h.progs (fields.drop 1) [] none).bind fun id =>
    match id with
    | none => .err .badHeader
    | some n => .ok { h with progs := h.progs ++ [n] }

def commentLine (l : Bytes) (h : Hdr) : Res HErr Hdr :=
  let fields := splitB bTab l
  if fields.length < 2 then .err .badHeader
  else .ok { h with comments := h.comments ++ [field fields 1] }

def stripCr (l : Bytes) : Bytes :=
  match l.getLast? with
  | some c => if c = bCr then l.dropLast else l
  | none => l

/-- an error of Header.UnmarshalText: the class and, when the message carries one, the 1-based line number -/
structure HErrAt where
  e : HErr
  line : Nat          -- 0 = no line in the message
  deriving Repr, DecidableEq

/-- the line loop of Header.UnmarshalText ; i = 0-based index of the line -/
def headerLines : List Bytes → Nat → Hdr → Res HErrAt Hdr
  | [], _, h => .ok h
  | l0 :: rest, i, h =>
    let l := stripCr l0
    if l = [] then headerLines rest (i + 1) h
    else if l.head? ≠ some bAt ∨ l.length < 3 then .err ⟨.badHeader, 0⟩
    else
      let t := (l.drop 1).take 2
      let r : Option (Res HErr Hdr) :=
        if t = tHD then some (headerLine l h)
        else if t = tSQ then some (referenceLine l h)
        else if t = tRG then some (readGroupLine l h)
        else if t = tPG then some (programLine l h)
        else if t = tCO then some (commentLine l h)
        else none
      match r with
      | none => .err ⟨.badHeader, 0⟩
      | some (.ok h') => headerLines rest (i + 1) h'
      | some (.err e) => .err ⟨e, i + 1⟩
      | some .panic => .panic
      | some .unsup => .unsup

/-! ### sam.go -/

/-- the text as ReadBytes('\n') sees it: the terminated lines (without the newline) and the unterminated rest -/
def linesOf (text : Bytes) : List Bytes × Bytes :=
  let parts := splitB bNl text
  (parts.dropLast, parts.getLast?.getD [])

/-- the header loop of NewReader on a text whose first byte is '@': the lines taken as header text and the lines
left for Read ; none = io.ErrUnexpectedEOF (the text ends inside a line that starts with '@') -/
def takeHeader : List Bytes → Bytes → Option (List Bytes × List Bytes)
  | [], rest => if rest.head? = some bAt then none else some ([], [])
  | l :: ls, rest =>
    if l.head? = some bAt then
      match takeHeader ls rest with
      | none => none
      | some (h, r) => some (l :: h, r)
    else some ([], l :: ls)

inductive End where
  | eof
  | error (e : RErr)
  | panic
  | unsup
  deriving Repr, DecidableEq

/-- the line Read hands to UnmarshalSAM: none = the index panic on an empty line -/
def recordLine (l : Bytes) : Option Bytes :=
  if l = [] then none else some (stripCr l)

/-- Read until io.EOF or the first failure, with a header: references are looked up in the header -/
def readWithHeader (refs : List Ref) : List Bytes → List Rec × End
  | [] => ([], .eof)
  | l :: ls =>
    match recordLine l with
    | none => ([], .panic)
    | some b =>
      match parseRecord (some refs) b with
      | .ok r => let t := readWithHeader refs ls; (r :: t.1, t.2)
      | .err e => ([], .error e)
      | .panic => ([], .panic)
      | .unsup => ([], .unsup)

/-- the reference of a record of a header-less file: the one already seen under that name, or a new one added to the
header (AddReference gives it the next id) ; returns the reference and the names seen -/
def seeRef (seen : List Bytes) (r : Option RefView) : Option RefView × List Bytes :=
  match r with
  | none => (none, seen)
  | some v =>
    match seen.findIdx? (· = v.name) with
    | some i => (some { v with id := (i : Int) }, seen)
    | none => (some { v with id := (seen.length : Int) }, seen ++ [v.name])

/-- Read without a header ; `seen` = names of the references added to the header so far -/
def readNoHeader : List Bytes → List Bytes → List Rec × End × List Bytes
  | [], seen => ([], .eof, seen)
  | l :: ls, seen =>
    match recordLine l with
    | none => ([], .panic, seen)
    | some b =>
      match parseRecord none b with
      | .ok r =>
        let a := seeRef seen r.ref
        let m := seeRef a.2 r.mate
        let t := readNoHeader ls m.2
        ({ r with ref := a.1, mate := m.1 } :: t.1, t.2.1, t.2.2)
      | .err e => ([], .error e, seen)
      | .panic => ([], .panic, seen)
      | .unsup => ([], .unsup, seen)

inductive Result where
  | headerError (e : HErrAt)
  | headerPanic
  | unsup
  /-- the header after NewReader, the records, how Read ended, the header's references after the last Read -/
  | ok (h : Hdr) (recs : List Rec) (e : End) (refsAfter : List RefView)
  deriving Repr, DecidableEq

/-- sam.NewReader followed by Read until io.EOF or the first error -/
def readSam (text : Bytes) : Result :=
  match text with
  | [] => .headerError ⟨.eof, 0⟩
  | c :: _ =>
    let ls := linesOf text
    if c ≠ bAt then
      let r := readNoHeader ls.1 []
      .ok {} r.1 r.2.1 (r.2.2.zipIdx.map fun p => { name := p.1, id := (p.2 : Int), len := 0 })
    else
      match takeHeader ls.1 ls.2 with
      | none => .headerError ⟨.unexpectedEOF, 0⟩
      | some (hl, rl) =>
        match headerLines hl 0 {} with
        | .err e => .headerError e
        | .panic => .headerPanic
        | .unsup => .unsup
        | .ok h =>
          let r := readWithHeader h.refs rl
          .ok h r.1 r.2 (h.refs.map Ref.view)

/-! ### the structured record of Model/Sam.lean -/

/-- the fields getOneLine / getOneLinePlusRef use. `SamRec.pos` is 0-based like `Record.Pos` (a negative position
has no counterpart: it maps to 0) ; operator indices agree on "MIDNSHP=X" (B = 9 is not an operator there). -/
def Rec.toSamRec (r : Rec) : SamRec :=
  { name := bytesToString r.name, flag := r.flags, pos := r.pos.toNat, cigar := r.cigar, seq := r.seq }

end Gofasta.Model.SamText
