import Gofasta.Model.Csv
import Gofasta.Model.Fasta
/-
Model of pkg/gff: ReadGFF on a whole text (a list of bytes), branch by branch.

  * lines: bufio.Scanner with its default buffer (bufio.MaxScanTokenSize = 65536) and bufio.ScanLines: split on LF,
    one trailing CR of a line is dropped, a last line without LF is a line. A line whose raw content (a trailing CR
    included) is 65536 bytes or longer makes Scan return false (bufio.ErrTooLong); ReadGFF never looks at
    Scanner.Err, so reading simply STOPS there: the lines before it are all that is read, and no error is returned.
  * per line, in this order: inside the FASTA section every line is kept for the FASTA reader; a line that starts
    with ##FASTA opens that section; ## lines are header lines (kept without the ##); # lines are comments (kept
    without the #, strings.TrimSpace); every other line - an empty one too - is a feature line.
  * at the first feature line the header lines seen SO FAR are parsed: gff-version (first line with that prefix,
    strings.Fields must give exactly two fields), then every sequence-region line (at least four fields, Atoi of the
    third and fourth). Header and comment lines after the first feature line are read but not returned.
  * a feature line: strings.Split on TAB must give nine fields; seqid check (one regular expression, see `seqidOk`);
    Atoi start; Atoi end; strand one of + - . ?; phase; attributes. The first failing check is the error returned.
  * attributes: Split on ';', each part Split on '=' must give exactly two pieces, value Split on ','; a later
    tag replaces an earlier one (Go map). Nothing is percent-decoded anywhere.
  * after the last line: the ID map, then - if the FASTA section has at least one line - fastaio.ReadEncodeAlignmentToList
    on those lines and Decode of every record, keyed by record ID (a later record with the same ID replaces).

Go maps are modelled as association lists in first-insertion order with replacement in place; the canonical dump
of the driver sorts them by key, which is all that can be observed of a Go map.
strconv.Atoi is `Csv.atoi` (sign, digits only, int64). Standard-library functions (bufio.Scanner, strings.Fields,
strings.TrimSpace, regexp) are modelled here, not verified.
-/
namespace Gofasta.Model.GffText
open Gofasta.Model
open Gofasta.Model.Csv (atoi splitB)

abbrev Bytes := List Nat

/-! ### byte constants -/

def tabB : Nat := 9
def semiB : Nat := 59
def eqB : Nat := 61
def commaB : Nat := 44
def hashB : Nat := 35
def dotB : Nat := 46

def fastaTag : Bytes := [35, 35, 70, 65, 83, 84, 65]                                          -- ##FASTA
def versionTag : Bytes := [103, 102, 102, 45, 118, 101, 114, 115, 105, 111, 110]              -- gff-version
def regionTag : Bytes := [115, 101, 113, 117, 101, 110, 99, 101, 45, 114, 101, 103, 105, 111, 110]  -- sequence-region
def cdsB : Bytes := [67, 68, 83]                                                              -- CDS
def idKey : Bytes := [73, 68]                                                                 -- ID

/-- strings.HasPrefix -/
def hasPrefix (p s : Bytes) : Bool := s.take p.length == p

/-! ### bufio.Scanner (buffer raised to 1 MiB, as in the fasta readers) with bufio.ScanLines -/

def maxToken : Nat := 1048576

/-- the lines ReadGFF gets to see: everything before the first over-long line -/
def scanLines (text : Bytes) : List Bytes :=
  ((splitLinesAux text []).takeWhile fun l => l.length < maxToken).map dropCR

/-! ### unicode.IsSpace on UTF-8 text: strings.Fields, strings.TrimSpace -/

/-- number of bytes of the white-space character (unicode.IsSpace) that starts at the head of `s`; 0 = none.
    ASCII: TAB LF VT FF CR SPACE; U+0085, U+00A0; U+1680, U+2000..U+200A, U+2028, U+2029, U+202F, U+205F, U+3000.
    Every such sequence starts with a byte that cannot be inside another UTF-8 sequence, so looking for the byte
    patterns is the same as decoding rune by rune (invalid bytes decode to U+FFFD, one byte wide, not a space). -/
def spaceLen : Bytes → Nat
  | [] => 0
  | b :: t =>
    if b == 32 || (9 ≤ b && b ≤ 13) then 1
    else if b == 0xC2 then
      (match t with
       | c :: _ => if c == 0x85 || c == 0xA0 then 2 else 0
       | _ => 0)
    else if b == 0xE1 then
      (match t with
       | c :: d :: _ => if c == 0x9A && d == 0x80 then 3 else 0
       | _ => 0)
    else if b == 0xE2 then
      (match t with
       | c :: d :: _ =>
         if c == 0x80 && ((0x80 ≤ d && d ≤ 0x8A) || d == 0xA8 || d == 0xA9 || d == 0xAF) then 3
         else if c == 0x81 && d == 0x9F then 3 else 0
       | _ => 0)
    else if b == 0xE3 then
      (match t with
       | c :: d :: _ => if c == 0x80 && d == 0x80 then 3 else 0
       | _ => 0)
    else 0

/-- the same, for a white-space character that ENDS at the head of the reversed text -/
def spaceLenRev : Bytes → Nat
  | [] => 0
  | b :: t =>
    if b == 32 || (9 ≤ b && b ≤ 13) then 1
    else
      (match t with
       | c :: rest =>
         if c == 0xC2 && (b == 0x85 || b == 0xA0) then 2
         else
           (match rest with
            | d :: _ =>
              if d == 0xE1 && c == 0x9A && b == 0x80 then 3
              else if d == 0xE2 && c == 0x80 && ((0x80 ≤ b && b ≤ 0x8A) || b == 0xA8 || b == 0xA9 || b == 0xAF) then 3
              else if d == 0xE2 && c == 0x81 && b == 0x9F then 3
              else if d == 0xE3 && c == 0x80 && b == 0x80 then 3
              else 0
            | _ => 0)
       | _ => 0)

/-- strings.Fields: `skip` = bytes of the current white-space character still to pass, `cur` = the field being
    collected (reversed) -/
def fieldsAux : Bytes → Nat → Bytes → List Bytes
  | [], _, cur => if cur.isEmpty then [] else [cur.reverse]
  | _ :: t, skip + 1, cur => fieldsAux t skip cur
  | b :: t, 0, cur =>
    let n := spaceLen (b :: t)
    if n = 0 then fieldsAux t 0 (b :: cur)
    else if cur.isEmpty then fieldsAux t (n - 1) []
    else cur.reverse :: fieldsAux t (n - 1) []

def fields (s : Bytes) : List Bytes := fieldsAux s 0 []

/-- drop leading white space, as measured by `len` -/
def dropSpaces (len : Bytes → Nat) : Bytes → Nat → Bytes
  | [], _ => []
  | _ :: t, skip + 1 => dropSpaces len t skip
  | b :: t, 0 =>
    let n := len (b :: t)
    if n = 0 then b :: t else dropSpaces len t (n - 1)

/-- strings.TrimSpace: leading white space first, then trailing -/
def trimSpace (s : Bytes) : Bytes :=
  (dropSpaces spaceLenRev (dropSpaces spaceLen s 0).reverse 0).reverse

/-! ### the data ReadGFF returns -/

structure Feature where
  seqid : Bytes
  source : Bytes
  type : Bytes
  start : Int
  stop : Int
  score : Bytes
  strand : Bytes
  phase : Int
  attrs : List (Bytes × List Bytes)
  deriving DecidableEq, Repr

structure SeqRegion where
  seqid : Bytes
  start : Int
  stop : Int
  deriving DecidableEq, Repr

/-- fastaio.FastaRecord -/
structure FaRecord where
  id : Bytes
  desc : Bytes
  seq : Bytes
  idx : Nat
  deriving DecidableEq, Repr

structure GFF where
  version : Bytes
  headers : List Bytes
  comments : List Bytes
  regions : List (Bytes × SeqRegion)
  features : List Feature
  idmap : List (Bytes × List Nat)
  fasta : List (Bytes × FaRecord)
  deriving DecidableEq, Repr

inductive Err where
  | version        -- errGFFParsingVersion
  | seqreg         -- errGFFParsingSeqReg (fewer than four fields)
  | atoi           -- an error of strconv.Atoi (sequence-region bounds, start, end), syntax or range
  | nfields        -- wrong number of fields
  | seqid          -- errGFFParsingSeqID
  | strand         -- errGFFParsingStrand
  | phase          -- errGFFParsingPhase
  | attrs          -- errGFFParsingAttributes
  | faFormat       -- FASTA section: first line is not a header
  | faNoId         -- FASTA section: header without an ID
  | faDiffLen      -- FASTA section: records of different length
  | faInvalid      -- FASTA section: invalid nucleotide
  | faEmpty        -- FASTA section: no record
  | tooLong        -- bufio.ErrTooLong: a line of 1 MiB or more (reported since fix: Scanner.Err is looked at)
  deriving DecidableEq, Repr

inductive Result where
  | ok (g : GFF)
  | error (e : Err)
  deriving DecidableEq, Repr

/-- m[k] = v on a Go map -/
def insertKV {α : Type} (k : Bytes) (v : α) : List (Bytes × α) → List (Bytes × α)
  | [] => [(k, v)]
  | (k', v') :: t => if k' = k then (k, v) :: t else (k', v') :: insertKV k v t

def lookupKV {α : Type} (k : Bytes) : List (Bytes × α) → Option α
  | [] => none
  | (k', v) :: t => if k' = k then some v else lookupKV k t

/-! ### the header -/

/-- versionStringFromHeader: the first header line with the prefix decides -/
def versionOf : List Bytes → Option Bytes
  | [] => none
  | l :: rest =>
    if hasPrefix versionTag l then
      (match fields l with
       | [_, v] => some v
       | _ => none)
    else versionOf rest

/-- setSequenceRegionsFromHeader -/
def regionsLoop : List Bytes → List (Bytes × SeqRegion) → Except Err (List (Bytes × SeqRegion))
  | [], m => .ok m
  | l :: rest, m =>
    if hasPrefix regionTag l then
      (match fields l with
       | _ :: id :: a :: b :: _ =>
         (match atoi a with
          | none => .error .atoi
          | some s =>
            match atoi b with
            | none => .error .atoi
            | some e => regionsLoop rest (insertKV id { seqid := id, start := s, stop := e } m))
       | _ => .error .seqreg)
    else regionsLoop rest m

/-! ### a feature line -/

/-- isEscapedCorrectly. The pattern `[^\][^a-zA-Z0-9.:^*$@!+_?-|]` is ONE negated character class (the `\]` does
    not close it, and `?-|` is the range 0x3F..0x7C): the field is rejected as soon as it holds a character outside
    0-9 . : * $ ! + and 0x3F..0x7C (? @ A-Z [ \ ] ^ _ ` a-z { |). So '-', '%', '~', '}', '#', ',', ';', '=', '/',
    '(' ... and every byte above 0x7F (a rune above U+007F, or U+FFFD for an invalid byte) are rejected. The leading
    '>' test of the Go code is subsumed ('>' is 0x3E). -/
def seqidByteOk (b : Nat) : Bool :=
  (48 ≤ b && b ≤ 57) || b == 46 || b == 58 || b == 42 || b == 36 || b == 33 || b == 43 || (63 ≤ b && b ≤ 124)

def seqidOk (f : Bytes) : Bool := f.all seqidByteOk

/-- strandFromField -/
def strandOk (f : Bytes) : Bool := f == [43] || f == [45] || f == [46] || f == [63]

/-- phaseFromField: an integer 0..2 (anything Atoi accepts: +1, 02, -0), or "." for a type other than CDS -/
def phaseOf (t f : Bytes) : Option Int :=
  match atoi f with
  | some r => if 0 ≤ r ∧ r ≤ 2 then some r else none
  | none => if t ≠ cdsB ∧ f = [dotB] then some 0 else none

/-- attributesFromField, over the ';'-separated parts -/
def attrsLoop : List Bytes → List (Bytes × List Bytes) → Option (List (Bytes × List Bytes))
  | [], m => some m
  | tvp :: rest, m =>
    match splitB eqB tvp with
    | [k, v] => attrsLoop rest (insertKV k (splitB commaB v) m)
    | _ => none

def parseAttrs (f : Bytes) : Option (List (Bytes × List Bytes)) := attrsLoop (splitB semiB f) []

/-- featureFromLine -/
def parseFeature (l : Bytes) : Except Err Feature :=
  match splitB tabB l with
  | [f0, f1, f2, f3, f4, f5, f6, f7, f8] =>
    if !seqidOk f0 then .error .seqid
    else match atoi f3 with
      | none => .error .atoi
      | some st =>
        match atoi f4 with
        | none => .error .atoi
        | some en =>
          if !strandOk f6 then .error .strand
          else match phaseOf f2 f7 with
            | none => .error .phase
            | some ph =>
              match parseAttrs f8 with
              | none => .error .attrs
              | some atts =>
                .ok { seqid := f0, source := f1, type := f2, start := st, stop := en, score := f5, strand := f6,
                      phase := ph, attrs := atts }
  | _ => .error .nfields

/-! ### the FASTA section: fastaio.ReadEncodeAlignmentToList (soft gaps) + Decode -/

structure FaSt where
  first : Bool := true
  id : Bytes := []
  desc : Bytes := []
  buf : Bytes := []
  width : Nat := 0
  counter : Nat := 0
  recs : List FaRecord := []

/-- idFromDescription: strings.Fields(description)[0] -/
def firstFieldU (d : Bytes) : Option Bytes := (fields d).head?

def faRec (s : FaSt) : FaRecord := { id := s.id, desc := s.desc, seq := s.buf.map dec, idx := s.counter }

def faStep (s : FaSt) (line : Bytes) : Except Err FaSt :=
  match line with
  | [] => .ok s
  | b :: d =>
    if s.first then
      if b = 62 then
        (match firstFieldU d with
         | none => .error .faNoId
         | some id => .ok { s with first := false, id := id, desc := d })
      else .error .faFormat
    else if b = 62 then
      if s.counter ≠ 0 ∧ s.buf.length ≠ s.width then .error .faDiffLen
      else match firstFieldU d with
        | none => .error .faNoId
        | some id =>
          .ok { s with id := id, desc := d, buf := [], width := (if s.counter = 0 then s.buf.length else s.width),
                       counter := s.counter + 1, recs := s.recs ++ [faRec s] }
    else match encodeLine false line with
      | none => .error .faInvalid
      | some e => .ok { s with buf := s.buf ++ e }

def faLoop : FaSt → List Bytes → Except Err FaSt
  | s, [] => .ok s
  | s, l :: ls =>
    match faStep s l with
    | .ok s' => faLoop s' ls
    | .error e => .error e

/-- the end of the loop (repaired behaviour): the pending record is flushed when its buffer is non-empty OR a record
    was already emitted, so a last header without a sequence is a record of length 0 that goes through the ordinary
    width check; nothing collected at all (one single header without a sequence included) is "no record" -/
def faFinish (s : FaSt) : Except Err (List FaRecord) :=
  if s.buf.length > 0 ∨ s.counter > 0 then
    if s.counter > 0 ∧ s.buf.length ≠ s.width then .error .faDiffLen
    else .ok (s.recs ++ [faRec s])
  else .error .faEmpty

def faMap : List FaRecord → List (Bytes × FaRecord) → List (Bytes × FaRecord)
  | [], m => m
  | r :: t, m => faMap t (insertKV r.id r m)

/-- the lines of the FASTA section, as ReadGFF kept them (CR already dropped once); they are written to a buffer
    with LF and scanned again, which drops one more trailing CR -/
def readFastaSection (lines : List Bytes) : Except Err (List (Bytes × FaRecord)) :=
  if lines.isEmpty then .ok []
  else match faLoop {} (lines.map dropCR) with
    | .error e => .error e
    | .ok s =>
      match faFinish s with
      | .error e => .error e
      | .ok recs => .ok (faMap recs [])

/-! ### the ID map -/

def appendIdx (k : Bytes) (i : Nat) : List (Bytes × List Nat) → List (Bytes × List Nat)
  | [] => [(k, [i])]
  | (k', v) :: t => if k' = k then (k', v ++ [i]) :: t else (k', v) :: appendIdx k i t

/-- populateIDMap: features with an ID tag, by the FIRST value of that tag -/
def idMapLoop : List Feature → Nat → List (Bytes × List Nat) → List (Bytes × List Nat)
  | [], _, m => m
  | f :: t, i, m =>
    match lookupKV idKey f.attrs with
    | some (v :: _) => idMapLoop t (i + 1) (appendIdx v i m)
    | _ => idMapLoop t (i + 1) m

def idMap (fs : List Feature) : List (Bytes × List Nat) := idMapLoop fs 0 []

/-! ### the loop over the lines -/

structure St where
  inFasta : Bool := false
  first : Bool := true               -- firstAfterHeader
  hdr : List Bytes := []             -- every ## line so far
  cmt : List Bytes := []             -- every # line so far
  version : Bytes := []
  headers : List Bytes := []         -- gff.HeaderLines
  comments : List Bytes := []        -- gff.CommentLines
  regions : List (Bytes × SeqRegion) := []
  feats : List Feature := []
  fasta : List Bytes := []
  deriving DecidableEq, Repr

/-- the block run at the first feature line -/
def openBody (s : St) : Except Err St :=
  match versionOf s.hdr with
  | none => .error .version
  | some v =>
    match regionsLoop s.hdr [] with
    | .error e => .error e
    | .ok rs => .ok { s with first := false, version := v, headers := s.hdr, comments := s.cmt, regions := rs }

def step (s : St) (line : Bytes) : Except Err St :=
  if s.inFasta then .ok { s with fasta := s.fasta ++ [line] }
  else if hasPrefix fastaTag line then .ok { s with inFasta := true }
  else if hasPrefix [hashB, hashB] line then .ok { s with hdr := s.hdr ++ [line.drop 2] }
  else if hasPrefix [hashB] line then .ok { s with cmt := s.cmt ++ [trimSpace (line.drop 1)] }
  else
    match (if s.first then openBody s else .ok s) with
    | .error e => .error e
    | .ok s1 =>
      match parseFeature line with
      | .error e => .error e
      | .ok f => .ok { s1 with feats := s1.feats ++ [f] }

def loop : St → List Bytes → Except Err St
  | s, [] => .ok s
  | s, l :: ls =>
    match step s l with
    | .ok s' => loop s' ls
    | .error e => .error e

def finish (s : St) : Result :=
  match readFastaSection s.fasta with
  | .error e => .error e
  | .ok fa =>
    .ok { version := s.version, headers := s.headers, comments := s.comments, regions := s.regions,
          features := s.feats, idmap := idMap s.feats, fasta := fa }

def readLines (lines : List Bytes) : Result :=
  match loop {} lines with
  | .error e => .error e
  | .ok s => finish s

/-- some line is too long for the scanner -/
def tooLong (text : Bytes) : Bool := (splitLinesAux text []).any fun l => decide (maxToken ≤ l.length)

/-- gff.ReadGFF on a whole text: the scanner delivers the lines before the first over-long one; after the loop the
    reader looks at Scanner.Err and reports such a line (before the fix the rest of the file was dropped silently).
    An error met in a line BEFORE the long one is returned first, as the loop returns at once. -/
def readGFF (text : Bytes) : Result :=
  match loop {} (scanLines text) with
  | .error e => .error e
  | .ok s => if tooLong text then .error .tooLong else finish s

/-! ### rendering: what a GFF3 writer produces for structured rows (the generator of stream C14gff writes these
bytes for its canonical layout; the driver checks that) -/

def hexDigit (n : Nat) : Nat := if n < 10 then 48 + n else 55 + n

/-- the GFF3 escaping rule for tags and values of column nine: control characters, '%', ';', '=', '&', ',' -/
def needsEsc (b : Nat) : Bool := b < 32 || b == 127 || b == 37 || b == 59 || b == 61 || b == 38 || b == 44

def escByte (b : Nat) : Bytes := if needsEsc b then [37, hexDigit (b / 16), hexDigit (b % 16)] else [b]

def escAttr (s : Bytes) : Bytes := s.flatMap escByte

/-- a feature as a writer holds it: coordinates are naturals, the phase is absent (".") or a number, tags and
    values are raw (not yet escaped) text -/
structure Row where
  seqid : Bytes
  source : Bytes
  type : Bytes
  start : Nat
  stop : Nat
  score : Bytes
  strand : Bytes
  phase : Option Nat
  attrs : List (Bytes × List Bytes)
  deriving DecidableEq, Repr

def phaseB : Option Nat → Bytes
  | none => [dotB]
  | some p => Csv.digitsOf p

def renderAttr (a : Bytes × List Bytes) : Bytes := escAttr a.1 ++ eqB :: Csv.joinB commaB (a.2.map escAttr)

def renderAttrs (attrs : List (Bytes × List Bytes)) : Bytes := Csv.joinB semiB (attrs.map renderAttr)

def rowFields (r : Row) : List Bytes :=
  [r.seqid, r.source, r.type, Csv.digitsOf r.start, Csv.digitsOf r.stop, r.score, r.strand, phaseB r.phase,
   renderAttrs r.attrs]

def renderRow (r : Row) : Bytes := Csv.joinB tabB (rowFields r)

/-- "##gff-version " -/
def versionPrefix : Bytes := [35, 35, 103, 102, 102, 45, 118, 101, 114, 115, 105, 111, 110, 32]

def renderLines (ver : Bytes) (rows : List Row) : List Bytes := (versionPrefix ++ ver) :: rows.map renderRow

/-- the canonical layout: version line, one line per row, every line ended by LF -/
def render (ver : Bytes) (rows : List Row) : Bytes := (renderLines ver rows).flatMap fun l => l ++ [10]

/-- what the reader is expected to hand back for a row, GIVEN that it does not decode percent-escapes: the tags
    and values in their escaped form, an absent phase as 0 -/
def Row.toFeature (r : Row) : Feature :=
  { seqid := r.seqid, source := r.source, type := r.type, start := (r.start : Int), stop := (r.stop : Int),
    score := r.score, strand := r.strand, phase := ((r.phase.getD 0 : Nat) : Int),
    attrs := r.attrs.map fun a => (escAttr a.1, a.2.map escAttr) }

/-- what a GFF3-conformant reader would hand back: the raw tags and values -/
def Row.toFeatureRaw (r : Row) : Feature := { r.toFeature with attrs := r.attrs }

end Gofasta.Model.GffText
