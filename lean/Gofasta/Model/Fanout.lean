import Gofasta.Model.Sched
/-
Small-step model of the FAN-OUT half of `closest`: one reader, one splitter, nQ query goroutines, main.

    func splitInput(queries []Q, cIn chan T, cOut chan R, cErr chan error, cSplitDone chan bool) {
        QChan := make([]chan T, nQ); for i := range QChan { QChan[i] = make(chan T) }   // unbuffered
        for i, q := range queries { go findClosest(q, QChan[i], cOut) }
        for t := range cIn {                          // targets arrive in file order
            for i := range QChan { QChan[i] <- t }    // the same target to every query, query 0 first
        }
        for i := range QChan { close(QChan[i]) }
        cSplitDone <- true
    }
    func findClosest(q Q, cIn chan T, cOut chan R) {
        var best R ; first := true
        for t := range cIn { best = acc(q, first, best, t) ; first = false }  // incumbent kept on a full tie
        cOut <- result(q, best)                                               // unbuffered
    }
    main:  go reader(items, cIn, cReadDone) ; go splitInput(...)
           select { cErr | <-cReadDone: close(cIn) } ; select { cErr | <-cSplitDone }
           for i := 0; i < nQ; i++ { r := <-cOut ; results[r.qidx] = r }
           return nil

Channel semantics as in Model/Sched.lean: a buffered send appends when there is room, a receive takes
the head, `range` ends on closed and empty, capacity 0 means sender and receiver move together in ONE
step, a send on (or close of) a closed channel sets `panicked`.  QChan[i] and cOut are unbuffered:
splitter and query i move together, query i and main move together.  Errors (cErr) are not modelled.
A state in which main has returned (or the process has panicked) is final.
-/
namespace Gofasta.Model.Fanout
open Gofasta.Model.Sched (Chan)

/-- the parameters of one run -/
structure Cfg (τ ρ : Type) where
  targets : List τ                      -- what the reader will read, in file order
  nQ : Nat                              -- number of queries
  cap : Nat                             -- capacity of cIn (0 = unbuffered)
  acc : Nat → Option ρ → τ → ρ          -- query index, running best (none before the first target), target

/-- reader: `for x := range targets { cIn <- x }; cReadDone <- true` -/
inductive RPc where
  | sending (j : Nat)     -- at `cIn <- targets[j]`
  | doneS                 -- at `cReadDone <- true`
  | exited
  deriving DecidableEq, Repr

/-- splitter (splitInput) -/
inductive SPc (τ : Type) where
  | recv                        -- at the head of `for t := range cIn`
  | sending (t : τ) (i : Nat)   -- at `QChan[i] <- t`
  | closing (i : Nat)           -- at `close(QChan[i])`
  | doneS                       -- at `cSplitDone <- true`
  | exited
  deriving DecidableEq, Repr

/-- query goroutine (findClosest) -/
inductive QPc (ρ : Type) where
  | recv (best : Option ρ)      -- at the head of `for t := range QChan[i]`, holding best
  | sendRes (best : Option ρ)   -- at `cOut <- result(q, best)`
  | exited
  deriving DecidableEq, Repr

/-- main: the two staged selects, the collection loop, `return nil` -/
inductive MPc where
  | stage1                 -- select { <-cReadDone: close(cIn) }
  | stage2                 -- select { <-cSplitDone }
  | collecting (k : Nat)   -- at `r := <-cOut`, k results received so far
  | ret
  deriving DecidableEq, Repr

structure State (τ ρ : Type) where
  reader : RPc
  splitter : SPc τ
  queries : List (QPc ρ)
  main : MPc
  cIn : Chan τ
  qClosed : List Bool                     -- qClosed[i]: close(QChan[i]) was called
  results : List (Option (Option ρ))      -- main's array; slot i filled when query i's result arrives
  taken : Nat                             -- ghost: how many targets the splitter has received from cIn
  handed : List Nat                       -- ghost: handed[i] = how many targets query i has received
  panicked : Bool                         -- a send on, or a close of, a closed channel happened

/-- one constructor per kind of step -/
inductive Label where
  | readerSend              -- reader: `cIn <- x` into the buffer (cap > 0)
  | splitRecv               -- splitter: `range cIn` takes the head of the buffer
  | handIn                  -- cap = 0: reader's send and the splitter's receive, together
  | splitClosed             -- splitter: `range cIn` ends (closed and empty)
  | splitSend               -- splitter at `QChan[i] <- t` and query i at `range QChan[i]`, together; acc
  | splitClose              -- splitter: `close(QChan[i])`
  | queryClosed (i : Nat)   -- query i: `range QChan[i]` ends (closed; unbuffered, so empty)
  | handRes (i : Nat)       -- query i's `cOut <- result` and main's `r := <-cOut`, together
  | mainReadDone            -- main, stage 1: `case <-cReadDone: close(cIn)`
  | mainSplitDone           -- main, stage 2: `case <-cSplitDone` (the splitter's send, together)
  deriving DecidableEq, Repr

variable {τ ρ : Type}

/-- nothing happens after main has returned (the process exits) or after a panic -/
def State.final (s : State τ ρ) : Bool := s.panicked || (s.main == .ret)

/-- reader's program counter once j targets have been sent -/
def rnext (cfg : Cfg τ ρ) (j : Nat) : RPc :=
  if j < cfg.targets.length then .sending j else .doneS

/-- splitter's program counter in the inner loop `for i := range QChan { QChan[i] <- t }` at index i -/
def snext (cfg : Cfg τ ρ) (t : τ) (i : Nat) : SPc τ :=
  if i < cfg.nQ then .sending t i else .recv

/-- splitter's program counter in `for i := range QChan { close(QChan[i]) }` at index i -/
def cnext (cfg : Cfg τ ρ) (i : Nat) : SPc τ :=
  if i < cfg.nQ then .closing i else .doneS

/-- main's program counter in `for i := 0; i < nQ; i++ { r := <-cOut }; return nil` after k results -/
def mnext (cfg : Cfg τ ρ) (k : Nat) : MPc :=
  if k < cfg.nQ then .collecting k else .ret

/-- findClosest's loop over a list of targets, from running best b -/
def foldAcc (acc : Nat → Option ρ → τ → ρ) (i : Nat) : Option ρ → List τ → Option ρ
  | b, [] => b
  | b, t :: ts => foldAcc acc i (some (acc i b t)) ts

/-- what query i reports when it has seen all of `targets` in file order -/
def expected (cfg : Cfg τ ρ) (i : Nat) : Option ρ := foldAcc cfg.acc i none cfg.targets

def init (cfg : Cfg τ ρ) : State τ ρ where
  reader := rnext cfg 0
  splitter := .recv
  queries := List.replicate cfg.nQ (.recv none)
  main := .stage1
  cIn := ⟨[], false⟩
  qClosed := List.replicate cfg.nQ false
  results := List.replicate cfg.nQ none
  taken := 0
  handed := List.replicate cfg.nQ 0
  panicked := false

/-! one function per label; `none` = not enabled -/

/-- `cIn <- x`: panics on a closed channel, else needs room in the buffer -/
def stepReaderSend (cfg : Cfg τ ρ) (s : State τ ρ) : Option (State τ ρ) :=
  match s.reader, s.cIn.closed with
  | .sending _, true => some { s with panicked := true }
  | .sending j, false =>
    match cfg.targets[j]? with
    | some x =>
      if s.cIn.queue.length < cfg.cap then
        some { s with reader := rnext cfg (j + 1), cIn := { s.cIn with queue := s.cIn.queue ++ [x] } }
      else none
    | none => none
  | _, _ => none

/-- `t := <-cIn` from a non-empty buffer (also after close: the buffer is drained) -/
def stepSplitRecv (cfg : Cfg τ ρ) (s : State τ ρ) : Option (State τ ρ) :=
  match s.splitter, s.cIn.queue with
  | .recv, t :: rest =>
    some { s with splitter := snext cfg t 0, cIn := { s.cIn with queue := rest }, taken := s.taken + 1 }
  | _, _ => none

/-- rendezvous on an unbuffered, open cIn -/
def stepHandIn (cfg : Cfg τ ρ) (s : State τ ρ) : Option (State τ ρ) :=
  match s.reader, s.splitter, s.cIn.closed, cfg.cap with
  | .sending j, .recv, false, 0 =>
    match cfg.targets[j]? with
    | some x => some { s with reader := rnext cfg (j + 1), splitter := snext cfg x 0, taken := s.taken + 1 }
    | none => none
  | _, _, _, _ => none

/-- `range cIn` on a closed and empty channel leaves the loop -/
def stepSplitClosed (cfg : Cfg τ ρ) (s : State τ ρ) : Option (State τ ρ) :=
  match s.splitter, s.cIn.closed, s.cIn.queue with
  | .recv, true, [] => some { s with splitter := cnext cfg 0 }
  | _, _, _ => none

/-- `QChan[i] <- t` meets query i's `range QChan[i]`; the query runs its loop body.
    A send on a closed channel panics. -/
def stepSplitSend (cfg : Cfg τ ρ) (s : State τ ρ) : Option (State τ ρ) :=
  match s.splitter with
  | .sending t i =>
    match s.qClosed[i]?, s.queries[i]? with
    | some true, _ => some { s with panicked := true }
    | some false, some (.recv b) =>
      some { s with splitter := snext cfg t (i + 1),
                    queries := s.queries.set i (.recv (some (cfg.acc i b t))),
                    handed := s.handed.set i (s.handed.getD i 0 + 1) }
    | _, _ => none
  | _ => none

/-- `close(QChan[i])` (closing a closed channel panics) -/
def stepSplitClose (cfg : Cfg τ ρ) (s : State τ ρ) : Option (State τ ρ) :=
  match s.splitter with
  | .closing i =>
    match s.qClosed[i]? with
    | some true => some { s with panicked := true }
    | some false => some { s with splitter := cnext cfg (i + 1), qClosed := s.qClosed.set i true }
    | none => none
  | _ => none

/-- `range QChan[i]` on a closed channel leaves the loop -/
def stepQueryClosed (s : State τ ρ) (i : Nat) : Option (State τ ρ) :=
  match s.queries[i]?, s.qClosed[i]? with
  | some (.recv b), some true => some { s with queries := s.queries.set i (.sendRes b) }
  | _, _ => none

/-- `cOut <- result(q, best)` meets main's `r := <-cOut; results[r.qidx] = r` -/
def stepHandRes (cfg : Cfg τ ρ) (s : State τ ρ) (i : Nat) : Option (State τ ρ) :=
  match s.queries[i]?, s.main with
  | some (.sendRes b), .collecting k =>
    some { s with queries := s.queries.set i .exited, main := mnext cfg (k + 1),
                  results := s.results.set i (some b) }
  | _, _ => none

/-- stage 1: `case <-cReadDone: close(cIn)` (closing a closed channel panics) -/
def stepMainReadDone (s : State τ ρ) : Option (State τ ρ) :=
  match s.main, s.reader with
  | .stage1, .doneS =>
    if s.cIn.closed then some { s with panicked := true }
    else some { s with main := .stage2, reader := .exited, cIn := { s.cIn with closed := true } }
  | _, _ => none

/-- stage 2: `case <-cSplitDone`, then main enters the collection loop (or returns when nQ = 0) -/
def stepMainSplitDone (cfg : Cfg τ ρ) (s : State τ ρ) : Option (State τ ρ) :=
  match s.main, s.splitter with
  | .stage2, .doneS => some { s with main := mnext cfg 0, splitter := .exited }
  | _, _ => none

/-- the step relation in executable form -/
def step? (cfg : Cfg τ ρ) (s : State τ ρ) (l : Label) : Option (State τ ρ) :=
  if s.final then none else
  match l with
  | .readerSend => stepReaderSend cfg s
  | .splitRecv => stepSplitRecv cfg s
  | .handIn => stepHandIn cfg s
  | .splitClosed => stepSplitClosed cfg s
  | .splitSend => stepSplitSend cfg s
  | .splitClose => stepSplitClose cfg s
  | .queryClosed i => stepQueryClosed s i
  | .handRes i => stepHandRes cfg s i
  | .mainReadDone => stepMainReadDone s
  | .mainSplitDone => stepMainSplitDone cfg s

def queryLabels (i : Nat) : List Label := [.queryClosed i, .handRes i]

/-- every label that can ever be enabled with n queries -/
def allLabels (n : Nat) : List Label :=
  [.readerSend, .splitRecv, .handIn, .splitClosed, .splitSend, .splitClose, .mainReadDone, .mainSplitDone]
    ++ (List.range n).flatMap queryLabels

/-- the enabled labels of a step function -/
def enabledWith {S L : Type} (stp : S → L → Option S) (all : List L) (s : S) : List L :=
  all.filter (fun l => (stp s l).isSome)

def enabled (cfg : Cfg τ ρ) (s : State τ ρ) : List Label :=
  enabledWith (step? cfg) (allLabels cfg.nQ) s

/-- the states some schedule can reach -/
inductive Reach (cfg : Cfg τ ρ) : State τ ρ → Prop where
  | init : Reach cfg (init cfg)
  | step {s s' : State τ ρ} (l : Label) : Reach cfg s → step? cfg s l = some s' → Reach cfg s'

/-- run a schedule: the k-th number picks `enabled[k mod length]`; stops when nothing is enabled -/
def runWith {S L : Type} (stp : S → L → Option S) (all : List L) : S → List Nat → S
  | s, [] => s
  | s, k :: ks =>
    let en := enabledWith stp all s
    match en[k % en.length]? with
    | none => s
    | some l =>
      match stp s l with
      | some s' => runWith stp all s' ks
      | none => s

def runSchedule (cfg : Cfg τ ρ) (sched : List Nat) : State τ ρ :=
  runWith (step? cfg) (allLabels cfg.nQ) (init cfg) sched

/-- the same, keeping the labels chosen (for test drivers) -/
def traceWith {S L : Type} (stp : S → L → Option S) (all : List L) : S → List Nat → List L
  | _, [] => []
  | s, k :: ks =>
    let en := enabledWith stp all s
    match en[k % en.length]? with
    | none => []
    | some l =>
      match stp s l with
      | some s' => l :: traceWith stp all s' ks
      | none => []

/-- run an explicit list of labels; `none` if one of them is not enabled -/
def runLabels {S L : Type} (stp : S → L → Option S) : S → List L → Option S
  | s, [] => some s
  | s, l :: ls =>
    match stp s l with
    | some s' => runLabels stp s' ls
    | none => none

/-! the measure that every step decreases -/

def rμ (cfg : Cfg τ ρ) : RPc → Nat
  | .sending j => (cfg.nQ + 3) * (cfg.targets.length - j) + 1
  | .doneS => 1
  | .exited => 0

def sμ (cfg : Cfg τ ρ) : SPc τ → Nat
  | .recv => cfg.nQ + 4
  | .sending _ i => cfg.nQ + 5 + (cfg.nQ - i)
  | .closing i => 3 + (cfg.nQ - i)
  | .doneS => 1
  | .exited => 0

def qμ : QPc ρ → Nat
  | .recv _ => 2
  | .sendRes _ => 1
  | .exited => 0

def qsμ : List (QPc ρ) → Nat
  | [] => 0
  | p :: ps => qμ p + qsμ ps

def mμ (cfg : Cfg τ ρ) : MPc → Nat
  | .stage1 => cfg.nQ + 3
  | .stage2 => cfg.nQ + 2
  | .collecting k => 1 + (cfg.nQ - k)
  | .ret => 0

def μ (cfg : Cfg τ ρ) (s : State τ ρ) : Nat :=
  rμ cfg s.reader + sμ cfg s.splitter + qsμ s.queries + mμ cfg s.main +
    (cfg.nQ + 2) * s.cIn.queue.length + (if s.panicked then 0 else 1)

/-! ### Variant: TWO forwarders ranging over cIn ("for throughput")

    var wg sync.WaitGroup; wg.Add(2)
    forward := func() { for t := range cIn { for i := range QChan { QChan[i] <- t } }; wg.Done() }
    go forward(); forward(); wg.Wait()
    for i := range QChan { close(QChan[i]) }; cSplitDone <- true

The state is the state of the faithful model plus the program counter of the second forwarder.
The first forwarder is `splitter`; its `range cIn` may end only when the second has left its loop
(this folds wg.Wait into the step), after which it closes the channels and reports as before. -/

inductive Label2 where
  | first (l : Label)     -- a step of the faithful model (the splitter is forwarder 1)
  | second (l : Label)    -- forwarder 2: splitRecv, handIn, splitSend, splitClosed
  deriving DecidableEq, Repr

def stepTwoForwarders (cfg : Cfg τ ρ) (sp : State τ ρ × SPc τ) : Label2 → Option (State τ ρ × SPc τ)
  | .first .splitClosed =>
    match sp.2 with
    | .exited => (step? cfg sp.1 .splitClosed).map fun s' => (s', sp.2)
    | _ => none
  | .first l => (step? cfg sp.1 l).map fun s' => (s', sp.2)
  | .second .splitClosed =>
    (step? cfg { sp.1 with splitter := sp.2 } .splitClosed).map fun _ => (sp.1, .exited)
  | .second .splitRecv =>
    (step? cfg { sp.1 with splitter := sp.2 } .splitRecv).map fun s' =>
      ({ s' with splitter := sp.1.splitter }, s'.splitter)
  | .second .handIn =>
    (step? cfg { sp.1 with splitter := sp.2 } .handIn).map fun s' =>
      ({ s' with splitter := sp.1.splitter }, s'.splitter)
  | .second .splitSend =>
    (step? cfg { sp.1 with splitter := sp.2 } .splitSend).map fun s' =>
      ({ s' with splitter := sp.1.splitter }, s'.splitter)
  | .second _ => none

def allLabels2 (n : Nat) : List Label2 :=
  (allLabels n).map .first ++ [.second .splitRecv, .second .handIn, .second .splitSend, .second .splitClosed]

def init2 (cfg : Cfg τ ρ) : State τ ρ × SPc τ := (init cfg, .recv)

end Gofasta.Model.Fanout
