import Gofasta.Model.Encoding
import Gofasta.Model.Util
import Gofasta.Model.Sort
/-
Model of pkg/snps: getSNPs (per-row scan on encoded bytes), writeOutput, aggregateWriteOutput.
-/
namespace Gofasta.Model

/-- one SNP: 1-based column, decoded reference symbol, decoded query symbol -/
abbrev Snp := Nat × Nat × Nat

/-- snps.getSNPs inner loop over encoded rows; `i` = 0-based column of the heads -/
def snpsRowEnc : Nat → List Nat → List Nat → List Snp
  | _, [], _ => []
  | _, _, [] => []
  | i, r :: rs, q :: qs =>
    if encDiffer r q then (i + 1, dec r, dec q) :: snpsRowEnc (i + 1) rs qs
    else snpsRowEnc (i + 1) rs qs

/-- the row of a query given raw FASTA bytes (the readers encode every byte) -/
def snpsRow (hard : Bool) (ref q : List Nat) : List Snp :=
  snpsRowEnc 0 (ref.map (enc hard)) (q.map (enc hard))

def fmtSnp (s : Snp) : String :=
  String.singleton (Char.ofNat s.2.1) ++ itoa s.1 ++ String.singleton (Char.ofNat s.2.2)

/-- one line of snps.writeOutput -/
def snpsLine (name : String) (row : List Snp) : String :=
  name ++ "," ++ joinWith "|" (row.map fmtSnp) ++ "\n"

/-- per-sequence output of `gofasta snps` on already-read records of equal width -/
def snpsOutput (hard : Bool) (ref : List Nat) (recs : List (String × List Nat)) : String :=
  "query,SNPs\n" ++ String.join (recs.map fun r => snpsLine r.1 (snpsRow hard ref r.2))

/-! ### aggregate -/

/-- counting map as an association list in first-seen order -/
def countInsert (k : Snp) : List (Snp × Nat) → List (Snp × Nat)
  | [] => [(k, 1)]
  | (k', n) :: t => if k' = k then (k', n + 1) :: t else (k', n) :: countInsert k t

def countAll (rows : List (List Snp)) : List (Snp × Nat) :=
  rows.foldl (fun m row => row.foldl (fun m s => countInsert s m) m) []

/-- the sort key of aggregateWriteOutput: (position, query allele) -/
def snpLt (a b : Snp × Nat) : Bool :=
  a.1.1 < b.1.1 || (a.1.1 == b.1.1 && a.1.2.2 < b.1.2.2)

/-- threshold given as a decimal num/den (den a power of ten): keep iff count/total ≥ num/den -/
def keepFreq (cnt total thrNum thrDen : Nat) : Bool := cnt * thrDen ≥ thrNum * total

def snpsAggregate (hard : Bool) (thrNum thrDen : Nat) (ref : List Nat) (recs : List (String × List Nat)) : String :=
  let rows := recs.map fun r => snpsRow hard ref r.2
  let total := recs.length
  let sorted := sortStable snpLt (countAll rows)
  "SNP,frequency\n" ++ String.join ((sorted.filter fun e => keepFreq e.2 total thrNum thrDen).map fun e =>
    fmtSnp e.1 ++ "," ++ fmt9 e.2 total ++ "\n")

end Gofasta.Model
