import Gofasta.Gen.Tables
/-
Model of pkg/encoding and pkg/alphabet table look-ups. The tables themselves are
regenerated from the Go source on every run (Gofasta.Gen).
-/
namespace Gofasta.Model

/-- encoding.MakeEncodingArray / MakeEncodingArrayHardGaps : byte -> EP code, 0 = invalid -/
def enc (hard : Bool) (b : Nat) : Nat := (if hard then Gen.encHard else Gen.encSoft).getD b 0

/-- encoding.MakeDecodingArray : EP code -> byte of the one-character string (0 = "") -/
def dec (e : Nat) : Nat := Gen.decTab.getD e 0

/-- encoding.MakeEncodedScoreArray -/
def scoreOf (e : Nat) : Nat := Gen.scoreEnc.getD e 0

/-- alphabet.MakeCompArray -/
def compText (b : Nat) : Nat := Gen.compText.getD b 0

/-- alphabet.MakeEncodedCompArray -/
def compEnc (e : Nat) : Nat := Gen.compEnc.getD e 0

/-- the Go tests on encoded bytes -/
def encDiffer (a b : Nat) : Bool := (a &&& b) < 16          -- (a & b) < 16
def encResolved (a : Nat) : Bool := a &&& 8 == 8            -- a&8 == 8

end Gofasta.Model
