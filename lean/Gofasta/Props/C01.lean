import Gofasta.Lemmas.Reorder
import Gofasta.Model.Sam
import Gofasta.Spec.Sam
/-
C01 — sam toMultiAlign projects every query onto reference coordinates exactly.
-/
namespace Gofasta.Props.C01
open Gofasta Base Model Spec

/-- the no-insertion operator table as the SAM specification defines it, for M I D N S H P = X:
    (operator, consumes query, consumes reference, what is written to the row, –) where the row gets the
    aligned bases (1) for M = X, '-' (2) for D, no-coverage (3) for N and nothing (0) for I S H P -/
def samNoIns : List (Nat × Bool × Bool × Nat × Nat) :=
  [(0, true, true, 1, 0), (1, true, false, 0, 0), (2, false, true, 2, 0), (3, false, true, 3, 0), (4, true, false, 0, 0),
   (5, false, false, 0, 0), (6, false, false, 0, 0), (7, true, true, 1, 0), (8, true, true, 1, 0)]

/-- its consumption flags are those of SAMv1 §1.4.6 -/
theorem samNoIns_consumes : samNoIns.all (fun e => (e.2.1, e.2.2.1) == opConsumes e.1) = true := by decide

/-- **C01.op_table_is_sam** — the operator table regenerated from the Go source is the SAM semantics -/
theorem op_table_is_sam : Gen.cigarTab0 = samNoIns := by decide

theorem opEntry_mem {tab : List (Nat × Bool × Bool × Nat × Nat)} {op : Nat} {x : Bool × Bool × Nat × Nat}
    (h : opEntry tab op = some x) : (op, x) ∈ tab := by
  unfold opEntry at h
  cases hf : tab.find? (fun e => e.1 == op) with
  | none => simp [hf] at h
  | some e =>
    simp only [hf, Option.map_some, Option.some.injEq] at h
    have hm := List.mem_of_find?_eq_some hf
    have hp := List.find?_some hf
    have : e.1 = op := by simpa using hp
    subst h; rw [← this]; exact hm

/-- reference bases spanned by a CIGAR under a table -/
def refSpan (tab : List (Nat × Bool × Bool × Nat × Nat)) : List (Nat × Nat) → Nat
  | [] => 0
  | (op, len) :: rest => (match opEntry tab op with | some (_, true, _, _) => len | _ => 0) + refSpan tab rest

/-- query bases consumed by a CIGAR under a table -/
def qSpan (tab : List (Nat × Bool × Bool × Nat × Nat)) : List (Nat × Nat) → Nat
  | [] => 0
  | (op, len) :: rest => (match opEntry tab op with | some (true, _, _, _) => len | _ => 0) + qSpan tab rest

theorem emit_length_noins (op len q r : Nat) (seq : List Nat) (cq cr : Bool) (ek rk : Nat)
    (h : opEntry samNoIns op = some (cq, cr, ek, rk)) (hq : cq = true → q + len ≤ seq.length) :
    (emit ek len q r seq []).length = if cr then len else 0 := by
  have hm := opEntry_mem h
  simp only [samNoIns, List.mem_cons, Prod.mk.injEq, List.mem_nil_iff, or_false] at hm
  rcases hm with ⟨_, rfl, rfl, rfl, rfl⟩ | ⟨_, rfl, rfl, rfl, rfl⟩ | ⟨_, rfl, rfl, rfl, rfl⟩ | ⟨_, rfl, rfl, rfl, rfl⟩ |
    ⟨_, rfl, rfl, rfl, rfl⟩ | ⟨_, rfl, rfl, rfl, rfl⟩ | ⟨_, rfl, rfl, rfl, rfl⟩ | ⟨_, rfl, rfl, rfl, rfl⟩ | ⟨_, rfl, rfl, rfl, rfl⟩ <;>
    simp [emit, List.length_take, List.length_drop] <;> (have := hq rfl; omega)

/-- **C01.walk_length** — the body of a row grows by exactly the reference bases the CIGAR spans, so for
a record inside the reference (`pos + refSpan ≤ L`) whose SEQ matches its CIGAR the row has length L -/
theorem walkOps_length : ∀ (cigar : List (Nat × Nat)) (seq : List Nat) (q r : Nat),
    q + qSpan samNoIns cigar ≤ seq.length →
    (walkOps samNoIns seq [] cigar q r).1.length = refSpan samNoIns cigar := by
  intro cigar
  induction cigar with
  | nil => intro seq q r _; simp [walkOps, refSpan]
  | cons c rest ih =>
    intro seq q r hq
    obtain ⟨op, len⟩ := c
    simp only [walkOps, refSpan, qSpan] at hq ⊢
    cases he : opEntry samNoIns op with
    | none => simp only [he] at hq ⊢; simpa using ih seq q r (by omega)
    | some e =>
      obtain ⟨cq, cr, ek, rk⟩ := e
      simp only [he, List.length_append] at hq ⊢
      have hlen := emit_length_noins op len q r seq cq cr ek rk he (by intro h; subst h; simp at hq; omega)
      rw [hlen, ih seq _ _ (by cases cq <;> simp at hq ⊢ <;> omega)]
      cases cr <;> simp

theorem walk_length (rec : SamRec) (L : Nat) (hq : qSpan samNoIns rec.cigar ≤ rec.seq.length)
    (hr : rec.pos + refSpan samNoIns rec.cigar ≤ L) : (walkNoIns rec L).length = L := by
  unfold walkNoIns
  rw [op_table_is_sam]
  simp only [List.length_append, List.length_replicate]
  rw [walkOps_length rec.cigar rec.seq 0 rec.pos (by omega)]
  omega

/-- **C01.skip_flags** — records flagged unmapped (0x4) or secondary (0x100) never contribute: removing
them from the input, wherever they sit, changes nothing -/
theorem skip_flags (recs : List SamRec) : samBlocks (recs.filter fun r => !isSkipped r) = samBlocks recs := by
  unfold samBlocks
  rw [List.filter_filter]
  simp

/-- **C01.flatten_site** — per-column rule over a query's records: two different letters give 'N' -/
theorem flatten_conflict (site : List Nat) (h : ((site.eraseDups).filter isLetter).length > 1) :
    flattenSite site = letN := by
  simp [flattenSite, h]

/-- otherwise the largest byte present wins, and letters (≥ 65) beat '-' (45) beats '*' (42) -/
theorem flatten_max (site : List Nat) (h : ¬ ((site.eraseDups).filter isLetter).length > 1) :
    flattenSite site = (site.eraseDups).foldl max 0 := by
  simp [flattenSite, h]

theorem letter_beats_gap (b : Nat) (h : isLetter b = true) : dash < b ∧ star < dash := by
  unfold isLetter at h
  simp only [Bool.or_eq_true, Bool.and_eq_true, decide_eq_true_eq] at h
  unfold dash star
  omega

/-- **C01.rows_in_input_order** — fastaio.WriteAlignment / WriteWrapAlignment (L-reorder instance) -/
theorem rows_in_input_order (rows : Nat → String) (n : Nat) (arrival : List Nat)
    (h : arrival.Perm (List.range n)) :
    Reorder.run (arrival.map fun i => (i, rows i)) = (List.range n).map rows :=
  Reorder.run_perm rows n arrival h

/-- non-vacuity: POS 3, 2S3M1I2D2N1M on a 12-base reference -/
def exRec : SamRec := ⟨"q", 0, 2, [(4, 2), (0, 3), (1, 1), (2, 2), (3, 2), (0, 1)], [78, 78, 65, 67, 71, 84, 84]⟩

example : walkNoIns exRec 12 = [42, 42, 65, 67, 71, 45, 45, 42, 42, 84, 42, 42] ∧
    qSpan samNoIns exRec.cigar ≤ exRec.seq.length ∧ exRec.pos + refSpan samNoIns exRec.cigar ≤ 12 := by decide

end Gofasta.Props.C01
