import Gofasta.Lemmas.Enc
import Gofasta.Model.Fasta
import Gofasta.Spec.Fasta
/-
C16 — FASTA reading is layout-independent, strict, total and the same in every reader.
-/
namespace Gofasta.Props.C16
open Gofasta Base Model Spec Lemmas

/-- **C16.blank_total** — a blank line never changes the reader state (and so never crashes it) -/
theorem blank_total (m : Mode) (s : RdState) : rdStep m s [] = .ok s := rfl

/-- blank lines can be removed from any stream of lines without changing the result -/
theorem blank_lines_irrelevant (m : Mode) : ∀ (ls : List (List Nat)) (s : RdState),
    rdLines m s (ls.filter (fun l => !l.isEmpty)) = rdLines m s ls := by
  intro ls
  induction ls with
  | nil => intro s; rfl
  | cons l t ih =>
    intro s
    cases l with
    | nil => simp [rdLines, rdStep, ih]
    | cons b bs =>
      simp only [List.filter_cons, List.isEmpty_cons, Bool.not_false, if_true, rdLines]
      cases rdStep m s (b :: bs) with
      | ok s' => exact ih s'
      | error e => rfl

/-- **C16.list_eq_stream** — the list reader returns exactly what the streaming reader delivers
on success, and an error exactly when it reports one -/
theorem list_eq_stream (hard : Bool) (t : List Nat) :
    readFastaList hard t = (match readFasta (.encoded hard) t with
      | .ok rs => .ok rs
      | .error (_, e) => .error e) := rfl

/-- **C16.total** — the model reader is a total function into `Except`: every byte stream is
read or rejected (the Go side of this statement is what the correspondence stream checks:
no panic, no time-out). -/
theorem total (m : Mode) (t : List Nat) : (∃ rs, readFasta m t = .ok rs) ∨ (∃ e, readFasta m t = .error e) := by
  cases h : readFasta m t with
  | ok rs => exact Or.inl ⟨rs, rfl⟩
  | error e => exact Or.inr ⟨e, rfl⟩

/-- a sequence line with a byte outside the alphabet is rejected by the encoded readers -/
theorem encodeLine_none_of_bad (hard : Bool) : ∀ (l : List Nat) (b : Nat), b ∈ l → enc hard b = 0 →
    encodeLine hard l = none := by
  intro l
  induction l with
  | nil => intro b hb; simp at hb
  | cons x t ih =>
    intro b hb he
    simp only [encodeLine]
    rcases List.mem_cons.1 hb with rfl | hb
    · simp [he]
    · split
      · rfl
      · simp [ih b hb he]

/-- **C16.strict_symbol** — once a record has started, any line containing a byte the alphabet
does not accept makes an encoded reader fail, wherever in the stream it occurs -/
theorem strict_symbol (hard : Bool) (s : RdState) (l : List Nat) (hs : s.started = true)
    (hne : l ≠ []) (hh : l.head? ≠ some 62) (b : Nat) (hb : b ∈ l) (he : enc hard b = 0) :
    rdStep (.encoded hard) s l = .error (s.out, .invalidNuc) := by
  cases l with
  | nil => exact absurd rfl hne
  | cons x t =>
    have hx : x ≠ 62 := by intro h; subst h; simp at hh
    have hnone := encodeLine_none_of_bad hard (x :: t) b hb he
    unfold rdStep
    split
    · rename_i heq; cases heq
    · rename_i d heq; cases heq; exact absurd rfl hx
    · simp [hs, seqLine, hnone]

/-- **C16.no_leading_header** — a first non-blank line that is not a header is a format error -/
theorem no_leading_header (m : Mode) (l : List Nat) (hne : l ≠ []) (hh : l.head? ≠ some 62) :
    rdStep m {} l = .error ([], .badFormat) := by
  cases l with
  | nil => exact absurd rfl hne
  | cons x t =>
    have hx : x ≠ 62 := by intro h; subst h; simp at hh
    unfold rdStep
    split
    · rename_i heq; cases heq
    · rename_i d heq; cases heq; exact absurd rfl hx
    · simp

/-- **C16.no_records** — an empty stream (or one of blank lines only) is rejected -/
theorem no_records : rdFinish ({} : RdState) = .error ([], .empty) := by
  simp [rdFinish]

/-- non-vacuity: a two-record file in CRLF layout with a wrapped, mixed-case second record -/
example : (readFasta (.encoded false) (stringToBytes ">a x\r\nAC\r\n>b\r\na\r\n\r\nc")).toOption.map
    (fun rs => rs.map (fun r => (r.id, r.seq, r.idx))) = some [([97], [136, 40], 0), ([98], [136, 40], 1)] := by
  decide +kernel

end Gofasta.Props.C16
