import Gofasta.Lemmas.Enc
import Gofasta.Model.Fasta
import Gofasta.Spec.Fasta
import Gofasta.Lemmas.FastaLayout
/-
C16 — FASTA reading is layout-independent, strict, total and the same in every reader.
-/
namespace Gofasta.Props.C16
open Gofasta Base Model Spec Lemmas

/-- **C16.blank_total** — a blank line never changes the reader state (and so never crashes it) -/
theorem blank_total (m : Mode) (s : RdState) : rdStep m s [] = .ok s := rfl

/-- blank lines can be removed from any stream of lines without changing the result -/
theorem blank_lines_irrelevant (m : Mode) : ∀ (ls : List (List Nat)) (s : RdState),
    rdLines m s (ls.filter (fun l => !l.isEmpty)) = rdLines m s ls := by
  intro ls
  induction ls with
  | nil => intro s; rfl
  | cons l t ih =>
    intro s
    cases l with
    | nil => simp [rdLines, rdStep, ih]
    | cons b bs =>
      simp only [List.filter_cons, List.isEmpty_cons, Bool.not_false, if_true, rdLines]
      cases rdStep m s (b :: bs) with
      | ok s' => exact ih s'
      | error e => rfl

/-- **C16.list_eq_stream** — the list reader returns exactly what the streaming reader delivers
on success, and an error exactly when it reports one -/
theorem list_eq_stream (hard : Bool) (t : List Nat) :
    readFastaList hard t = (match readFasta (.encoded hard) t with
      | .ok rs => .ok rs
      | .error (_, e) => .error e) := rfl

/-- **C16.total** — the model reader is a total function into `Except`: every byte stream is
read or rejected (the Go side of this statement is what the correspondence stream checks:
no panic, no time-out). -/
theorem total (m : Mode) (t : List Nat) : (∃ rs, readFasta m t = .ok rs) ∨ (∃ e, readFasta m t = .error e) := by
  cases h : readFasta m t with
  | ok rs => exact Or.inl ⟨rs, rfl⟩
  | error e => exact Or.inr ⟨e, rfl⟩

/-- a sequence line with a byte outside the alphabet is rejected by the encoded readers -/
theorem encodeLine_none_of_bad (hard : Bool) : ∀ (l : List Nat) (b : Nat), b ∈ l → enc hard b = 0 →
    encodeLine hard l = none := by
  intro l
  induction l with
  | nil => intro b hb; simp at hb
  | cons x t ih =>
    intro b hb he
    simp only [encodeLine]
    rcases List.mem_cons.1 hb with rfl | hb
    · simp [he]
    · split
      · rfl
      · simp [ih b hb he]

/-- **C16.strict_symbol** — once a record has started, any line containing a byte the alphabet
does not accept makes an encoded reader fail, wherever in the stream it occurs -/
theorem strict_symbol (hard : Bool) (s : RdState) (l : List Nat) (hs : s.started = true)
    (hne : l ≠ []) (hh : l.head? ≠ some 62) (b : Nat) (hb : b ∈ l) (he : enc hard b = 0) :
    rdStep (.encoded hard) s l = .error (s.out, .invalidNuc) := by
  cases l with
  | nil => exact absurd rfl hne
  | cons x t =>
    have hx : x ≠ 62 := by intro h; subst h; simp at hh
    have hnone := encodeLine_none_of_bad hard (x :: t) b hb he
    unfold rdStep
    split
    · rename_i heq; cases heq
    · rename_i d heq; cases heq; exact absurd rfl hx
    · simp [hs, seqLine, hnone]

/-- **C16.no_leading_header** — a first non-blank line that is not a header is a format error -/
theorem no_leading_header (m : Mode) (l : List Nat) (hne : l ≠ []) (hh : l.head? ≠ some 62) :
    rdStep m {} l = .error ([], .badFormat) := by
  cases l with
  | nil => exact absurd rfl hne
  | cons x t =>
    have hx : x ≠ 62 := by intro h; subst h; simp at hh
    unfold rdStep
    split
    · rename_i heq; cases heq
    · rename_i d heq; cases heq; exact absurd rfl hx
    · simp

/-- **C16.no_records** — an empty stream (or one of blank lines only) is rejected -/
theorem no_records : rdFinish ({} : RdState) = .error ([], .empty) := by
  simp [rdFinish]

/-- one single header and nothing after it (nothing emitted, empty buffer) is "no records" too -/
theorem no_records_single_header (s : RdState) (hb : s.buf = []) (hc : s.counter = 0) :
    rdFinish s = .error (s.out, .empty) := by
  simp [rdFinish, hb, hc]

/-- the end of the stream in a state with at least one record emitted: the pending record is checked against the
stored width, whatever its length -/
theorem finish_checked (s : RdState) (hc : 0 < s.counter) (hw : s.buf.length ≠ s.width) :
    rdFinish s = .error (s.out, .diffLen) := by
  simp [rdFinish, hc, hw]

/-- **C16.last_record_checked** — the LAST record is handled like every other one: for every reader, every text and
the state `s` reached after its last line, if at least one record was emitted before (`0 < s.counter`) and the length
of the pending record differs from the width of the earlier records, the reader returns "different length sequences"
(after the records delivered so far) - whatever that length is, 0 included (a last header without a sequence). -/
theorem last_record_checked (m : Mode) (text : List Nat) (s : RdState)
    (hl : rdLines m {} (splitLines text) = .ok s) (hc : 0 < s.counter) (hw : s.buf.length ≠ s.width) :
    readFasta m text = .error (s.out, .diffLen) := by
  unfold readFasta
  rw [hl]
  exact finish_checked s hc hw

/-- the same for the list reader (ReadEncodeAlignmentToList, and through it the FASTA section of gff.ReadGFF) -/
theorem last_record_checked_list (hard : Bool) (text : List Nat) (s : RdState)
    (hl : rdLines (.encoded hard) {} (splitLines text) = .ok s) (hc : 0 < s.counter) (hw : s.buf.length ≠ s.width) :
    readFastaList hard text = .error .diffLen := by
  unfold readFastaList
  rw [last_record_checked (.encoded hard) text s hl hc hw]

/-- the special case the repair is about: the last header is followed by no sequence (length 0) and the earlier
records are not empty -/
theorem last_header_without_sequence (m : Mode) (text : List Nat) (s : RdState)
    (hl : rdLines m {} (splitLines text) = .ok s) (hc : 0 < s.counter) (hb : s.buf = []) (hw : 0 < s.width) :
    readFasta m text = .error (s.out, .diffLen) :=
  last_record_checked m text s hl hc (by rw [hb]; simp; omega)

/-- the error class of a result -/
def errClass : Except (List FaRec × RdErr) (List FaRec) → Option RdErr
  | .error (_, e) => some e
  | .ok _ => none

/-- **C16.old_finish_dropped_last** — on the text ">a\nACGT\n>b\n" the loop end before the repair (`rdFinishOld`: flush
only a non-empty buffer) accepted the file with ONE record, record b silently missing; the repaired reader refuses it
with "different length sequences", in every mode -/
theorem old_finish_dropped_last :
    (((rdLines (.encoded false) {} (splitLines (stringToBytes ">a\nACGT\n>b\n"))).bind rdFinishOld).toOption.map
      fun rs => rs.map fun r => (r.id, r.seq, r.idx)) = some [([97], [136, 40, 72, 24], 0)] ∧
    errClass (readFasta (.encoded false) (stringToBytes ">a\nACGT\n>b\n")) = some .diffLen ∧
    errClass (readFasta (.encoded true) (stringToBytes ">a\nACGT\n>b\n")) = some .diffLen ∧
    errClass (readFasta .plain (stringToBytes ">a\nACGT\n>b\n")) = some .diffLen := by
  refine ⟨by decide +kernel, by decide +kernel, by decide +kernel, by decide +kernel⟩

/-- what the old loop end did in the remaining case: the pending empty record was dropped and the records emitted so
far were returned as success -/
theorem finish_old_dropped (s : RdState) (hb : s.buf = []) (hc : 0 < s.counter) : rdFinishOld s = .ok s.out := by
  have : s.counter ≠ 0 := by omega
  simp [rdFinishOld, hb, this]

/-- the two loop ends differ in nothing else: whenever the old one refused, or the pending buffer is not empty, or
nothing was emitted yet, they give the same result -/
theorem finish_eq_old (s : RdState) (h : s.buf ≠ [] ∨ s.counter = 0) : rdFinish s = rdFinishOld s := by
  unfold rdFinish rdFinishOld
  rcases h with h | h
  · have : s.buf.length > 0 := by
      cases hb : s.buf with
      | nil => exact absurd hb h
      | cons _ _ => simp
    simp [this]
  · by_cases hb : s.buf.length > 0
    · simp [hb]
    · simp [hb, h]

/-- non-vacuity: a two-record file in CRLF layout with a wrapped, mixed-case second record -/
example : (readFasta (.encoded false) (stringToBytes ">a x\r\nAC\r\n>b\r\na\r\n\r\nc")).toOption.map
    (fun rs => rs.map (fun r => (r.id, r.seq, r.idx))) = some [([97], [136, 40], 0), ([98], [136, 40], 1)] := by
  decide +kernel

end Gofasta.Props.C16

namespace Gofasta.Props.C16
open Gofasta Base Model Spec Lemmas

theorem encodeLine_accepted (hard : Bool) : ∀ (l : List Nat), (∀ b ∈ l, enc hard b ≠ 0) →
    encodeLine hard l = some (l.map (enc hard)) := by
  intro l
  induction l with
  | nil => intro _; rfl
  | cons b t ih =>
    intro h
    have hb := h b (by simp)
    simp [encodeLine, hb, ih (fun x hx => h x (by simp [hx]))]

/-- LF, CR and '>' are not in the alphabet (decided on the regenerated tables) -/
theorem control_bytes_rejected : (enc false 10 = 0 ∧ enc false 13 = 0 ∧ enc false 62 = 0) ∧
    (enc true 10 = 0 ∧ enc true 13 = 0 ∧ enc true 62 = 0) := by decide +kernel

/-- a file of records as laid out on disk, well-formed for an encoded reader: every header has an ID and no
    line-end bytes; every sequence line is non-empty and over the accepted alphabet; all sequences have the same
    length, which is non-zero unless there are at least two records (records without any sequence line: since the
    last record is flushed like every other one, such a file is read as records of width 0; one single header
    without a sequence is "no records") -/
structure WFFile (hard : Bool) (W : Nat) (recs : List LRec) : Prop where
  wpos : 0 < W ∨ 2 ≤ recs.length
  ids : ∀ r ∈ recs, firstField r.desc = some r.id
  hdr : ∀ r ∈ recs, CleanLine r.desc
  chunks : ∀ r ∈ recs, ∀ l ∈ r.chunks, l ≠ [] ∧ ∀ b ∈ l, enc hard b ≠ 0
  width : ∀ r ∈ recs, r.seq.length = W

theorem wpos_cases (W : Nat) (r0 : LRec) (rs : List LRec) (hw0 : r0.seq.length = W)
    (h : 0 < W ∨ 2 ≤ (r0 :: rs).length) : 0 < r0.seq.length ∨ rs ≠ [] := by
  rcases h with h | h
  · left; omega
  · right; intro e; subst e; simp at h

theorem accepted_not_control (hard : Bool) (b : Nat) (h : enc hard b ≠ 0) : b ≠ 10 ∧ b ≠ 13 ∧ b ≠ 62 := by
  have hc := control_bytes_rejected
  refine ⟨?_, ?_, ?_⟩ <;> (intro e; subst e; cases hard <;> simp_all)

theorem wfRec_of_file (hard : Bool) (W : Nat) (recs : List LRec) (hf : WFFile hard W recs) (r : LRec) (hr : r ∈ recs) :
    WFRec (.encoded hard) (enc hard) W r := by
  refine ⟨hf.ids r hr, ?_, hf.width r hr⟩
  intro l hl
  obtain ⟨hne, hacc⟩ := hf.chunks r hr l hl
  refine ⟨⟨hne, ?_⟩, ?_⟩
  · cases l with
    | nil => exact absurd rfl hne
    | cons x t =>
      have := (accepted_not_control hard x (hacc x (by simp))).2.2
      simp [this]
  · simp [seqLine, encodeLine_accepted hard l hacc]

theorem lines_clean (hard : Bool) (W : Nat) (recs : List LRec) (hf : WFFile hard W recs) :
    ∀ l ∈ renderLines recs, CleanLine l ∧ l ≠ [] := by
  intro l hl
  simp only [renderLines, List.mem_flatMap, LRec.lines, List.mem_cons] at hl
  obtain ⟨r, hr, hl⟩ := hl
  rcases hl with rfl | hl
  · obtain ⟨h1, h2⟩ := hf.hdr r hr
    refine ⟨⟨?_, ?_⟩, by simp⟩
    · intro b hb
      rcases List.mem_cons.1 hb with rfl | hb
      · decide
      · exact h1 b hb
    · cases hd : r.desc with
      | nil => simp
      | cons x t =>
        rw [hd] at h2
        simpa [List.getLast?_cons_cons] using h2
  · obtain ⟨hne, hacc⟩ := hf.chunks r hr l hl
    refine ⟨⟨fun b hb => (accepted_not_control hard b (hacc b hb)).1, ?_⟩, hne⟩
    intro hlast
    have hmem : (13 : Nat) ∈ l := List.mem_of_getLast? hlast
    exact (accepted_not_control hard 13 (hacc 13 hmem)).2.1 rfl

/-- **C16.layout_independent** — for every non-empty list of records with accepted sequences of equal length (non-empty,
or all empty when there are at least two records), written under ANY layout (any chunking of each sequence into lines, LF or CRLF, with or without a final
newline), the encoded reader returns exactly those records: ID = the first white-space-delimited token of the
header, description = the whole header, sequence = the encoded concatenation of its lines, index = position -/
theorem layout_independent (hard crlf finalEol : Bool) (W : Nat) (r0 : LRec) (rs : List LRec) (hf : WFFile hard W (r0 :: rs)) :
    readFasta (.encoded hard) (renderText crlf finalEol (renderLines (r0 :: rs))) = .ok (recsFrom (enc hard) (r0 :: rs) 0) := by
  rw [readFasta_eq_bind, splitLines_render crlf finalEol _ (lines_clean hard W _ hf)]
  have hw0 : r0.seq.length = W := hf.width r0 (by simp)
  have h0 := wfRec_of_file hard W _ hf r0 (by simp)
  have hrs : ∀ r ∈ rs, WFRec (.encoded hard) (enc hard) W r := fun r hr => wfRec_of_file hard W _ hf r (by simp [hr])
  rw [← hw0] at h0 hrs
  exact rdLines_file (.encoded hard) (enc hard) r0 rs (wpos_cases W r0 rs hw0 hf.wpos) h0 hrs

/-- what is returned does not depend on the layout at all: two layouts of the same records read the same -/
theorem layout_irrelevant (hard c1 f1 c2 f2 : Bool) (W : Nat) (r0 r0' : LRec) (rs rs' : List LRec)
    (h1 : WFFile hard W (r0 :: rs)) (h2 : WFFile hard W (r0' :: rs'))
    (hsame : (r0 :: rs).map (fun r => (r.id, r.desc, r.seq)) = (r0' :: rs').map (fun r => (r.id, r.desc, r.seq))) :
    readFasta (.encoded hard) (renderText c1 f1 (renderLines (r0 :: rs))) =
      readFasta (.encoded hard) (renderText c2 f2 (renderLines (r0' :: rs'))) := by
  rw [layout_independent hard c1 f1 W r0 rs h1, layout_independent hard c2 f2 W r0' rs' h2]
  congr 1
  have key : ∀ (a b : List LRec) (k : Nat), a.map (fun r => (r.id, r.desc, r.seq)) = b.map (fun r => (r.id, r.desc, r.seq)) →
      recsFrom (enc hard) a k = recsFrom (enc hard) b k := by
    intro a
    induction a with
    | nil => intro b k h; cases b <;> simp_all [recsFrom]
    | cons x xs ih =>
      intro b k h
      cases b with
      | nil => simp at h
      | cons y ys =>
        simp only [List.map_cons, List.cons.injEq, Prod.mk.injEq] at h
        obtain ⟨⟨h1, h2, h3⟩, h4⟩ := h
        simp only [recsFrom, recOf, h1, h2, h3]
        rw [ih ys (k + 1) h4]
  exact key _ _ 0 hsame

/-- non-vacuity: two records, the second wrapped at width 1 and 2, CRLF, no final newline -/
def exFile : List LRec :=
  [⟨[97], [97, 32, 120], [[65, 67, 71]]⟩, ⟨[98], [98], [[97], [78, 45]]⟩]

theorem exFile_wf : WFFile false 3 exFile := by
  refine ⟨Or.inl (by decide), ?_, ?_, ?_, ?_⟩
  · intro r hr
    simp only [exFile, List.mem_cons, List.mem_nil_iff, or_false] at hr
    rcases hr with rfl | rfl <;> decide
  · intro r hr
    simp only [exFile, List.mem_cons, List.mem_nil_iff, or_false] at hr
    rcases hr with rfl | rfl <;> (unfold CleanLine; decide)
  · intro r hr
    simp only [exFile, List.mem_cons, List.mem_nil_iff, or_false] at hr
    rcases hr with rfl | rfl
    · intro l hl
      simp only [List.mem_cons, List.mem_nil_iff, or_false] at hl
      subst hl
      exact ⟨by decide, by decide +kernel⟩
    · intro l hl
      simp only [List.mem_cons, List.mem_nil_iff, or_false] at hl
      rcases hl with rfl | rfl <;> exact ⟨by decide, by decide +kernel⟩
  · intro r hr
    simp only [exFile, List.mem_cons, List.mem_nil_iff, or_false] at hr
    rcases hr with rfl | rfl <;> decide

example : readFasta (.encoded false) (renderText true false (renderLines exFile)) = .ok (recsFrom (enc false) exFile 0) :=
  layout_independent false true false 3 _ _ exFile_wf

/-- non-vacuity of the width-0 case: two headers without any sequence line are two records of width 0 (before the repair
of the loop end the second one was dropped) -/
example : readFasta (.encoded false) (renderText false true (renderLines [⟨[97], [97], []⟩, ⟨[98], [98, 32, 120], []⟩])) =
    .ok (recsFrom (enc false) [⟨[97], [97], []⟩, ⟨[98], [98, 32, 120], []⟩] 0) := by
  refine layout_independent false false true 0 _ _ ⟨Or.inr (by decide), ?_, ?_, ?_, ?_⟩
  · intro r hr
    simp only [List.mem_cons, List.mem_nil_iff, or_false] at hr
    rcases hr with rfl | rfl <;> decide
  · intro r hr
    simp only [List.mem_cons, List.mem_nil_iff, or_false] at hr
    rcases hr with rfl | rfl <;> (unfold CleanLine; decide)
  · intro r hr l hl
    simp only [List.mem_cons, List.mem_nil_iff, or_false] at hr
    rcases hr with rfl | rfl <;> simp at hl
  · intro r hr
    simp only [List.mem_cons, List.mem_nil_iff, or_false] at hr
    rcases hr with rfl | rfl <;> decide

end Gofasta.Props.C16

namespace Gofasta.Props.C16
open Gofasta Base Model Spec Lemmas

/-- the same file structure for the plain-text reader (it performs no symbol check: any non-empty line that does
    not start with '>' and contains no line-end byte is a sequence line) -/
structure WFFilePlain (W : Nat) (recs : List LRec) : Prop where
  wpos : 0 < W ∨ 2 ≤ recs.length
  ids : ∀ r ∈ recs, firstField r.desc = some r.id
  hdr : ∀ r ∈ recs, CleanLine r.desc
  chunks : ∀ r ∈ recs, ∀ l ∈ r.chunks, SeqLine l ∧ CleanLine l
  width : ∀ r ∈ recs, r.seq.length = W

/-- **C16.layout_independent (plain reader)** — ReadAlignment returns the same records with upper-cased text -/
theorem layout_independent_plain (crlf finalEol : Bool) (W : Nat) (r0 : LRec) (rs : List LRec) (hf : WFFilePlain W (r0 :: rs)) :
    readFasta .plain (renderText crlf finalEol (renderLines (r0 :: rs))) = .ok (recsFrom asciiUpper (r0 :: rs) 0) := by
  have hclean : ∀ l ∈ renderLines (r0 :: rs), CleanLine l ∧ l ≠ [] := by
    intro l hl
    simp only [renderLines, List.mem_flatMap, LRec.lines, List.mem_cons] at hl
    obtain ⟨r, hr, hl⟩ := hl
    rcases hl with rfl | hl
    · obtain ⟨h1, h2⟩ := hf.hdr r (by simpa using hr)
      refine ⟨⟨?_, ?_⟩, by simp⟩
      · intro b hb
        rcases List.mem_cons.1 hb with rfl | hb
        · decide
        · exact h1 b hb
      · cases hd : r.desc with
        | nil => simp
        | cons x t =>
          rw [hd] at h2
          simpa [List.getLast?_cons_cons] using h2
    · have := hf.chunks r (by simpa using hr) l hl
      exact ⟨this.2, this.1.1⟩
  rw [readFasta_eq_bind, splitLines_render crlf finalEol _ hclean]
  have hw0 : r0.seq.length = W := hf.width r0 (by simp)
  have mk : ∀ r ∈ r0 :: rs, WFRec .plain asciiUpper W r := by
    intro r hr
    refine ⟨hf.ids r hr, ?_, hf.width r hr⟩
    intro l hl
    exact ⟨(hf.chunks r hr l hl).1, rfl⟩
  have h0 := mk r0 (by simp)
  have hrs : ∀ r ∈ rs, WFRec .plain asciiUpper W r := fun r hr => mk r (by simp [hr])
  rw [← hw0] at h0 hrs
  exact rdLines_file .plain asciiUpper r0 rs (wpos_cases W r0 rs hw0 hf.wpos) h0 hrs

/-- **C16.readers_agree** — on a file that the encoded reader accepts, decoding the encoded records gives the records
of the plain reader: same IDs, descriptions, indices, and upper-cased sequences -/
theorem readers_agree_seq (hard : Bool) (s : List Nat) (h : ∀ b ∈ s, b < 256 ∧ enc hard b ≠ 0) :
    (s.map (enc hard)).map dec = s.map asciiUpper := by
  rw [List.map_map]
  apply List.map_congr_left
  intro b hb
  have := dec_enc hard b (h b hb).1 (h b hb).2
  simpa [Function.comp, upper, asciiUpper] using this

/-- **C16.case_insensitive** — the encoded records do not depend on letter case -/
theorem case_insensitive_seq (hard : Bool) (s : List Nat) (h : ∀ b ∈ s, b < 256) :
    (s.map upper).map (enc hard) = s.map (enc hard) := by
  rw [List.map_map]
  apply List.map_congr_left
  intro b hb
  exact enc_upper hard b (h b hb)

/-- **C16.score_counts** — the completeness score of a record is the sum over its symbols of 12 / |base set| -/
theorem score_is_sum (s : List Nat) : scoreSeq s = (s.map scoreOf).sum := rfl

end Gofasta.Props.C16
