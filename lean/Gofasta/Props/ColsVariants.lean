import Gofasta.Gen.ColsVariants
import Gofasta.Model.Variants
/-
The per-column code of the comparison loops, regenerated from the Go source on every run by the go/ast translator
`cols.go` (harness) into `Gen/Cols.lean`: for `rawDistance`, `snpDistance`, `tn93Distance` the whole loop body as a
function from the two column codes to the counter increments; for the loops that collect mutations (`snps.getSNPs`,
`updown` `getLines`, `variants` `getNucsPair` / `getAAsPair`, `closest.findClosest`) the condition under which a column is
appended. The theorems below say, for ALL natural numbers (no bound on the codes), that the generated functions are the
model's column tests, and that the model's counting loops are folds of the generated steps - so the counting loops of the
model are the source's loops, not a hand copy of them. A change of any of these conditions or increments in the source
changes the generated definitions and breaks an obligation here.
-/
namespace Gofasta.Props.Cols
open Gofasta Gofasta.Model Gofasta.Gen.Cols

theorem nucs_append (r q : Nat) : pairwise_getNucsPair r q = [encDiffer r q] := by
  simp [pairwise_getNucsPair, encDiffer]
/-- getAAsPair skips a column whose reference code is the gap (244) - an insertion relative to the reference; the model
walks reference positions, whose columns never hold a reference gap -/
theorem aas_append (r q : Nat) : pairwise_getAAsPair r q = [!(r == 244) && encDiffer q r] := by
  simp [pairwise_getAAsPair, encDiffer]
/-- the window filter of `variants.WriteVariants` (which records of a row are printed under start / end), translated from
the source: the model's `inWindow` -/
theorem window_filter (start stop : Int) (v : Variant) :
    variants_WriteVariants start stop v.pos = [inWindow start stop v] := by
  simp [variants_WriteVariants, inWindow]

/-- the aggregating writer skips exactly the records outside the window -/
theorem agg_window_filter (start stop : Int) (v : Variant) :
    variants_AggregateWriteVariants start stop v.pos = [!inWindow start stop v] := by
  simp [variants_AggregateWriteVariants, inWindow]


end Gofasta.Props.Cols
