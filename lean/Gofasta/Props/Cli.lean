import Gofasta.Gen.Facts
/-
The command-line layer (cmd/*.go) is not modelled as code: the commands are driven through the binary by the
correspondence streams. What the command models and the streams DO assume about it is the value an option has when it
is not given. `Gen.cliFlags` is regenerated from the source on every run (go/ast: every `Flags().XVar[P](...)` call of
the cmd package); the theorems below check the assumed defaults against it, so changing a default in the source breaks
an obligation even where no stream happens to leave that option out.
-/
namespace Gofasta.Props.Cli
open Gofasta.Gen

/-- (command variable, option, value type, default as written in the source) -/
abbrev Flag := String × String × String × String

/-- windows, wrapping and padding are off unless asked for (C15); reading from / writing to the standard streams -/
def windowDefaults : List Flag := [
  ("toMultiAlignCmd", "start", "Int", "-1"), ("toMultiAlignCmd", "end", "Int", "-1"), ("toMultiAlignCmd", "wrap", "Int", "-1"),
  ("toMultiAlignCmd", "pad", "Bool", "false"), ("toMultiAlignCmd", "fasta-out", "String", "'stdout'"),
  ("toPairAlignCmd", "start", "Int", "-1"), ("toPairAlignCmd", "end", "Int", "-1"), ("toPairAlignCmd", "wrap", "Int", "-1"),
  ("toPairAlignCmd", "omit-reference", "Bool", "false"), ("toPairAlignCmd", "skip-insertions", "Bool", "false"),
  ("variantsCmd", "start", "Int", "-1"), ("variantsCmd", "end", "Int", "-1"), ("variantsCmd", "msa", "String", "'stdin'"),
  ("variantsCmd", "outfile", "String", "'stdout'"),
  ("samVariantsCmd", "start", "Int", "-1"), ("samVariantsCmd", "end", "Int", "-1"), ("samVariantsCmd", "outfile", "String", "'stdout'"),
  ("samCmd", "samfile", "String", "'stdin'"), ("samCmd", "threads", "Int", "1"),
  ("snpCmd", "query", "String", "'stdin'"), ("snpCmd", "outfile", "String", "'stdout'"),
  ("updownListCmd", "query", "String", "'stdin'"), ("updownListCmd", "outfile", "String", "'stdout'")]

/-- per-sequence output, no threshold, plain records unless asked for (C04, C13) -/
def variantDefaults : List Flag := [
  ("variantsCmd", "aggregate", "Bool", "false"), ("variantsCmd", "append-snps", "Bool", "false"), ("variantsCmd", "threshold", "Float64", "0.0"),
  ("samVariantsCmd", "aggregate", "Bool", "false"), ("samVariantsCmd", "append-snps", "Bool", "false"),
  ("samVariantsCmd", "threshold", "Float64", "0.0"),
  ("snpCmd", "aggregate", "Bool", "false"), ("snpCmd", "hard-gaps", "Bool", "false"), ("snpCmd", "threshold", "Float64", "0.0")]

/-- closest: the raw measure, the single nearest target, no distance limit, the list form (C06) -/
def closestDefaults : List Flag := [
  ("closestCmd", "measure", "String", "'raw'"), ("closestCmd", "number", "Int", "0"), ("closestCmd", "max-dist", "String", "''"),
  ("closestCmd", "table", "Bool", "false"), ("closestCmd", "outfile", "String", "'stdout'")]

/-- topranking: no size, no distance, thresholds 0.1 and 10000, filling on, the list form (C08, C18) -/
def toprankingDefaults : List Flag := [
  ("toprankingCmd", "size-total", "Int", "0"), ("toprankingCmd", "size-up", "Int", "0"), ("toprankingCmd", "size-down", "Int", "0"),
  ("toprankingCmd", "size-side", "Int", "0"), ("toprankingCmd", "size-same", "Int", "0"),
  ("toprankingCmd", "dist-all", "Int", "0"), ("toprankingCmd", "dist-up", "Int", "0"), ("toprankingCmd", "dist-down", "Int", "0"),
  ("toprankingCmd", "dist-side", "Int", "0"), ("toprankingCmd", "dist-push", "Int", "0"),
  ("toprankingCmd", "threshold-pair", "Float32", "0.1"), ("toprankingCmd", "threshold-target", "Int", "10000"),
  ("toprankingCmd", "no-fill", "Bool", "false"), ("toprankingCmd", "table", "Bool", "false"), ("toprankingCmd", "ignore", "String", "''"),
  ("toprankingCmd", "outfile", "String", "'stdout'")]

def registered (l : List Flag) : Bool := l.all fun e => cliFlags.contains e

theorem window_defaults : registered windowDefaults = true := by decide +kernel
theorem variant_defaults : registered variantDefaults = true := by decide +kernel
theorem closest_defaults : registered closestDefaults = true := by decide +kernel
theorem topranking_defaults : registered toprankingDefaults = true := by decide +kernel

/-- no option is registered twice on one command (a second registration would panic at start-up or shadow the first) -/
theorem no_option_twice : (cliFlags.map fun e => (e.1, e.2.1)).Nodup := by decide +kernel

/-- the check is not vacuous: a default that is not the source's is refused -/
example : registered [("toMultiAlignCmd", "wrap", "Int", "60")] = false := by decide +kernel

end Gofasta.Props.Cli
