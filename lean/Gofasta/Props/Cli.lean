import Gofasta.Gen.Facts
/-
The command-line layer (cmd/*.go) is not modelled as code: the commands are driven through the binary by the
correspondence streams. What the command models and the streams DO assume about it is the value an option has when it
is not given. `Gen.cliFlags` is regenerated from the source on every run (go/ast: every `Flags().XVar[P](...)` call of
the cmd package); the theorems below check the assumed defaults against it, so changing a default in the source breaks
an obligation even where no stream happens to leave that option out.
-/
namespace Gofasta.Props.Cli
open Gofasta.Gen

/-- (command variable, option, value type, default as written in the source) -/
abbrev Flag := String × String × String × String

/-- windows, wrapping and padding are off unless asked for (C15); reading from / writing to the standard streams -/
def windowDefaults : List Flag := [
  ("toMultiAlignCmd", "start", "Int", "-1"), ("toMultiAlignCmd", "end", "Int", "-1"), ("toMultiAlignCmd", "wrap", "Int", "-1"),
  ("toMultiAlignCmd", "pad", "Bool", "false"), ("toMultiAlignCmd", "fasta-out", "String", "'stdout'"),
  ("toPairAlignCmd", "start", "Int", "-1"), ("toPairAlignCmd", "end", "Int", "-1"), ("toPairAlignCmd", "wrap", "Int", "-1"),
  ("toPairAlignCmd", "omit-reference", "Bool", "false"), ("toPairAlignCmd", "skip-insertions", "Bool", "false"),
  ("variantsCmd", "start", "Int", "-1"), ("variantsCmd", "end", "Int", "-1"), ("variantsCmd", "msa", "String", "'stdin'"),
  ("variantsCmd", "outfile", "String", "'stdout'"),
  ("samVariantsCmd", "start", "Int", "-1"), ("samVariantsCmd", "end", "Int", "-1"), ("samVariantsCmd", "outfile", "String", "'stdout'"),
  ("samCmd", "samfile", "String", "'stdin'"), ("samCmd", "threads", "Int", "1"),
  ("snpCmd", "query", "String", "'stdin'"), ("snpCmd", "outfile", "String", "'stdout'"),
  ("updownListCmd", "query", "String", "'stdin'"), ("updownListCmd", "outfile", "String", "'stdout'")]

/-- per-sequence output, no threshold, plain records unless asked for (C04, C13) -/
def variantDefaults : List Flag := [
  ("variantsCmd", "aggregate", "Bool", "false"), ("variantsCmd", "append-snps", "Bool", "false"), ("variantsCmd", "threshold", "Float64", "0.0"),
  ("samVariantsCmd", "aggregate", "Bool", "false"), ("samVariantsCmd", "append-snps", "Bool", "false"),
  ("samVariantsCmd", "threshold", "Float64", "0.0"),
  ("snpCmd", "aggregate", "Bool", "false"), ("snpCmd", "hard-gaps", "Bool", "false"), ("snpCmd", "threshold", "Float64", "0.0")]

/-- closest: the raw measure, the single nearest target, no distance limit, the list form (C06) -/
def closestDefaults : List Flag := [
  ("closestCmd", "measure", "String", "'raw'"), ("closestCmd", "number", "Int", "0"), ("closestCmd", "max-dist", "String", "''"),
  ("closestCmd", "table", "Bool", "false"), ("closestCmd", "outfile", "String", "'stdout'")]

/-- topranking: no size, no distance, thresholds 0.1 and 10000, filling on, the list form (C08, C18) -/
def toprankingDefaults : List Flag := [
  ("toprankingCmd", "size-total", "Int", "0"), ("toprankingCmd", "size-up", "Int", "0"), ("toprankingCmd", "size-down", "Int", "0"),
  ("toprankingCmd", "size-side", "Int", "0"), ("toprankingCmd", "size-same", "Int", "0"),
  ("toprankingCmd", "dist-all", "Int", "0"), ("toprankingCmd", "dist-up", "Int", "0"), ("toprankingCmd", "dist-down", "Int", "0"),
  ("toprankingCmd", "dist-side", "Int", "0"), ("toprankingCmd", "dist-push", "Int", "0"),
  ("toprankingCmd", "threshold-pair", "Float32", "0.1"), ("toprankingCmd", "threshold-target", "Int", "10000"),
  ("toprankingCmd", "no-fill", "Bool", "false"), ("toprankingCmd", "table", "Bool", "false"), ("toprankingCmd", "ignore", "String", "''"),
  ("toprankingCmd", "outfile", "String", "'stdout'")]

def registered (l : List Flag) : Bool := l.all fun e => cliFlags.contains e

theorem window_defaults : registered windowDefaults = true := by decide +kernel
theorem variant_defaults : registered variantDefaults = true := by decide +kernel
theorem closest_defaults : registered closestDefaults = true := by decide +kernel
theorem topranking_defaults : registered toprankingDefaults = true := by decide +kernel

/-- no option is registered twice on one command (a second registration would panic at start-up or shadow the first) -/
theorem no_option_twice : (cliFlags.map fun e => (e.1, e.2.1)).Nodup := by decide +kernel

/-- the check is not vacuous: a default that is not the source's is refused -/
example : registered [("toMultiAlignCmd", "wrap", "Int", "60")] = false := by decide +kernel


/-- how every command hands its options to the package function it calls (`Gen.cliCalls`, regenerated from cmd/*.go and
the callee's parameter list): parameter = source, where `flag:x` is the variable of option x, `in:x` / `out:x` a stream
opened from option x, `expr:` a value computed in the command (the measure after validation, the input types and the
ignore list of topranking, the annotation suffix, "reference given as a file"). This is the plumbing the command models
assume: e.g. `--start` / `--end` reach `trimstart` / `trimend`, `--hard-gaps`, `--aggregate` and `--threshold` reach the
parameters of the same meaning in that order, `--size-*` and `--dist-*` reach the bins of the same name. Swapping two
arguments of one type, or opening the wrong option's file, changes the regenerated list and breaks `wiring`. -/
def expectedCalls : List (String × String × List String) := [
  ("closestCmd", "closest.ClosestN", ["catchmentSize=flag:number", "maxdist=expr:dist", "query=in:query", "target=in:target", "measure=expr:measure", "out=out:outfile", "table=flag:table", "threads=flag:threads"]),
  ("closestCmd", "closest.Closest", ["query=in:query", "target=in:target", "measure=expr:measure", "out=out:outfile", "threads=flag:threads"]),
  ("indelCmd", "sam.Indels", ["samFile=in:samfile", "insOut=out:insertions-out", "delOut=out:deletions-out", "threshold=flag:threshold"]),
  ("toMultiAlignCmd", "sam.ToMultiAlign", ["samIn=in:samfile", "out=out:fasta-out", "wrap=flag:wrap", "trimstart=flag:start", "trimend=flag:end", "pad=flag:pad", "threads=flag:threads"]),
  ("toPairAlignCmd", "sam.ToPairAlign", ["samIn=in:samfile", "ref=in:reference", "outpath=flag:outpath", "wrap=flag:wrap", "trimStart=flag:start", "trimEnd=flag:end", "omitRef=flag:omit-reference", "omitIns=flag:skip-insertions", "threads=flag:threads"]),
  ("samVariantsCmd", "sam.Variants", ["samIn=in:samfile", "refIn=in:reference", "refFromFile=expr:refFromFile", "annoIn=in:annotation", "annoSuffix=expr:annoSuffix", "out=out:outfile", "start=flag:start", "end=flag:end", "aggregate=flag:aggregate", "threshold=flag:threshold", "appendSNP=flag:append-snps", "threads=flag:threads"]),
  ("snpCmd", "snps.SNPs", ["ref=in:reference", "alignment=in:query", "hardGaps=flag:hard-gaps", "aggregate=flag:aggregate", "threshold=flag:threshold", "w=out:outfile"]),
  ("updownListCmd", "updown.List", ["reference=in:reference", "alignment=in:query", "out=out:outfile"]),
  ("toprankingCmd", "updown.TopRanking", ["query=in:query", "target=in:target", "reference=in:reference", "out=out:outfile", "table=flag:table", "q_in_type=expr:qtype", "t_in_type=expr:ttype", "ignoreArray=expr:ignoreArray", "sizetotal=flag:size-total", "sizeup=flag:size-up", "sizedown=flag:size-down", "sizeside=flag:size-side", "sizesame=flag:size-same", "distall=flag:dist-all", "distup=flag:dist-up", "distdown=flag:dist-down", "distside=flag:dist-side", "threshpair=flag:threshold-pair", "threshtarg=flag:threshold-target", "nofill=flag:no-fill", "distpush=flag:dist-push"]),
  ("variantsCmd", "variants.Variants", ["msaIn=in:msa", "stdin=expr:stdin", "refID=flag:reference", "annoIn=in:annotation", "annoSuffix=expr:annoSuffix", "out=out:outfile", "start=flag:start", "end=flag:end", "aggregate=flag:aggregate", "threshold=flag:threshold", "appendSNP=flag:append-snps", "threads=flag:threads"])]

theorem wiring : cliCalls = expectedCalls := by decide +kernel

/-- not vacuous: two Boolean arguments of `snps` exchanged are refused -/
example : (("snpCmd", "snps.SNPs", ["ref=in:reference", "alignment=in:query", "hardGaps=flag:aggregate", "aggregate=flag:hard-gaps", "threshold=flag:threshold", "w=out:outfile"]) ∈ expectedCalls) = False := by decide +kernel

end Gofasta.Props.Cli
