import Gofasta.Lemmas.Enc
import Gofasta.Spec.Tables
/-
C17 — the genetic code and nucleotide tables are sound and complete over IUPAC.
The domain is finite: every statement is decided by the kernel on the tables regenerated from
the Go source on this run, then lifted to sequences of any length by induction.
-/
namespace Gofasta.Props.C17
open Gofasta Base Model Spec Lemmas

theorem chkCodons_ok : chkCodons = true := by decide +kernel
theorem chkCompText_ok : chkCompText = true := by decide +kernel
theorem chkCompEnc_ok : chkCompEnc = true := by decide +kernel
theorem chkCompInvolutive_ok : chkCompInvolutive = true := by decide +kernel

theorem asc_pairwise : ∀ (l : List Nat), ascCheck l = true → l.Pairwise (· < ·) := by
  intro l
  induction l with
  | nil => intro _; exact List.Pairwise.nil
  | cons a t ih =>
    intro h
    cases t with
    | nil => simp
    | cons b t' =>
      simp only [ascCheck, Bool.and_eq_true, decide_eq_true_eq] at h
      have ht := ih h.2
      refine List.pairwise_cons.2 ⟨?_, ht⟩
      intro x hx
      rcases List.mem_cons.1 hx with rfl | hx
      · exact h.1
      · have := (List.pairwise_cons.1 ht).1 x hx; omega

/-- soundness of the linear merge: under strictly ascending codons, a successful merge means the
dictionary look-up of every listed codon is the specified one and every key is a listed codon -/
theorem merge_sound : ∀ (cs : List (List Nat)) (d : List (List Nat × List Nat)),
    mergeCheck cs d = true → (cs.map codonCode).Pairwise (· < ·) →
    (∀ e ∈ d, e.1 ∈ cs) ∧ (∀ c ∈ cs, (d.find? (fun e => e.1 == c)).map (·.2) = specCodon c) := by
  intro cs
  induction cs with
  | nil =>
    intro d h _
    simp only [mergeCheck, List.isEmpty_iff] at h
    subst h; simp
  | cons c cs ih =>
    intro d h hs
    have hs' : (cs.map codonCode).Pairwise (· < ·) := (List.pairwise_cons.1 (by simpa using hs)).2
    have hnot : c ∉ cs := by
      intro hc
      have h1 := (List.pairwise_cons.1 (by simpa using hs)).1 (codonCode c) (List.mem_map_of_mem hc)
      omega
    cases d with
    | nil =>
      simp only [mergeCheck, Bool.and_eq_true] at h
      obtain ⟨_, h2⟩ := ih [] h.2 hs'
      refine ⟨by simp, ?_⟩
      intro c' hc'
      rcases List.mem_cons.1 hc' with rfl | hc'
      · have := h.1; simp only [Option.isNone_iff_eq_none] at this; simp [this]
      · exact h2 c' hc'
    | cons e d' =>
      obtain ⟨k, v⟩ := e
      simp only [mergeCheck] at h
      split at h
      · rename_i hk
        have hkc : k = c := by simpa using hk
        subst hkc
        simp only [Bool.and_eq_true, beq_iff_eq] at h
        obtain ⟨h1, h2⟩ := ih d' h.2 hs'
        refine ⟨?_, ?_⟩
        · intro e he
          rcases List.mem_cons.1 he with rfl | he
          · simp
          · exact List.mem_cons_of_mem _ (h1 e he)
        · intro c' hc'
          rcases List.mem_cons.1 hc' with rfl | hc'
          · simp [h.1]
          · have hne : (k == c') = false := by
              simp only [beq_eq_false_iff_ne]; intro heq; subst heq; exact hnot hc'
            simp only [List.find?_cons, hne]
            exact h2 c' hc'
      · rename_i hk
        simp only [Bool.and_eq_true] at h
        obtain ⟨h1, h2⟩ := ih ((k, v) :: d') h.2 hs'
        refine ⟨fun e he => List.mem_cons_of_mem _ (h1 e he), ?_⟩
        intro c' hc'
        rcases List.mem_cons.1 hc' with rfl | hc'
        · have hnone : specCodon c' = none := by simpa using h.1
          rw [hnone]
          have : ((k, v) :: d').find? (fun e => e.1 == c') = none := by
            rw [List.find?_eq_none]
            intro e he hbeq
            have : e.1 = c' := by simpa using hbeq
            exact hnot (this ▸ h1 e he)
          simp [this]
        · exact h2 c' hc'

theorem codons_all : (∀ e ∈ Gen.codonDict, e.1 ∈ allCodons) ∧
    (∀ c ∈ allCodons, dictLookup c = specCodon c) := by
  have h := chkCodons_ok
  simp only [chkCodons, Bool.and_eq_true] at h
  exact merge_sound allCodons Gen.codonDict h.1 (asc_pairwise _ h.2)

/-- **C17.codon_sound_complete** — for each of the 3375 codons over the 15 IUPAC codes the
dictionary has an entry iff all A/C/G/T expansions share one product under NCBI table 1, and the
entry is that product. -/
theorem codon_sound_complete (c : List Nat) (hc : c ∈ allCodons) : dictLookup c = specCodon c :=
  codons_all.2 c hc

/-- **C17.dict_domain** — the dictionary has no entry outside the 3375 codons -/
theorem dict_domain (e : List Nat × List Nat) (he : e ∈ Gen.codonDict) : e.1 ∈ allCodons :=
  codons_all.1 e he

/-- **C17.comp_sets** — complementing any accepted character yields the character denoting the
base-wise complements, in text form … -/
theorem comp_sets_text (b : Nat) (hb : b ∈ accepted32) :
    baseSet false (compText b) = (baseSet false b).map compSet := by
  have := (List.all_eq_true.1 chkCompText_ok) b hb
  simp only [compTextOk, Bool.and_eq_true, beq_iff_eq] at this
  exact this.1.1

/-- … and in the bit-encoded form -/
theorem comp_sets_enc (b : Nat) (hb : b ∈ accepted32) : compEnc (enc false b) = enc false (compText b) := by
  have := (List.all_eq_true.1 chkCompEnc_ok) b hb
  simpa [compEncOk] using this

theorem compText_involutive (b : Nat) (hb : b ∈ accepted32) : compText (compText b) = b := by
  have h := chkCompInvolutive_ok
  simp only [chkCompInvolutive, Bool.and_eq_true] at h
  simpa using (List.all_eq_true.1 h.1) b hb

/-- **C17.comp_involutive** — complement is an involution on sequences of any length -/
theorem comp_involutive (s : List Nat) (hs : ∀ b ∈ s, b ∈ accepted32) : complement (complement s) = s := by
  induction s with
  | nil => rfl
  | cons b t ih =>
    simp only [complement, List.map_cons, List.map_map] at *
    rw [compText_involutive b (hs b (by simp))]
    congr 1
    exact ih (fun x hx => hs x (by simp [hx]))

/-- **C17.revcomp_involutive** — reverse-complement twice is the identity -/
theorem revcomp_involutive (s : List Nat) (hs : ∀ b ∈ s, b ∈ accepted32) :
    reverseComplement (reverseComplement s) = s := by
  unfold reverseComplement complement
  rw [List.map_reverse, List.reverse_reverse]
  exact comp_involutive s hs

/-- **C17.translate_strict** — strict translation fails exactly when some codon has no entry;
otherwise it is the concatenation of the entries -/
theorem translate_nil (strict : Bool) : translateGo strict [] = some [] := rfl

theorem translate_cons (strict : Bool) (a b c : Nat) (rest : List Nat) (aa : List Nat)
    (h : dictLookup [a, b, c] = some aa) :
    translateGo strict (a :: b :: c :: rest) = (translateGo strict rest).map (aa ++ ·) := by
  simp [translateGo, h]

theorem translate_unknown (a b c : Nat) (rest : List Nat) (h : dictLookup [a, b, c] = none) :
    translateGo true (a :: b :: c :: rest) = none ∧
    translateGo false (a :: b :: c :: rest) = (translateGo false rest).map (88 :: ·) := by
  simp [translateGo, h]

/-- non-vacuity: TAG and TGA are stops, MGR is arginine, CTN leucine, NNN untranslatable -/
example : dictLookup [84, 65, 71] = some [42] ∧ dictLookup [84, 71, 65] = some [42] ∧
    dictLookup [77, 71, 82] = some [82] ∧ dictLookup [67, 84, 78] = some [76] ∧ dictLookup [78, 78, 78] = none := by
  decide +kernel

end Gofasta.Props.C17
