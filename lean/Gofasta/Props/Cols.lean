import Gofasta.Gen.Cols
import Gofasta.Model.Closest
import Gofasta.Model.Snps
import Gofasta.Model.Updown
import Gofasta.Model.Sam
import Gofasta.Model.Variants
/-
The per-column code of the comparison loops, regenerated from the Go source on every run by the go/ast translator
`cols.go` (harness) into `Gen/Cols.lean`: for `rawDistance`, `snpDistance`, `tn93Distance` the whole loop body as a
function from the two column codes to the counter increments; for the loops that collect mutations (`snps.getSNPs`,
`updown` `getLines`, `variants` `getNucsPair` / `getAAsPair`, `closest.findClosest`) the condition under which a column is
appended. The theorems below say, for ALL natural numbers (no bound on the codes), that the generated functions are the
model's column tests, and that the model's counting loops are folds of the generated steps - so the counting loops of the
model are the source's loops, not a hand copy of them. A change of any of these conditions or increments in the source
changes the generated definitions and breaks an obligation here.
-/
namespace Gofasta.Props.Cols
open Gofasta Gofasta.Model Gofasta.Gen.Cols

def b2n (b : Bool) : Nat := if b then 1 else 0

/-- rawDistance, one column: n counts a differing column, d counts it too and also a column where the query is resolved
and equal to the target -/
theorem raw_col (q t : Nat) :
    closest_rawDistance q t = [b2n (encDiffer q t), b2n (encDiffer q t) + b2n (encResolved q && q == t)] := by
  unfold closest_rawDistance encDiffer encResolved b2n
  generalize decide ((q &&& t) < 16) = a; generalize ((q &&& 8) == 8) = b; generalize (q == t) = c
  cases a <;> cases b <;> cases c <;> rfl

theorem snp_col (q t : Nat) : closest_snpDistance q t = [b2n (encDiffer q t)] := by
  unfold closest_snpDistance encDiffer b2n
  generalize decide ((q &&& t) < 16) = a
  cases a <;> rfl

/-- tn93Distance, one column: (P1, P2, d, L) -/
theorem tn93_col (q t : Nat) :
    closest_tn93Distance q t =
      (if encDiffer q t && encResolved q && encResolved t then
        [b2n ((q ||| t) == 200), b2n (!((q ||| t) == 200) && (q ||| t) == 56), 1, 1]
       else if encResolved q && q == t then [0, 0, 0, 1] else [0, 0, 0, 0]) := by
  unfold closest_tn93Distance encDiffer encResolved b2n
  generalize decide ((q &&& t) < 16) = a; generalize ((q &&& 8) == 8) = b; generalize ((t &&& 8) == 8) = c
  generalize ((q ||| t) == 200) = d; generalize ((q ||| t) == 56) = e; generalize (q == t) = f
  cases a <;> cases b <;> cases c <;> cases d <;> cases e <;> cases f <;> rfl

/-- the model's loops are folds of the generated column steps -/
theorem snpCount_cons (q t : Nat) (qs ts : List Nat) :
    snpCount (q :: qs) (t :: ts) = (closest_snpDistance q t).getD 0 0 + snpCount qs ts := by
  rw [snp_col]; simp [snpCount, b2n]

theorem rawCounts_cons (q t : Nat) (qs ts : List Nat) :
    rawCounts (q :: qs) (t :: ts) =
      ((rawCounts qs ts).1 + (closest_rawDistance q t).getD 0 0, (rawCounts qs ts).2 + (closest_rawDistance q t).getD 1 0) := by
  rw [raw_col]; simp [rawCounts, b2n, Nat.add_assoc]

theorem tnCounts_cons (q t : Nat) (qs ts : List Nat) :
    let c := closest_tn93Distance q t
    let r := tnCounts qs ts
    tnCounts (q :: qs) (t :: ts) = { p1 := r.p1 + c.getD 0 0, p2 := r.p2 + c.getD 1 0, d := r.d + c.getD 2 0, l := r.l + c.getD 3 0 } := by
  intro c r
  show tnCounts (q :: qs) (t :: ts) = _
  simp only [c, tn93_col, tnCounts]
  by_cases h : (encDiffer q t && encResolved q && encResolved t) = true
  · simp [h, b2n, r]
  · by_cases h2 : (encResolved q && q == t) = true
    · simp [h, h2, r]
    · simp [h, h2, r]

/-- the conditions under which a column is reported as a mutation -/
theorem snps_append (r q : Nat) : snps_getSNPs r q = [encDiffer r q] := by
  simp [snps_getSNPs, encDiffer]
theorem updown_append (r q : Nat) : input_getLines r q = [encResolved q && encDiffer r q] := by
  simp [input_getLines, encDiffer, encResolved]
theorem nucs_append (r q : Nat) : pairwise_getNucsPair r q = [encDiffer r q] := by
  simp [pairwise_getNucsPair, encDiffer]
/-- getAAsPair skips a column whose reference code is the gap (244) - an insertion relative to the reference; the model
walks reference positions, whose columns never hold a reference gap -/
theorem aas_append (r q : Nat) : pairwise_getAAsPair r q = [!(r == 244) && encDiffer q r] := by
  simp [pairwise_getAAsPair, encDiffer]
/-- the three places where findClosest rebuilds the SNP list use the same test -/
theorem closest_append (q t : Nat) : closest_findClosest q t = [encDiffer q t, encDiffer q t, encDiffer q t] := by
  simp [closest_findClosest, encDiffer]

/-- the model's SNP rows use exactly these tests (unfolding one column) -/
theorem snpsRowEnc_cons (i r q : Nat) (rs qs : List Nat) :
    snpsRowEnc i (r :: rs) (q :: qs) =
      (if (snps_getSNPs r q).getD 0 false then [(i + 1, dec r, dec q)] else []) ++ snpsRowEnc (i + 1) rs qs := by
  rw [snps_append]; simp only [snpsRowEnc, List.getD_cons_zero]
  by_cases h : encDiffer r q = true <;> simp [h]

/-- `sam.checkArgs` (the window check of toMultiAlign and toPairAlign), translated statement by statement from the source:
it refuses exactly the windows the model refuses and otherwise returns the model's (start, end, trim) -/
theorem checkArgs_translated (L : Nat) (s e : Int) :
    sam_checkArgs (L : Int) s e = (Model.checkArgs L s e).map fun r => ((r.1 : Int), (r.2.1 : Int), r.2.2) := by
  unfold sam_checkArgs Model.checkArgs
  by_cases hs : s = -1 <;> by_cases he : e = -1 <;> simp only [hs, he, decide_true, decide_false, if_true, if_false,
    Bool.false_eq_true, bne_self_eq_false, Bool.or_false, Bool.false_or]
  all_goals (repeat' split) <;> simp_all <;> omega


/-- the window filter of `variants.WriteVariants` (which records of a row are printed under start / end), translated from
the source: the model's `inWindow` -/
theorem window_filter (start stop : Int) (v : Variant) :
    variants_WriteVariants start stop v.pos = [inWindow start stop v] := by
  simp [variants_WriteVariants, inWindow]

/-- the aggregating writer skips exactly the records outside the window -/
theorem agg_window_filter (start stop : Int) (v : Variant) :
    variants_AggregateWriteVariants start stop v.pos = [!inWindow start stop v] := by
  simp [variants_AggregateWriteVariants, inWindow]

/-- which SAM records the two readers skip (unmapped: bit 4; secondary: bit 256), translated from the source: the model's
`isSkipped` on the record's flag, for every flag value -/
theorem sam_skip (r : SamRec) :
    (sam_groupSamRecords r.flag).any id = isSkipped r ∧ (indels_getSamRecords r.flag).any id = isSkipped r := by
  have h2 : ∀ n : Nat, (n >>> 2) &&& 1 = (n / 4) % 2 := by
    intro n; rw [Nat.shiftRight_eq_div_pow, Nat.and_one_is_mod]
  have h8 : ∀ n : Nat, (n >>> 8) &&& 1 = (n / 256) % 2 := by
    intro n; rw [Nat.shiftRight_eq_div_pow, Nat.and_one_is_mod]
  simp [sam_groupSamRecords, indels_getSamRecords, isSkipped, h2, h8]

/-- not vacuous: the two classes of column that the tests separate -/
example : closest_rawDistance 136 72 = [1, 1] ∧ closest_rawDistance 136 136 = [0, 1] ∧ closest_rawDistance 136 240 = [0, 0] := by decide
example : closest_tn93Distance 136 72 = [1, 0, 1, 1] ∧ closest_tn93Distance 40 24 = [0, 1, 1, 1] ∧ closest_tn93Distance 136 24 = [0, 0, 1, 1] := by decide

end Gofasta.Props.Cols
