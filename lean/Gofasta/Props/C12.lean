import Gofasta.Lemmas.Reorder
import Gofasta.Lemmas.TopK
import Gofasta.Props.C13
import Gofasta.Props.C06
import Gofasta.Props.C03
import Gofasta.Lemmas.AggOrder
import Gofasta.Model.Closest
/-
C12 — output is a deterministic function of the input, not of threads or scheduling (partial).
Proved (about the modelled logic): every index-keyed re-ordering writer emits the records in input order
whatever order they arrive in; result slots indexed by query position are arrival-order independent;
the aggregate counts do not depend on the order in which per-sequence results arrive.
Not a theorem: the Go scheduler, channel semantics, data races — observed by the jitter/threads/GOMAXPROCS
stream and (thorough tier) the race detector.
-/
namespace Gofasta.Props.C12
open Gofasta Model

/-- **C12.writer_any_order** — fastaio.WriteAlignment, WriteWrapAlignment, snps.writeOutput, updown/list.writeOutput,
variants.WriteVariants and (after the repair) the stdout branch of sam.writePairwiseAlignment all have this shape:
for ANY permutation in which records 0..n-1 arrive, the emitted sequence is record 0, 1, …, n-1 -/
theorem writer_any_order {α : Type} (payload : Nat → α) (n : Nat) (arrival : List Nat) (h : arrival.Perm (List.range n)) :
    Reorder.run (arrival.map fun i => (i, payload i)) = (List.range n).map payload :=
  Reorder.run_perm payload n arrival h

/-- two different arrival orders of the same records give the same output -/
theorem writer_order_independent {α : Type} (payload : Nat → α) (n : Nat) (a1 a2 : List Nat)
    (h1 : a1.Perm (List.range n)) (h2 : a2.Perm (List.range n)) :
    Reorder.run (a1.map fun i => (i, payload i)) = Reorder.run (a2.map fun i => (i, payload i)) := by
  rw [writer_any_order payload n a1 h1, writer_any_order payload n a2 h2]

/-- **C12.aggregate_any_order** — the count stored for a mutation after all per-sequence results have arrived
does not depend on their arrival order -/
theorem aggregate_counts_any_order (k : Snp) (rows1 rows2 : List (List Snp)) (h : rows1.Perm rows2) :
    Gofasta.Props.C13.countOf k (countAll rows1) = Gofasta.Props.C13.countOf k (countAll rows2) := by
  unfold countAll
  rw [Gofasta.Props.C13.countAll_is_occurrences, Gofasta.Props.C13.countAll_is_occurrences]
  congr 1
  exact (List.Perm.flatten h).count_eq k

/-- **C12.sortkey_total_snps** — the sort key of the snps aggregate table, (position, query allele), orders any two
distinct entries of one reference strictly one way or the other (so the stable sort's output does not depend on
the map-iteration order it starts from) -/
theorem snpLt_total (a b : Snp × Nat) (h : a.1.1 ≠ b.1.1 ∨ a.1.2.2 ≠ b.1.2.2) : snpLt a b = true ∨ snpLt b a = true := by
  simp only [snpLt, Bool.or_eq_true, decide_eq_true_eq, Bool.and_eq_true, beq_iff_eq]
  omega

theorem snpLt_asymm (a b : Snp × Nat) (h : snpLt a b = true) : snpLt b a = false := by
  simp only [snpLt, Bool.or_eq_true, decide_eq_true_eq, Bool.and_eq_true, beq_iff_eq] at h
  simp only [snpLt, Bool.or_eq_false_iff, decide_eq_false_iff_not, Bool.and_eq_false_iff, beq_eq_false_iff_ne]
  omega

/-- the catchment comparator of closest with the arrival index as last key is total: ties cannot be left to chance -/
theorem natKey_total (a b : Nat × Nat) (h : a ≠ b) : Gofasta.Props.C06.natLt a b = true ∨ Gofasta.Props.C06.natLt b a = true := by
  have : a.1 ≠ b.1 ∨ a.2 ≠ b.2 := by
    by_cases h1 : a.1 = b.1
    · right; intro h2; exact h (Prod.ext h1 h2)
    · left; exact h1
  simp only [Gofasta.Props.C06.natLt, Bool.or_eq_true, decide_eq_true_eq, Bool.and_eq_true, beq_iff_eq]
  omega

/-- the reference symbol of a listed SNP is a function of its position -/
theorem spec_ref_symbol (hard : Bool) : ∀ (ref q : List Nat) (i : Nat), ∀ s ∈ Spec.specSnpsFrom hard i ref q,
    i < s.1 ∧ s.2.1 = Spec.shown (ref.getD (s.1 - 1 - i) 0) := by
  intro ref
  induction ref with
  | nil => intro q i s hs; simp [Spec.specSnpsFrom] at hs
  | cons r rs ih =>
    intro q i s hs
    cases q with
    | nil => simp [Spec.specSnpsFrom] at hs
    | cons x xs =>
      simp only [Spec.specSnpsFrom] at hs
      have tail : ∀ s ∈ Spec.specSnpsFrom hard (i + 1) rs xs, i < s.1 ∧ s.2.1 = Spec.shown ((r :: rs).getD (s.1 - 1 - i) 0) := by
        intro s hs
        have := ih xs (i + 1) s hs
        refine ⟨by omega, ?_⟩
        have e : s.1 - 1 - i = (s.1 - 1 - (i + 1)) + 1 := by omega
        rw [e, List.getD_cons_succ]; exact this.2
      split at hs
      · rcases List.mem_cons.1 hs with rfl | hs
        · refine ⟨by simp, ?_⟩
          have : i + 1 - 1 - i = 0 := by omega
          simp [this]
        · exact tail s hs
      · exact tail s hs

open Gofasta.Lemmas.AggOrder in
/-- **C12.aggregate_output_any_order** — `snps --aggregate`: the whole table (which mutations, their counts, their
order, hence the printed text) is the same whatever order the per-sequence results reach the aggregating writer in;
for every reference and alignment over the accepted alphabet -/
theorem snps_aggregate_deterministic (hard : Bool) (thrN thrD : Nat) (ref : List Nat)
    (recs1 recs2 : List (String × List Nat)) (h : recs1.Perm recs2)
    (hr : C03.Accepted hard ref) (hq : ∀ r ∈ recs1, C03.Accepted hard r.2) :
    snpsAggregate hard thrN thrD ref recs1 = snpsAggregate hard thrN thrD ref recs2 := by
  unfold snpsAggregate
  simp only []
  have hrows : (recs1.map fun r => snpsRow hard ref r.2).Perm (recs2.map fun r => snpsRow hard ref r.2) := h.map _
  have hd : KeyDecides (countAll (recs1.map fun r => snpsRow hard ref r.2)) := by
    intro a ha b hb hpos _
    have ka := (mem_iff_countOf _ (countAll_keys _).1 a).1 ha
    have kb := (mem_iff_countOf _ (countAll_keys _).1 b).1 hb
    have fa := ((countAll_keys _).2 a.1).1 ka.1
    have fb := ((countAll_keys _).2 b.1).1 kb.1
    obtain ⟨ra, hra, hsa⟩ := List.mem_flatten.1 fa
    obtain ⟨rb, hrb, hsb⟩ := List.mem_flatten.1 fb
    obtain ⟨qa, hqa, rfl⟩ := List.mem_map.1 hra
    obtain ⟨qb, hqb, rfl⟩ := List.mem_map.1 hrb
    rw [C03.row hard ref qa.2 hr (hq qa hqa)] at hsa
    have hqb' : C03.Accepted hard qb.2 := hq qb hqb
    rw [C03.row hard ref qb.2 hr hqb'] at hsb
    have sa := spec_ref_symbol hard ref qa.2 0 a.1 hsa
    have sb := spec_ref_symbol hard ref qb.2 0 b.1 hsb
    have href : a.1.2.1 = b.1.2.1 := by rw [sa.2, sb.2, hpos]
    rename_i halt
    exact Prod.ext hpos (Prod.ext href halt)
  rw [snps_aggregate_any_order _ _ hrows hd, h.length_eq]

/-- non-vacuity: three records arriving as 2, 0, 1 -/
example : Reorder.run [(2, "c"), (0, "a"), (1, "b")] = ["a", "b", "c"] := by decide

end Gofasta.Props.C12
