import Gofasta.Model.Csv
import Gofasta.Props.C16
import Gofasta.Model.Validate
/-
C18 — invalid or inconsistent input is refused with a non-zero exit, never silently (partial).
Proved: the decision logic — for each listed condition, the modelled reader / validator refuses.
Observed, not proved: that the Go pipeline delivers the error to `main` and exits non-zero promptly
(channel hand-offs, goroutine blocking): the binary is run on every corrupted input with a time-out.
-/
namespace Gofasta.Props.C18
open Gofasta Base Model Spec Gofasta.Props.C16

/-- a successful step keeps the reader started -/
theorem started_preserved (m : Mode) (s s' : RdState) (l : List Nat) (hs : s.started = true) (h : rdStep m s l = .ok s') :
    s'.started = true := by
  unfold rdStep at h
  split at h
  · cases h; exact hs
  · rename_i d
    split at h
    · cases h
    · rename_i id hid
      simp only [hs, Bool.not_true, Bool.false_eq_true, if_false] at h
      split at h
      · cases h
      · cases h; rfl
  · simp only [hs, Bool.not_true, Bool.false_eq_true, if_false] at h
    split at h
    · cases h
    · cases h; rfl

/-- **C18.bad_symbol_anywhere** — once the first header has been read, a sequence line containing a byte
outside the alphabet makes the encoded readers fail wherever it sits in the stream — first, middle or last
record, before or after any number of valid lines -/
theorem bad_symbol_anywhere (hard : Bool) : ∀ (pre : List (List Nat)) (s : RdState) (bad : List Nat) (post : List (List Nat)),
    s.started = true → bad ≠ [] → bad.head? ≠ some 62 → (∃ b ∈ bad, enc hard b = 0) →
    ∃ e, rdLines (.encoded hard) s (pre ++ bad :: post) = .error e := by
  intro pre
  induction pre with
  | nil =>
    intro s bad post hs hne hh ⟨b, hb, he⟩
    simp only [List.nil_append, rdLines]
    rw [strict_symbol hard s bad hs hne hh b hb he]
    exact ⟨_, rfl⟩
  | cons l t ih =>
    intro s bad post hs hne hh hbad
    simp only [List.cons_append, rdLines]
    cases hstep : rdStep (.encoded hard) s l with
    | error e => exact ⟨e, rfl⟩
    | ok s' => exact ih s' bad post (started_preserved _ s s' l hs hstep) hne hh hbad

/-- **C18.widths** — a row whose width differs from the reference's is refused, whichever row it is -/
theorem widths_refused (refWidth : Nat) (pre post : List Nat) (w : Nat) (h : w ≠ refWidth) :
    refusesWidths refWidth (pre ++ w :: post) = true := by
  simp [refusesWidths, h]

theorem widths_accepted (refWidth : Nat) (rows : List Nat) (h : ∀ w ∈ rows, w = refWidth) :
    refusesWidths refWidth rows = false := by
  simp only [refusesWidths, List.any_eq_false, bne_iff_ne, ne_eq, Decidable.not_not]
  exact h

/-- **C18.query_target** -/
theorem query_target_refused (a b : Nat) (h : a ≠ b) : refusesQueryTarget a b = true := by simp [refusesQueryTarget, h]

/-- **C18.reference_count** — more than one record in --reference is refused -/
theorem reference_count_refused (n : Nat) (h : 1 < n) : refusesReferenceCount n = true := by
  simp [refusesReferenceCount]; omega

/-- **C18.window** — window coordinates outside 1..reference length, or start > end, are refused -/
theorem window_refused (L : Nat) (s e : Int) (hs : s ≠ -1) (he : e ≠ -1)
    (h : s < 1 ∨ s > L ∨ e < 1 ∨ e > L ∨ s > e) : refusesWindow L s e = true := by
  simp only [refusesWindow, checkArgs, hs, he, if_false]
  rcases h with h | h | h | h | h
  · have : (s > (L : Int) ∨ s < 1) := Or.inr h
    simp [this]
  · have : (s > (L : Int) ∨ s < 1) := Or.inl h
    simp [this]
  · by_cases h1 : (s > (L : Int) ∨ s < 1)
    · simp [h1]
    · have : (e > (L : Int) ∨ e < 1) := Or.inr h
      simp [h1, this]
  · by_cases h1 : (s > (L : Int) ∨ s < 1)
    · simp [h1]
    · have : (e > (L : Int) ∨ e < 1) := Or.inl h
      simp [h1, this]
  · by_cases h1 : (s > (L : Int) ∨ s < 1)
    · simp [h1]
    · by_cases h2 : (e > (L : Int) ∨ e < 1)
      · simp [h1, h2]
      · simp [h1, h2, h]

theorem window_accepted (L : Nat) (s e : Int) (h : 1 ≤ s ∧ s ≤ e ∧ e ≤ L) (hs : s ≠ -1) (he : e ≠ -1) :
    refusesWindow L s e = false := by
  simp only [refusesWindow, checkArgs, hs, he, if_false]
  have h1 : ¬ (s > (L : Int) ∨ s < 1) := by omega
  have h2 : ¬ (e > (L : Int) ∨ e < 1) := by omega
  have h3 : ¬ (s > e) := by omega
  simp [h1, h2, h3]

/-- **C18.suffix** -/
theorem suffix_refused (ext : String) (h1 : ext ≠ ".gb") (h2 : ext ≠ ".gff") : refusesSuffix ext = true := by
  simp [refusesSuffix, h1, h2]

/-- **C18.no_option** — topranking without any size or distance option is refused -/
theorem no_option_refused : refusesOptions 0 0 0 0 0 0 0 0 0 0 = true := by decide

/-- **C18.csv** — an empty CSV, or one whose first row is not the `updown list` header, is refused -/
theorem csv_empty_refused : refusesCsv [] = true := rfl
theorem csv_header_refused (h : List String) (rest : List (List String)) (hh : h ≠ udHeader) : refusesCsv (h :: rest) = true := by
  simp [refusesCsv, hh]

/-- **C18.empty_fasta** — a missing/empty FASTA stream yields no record and is refused -/
theorem empty_fasta_refused (m : Mode) : ∃ e, readFasta m [] = .error e := by
  refine ⟨([], .empty), ?_⟩
  simp [readFasta, splitLines, splitLinesAux, rdLines, rdFinish]

open Gofasta.Model.Csv in
/-- **C18.csv (on bytes)** — with the CSV layer modelled down to the bytes: an empty file, a file of blank lines only, and
any file whose first record is not exactly the five-column `updown list` header are refused, whatever follows -/
theorem csv_bytes_empty_refused : readUDL [] = .error ∧ readUDL [nl] = .error ∧ readUDL [cr, nl, nl] = .error := by
  refine ⟨by decide, by decide, by decide⟩

open Gofasta.Model.Csv in
theorem csv_bytes_header_refused (text : Bytes) (h : (readRecs text).1.head? ≠ some (splitB comma headerB)) :
    readUDL text = .error := by
  unfold readUDL
  cases hr : (readRecs text).1 with
  | nil => simp [hr]
  | cons r rest =>
    rw [hr] at h
    have hne : r ≠ splitB comma headerB := by
      intro e; apply h; simp [e]
    simp [hr, hne]

open Gofasta.Model.Csv in
/-- a row that cannot be parsed (bad ambiguity range, bad SNP position, bad count) turns every later outcome into an
error: nothing after it is presented as success -/
theorem csv_error_sticks (rows : List (List Bytes)) : rows.foldl (fun o r => parseRow r o) .error = .error := by
  induction rows with
  | nil => rfl
  | cons r t ih => simpa [List.foldl_cons, parseRow] using ih

end Gofasta.Props.C18
