import Gofasta.Lemmas.Enc
import Gofasta.Model.Regions
import Gofasta.Spec.Variants
import Gofasta.Props.C17
import Gofasta.Lemmas.AACalls
/-
C04 — variants loses no nucleotide difference and every aa call is a true translation.
-/
namespace Gofasta.Props.C04
open Gofasta Base Model Spec

/-- **C04.partition** — the genome is split without loss: every position 1..L is either in the
'intergenic' list or in the positions of some *returned* region. (This is the obligation that
failed for the original RegionsFromGFF, which computed the list from regions it then discarded.) -/
theorem partition (regions : List Region) (L p : Nat) (h1 : 1 ≤ p) (hL : p ≤ L) :
    p ∈ codes regions L ∨ ∃ r ∈ regions, p ∈ r.positions := by
  by_cases h : regions.any (fun r => r.positions.contains p) = true
  · right
    obtain ⟨r, hr, hp⟩ := List.any_eq_true.1 h
    exact ⟨r, hr, by simpa using hp⟩
  · left
    unfold codes
    rw [List.mem_filterMap]
    refine ⟨p - 1, List.mem_range.2 (by omega), ?_⟩
    have hp : p - 1 + 1 = p := by omega
    simp only [hp]
    have : regions.any (fun r => r.positions.contains p) = false := by simpa using h
    simp only [this, Bool.false_eq_true, if_false]

/-- and the list contains nothing else: no listed position lies in a returned region -/
theorem codes_disjoint (regions : List Region) (L p : Nat) (h : p ∈ codes regions L) :
    (1 ≤ p ∧ p ≤ L) ∧ ∀ r ∈ regions, p ∉ r.positions := by
  unfold codes at h
  rw [List.mem_filterMap] at h
  obtain ⟨i, hi, hx⟩ := h
  have hi' := List.mem_range.1 hi
  split at hx
  · cases hx
  · rename_i hany
    simp only [Option.some.injEq] at hx
    subst hx
    refine ⟨by omega, ?_⟩
    intro r hr hp
    apply hany
    exact List.any_eq_true.2 ⟨r, hr, by simpa using hp⟩

/-- strict translation only succeeds on whole codons -/
theorem translate_some_mod3 : ∀ (n : Nat) (s : List Nat), s.length ≤ n → ∀ t, translateGo true s = some t → s.length % 3 = 0 := by
  intro n
  induction n using Nat.strongRecOn with
  | _ n ih =>
    intro s hn t ht
    match s with
    | [] => rfl
    | [_] => simp [translateGo] at ht
    | [_, _] => simp [translateGo] at ht
    | a :: b :: c :: rest =>
      simp only [translateGo] at ht
      have hrest : ∃ t', translateGo true rest = some t' := by
        cases hd : dictLookup [a, b, c] with
        | none => simp [hd] at ht
        | some aa =>
          simp only [hd, Option.map_eq_some_iff] at ht
          obtain ⟨t', ht', _⟩ := ht
          exact ⟨t', ht'⟩
      obtain ⟨t', ht'⟩ := hrest
      have hl : rest.length ≤ n - 3 := by simp only [List.length_cons] at hn; omega
      have := ih (n - 3) (by simp only [List.length_cons] at hn; omega) rest hl t' ht'
      simp only [List.length_cons]; omega

/-- **C04.regions_whole_codons (GenBank)** — every region built from a GenBank feature consists of whole codons -/
theorem genbank_region_mod3 (f : GbFeature) (r : Region) (h : regionFromGenbank f = some r) :
    r.positions.length % 3 = 0 := by
  unfold regionFromGenbank at h
  simp only at h
  split at h
  · cases h
  · rename_i hm
    simp only [Option.some.injEq] at h
    subst h
    simpa using hm

/-- non-vacuity: the shape of the shipped GFF (an unnamed CDS 3..14 with a named child 3..8):
position 10 is covered by no returned region, so it must be — and now is — in the intergenic list -/
example : (regionsFromGFF
      [{ type := "CDS", start := 3, stop := 14, strand := "+", phase := 0, id := some "p", name := none },
       { type := "mature_protein_region_of_CDS", start := 3, stop := 8, strand := "+", phase := 0, id := some "c", name := some "c" }]
      (stringToBytes "AAATGAAACCCGGGTTAA")).map (fun x => (x.1.map (·.name), x.2)) =
    some (["c"], [1, 2, 9, 10, 11, 12, 13, 14, 15, 16, 17, 18]) := by decide +kernel

open Gofasta.Lemmas in
/-- **C04.intergenic** — outside the coding features: exactly the positions with disjoint base sets -/
theorem intergenic (ref q : List Nat) (hl : ref.length = q.length) (hr : OkRow ref) (hq : OkRow q) (inter : List Nat) :
    getNucsPair (ref.map (enc false)) (q.map (enc false)) (refCols (ref.map (enc false))) inter =
      (inter.filter (differsAt ref q)).map (nucRecord ref q) :=
  nucs_spec ref q hl hr hq inter

open Gofasta.Lemmas in
/-- **C04.coding** — inside a coding feature, codon by codon: the call iff the query codon translates unambiguously
(standard code, feature's strand, joined segments in coding order) to a residue other than the annotated one;
otherwise the codon's positions with disjoint base sets -/
theorem coding (ref q : List Nat) (reg : Region) (hl : ref.length = q.length) (hr : OkRow ref) (hq : OkRow q)
    (hv : ValidPositions ref q reg.positions) :
    getAAsPair (ref.map (enc false)) (q.map (enc false)) (refCols (ref.map (enc false))) reg = regionRecords ref q reg :=
  aas_spec ref q reg hl hr hq hv

open Gofasta.Lemmas in
/-- **C04.records_exact** — the reported list, as a set -/
theorem records_exact (ref q : List Nat) (regions : List Region) (inter : List Nat) (hl : ref.length = q.length)
    (hr : OkRow ref) (hq : OkRow q) (hv : ∀ reg ∈ regions, ValidPositions ref q reg.positions) (v : Variant) :
    v ∈ getVariantsPair (ref.map (enc false)) (q.map (enc false)) regions inter ↔
      (v ∈ getIndelsPair (ref.map (enc false)) (q.map (enc false)) ∨
       v ∈ (inter.filter (differsAt ref q)).map (nucRecord ref q) ∨
       ∃ reg ∈ regions, v ∈ regionRecords ref q reg) ∧ ¬ isDel0 v :=
  variants_mem ref q regions inter hl hr hq hv v

open Gofasta.Lemmas in
/-- **C04.aa_call_sound** — every amino-acid record of a codon is a true translation: the query codon's expansions
all give the reported residue, and it differs from the annotated one -/
theorem aa_call_sound (ref q : List Nat) (reg : Region) (k : Nat) (codon : List Nat) (v : Variant)
    (h : aaCall ref q reg k codon = some v) :
    ∃ t, specCodonAA reg.strand (codon.filterMap fun p => (pairAt ref q p).map (·.2)) = some t ∧
      t ≠ reg.translation.getD k 0 ∧ t ≠ 88 ∧ v.queAl = [t] ∧ v.refAl = [reg.translation.getD k 0] ∧
      v.feature = reg.name ∧ v.residue = k + 1 := by
  unfold aaCall at h
  simp only [] at h
  split at h
  · rename_i t ht
    split at h
    · rename_i hne
      cases h
      exact ⟨t, ht, hne, specCodonAA_ne_X _ _ _ ht, rfl, rfl, rfl, rfl⟩
    · cases h
  · cases h

/-- **C04.aa_call_complete** — conversely, a codon whose query translation is unambiguous and differs from the
annotated residue has a call -/
theorem aa_call_complete (ref q : List Nat) (reg : Region) (k : Nat) (codon : List Nat) (t : Nat)
    (ht : specCodonAA reg.strand (codon.filterMap fun p => (pairAt ref q p).map (·.2)) = some t)
    (hne : t ≠ reg.translation.getD k 0) : (aaCall ref q reg k codon).isSome = true := by
  unfold aaCall
  simp only [ht]
  rw [if_pos hne]
  rfl

open Gofasta.Lemmas in
/-- **C04.no_snp_lost (coding)** — every position of a codon with disjoint base sets is mentioned: as its own
`nuc:` record, or inside the SNP list of the codon's amino-acid record -/
theorem codon_mentions_every_snp (ref q : List Nat) (reg : Region) (k : Nat) (codon : List Nat) (p : Nat)
    (hp : p ∈ codon) (hd : differsAt ref q p = true) :
    nucRecord ref q p ∈ codonRecs ref q reg k codon ∨
    ∃ v ∈ codonRecs ref q reg k codon, v.kind = .aa ∧
      ∃ l : List Variant, nucRecord ref q p ∈ l ∧ v.snps = joinWith ";" (l.map fmtNuc) := by
  have hm : nucRecord ref q p ∈ (codon.filter (differsAt ref q)).map (nucRecord ref q) :=
    List.mem_map.2 ⟨p, List.mem_filter.2 ⟨hp, hd⟩, rfl⟩
  unfold codonRecs
  cases h : aaCall ref q reg k codon with
  | none => left; exact hm
  | some v =>
    right
    refine ⟨v, List.mem_cons_self, ?_, (codon.filter (differsAt ref q)).map (nucRecord ref q), hm, ?_⟩
    · unfold aaCall at h
      simp only [] at h
      split at h
      · split at h
        · cases h; rfl
        · cases h
      · cases h
    · unfold aaCall at h
      simp only [] at h
      split at h
      · split at h
        · cases h; rfl
        · cases h
      · cases h

end Gofasta.Props.C04
