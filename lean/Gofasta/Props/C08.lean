import Gofasta.Lemmas.SortSpec
import Gofasta.Lemmas.TopK
import Gofasta.Lemmas.Reorder
import Gofasta.Model.Updown
import Gofasta.Spec.Updown
/-
C08 — updown topranking bins, ranks and limits neighbours exactly as specified.
-/
namespace Gofasta.Props.C08
open Gofasta Base Model Spec

/-- the (distance, ambiguity count) comparator is a strict weak order -/
theorem udLt_swo : SWO udLt := by
  constructor
  · intro a b h
    simp [udLt] at h ⊢
    omega
  · intro a b c h
    simp [udLt] at h ⊢
    omega

/-- **C08.bin_is_prefix** — each bounded per-bin catchment is exactly the first `cap` candidates of the stable
sort by (distance, fewer ambiguities), i.e. by (distance, ambiguities, file order): nothing that belongs in the
prefix is lost at the capacity boundary, whatever the order and tie pattern of the targets -/
theorem bin_is_prefix (cap : Nat) (hc : 0 < cap) (hits : List UDHit) :
    topKG udLt cap hits = (sortStable udLt hits).take cap :=
  topK_spec udLt_swo cap hc hits

/-- the ranking is unique: any permutation of the candidates sorted by (distance, ambiguities) that keeps tied
candidates in file order is the stable sort, so each bin is a prefix of *the* ranking by (distance, ambiguities, file order) -/
theorem bin_is_prefix_of_ranking (cap : Nat) (hc : 0 < cap) (hits ranked : List UDHit)
    (hp : ranked.Perm hits) (hs : Sorted udLt ranked) (hst : ∀ z, ranked.filter (tied udLt z) = hits.filter (tied udLt z)) :
    topKG udLt cap hits = ranked.take cap := by
  rw [bin_is_prefix cap hc hits, sortStable_unique udLt_swo hits ranked hp hs hst]

/-- the direction switch of whichWay: which of the two sequences carries private differences -/
theorem direction_table (q t : UDLine) (n d : Nat) (dir dist : Nat) (h : whichWay q t n d = some (dir, dist)) :
    let w := whichWayTable q t
    (dir = 0 ↔ (w.qOnly = 0 ∧ w.tOnly = 0)) ∧ (dir = 1 ↔ (w.qOnly > 0 ∧ w.tOnly = 0)) ∧
    (dir = 2 ↔ (w.qOnly = 0 ∧ w.tOnly > 0)) ∧ (dir = 3 ↔ (w.qOnly > 0 ∧ w.tOnly > 0)) ∧
    dist = w.d.length + w.dPlus := by
  simp only [whichWay] at h
  split at h
  · cases h
  · simp only [Option.some.injEq, Prod.mk.injEq] at h
    obtain ⟨h1, h2⟩ := h
    subst h2
    refine ⟨?_, ?_, ?_, ?_, rfl⟩ <;> (subst h1; split <;> (try split) <;> (try split) <;> omega)

/-- **C08.threshold_pair** — a pair is dropped exactly when the share of consequential ambiguous sites exceeds
the threshold (compared over naturals: amb/sum > num/den, and never when there is no consequential site) -/
theorem threshold_pair (q t : UDLine) (n d : Nat) :
    whichWay q t n d = none ↔
      (let w := whichWayTable q t
       w.qOnly + w.shared + w.tOnly + w.amb > 0 ∧ w.amb * d > n * (w.qOnly + w.shared + w.tOnly + w.amb)) := by
  simp only [whichWay]
  split <;> simp_all

/-- **C08.no_fill** — with --no-fill every bin gets min(requested, available), for all sizes -/
theorem balance_nofill (total : Nat) (i0 i1 i2 i3 o0 o1 o2 o3 : Nat) :
    balance total [i0, i1, i2, i3] [o0, o1, o2, o3] true = [min o0 i0, min o1 i1, min o2 i2, min o3 i3] := by
  unfold balance
  split
  · rename_i h
    simp [List.range, List.range.loop] at h
    simp [List.range, List.range.loop]
    omega
  · simp [List.range, List.range.loop]

/-- when every bin has at least what was requested, the requested sizes are returned -/
theorem balance_enough (total : Nat) (i0 i1 i2 i3 o0 o1 o2 o3 : Nat) (nofill : Bool)
    (h : i0 ≤ o0 ∧ i1 ≤ o1 ∧ i2 ≤ o2 ∧ i3 ≤ o3) :
    balance total [i0, i1, i2, i3] [o0, o1, o2, o3] nofill = [i0, i1, i2, i3] := by
  unfold balance
  simp [List.range, List.range.loop, h]

/-- **C08.args (size-total split)** — --size-total n is split as n - 3⌊n/4⌋, ⌊n/4⌋, ⌊n/4⌋, ⌊n/4⌋, which sums to n -/
theorem size_total_split (n : Nat) (hn : 0 < n) :
    ∃ sz ds, udCheckArgs n 0 0 0 0 0 0 0 0 0 = some (sz, ds) ∧ sz.sum = n ∧ sz = [n - 3 * (n / 4), n / 4, n / 4, n / 4] := by
  have hpos : (n : Int) > 0 := by omega
  have hne : ¬ ((n : Int) = 0) := by omega
  refine ⟨[n - 3 * (n / 4), n / 4, n / 4, n / 4], [bigN, bigN, bigN, bigN], ?_, ?_, rfl⟩
  · simp only [udCheckArgs]
    simp
    refine ⟨by omega, ?_⟩
    have hdiv : ((n : Int) / 4).toNat = n / 4 := by
      have : ((n : Int) / 4) = ((n / 4 : Nat) : Int) := by omega
      rw [this]; exact Int.toNat_natCast _
    simp [hn, hdiv]
  · simp; omega

/-- **C08.rows_in_query_order** — results are stored by query index -/
theorem rows_in_query_order (rows : Nat → String) (n : Nat) (arrival : List Nat)
    (h : arrival.Perm (List.range n)) :
    Reorder.run (arrival.map fun i => (i, rows i)) = (List.range n).map rows :=
  Reorder.run_perm rows n arrival h

/-- non-vacuity: fill of requested (1,1,1,1) total 4 with supplies (0,3,0,2): extras go to `up` and `side` evenly -/
example : balance 4 [1, 1, 1, 1] [0, 3, 0, 2] false = [0, 2, 0, 2] ∧ balance 4 [1, 1, 1, 1] [0, 3, 0, 2] true = [0, 1, 0, 1] := by
  decide

end Gofasta.Props.C08
