import Gofasta.Model.Snps
import Gofasta.Lemmas.SortSpec
import Gofasta.Model.Variants
/-
C13 — --aggregate frequencies are exactly the per-sequence results, counted.
-/
namespace Gofasta.Props.C13
open Gofasta Model

/-- number of occurrences recorded for a key in the counting map -/
def countOf (k : Snp) (m : List (Snp × Nat)) : Nat :=
  match m.find? (fun e => e.1 == k) with
  | some e => e.2
  | none => 0

theorem countOf_insert_self (k : Snp) : ∀ (m : List (Snp × Nat)), countOf k (countInsert k m) = countOf k m + 1 := by
  intro m
  induction m with
  | nil => simp [countInsert, countOf]
  | cons e t ih =>
    obtain ⟨k', n⟩ := e
    by_cases h : k' = k
    · subst h; simp [countInsert, countOf]
    · have hb : (k' == k) = false := by simpa using h
      simp only [countInsert, h, if_false]
      unfold countOf at ih ⊢
      simp only [List.find?_cons, hb]
      exact ih

theorem countOf_insert_other (k j : Snp) (h : j ≠ k) : ∀ (m : List (Snp × Nat)), countOf j (countInsert k m) = countOf j m := by
  intro m
  induction m with
  | nil =>
    have hb : (k == j) = false := by simpa using (fun e => h e.symm)
    simp [countInsert, countOf, hb]
  | cons e t ih =>
    obtain ⟨k', n⟩ := e
    by_cases hk : k' = k
    · subst hk
      have hb : (k' == j) = false := by simpa using (fun e => h e.symm)
      simp [countInsert, countOf, hb]
    · simp only [countInsert, hk, if_false]
      unfold countOf at ih ⊢
      simp only [List.find?_cons]
      cases hb : (k' == j) with
      | true => rfl
      | false => exact ih

/-- **C13.freq** — after counting the rows of every sequence, the count stored for a mutation is the
number of times it occurs in the per-sequence output (rows are duplicate-free — C03.ascending — so
this is the number of sequences that carry it) -/
theorem count_is_occurrences (k : Snp) : ∀ (ss : List Snp) (m : List (Snp × Nat)),
    countOf k (ss.foldl (fun m s => countInsert s m) m) = countOf k m + ss.count k := by
  intro ss
  induction ss with
  | nil => intro m; simp
  | cons s t ih =>
    intro m
    simp only [List.foldl_cons]
    rw [ih]
    by_cases h : s = k
    · subst h; rw [countOf_insert_self]; simp; omega
    · rw [countOf_insert_other s k (fun e => h e.symm)]
      have : (s == k) = false := by simpa using h
      simp [List.count_cons, this]

theorem countAll_is_occurrences (k : Snp) : ∀ (rows : List (List Snp)) (m : List (Snp × Nat)),
    countOf k (rows.foldl (fun m row => row.foldl (fun m s => countInsert s m) m) m) = countOf k m + (rows.flatten).count k := by
  intro rows
  induction rows with
  | nil => intro m; simp
  | cons r t ih =>
    intro m
    simp only [List.foldl_cons, List.flatten_cons, List.count_append]
    rw [ih, count_is_occurrences]; omega

/-- **C13.threshold_exact** — a mutation is kept exactly when count/total ≥ num/den, equality included
(no rounding: the comparison is over naturals) -/
theorem threshold_exact (cnt total num den : Nat) :
    keepFreq cnt total num den = true ↔ num * total ≤ cnt * den := by
  simp [keepFreq]

/-- a frequency equal to the threshold is kept -/
theorem threshold_equal_kept (k n : Nat) : keepFreq k n k n = true := by
  simp [keepFreq, Nat.mul_comm]

/-- **C13.distinct_once** — inserting never creates a second entry for a key already present -/
theorem insert_keys (k : Snp) : ∀ (m : List (Snp × Nat)),
    (countInsert k m).map (·.1) = if k ∈ m.map (·.1) then m.map (·.1) else m.map (·.1) ++ [k] := by
  intro m
  induction m with
  | nil => simp [countInsert]
  | cons e t ih =>
    obtain ⟨k', n⟩ := e
    by_cases h : k' = k
    · subst h; simp [countInsert]
    · simp only [countInsert, h, if_false, List.map_cons, ih, List.mem_cons]
      have hne : ¬ (k = k') := fun e => h e.symm
      simp only [hne, false_or]
      split <;> simp

/-- non-vacuity: two of three rows carry (2,C,T) -/
example : countOf (2, 67, 84) (countAll [[(2, 67, 84)], [(1, 65, 71), (2, 67, 84)], []]) = 2 := by decide

/-- the aggregate comparator (position, then query allele) is a strict weak order -/
theorem snpLt_swo : SWO snpLt := by
  constructor
  · intro a b h
    simp only [snpLt, Bool.or_eq_true, decide_eq_true_eq, Bool.and_eq_true, beq_iff_eq] at h
    simp only [snpLt, Bool.or_eq_false_iff, decide_eq_false_iff_not, Bool.and_eq_false_iff, beq_eq_false_iff_ne]
    omega
  · intro a b c h
    simp only [snpLt, Bool.or_eq_true, decide_eq_true_eq, Bool.and_eq_true, beq_iff_eq] at h ⊢
    omega

/-- **C13.ordered_by_position** — the rows of the aggregate table are ordered by genomic position (then allele),
whatever order the counting map was built in; the threshold filter only removes rows -/
theorem aggregate_sorted (m : List (Snp × Nat)) (keep : Snp × Nat → Bool) :
    Sorted snpLt ((sortStable snpLt m).filter keep) :=
  List.Pairwise.filter _ (sorted_sortStable snpLt_swo m)

/-- and nothing is lost or invented by the ordering step: the table is a permutation of the counting map -/
theorem aggregate_perm (m : List (Snp × Nat)) : (sortStable snpLt m).Perm m := sortStable_perm m

end Gofasta.Props.C13
