import Gofasta.Model.Snps
import Gofasta.Props.C03
import Gofasta.Lemmas.SortSpec
import Gofasta.Model.Variants
/-
C13 — --aggregate frequencies are exactly the per-sequence results, counted.
-/
namespace Gofasta.Props.C13
open Gofasta Model

/-- number of occurrences recorded for a key in the counting map -/
def countOf (k : Snp) (m : List (Snp × Nat)) : Nat :=
  match m.find? (fun e => e.1 == k) with
  | some e => e.2
  | none => 0

theorem countOf_insert_self (k : Snp) : ∀ (m : List (Snp × Nat)), countOf k (countInsert k m) = countOf k m + 1 := by
  intro m
  induction m with
  | nil => simp [countInsert, countOf]
  | cons e t ih =>
    obtain ⟨k', n⟩ := e
    by_cases h : k' = k
    · subst h; simp [countInsert, countOf]
    · have hb : (k' == k) = false := by simpa using h
      simp only [countInsert, h, if_false]
      unfold countOf at ih ⊢
      simp only [List.find?_cons, hb]
      exact ih

theorem countOf_insert_other (k j : Snp) (h : j ≠ k) : ∀ (m : List (Snp × Nat)), countOf j (countInsert k m) = countOf j m := by
  intro m
  induction m with
  | nil =>
    have hb : (k == j) = false := by simpa using (fun e => h e.symm)
    simp [countInsert, countOf, hb]
  | cons e t ih =>
    obtain ⟨k', n⟩ := e
    by_cases hk : k' = k
    · subst hk
      have hb : (k' == j) = false := by simpa using (fun e => h e.symm)
      simp [countInsert, countOf, hb]
    · simp only [countInsert, hk, if_false]
      unfold countOf at ih ⊢
      simp only [List.find?_cons]
      cases hb : (k' == j) with
      | true => rfl
      | false => exact ih

/-- **C13.freq** — after counting the rows of every sequence, the count stored for a mutation is the
number of times it occurs in the per-sequence output (rows are duplicate-free — C03.ascending — so
this is the number of sequences that carry it) -/
theorem count_is_occurrences (k : Snp) : ∀ (ss : List Snp) (m : List (Snp × Nat)),
    countOf k (ss.foldl (fun m s => countInsert s m) m) = countOf k m + ss.count k := by
  intro ss
  induction ss with
  | nil => intro m; simp
  | cons s t ih =>
    intro m
    simp only [List.foldl_cons]
    rw [ih]
    by_cases h : s = k
    · subst h; rw [countOf_insert_self]; simp; omega
    · rw [countOf_insert_other s k (fun e => h e.symm)]
      have : (s == k) = false := by simpa using h
      simp [List.count_cons, this]

theorem countAll_is_occurrences (k : Snp) : ∀ (rows : List (List Snp)) (m : List (Snp × Nat)),
    countOf k (rows.foldl (fun m row => row.foldl (fun m s => countInsert s m) m) m) = countOf k m + (rows.flatten).count k := by
  intro rows
  induction rows with
  | nil => intro m; simp
  | cons r t ih =>
    intro m
    simp only [List.foldl_cons, List.flatten_cons, List.count_append]
    rw [ih, count_is_occurrences]; omega

/-- **C13.threshold_exact** — a mutation is kept exactly when count/total ≥ num/den, equality included
(no rounding: the comparison is over naturals) -/
theorem threshold_exact (cnt total num den : Nat) :
    keepFreq cnt total num den = true ↔ num * total ≤ cnt * den := by
  simp [keepFreq]

/-- a frequency equal to the threshold is kept -/
theorem threshold_equal_kept (k n : Nat) : keepFreq k n k n = true := by
  simp [keepFreq, Nat.mul_comm]

/-- **C13.distinct_once** — inserting never creates a second entry for a key already present -/
theorem insert_keys (k : Snp) : ∀ (m : List (Snp × Nat)),
    (countInsert k m).map (·.1) = if k ∈ m.map (·.1) then m.map (·.1) else m.map (·.1) ++ [k] := by
  intro m
  induction m with
  | nil => simp [countInsert]
  | cons e t ih =>
    obtain ⟨k', n⟩ := e
    by_cases h : k' = k
    · subst h; simp [countInsert]
    · simp only [countInsert, h, if_false, List.map_cons, ih, List.mem_cons]
      have hne : ¬ (k = k') := fun e => h e.symm
      simp only [hne, false_or]
      split <;> simp

/-- non-vacuity: two of three rows carry (2,C,T) -/
example : countOf (2, 67, 84) (countAll [[(2, 67, 84)], [(1, 65, 71), (2, 67, 84)], []]) = 2 := by decide

/-- a row whose positions are strictly ascending mentions a mutation at most once -/
theorem count_le_one_of_ascending (k : Snp) : ∀ (row : List Snp), (row.map (·.1)).Pairwise (· < ·) →
    row.count k = if k ∈ row then 1 else 0 := by
  intro row
  induction row with
  | nil => intro _; simp
  | cons s t ih =>
    intro h
    simp only [List.map_cons, List.pairwise_cons] at h
    have iht := ih h.2
    by_cases hs : s = k
    · subst hs
      have hnot : s ∉ t := by
        intro hm
        have := h.1 s.1 (List.mem_map.2 ⟨s, hm, rfl⟩)
        omega
      simp [List.count_cons, iht, hnot]
    · have h1 : (s == k) = false := by simpa using hs
      have h2 : (k ∈ s :: t) ↔ k ∈ t := by
        simp only [List.mem_cons]
        constructor
        · rintro (h | h)
          · exact absurd h.symm hs
          · exact h
        · exact Or.inr
      simp only [List.count_cons, h1, iht, h2]
      simp

theorem count_flatten (k : Snp) : ∀ (rows : List (List Snp)), (∀ r ∈ rows, (r.map (·.1)).Pairwise (· < ·)) →
    (rows.flatten).count k = (rows.filter fun r => r.contains k).length := by
  intro rows
  induction rows with
  | nil => intro _; rfl
  | cons r t ih =>
    intro h
    simp only [List.flatten_cons, List.count_append, List.filter_cons]
    rw [ih (fun x hx => h x (List.mem_cons_of_mem _ hx)), count_le_one_of_ascending k r (h r (List.mem_cons_self))]
    by_cases hk : k ∈ r
    · have : r.contains k = true := by simpa using hk
      simp [hk, this]; omega
    · have : r.contains k = false := by simpa using hk
      simp [hk, this]

/-- **C13.matches_per_sequence (snps)** — the count behind a frequency is the number of query sequences whose
per-sequence row contains the mutation: for every reference and every alignment over the accepted alphabet -/
theorem snps_count_is_sequences (hard : Bool) (ref : List Nat) (qs : List (List Nat)) (k : Snp)
    (hr : C03.Accepted hard ref) (hq : ∀ q ∈ qs, C03.Accepted hard q) :
    countOf k (countAll (qs.map fun q => snpsRow hard ref q)) =
      ((qs.map fun q => snpsRow hard ref q).filter fun row => row.contains k).length := by
  unfold countAll
  rw [countAll_is_occurrences k _ []]
  have h0 : countOf k [] = 0 := rfl
  rw [h0, Nat.zero_add]
  apply count_flatten
  intro r hrm
  obtain ⟨q, hqm, rfl⟩ := List.mem_map.1 hrm
  exact C03.ascending hard ref q hr (hq q hqm)

/-- the aggregate comparator (position, then query allele) is a strict weak order -/
theorem snpLt_swo : SWO snpLt := by
  constructor
  · intro a b h
    simp only [snpLt, Bool.or_eq_true, decide_eq_true_eq, Bool.and_eq_true, beq_iff_eq] at h
    simp only [snpLt, Bool.or_eq_false_iff, decide_eq_false_iff_not, Bool.and_eq_false_iff, beq_eq_false_iff_ne]
    omega
  · intro a b c h
    simp only [snpLt, Bool.or_eq_true, decide_eq_true_eq, Bool.and_eq_true, beq_iff_eq] at h ⊢
    omega

/-- **C13.ordered_by_position** — the rows of the aggregate table are ordered by genomic position (then allele),
whatever order the counting map was built in; the threshold filter only removes rows -/
theorem aggregate_sorted (m : List (Snp × Nat)) (keep : Snp × Nat → Bool) :
    Sorted snpLt ((sortStable snpLt m).filter keep) :=
  List.Pairwise.filter _ (sorted_sortStable snpLt_swo m)

/-- and nothing is lost or invented by the ordering step: the table is a permutation of the counting map -/
theorem aggregate_perm (m : List (Snp × Nat)) : (sortStable snpLt m).Perm m := sortStable_perm m

end Gofasta.Props.C13
