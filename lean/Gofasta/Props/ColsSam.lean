import Gofasta.Gen.ColsSam
import Gofasta.Model.Sam
/-
The per-column code of the comparison loops, regenerated from the Go source on every run by the go/ast translator
`cols.go` (harness) into `Gen/Cols.lean`: for `rawDistance`, `snpDistance`, `tn93Distance` the whole loop body as a
function from the two column codes to the counter increments; for the loops that collect mutations (`snps.getSNPs`,
`updown` `getLines`, `variants` `getNucsPair` / `getAAsPair`, `closest.findClosest`) the condition under which a column is
appended. The theorems below say, for ALL natural numbers (no bound on the codes), that the generated functions are the
model's column tests, and that the model's counting loops are folds of the generated steps - so the counting loops of the
model are the source's loops, not a hand copy of them. A change of any of these conditions or increments in the source
changes the generated definitions and breaks an obligation here.
-/
namespace Gofasta.Props.Cols
open Gofasta Gofasta.Model Gofasta.Gen.Cols

/-- `sam.checkArgs` (the window check of toMultiAlign and toPairAlign), translated statement by statement from the source:
it refuses exactly the windows the model refuses and otherwise returns the model's (start, end, trim) -/
theorem checkArgs_translated (L : Nat) (s e : Int) :
    sam_checkArgs (L : Int) s e = (Model.checkArgs L s e).map fun r => ((r.1 : Int), (r.2.1 : Int), r.2.2) := by
  unfold sam_checkArgs Model.checkArgs
  by_cases hs : s = -1 <;> by_cases he : e = -1 <;> simp only [hs, he, decide_true, decide_false, if_true, if_false,
    Bool.false_eq_true, bne_self_eq_false, Bool.or_false, Bool.false_or]
  all_goals (repeat' split) <;> simp_all <;> omega


/-- which SAM records the two readers skip (unmapped: bit 4; secondary: bit 256), translated from the source: the model's
`isSkipped` on the record's flag, for every flag value -/
theorem sam_skip (r : SamRec) :
    (sam_groupSamRecords r.flag).any id = isSkipped r ∧ (indels_getSamRecords r.flag).any id = isSkipped r := by
  have h2 : ∀ n : Nat, (n >>> 2) &&& 1 = (n / 4) % 2 := by
    intro n; rw [Nat.shiftRight_eq_div_pow, Nat.and_one_is_mod]
  have h8 : ∀ n : Nat, (n >>> 8) &&& 1 = (n / 256) % 2 := by
    intro n; rw [Nat.shiftRight_eq_div_pow, Nat.and_one_is_mod]
  simp [sam_groupSamRecords, indels_getSamRecords, isSkipped, h2, h8]


end Gofasta.Props.Cols
