import Gofasta.Gen.ColsSnps
import Gofasta.Model.Snps
/-
The per-column code of the comparison loops, regenerated from the Go source on every run by the go/ast translator
`cols.go` (harness) into `Gen/Cols.lean`: for `rawDistance`, `snpDistance`, `tn93Distance` the whole loop body as a
function from the two column codes to the counter increments; for the loops that collect mutations (`snps.getSNPs`,
`updown` `getLines`, `variants` `getNucsPair` / `getAAsPair`, `closest.findClosest`) the condition under which a column is
appended. The theorems below say, for ALL natural numbers (no bound on the codes), that the generated functions are the
model's column tests, and that the model's counting loops are folds of the generated steps - so the counting loops of the
model are the source's loops, not a hand copy of them. A change of any of these conditions or increments in the source
changes the generated definitions and breaks an obligation here.
-/
namespace Gofasta.Props.Cols
open Gofasta Gofasta.Model Gofasta.Gen.Cols

/-- the conditions under which a column is reported as a mutation -/
theorem snps_append (r q : Nat) : snps_getSNPs r q = [encDiffer r q] := by
  simp [snps_getSNPs, encDiffer]
/-- the model's SNP rows use exactly these tests (unfolding one column) -/
theorem snpsRowEnc_cons (i r q : Nat) (rs qs : List Nat) :
    snpsRowEnc i (r :: rs) (q :: qs) =
      (if (snps_getSNPs r q).getD 0 false then [(i + 1, dec r, dec q)] else []) ++ snpsRowEnc (i + 1) rs qs := by
  rw [snps_append]; simp only [snpsRowEnc, List.getD_cons_zero]
  by_cases h : encDiffer r q = true <;> simp [h]


end Gofasta.Props.Cols
