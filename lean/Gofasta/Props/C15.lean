import Gofasta.Model.Sam
import Gofasta.Model.Variants
import Gofasta.Spec.Sam
/-
C15 — windowing, padding, wrapping and input-channel options only select or re-lay-out.
-/
namespace Gofasta.Props.C15
open Gofasta Model Spec

/-- **C15.toma_window** — `--start s --end e` (no --pad) is columns s..e of the untrimmed row -/
theorem toma_window (raw : List Nat) (s e : Nat) :
    fastaRecordSeq raw true false s e = ((fastaRecordSeq raw false false s e).drop (s - 1)).take (e - (s - 1)) := rfl

/-- **C15.toma_window_pad** — with --pad it is the untrimmed --pad row with everything outside s..e set to 'N' -/
theorem toma_window_pad (raw : List Nat) (s e : Nat) :
    fastaRecordSeq raw true true s e =
      ((fastaRecordSeq raw false true s e).zip (List.range (fastaRecordSeq raw false true s e).length)).map
        fun (b, i) => if i < s - 1 ∨ i ≥ e then letN else b := rfl

theorem window_pad_length (raw : List Nat) (s e : Nat) : (fastaRecordSeq raw true true s e).length = raw.length := by
  simp [fastaRecordSeq, swapInNs]

/-- the flag reconciliation of cmd/samtoma.go: --trimstart a --trimend b (0-based, half open) -/
def legacyToNew (trimstart trimend : Int) : Int × Int :=
  ((if trimstart != -1 then trimstart + 1 else -1), (if trimend != -1 then trimend else -1))

/-- **C15.legacy_flags** — the half-open 0-based window [a, b) is the 1-based inclusive window a+1 .. b -/
theorem legacy_flags (a b : Int) (ha : 0 ≤ a) (hb : 0 ≤ b) : legacyToNew a b = (a + 1, b) := by
  unfold legacyToNew
  have h1 : (a != -1) = true := by simp; omega
  have h2 : (b != -1) = true := by simp; omega
  simp [h1, h2]

/-- **C15.wrap (content)** — wrapping only re-breaks: the lines concatenate back to the sequence -/
theorem chunk_flatten (w : Nat) : ∀ (n : Nat) (s : List Nat), s.length ≤ n → (chunk w s).flatten = s := by
  intro n
  induction n with
  | zero =>
    intro s hs
    have : s = [] := by cases s <;> simp_all
    subst this
    rw [chunk]; simp
  | succ n ih =>
    intro s hs
    rw [chunk]
    split
    · rename_i h
      split
      · rename_i h2; simp [h2]
      · simp
    · rename_i h
      have hw : 0 < w := by omega
      have hne : s ≠ [] := fun e => h (Or.inr e)
      have hlen : (s.drop w).length ≤ n := by
        have : 0 < s.length := by cases s with | nil => exact absurd rfl hne | cons _ _ => simp
        simp [List.length_drop]; omega
      simp only [List.flatten_cons]
      rw [ih (s.drop w) hlen, List.take_append_drop]

/-- **C15.wrap (line widths)** — every line but the last has exactly w characters, none is empty -/
theorem chunk_widths (w : Nat) (hw : 0 < w) : ∀ (n : Nat) (s : List Nat), s.length ≤ n →
    (∀ l ∈ chunk w s, 0 < l.length ∧ l.length ≤ w) ∧ (∀ l ∈ (chunk w s).dropLast, l.length = w) := by
  intro n
  induction n with
  | zero =>
    intro s hs
    have : s = [] := by cases s <;> simp_all
    subst this
    rw [chunk]; simp
  | succ n ih =>
    intro s hs
    rw [chunk]
    split
    · rename_i h
      have hs0 : s = [] := by rcases h with h | h; omega; exact h
      simp [hs0]
    · rename_i h
      have hne : s ≠ [] := fun e => h (Or.inr e)
      have hpos : 0 < s.length := by cases s with | nil => exact absurd rfl hne | cons _ _ => simp
      have hlen : (s.drop w).length ≤ n := by simp [List.length_drop]; omega
      obtain ⟨i1, i2⟩ := ih (s.drop w) hlen
      constructor
      · intro l hl
        rcases List.mem_cons.1 hl with rfl | hl
        · simp [List.length_take]; omega
        · exact i1 l hl
      · intro l hl
        cases hc : chunk w (s.drop w) with
        | nil => simp [hc] at hl
        | cons c cs =>
          rw [hc] at hl
          simp only [List.dropLast_cons₂] at hl
          rcases List.mem_cons.1 hl with rfl | hl'
          · -- the head is a full line because something follows it
            have : (s.drop w) ≠ [] := by
              intro e; rw [e, chunk] at hc; simp at hc
            have hlt : w < s.length := by
              apply Nat.lt_of_not_le
              intro hcon
              exact this (List.drop_eq_nil_of_le hcon)
            simp [List.length_take]; omega
          · exact i2 l (by rw [hc]; exact hl')

/-- **C15.variants_window** — `--start s` and `--end e`, alone or together, keep exactly the mutations whose
position p satisfies s ≤ p and p ≤ e; an absent bound (≤ 0) is no constraint -/
theorem variants_window (start stop : Int) (v : Variant) :
    inWindow start stop v = true ↔ (start ≤ 0 ∨ start ≤ v.pos) ∧ (stop ≤ 0 ∨ v.pos ≤ stop) := by
  unfold inWindow
  simp only [Bool.not_eq_true', Bool.or_eq_false_iff, Bool.and_eq_false_iff, decide_eq_false_iff_not]
  omega

/-- the filter is applied record by record: the windowed line is the filtered line -/
theorem variants_line_filter (appendSnp : Bool) (start stop : Int) (name : String) (vs : List Variant) :
    variantsLine appendSnp start stop name vs = variantsLine appendSnp (-1) (-1) name (vs.filter (inWindow start stop)) := by
  unfold variantsLine
  congr 3
  rw [List.filter_filter]
  have hf : (fun a => inWindow (-1) (-1) a && inWindow start stop a) = inWindow start stop := by
    funext v; simp [inWindow]
  rw [hf]

/-- the columns of the reference bases, as the model and as the specification list them -/
theorem refBaseCols_eq (r : List Nat) : ∀ (l : List (Nat × Nat)),
    (l.filterMap fun (b, i) => if b != dash then some i else none) = (l.filter fun (b, _) => b != dash).map (·.2) := by
  intro l
  induction l with
  | nil => rfl
  | cons x t ih =>
    obtain ⟨b, i⟩ := x
    simp only [List.filterMap_cons, List.filter_cons]
    by_cases h : (b != dash) = true
    · simp only [h, if_true, List.map_cons]; rw [ih]
    · simp only [h, Bool.false_eq_true, if_false]; rw [ih]

/-- **C15.topa_window** — `sam toPairAlign --start s --end e` is the untrimmed pair cut from the column of reference
base s to the column of reference base e (inclusive), for every gapped pair and every window inside the reference -/
theorem topa_window (p : List Nat × List Nat) (s e : Nat)
    (hs : s - 1 < ((p.1.zip (List.range p.1.length)).filter fun (b, _) => b != dash).length)
    (he : e - 1 < ((p.1.zip (List.range p.1.length)).filter fun (b, _) => b != dash).length) :
    trimPair p s e = specTrimPair p s e := by
  unfold trimPair specTrimPair
  simp only []
  rw [refBaseCols_eq p.1]
  generalize hidx : ((p.1.zip (List.range p.1.length)).filter fun (b, _) => b != dash) = idx at *
  have h1 : idx[s - 1]? = some idx[s - 1] := List.getElem?_eq_getElem hs
  have h2 : idx[e - 1]? = some idx[e - 1] := List.getElem?_eq_getElem he
  rw [h1, h2]
  simp only [List.getD_eq_getElem?_getD, List.getElem?_map, h1, h2, Option.map_some, Option.getD_some]

/-- non-vacuity: 10 characters in lines of 4 -/
example : chunk 4 [1, 2, 3, 4, 5, 6, 7, 8, 9, 10] = [[1, 2, 3, 4], [5, 6, 7, 8], [9, 10]] := by
  simp [chunk]

end Gofasta.Props.C15
