import Gofasta.Lemmas.Reorder
import Gofasta.Model.Updown
/-
C09 — updown topranking gives identical results for CSV and FASTA inputs.
The CSV text layer (encoding/csv, strconv) is not modelled: what both routes hand to the ranking
core is a record (id, SNP list, ambiguity tracts, ambiguity count); the real four-way comparison on
the same data is run by the correspondence stream. Proved here: the ranking depends on nothing else,
and results are placed by query index.
-/
namespace Gofasta.Props.C09
open Gofasta Model

/-- the fields of a record that topranking reads -/
def coreFields (l : UDLine) : String × List Snp × List (Nat × Nat) × Nat := (l.id, l.snps, l.ambs, l.ambCount)

/-- **C09.same_fields_same_result** — two records that agree on (id, SNPs, tracts, ambcount) are interchangeable
as targets: the SNP count column and anything else a reader might set differently is never read -/
theorem whichWay_core (q t t' : UDLine) (n d : Nat) (h : coreFields t = coreFields t') :
    whichWay q t n d = whichWay q t' n d := by
  simp only [coreFields, Prod.mk.injEq] at h
  obtain ⟨_, h2, h3, _⟩ := h
  simp [whichWay, whichWayTable, h2, h3]

/-- **C09.query_index** — one output row per query, in query-file order: the result array is written by
query index, so the rows come out in file order whatever order the per-query workers finish in -/
theorem rows_by_query_index (rows : Nat → String) (n : Nat) (arrival : List Nat)
    (h : arrival.Perm (List.range n)) :
    Reorder.run (arrival.map fun i => (i, rows i)) = (List.range n).map rows :=
  Reorder.run_perm rows n arrival h

/-- the defect that was repaired: if every query carried index 0 (as the CSV list reader produced), the slots
1..m-1 would never be written; with distinct indices 0..m-1 every slot is written exactly once -/
theorem distinct_indices_needed : Reorder.run [(0, "a"), (0, "b")] = ["a"] ∧ Reorder.run [(0, "a"), (1, "b")] = ["a", "b"] := by
  decide

end Gofasta.Props.C09
