import Gofasta.Lemmas.Reorder
import Gofasta.Model.Updown
import Gofasta.Lemmas.CsvRoundTrip
/-
C09 — updown topranking gives identical results for CSV and FASTA inputs.
What both routes hand to the ranking core is a record (id, SNP list, ambiguity tracts, ambiguity count). Proved
here: the CSV text layer is a faithful channel for it (`csv_roundtrip`: rendering by `updown list`, Go's encoding/csv
reader with default settings as a byte machine, getAmbArr, strconv.Atoi — `Model/Csv`, `Lemmas/CsvRoundTrip`), the
ranking depends on nothing else, and results are placed by query index. The real four-way comparison on the same data
is run by the correspondence stream; stream C09csv ties the CSV model to the real writer and readers.
-/
namespace Gofasta.Props.C09
open Gofasta Model

/-- the fields of a record that topranking reads -/
def coreFields (l : UDLine) : String × List Snp × List (Nat × Nat) × Nat := (l.id, l.snps, l.ambs, l.ambCount)

/-- **C09.same_fields_same_result** — two records that agree on (id, SNPs, tracts, ambcount) are interchangeable
as targets: the SNP count column and anything else a reader might set differently is never read -/
theorem whichWay_core (q t t' : UDLine) (n d : Nat) (h : coreFields t = coreFields t') :
    whichWay q t n d = whichWay q t' n d := by
  simp only [coreFields, Prod.mk.injEq] at h
  obtain ⟨_, h2, h3, _⟩ := h
  simp [whichWay, whichWayTable, h2, h3]

/-- **C09.query_index** — one output row per query, in query-file order: the result array is written by
query index, so the rows come out in file order whatever order the per-query workers finish in -/
theorem rows_by_query_index (rows : Nat → String) (n : Nat) (arrival : List Nat)
    (h : arrival.Perm (List.range n)) :
    Reorder.run (arrival.map fun i => (i, rows i)) = (List.range n).map rows :=
  Reorder.run_perm rows n arrival h

/-- the defect that was repaired: if every query carried index 0 (as the CSV list reader produced), the slots
1..m-1 would never be written; with distinct indices 0..m-1 every slot is written exactly once -/
theorem distinct_indices_needed : Reorder.run [(0, "a"), (0, "b")] = ["a"] ∧ Reorder.run [(0, "a"), (1, "b")] = ["a", "b"] := by
  decide

open Gofasta.Model.Csv Gofasta.Lemmas.CsvRT in
/-- **C09.csv_roundtrip** — for every list of rows `updown list` can write (positions and counts within int, SNP
symbols that are not delimiters, IDs of any bytes but line breaks — commas and double quotes included), reading the
CSV back gives exactly the IDs, SNP strings, SNP positions, ambiguity ranges and ambiguity counts that were written,
in order: the CSV route hands the ranking core the same records as the FASTA route -/
theorem csv_roundtrip (rows : List (Bytes × UDLine)) (h : ∀ r ∈ rows, RowOk r.1 r.2) :
    readUDL (fileB rows) = .ok (rows.map fun r => expected r.1 r.2) :=
  Gofasta.Lemmas.CsvRT.csv_roundtrip rows h

open Gofasta.Model.Csv Gofasta.Lemmas.CsvRT in
/-- non-vacuity: an ID with a comma and a double quote, two SNPs, a one-column and a longer ambiguity range -/
example : RowOk ("t\"1,z".toList.map Char.toNat)
    { id := "x", snps := [(10, 67, 65), (245, 71, 84)], ambs := [(3, 3), (7, 12)], snpCount := 2, ambCount := 7 } := by
  refine ⟨by decide, ?_, ?_, by decide⟩
  · intro s hs
    simp only [List.mem_cons, List.not_mem_nil, or_false] at hs
    rcases hs with rfl | rfl <;> exact ⟨by decide, ⟨by decide, by decide, by decide, by decide, by decide⟩, ⟨by decide, by decide, by decide, by decide, by decide⟩⟩
  · intro a ha
    simp only [List.mem_cons, List.not_mem_nil, or_false] at ha
    rcases ha with rfl | rfl <;> exact ⟨by decide, by decide⟩

end Gofasta.Props.C09
