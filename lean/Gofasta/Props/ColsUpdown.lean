import Gofasta.Gen.ColsUpdown
import Gofasta.Model.Updown
/-
The per-column code of the comparison loops, regenerated from the Go source on every run by the go/ast translator
`cols.go` (harness) into `Gen/Cols.lean`: for `rawDistance`, `snpDistance`, `tn93Distance` the whole loop body as a
function from the two column codes to the counter increments; for the loops that collect mutations (`snps.getSNPs`,
`updown` `getLines`, `variants` `getNucsPair` / `getAAsPair`, `closest.findClosest`) the condition under which a column is
appended. The theorems below say, for ALL natural numbers (no bound on the codes), that the generated functions are the
model's column tests, and that the model's counting loops are folds of the generated steps - so the counting loops of the
model are the source's loops, not a hand copy of them. A change of any of these conditions or increments in the source
changes the generated definitions and breaks an obligation here.
-/
namespace Gofasta.Props.Cols
open Gofasta Gofasta.Model Gofasta.Gen.Cols

theorem updown_append (r q : Nat) : input_getLines r q = [encResolved q && encDiffer r q] := by
  simp [input_getLines, encDiffer, encResolved]

end Gofasta.Props.Cols
