import Gofasta.Model.Regions
/-
C14 — GenBank and GFF3 descriptions of the same genes give the same mutations.
What is proved: the ordered position list (hence the codon structure and every position-derived
field of a mutation) and the strand of the region built from a GenBank location equal those of the
region built from the GFF3-conformant rows of the same gene. The amino-acid strings agree when the
GenBank /translation is the translation of ORIGIN (an input assumption; see DESIGN §C14).
-/
namespace Gofasta.Props.C14
open Gofasta Model

/-! ### the five location shapes -/

theorem pos_range (a b : Nat) : locPositions .range [(a, b)] = rangeUp a b := by simp [locPositions]

theorem pos_join (segs : List (Nat × Nat)) : locPositions .join segs = segs.flatMap fun s => rangeUp s.1 s.2 := rfl

theorem pos_comp (a b : Nat) : locPositions .comp [(a, b)] = (rangeUp a b).reverse := by simp [locPositions]

/-- complement(join(s₁,…,sₙ)) (segments written ascending) = the reverse of the forward positions -/
theorem pos_compJoin (segs : List (Nat × Nat)) :
    locPositions .compJoin segs = (locPositions .join segs).reverse := rfl

/-- join(complement(sₙ),…,complement(s₁)) (segments written in coding order) lists the same positions as
complement(join(s₁,…,sₙ)) -/
theorem pos_joinComp_eq_compJoin (segs : List (Nat × Nat)) :
    locPositions .joinComp segs.reverse = locPositions .compJoin segs := by
  simp only [locPositions]
  induction segs with
  | nil => rfl
  | cons s t ih =>
    simp only [List.reverse_cons, List.flatMap_append, List.flatMap_cons, List.flatMap_nil, List.append_nil,
      List.reverse_append]
    rw [ih]

theorem map_succ_range' : ∀ (n s : Nat), List.map Nat.succ (List.range' s n) = List.range' (s + 1) n
  | 0, _ => rfl
  | n + 1, s => by simp [List.range'_succ, map_succ_range' n (s + 1)]

theorem take_range'_le : ∀ (m n a : Nat), m ≤ n → List.take m (List.range' a n) = List.range' a m
  | 0, _, _, _ => by simp
  | m + 1, 0, _, h => by omega
  | m + 1, n + 1, a, h => by
    simp only [List.range'_succ, List.take_succ_cons]
    rw [take_range'_le m n (a + 1) (by omega)]

theorem rangeUp_length (a b : Nat) : (rangeUp a b).length = b + 1 - a := by simp [rangeUp]

theorem drop_rangeUp (a b k : Nat) : (rangeUp a b).drop k = rangeUp (a + k) b := by
  unfold rangeUp
  rw [List.drop_range']
  congr 1 <;> omega

/-! ### forward strand: a gene with segments s₀ … sₙ (ascending), first codon starting k bases in -/

/-- the GFF3 rows of a forward gene: ascending, the first row's phase is k, continuation rows carry
their own (conformant, possibly non-zero) phases -/
def contRow (name : String) (x : (Nat × Nat) × Nat) : GffRow :=
  { type := "CDS", start := x.1.1, stop := x.1.2, strand := "+", phase := x.2, id := some ("cds-" ++ name), name := some name }

def fwdRows (name : String) (k : Nat) (s0 : Nat × Nat) (rest : List ((Nat × Nat) × Nat)) : List GffRow :=
  contRow name (s0, k) :: rest.map (contRow name)

def fwdPositionsGff (rows : List GffRow) : List Nat :=
  (rows.zip (List.range rows.length)).flatMap fun (r, j) => rangeUp (if j = 0 then r.start + r.phase else r.start) r.stop

theorem zip_range_succ_flatMap (f : GffRow → Nat → List Nat) (g : GffRow → List Nat) :
    ∀ (l : List GffRow) (s : Nat), (∀ r j, 0 < j → f r j = g r) → 0 < s →
    (l.zip (List.range' s l.length)).flatMap (fun p => f p.1 p.2) = l.flatMap g := by
  intro l
  induction l with
  | nil => intro s _ _; rfl
  | cons r t ih =>
    intro s hf hs
    simp only [List.length_cons, List.range'_succ, List.zip_cons_cons, List.flatMap_cons]
    rw [hf r s hs, ih (s + 1) hf (by omega)]

/-- **C14.region_equiv (forward)** — for a forward gene whose first codon starts k bases into the first
segment, whatever phases the continuation rows carry, the positions taken from the GFF rows equal the
positions taken from the GenBank location with /codon_start = k+1 -/
theorem positions_equiv_forward (name : String) (k : Nat) (s0 : Nat × Nat) (rest : List ((Nat × Nat) × Nat))
    (hk : k ≤ s0.2 + 1 - s0.1) :
    fwdPositionsGff (fwdRows name k s0 rest) =
      (locPositions .join (s0 :: rest.map (·.1))).drop k := by
  unfold fwdPositionsGff fwdRows locPositions
  simp only [List.length_cons, List.length_map, List.flatMap_cons]
  rw [List.range_succ_eq_map, List.zip_cons_cons, List.flatMap_cons]
  simp only [if_true, contRow]
  rw [List.drop_append_of_le_length (by rw [rangeUp_length]; exact hk), drop_rangeUp]
  congr 1
  -- continuation rows: index j ≥ 1, so no phase is stripped
  have h := zip_range_succ_flatMap
    (fun r j => rangeUp (if j = 0 then r.start + r.phase else r.start) r.stop)
    (fun r => rangeUp r.start r.stop) (rest.map (contRow name)) 1
    (by intro r j hj; have : j ≠ 0 := by omega
        simp [this]) (by omega)
  simp only [List.length_map] at h
  have hr : List.map Nat.succ (List.range rest.length) = List.range' 1 rest.length := by
    rw [List.range_eq_range', map_succ_range']
  rw [hr]
  have h' : (fun (x : GffRow × Nat) => rangeUp (if x.2 = 0 then x.1.start + x.1.phase else x.1.start) x.1.stop) =
      (fun p => (fun r j => rangeUp (if j = 0 then r.start + r.phase else r.start) r.stop) p.1 p.2) := rfl
  show List.flatMap (fun (x : GffRow × Nat) => rangeUp (if x.2 = 0 then x.1.start + x.1.phase else x.1.start) x.1.stop)
      ((rest.map (contRow name)).zip (List.range' 1 rest.length)) = _
  rw [h', h]
  simp [List.flatMap_map, contRow]

/-! ### reverse strand, single segment -/

/-- **C14.region_equiv (reverse, single segment)** — complement(a..b) with /codon_start = k+1 and the GFF row
(a, b, '-', phase k) give the same positions -/
theorem positions_equiv_reverse_single (a b k : Nat) (hk : k ≤ b) :
    (rangeUp a (b - k)).reverse = ((rangeUp a b).reverse).drop k := by
  unfold rangeUp
  rw [List.drop_reverse, List.length_range', take_range'_le _ _ _ (by omega)]
  congr 2
  omega

/-- non-vacuity: the conformant rows of join(3..6,10..14) carry phases 0 and 2; both descriptions give
the positions 3,4,5,6,10,…,14 (the original code rejected the GFF form) -/
example : fwdPositionsGff (fwdRows "g" 0 (3, 6) [((10, 14), 2)]) = [3, 4, 5, 6, 10, 11, 12, 13, 14] ∧
    (locPositions .join [(3, 6), (10, 14)]).drop 0 = [3, 4, 5, 6, 10, 11, 12, 13, 14] := by decide

end Gofasta.Props.C14
