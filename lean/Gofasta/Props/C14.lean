import Gofasta.Model.Regions
import Gofasta.Lemmas.GffRowOrder
/-
C14 — GenBank and GFF3 descriptions of the same genes give the same mutations.
What is proved: the ordered position list (hence the codon structure and every position-derived
field of a mutation) and the strand of the region built from a GenBank location equal those of the
region built from the GFF3-conformant rows of the same gene. The amino-acid strings agree when the
GenBank /translation is the translation of ORIGIN (an input assumption; see DESIGN §C14).
-/
namespace Gofasta.Props.C14
open Gofasta Model

/-! ### the five location shapes -/

theorem pos_range (a b : Nat) : locPositions .range [(a, b)] = rangeUp a b := by simp [locPositions]

theorem pos_join (segs : List (Nat × Nat)) : locPositions .join segs = segs.flatMap fun s => rangeUp s.1 s.2 := rfl

theorem pos_comp (a b : Nat) : locPositions .comp [(a, b)] = (rangeUp a b).reverse := by simp [locPositions]

/-- complement(join(s₁,…,sₙ)) (segments written ascending) = the reverse of the forward positions -/
theorem pos_compJoin (segs : List (Nat × Nat)) :
    locPositions .compJoin segs = (locPositions .join segs).reverse := rfl

/-- join(complement(sₙ),…,complement(s₁)) (segments written in coding order) lists the same positions as
complement(join(s₁,…,sₙ)) -/
theorem pos_joinComp_eq_compJoin (segs : List (Nat × Nat)) :
    locPositions .joinComp segs.reverse = locPositions .compJoin segs := by
  simp only [locPositions]
  induction segs with
  | nil => rfl
  | cons s t ih =>
    simp only [List.reverse_cons, List.flatMap_append, List.flatMap_cons, List.flatMap_nil, List.append_nil,
      List.reverse_append]
    rw [ih]

theorem map_succ_range' : ∀ (n s : Nat), List.map Nat.succ (List.range' s n) = List.range' (s + 1) n
  | 0, _ => rfl
  | n + 1, s => by simp [List.range'_succ, map_succ_range' n (s + 1)]

theorem take_range'_le : ∀ (m n a : Nat), m ≤ n → List.take m (List.range' a n) = List.range' a m
  | 0, _, _, _ => by simp
  | m + 1, 0, _, h => by omega
  | m + 1, n + 1, a, h => by
    simp only [List.range'_succ, List.take_succ_cons]
    rw [take_range'_le m n (a + 1) (by omega)]

theorem rangeUp_length (a b : Nat) : (rangeUp a b).length = b + 1 - a := by simp [rangeUp]

theorem drop_rangeUp (a b k : Nat) : (rangeUp a b).drop k = rangeUp (a + k) b := by
  unfold rangeUp
  rw [List.drop_range']
  congr 1 <;> omega

/-! ### forward strand: a gene with segments s₀ … sₙ (ascending), first codon starting k bases in -/

/-- the GFF3 rows of a forward gene: ascending, the first row's phase is k, continuation rows carry
their own (conformant, possibly non-zero) phases -/
def contRow (name : String) (x : (Nat × Nat) × Nat) : GffRow :=
  { type := "CDS", start := x.1.1, stop := x.1.2, strand := "+", phase := x.2, id := some ("cds-" ++ name), name := some name }

def fwdRows (name : String) (k : Nat) (s0 : Nat × Nat) (rest : List ((Nat × Nat) × Nat)) : List GffRow :=
  contRow name (s0, k) :: rest.map (contRow name)

def fwdPositionsGff (rows : List GffRow) : List Nat :=
  (rows.zip (List.range rows.length)).flatMap fun (r, j) => rangeUp (if j = 0 then r.start + r.phase else r.start) r.stop

theorem zip_range_succ_flatMap (f : GffRow → Nat → List Nat) (g : GffRow → List Nat) :
    ∀ (l : List GffRow) (s : Nat), (∀ r j, 0 < j → f r j = g r) → 0 < s →
    (l.zip (List.range' s l.length)).flatMap (fun p => f p.1 p.2) = l.flatMap g := by
  intro l
  induction l with
  | nil => intro s _ _; rfl
  | cons r t ih =>
    intro s hf hs
    simp only [List.length_cons, List.range'_succ, List.zip_cons_cons, List.flatMap_cons]
    rw [hf r s hs, ih (s + 1) hf (by omega)]

/-- **C14.region_equiv (forward)** — for a forward gene whose first codon starts k bases into the first
segment, whatever phases the continuation rows carry, the positions taken from the GFF rows equal the
positions taken from the GenBank location with /codon_start = k+1 -/
theorem positions_equiv_forward (name : String) (k : Nat) (s0 : Nat × Nat) (rest : List ((Nat × Nat) × Nat))
    (hk : k ≤ s0.2 + 1 - s0.1) :
    fwdPositionsGff (fwdRows name k s0 rest) =
      (locPositions .join (s0 :: rest.map (·.1))).drop k := by
  unfold fwdPositionsGff fwdRows locPositions
  simp only [List.length_cons, List.length_map, List.flatMap_cons]
  rw [List.range_succ_eq_map, List.zip_cons_cons, List.flatMap_cons]
  simp only [if_true, contRow]
  rw [List.drop_append_of_le_length (by rw [rangeUp_length]; exact hk), drop_rangeUp]
  congr 1
  -- continuation rows: index j ≥ 1, so no phase is stripped
  have h := zip_range_succ_flatMap
    (fun r j => rangeUp (if j = 0 then r.start + r.phase else r.start) r.stop)
    (fun r => rangeUp r.start r.stop) (rest.map (contRow name)) 1
    (by intro r j hj; have : j ≠ 0 := by omega
        simp [this]) (by omega)
  simp only [List.length_map] at h
  have hr : List.map Nat.succ (List.range rest.length) = List.range' 1 rest.length := by
    rw [List.range_eq_range', map_succ_range']
  rw [hr]
  have h' : (fun (x : GffRow × Nat) => rangeUp (if x.2 = 0 then x.1.start + x.1.phase else x.1.start) x.1.stop) =
      (fun p => (fun r j => rangeUp (if j = 0 then r.start + r.phase else r.start) r.stop) p.1 p.2) := rfl
  show List.flatMap (fun (x : GffRow × Nat) => rangeUp (if x.2 = 0 then x.1.start + x.1.phase else x.1.start) x.1.stop)
      ((rest.map (contRow name)).zip (List.range' 1 rest.length)) = _
  rw [h', h]
  simp [List.flatMap_map, contRow]

/-! ### reverse strand, single segment -/

/-- **C14.region_equiv (reverse, single segment)** — complement(a..b) with /codon_start = k+1 and the GFF row
(a, b, '-', phase k) give the same positions -/
theorem positions_equiv_reverse_single (a b k : Nat) (hk : k ≤ b) :
    (rangeUp a (b - k)).reverse = ((rangeUp a b).reverse).drop k := by
  unfold rangeUp
  rw [List.drop_reverse, List.length_range', take_range'_le _ _ _ (by omega)]
  congr 2
  omega

/-! ### reverse strand, any number of segments -/

def revRow (name : String) (x : (Nat × Nat) × Nat) : GffRow :=
  { type := "CDS", start := x.1.1, stop := x.1.2, strand := "-", phase := x.2, id := some ("cds-" ++ name), name := some name }

/-- the GFF3 rows of a reverse gene in ascending genomic order: the last row is the 5'-most, its phase is k; the
other rows carry their own (conformant, possibly non-zero) phases -/
def revRows (name : String) (k : Nat) (init : List ((Nat × Nat) × Nat)) (last : Nat × Nat) : List GffRow :=
  init.map (revRow name) ++ [revRow name (last, k)]

def revPositionsGff (rows : List GffRow) : List Nat :=
  ((rows.zip (List.range rows.length)).reverse).flatMap fun (r, j) =>
    (rangeUp r.start (if j = rows.length - 1 then r.stop - r.phase else r.stop)).reverse

theorem reverse_flatMap {α β : Type} (f : α → List β) : ∀ (l : List α), (l.flatMap f).reverse = l.reverse.flatMap (fun a => (f a).reverse) := by
  intro l
  induction l with
  | nil => rfl
  | cons a t ih => simp [List.flatMap_cons, List.reverse_append, ih, List.flatMap_append]

theorem zip_range_lt_flatMap (f : GffRow → Nat → List Nat) (g : GffRow → List Nat) (n : Nat) :
    ∀ (l : List GffRow) (s : Nat), (∀ r j, j < n → f r j = g r) → s + l.length ≤ n →
    (l.zip (List.range' s l.length)).flatMap (fun p => f p.1 p.2) = l.flatMap g := by
  intro l
  induction l with
  | nil => intro s _ _; rfl
  | cons r t ih =>
    intro s hf hs
    simp only [List.length_cons, List.range'_succ, List.zip_cons_cons, List.flatMap_cons]
    simp only [List.length_cons] at hs
    rw [hf r s (by omega), ih (s + 1) hf (by omega)]

/-- **C14.region_equiv (reverse)** — for a reverse gene of any number of segments whose first codon starts k bases
in from the 3' end of the last segment (its 5'-most end on the reverse strand), whatever phases the other rows carry,
the positions taken from the GFF rows equal those of complement(join(...)) with /codon_start = k+1 -/
theorem positions_equiv_reverse (name : String) (k : Nat) (init : List ((Nat × Nat) × Nat)) (last : Nat × Nat)
    (hk : k ≤ last.2 + 1 - last.1) (hk2 : k ≤ last.2) :
    revPositionsGff (revRows name k init last) =
      (locPositions .compJoin (init.map (·.1) ++ [last])).drop k := by
  rw [pos_compJoin]
  unfold revPositionsGff revRows
  have hlen : (init.map (revRow name) ++ [revRow name (last, k)]).length = init.length + 1 := by simp
  rw [hlen, List.range_succ, List.zip_append (by simp), List.reverse_append]
  simp only [List.zip_cons_cons, List.zip_nil_right, List.reverse_cons, List.reverse_nil, List.nil_append,
    List.singleton_append, List.flatMap_cons, Nat.add_sub_cancel, if_true, revRow]
  -- the GenBank side
  rw [pos_join, List.flatMap_append, List.reverse_append]
  simp only [List.flatMap_cons, List.flatMap_nil, List.append_nil]
  rw [List.drop_append_of_le_length (by rw [List.length_reverse, rangeUp_length]; exact hk)]
  rw [← positions_equiv_reverse_single last.1 last.2 k hk2]
  congr 1
  -- the other rows: index j < n - 1, so no phase is stripped
  have hrev := reverse_flatMap
    (fun (x : GffRow × Nat) => rangeUp x.1.start (if x.2 = init.length then x.1.stop - x.1.phase else x.1.stop))
    ((init.map (revRow name)).zip (List.range init.length))
  rw [← hrev]
  congr 1
  have h := zip_range_lt_flatMap
    (fun r j => rangeUp r.start (if j = init.length then r.stop - r.phase else r.stop))
    (fun r => rangeUp r.start r.stop) init.length (init.map (revRow name)) 0
    (by intro r j hj; have : j ≠ init.length := by omega
        simp [this]) (by simp)
  simp only [List.length_map] at h
  rw [← List.range_eq_range'] at h
  rw [h]
  simp [List.flatMap_map, revRow]

/-- non-vacuity: complement(join(3..6,10..14)) with /codon_start=2: rows (3,6,'-',phase 1) and (10,14,'-',phase 1) -/
example : revPositionsGff (revRows "g" 1 [((3, 6), 1)] (10, 14)) = [13, 12, 11, 10, 6, 5, 4, 3] ∧
    (locPositions .compJoin [(3, 6), (10, 14)]).drop 1 = [13, 12, 11, 10, 6, 5, 4, 3] := by decide

/-- non-vacuity: the conformant rows of join(3..6,10..14) carry phases 0 and 2; both descriptions give
the positions 3,4,5,6,10,…,14 (the original code rejected the GFF form) -/
example : fwdPositionsGff (fwdRows "g" 0 (3, 6) [((10, 14), 2)]) = [3, 4, 5, 6, 10, 11, 12, 13, 14] ∧
    (locPositions .join [(3, 6), (10, 14)]).drop 0 = [3, 4, 5, 6, 10, 11, 12, 13, 14] := by decide

/-- the positions studied above are the ones the model's GFF reader gives a feature, once its rows are put in
ascending order (since fix a19382f the reader orders the rows by genomic start first) -/
theorem regionFromGFF_positions (rows : List GffRow) (ref : List Nat) (reg : Region) (h : regionFromGFF rows ref = some reg) :
    (reg.strand = 1 ∧ reg.positions = fwdPositionsGff (sortRows rows)) ∨
      (reg.strand = -1 ∧ reg.positions = revPositionsGff (sortRows rows)) := by
  rw [Gofasta.Lemmas.GffRowOrder.regionFromGFF_eq] at h
  cases hh : rows.head? with
  | none => rw [hh] at h; cases h
  | some f0 =>
    rw [hh] at h
    simp only [] at h
    generalize sortRows rows = srt at h
    unfold Gofasta.Lemmas.GffRowOrder.regionOfSorted at h
    split at h
    · cases h
    · rename_i r0 rest
      simp only [] at h
      split at h
      · split at h
        · cases h
        · split at h
          · rename_i t ht
            cases h
            left; exact ⟨rfl, rfl⟩
          · cases h
      · split at h
        · cases h
        · split at h
          · rename_i t ht
            cases h
            right; exact ⟨rfl, rfl⟩
          · cases h
      · cases h

/-- for rows listed by non-decreasing start (the model's own rows, `fwdRows` and `revRows` of ascending segments) the
sort does nothing -/
theorem regionFromGFF_positions_of_sorted (rows : List GffRow) (ref : List Nat) (reg : Region)
    (hs : Gofasta.Lemmas.GffRowOrder.Ascending rows) (h : regionFromGFF rows ref = some reg) :
    (reg.strand = 1 ∧ reg.positions = fwdPositionsGff rows) ∨ (reg.strand = -1 ∧ reg.positions = revPositionsGff rows) := by
  have := regionFromGFF_positions rows ref reg h
  rwa [Gofasta.Lemmas.GffRowOrder.sortRows_of_sorted rows hs] at this

end Gofasta.Props.C14
