import Gofasta.Model.Sam
import Gofasta.Spec.Sam
import Gofasta.Props.C01
/-
C02 — sam toPairAlign reconstructs each pairwise alignment losslessly.
-/
namespace Gofasta.Props.C02
open Gofasta Base Model Spec Gofasta.Props.C01

/-- paired walk with insertions, per SAM: M = X copy query and reference bases; I writes the inserted bases
    against '-' in the reference row; D writes '-' against the reference bases; N no-coverage against them -/
def samInsRef : List (Nat × Bool × Bool × Nat × Nat) :=
  [(0, true, true, 1, 4), (1, true, false, 1, 2), (2, false, true, 2, 4), (3, false, true, 3, 4), (4, true, false, 0, 0),
   (5, false, false, 0, 0), (6, false, false, 0, 0), (7, true, true, 1, 4), (8, true, true, 1, 4)]

/-- the same with insertions discarded (--skip-insertions) -/
def samNoInsRef : List (Nat × Bool × Bool × Nat × Nat) :=
  [(0, true, true, 1, 4), (1, true, false, 0, 0), (2, false, true, 2, 4), (3, false, true, 3, 4), (4, true, false, 0, 0),
   (5, false, false, 0, 0), (6, false, false, 0, 0), (7, true, true, 1, 4), (8, true, true, 1, 4)]

/-- **C02.op_tables_are_sam** — both paired operator tables regenerated from the Go source are the SAM semantics -/
theorem op_table_ins_is_sam : Gen.cigarTab3 = samInsRef := by decide
theorem op_table_noins_is_sam : Gen.cigarTab2 = samNoInsRef := by decide

/-- the query row of the paired no-insertion walk is the toMultiAlign walk: the two tables write the same
    query row (ties C02's --skip-insertions to C01) -/
theorem query_rows_agree : samNoInsRef.map (fun e => (e.1, e.2.1, e.2.2.1, e.2.2.2.1)) =
    samNoIns.map (fun e => (e.1, e.2.1, e.2.2.1, e.2.2.2.1)) := by decide

def degap (s : List Nat) : List Nat := s.filter (· != dash)

def NoDash (s : List Nat) : Prop := ∀ b ∈ s, b ≠ dash

theorem degap_noDash {s : List Nat} (h : NoDash s) : degap s = s := by
  unfold degap
  rw [List.filter_eq_self]
  intro b hb
  simpa using h b hb

theorem degap_replicate_dash (n : Nat) : degap (List.replicate n dash) = [] := by
  unfold degap
  rw [List.filter_eq_nil_iff]
  intro b hb
  simp [List.eq_of_mem_replicate hb]

theorem noDash_slice {s : List Nat} (h : NoDash s) (a b : Nat) : NoDash ((s.drop a).take b) :=
  fun x hx => h x (List.mem_of_mem_drop (List.mem_of_mem_take hx))

theorem take_drop_append (s : List Nat) (r a b : Nat) :
    (s.drop r).take a ++ (s.drop (r + a)).take b = (s.drop r).take (a + b) := by
  rw [← List.drop_drop, List.take_add]

/-- **C02.ref_row_lossless (walk)** — removing '-' from the reference row written by the CIGAR walk gives
back exactly the stretch of reference the CIGAR spans: inserted columns are the only gaps, and every
reference base under M, D, N, = and X is present, in order -/
theorem ref_row_degap (ref : List Nat) (hnd : NoDash ref) : ∀ (cigar : List (Nat × Nat)) (seq : List Nat) (q r : Nat),
    degap (walkOps samInsRef seq ref cigar q r).2 = (ref.drop r).take (refSpan samInsRef cigar) := by
  intro cigar
  induction cigar with
  | nil => intro seq q r; simp [walkOps, refSpan, degap]
  | cons c rest ih =>
    intro seq q r
    obtain ⟨op, len⟩ := c
    simp only [walkOps, refSpan]
    cases he : opEntry samInsRef op with
    | none => simp only [he]; simpa using ih seq q r
    | some e =>
      obtain ⟨cq, cr, ek, rk⟩ := e
      have hm := opEntry_mem he
      simp only [he]
      have hd : ∀ (a b : List Nat), degap (a ++ b) = degap a ++ degap b := by intro a b; simp [degap]
      rw [hd, ih]
      simp only [samInsRef, List.mem_cons, Prod.mk.injEq, List.mem_nil_iff, or_false] at hm
      rcases hm with ⟨_, rfl, rfl, rfl, rfl⟩ | ⟨_, rfl, rfl, rfl, rfl⟩ | ⟨_, rfl, rfl, rfl, rfl⟩ | ⟨_, rfl, rfl, rfl, rfl⟩ |
        ⟨_, rfl, rfl, rfl, rfl⟩ | ⟨_, rfl, rfl, rfl, rfl⟩ | ⟨_, rfl, rfl, rfl, rfl⟩ | ⟨_, rfl, rfl, rfl, rfl⟩ | ⟨_, rfl, rfl, rfl, rfl⟩ <;>
        simp only [emit, if_true, Bool.false_eq_true, if_false, Nat.zero_add, degap_replicate_dash, List.nil_append] <;>
        first
          | (rw [degap_noDash (noDash_slice hnd r len), take_drop_append])
          | (simp [degap])

/-- the reference row has '-' exactly under insertions: its number of gap columns is the total inserted length -/
def insSpan : List (Nat × Nat) → Nat
  | [] => 0
  | (op, len) :: rest => (if op = 1 then len else 0) + insSpan rest

theorem ref_row_length (ref : List Nat) : ∀ (cigar : List (Nat × Nat)) (seq : List Nat) (q r : Nat),
    r + refSpan samInsRef cigar ≤ ref.length →
    (walkOps samInsRef seq ref cigar q r).2.length = refSpan samInsRef cigar + insSpan cigar := by
  intro cigar
  induction cigar with
  | nil => intro seq q r _; simp [walkOps, refSpan, insSpan]
  | cons c rest ih =>
    intro seq q r hr
    obtain ⟨op, len⟩ := c
    simp only [walkOps, refSpan, insSpan] at hr ⊢
    cases he : opEntry samInsRef op with
    | none =>
      simp only [he] at hr ⊢
      have hne : op ≠ 1 := by
        intro h; subst h; simp [opEntry, samInsRef] at he
      simp only [hne, if_false]
      have := ih seq q r (by omega)
      omega
    | some e =>
      obtain ⟨cq, cr, ek, rk⟩ := e
      have hm := opEntry_mem he
      simp only [he, List.length_append] at hr ⊢
      simp only [samInsRef, List.mem_cons, Prod.mk.injEq, List.mem_nil_iff, or_false] at hm
      rcases hm with ⟨rfl, rfl, rfl, rfl, rfl⟩ | ⟨rfl, rfl, rfl, rfl, rfl⟩ | ⟨rfl, rfl, rfl, rfl, rfl⟩ | ⟨rfl, rfl, rfl, rfl, rfl⟩ |
        ⟨rfl, rfl, rfl, rfl, rfl⟩ | ⟨rfl, rfl, rfl, rfl, rfl⟩ | ⟨rfl, rfl, rfl, rfl, rfl⟩ | ⟨rfl, rfl, rfl, rfl, rfl⟩ | ⟨rfl, rfl, rfl, rfl, rfl⟩ <;>
        simp only [if_true, Bool.false_eq_true, if_false] at hr ⊢ <;>
        (rw [ih seq _ _ (by omega)]; simp [emit, List.length_take, List.length_drop]; try omega)

/-- non-vacuity: 3M2I2M1D2M at POS 2 on ACGTACGTAC -/
def exRec : SamRec := ⟨"q", 0, 1, [(0, 3), (1, 2), (0, 2), (2, 1), (0, 2)], [67, 71, 84, 78, 78, 65, 67, 84, 65]⟩

example : walkWithRef exRec [65, 67, 71, 84, 65, 67, 71, 84, 65, 67] true =
    ([42, 67, 71, 84, 78, 78, 65, 67, 45, 84, 65], [65, 67, 71, 84, 45, 45, 65, 67, 71, 84, 65]) := by decide

end Gofasta.Props.C02
