import Gofasta.Lemmas.Enc
import Gofasta.Model.Sam
import Gofasta.Model.Variants
/-
C11 — sam variants and variants agree on the same alignment.
Both commands hand an encoded (reference row, query row) pair to the same caller; what has to be
shown is that writing the pair as FASTA text and reading it back yields the same encoded pair.
-/
namespace Gofasta.Props.C11
open Gofasta Base Model Lemmas

def Accepted (s : List Nat) : Prop := ∀ b ∈ s, b < 256 ∧ enc false b ≠ 0

/-- decoding an accepted symbol's code and encoding the printed character gives the code back -/
theorem reencode (b : Nat) (hb : b < 256) (he : enc false b ≠ 0) : enc false (dec (enc false b)) = enc false b := by
  rw [dec_enc false b hb he, enc_upper false b hb]

/-- **C11.pair_path** — the row that `sam toPairAlign` prints (decoded characters) re-encodes to the row that
`sam variants` passes to the caller, for rows of any length -/
theorem row_roundtrip (s : List Nat) (h : Accepted s) :
    ((s.map (enc false)).map dec).map (enc false) = s.map (enc false) := by
  rw [List.map_map, List.map_map]
  apply List.map_congr_left
  intro b hb
  exact reencode b (h b hb).1 (h b hb).2

/-- hence the mutation list computed from the FASTA form of a pair is the one computed from the pair itself -/
theorem same_caller (r q : List Nat) (hr : Accepted r) (hq : Accepted q) (regions : List Region) (inter : List Nat) :
    getVariantsPair (((r.map (enc false)).map dec).map (enc false)) (((q.map (enc false)).map dec).map (enc false)) regions inter =
      getVariantsPair (r.map (enc false)) (q.map (enc false)) regions inter := by
  rw [row_roundtrip r hr, row_roundtrip q hq]

/-- upper-casing is all that the text route does to an accepted row -/
theorem printed_row (s : List Nat) (h : Accepted s) : (s.map (enc false)).map dec = s.map upper := by
  rw [List.map_map]
  apply List.map_congr_left
  intro b hb
  exact dec_enc false b (h b hb).1 (h b hb).2

end Gofasta.Props.C11
