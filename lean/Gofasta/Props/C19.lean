import Gofasta.Gen.Facts
import Gofasta.Model.Pipeline
/-
C19 — a failed output write is never reported as success (partial).
Proved: (1) on the call-site facts regenerated from the Go source by go/ast on this run, every output write
in the fifteen writer functions has its error checked and propagated; (2) for ANY run (any sequence of calls
made at checked sites, any length) and ANY fault point k within the run, the writer reports the failure.
Observed, not proved: that the Go functions deliver that error to their callers and to the exit status —
the fault-enumeration stream drives the real entry points with a writer failing at every k.
-/
namespace Gofasta.Props.C19
open Gofasta Model

/-- the writer functions the property anchors -/
def expectedWriters : List String :=
  ["closest.writeClosest", "closest.writeClosestN", "closest.writeClosestNTable", "fastaio.WriteAlignment",
   "fastaio.WriteWrapAlignment", "sam.writePairwiseAlignment", "snps.writeOutput", "snps.aggregateWriteOutput",
   "updown.writeOutput", "updown.writeUpDownCatchment", "updown.writeUpdownTable", "variants.WriteVariants",
   "variants.AggregateWriteVariants", "sam.writeInsMap", "sam.writeDelMap"]

/-- **C19.writers_present** — each of them was found in the source and writes somewhere -/
theorem writers_present :
    expectedWriters.all (fun w => Gen.writerSites.any fun f => f.1 == w && !f.2.isEmpty) = true := by decide

/-- **C19.sites_checked** — every write call site of every writer checks and propagates its error -/
theorem sites_checked : Gen.writerSites.all (fun f => f.2.all (·.2)) = true := by decide

/-- **C19.generic** — if every call of a run is made at a checked site, then a destination that fails from the
k-th call on (1 ≤ k ≤ number of calls) is always reported: for every run length and every fault point -/
theorem generic : ∀ (calls : List Bool) (k i : Nat), (∀ c ∈ calls, c = true) → i + 1 ≤ k → k ≤ i + calls.length →
    Writer.run calls k i = true := by
  intro calls
  induction calls with
  | nil => intro k i _ h1 h2; simp at h2; omega
  | cons c rest ih =>
    intro k i hall h1 h2
    have hc : c = true := hall c (by simp)
    simp only [Writer.run, hc, and_true]
    by_cases hk : i + 1 ≥ k
    · simp [hk]
    · simp only [hk, if_false]
      apply ih k (i + 1) (fun x hx => hall x (by simp [hx])) (by omega)
      simp only [List.length_cons] at h2; omega

theorem reports_every_fault (calls : List Bool) (k : Nat) (hall : ∀ c ∈ calls, c = true) (h1 : 1 ≤ k) (h2 : k ≤ calls.length) :
    Writer.reportsFailure calls k = true :=
  generic calls k 0 hall (by omega) (by omega)

/-- and the hypothesis is needed: one unchecked site is enough to lose a failure of the last call -/
theorem unchecked_loses : Writer.reportsFailure [true, true, false] 3 = false := by decide

/-- non-vacuity: header + two rows, fault at the second row -/
example : Writer.reportsFailure [true, true, true] 3 = true ∧ (∀ c ∈ [true, true, true], c = true) := by
  constructor <;> simp [Writer.reportsFailure, Writer.run]

end Gofasta.Props.C19
