import Gofasta.Lemmas.Enc
import Gofasta.Model.Closest
import Gofasta.Spec.Closest
/-
C07 — raw, snp and tn93 distances equal their definitions for every pair.
The final eq.-7 expression is evaluated in IEEE double and is not a theorem (`tn93_partial`):
what is proved is that every count that enters it is the definitional one.
-/
namespace Gofasta.Props.C07
open Gofasta Base Model Spec Lemmas

def Accepted (s : List Nat) : Prop := ∀ b ∈ s, b < 256 ∧ enc false b ≠ 0

instance (s : List Nat) : Decidable (Accepted s) := by unfold Accepted; infer_instance

theorem accepted_tail {b : Nat} {s : List Nat} (h : Accepted (b :: s)) : Accepted s :=
  fun x hx => h x (by simp [hx])

/-- **C07.snp_def** — snp distance = number of columns with disjoint base sets -/
theorem snp_def : ∀ (q t : List Nat), Accepted q → Accepted t →
    snpCount (q.map (enc false)) (t.map (enc false)) = specSnp q t := by
  intro q
  induction q with
  | nil => intro t _ _; cases t <;> simp [snpCount, specSnp]
  | cons a qs ih =>
    intro t hq ht
    cases t with
    | nil => simp [snpCount, specSnp]
    | cons b ts =>
      have ha := hq a (by simp)
      have hb := ht b (by simp)
      simp only [List.map_cons, snpCount, specSnp]
      rw [encDiffer_iff false a b ha.1 hb.1 ha.2 hb.2, ih ts (accepted_tail hq) (accepted_tail ht)]

/-- the "certainly the same base" test of the Go code means: both A/C/G/T and equal -/
theorem same_test (a b : Nat) (ha : a < 256 ∧ enc false a ≠ 0) (hb : b < 256 ∧ enc false b ≠ 0) :
    (encResolved (enc false a) && enc false a == enc false b) = sameBase a b := by
  rw [encResolved_iff false a ha.1 ha.2]
  unfold sameBase
  cases hr : isACGT a with
  | false => simp
  | true =>
    rw [enc_same_iff a b ha.1 hb.1 ha.2 hb.2 hr]
    cases hu : (upper a == upper b) with
    | false => simp
    | true =>
      have : upper a = upper b := by simpa using hu
      rw [← isACGT_of_upper_eq this, hr]; simp

/-- **C07.raw_def** — raw distance = n / (n + s): n columns with disjoint sets, s columns where both
carry the same unambiguous base -/
theorem raw_def : ∀ (q t : List Nat), Accepted q → Accepted t →
    rawCounts (q.map (enc false)) (t.map (enc false)) = specRaw q t := by
  intro q
  induction q with
  | nil => intro t _ _; cases t <;> simp [rawCounts, specRaw]
  | cons a qs ih =>
    intro t hq ht
    cases t with
    | nil => simp [rawCounts, specRaw]
    | cons b ts =>
      have ha := hq a (by simp)
      have hb := ht b (by simp)
      simp only [List.map_cons, rawCounts, specRaw]
      rw [encDiffer_iff false a b ha.1 hb.1 ha.2 hb.2, same_test a b ha hb, ih ts (accepted_tail hq) (accepted_tail ht)]

theorem disjoint_comm (a b : Nat) : disjointSyms false a b = disjointSyms false b a := by
  unfold disjointSyms
  cases baseSet false a <;> cases baseSet false b <;> simp [Nat.and_comm]

theorem sameBase_comm (a b : Nat) : sameBase a b = sameBase b a := by
  unfold sameBase
  have hc : (upper a == upper b) = (upper b == upper a) := by
    by_cases h : upper a = upper b
    · simp [h]
    · have h' : upper b ≠ upper a := fun e => h e.symm
      rw [beq_eq_false_iff_ne.2 h, beq_eq_false_iff_ne.2 h']
  rw [hc]
  cases isACGT a <;> cases isACGT b <;> rfl

/-- **C07.symm** — snp and raw are symmetric -/
theorem snp_symm : ∀ (q t : List Nat), specSnp q t = specSnp t q := by
  intro q
  induction q with
  | nil => intro t; cases t <;> simp [specSnp]
  | cons a qs ih => intro t; cases t with
    | nil => simp [specSnp]
    | cons b ts => simp only [specSnp]; rw [disjoint_comm a b, ih ts]

theorem raw_symm : ∀ (q t : List Nat), specRaw q t = specRaw t q := by
  intro q
  induction q with
  | nil => intro t; cases t <;> simp [specRaw]
  | cons a qs ih => intro t; cases t with
    | nil => simp [specRaw]
    | cons b ts => simp only [specRaw]; rw [disjoint_comm a b, sameBase_comm a b, ih ts]

/-- **C07.raw_unit** — numerator ≤ denominator: raw lies in [0,1] whenever it is defined -/
theorem raw_unit : ∀ (q t : List Nat), (specRaw q t).1 ≤ (specRaw q t).2 := by
  intro q
  induction q with
  | nil => intro t; cases t <;> simp [specRaw]
  | cons a qs ih => intro t; cases t with
    | nil => simp [specRaw]
    | cons b ts => have := ih ts; simp only [specRaw]; omega

def AllACGT (s : List Nat) : Prop := ∀ b ∈ s, isACGT b = true

theorem disjoint_self_acgt (b : Nat) (h : isACGT b = true) : disjointSyms false b b = false := by
  unfold isACGT at h
  simp only [Bool.or_eq_true, beq_iff_eq] at h
  have hu : upper b ≠ 45 ∧ upper b ≠ 63 := by omega
  have hb : b ≠ 45 ∧ b ≠ 63 := by
    unfold upper at hu h; split at h <;> omega
  unfold disjointSyms baseSet
  simp only [hb.1, hb.2, if_false]
  rcases h with ((h | h) | h) | h <;> simp [h, letterSet]

/-- **C07.identical_zero** — identical unambiguous sequences are at snp distance 0 and raw 0/len -/
theorem identical_zero : ∀ (s : List Nat), AllACGT s → specSnp s s = 0 ∧ specRaw s s = (0, s.length) := by
  intro s
  induction s with
  | nil => intro _; simp [specSnp, specRaw]
  | cons b t ih =>
    intro h
    have hb := h b (by simp)
    obtain ⟨i1, i2⟩ := ih (fun x hx => h x (by simp [hx]))
    have hs : sameBase b b = true := by simp [sameBase, hb]
    simp [specSnp, specRaw, disjoint_self_acgt b hb, hs, i1, i2]

/-- the per-column classification used by tn93 -/
theorem tn_col (a b : Nat) (ha : a < 256 ∧ enc false a ≠ 0) (hb : b < 256 ∧ enc false b ≠ 0) :
    (encDiffer (enc false a) (enc false b) && encResolved (enc false a) && encResolved (enc false b))
      = (isACGT a && isACGT b && !(upper a == upper b)) := by
  rw [encDiffer_iff false a b ha.1 hb.1 ha.2 hb.2, encResolved_iff false a ha.1 ha.2, encResolved_iff false b hb.1 hb.2]
  cases hra : isACGT a with
  | false => simp
  | true =>
    cases hrb : isACGT b with
    | false => simp
    | true =>
      -- on resolved bases the sets are singletons: disjoint iff different
      have h1 := (List.all_eq_true.1 chkDisjoint_ok.1) a (mem_accepted ha.1 ha.2)
      have h2 := (List.all_eq_true.1 h1) b (mem_accepted hb.1 hb.2)
      have hs := enc_same_iff a b ha.1 hb.1 ha.2 hb.2 hra
      -- disjointSyms = encDiffer; encDiffer on equal codes is false, on different resolved codes true: by the table
      have h3 := (List.all_eq_true.1 chkResolvedDiffer_ok) a (mem_accepted ha.1 ha.2)
      have h4 := (List.all_eq_true.1 h3) b (mem_accepted hb.1 hb.2)
      simp only [hra, hrb, Bool.and_self, Bool.not_true, Bool.false_or] at h4
      simp only [Bool.and_true, Bool.true_and]
      rw [← encDiffer_iff false a b ha.1 hb.1 ha.2 hb.2]
      simpa [hs] using h4

/-- **C07.tn93_counts** — the transition / transversion / length counts that enter eq. 7 are the
definitional ones on the columns where both sequences are A/C/G/T -/
theorem tn93_counts : ∀ (q t : List Nat), Accepted q → Accepted t →
    tnCounts (q.map (enc false)) (t.map (enc false)) = specTn q t := by
  intro q
  induction q with
  | nil => intro t _ _; cases t <;> simp [tnCounts, specTn]
  | cons a qs ih =>
    intro t hq ht
    cases t with
    | nil => simp [tnCounts, specTn]
    | cons b ts =>
      have ha := hq a (by simp)
      have hb := ht b (by simp)
      have hcol := tn_col a b ha hb
      have hsame := same_test a b ha hb
      simp only [List.map_cons, tnCounts, specTn]
      rw [ih ts (accepted_tail hq) (accepted_tail ht), hcol, hsame]
      cases hra : isACGT a with
      | false => simp [sameBase, hra]
      | true =>
        cases hrb : isACGT b with
        | false => simp [sameBase, hrb]
        | true =>
          obtain ⟨t1, t2⟩ := enc_transitions a b ha.1 hb.1 ha.2 hb.2 hra hrb
          cases hu : (upper a == upper b) with
          | true => simp [sameBase, hra, hrb, hu]
          | false =>
            simp only [Bool.and_self, Bool.not_false, Bool.and_true, if_true, sameBase, hra, hrb, hu,
              Bool.false_eq_true, if_false, isPair, t1, t2]
            have hne : upper a ≠ upper b := by simpa using hu
            -- the second counter is guarded by "not the first": {A,G} and {C,T} are exclusive
            congr 1
            by_cases hp1 : ((upper a == 65 && upper b == 71) || (upper a == 71 && upper b == 65)) = true
            · have : ((upper a == 67 && upper b == 84) || (upper a == 84 && upper b == 67)) = false := by
                simp only [Bool.or_eq_true, Bool.and_eq_true, beq_iff_eq] at hp1
                simp only [Bool.or_eq_false_iff, Bool.and_eq_false_iff, beq_eq_false_iff_ne]
                omega
              simp [hp1, this]
            · have hp1' : ((upper a == 65 && upper b == 71) || (upper a == 71 && upper b == 65)) = false := by simpa using hp1
              have h200 : ¬ (enc false a ||| enc false b = 200) := by
                have := t1; rw [hp1'] at this; simpa using this
              simp [hp1', h200]

/-- non-vacuity: a pair with a transition, a transversion, an ambiguity and a gap -/
example : Accepted [65, 67, 71, 84, 82, 45] ∧ Accepted [71, 65, 71, 84, 84, 65] ∧
    specSnp [65, 67, 71, 84, 82, 45] [71, 65, 71, 84, 84, 65] = 3 ∧
    specRaw [65, 67, 71, 84, 82, 45] [71, 65, 71, 84, 84, 65] = (3, 5) ∧
    specTn [65, 67, 71, 84, 82, 45] [71, 65, 71, 84, 84, 65] = { p1 := 1, p2 := 0, d := 2, l := 4 } := by
  refine ⟨?_, ?_, ?_, ?_, ?_⟩ <;> decide

end Gofasta.Props.C07
