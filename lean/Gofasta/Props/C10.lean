import Gofasta.Lemmas.UpdownRecon
import Gofasta.Lemmas.Enc
import Gofasta.Lemmas.Reorder
import Gofasta.Model.Updown
import Gofasta.Spec.Updown
/-
C10 — updown list is a lossless summary of each sequence relative to the reference.
-/
namespace Gofasta.Props.C10
open Gofasta Base Model Spec Lemmas

def Accepted (s : List Nat) : Prop := ∀ b ∈ s, b < 256 ∧ enc false b ≠ 0

instance (s : List Nat) : Decidable (Accepted s) := by unfold Accepted; infer_instance

theorem accepted_tail {b : Nat} {s : List Nat} (h : Accepted (b :: s)) : Accepted s :=
  fun x hx => h x (by simp [hx])

/-- **C10.snps_exact** — the SNP list is exactly the A/C/G/T columns whose base is not in the
reference symbol's set, ascending, as <reference symbol><position><base> -/
theorem snps_exact : ∀ (q ref : List Nat) (i : Nat) (o : Option Nat), Accepted ref → Accepted q →
    (udScan i o (ref.map (enc false)) (q.map (enc false))).1 = specUdSnps i ref q := by
  intro q
  induction q with
  | nil => intro ref i o _ _; cases ref <;> simp [udScan, specUdSnps]
  | cons b t ih =>
    intro ref i o hr hq
    cases ref with
    | nil => simp [udScan, specUdSnps]
    | cons r rs =>
      have hb := hq b (by simp)
      have hr0 := hr r (by simp)
      simp only [List.map_cons, udScan, specUdSnps]
      rw [encResolved_iff false b hb.1 hb.2]
      cases hres : isACGT b with
      | false => simp [ih rs (i + 1) _ (accepted_tail hr) (accepted_tail hq)]
      | true =>
        simp only [if_true, Bool.true_and]
        rw [encDiffer_iff false r b hr0.1 hb.1 hr0.2 hb.2, ih rs (i + 1) none (accepted_tail hr) (accepted_tail hq),
          dec_enc false r hr0.1 hr0.2, dec_enc false b hb.1 hb.2]
        cases disjointSyms false r b <;> simp

/-- **C10.counts (ambcount)** — ambcount is the number of non-A/C/G/T columns -/
theorem ambcount_exact : ∀ (q ref : List Nat) (i : Nat) (o : Option Nat), ref.length = q.length → Accepted q →
    (udScan i o (ref.map (enc false)) (q.map (enc false))).2.2 = specAmbCount q := by
  intro q
  induction q with
  | nil => intro ref i o hl _; cases ref <;> simp_all [udScan, specAmbCount]
  | cons b t ih =>
    intro ref i o hl hq
    cases ref with
    | nil => simp at hl
    | cons r rs =>
      have hb := hq b (by simp)
      have hl' : rs.length = t.length := by simpa using hl
      simp only [List.map_cons, udScan]
      rw [encResolved_iff false b hb.1 hb.2]
      cases hres : isACGT b with
      | false =>
        simp only [Bool.false_eq_true, if_false]
        rw [ih rs (i + 1) _ hl' (accepted_tail hq)]
        simp [specAmbCount, hres]
      | true =>
        simp only [if_true]
        rw [ih rs (i + 1) none hl' (accepted_tail hq)]
        simp [specAmbCount, hres]

/-- **C10.counts (SNPcount)** — SNPcount is the number of listed SNPs (by construction) -/
theorem snpcount_exact (id : String) (ref q : List Nat) : (getLine id ref q).snpCount = (getLine id ref q).snps.length := rfl

/-- tract bookkeeping: with a tract open since column `a`, the scan closes it where the run of
non-A/C/G/T columns ends; with none open it yields the maximal runs of the remaining columns -/
theorem ambs_runs : ∀ (q ref : List Nat) (i : Nat), ref.length = q.length → Accepted q →
    (∀ a, (udScan i (some a) (ref.map (enc false)) (q.map (enc false))).2.1 =
      (a + 1, i + (q.takeWhile fun x => !isACGT x).length) ::
        specRuns (i + (q.takeWhile fun x => !isACGT x).length) (q.dropWhile fun x => !isACGT x)) ∧
    (udScan i none (ref.map (enc false)) (q.map (enc false))).2.1 = specRuns i q := by
  intro q
  induction q with
  | nil =>
    intro ref i hl _
    cases ref with
    | nil => constructor <;> simp [udScan, specRuns]
    | cons r rs => simp at hl
  | cons b t ih =>
    intro ref i hl hq
    cases ref with
    | nil => simp at hl
    | cons r rs =>
      have hb := hq b (by simp)
      have hl' : rs.length = t.length := by simpa using hl
      obtain ⟨ihA, ihB⟩ := ih rs (i + 1) hl' (accepted_tail hq)
      cases hres : isACGT b with
      | true =>
        constructor
        · intro a
          simp only [List.map_cons, udScan, encResolved_iff false b hb.1 hb.2, hres, if_true]
          rw [ihB]
          simp only [List.takeWhile_cons, List.dropWhile_cons, hres, Bool.not_true, Bool.false_eq_true, if_false,
            List.length_nil, Nat.add_zero, List.cons_append, List.nil_append]
          rw [specRuns]
          simp [hres]
        · simp only [List.map_cons, udScan, encResolved_iff false b hb.1 hb.2, hres, if_true]
          rw [ihB]
          conv => rhs; rw [specRuns]
          simp [hres]
      | false =>
        constructor
        · intro a
          simp only [List.map_cons, udScan, encResolved_iff false b hb.1 hb.2, hres, Bool.false_eq_true, if_false,
            Option.getD_some]
          rw [ihA a]
          simp only [List.takeWhile_cons, List.dropWhile_cons, hres, Bool.not_false, if_true, List.length_cons]
          have : i + 1 + (t.takeWhile fun x => !isACGT x).length = i + ((t.takeWhile fun x => !isACGT x).length + 1) := by omega
          rw [this]
        · simp only [List.map_cons, udScan, encResolved_iff false b hb.1 hb.2, hres, Bool.false_eq_true, if_false,
            Option.getD_none]
          rw [ihA i]
          conv => rhs; rw [specRuns]
          simp [hres]

/-- **C10.ambs_are_maximal_runs** — the ambiguity ranges are exactly the maximal runs of
non-A/C/G/T columns (1-based, inclusive) -/
theorem ambs_are_maximal_runs (id : String) (ref q : List Nat) (hl : ref.length = q.length) (hq : Accepted q) :
    (getLine id (ref.map (enc false)) (q.map (enc false))).ambs = specRuns 0 q :=
  (ambs_runs q ref 0 hl hq).2

/-- **C10.row** — the whole row of the model is the specified row -/
theorem row (id : String) (ref q : List Nat) (hl : ref.length = q.length) (hr : Accepted ref) (hq : Accepted q) :
    getLine id (ref.map (enc false)) (q.map (enc false)) = specUdLine id ref q := by
  unfold getLine specUdLine
  simp only [snps_exact q ref 0 none hr hq, (ambs_runs q ref 0 hl hq).2, ambcount_exact q ref 0 none hl hq]

/-- **C10.lossless** — the row the model writes lets the sequence be reconstructed up to the identity of its
non-A/C/G/T symbols: with an A/C/G/T reference, rebuilding column by column from (reference, SNP list, ambiguity
ranges) gives the sequence with every non-A/C/G/T symbol masked as '?' (letter case folded) -/
theorem lossless (id : String) (ref q : List Nat) (hl : ref.length = q.length) (hr : Accepted ref) (hq : Accepted q)
    (hacgt : ∀ r ∈ ref, Base.isACGT r = true) :
    reconstruct ref (getLine id (ref.map (enc false)) (q.map (enc false))) = q.map mask := by
  rw [row id ref q hl hr hq]
  exact Gofasta.Lemmas.reconstruct_row id ref q hl hacgt

/-- **C10.rows_in_input_order** — L-reorder instance for updown/list.writeOutput -/
theorem rows_in_input_order (rows : Nat → String) (n : Nat) (arrival : List Nat)
    (h : arrival.Perm (List.range n)) :
    Reorder.run (arrival.map fun i => (i, rows i)) = (List.range n).map rows :=
  Reorder.run_perm rows n arrival h

/-- non-vacuity: tracts at both ends, a length-1 tract, two tracts one base apart, one SNP;
the hypotheses of `row` hold and the row is non-trivial -/
example : Accepted [65, 67, 65, 67, 71, 84, 84, 65, 71, 71, 65, 67, 71] ∧
    Accepted [78, 78, 65, 84, 71, 84, 82, 65, 89, 89, 65, 67, 45] ∧
    (getLine "x" ([65, 67, 65, 67, 71, 84, 84, 65, 71, 71, 65, 67, 71].map (enc false))
        ([78, 78, 65, 84, 71, 84, 82, 65, 89, 89, 65, 67, 45].map (enc false))).ambs = [(1, 2), (7, 7), (9, 10), (13, 13)] ∧
    (getLine "x" ([65, 67, 65, 67, 71, 84, 84, 65, 71, 71, 65, 67, 71].map (enc false))
        ([78, 78, 65, 84, 71, 84, 82, 65, 89, 89, 65, 67, 45].map (enc false))).snps = [(4, 67, 84)] := by
  refine ⟨by decide, by decide, by decide +kernel, by decide +kernel⟩

end Gofasta.Props.C10
