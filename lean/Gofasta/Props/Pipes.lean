import Gofasta.Gen.Facts
/-
The concurrent drivers of pkg/ (the functions that make channels, launch goroutines and wait in staged `select` loops)
all follow one pattern: a producer, zero or more worker pools each with a wait group and a waiter goroutine, a consumer,
and a driver that in stage i waits for `done_i` OR the error channel, closes the data channel(s) the next link ranges
over, and finally returns nil. `Gen.pipes` is regenerated from the source on every run (go/ast, harness `pipes.go`);
`chain` below decides whether a driver has that shape and with how many pools. `drivers_conform` fixes the result for
every driver, so that a change of shape - a `select` that loses its error arm, a stage that closes another channel or
none, two stages swapped, a waiter signalling another channel, a writer launched without the error channel, a buffered
signalling channel - breaks an obligation. The every-schedule theorems about that shape are in Lemmas/SchedProofs.
-/
namespace Gofasta.Props.Pipes
open Gofasta.Gen

/-- kind (go | worker | waiter | other), launched in a loop, callee, wait group, channel arguments -/
abbrev Launch := String × Bool × String × String × List String
/-- channel received from, returns the received error, channels closed, counts down, returns at all -/
abbrev Arm := String × Bool × List String × Bool × Bool
abbrev Pipe := String × List (String × String) × List Launch × List (List Arm) × String

def Arm.ch (a : Arm) := a.1
def isErrArm (e : String) (a : Arm) : Bool := a.1 == e && a.2.1 && a.2.2.1.isEmpty && !a.2.2.2.1 && a.2.2.2.2
def isDoneArm (a : Arm) : Bool := !a.2.1 && a.2.2.2.1 && !a.2.2.2.2
/-- a rendezvous before the pipeline proper (the SAM header, the reference taken from standard input): the error arm
and an arm that only receives -/
def isHandshake (e : String) (st : List Arm) : Bool :=
  st.length == 2 && st.any (isErrArm e) && st.any fun a => a.1 != e && !a.2.1 && a.2.2.1.isEmpty && !a.2.2.2.1 && !a.2.2.2.2

/-- the error channel: the first channel made for which every stage has an arm that returns what it receives -/
def errChan (p : Pipe) : Option String :=
  (p.2.1.map (·.1)).find? fun c => p.2.2.2.1.all fun st => st.any (isErrArm c)

/-- a proper stage: exactly the error arm and one done arm; gives (done channel, channels closed) -/
def stageOf (e : String) (st : List Arm) : Option (String × List String) :=
  match st.filter (fun a => !isErrArm e a) with
  | [a] => if st.length == 2 && st.any (isErrArm e) && isDoneArm a then some (a.1, a.2.2.1) else none
  | _ => none

def unbuffered (p : Pipe) (c : String) : Bool := p.2.1.contains (c, "0")

/-- pools between consecutive stages: for stage i (closing `ci`) and stage i+1 (done `dn`, closing `cn`) there is a worker
launch ranging over a channel closed by stage i, sending on every channel closed by stage i+1, holding the error channel,
whose wait group is the one the waiter signalling `dn` waits for -/
def poolBetween (p : Pipe) (e : String) (ci : List String) (dn : String) (cn : List String) : Bool :=
  !cn.isEmpty && p.2.2.1.any fun l =>
    l.1 == "worker" && l.2.2.2.2.contains e && ci.any (l.2.2.2.2.contains ·) && cn.all (l.2.2.2.2.contains ·) &&
    p.2.2.1.any fun w => w.1 == "waiter" && w.2.2.2.1 == l.2.2.2.1 && w.2.2.2.2 == [dn]

def poolsOk (p : Pipe) (e : String) : List (String × List String) → Bool
  | (_, ci) :: (dn, cn) :: rest =>
      (rest.isEmpty || poolBetween p e ci dn cn) && poolsOk p e ((dn, cn) :: rest)
  | _ => true

/-- `some k`: the driver is a chain with k worker pools -/
def chain (p : Pipe) : Option Nat :=
  match errChan p with
  | none => none
  | some e =>
    let stages := p.2.2.2.1.dropWhile (isHandshake e)
    match stages.mapM (stageOf e) with
    | none => none
    | some sts =>
      match sts.head?, sts.getLast? with
      | some (d1, c1), some (dk, ck) =>
        let goes := p.2.2.1.filter fun l => l.1 == "go"
        let producer := goes.any fun l => !l.2.1 && l.2.2.2.2.contains d1 && l.2.2.2.2.contains e && c1.all (l.2.2.2.2.contains ·)
        let consumers := goes.filter fun l => l.2.2.2.2.contains dk
        let feeds := (sts.dropLast.getLast?.map (·.2)).getD []
        let consumerOk := !consumers.isEmpty && consumers.all fun l =>
          l.2.2.2.2.contains e && feeds.any (l.2.2.2.2.contains ·)
        let closed := sts.flatMap (·.2)
        if sts.length ≥ 2 && unbuffered p e && sts.all (fun s => unbuffered p s.1) && (sts.map (·.1)).Nodup && closed.Nodup
            && !c1.isEmpty && ck.isEmpty && producer && consumerOk && poolsOk p e sts && p.2.2.2.2 == "return nil"
        then some (sts.length - 2) else none
      | _, _ => none

/-- every concurrent driver of pkg/, and its shape: the three `sam` conversions, `snps`, `variants`, `updown list` are
chains with one or two worker pools, `closest` and `updown topranking` hand the records to one splitting goroutine; the
four remaining functions (the consensus helper, `sam indels` with its two collecting goroutines, and the two inner readers
of `updown topranking` that forward errors to their caller's channel) are not chains and are covered by the
correspondence streams only -/
def expected : List (String × Option Nat) := [
  ("closest.Closest", some 0), ("closest.ClosestN", some 0), ("fastaio.Consensus", none), ("sam.Indels", none),
  ("sam.ToMultiAlign", some 1), ("sam.ToPairAlign", some 2), ("sam.Variants", some 2), ("snps.SNPs", some 1),
  ("updown.fastaToUDLList", none), ("updown.readFastaToUDLChan", none), ("updown.List", some 1),
  ("updown.TopRanking", some 0), ("variants.Variants", some 1)]

theorem drivers_conform : (pipes.map fun p => (p.1, chain p)) = expected := by decide +kernel

/-- the inner readers of `updown topranking` still have an arm for their internal error channel in every stage but the last
of `fastaToUDLList` (which only waits for its own collector) -/
theorem inner_error_arms :
    (pipes.filter fun p => p.1 == "updown.readFastaToUDLChan").all
      (fun p => p.2.2.2.1.all fun st => st.any fun a => a.1 == "cInternalErr" && a.2.2.2.2) = true := by decide +kernel

/-! the check is not vacuous: each of these edits of `snps.SNPs` is refused -/
def snpsLike (stage2 : List Arm) (writerChans : List String) (cap : String) : Pipe :=
  ("snps.SNPs",
    [("cErr", cap), ("cFR", "0"), ("cFRDone", "0"), ("cSNPs", "n"), ("cSNPsDone", "0"), ("cWriteDone", "0")],
    [("go", false, "fastaio.ReadEncodeAlignment", "", ["cFR", "cErr", "cFRDone"]),
     ("go", false, "writeOutput", "", writerChans),
     ("worker", true, "getSNPs", "wgSNPs", ["cFR", "cSNPs", "cErr"]),
     ("waiter", false, "", "wgSNPs", ["cSNPsDone"])],
    [[("cErr", true, [], false, true), ("cFRDone", false, ["cFR"], true, false)],
     stage2,
     [("cErr", true, [], false, true), ("cWriteDone", false, [], true, false)]],
    "return nil")
example : chain (snpsLike [("cErr", true, [], false, true), ("cSNPsDone", false, ["cSNPs"], true, false)] ["cSNPs", "cErr", "cWriteDone"] "0") = some 1 := by decide +kernel
/-- the stage-2 select without its error arm -/
example : chain (snpsLike [("cSNPsDone", false, ["cSNPs"], true, false)] ["cSNPs", "cErr", "cWriteDone"] "0") = none := by decide +kernel
/-- stage 2 closes the wrong channel -/
example : chain (snpsLike [("cErr", true, [], false, true), ("cSNPsDone", false, ["cFR"], true, false)] ["cSNPs", "cErr", "cWriteDone"] "0") = none := by decide +kernel
/-- stage 2 forgets to close -/
example : chain (snpsLike [("cErr", true, [], false, true), ("cSNPsDone", false, [], true, false)] ["cSNPs", "cErr", "cWriteDone"] "0") = none := by decide +kernel
/-- the writer launched without the error channel -/
example : chain (snpsLike [("cErr", true, [], false, true), ("cSNPsDone", false, ["cSNPs"], true, false)] ["cSNPs", "cWriteDone"] "0") = none := by decide +kernel
/-- a buffered error channel (a sender would no longer wait for the driver) -/
example : chain (snpsLike [("cErr", true, [], false, true), ("cSNPsDone", false, ["cSNPs"], true, false)] ["cSNPs", "cErr", "cWriteDone"] "n") = none := by decide +kernel

/-! ### the fan-out stages (closest, closest -n, updown topranking)

`Gen.fanouts`: each `splitInput*` ranges over its input channel itself - once, outside any goroutine literal: a single
forwarder, so every query receives the targets in file order (`Lemmas/FanoutProofs.fanout_result`; two forwarders give
schedule-dependent results, `stepTwoForwarders_schedule_dependent`) -, launches its per-query goroutines by plain
`go f(...)` in a loop, and makes the per-query channels unbuffered. -/
def expectedFanouts : List (String × List String × Nat × List (String × Bool) × List String) := [
  ("closest.splitInput", ["cIn"], 0, [("findClosest", true)], ["0"]),
  ("closest.splitInputN", ["cIn"], 0, [("findClosestN", true)], ["0"]),
  ("updown.splitInput", ["cIn"], 0, [("findUpDownCatchmentPushDistance", true), ("findUpDownCatchment", true)], ["0"])]

theorem fanouts_conform : (fanouts == expectedFanouts) = true := by decide +kernel

/-! ### every pool has at least one worker

The every-schedule theorems assume at least one worker per pool, and the assumption is needed
(`Lemmas/SchedProofs.zero_workers_lose_record`: the driver returns nil with a record still in a channel;
`zero_workers_deadlock`). `Gen.poolSizes`: every wait group of pkg/ is sized by `runtime.NumCPU()`, by the constant 1, or
by a `threads` parameter that the function first makes usable (`if threads < 1 { threads = ... }`, fix 250355f - before
it `--threads 0` printed an empty result with exit status 0 for `variants` and hung the three `sam` commands). -/
def poolSized (e : String × List String × Bool) : Bool :=
  e.2.1.all fun a => a == "runtime.NumCPU()" || a == "1" || (a == "threads" && e.2.2)

theorem pools_have_workers : poolSizes.all poolSized = true := by decide +kernel

/-- not vacuous: a pool sized by an unchecked parameter is refused -/
example : poolSized ("sam.ToMultiAlign", ["threads"], false) = false := by decide +kernel

end Gofasta.Props.Pipes
