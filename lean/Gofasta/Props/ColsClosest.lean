import Gofasta.Gen.ColsClosest
import Gofasta.Model.Closest
/-
The per-column code of the comparison loops, regenerated from the Go source on every run by the go/ast translator
`cols.go` (harness) into `Gen/Cols.lean`: for `rawDistance`, `snpDistance`, `tn93Distance` the whole loop body as a
function from the two column codes to the counter increments; for the loops that collect mutations (`snps.getSNPs`,
`updown` `getLines`, `variants` `getNucsPair` / `getAAsPair`, `closest.findClosest`) the condition under which a column is
appended. The theorems below say, for ALL natural numbers (no bound on the codes), that the generated functions are the
model's column tests, and that the model's counting loops are folds of the generated steps - so the counting loops of the
model are the source's loops, not a hand copy of them. A change of any of these conditions or increments in the source
changes the generated definitions and breaks an obligation here.
-/
namespace Gofasta.Props.Cols
open Gofasta Gofasta.Model Gofasta.Gen.Cols

def b2n (b : Bool) : Nat := if b then 1 else 0

/-- rawDistance, one column: n counts a differing column, d counts it too and also a column where the query is resolved
and equal to the target -/
theorem raw_col (q t : Nat) :
    closest_rawDistance q t = [b2n (encDiffer q t), b2n (encDiffer q t) + b2n (encResolved q && q == t)] := by
  unfold closest_rawDistance encDiffer encResolved b2n
  generalize decide ((q &&& t) < 16) = a; generalize ((q &&& 8) == 8) = b; generalize (q == t) = c
  cases a <;> cases b <;> cases c <;> rfl

theorem snp_col (q t : Nat) : closest_snpDistance q t = [b2n (encDiffer q t)] := by
  unfold closest_snpDistance encDiffer b2n
  generalize decide ((q &&& t) < 16) = a
  cases a <;> rfl

/-- tn93Distance, one column: (P1, P2, d, L) -/
theorem tn93_col (q t : Nat) :
    closest_tn93Distance q t =
      (if encDiffer q t && encResolved q && encResolved t then
        [b2n ((q ||| t) == 200), b2n (!((q ||| t) == 200) && (q ||| t) == 56), 1, 1]
       else if encResolved q && q == t then [0, 0, 0, 1] else [0, 0, 0, 0]) := by
  unfold closest_tn93Distance encDiffer encResolved b2n
  generalize decide ((q &&& t) < 16) = a; generalize ((q &&& 8) == 8) = b; generalize ((t &&& 8) == 8) = c
  generalize ((q ||| t) == 200) = d; generalize ((q ||| t) == 56) = e; generalize (q == t) = f
  cases a <;> cases b <;> cases c <;> cases d <;> cases e <;> cases f <;> rfl

/-- the model's loops are folds of the generated column steps -/
theorem snpCount_cons (q t : Nat) (qs ts : List Nat) :
    snpCount (q :: qs) (t :: ts) = (closest_snpDistance q t).getD 0 0 + snpCount qs ts := by
  rw [snp_col]; simp [snpCount, b2n]

theorem rawCounts_cons (q t : Nat) (qs ts : List Nat) :
    rawCounts (q :: qs) (t :: ts) =
      ((rawCounts qs ts).1 + (closest_rawDistance q t).getD 0 0, (rawCounts qs ts).2 + (closest_rawDistance q t).getD 1 0) := by
  rw [raw_col]; simp [rawCounts, b2n, Nat.add_assoc]

theorem tnCounts_cons (q t : Nat) (qs ts : List Nat) :
    let c := closest_tn93Distance q t
    let r := tnCounts qs ts
    tnCounts (q :: qs) (t :: ts) = { p1 := r.p1 + c.getD 0 0, p2 := r.p2 + c.getD 1 0, d := r.d + c.getD 2 0, l := r.l + c.getD 3 0 } := by
  intro c r
  show tnCounts (q :: qs) (t :: ts) = _
  simp only [c, tn93_col, tnCounts]
  by_cases h : (encDiffer q t && encResolved q && encResolved t) = true
  · simp [h, b2n, r]
  · by_cases h2 : (encResolved q && q == t) = true
    · simp [h, h2, r]
    · simp [h, h2, r]

/-- the three places where findClosest rebuilds the SNP list use the same test -/
theorem closest_append (q t : Nat) : closest_findClosest q t = [encDiffer q t, encDiffer q t, encDiffer q t] := by
  simp [closest_findClosest, encDiffer]

/-- not vacuous: the two classes of column that the tests separate -/
example : closest_rawDistance 136 72 = [1, 1] ∧ closest_rawDistance 136 136 = [0, 1] ∧ closest_rawDistance 136 240 = [0, 0] := by decide
example : closest_tn93Distance 136 72 = [1, 0, 1, 1] ∧ closest_tn93Distance 40 24 = [0, 1, 1, 1] ∧ closest_tn93Distance 136 24 = [0, 0, 1, 1] := by decide


end Gofasta.Props.Cols
