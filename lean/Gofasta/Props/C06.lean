import Gofasta.Lemmas.TopK
import Gofasta.Lemmas.SortSpec
import Gofasta.Lemmas.Reorder
import Gofasta.Model.Closest
import Gofasta.Spec.Closest
/-
C06 — closest returns exactly the nearest targets under the documented total order.
-/
namespace Gofasta.Props.C06
open Gofasta Model Spec

/-- **C06.topK** — for every strict weak order on hits (distance, then completeness), every K > 0 and
every target file (any order, ties, duplicates), the streaming bounded catchment of `closest -n K`
returns exactly the first K entries of the stable sort of the whole file: nothing that belongs in the
top K is ever lost at the capacity boundary, and ties keep file order. -/
theorem topK (lt : Hit → Hit → Bool) (hS : SWO lt) (K : Nat) (hK : 0 < K) (hits : List Hit) :
    topKG lt K hits = (sortStable lt hits).take K :=
  topK_spec hS K hK hits

/-- **C06.topK (declarative)** — "the stable sort" is not a choice of algorithm: any list that is a permutation of
the target file, ordered by the strict weak order, and keeps tied targets in file order is that sort; so the
catchment is the first K entries of *the* ranking by (order, file position) -/
theorem topK_characterised (lt : Hit → Hit → Bool) (hS : SWO lt) (K : Nat) (hK : 0 < K) (hits ranked : List Hit)
    (hp : ranked.Perm hits) (hs : Sorted lt ranked) (hst : ∀ z, ranked.filter (tied lt z) = hits.filter (tied lt z)) :
    topKG lt K hits = ranked.take K := by
  rw [topK lt hS K hK hits, sortStable_unique hS hits ranked hp hs hst]

/-- the model's `findClosestN` is that catchment after the `-d` filter -/
theorem findClosestN_eq (K : Nat) (maxd : Option (Nat × Nat)) (hits : List Hit) :
    findClosestN K maxd hits = topKG hitLt K (match maxd with
      | none => hits
      | some (n, d) => hits.filter fun h => !h.dist.beyond n d) := by
  unfold findClosestN topKG catchFinish catchStep
  cases maxd <;> rfl

/-- **C06.withinD** — with `-d`, no returned target lies beyond D, and an undefined distance is
never returned (it is "within" no D) -/
theorem withinD (K : Nat) (n d : Nat) (hits : List Hit) (hS : SWO hitLt) (hK : 0 < K) :
    ∀ h ∈ findClosestN K (some (n, d)) hits, h.dist.beyond n d = false := by
  intro h hh
  rw [findClosestN_eq, topK hitLt hS K hK] at hh
  have h1 : h ∈ sortStable hitLt (hits.filter fun h => !h.dist.beyond n d) := List.mem_of_mem_take hh
  -- members of the sorted list are members of the filtered list
  have mem_ins : ∀ (x y : Hit) (l : List Hit), y ∈ insSorted hitLt x l → y = x ∨ y ∈ l := by
    intro x y l
    induction l with
    | nil => intro hy; simp [insSorted] at hy; exact Or.inl hy
    | cons z t ih =>
      intro hy
      simp only [insSorted] at hy
      split at hy
      · simpa using hy
      · rcases List.mem_cons.1 hy with rfl | hy'
        · exact Or.inr (by simp)
        · rcases ih hy' with h1 | h1
          · exact Or.inl h1
          · exact Or.inr (by simp [h1])
  have mem_sort : ∀ (l : List Hit) (y : Hit), y ∈ sortStable hitLt l → y ∈ l := by
    intro l
    induction l using rev_ind with
    | nil => intro y hy; simp [sortStable] at hy
    | snoc l x ih =>
      intro y hy
      rw [sortStable_append_singleton] at hy
      rcases mem_ins x y _ hy with rfl | hy'
      · simp
      · exact List.mem_append_left _ (ih y hy')
  have := mem_sort _ h h1
  simp only [List.mem_filter, Bool.not_eq_true'] at this
  exact this.2

theorem beyond_of_undef (v : DVal) (n d : Nat) (h : v.undef = true) : v.beyond n d = true := by
  simp [DVal.beyond, h]

/-- **C06.undefined_never_displaces** — an undefined distance is never strictly closer than
anything, and every defined distance is strictly closer than an undefined one -/
theorem undefined_never_displaces (a b : DVal) (ha : a.undef = true) :
    a.lt b = false ∧ (b.undef = false → b.lt a = true) := by
  constructor
  · simp [DVal.lt, ha]
  · intro hb; simp [DVal.lt, ha, hb]

/-- **C06.plain_is_n1** — the running best of plain `closest` is the `-n 1` catchment -/
theorem plain_is_n1 : ∀ (hits : List Hit) (acc : Option Hit),
    hits.foldl (fun best h => match best with
      | none => some h
      | some b => if h.dist.lt b.dist then some h
                  else if h.dist.eq b.dist && h.score > b.score then some h else some b) acc
    = (hits.foldl (catchStepG hitLt 1) (match acc with | none => [] | some b => [b])).head? := by
  intro hits
  induction hits with
  | nil => intro acc; cases acc <;> rfl
  | cons h t ih =>
    intro acc
    cases acc with
    | none =>
      simp only [List.foldl_cons]
      rw [ih (some h)]
      simp [catchStepG, sortStable, insSorted]
    | some b =>
      simp only [List.foldl_cons]
      by_cases h1 : h.dist.lt b.dist = true
      · simp only [h1, if_true]
        rw [ih (some h)]
        simp [catchStepG, hitLt, h1, sortStable, insSorted]
      · have h1' : h.dist.lt b.dist = false := by simpa using h1
        simp only [h1', Bool.false_eq_true, if_false]
        by_cases h2 : (h.dist.eq b.dist && decide (h.score > b.score)) = true
        · simp only [h2, if_true]
          rw [ih (some h)]
          simp [catchStepG, hitLt, h1', h2, sortStable, insSorted]
        · have h2' : (h.dist.eq b.dist && decide (h.score > b.score)) = false := by simpa using h2
          simp only [h2', Bool.false_eq_true, if_false]
          rw [ih (some b)]
          simp [catchStepG, hitLt, h1', h2']

theorem findClosest_eq (hits : List Hit) : findClosest hits = (hits.foldl (catchStepG hitLt 1) []).head? :=
  plain_is_n1 hits none

/-! ### the order on snp distances (naturals) is a strict weak order -/

/-- hits compared on a natural-number distance: the `snp` measure -/
def natLt (a b : Nat × Nat) : Bool := a.1 < b.1 || (a.1 == b.1 && a.2 > b.2)

theorem natLt_swo : SWO natLt := by
  constructor
  · intro a b h
    simp [natLt] at h ⊢
    omega
  · intro a b c h
    simp [natLt] at h ⊢
    omega

/-- **C06.rows_in_query_order** — results are placed by query index, whatever order the per-query
workers finish in (the result array `QResultsArray[result.qidx] = result`) -/
theorem rows_in_query_order (rows : Nat → String) (n : Nat) (arrival : List Nat)
    (h : arrival.Perm (List.range n)) :
    Reorder.run (arrival.map fun i => (i, rows i)) = (List.range n).map rows :=
  Reorder.run_perm rows n arrival h

/-- non-vacuity: three targets, a tie on distance broken by completeness, K = 2 -/
example : (topKG natLt 2 [(3, 10), (1, 5), (1, 9), (0, 1)]) = [(0, 1), (1, 9)] := by decide

end Gofasta.Props.C06
