import Gofasta.Lemmas.Enc
import Gofasta.Lemmas.Reorder
import Gofasta.Model.Snps
import Gofasta.Spec.Snps
/-
C03 — snps reports exactly the certainly-different sites, in reference order.
-/
namespace Gofasta.Props.C03
open Gofasta Base Model Spec Lemmas

/-- well-formed FASTA symbols under a gap mode: bytes the encoder accepts -/
def Accepted (hard : Bool) (s : List Nat) : Prop := ∀ b ∈ s, b < 256 ∧ enc hard b ≠ 0

instance (hard : Bool) (s : List Nat) : Decidable (Accepted hard s) := by unfold Accepted; infer_instance

theorem rowFrom (hard : Bool) : ∀ (ref q : List Nat) (i : Nat), Accepted hard ref → Accepted hard q →
    snpsRowEnc i (ref.map (enc hard)) (q.map (enc hard)) = specSnpsFrom hard i ref q := by
  intro ref
  induction ref with
  | nil => intro q i _ _; simp [snpsRowEnc, specSnpsFrom]
  | cons r rs ih =>
    intro q i hr hq
    cases q with
    | nil => simp [snpsRowEnc, specSnpsFrom]
    | cons c cs =>
      have hr0 := hr r (by simp)
      have hc0 := hq c (by simp)
      have hrs : Accepted hard rs := fun b hb => hr b (by simp [hb])
      have hcs : Accepted hard cs := fun b hb => hq b (by simp [hb])
      simp only [List.map_cons, snpsRowEnc, specSnpsFrom]
      rw [encDiffer_iff hard r c hr0.1 hc0.1 hr0.2 hc0.2, dec_enc hard r hr0.1 hr0.2,
        dec_enc hard c hc0.1 hc0.2, ih cs (i + 1) hrs hcs]
      rfl

/-- **C03.row** — for every reference and query over the accepted alphabet (either case, both gap
modes, any width) the model's row is exactly the list of columns with disjoint base sets, each
with the upper-cased symbols. -/
theorem row (hard : Bool) (ref q : List Nat) (hr : Accepted hard ref) (hq : Accepted hard q) :
    snpsRow hard ref q = specSnps hard ref q := rowFrom hard ref q 0 hr hq

/-- positions listed by the specification are strictly ascending and start above the offset -/
theorem spec_ascending (hard : Bool) : ∀ (ref q : List Nat) (i : Nat),
    ((specSnpsFrom hard i ref q).map (·.1)).Pairwise (· < ·) ∧
    ∀ p ∈ (specSnpsFrom hard i ref q).map (·.1), i < p := by
  intro ref
  induction ref with
  | nil => intro q i; simp [specSnpsFrom]
  | cons r rs ih =>
    intro q i
    cases q with
    | nil => simp [specSnpsFrom]
    | cons c cs =>
      obtain ⟨h1, h2⟩ := ih cs (i + 1)
      simp only [specSnpsFrom]
      split
      · refine ⟨?_, ?_⟩
        · simp only [List.map_cons, List.pairwise_cons]
          exact ⟨fun p hp => h2 p hp, h1⟩
        · intro p hp
          simp only [List.map_cons, List.mem_cons] at hp
          rcases hp with rfl | hp
          · omega
          · have := h2 p hp; omega
      · exact ⟨h1, fun p hp => by have := h2 p hp; omega⟩

/-- **C03.ascending** — the model lists positions in strictly ascending order -/
theorem ascending (hard : Bool) (ref q : List Nat) (hr : Accepted hard ref) (hq : Accepted hard q) :
    ((snpsRow hard ref q).map (·.1)).Pairwise (· < ·) := by
  rw [row hard ref q hr hq]; exact (spec_ascending hard ref q 0).1

theorem upper_lt (b : Nat) (hb : b < 256) : upper b < 256 := by
  unfold upper; split <;> omega

/-- **C03.case_insensitive** — upper-casing the input (reference and/or query) never changes a row -/
theorem case_insensitive (hard : Bool) (ref q : List Nat) (hr : ∀ b ∈ ref, b < 256) (hq : ∀ b ∈ q, b < 256) :
    snpsRow hard (ref.map upper) (q.map upper) = snpsRow hard ref q := by
  unfold snpsRow
  have h : ∀ (l : List Nat), (∀ b ∈ l, b < 256) → (l.map upper).map (enc hard) = l.map (enc hard) := by
    intro l hl
    rw [List.map_map]
    apply List.map_congr_left
    intro b hb
    exact enc_upper hard b (hl b hb)
  rw [h ref hr, h q hq]

/-- **C03.rows_in_input_order** — whatever order the workers deliver rows in, the writer emits
row 0, row 1, … (L-reorder instance for snps.writeOutput) -/
theorem rows_in_input_order (rows : Nat → String) (n : Nat) (arrival : List Nat)
    (h : arrival.Perm (List.range n)) :
    Reorder.run (arrival.map fun i => (i, rows i)) = (List.range n).map rows :=
  Reorder.run_perm rows n arrival h

/-- non-vacuity: a concrete alignment meets the hypotheses and has a non-trivial row -/
example : Accepted false [65, 67, 103, 84, 82] ∧ Accepted false [65, 84, 97, 45, 89] ∧
    snpsRow false [65, 67, 103, 84, 82] [65, 84, 97, 45, 89] = [(2, 67, 84), (3, 71, 65), (5, 82, 89)] := by
  refine ⟨?_, ?_, ?_⟩ <;> decide

end Gofasta.Props.C03
