import Gofasta.Lemmas.Enc
import Gofasta.Model.Variants
import Gofasta.Spec.Variants
import Gofasta.Lemmas.Indels
/-
C05 — indels are reported in reference coordinates whatever the alignment's columns.
-/
namespace Gofasta.Props.C05
open Gofasta Base Model Spec

/-- a column that is a gap in both rows does not change the scanner state -/
theorem bothGap_noop (s : IndelState) : indelStep s (gapCode, gapCode) = s := by
  simp [indelStep]

/-- folding over columns = folding over the columns that are not gaps in both rows -/
theorem fold_skip_bothGap : ∀ (cols : List (Nat × Nat)) (s : IndelState),
    cols.foldl indelStep s = (cols.filter fun c => !(c.1 == gapCode && c.2 == gapCode)).foldl indelStep s := by
  intro cols
  induction cols with
  | nil => intro s; rfl
  | cons c t ih =>
    intro s
    obtain ⟨r, q⟩ := c
    by_cases h : (r == gapCode && q == gapCode) = true
    · have hr : r = gapCode := by simp only [Bool.and_eq_true, beq_iff_eq] at h; exact h.1
      have hq : q = gapCode := by simp only [Bool.and_eq_true, beq_iff_eq] at h; exact h.2
      subst hr; subst hq
      simp only [List.foldl_cons, bothGap_noop, List.filter_cons]
      simpa using ih s
    · have h' : (r == gapCode && q == gapCode) = false := by simpa using h
      simp only [List.foldl_cons, List.filter_cons, h', Bool.not_false, if_true]
      exact ih _

/-- the indel list as a function of the zipped columns -/
def indelsOfCols (cols : List (Nat × Nat)) : List Variant :=
  let s := cols.foldl indelStep {}
  if s.insOpen then s.out ++ [{ kind := .ins, pos := (s.insStart : Int), len := s.insLen }] else s.out

theorem getIndelsPair_eq (ref q : List Nat) : getIndelsPair ref q = indelsOfCols (ref.zip q) := rfl

/-- **C05.column_invariance** — two alignments of the same query to the same reference that differ
only by columns that are gaps in both rows (other sequences' insertions in an MSA, or nothing at all
in a SAM-derived pair) give exactly the same insertion and deletion records: every reported position
depends only on the pairwise relation. -/
theorem column_invariance (ref q ref' q' : List Nat)
    (h : (ref.zip q).filter (fun c => !(c.1 == gapCode && c.2 == gapCode)) =
         (ref'.zip q').filter (fun c => !(c.1 == gapCode && c.2 == gapCode))) :
    getIndelsPair ref q = getIndelsPair ref' q' := by
  rw [getIndelsPair_eq, getIndelsPair_eq]
  unfold indelsOfCols
  rw [fold_skip_bothGap (ref.zip q), fold_skip_bothGap (ref'.zip q'), h]

/-- inserting one both-gap column anywhere -/
theorem insert_bothGap_column (r1 r2 q1 q2 : List Nat) (hl : r1.length = q1.length) :
    getIndelsPair (r1 ++ gapCode :: r2) (q1 ++ gapCode :: q2) = getIndelsPair (r1 ++ r2) (q1 ++ q2) := by
  apply column_invariance
  rw [List.zip_append hl, List.zip_append hl]
  simp [List.filter_append]

/-- the running reference count is the number of reference (non-gap) columns consumed -/
theorem refBases_counts : ∀ (cols : List (Nat × Nat)) (s : IndelState),
    (cols.foldl indelStep s).refBases = s.refBases + (cols.filter fun c => c.1 ≠ gapCode).length := by
  intro cols
  induction cols with
  | nil => intro s; simp
  | cons c t ih =>
    intro s
    obtain ⟨r, q⟩ := c
    simp only [List.foldl_cons]
    rw [ih]
    by_cases hr : r = gapCode
    · subst hr
      have : (indelStep s (gapCode, q)).refBases = s.refBases := by
        simp only [indelStep, if_true]
        by_cases hq : q = gapCode
        · simp [hq]
        · by_cases ho : s.insOpen = true <;> simp [hq, ho]
      simp [this]
    · have : (indelStep s (r, q)).refBases = s.refBases + 1 := by
        simp only [indelStep, hr, if_false]
        split <;> split <;> (try split) <;> simp
      simp [this, hr]; omega

/-- **C05.ins_position** — when an insertion opens, the position recorded for it is the number of
reference bases to its left (not an alignment column): an insertion that starts right after the
columns `pre` is recorded at `#reference bases in pre`. -/
theorem ins_position (pre : List (Nat × Nat)) (x : Nat) (hx : x ≠ gapCode)
    (hclosed : (pre.foldl indelStep {}).insOpen = false) :
    (indelStep (pre.foldl indelStep {}) (gapCode, x)).insOpen = true ∧
    (indelStep (pre.foldl indelStep {}) (gapCode, x)).insStart = (pre.filter fun c => c.1 ≠ gapCode).length := by
  have h := refBases_counts pre {}
  simp only [indelStep, hx, if_false, hclosed, Bool.false_eq_true, if_true]
  simp at h
  simp [h]

/-- non-vacuity and the three shapes of the finding: an insertion after an earlier reference-gap
column, inside a wider gap block, and abutting the end -/
example : (getIndelsPair
      ((stringToBytes "ACGTAC--GTACGTAG-ATACGT--").map (enc false))
      ((stringToBytes "ACGTACTTGTACGTAGCATACGTGG").map (enc false))).map (fun v => (v.kind, v.pos, v.len))
    = [(.ins, 6, 2), (.ins, 14, 1), (.ins, 20, 2)] := by decide +kernel

example : (getIndelsPair ((stringToBytes "GCAG---ACG").map (enc false)) ((stringToBytes "GCAG--GACG").map (enc false))).map
    (fun v => (v.kind, v.pos, v.len)) = [(.ins, 4, 1)] := by decide +kernel

end Gofasta.Props.C05

namespace Gofasta.Props.C05
open Gofasta Base Model Spec Lemmas

def Accepted (s : List Nat) : Prop := ∀ b ∈ s, b < 256 ∧ enc false b ≠ 0

/-- the columns that are not gaps in both rows -/
def keepCol (c : Nat × Nat) : Bool := !(c.1 == gapCode && c.2 == gapCode)

theorem insOf_result (s : IndelState) :
    insOf (if s.insOpen then s.out ++ [({ kind := .ins, pos := (s.insStart : Int), len := s.insLen } : Variant)] else s.out) =
      insFinish (insProj s) := by
  unfold insFinish insProj
  by_cases h : s.insOpen = true
  · simp [h, insOf_append, insOf]
  · simp [h]

theorem delOf_result (s : IndelState) :
    delOf (if s.insOpen then s.out ++ [({ kind := .ins, pos := (s.insStart : Int), len := s.insLen } : Variant)] else s.out) =
      (delProj s).out := by
  unfold delProj
  by_cases h : s.insOpen = true
  · simp [h, delOf_append, delOf]
  · simp [h]

/-- **C05.ins_spec** — on encoded rows: the insertion records are exactly the maximal runs of (reference gap, query
base) columns of the pair with its both-gap columns removed, each at the number of reference bases to its left -/
theorem ins_spec_enc (ref q : List Nat) :
    insOf (getIndelsPair ref q) = specInsBy (· == gapCode) 0 ((ref.zip q).filter keepCol) := by
  rw [getIndelsPair_eq]
  unfold indelsOfCols
  simp only []
  have hk : (fun c : Nat × Nat => !(c.1 == gapCode && c.2 == gapCode)) = keepCol := rfl
  rw [insOf_result, fold_skip_bothGap, hk, insProj_fold]
  have hnorm : ∀ c ∈ (ref.zip q).filter keepCol, ¬ (c.1 = gapCode ∧ c.2 = gapCode) := by
    intro c hc
    have := (List.mem_filter.1 hc).2
    simp only [keepCol, Bool.not_eq_true', Bool.and_eq_false_iff, beq_eq_false_iff_ne] at this
    intro ⟨h1, h2⟩
    rcases this with h | h
    · exact h h1
    · exact h h2
  have := (insMachine_spec ((ref.zip q).filter keepCol) hnorm).2 0 0 0 []
  simp only [List.nil_append] at this
  exact this

/-- **C05.del_spec** — on encoded rows: the deletion records are exactly the maximal runs of query gaps in the
reference-column subsequence that contain neither the first nor the last reference base -/
theorem del_spec_enc (ref q : List Nat) :
    delOf (getIndelsPair ref q) = specDelsBy (· == gapCode) (ref.zip q) := by
  rw [getIndelsPair_eq]
  unfold indelsOfCols
  simp only []
  rw [delOf_result, delProj_fold, del_fold_refcols]
  have := (delMachine_spec (refColumnQueryBy (· == gapCode) (ref.zip q)).length (refColumnQueryBy (· == gapCode) (ref.zip q)) 0
    (by simp)).2 0 0 []
  simpa [delProj, delOf, specDelsBy] using this

theorem normalise_eq_filter : ∀ (ref q : List Nat), normalise ref q = (ref.zip q).filter fun c => !(isGap c.1 && isGap c.2) := by
  intro ref
  induction ref with
  | nil => intro q; simp [normalise]
  | cons r rs ih =>
    intro q
    cases q with
    | nil => simp [normalise]
    | cons x xs =>
      simp only [normalise, List.zip_cons_cons, List.filter_cons]
      cases h : (isGap r && isGap x) <;> simp [ih]

theorem zip_map_enc (ref q : List Nat) :
    (ref.map (enc false)).zip (q.map (enc false)) = (ref.zip q).map (Prod.map (enc false) (enc false)) := by
  rw [List.zip_map]

theorem isGap_enc (b : Nat) (hb : b < 256 ∧ enc false b ≠ 0) : (enc false b == gapCode) = isGap b := by
  have := enc_gap_iff b hb.1 hb.2
  simpa [gapCode, isGap] using this

theorem mem_zip_fst {a b : List Nat} {c : Nat × Nat} (h : c ∈ a.zip b) : c.1 ∈ a ∧ c.2 ∈ b := by
  have := List.of_mem_zip h
  exact this

/-- **C05.indels_spec (insertions)** — for every gapped reference row and query row over the accepted alphabet, the
`ins:` records of the model are the declared maximal runs of the normalised pair -/
theorem ins_spec (ref q : List Nat) (hr : Accepted ref) (hq : Accepted q) :
    insOf (getIndelsPair (ref.map (enc false)) (q.map (enc false))) = specIns 0 (normalise ref q) := by
  rw [ins_spec_enc, zip_map_enc, normalise_eq_filter]
  have hcols : ∀ c ∈ ref.zip q, (c.1 < 256 ∧ enc false c.1 ≠ 0) ∧ (c.2 < 256 ∧ enc false c.2 ≠ 0) := by
    intro c hc
    have := mem_zip_fst hc
    exact ⟨hr c.1 this.1, hq c.2 this.2⟩
  -- the filter commutes with the encoding
  have hfilter : ((ref.zip q).map (Prod.map (enc false) (enc false))).filter keepCol =
      ((ref.zip q).filter fun c => !(isGap c.1 && isGap c.2)).map (Prod.map (enc false) (enc false)) := by
    rw [List.filter_map]
    congr 1
    apply List.filter_congr
    intro c hc
    have h := hcols c hc
    simp only [Function.comp, keepCol, Prod.map_fst, Prod.map_snd, isGap_enc c.1 h.1, isGap_enc c.2 h.2]
  rw [hfilter]
  unfold specIns
  apply specInsBy_map (enc false) isGap (· == gapCode) _ _ 0 (Nat.le_refl _)
  intro c hc
  have hc' : c ∈ ref.zip q := (List.mem_filter.1 hc).1
  exact isGap_enc c.1 (hcols c hc').1

/-- **C05.indels_spec (deletions)** -/
theorem del_spec (ref q : List Nat) (hr : Accepted ref) (hq : Accepted q) :
    delOf (getIndelsPair (ref.map (enc false)) (q.map (enc false))) = specDelsBy isGap (ref.zip q) := by
  rw [del_spec_enc, zip_map_enc]
  have hcols : ∀ c ∈ ref.zip q, (c.1 < 256 ∧ enc false c.1 ≠ 0) ∧ (c.2 < 256 ∧ enc false c.2 ≠ 0) := by
    intro c hc
    have := mem_zip_fst hc
    exact ⟨hr c.1 this.1, hq c.2 this.2⟩
  have hq' : refColumnQueryBy (· == gapCode) ((ref.zip q).map (Prod.map (enc false) (enc false))) =
      (refColumnQueryBy isGap (ref.zip q)).map (enc false) := by
    unfold refColumnQueryBy
    rw [List.filter_map, List.map_map, List.map_map]
    congr 1
    apply List.filter_congr
    intro c hc
    simp only [Function.comp, Prod.map_fst, isGap_enc c.1 (hcols c hc).1]
  unfold specDelsBy
  simp only [hq', List.length_map]
  congr 1
  apply specDelRunsBy_map (enc false) isGap (· == gapCode) _ _ 0 (Nat.le_refl _)
  intro b hb
  unfold refColumnQueryBy at hb
  obtain ⟨c, hc, rfl⟩ := List.mem_map.1 hb
  exact isGap_enc c.2 (hcols c (List.mem_filter.1 hc).1).2

end Gofasta.Props.C05
