import Gofasta.Lemmas.Enc
import Gofasta.Model.Variants
import Gofasta.Spec.Variants
/-
C05 — indels are reported in reference coordinates whatever the alignment's columns.
-/
namespace Gofasta.Props.C05
open Gofasta Base Model Spec

/-- a column that is a gap in both rows does not change the scanner state -/
theorem bothGap_noop (s : IndelState) : indelStep s (gapCode, gapCode) = s := by
  simp [indelStep]

/-- folding over columns = folding over the columns that are not gaps in both rows -/
theorem fold_skip_bothGap : ∀ (cols : List (Nat × Nat)) (s : IndelState),
    cols.foldl indelStep s = (cols.filter fun c => !(c.1 == gapCode && c.2 == gapCode)).foldl indelStep s := by
  intro cols
  induction cols with
  | nil => intro s; rfl
  | cons c t ih =>
    intro s
    obtain ⟨r, q⟩ := c
    by_cases h : (r == gapCode && q == gapCode) = true
    · have hr : r = gapCode := by simp only [Bool.and_eq_true, beq_iff_eq] at h; exact h.1
      have hq : q = gapCode := by simp only [Bool.and_eq_true, beq_iff_eq] at h; exact h.2
      subst hr; subst hq
      simp only [List.foldl_cons, bothGap_noop, List.filter_cons]
      simpa using ih s
    · have h' : (r == gapCode && q == gapCode) = false := by simpa using h
      simp only [List.foldl_cons, List.filter_cons, h', Bool.not_false, if_true]
      exact ih _

/-- the indel list as a function of the zipped columns -/
def indelsOfCols (cols : List (Nat × Nat)) : List Variant :=
  let s := cols.foldl indelStep {}
  if s.insOpen then s.out ++ [{ kind := .ins, pos := (s.insStart : Int), len := s.insLen }] else s.out

theorem getIndelsPair_eq (ref q : List Nat) : getIndelsPair ref q = indelsOfCols (ref.zip q) := rfl

/-- **C05.column_invariance** — two alignments of the same query to the same reference that differ
only by columns that are gaps in both rows (other sequences' insertions in an MSA, or nothing at all
in a SAM-derived pair) give exactly the same insertion and deletion records: every reported position
depends only on the pairwise relation. -/
theorem column_invariance (ref q ref' q' : List Nat)
    (h : (ref.zip q).filter (fun c => !(c.1 == gapCode && c.2 == gapCode)) =
         (ref'.zip q').filter (fun c => !(c.1 == gapCode && c.2 == gapCode))) :
    getIndelsPair ref q = getIndelsPair ref' q' := by
  rw [getIndelsPair_eq, getIndelsPair_eq]
  unfold indelsOfCols
  rw [fold_skip_bothGap (ref.zip q), fold_skip_bothGap (ref'.zip q'), h]

/-- inserting one both-gap column anywhere -/
theorem insert_bothGap_column (r1 r2 q1 q2 : List Nat) (hl : r1.length = q1.length) :
    getIndelsPair (r1 ++ gapCode :: r2) (q1 ++ gapCode :: q2) = getIndelsPair (r1 ++ r2) (q1 ++ q2) := by
  apply column_invariance
  rw [List.zip_append hl, List.zip_append hl]
  simp [List.filter_append]

/-- the running reference count is the number of reference (non-gap) columns consumed -/
theorem refBases_counts : ∀ (cols : List (Nat × Nat)) (s : IndelState),
    (cols.foldl indelStep s).refBases = s.refBases + (cols.filter fun c => c.1 ≠ gapCode).length := by
  intro cols
  induction cols with
  | nil => intro s; simp
  | cons c t ih =>
    intro s
    obtain ⟨r, q⟩ := c
    simp only [List.foldl_cons]
    rw [ih]
    by_cases hr : r = gapCode
    · subst hr
      have : (indelStep s (gapCode, q)).refBases = s.refBases := by
        simp only [indelStep, if_true]
        by_cases hq : q = gapCode
        · simp [hq]
        · by_cases ho : s.insOpen = true <;> simp [hq, ho]
      simp [this]
    · have : (indelStep s (r, q)).refBases = s.refBases + 1 := by
        simp only [indelStep, hr, if_false]
        split <;> split <;> (try split) <;> simp
      simp [this, hr]; omega

/-- **C05.ins_position** — when an insertion opens, the position recorded for it is the number of
reference bases to its left (not an alignment column): an insertion that starts right after the
columns `pre` is recorded at `#reference bases in pre`. -/
theorem ins_position (pre : List (Nat × Nat)) (x : Nat) (hx : x ≠ gapCode)
    (hclosed : (pre.foldl indelStep {}).insOpen = false) :
    (indelStep (pre.foldl indelStep {}) (gapCode, x)).insOpen = true ∧
    (indelStep (pre.foldl indelStep {}) (gapCode, x)).insStart = (pre.filter fun c => c.1 ≠ gapCode).length := by
  have h := refBases_counts pre {}
  simp only [indelStep, hx, if_false, hclosed, Bool.false_eq_true, if_true]
  simp at h
  simp [h]

/-- non-vacuity and the three shapes of the finding: an insertion after an earlier reference-gap
column, inside a wider gap block, and abutting the end -/
example : (getIndelsPair
      ((stringToBytes "ACGTAC--GTACGTAG-ATACGT--").map (enc false))
      ((stringToBytes "ACGTACTTGTACGTAGCATACGTGG").map (enc false))).map (fun v => (v.kind, v.pos, v.len))
    = [(.ins, 6, 2), (.ins, 14, 1), (.ins, 20, 2)] := by decide +kernel

example : (getIndelsPair ((stringToBytes "GCAG---ACG").map (enc false)) ((stringToBytes "GCAG--GACG").map (enc false))).map
    (fun v => (v.kind, v.pos, v.len)) = [(.ins, 4, 1)] := by decide +kernel

end Gofasta.Props.C05
