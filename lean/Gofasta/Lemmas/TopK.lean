import Gofasta.Model.Sort
/-
L-topK: for any Boolean strict weak order, the streaming bounded catchment equals
"stable-sort everything, take K".
-/
namespace Gofasta.Model
variable {α : Type} (lt : α → α → Bool)

/-- strict weak order, as Booleans -/
structure SWO : Prop where
  asymm : ∀ a b, lt a b = true → lt b a = false
  negtrans : ∀ a b c, lt a b = true → lt a c = true ∨ lt c b = true

def Sorted (l : List α) : Prop := l.Pairwise (fun a b => lt b a = false)

variable {lt}

theorem rev_ind {β : Type} {P : List β → Prop} (nil : P []) (snoc : ∀ l x, P l → P (l ++ [x])) : ∀ l, P l := by
  intro l
  suffices h : ∀ r : List β, P r.reverse by simpa using h l.reverse
  intro r
  induction r with
  | nil => simpa using nil
  | cons x t ih => simpa using snoc _ x ih

theorem SWO.trans (h : SWO lt) {a b c : α} (hab : lt a b = true) (hbc : lt b c = true) : lt a c = true := by
  rcases h.negtrans a b c hab with h1 | h1
  · exact h1
  · have := h.asymm _ _ hbc; simp [this] at h1

@[simp] theorem length_insSorted (x : α) (l : List α) : (insSorted lt x l).length = l.length + 1 := by
  induction l with
  | nil => rfl
  | cons y t ih => simp only [insSorted]; split <;> simp [ih]

theorem insSorted_append_of_not_lt (x : α) (p s : List α) (hp : ∀ y ∈ p, lt x y = false) :
    insSorted lt x (p ++ s) = p ++ insSorted lt x s := by
  induction p with
  | nil => rfl
  | cons y t ih =>
    have hy : lt x y = false := hp y (by simp)
    simp [insSorted, hy, ih (fun z hz => hp z (by simp [hz]))]

theorem sortStable_append_singleton (l : List α) (x : α) : sortStable lt (l ++ [x]) = insSorted lt x (sortStable lt l) := by
  simp [sortStable, List.foldl_append]

@[simp] theorem length_sortStable (l : List α) : (sortStable lt l).length = l.length := by
  induction l using rev_ind with
  | nil => rfl
  | snoc l x ih => simp [sortStable_append_singleton, ih]

theorem foldl_insSorted_sorted : ∀ (l acc : List α), Sorted lt (acc ++ l) →
    l.foldl (fun acc x => insSorted lt x acc) acc = acc ++ l := by
  intro l
  induction l with
  | nil => intro acc _; simp
  | cons x t ih =>
    intro acc hs
    have hx : ∀ y ∈ acc, lt x y = false := by
      intro y hy
      have := List.pairwise_append.1 hs
      exact this.2.2 y hy x (by simp)
    have h1 : insSorted lt x acc = acc ++ [x] := by
      have := insSorted_append_of_not_lt (lt := lt) x acc [] hx
      simpa [insSorted] using this
    simp only [List.foldl_cons, h1]
    have := ih (acc ++ [x]) (by simpa using hs)
    simpa using this

theorem sortStable_of_sorted (l : List α) (h : Sorted lt l) : sortStable lt l = l := by
  have := foldl_insSorted_sorted (lt := lt) l [] (by simpa using h)
  simpa [sortStable] using this

theorem sorted_insSorted (hS : SWO lt) (x : α) (l : List α) (h : Sorted lt l) : Sorted lt (insSorted lt x l) := by
  induction l with
  | nil => simp [insSorted, Sorted]
  | cons y t ih =>
    have ht : Sorted lt t := (List.pairwise_cons.1 h).2
    have hy : ∀ z ∈ t, lt z y = false := (List.pairwise_cons.1 h).1
    simp only [insSorted]
    split
    · rename_i hxy
      refine List.pairwise_cons.2 ⟨?_, h⟩
      intro z hz
      rcases List.mem_cons.1 hz with rfl | hz
      · exact hS.asymm _ _ hxy
      · -- z after y : lt z y = false ; want lt z x = false
        cases hzx : lt z x with
        | false => rfl
        | true => have := hS.trans hzx hxy; simp [hy z hz] at this
    · rename_i hxy
      have hxy' : lt x y = false := by simpa using hxy
      refine List.pairwise_cons.2 ⟨?_, ih ht⟩
      intro z hz
      -- members of insSorted x t are x or members of t
      have : z = x ∨ z ∈ t := by
        clear ih ht hy h
        induction t with
        | nil => simp [insSorted] at hz; exact Or.inl hz
        | cons w u ihu =>
          simp only [insSorted] at hz
          split at hz
          · simpa using hz
          · rcases List.mem_cons.1 hz with rfl | hz'
            · exact Or.inr (by simp)
            · rcases ihu hz' with h1 | h1
              · exact Or.inl h1
              · exact Or.inr (by simp [h1])
      rcases this with rfl | hzt
      · exact hxy'
      · exact hy z hzt

theorem sorted_sortStable (hS : SWO lt) (l : List α) : Sorted lt (sortStable lt l) := by
  induction l using rev_ind with
  | nil => simp [sortStable, Sorted]
  | snoc l x ih => rw [sortStable_append_singleton]; exact sorted_insSorted hS x _ ih

theorem take_insSorted (x : α) : ∀ (l : List α) (K : Nat), (insSorted lt x l).take K = (insSorted lt x (l.take K)).take K := by
  intro l
  induction l with
  | nil => intro K; simp
  | cons y t ih =>
    intro K
    cases K with
    | zero => simp
    | succ k =>
      simp only [insSorted, List.take_succ_cons]
      split
      · cases k <;> simp [List.take_take]
      · simp [ih k]

theorem take_insSorted_of_not_lt_last (hS : SWO lt) (x : α) (l : List α) (K : Nat) (hs : Sorted lt l)
    (hK : K ≤ l.length) (w : α) (hw : (l.take K).getLast? = some w) (hx : lt x w = false) :
    (insSorted lt x l).take K = l.take K := by
  have hsplit : l = l.take K ++ l.drop K := (List.take_append_drop K l).symm
  have hp : ∀ y ∈ l.take K, lt x y = false := by
    intro y hy
    -- y is before-or-equal w in a sorted list, so lt w y = false
    have hwy : lt w y = false ∨ y = w := by
      have hsT : Sorted lt (l.take K) := List.Pairwise.sublist (List.take_sublist K l) hs
      obtain ⟨init, hinit⟩ : ∃ init, l.take K = init ++ [w] := by
        have := List.getLast?_eq_some_iff.1 hw
        exact this
      rw [hinit] at hy hsT
      rcases List.mem_append.1 hy with h1 | h1
      · left
        have := List.pairwise_append.1 hsT
        exact this.2.2 y h1 w (by simp)
      · right; simpa using h1
    cases hxy : lt x y with
    | false => rfl
    | true =>
      rcases hwy with h1 | rfl
      · rcases hS.negtrans x y w hxy with h2 | h2
        · simp [hx] at h2
        · simp [h1] at h2
      · simp [hx] at hxy
  rw [hsplit, insSorted_append_of_not_lt x _ _ hp]
  have hlen : (l.take K).length = K := by simp [List.length_take, Nat.min_eq_left hK]
  rw [List.take_append_of_le_length (by omega)]
  simp [List.take_take, hlen, ← hsplit]

theorem fold_inv (hS : SWO lt) (K : Nat) (hK : 0 < K) (l : List α) :
    let cat := l.foldl (catchStepG lt K) []
    (l.length < K → cat = l) ∧ (K ≤ l.length → cat = (sortStable lt l).take K) := by
  induction l using rev_ind with
  | nil => simp; omega
  | snoc l x ih =>
    simp only [List.foldl_append, List.foldl_cons, List.foldl_nil, List.length_append, List.length_singleton]
    obtain ⟨ih1, ih2⟩ := ih
    by_cases hl : l.length < K
    · have hc := ih1 hl
      rw [hc]
      constructor
      · intro h; simp [catchStepG, hl]; omega
      · intro h
        have : l.length + 1 = K := by omega
        simp [catchStepG, hl, this]
    · have hl' : K ≤ l.length := by omega
      have hc := ih2 hl'
      rw [hc]
      constructor
      · intro h; omega
      · intro _
        have hlen : ((sortStable lt l).take K).length = K := by simp [List.length_take]; omega
        have hsorted := sorted_sortStable hS l
        have hsT : Sorted lt ((sortStable lt l).take K) := List.Pairwise.sublist (List.take_sublist K _) hsorted
        have hne : (sortStable lt l).take K ≠ [] := by
          intro h; rw [h] at hlen; simp at hlen; omega
        obtain ⟨w, hw⟩ : ∃ w, ((sortStable lt l).take K).getLast? = some w := by
          cases h : ((sortStable lt l).take K).getLast? with
          | none => exact absurd (List.getLast?_eq_none_iff.1 h) hne
          | some w => exact ⟨w, rfl⟩
        simp only [catchStepG, hlen, Nat.lt_irrefl, if_false, hw]
        rw [sortStable_append_singleton (l := l)]
        split
        · rw [sortStable_append_singleton, sortStable_of_sorted _ hsT, ← take_insSorted]
        · rename_i hx
          have hx' : lt x w = false := by simpa using hx
          exact (take_insSorted_of_not_lt_last hS x (sortStable lt l) K hsorted (by simp; omega) w hw hx').symm

theorem topK_spec (hS : SWO lt) (K : Nat) (hK : 0 < K) (l : List α) :
    topKG lt K l = (sortStable lt l).take K := by
  obtain ⟨h1, h2⟩ := fold_inv hS K hK l
  unfold topKG catchFinishG
  by_cases hl : l.length < K
  · rw [h1 hl]; simp [hl]; rw [List.take_of_length_le]; simp; omega
  · have hl' : K ≤ l.length := by omega
    rw [h2 hl']
    have : ¬ ((sortStable lt l).take K).length < K := by simp [List.length_take]; omega
    rw [if_neg this]


end Gofasta.Model
