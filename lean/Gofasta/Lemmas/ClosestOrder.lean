import Gofasta.Lemmas.TopK
import Gofasta.Lemmas.SortSpec
import Gofasta.Model.Closest
import Gofasta.Props.C06
import Gofasta.Spec.Closest
/-
ClosestOrder: the order hypothesis `SWO hitLt` of C06 removed for the exact measures.

Part 1: `topK_spec` (and the stable-sort facts behind it) for a RELATIVE strict weak order: the axioms are only
        required on the elements that satisfy a predicate `P`, and the list only contains such elements.
Part 2: `hitLt` is a strict weak order on the hits whose distance is `.nat _` (snp) and on the hits whose
        distance is `.rat _ _` (raw; every numerator and denominator, the denominator 0 being "undefined").
Part 3: `findClosestN` and `findClosest` equal "stable sort, take K" / "head of the stable sort" with no order
        hypothesis, for lists of hits of one exact kind.
Part 4: the hits that `hitsOf .snp` and `hitsOf .raw` build from actual sequences are of that kind.
-/
namespace Gofasta.Lemmas.ClosestOrder
open Gofasta Gofasta.Model

/-! ## Part 1 : relative strict weak orders -/

section Relative
variable {α : Type}

/-- strict weak order relative to a predicate: the axioms hold for the elements satisfying `P` -/
structure SWOOn (P : α → Prop) (lt : α → α → Bool) : Prop where
  asymm : ∀ a b, P a → P b → lt a b = true → lt b a = false
  negtrans : ∀ a b c, P a → P b → P c → lt a b = true → lt a c = true ∨ lt c b = true

/-- all elements of the list satisfy `P` -/
def AllP (P : α → Prop) (l : List α) : Prop := ∀ x ∈ l, P x

variable {P : α → Prop} {lt : α → α → Bool}

theorem SWO.on (h : SWO lt) : SWOOn P lt :=
  ⟨fun a b _ _ => h.asymm a b, fun a b c _ _ _ => h.negtrans a b c⟩

theorem SWOOn.toSWO (h : SWOOn (fun _ : α => True) lt) : SWO lt :=
  ⟨fun a b => h.asymm a b trivial trivial, fun a b c => h.negtrans a b c trivial trivial trivial⟩

theorem SWOOn.irrefl (h : SWOOn P lt) {a : α} (ha : P a) : lt a a = false := by
  cases hh : lt a a with
  | false => rfl
  | true => have := h.asymm _ _ ha ha hh; rw [hh] at this; cases this

theorem SWOOn.trans (h : SWOOn P lt) {a b c : α} (ha : P a) (hb : P b) (hc : P c)
    (hab : lt a b = true) (hbc : lt b c = true) : lt a c = true := by
  rcases h.negtrans a b c ha hb hc hab with h1 | h1
  · exact h1
  · have := h.asymm _ _ hb hc hbc; simp [this] at h1

theorem AllP.nil : AllP P ([] : List α) := by intro x hx; cases hx

theorem AllP.append {l1 l2 : List α} (h1 : AllP P l1) (h2 : AllP P l2) : AllP P (l1 ++ l2) := by
  intro x hx
  rcases List.mem_append.1 hx with h | h
  · exact h1 x h
  · exact h2 x h

theorem AllP.left {l1 l2 : List α} (h : AllP P (l1 ++ l2)) : AllP P l1 :=
  fun x hx => h x (List.mem_append_left _ hx)

theorem AllP.right {l1 l2 : List α} (h : AllP P (l1 ++ l2)) : AllP P l2 :=
  fun x hx => h x (List.mem_append_right _ hx)

theorem AllP.sublist {l1 l2 : List α} (hs : l1.Sublist l2) (h : AllP P l2) : AllP P l1 :=
  fun x hx => h x (hs.subset hx)

theorem AllP.filter {l : List α} (p : α → Bool) (h : AllP P l) : AllP P (l.filter p) :=
  fun x hx => h x (List.mem_filter.1 hx).1

theorem AllP.perm {l1 l2 : List α} (hp : l1.Perm l2) (h : AllP P l2) : AllP P l1 :=
  fun x hx => h x (hp.mem_iff.1 hx)

theorem allP_sortStable {l : List α} (h : AllP P l) : AllP P (sortStable lt l) :=
  AllP.perm (sortStable_perm l) h

theorem sorted_insSorted (hS : SWOOn P lt) (x : α) (l : List α) (hx : P x) (hl : AllP P l) (h : Sorted lt l) :
    Sorted lt (insSorted lt x l) := by
  induction l with
  | nil => simp [insSorted, Sorted]
  | cons y t ih =>
    have ht : Sorted lt t := (List.pairwise_cons.1 h).2
    have hy : ∀ z ∈ t, lt z y = false := (List.pairwise_cons.1 h).1
    have hPy : P y := hl y (by simp)
    have hPt : AllP P t := fun z hz => hl z (by simp [hz])
    simp only [insSorted]
    split
    · rename_i hxy
      refine List.pairwise_cons.2 ⟨?_, h⟩
      intro z hz
      rcases List.mem_cons.1 hz with rfl | hz
      · exact hS.asymm _ _ hx hPy hxy
      · cases hzx : lt z x with
        | false => rfl
        | true => have := hS.trans (hPt z hz) hx hPy hzx hxy; simp [hy z hz] at this
    · rename_i hxy
      have hxy' : lt x y = false := by simpa using hxy
      refine List.pairwise_cons.2 ⟨?_, ih hPt ht⟩
      intro z hz
      have : z = x ∨ z ∈ t := by
        have := (insSorted_perm (lt := lt) x t).mem_iff.1 hz
        simpa using this
      rcases this with rfl | hzt
      · exact hxy'
      · exact hy z hzt

theorem sorted_sortStable (hS : SWOOn P lt) (l : List α) (hl : AllP P l) : Sorted lt (sortStable lt l) := by
  induction l using rev_ind with
  | nil => simp [sortStable, Sorted]
  | snoc l x ih =>
    rw [sortStable_append_singleton]
    exact sorted_insSorted hS x _ (hl x (by simp)) (allP_sortStable hl.left) (ih hl.left)

theorem take_insSorted_of_not_lt_last (hS : SWOOn P lt) (x : α) (l : List α) (K : Nat) (hPx : P x) (hl : AllP P l)
    (hs : Sorted lt l) (hK : K ≤ l.length) (w : α) (hw : (l.take K).getLast? = some w) (hx : lt x w = false) :
    (insSorted lt x l).take K = l.take K := by
  have hsplit : l = l.take K ++ l.drop K := (List.take_append_drop K l).symm
  have hlT : AllP P (l.take K) := AllP.sublist (List.take_sublist K l) hl
  have hPw : P w := by
    have := List.getLast?_eq_some_iff.1 hw
    obtain ⟨init, hinit⟩ := this
    exact hlT w (by rw [hinit]; simp)
  have hp : ∀ y ∈ l.take K, lt x y = false := by
    intro y hy
    have hwy : lt w y = false ∨ y = w := by
      have hsT : Sorted lt (l.take K) := List.Pairwise.sublist (List.take_sublist K l) hs
      obtain ⟨init, hinit⟩ : ∃ init, l.take K = init ++ [w] := List.getLast?_eq_some_iff.1 hw
      rw [hinit] at hy hsT
      rcases List.mem_append.1 hy with h1 | h1
      · left
        have := List.pairwise_append.1 hsT
        exact this.2.2 y h1 w (by simp)
      · right; simpa using h1
    cases hxy : lt x y with
    | false => rfl
    | true =>
      rcases hwy with h1 | rfl
      · rcases hS.negtrans x y w hPx (hlT y hy) hPw hxy with h2 | h2
        · simp [hx] at h2
        · simp [h1] at h2
      · simp [hx] at hxy
  rw [hsplit, insSorted_append_of_not_lt x _ _ hp]
  have hlen : (l.take K).length = K := by simp [List.length_take, Nat.min_eq_left hK]
  rw [List.take_append_of_le_length (by omega)]
  simp [List.take_take, ← hsplit]

/-- the invariant of the streaming catchment, for a relative strict weak order -/
theorem fold_inv (hS : SWOOn P lt) (K : Nat) (hK : 0 < K) (l : List α) (hl : AllP P l) :
    let cat := l.foldl (catchStepG lt K) []
    (l.length < K → cat = l) ∧ (K ≤ l.length → cat = (sortStable lt l).take K) := by
  induction l using rev_ind with
  | nil => simp; omega
  | snoc l x ih =>
    simp only [List.foldl_append, List.foldl_cons, List.foldl_nil, List.length_append, List.length_singleton]
    obtain ⟨ih1, ih2⟩ := ih hl.left
    have hPx : P x := hl x (by simp)
    have hPs : AllP P (sortStable lt l) := allP_sortStable hl.left
    by_cases hlen : l.length < K
    · have hc := ih1 hlen
      rw [hc]
      constructor
      · intro h; simp [catchStepG, hlen]; omega
      · intro h
        have : l.length + 1 = K := by omega
        simp [catchStepG, hlen, this]
    · have hl' : K ≤ l.length := by omega
      have hc := ih2 hl'
      rw [hc]
      constructor
      · intro h; omega
      · intro _
        have hlen : ((sortStable lt l).take K).length = K := by simp [List.length_take]; omega
        have hsorted := sorted_sortStable hS l hl.left
        have hsT : Sorted lt ((sortStable lt l).take K) := List.Pairwise.sublist (List.take_sublist K _) hsorted
        have hne : (sortStable lt l).take K ≠ [] := by
          intro h; rw [h] at hlen; simp at hlen; omega
        obtain ⟨w, hw⟩ : ∃ w, ((sortStable lt l).take K).getLast? = some w := by
          cases h : ((sortStable lt l).take K).getLast? with
          | none => exact absurd (List.getLast?_eq_none_iff.1 h) hne
          | some w => exact ⟨w, rfl⟩
        simp only [catchStepG, hlen, Nat.lt_irrefl, if_false, hw]
        rw [sortStable_append_singleton (l := l)]
        split
        · rw [sortStable_append_singleton, sortStable_of_sorted _ hsT, ← take_insSorted]
        · rename_i hx
          have hx' : lt x w = false := by simpa using hx
          exact (take_insSorted_of_not_lt_last hS x (sortStable lt l) K hPx hPs hsorted (by simp; omega) w hw hx').symm

/-- **topK, relative** — for an order that is a strict weak order on the elements satisfying `P`, and a list of
such elements, the streaming bounded catchment is "stable-sort everything, take K" -/
theorem topK_spec_on (hS : SWOOn P lt) (K : Nat) (hK : 0 < K) (l : List α) (hl : AllP P l) :
    topKG lt K l = (sortStable lt l).take K := by
  obtain ⟨h1, h2⟩ := fold_inv hS K hK l hl
  unfold topKG catchFinishG
  by_cases hlen : l.length < K
  · rw [h1 hlen]; simp [hlen]; rw [List.take_of_length_le]; simp; omega
  · have hl' : K ≤ l.length := by omega
    rw [h2 hl']
    have : ¬ ((sortStable lt l).take K).length < K := by simp [List.length_take]; omega
    rw [if_neg this]

end Relative

/-! ## Part 2 : `hitLt` on the exact measures -/

/-- what `hitLt` needs from the distance order on the values satisfying `Q`: `DVal.lt` is a strict weak order
there and `DVal.eq` is exactly its incomparability -/
structure DOrd (Q : DVal → Prop) : Prop where
  asymm : ∀ a b, Q a → Q b → a.lt b = true → b.lt a = false
  negtrans : ∀ a b c, Q a → Q b → Q c → a.lt b = true → a.lt c = true ∨ c.lt b = true
  eq_iff : ∀ a b, Q a → Q b → a.eq b = (!a.lt b && !b.lt a)

/-- distance first, then a secondary comparator on the hits with equal distance -/
def lexLt (sec : Hit → Hit → Bool) (a b : Hit) : Bool := a.dist.lt b.dist || (a.dist.eq b.dist && sec a b)

/-- the lexicographic comparator over a good distance order and any secondary strict weak order -/
theorem lexLt_swoOn {Q : DVal → Prop} (hQ : DOrd Q) {sec : Hit → Hit → Bool} (hsec : SWO sec) :
    SWOOn (fun h : Hit => Q h.dist) (lexLt sec) := by
  constructor
  · intro a b ha hb h
    simp only [lexLt, hQ.eq_iff _ _ ha hb, hQ.eq_iff _ _ hb ha] at h ⊢
    cases hab : a.dist.lt b.dist with
    | true => have := hQ.asymm _ _ ha hb hab; simp [this]
    | false =>
      simp [hab] at h ⊢
      obtain ⟨h1, h2⟩ := h
      simp [h1, hsec.asymm _ _ h2]
  · intro a b c ha hb hc h
    simp only [lexLt, hQ.eq_iff _ _ ha hb, hQ.eq_iff _ _ ha hc, hQ.eq_iff _ _ hc hb] at h ⊢
    cases hab : a.dist.lt b.dist with
    | true =>
      rcases hQ.negtrans _ _ _ ha hb hc hab with h1 | h1
      · left; simp [h1]
      · right; simp [h1]
    | false =>
      simp [hab] at h
      obtain ⟨hba, hs⟩ := h
      cases hac : a.dist.lt c.dist with
      | true => left; simp
      | false =>
        cases hcb : c.dist.lt b.dist with
        | true => right; simp
        | false =>
          have hca : c.dist.lt a.dist = false := by
            cases hh : c.dist.lt a.dist with
            | false => rfl
            | true =>
              rcases hQ.negtrans _ _ _ hc ha hb hh with h1 | h1
              · rw [hcb] at h1; cases h1
              · rw [hba] at h1; cases h1
          have hbc : b.dist.lt c.dist = false := by
            cases hh : b.dist.lt c.dist with
            | false => rfl
            | true =>
              rcases hQ.negtrans _ _ _ hb hc ha hh with h1 | h1
              · rw [hba] at h1; cases h1
              · rw [hac] at h1; cases h1
          simp [hca, hbc]
          exact hsec.negtrans _ _ _ hs

/-- completeness, higher first -/
def secScore (a b : Hit) : Bool := a.score > b.score

/-- completeness, higher first, then position in the file -/
def secScoreIdx (a b : Hit) : Bool := a.score > b.score || (a.score == b.score && a.idx < b.idx)

theorem hitLt_eq_lex : hitLt = lexLt secScore := rfl

theorem keyLt_eq_lex : Gofasta.Spec.keyLt = lexLt secScoreIdx := rfl

theorem secScore_swo : SWO secScore := by
  constructor
  · intro a b h; simp [secScore] at h ⊢; omega
  · intro a b c h; simp [secScore] at h ⊢; omega

theorem secScoreIdx_swo : SWO secScoreIdx := by
  constructor
  · intro a b h; simp [secScoreIdx] at h ⊢; omega
  · intro a b c h; simp [secScoreIdx] at h ⊢; omega

/-- the comparator of the catchment (distance, then higher completeness) over a good distance order -/
theorem hitLt_swoOn {Q : DVal → Prop} (hQ : DOrd Q) : SWOOn (fun h : Hit => Q h.dist) hitLt :=
  hitLt_eq_lex ▸ lexLt_swoOn hQ secScore_swo

/-- the documented total key (distance, completeness, file position) over a good distance order -/
theorem keyLt_swoOn {Q : DVal → Prop} (hQ : DOrd Q) : SWOOn (fun h : Hit => Q h.dist) Gofasta.Spec.keyLt :=
  keyLt_eq_lex ▸ lexLt_swoOn hQ secScoreIdx_swo

/-- distance of the snp measure -/
def IsNat : DVal → Prop
  | .nat _ => True
  | _ => False

/-- distance of the raw measure: any numerator and denominator (denominator 0 = undefined) -/
def IsRat : DVal → Prop
  | .rat _ _ => True
  | _ => False

theorem lt_nat (x y : Nat) : (DVal.nat x).lt (.nat y) = decide (x < y) := by
  simp [DVal.lt, DVal.undef]

theorem eq_nat (x y : Nat) : (DVal.nat x).eq (.nat y) = (x == y) := by
  simp [DVal.eq, DVal.undef]

theorem dord_nat : DOrd IsNat := by
  constructor
  · intro a b ha hb
    cases a <;> cases b <;> simp only [IsNat] at ha hb
    simp only [lt_nat]; simp; omega
  · intro a b c ha hb hc
    cases a <;> cases b <;> cases c <;> simp only [IsNat] at ha hb hc
    simp only [lt_nat]; simp; omega
  · intro a b ha hb
    cases a <;> cases b <;> simp only [IsNat] at ha hb
    simp only [lt_nat, eq_nat]
    rw [Bool.eq_iff_iff]; simp; omega

theorem undef_rat (n d : Nat) : (DVal.rat n d).undef = decide (d = 0) := by
  cases d <;> simp [DVal.undef]

theorem lt_rat (n d n' d' : Nat) : (DVal.rat n d).lt (.rat n' d') =
    (if d = 0 then false else if d' = 0 then true else decide (n * d' < n' * d)) := by
  simp [DVal.lt, undef_rat]

theorem eq_rat (n d n' d' : Nat) : (DVal.rat n d).eq (.rat n' d') =
    (if d = 0 ∨ d' = 0 then decide (d = 0 ∧ d' = 0) else n * d' == n' * d) := by
  simp [DVal.eq, undef_rat]

/-- negative transitivity of cross-multiplied fractions: only the middle denominator has to be positive -/
theorem cross_negtrans (na da nb db nc dc : Nat) (hc : 0 < dc) (h : na * db < nb * da) :
    na * dc < nc * da ∨ nc * db < nb * dc := by
  by_cases h1 : na * dc < nc * da
  · exact Or.inl h1
  by_cases h2 : nc * db < nb * dc
  · exact Or.inr h2
  exfalso
  have h1' : nc * da ≤ na * dc := by omega
  have h2' : nb * dc ≤ nc * db := by omega
  have e1 : (nb * da) * dc = (nb * dc) * da := by rw [Nat.mul_assoc, Nat.mul_comm da dc, Nat.mul_assoc]
  have e2 : (nc * db) * da = (nc * da) * db := by rw [Nat.mul_assoc, Nat.mul_comm db da, Nat.mul_assoc]
  have e3 : (na * dc) * db = (na * db) * dc := by rw [Nat.mul_assoc, Nat.mul_comm dc db, Nat.mul_assoc]
  have s1 : (nb * da) * dc ≤ (na * db) * dc := by
    rw [e1, ← e3]
    exact Nat.le_trans (Nat.mul_le_mul_right da h2') (by rw [e2]; exact Nat.mul_le_mul_right db h1')
  have := Nat.le_of_mul_le_mul_right s1 hc
  omega

theorem dord_rat : DOrd IsRat := by
  constructor
  · intro a b ha hb
    cases a <;> cases b <;> simp only [IsRat] at ha hb
    rename_i n d n' d'
    simp only [lt_rat]
    by_cases h0 : d = 0 <;> by_cases h0' : d' = 0 <;> simp [h0, h0']
    omega
  · intro a b c ha hb hc
    cases a <;> cases b <;> cases c <;> simp only [IsRat] at ha hb hc
    rename_i n d n' d' n'' d''
    simp only [lt_rat]
    by_cases h0 : d = 0 <;> by_cases h0' : d' = 0 <;> by_cases h0'' : d'' = 0 <;> simp [h0, h0', h0'']
    intro h
    exact cross_negtrans n d n' d' n'' d'' (by omega) h
  · intro a b ha hb
    cases a <;> cases b <;> simp only [IsRat] at ha hb
    rename_i n d n' d'
    simp only [lt_rat, eq_rat]
    by_cases h0 : d = 0 <;> by_cases h0' : d' = 0 <;> simp [h0, h0']
    rw [Bool.eq_iff_iff]; simp; omega

/-- hits of the snp measure -/
def NatHit (h : Hit) : Prop := IsNat h.dist
/-- hits of the raw measure -/
def RatHit (h : Hit) : Prop := IsRat h.dist

/-- **`hitLt` is a strict weak order on snp hits** -/
theorem hitLt_swoOn_nat : SWOOn NatHit hitLt := hitLt_swoOn dord_nat

/-- **`hitLt` is a strict weak order on raw hits** (any numerator, any denominator, 0 included) -/
theorem hitLt_swoOn_rat : SWOOn RatHit hitLt := hitLt_swoOn dord_rat

/-! ## Part 3 : `findClosestN` and `findClosest` without an order hypothesis -/

/-- the targets that pass the optional `-d` filter -/
def within (maxd : Option (Nat × Nat)) (hits : List Hit) : List Hit :=
  match maxd with
  | none => hits
  | some (n, d) => hits.filter fun h => !h.dist.beyond n d

theorem within_none (hits : List Hit) : within none hits = hits := rfl

theorem within_some (n d : Nat) (hits : List Hit) :
    within (some (n, d)) hits = hits.filter fun h => !h.dist.beyond n d := rfl

theorem findClosestN_within (K : Nat) (maxd : Option (Nat × Nat)) (hits : List Hit) :
    findClosestN K maxd hits = topKG hitLt K (within maxd hits) :=
  Gofasta.Props.C06.findClosestN_eq K maxd hits

theorem allP_within {P : Hit → Prop} (maxd : Option (Nat × Nat)) {hits : List Hit} (h : AllP P hits) :
    AllP P (within maxd hits) := by
  cases maxd with
  | none => exact h
  | some nd => obtain ⟨n, d⟩ := nd; exact AllP.filter _ h

/-- generic form: whenever `hitLt` is a strict weak order on the hits satisfying `P` -/
theorem findClosestN_on {P : Hit → Prop} (hS : SWOOn P hitLt) (K : Nat) (hK : 0 < K) (maxd : Option (Nat × Nat))
    (hits : List Hit) (h : AllP P hits) :
    findClosestN K maxd hits = (sortStable hitLt (within maxd hits)).take K := by
  rw [findClosestN_within]
  exact topK_spec_on hS K hK _ (allP_within maxd h)

/-- **snp, no -d** -/
theorem findClosestN_nat (K : Nat) (hK : 0 < K) (hits : List Hit) (h : AllP NatHit hits) :
    findClosestN K none hits = (sortStable hitLt hits).take K :=
  findClosestN_on hitLt_swoOn_nat K hK none hits h

/-- **raw, no -d** -/
theorem findClosestN_rat (K : Nat) (hK : 0 < K) (hits : List Hit) (h : AllP RatHit hits) :
    findClosestN K none hits = (sortStable hitLt hits).take K :=
  findClosestN_on hitLt_swoOn_rat K hK none hits h

/-- **snp, with -d n/d** -/
theorem findClosestN_nat_d (K : Nat) (hK : 0 < K) (n d : Nat) (hits : List Hit) (h : AllP NatHit hits) :
    findClosestN K (some (n, d)) hits = (sortStable hitLt (hits.filter fun h => !h.dist.beyond n d)).take K :=
  findClosestN_on hitLt_swoOn_nat K hK (some (n, d)) hits h

/-- **raw, with -d n/d** -/
theorem findClosestN_rat_d (K : Nat) (hK : 0 < K) (n d : Nat) (hits : List Hit) (h : AllP RatHit hits) :
    findClosestN K (some (n, d)) hits = (sortStable hitLt (hits.filter fun h => !h.dist.beyond n d)).take K :=
  findClosestN_on hitLt_swoOn_rat K hK (some (n, d)) hits h

/-- plain `closest` (running best) is the head of the stable sort -/
theorem findClosest_on {P : Hit → Prop} (hS : SWOOn P hitLt) (hits : List Hit) (h : AllP P hits) :
    findClosest hits = (sortStable hitLt hits).head? := by
  rw [Gofasta.Props.C06.findClosest_eq]
  obtain ⟨h1, h2⟩ := fold_inv hS 1 (by omega) hits h
  by_cases hlen : hits.length < 1
  · have : hits = [] := by cases hits with
      | nil => rfl
      | cons a t => simp at hlen
    subst this; rfl
  · rw [h2 (by omega)]
    cases sortStable hitLt hits <;> rfl

/-- **snp, plain** -/
theorem findClosest_nat (hits : List Hit) (h : AllP NatHit hits) :
    findClosest hits = (sortStable hitLt hits).head? := findClosest_on hitLt_swoOn_nat hits h

/-- **raw, plain** -/
theorem findClosest_rat (hits : List Hit) (h : AllP RatHit hits) :
    findClosest hits = (sortStable hitLt hits).head? := findClosest_on hitLt_swoOn_rat hits h

/-- plain `closest` is `closest -n 1` -/
theorem findClosest_eq_n1 {P : Hit → Prop} (hS : SWOOn P hitLt) (hits : List Hit) (h : AllP P hits) :
    findClosest hits = (findClosestN 1 none hits).head? := by
  rw [findClosest_on hS hits h, findClosestN_on hS 1 (by omega) none hits h, within_none]
  cases sortStable hitLt hits <;> rfl

/-! ## Part 4 : the hits built from actual sequences -/

theorem hitsOf_dist (m : Measure) (q : List Nat) (ts : List Target) :
    ∀ h ∈ hitsOf m q ts, ∃ t ∈ ts, h.dist = distance m q t := by
  intro h hh
  simp only [hitsOf, List.mem_map] at hh
  obtain ⟨⟨t, i⟩, hmem, rfl⟩ := hh
  exact ⟨t, (List.of_mem_zip hmem).1, rfl⟩

theorem hitsOf_snp_nat (q : List Nat) (ts : List Target) : AllP NatHit (hitsOf .snp q ts) := by
  intro h hh
  obtain ⟨t, _, ht⟩ := hitsOf_dist .snp q ts h hh
  simp [NatHit, ht, distance, IsNat]

theorem hitsOf_raw_rat (q : List Nat) (ts : List Target) : AllP RatHit (hitsOf .raw q ts) := by
  intro h hh
  obtain ⟨t, _, ht⟩ := hitsOf_dist .raw q ts h hh
  simp [RatHit, ht, distance, IsRat]

/-- the exact measures -/
def Exact (m : Measure) : Prop := m = .snp ∨ m = .raw

/-- **closest -n K [-d D] on sequences, snp or raw** — for every query, every target file, every K > 0 and every
optional limit, the streaming catchment returns the first K entries of the stable sort (distance, then higher
completeness, ties in file order) of the targets within the limit. No hypothesis on the order. -/
theorem closestN_exact (m : Measure) (hm : Exact m) (K : Nat) (hK : 0 < K) (maxd : Option (Nat × Nat))
    (q : List Nat) (ts : List Target) :
    findClosestN K maxd (hitsOf m q ts) = (sortStable hitLt (within maxd (hitsOf m q ts))).take K := by
  rcases hm with rfl | rfl
  · exact findClosestN_on hitLt_swoOn_nat K hK maxd _ (hitsOf_snp_nat q ts)
  · exact findClosestN_on hitLt_swoOn_rat K hK maxd _ (hitsOf_raw_rat q ts)

/-- **plain closest on sequences, snp or raw** -/
theorem closest_exact (m : Measure) (hm : Exact m) (q : List Nat) (ts : List Target) :
    findClosest (hitsOf m q ts) = (sortStable hitLt (hitsOf m q ts)).head? := by
  rcases hm with rfl | rfl
  · exact findClosest_on hitLt_swoOn_nat _ (hitsOf_snp_nat q ts)
  · exact findClosest_on hitLt_swoOn_rat _ (hitsOf_raw_rat q ts)

/-! ## Part 5 : the stable sort characterised, relative version (sorted, stable, unique) -/

section RelativeSpec
variable {α : Type} {P : α → Prop} {lt : α → α → Bool}

theorem tied_trans_on (hS : SWOOn P lt) {a b c : α} (ha : P a) (hb : P b) (hc : P c)
    (hab : tied lt a b = true) (hbc : tied lt b c = true) : tied lt a c = true := by
  rw [tied_iff] at *
  constructor
  · cases h : lt a c with
    | false => rfl
    | true => rcases hS.negtrans a c b ha hc hb h with h1 | h1 <;> simp_all
  · cases h : lt c a with
    | false => rfl
    | true => rcases hS.negtrans c a b hc ha hb h with h1 | h1 <;> simp_all

theorem lt_of_sorted_cons_on (hS : SWOOn P lt) {x y : α} {t : List α} (hx : P x) (hl : AllP P (y :: t))
    (hs : Sorted lt (y :: t)) (hxy : lt x y = true) : ∀ z ∈ y :: t, lt x z = true := by
  intro z hz
  rcases List.mem_cons.1 hz with rfl | hz'
  · exact hxy
  · have hzy : lt z y = false := (List.pairwise_cons.1 hs).1 z hz'
    rcases hS.negtrans x y z hx (hl y (by simp)) (hl z hz) hxy with h | h
    · exact h
    · rw [hzy] at h; cases h

theorem insSorted_filter_tied_on (hS : SWOOn P lt) (x z : α) (hx : P x) (hz : P z) : ∀ (l : List α), AllP P l →
    Sorted lt l → (insSorted lt x l).filter (tied lt z) = (l ++ [x]).filter (tied lt z) := by
  intro l
  induction l with
  | nil => intro _ _; rfl
  | cons y t ih =>
    intro hl hs
    simp only [insSorted]
    split
    · rename_i hxy
      by_cases hzx : tied lt z x = true
      · have hnone : (y :: t).filter (tied lt z) = [] := by
          rw [List.filter_eq_nil_iff]
          intro w hw hzw
          have hxw := lt_of_sorted_cons_on hS hx hl hs hxy w hw
          have := tied_trans_on hS hx hz (hl w hw) (tied_symm hzx) hzw
          rw [tied_iff] at this
          rw [this.1] at hxw; cases hxw
        rw [List.filter_cons, if_pos hzx, hnone, List.filter_append, hnone]
        simp [hzx]
      · rw [List.filter_cons, if_neg hzx, List.filter_append]
        simp [hzx]
    · have hst : Sorted lt t := (List.pairwise_cons.1 hs).2
      simp only [List.cons_append, List.filter_cons]
      rw [ih (fun w hw => hl w (by simp [hw])) hst]

/-- **stability, relative** -/
theorem sortStable_stable_on (hS : SWOOn P lt) (z : α) (hz : P z) (l : List α) (hl : AllP P l) :
    (sortStable lt l).filter (tied lt z) = l.filter (tied lt z) := by
  induction l using rev_ind with
  | nil => rfl
  | snoc l x ih =>
    rw [sortStable_append_singleton,
      insSorted_filter_tied_on hS x z (hl x (by simp)) hz _ (allP_sortStable hl.left) (sorted_sortStable hS l hl.left)]
    rw [List.filter_append, ih hl.left, List.filter_append]

/-- **uniqueness, relative** -/
theorem sorted_stable_unique_on (hS : SWOOn P lt) : ∀ (l1 l2 : List α), AllP P l1 → l1.Perm l2 → Sorted lt l1 →
    Sorted lt l2 → (∀ z, P z → l1.filter (tied lt z) = l2.filter (tied lt z)) → l1 = l2 := by
  intro l1
  induction l1 with
  | nil => intro l2 _ hp _ _ _; exact (List.Perm.nil_eq hp)
  | cons a t1 ih =>
    intro l2 hP hp hs1 hs2 hf
    cases l2 with
    | nil => exact absurd hp.symm (by intro h; have := List.Perm.nil_eq h; cases this)
    | cons b t2 =>
      have hPa : P a := hP a (by simp)
      have hPb : P b := hP b (hp.mem_iff.2 List.mem_cons_self)
      have hab : lt a b = false := by
        have : a ∈ b :: t2 := hp.mem_iff.1 (List.mem_cons_self)
        rcases List.mem_cons.1 this with rfl | h
        · exact hS.irrefl hPa
        · exact (List.pairwise_cons.1 hs2).1 a h
      have hba : lt b a = false := by
        have : b ∈ a :: t1 := hp.mem_iff.2 (List.mem_cons_self)
        rcases List.mem_cons.1 this with rfl | h
        · exact hS.irrefl hPb
        · exact (List.pairwise_cons.1 hs1).1 b h
      have haa : tied lt a a = true := by
        rw [tied_iff]; exact ⟨hS.irrefl hPa, hS.irrefl hPa⟩
      have htab : tied lt a b = true := (tied_iff a b).2 ⟨hab, hba⟩
      have hfa := hf a hPa
      rw [List.filter_cons, if_pos haa, List.filter_cons, if_pos htab] at hfa
      have heq : a = b := (List.cons.inj hfa).1
      subst heq
      congr 1
      apply ih t2 (fun w hw => hP w (by simp [hw])) (List.Perm.cons_inv hp) (List.pairwise_cons.1 hs1).2
        (List.pairwise_cons.1 hs2).2
      intro z hz
      have := hf z hz
      simp only [List.filter_cons] at this
      split at this
      · exact (List.cons.inj this).2
      · exact this

/-- **the stable sort, characterised, relative** -/
theorem sortStable_unique_on (hS : SWOOn P lt) (l l' : List α) (hl : AllP P l) (hp : l'.Perm l) (hs : Sorted lt l')
    (hst : ∀ z, P z → l'.filter (tied lt z) = l.filter (tied lt z)) : l' = sortStable lt l := by
  apply sorted_stable_unique_on hS l' (sortStable lt l) (AllP.perm hp hl) (hp.trans (sortStable_perm l).symm) hs
    (sorted_sortStable hS l hl)
  intro z hz
  rw [hst z hz, sortStable_stable_on hS z hz l hl]

end RelativeSpec

/-- **closest -n K on sequences, declarative** — any ranking of the targets within the limit that is a permutation
of them, ordered by (distance, then higher completeness) and that keeps tied targets in file order has the
catchment as its first K entries -/
theorem closestN_exact_characterised (m : Measure) (hm : Exact m) (K : Nat) (hK : 0 < K) (maxd : Option (Nat × Nat))
    (q : List Nat) (ts : List Target) (ranked : List Hit)
    (hp : ranked.Perm (within maxd (hitsOf m q ts))) (hs : Sorted hitLt ranked)
    (hst : ∀ z, ranked.filter (tied hitLt z) = (within maxd (hitsOf m q ts)).filter (tied hitLt z)) :
    findClosestN K maxd (hitsOf m q ts) = ranked.take K := by
  rw [closestN_exact m hm K hK maxd q ts]
  rcases hm with rfl | rfl
  · rw [sortStable_unique_on hitLt_swoOn_nat _ ranked (allP_within maxd (hitsOf_snp_nat q ts)) hp hs
      (fun z _ => hst z)]
  · rw [sortStable_unique_on hitLt_swoOn_rat _ ranked (allP_within maxd (hitsOf_raw_rat q ts)) hp hs
      (fun z _ => hst z)]

/-- the result is ordered, for the exact measures -/
theorem closestN_exact_sorted (m : Measure) (hm : Exact m) (K : Nat) (hK : 0 < K) (maxd : Option (Nat × Nat))
    (q : List Nat) (ts : List Target) : Sorted hitLt (findClosestN K maxd (hitsOf m q ts)) := by
  rw [closestN_exact m hm K hK maxd q ts]
  refine List.Pairwise.sublist (List.take_sublist K _) ?_
  rcases hm with rfl | rfl
  · exact sorted_sortStable hitLt_swoOn_nat _ (allP_within maxd (hitsOf_snp_nat q ts))
  · exact sorted_sortStable hitLt_swoOn_rat _ (allP_within maxd (hitsOf_raw_rat q ts))

/-! ## Part 6 : what is and is not needed -/

/-- what `rawCounts` produces: numerator at most the denominator (NOT needed by any theorem above) -/
theorem rawCounts_le : ∀ (q t : List Nat), (rawCounts q t).1 ≤ (rawCounts q t).2
  | [], _ => by simp [rawCounts]
  | _ :: _, [] => by simp [rawCounts]
  | a :: qs, b :: ts => by
    have := rawCounts_le qs ts
    simp only [rawCounts]
    omega

/-- so a raw distance built from sequences is undefined exactly when it is 0 over 0 -/
theorem raw_undef_iff (q : List Nat) (t : Target) :
    (distance .raw q t).undef = true ↔ rawCounts q t.seq = (0, 0) := by
  have hle := rawCounts_le q t.seq
  simp only [distance, undef_rat]
  constructor
  · intro h
    have h2 : (rawCounts q t.seq).2 = 0 := by simpa using h
    have h1 : (rawCounts q t.seq).1 = 0 := by omega
    exact Prod.ext h1 h2
  · intro h; simp [h]

def mkHit (v : DVal) (i : Nat) : Hit := ⟨"", 0, v, i⟩

/-- `hitLt` is NOT a strict weak order on all hits: distances of different kinds are incomparable with each
other but each can be comparable with a third one -/
theorem hitLt_not_swo : ¬ SWO hitLt := by
  intro h
  have := h.negtrans (mkHit (.nat 1) 0) (mkHit (.nat 2) 1) (mkHit (.rat 1 1) 2) (by decide)
  revert this
  decide

/-- and the conclusion of topK itself fails on such a mixed list: with K = 2 the catchment keeps the first two
targets and refuses the third, which the sort would put first (compared by file index) -/
theorem topK_fails_mixed :
    (findClosestN 2 none [mkHit (.nat 2) 0, mkHit (.rat 1 1) 1, mkHit (.nat 1) 2]).map (·.idx) = [0, 1] ∧
    ((sortStable hitLt [mkHit (.nat 2) 0, mkHit (.rat 1 1) 1, mkHit (.nat 1) 2]).take 2).map (·.idx) = [2, 0] := by
  decide

/-! ## Part 7 : the model equals the specification `specClosestN` (selection sort under the total key) -/

section MinOut
variable {α : Type} {P : α → Prop} {lt : α → α → Bool}

/-- a minimum that is strictly before everything in front of it can be pulled out of the stable sort -/
theorem sortStable_min_out (hS : SWOOn P lt) (l1 l2 : List α) (m : α) (hl : AllP P (l1 ++ m :: l2))
    (h1 : ∀ y ∈ l1, lt m y = true) (h2 : ∀ y ∈ l2, lt y m = false) :
    sortStable lt (l1 ++ m :: l2) = m :: sortStable lt (l1 ++ l2) := by
  have hPm : P m := hl m (by simp)
  have hP1 : AllP P l1 := hl.left
  have hP2 : AllP P l2 := fun y hy => hl.right y (by simp [hy])
  have hP12 : AllP P (l1 ++ l2) := hP1.append hP2
  symm
  apply sortStable_unique_on hS _ _ hl
  · exact (List.Perm.cons m (sortStable_perm (l1 ++ l2))).trans List.perm_middle.symm
  · refine List.pairwise_cons.2 ⟨?_, sorted_sortStable hS _ hP12⟩
    intro y hy
    have hy' : y ∈ l1 ++ l2 := (sortStable_perm (lt := lt) (l1 ++ l2)).mem_iff.1 hy
    rcases List.mem_append.1 hy' with h | h
    · exact hS.asymm _ _ hPm (hP1 y h) (h1 y h)
    · exact h2 y h
  · intro z hz
    rw [List.filter_cons, sortStable_stable_on hS z hz _ hP12, List.filter_append, List.filter_append,
      List.filter_cons]
    by_cases hzm : tied lt z m = true
    · have hnone : l1.filter (tied lt z) = [] := by
        rw [List.filter_eq_nil_iff]
        intro y hy hzy
        have hmy := h1 y hy
        rw [tied_iff] at hzm hzy
        rcases hS.negtrans m y z hPm (hP1 y hy) hz hmy with h | h
        · rw [hzm.2] at h; cases h
        · rw [hzy.1] at h; cases h
      simp [hzm, hnone]
    · simp [hzm]

end MinOut

open Gofasta.Spec in
/-- `extractMin` splits the list around a minimum of the key: strictly key-before everything in front of it,
and nothing behind it is key-before it; the rest keeps the order of the file -/
theorem extractMin_spec {P : Hit → Prop} (hK : SWOOn P keyLt) : ∀ (l : List Hit) (x : Hit), AllP P (x :: l) →
    ∃ l1 l2, x :: l = l1 ++ (extractMin x l).1 :: l2 ∧ (extractMin x l).2 = l1 ++ l2 ∧
      (∀ y ∈ l1, keyLt (extractMin x l).1 y = true) ∧ (∀ y ∈ l2, keyLt y (extractMin x l).1 = false) := by
  intro l
  induction l with
  | nil => intro x _; exact ⟨[], [], by simp [extractMin]⟩
  | cons y t ih =>
    intro x hP
    have hPt : AllP P (y :: t) := fun w hw => hP w (List.mem_cons_of_mem _ hw)
    have hPx : P x := hP x (by simp)
    obtain ⟨l1, l2, e1, e2, m1, m2⟩ := ih y hPt
    simp only [extractMin]
    by_cases hrx : keyLt (extractMin y t).1 x = true
    · rw [if_pos hrx]
      refine ⟨x :: l1, l2, by simp [← e1], by simp [e2], ?_, m2⟩
      intro w hw
      rcases List.mem_cons.1 hw with rfl | hw
      · exact hrx
      · exact m1 w hw
    · rw [if_neg hrx]
      have hrx' : keyLt (extractMin y t).1 x = false := by simpa using hrx
      have hPr : P (extractMin y t).1 := hPt _ (by rw [e1]; simp)
      refine ⟨[], y :: t, rfl, rfl, by simp, ?_⟩
      intro w hw
      have hPw : P w := hPt w hw
      cases hwx : keyLt w x with
      | false => rfl
      | true =>
        exfalso
        have hw' : w ∈ l1 ++ (extractMin y t).1 :: l2 := e1 ▸ hw
        rcases hK.negtrans w x (extractMin y t).1 hPw hPx hPr hwx with h | h
        · rcases List.mem_append.1 hw' with h3 | h3
          · have := hK.asymm _ _ hPr hPw (m1 w h3)
            rw [this] at h; cases h
          · rcases List.mem_cons.1 h3 with rfl | h3
            · rw [hK.irrefl hPr] at h; cases h
            · rw [m2 w h3] at h; cases h
        · rw [hrx'] at h; cases h

/-- positions in the file strictly increase along the list -/
def IdxInc (l : List Hit) : Prop := l.Pairwise (fun a b => a.idx < b.idx)

theorem hitLt_of_keyLt_of_idx {a b : Hit} (h : Gofasta.Spec.keyLt a b = true) (hi : b.idx < a.idx) :
    hitLt a b = true := by
  simp only [Gofasta.Spec.keyLt, hitLt, Bool.or_eq_true, Bool.and_eq_true, decide_eq_true_eq, beq_iff_eq] at h ⊢
  rcases h with h | ⟨h, h' | ⟨_, h'⟩⟩
  · exact Or.inl h
  · exact Or.inr ⟨h, h'⟩
  · omega

theorem keyLt_of_hitLt {a b : Hit} (h : hitLt a b = true) : Gofasta.Spec.keyLt a b = true := by
  simp only [Gofasta.Spec.keyLt, hitLt, Bool.or_eq_true, Bool.and_eq_true, decide_eq_true_eq, beq_iff_eq] at h ⊢
  rcases h with h | ⟨h, h'⟩
  · exact Or.inl h
  · exact Or.inr ⟨h, Or.inl h'⟩

open Gofasta.Spec in
/-- **selection sort under the total key = stable sort under (distance, completeness)**, on hits in file order -/
theorem selectK_eq_sortStable {P : Hit → Prop} (hL : SWOOn P hitLt) (hK : SWOOn P keyLt) :
    ∀ (K : Nat) (l : List Hit), AllP P l → IdxInc l → selectK K l = (sortStable hitLt l).take K := by
  intro K
  induction K with
  | zero => intro l _ _; simp [selectK]
  | succ k ih =>
    intro l hP hI
    cases l with
    | nil => simp [selectK, sortStable]
    | cons x t =>
      rw [selectK]
      obtain ⟨l1, l2, e1, e2, m1, m2⟩ := extractMin_spec hK t x hP
      have hP' : AllP P (l1 ++ (extractMin x t).1 :: l2) := e1 ▸ hP
      have hI' : IdxInc (l1 ++ (extractMin x t).1 :: l2) := e1 ▸ hI
      have hI1 : ∀ y ∈ l1, y.idx < (extractMin x t).1.idx := by
        intro y hy
        exact (List.pairwise_append.1 hI').2.2 y hy _ (by simp)
      have hsub : (l1 ++ l2).Sublist (l1 ++ (extractMin x t).1 :: l2) :=
        List.Sublist.append_left (List.sublist_cons_self _ _) _
      rw [e1, sortStable_min_out hL l1 l2 _ hP'
        (fun y hy => hitLt_of_keyLt_of_idx (m1 y hy) (hI1 y hy))
        (fun y hy => by
          cases h : hitLt y (extractMin x t).1 with
          | false => rfl
          | true => have := keyLt_of_hitLt h; rw [m2 y hy] at this; cases this)]
      rw [List.take_succ_cons, e2, ih (l1 ++ l2) (AllP.sublist hsub hP') (List.Pairwise.sublist hsub hI')]

theorem hitsOf_idx (m : Measure) (q : List Nat) (ts : List Target) :
    (hitsOf m q ts).map (·.idx) = List.range ts.length := by
  simp only [hitsOf, List.map_map]
  have : ((fun h : Hit => h.idx) ∘ fun x : Target × Nat =>
      ({ name := x.1.name, score := x.1.score, dist := distance m q x.1, idx := x.2 } : Hit)) = Prod.snd := by
    funext x; rfl
  rw [this]
  exact List.map_snd_zip (by simp)

theorem hitsOf_idxInc (m : Measure) (q : List Nat) (ts : List Target) : IdxInc (hitsOf m q ts) := by
  have h := hitsOf_idx m q ts
  have hp : (List.range ts.length).Pairwise (· < ·) := List.pairwise_lt_range
  rw [← h, List.pairwise_map] at hp
  exact hp

theorem idxInc_within (maxd : Option (Nat × Nat)) {hits : List Hit} (h : IdxInc hits) : IdxInc (within maxd hits) := by
  cases maxd with
  | none => exact h
  | some nd => obtain ⟨n, d⟩ := nd; exact List.Pairwise.sublist List.filter_sublist h

theorem topKG_zero {α : Type} (lt : α → α → Bool) (l : List α) : topKG lt 0 l = [] := by
  have : ∀ l : List α, l.foldl (catchStepG lt 0) [] = [] := by
    intro l
    induction l with
    | nil => rfl
    | cons x t ih => simpa [catchStepG] using ih
  simp [topKG, this, catchFinishG]

open Gofasta.Spec in
/-- **model = specification, on hits** — of one exact kind and in file order; every K (0 included) -/
theorem findClosestN_eq_spec_on {P : Hit → Prop} (hL : SWOOn P hitLt) (hKy : SWOOn P keyLt) (K : Nat)
    (maxd : Option (Nat × Nat)) (hits : List Hit) (hP : AllP P hits) (hI : IdxInc hits) :
    findClosestN K maxd hits = specClosestN K maxd hits := by
  have hs : specClosestN K maxd hits = selectK K (within maxd hits) := by
    cases maxd with
    | none => rfl
    | some nd => obtain ⟨n, d⟩ := nd; rfl
  rw [hs, selectK_eq_sortStable hL hKy K _ (allP_within maxd hP) (idxInc_within maxd hI)]
  cases K with
  | zero => rw [findClosestN_within, topKG_zero]; simp
  | succ k => exact findClosestN_on hL (k + 1) (by omega) maxd hits hP

open Gofasta.Spec in
/-- **closest -n K [-d D] on sequences, snp or raw : the streaming catchment is the specification** (the first K
targets under the documented total key distance, completeness, file position, among those within the limit) -/
theorem closestN_exact_eq_spec (m : Measure) (hm : Exact m) (K : Nat) (maxd : Option (Nat × Nat))
    (q : List Nat) (ts : List Target) :
    findClosestN K maxd (hitsOf m q ts) = specClosestN K maxd (hitsOf m q ts) := by
  rcases hm with rfl | rfl
  · exact findClosestN_eq_spec_on hitLt_swoOn_nat (keyLt_swoOn dord_nat) K maxd _ (hitsOf_snp_nat q ts)
      (hitsOf_idxInc _ q ts)
  · exact findClosestN_eq_spec_on hitLt_swoOn_rat (keyLt_swoOn dord_rat) K maxd _ (hitsOf_raw_rat q ts)
      (hitsOf_idxInc _ q ts)

open Gofasta.Spec in
/-- **plain closest on sequences, snp or raw : the running best is the specification's first choice** -/
theorem closest_exact_eq_spec (m : Measure) (hm : Exact m) (q : List Nat) (ts : List Target) :
    findClosest (hitsOf m q ts) = (selectK 1 (hitsOf m q ts)).head? := by
  rw [closest_exact m hm q ts]
  rcases hm with rfl | rfl
  · rw [selectK_eq_sortStable hitLt_swoOn_nat (keyLt_swoOn dord_nat) 1 _ (hitsOf_snp_nat q ts) (hitsOf_idxInc _ q ts)]
    cases sortStable hitLt (hitsOf Measure.snp q ts) <;> rfl
  · rw [selectK_eq_sortStable hitLt_swoOn_rat (keyLt_swoOn dord_rat) 1 _ (hitsOf_raw_rat q ts) (hitsOf_idxInc _ q ts)]
    cases sortStable hitLt (hitsOf Measure.raw q ts) <;> rfl

/-- `closestN_exact` for every K, 0 included (the catchment of capacity 0 stays empty) -/
theorem closestN_exact_all (m : Measure) (hm : Exact m) (K : Nat) (maxd : Option (Nat × Nat))
    (q : List Nat) (ts : List Target) :
    findClosestN K maxd (hitsOf m q ts) = (sortStable hitLt (within maxd (hitsOf m q ts))).take K := by
  cases K with
  | zero => rw [findClosestN_within, topKG_zero]; simp
  | succ k => exact closestN_exact m hm (k + 1) (by omega) maxd q ts

/-- the file-order hypothesis `IdxInc` of `selectK_eq_sortStable` is needed: the specification breaks ties by the
recorded index, the stable sort by the position in the list (they agree on `hitsOf`, always in file order) -/
theorem idxInc_needed :
    (Gofasta.Spec.selectK 1 [mkHit (.nat 1) 1, mkHit (.nat 1) 0]).map (·.idx) = [0] ∧
    ((sortStable hitLt [mkHit (.nat 1) 1, mkHit (.nat 1) 0]).take 1).map (·.idx) = [1] := by
  constructor
  · simp [Gofasta.Spec.selectK, Gofasta.Spec.extractMin, Gofasta.Spec.keyLt, mkHit, lt_nat, eq_nat]
  · decide

end Gofasta.Lemmas.ClosestOrder
