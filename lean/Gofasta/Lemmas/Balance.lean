import Gofasta.Model.Updown
/-
C08: the round-robin fill of `balance` for all naturals — never more than the supply, never less than
min(requested, available), never more than the total, and it only stops at the total or when the supply of
every bin with spare candidates is used up.
-/
namespace Gofasta.Lemmas
open Gofasta Model

theorem getD_set (l : List Nat) (i j v : Nat) :
    (l.set i v).getD j 0 = if i = j ∧ i < l.length then v else l.getD j 0 := by
  simp only [List.getD_eq_getElem?_getD, List.getElem?_set]
  by_cases h : i = j
  · subst h
    by_cases hl : i < l.length
    · simp [hl]
    · simp [hl]
  · simp [h]

theorem sum_set (l : List Nat) (i v : Nat) (h : i < l.length) : (l.set i v).sum + l.getD i 0 = l.sum + v := by
  induction l generalizing i with
  | nil => simp at h
  | cons a t ih =>
    cases i with
    | zero => simp; omega
    | succ k =>
      have hk : k < t.length := by simpa using h
      have := ih k hk
      simp only [List.set_cons_succ, List.sum_cons, List.getD_cons_succ]
      omega

/-- bin k: if it has spare candidates (obs > ideal) then size + avail = obs and size ≥ ideal; otherwise it holds
exactly its supply and has nothing to give -/
def BinInv (o d s a : Nat) : Prop := (o > d → s + a = o ∧ d ≤ s) ∧ (o ≤ d → s = o ∧ a = 0)

structure FillInv (n : Nat) (obs ideal size avail : List Nat) : Prop where
  ls : size.length = n
  la : avail.length = n
  bins : ∀ k < n, BinInv (obs.getD k 0) (ideal.getD k 0) (size.getD k 0) (avail.getD k 0)

theorem fillInv_step (n : Nat) (obs ideal size avail : List Nat) (i : Nat) (h : FillInv n obs ideal size avail)
    (hc : obs.getD i 0 > ideal.getD i 0 ∧ avail.getD i 0 > 0) :
    FillInv n obs ideal (size.set i (size.getD i 0 + 1)) (avail.set i (avail.getD i 0 - 1)) := by
  refine ⟨by simp [h.ls], by simp [h.la], ?_⟩
  intro k hk
  have hb := h.bins k hk
  rw [getD_set, getD_set]
  by_cases hik : i = k
  · subst hik
    have h1 : i < size.length := by rw [h.ls]; exact hk
    have h2 : i < avail.length := by rw [h.la]; exact hk
    simp only [h1, h2, and_self, if_true]
    unfold BinInv at hb ⊢
    omega
  · simp only [hik, false_and, if_false]
    exact hb

/-- **C08.fill_bounds** — whatever the fuel, the total and the turn: the loop preserves the bin invariant -/
theorem fillLoop_inv (n : Nat) (obs ideal : List Nat) (total : Nat) : ∀ (fuel : Nat) (size avail : List Nat) (i : Nat),
    FillInv n obs ideal size avail →
    ∃ avail', FillInv n obs ideal (fillLoop fuel total size avail obs ideal i) avail' := by
  intro fuel
  induction fuel with
  | zero => intro size avail i h; exact ⟨avail, h⟩
  | succ f ih =>
    intro size avail i h
    simp only [fillLoop]
    split
    · exact ⟨avail, h⟩
    · by_cases hc : obs.getD i 0 > ideal.getD i 0 ∧ avail.getD i 0 > 0
      · simp only [hc, and_self, if_true]
        have h' := fillInv_step n obs ideal size avail i h hc
        split
        · exact ⟨_, h'⟩
        · exact ih _ _ _ h'
      · simp only [hc, if_false]
        split
        · exact ⟨avail, h⟩
        · exact ih _ _ _ h

/-- the sum never passes the total: it is checked after every single increment -/
theorem fillLoop_sum_le (obs ideal : List Nat) (total : Nat) : ∀ (fuel : Nat) (size avail : List Nat) (i : Nat),
    size.sum < total → (fillLoop fuel total size avail obs ideal i).sum ≤ total := by
  intro fuel
  induction fuel with
  | zero => intro size avail i h; simp only [fillLoop]; omega
  | succ f ih =>
    intro size avail i h
    simp only [fillLoop]
    split
    · omega
    · by_cases hc : obs.getD i 0 > ideal.getD i 0 ∧ avail.getD i 0 > 0
      · simp only [hc, and_self, if_true]
        split
        · rename_i he; omega
        · rename_i hne
          apply ih
          by_cases hi : i < size.length
          · have := sum_set size i (size.getD i 0 + 1) hi
            omega
          · have : size.set i (size.getD i 0 + 1) = size := by
              apply List.set_eq_of_length_le; omega
            rw [this]
            exact h
      · simp only [hc, if_false]
        split
        · omega
        · exact ih _ _ _ h

/-- sizes only grow -/
theorem fillLoop_mono (obs ideal : List Nat) (total : Nat) : ∀ (fuel : Nat) (size avail : List Nat) (i k : Nat),
    size.getD k 0 ≤ (fillLoop fuel total size avail obs ideal i).getD k 0 := by
  intro fuel
  induction fuel with
  | zero => intro size avail i k; exact Nat.le_refl _
  | succ f ih =>
    intro size avail i k
    simp only [fillLoop]
    have hset : size.getD k 0 ≤ (size.set i (size.getD i 0 + 1)).getD k 0 := by
      rw [getD_set]; split
      · rename_i h; rw [← h.1]; omega
      · exact Nat.le_refl _
    split
    · exact Nat.le_refl _
    · by_cases hc : obs.getD i 0 > ideal.getD i 0 ∧ avail.getD i 0 > 0
      · simp only [hc, and_self, if_true]
        split
        · exact hset
        · exact Nat.le_trans hset (ih _ _ _ k)
      · simp only [hc, if_false]
        split
        · exact Nat.le_refl _
        · exact ih _ _ _ k

end Gofasta.Lemmas

namespace Gofasta.Lemmas
open Gofasta Model

/-! ### the fuel suffices: four bins served in turn -/

/-- turns until the round robin reaches a bin that still has spare candidates -/
def turnsToSpare (avail : List Nat) (i : Nat) : Nat :=
  if avail.getD i 0 > 0 then 0 else if avail.getD ((i + 1) % 4) 0 > 0 then 1
  else if avail.getD ((i + 2) % 4) 0 > 0 then 2 else 3

theorem turnsToSpare_le (avail : List Nat) (i : Nat) : turnsToSpare avail i ≤ 3 := by
  unfold turnsToSpare; split; omega; split; omega; split <;> omega

theorem list4 (l : List Nat) (h : l.length = 4) : ∃ a b c d, l = [a, b, c, d] := by
  match l, h with
  | [a, b, c, d], _ => exact ⟨a, b, c, d, rfl⟩

theorem turnsToSpare_step (avail : List Nat) (i : Nat) (h4 : avail.length = 4) (hi : i < 4)
    (h0 : avail.getD i 0 = 0) (hs : avail.sum > 0) :
    turnsToSpare avail ((i + 1) % 4) + 1 = turnsToSpare avail i := by
  obtain ⟨a, b, c, d, rfl⟩ := list4 avail h4
  have : i = 0 ∨ i = 1 ∨ i = 2 ∨ i = 3 := by omega
  simp only [List.sum_cons, List.sum_nil] at hs
  rcases this with rfl | rfl | rfl | rfl <;> simp [turnsToSpare] at h0 ⊢ <;> subst h0 <;>
    (repeat' split) <;> omega

end Gofasta.Lemmas

namespace Gofasta.Lemmas
open Gofasta Model

theorem getD_le_sum (l : List Nat) (k : Nat) : l.getD k 0 ≤ l.sum := by
  induction l generalizing k with
  | nil => simp
  | cons a t ih =>
    cases k with
    | zero => simp
    | succ j => have := ih j; simp only [List.getD_cons_succ, List.sum_cons]; omega

/-- **C08.fill_complete** — with four bins served in turn and fuel above 4·(spare candidates) + 3, the loop stops
only because the total is reached or because no bin has a spare candidate left: then every bin holds its whole
supply -/
theorem fillLoop_complete (obs ideal : List Nat) (total : Nat) : ∀ (fuel : Nat) (size avail : List Nat) (i : Nat),
    FillInv 4 obs ideal size avail → i < 4 → 4 * avail.sum + turnsToSpare avail i < fuel →
    (fillLoop fuel total size avail obs ideal i).sum = total ∨
    (∀ k < 4, (fillLoop fuel total size avail obs ideal i).getD k 0 = obs.getD k 0) := by
  intro fuel
  induction fuel with
  | zero => intro size avail i _ _ hf; omega
  | succ f ih =>
    intro size avail i h hi hf
    simp only [fillLoop]
    split
    · rename_i hz
      right
      intro k hk
      have hb := h.bins k hk
      have hak : avail.getD k 0 = 0 := by have := getD_le_sum avail k; omega
      unfold BinInv at hb
      omega
    · rename_i hnz
      by_cases hc : obs.getD i 0 > ideal.getD i 0 ∧ avail.getD i 0 > 0
      · simp only [hc, and_self, if_true]
        split
        · left; assumption
        · have h' := fillInv_step 4 obs ideal size avail i h hc
          apply ih _ _ _ h' (Nat.mod_lt _ (by omega))
          have hia : i < avail.length := by rw [h.la]; exact hi
          have hs := sum_set avail i (avail.getD i 0 - 1) hia
          have ht := turnsToSpare_le (avail.set i (avail.getD i 0 - 1)) ((i + 1) % 4)
          omega
      · simp only [hc, if_false]
        have ha0 : avail.getD i 0 = 0 := by
          have hb := h.bins i hi
          unfold BinInv at hb
          omega
        have hst := turnsToSpare_step avail i h.la hi ha0 (by omega)
        split
        · left; assumption
        · apply ih _ _ _ h (Nat.mod_lt _ (by omega))
          omega

end Gofasta.Lemmas

namespace Gofasta.Lemmas
open Gofasta Model

/-- **C08.fill (all naturals)** — `balance` without --no-fill, requested sizes d summing to the total, supplies o:
every bin gets at least min(requested, available) and never more than its supply; the total is never exceeded;
and the shortfall is made up until the total is reached or every bin holds its whole supply -/
theorem balance_fill_spec (d0 d1 d2 d3 o0 o1 o2 o3 : Nat) :
    let d := [d0, d1, d2, d3]
    let o := [o0, o1, o2, o3]
    let r := balance d.sum d o false
    (∀ k < 4, min (o.getD k 0) (d.getD k 0) ≤ r.getD k 0 ∧ r.getD k 0 ≤ o.getD k 0) ∧
    r.sum ≤ d.sum ∧ (r.sum = d.sum ∨ ∀ k < 4, r.getD k 0 = o.getD k 0) := by
  intro d o r
  by_cases hall : ((List.range 4).all fun i => o.getD i 0 ≥ d.getD i 0) = true
  · have hr : r = d := by
      show balance d.sum d o false = d
      unfold balance; rw [if_pos hall]
    have hge : ∀ k < 4, d.getD k 0 ≤ o.getD k 0 := by
      intro k hk
      have := List.all_eq_true.1 hall k (List.mem_range.2 hk)
      simpa using this
    rw [hr]
    refine ⟨?_, Nat.le_refl _, Or.inl rfl⟩
    intro k hk
    have := hge k hk
    omega
  · -- some bin is short
    let size0 := (List.range 4).map fun i => min (o.getD i 0) (d.getD i 0)
    let avail0 := (List.range 4).map fun i => o.getD i 0 - d.getD i 0
    have hr : r = fillLoop (4 * avail0.sum + 8) d.sum size0 avail0 o d 0 := by
      show balance d.sum d o false = _
      unfold balance; rw [if_neg hall]; rfl
    have hs0 : ∀ k < 4, size0.getD k 0 = min (o.getD k 0) (d.getD k 0) := by
      intro k hk
      have : k = 0 ∨ k = 1 ∨ k = 2 ∨ k = 3 := by omega
      rcases this with rfl | rfl | rfl | rfl <;> rfl
    have ha0 : ∀ k < 4, avail0.getD k 0 = o.getD k 0 - d.getD k 0 := by
      intro k hk
      have : k = 0 ∨ k = 1 ∨ k = 2 ∨ k = 3 := by omega
      rcases this with rfl | rfl | rfl | rfl <;> rfl
    have hinv0 : FillInv 4 o d size0 avail0 := by
      refine ⟨by simp [size0], by simp [avail0], ?_⟩
      intro k hk
      unfold BinInv
      rw [hs0 k hk, ha0 k hk]
      omega
    obtain ⟨availF, hinvF⟩ := fillLoop_inv 4 o d d.sum (4 * avail0.sum + 8) size0 avail0 0 hinv0
    have hlt : size0.sum < d.sum := by
      have hex : ∃ k, k < 4 ∧ o.getD k 0 < d.getD k 0 := by
        have hne : ¬ ∀ x ∈ List.range 4, (decide (o.getD x 0 ≥ d.getD x 0)) = true := by
          intro hh; exact hall (List.all_eq_true.2 hh)
        have ⟨x, hx⟩ := Classical.not_forall.1 hne
        have ⟨hxm, hxd⟩ := Classical.not_imp.1 hx
        exact ⟨x, List.mem_range.1 hxm, by simpa using hxd⟩
      obtain ⟨k, hk, hko⟩ := hex
      have : k = 0 ∨ k = 1 ∨ k = 2 ∨ k = 3 := by omega
      simp only [size0, d, o, List.range, List.range.loop, List.map_cons, List.map_nil, List.sum_cons, List.sum_nil,
        List.getD_cons_zero, List.getD_cons_succ]
      rcases this with rfl | rfl | rfl | rfl <;>
        simp only [d, o, List.getD_cons_zero, List.getD_cons_succ] at hko <;> omega
    rw [hr]
    refine ⟨?_, fillLoop_sum_le o d d.sum _ size0 avail0 0 hlt, ?_⟩
    · intro k hk
      constructor
      · rw [← hs0 k hk]; exact fillLoop_mono o d d.sum _ size0 avail0 0 k
      · have hb := hinvF.bins k hk
        unfold BinInv at hb
        omega
    · apply fillLoop_complete o d d.sum _ size0 avail0 0 hinv0 (by omega)
      have := turnsToSpare_le avail0 0
      omega

/-- non-vacuity: 12 requested as 3+3+3+3, supplies 1, 9, 0, 4: the shortfall of 5 goes to the bins with spare, in turn -/
example : balance 12 [3, 3, 3, 3] [1, 9, 0, 4] false = [1, 7, 0, 4] := by decide

end Gofasta.Lemmas

namespace Gofasta.Lemmas
open Gofasta Model

/-! ### evenly: the shortfall is handed out one candidate per bin per round -/

/-- after ρ full rounds and with bins 0..i-1 already served in the current one, a bin with spare candidates has
received min(rounds it was served in, what it could give) -/
def EvenInv (obs ideal size : List Nat) (i ρ : Nat) : Prop :=
  ∀ k < 4, obs.getD k 0 > ideal.getD k 0 →
    size.getD k 0 - ideal.getD k 0 = min (if k < i then ρ + 1 else ρ) (obs.getD k 0 - ideal.getD k 0)

theorem evenInv_wrap (obs ideal size : List Nat) (ρ : Nat) (h : EvenInv obs ideal size 4 ρ) : EvenInv obs ideal size 0 (ρ + 1) := by
  intro k hk ho
  have := h k hk ho
  simp only [hk, if_true] at this
  simp only [Nat.not_lt_zero, if_false]
  exact this

theorem evenInv_next (obs ideal size : List Nat) (i ρ : Nat) (hi : i < 4) (h : EvenInv obs ideal size (i + 1) ρ) :
    ∃ ρ', EvenInv obs ideal size ((i + 1) % 4) ρ' := by
  by_cases h3 : i = 3
  · subst h3; exact ⟨ρ + 1, evenInv_wrap obs ideal size ρ h⟩
  · have : (i + 1) % 4 = i + 1 := Nat.mod_eq_of_lt (by omega)
    rw [this]; exact ⟨ρ, h⟩

theorem evenInv_step_can (obs ideal size avail : List Nat) (i ρ : Nat) (hi : i < 4) (h : FillInv 4 obs ideal size avail)
    (he : EvenInv obs ideal size i ρ) (hc : obs.getD i 0 > ideal.getD i 0 ∧ avail.getD i 0 > 0) :
    EvenInv obs ideal (size.set i (size.getD i 0 + 1)) (i + 1) ρ := by
  intro k hk ho
  have hek := he k hk ho
  have hb := h.bins k hk
  rw [getD_set]
  by_cases hik : i = k
  · subst hik
    have h1 : i < size.length := by rw [h.ls]; exact hk
    simp only [h1, and_self, if_true]
    simp only [Nat.lt_irrefl, if_false] at hek
    have : i < i + 1 := by omega
    simp only [this, if_true]
    unfold BinInv at hb
    omega
  · simp only [hik, false_and, if_false]
    by_cases hki : k < i
    · have h2 : k < i + 1 := by omega
      simp only [hki, h2, if_true] at hek ⊢; exact hek
    · have h2 : ¬ k < i + 1 := by omega
      simp only [hki, h2, if_false] at hek ⊢; exact hek

theorem evenInv_step_skip (obs ideal size avail : List Nat) (i ρ : Nat) (hi : i < 4) (h : FillInv 4 obs ideal size avail)
    (he : EvenInv obs ideal size i ρ) (hc : ¬ (obs.getD i 0 > ideal.getD i 0 ∧ avail.getD i 0 > 0)) :
    EvenInv obs ideal size (i + 1) ρ := by
  intro k hk ho
  have hek := he k hk ho
  have hb := h.bins k hk
  by_cases hik : i = k
  · subst hik
    simp only [Nat.lt_irrefl, if_false] at hek
    have : i < i + 1 := by omega
    simp only [this, if_true]
    unfold BinInv at hb
    omega
  · by_cases hki : k < i
    · have h2 : k < i + 1 := by omega
      simp only [hki, h2, if_true] at hek ⊢; exact hek
    · have h2 : ¬ k < i + 1 := by omega
      simp only [hki, h2, if_false] at hek ⊢; exact hek

theorem fillLoop_even (obs ideal : List Nat) (total : Nat) : ∀ (fuel : Nat) (size avail : List Nat) (i ρ : Nat),
    FillInv 4 obs ideal size avail → i < 4 → EvenInv obs ideal size i ρ →
    ∃ i' ρ', EvenInv obs ideal (fillLoop fuel total size avail obs ideal i) i' ρ' := by
  intro fuel
  induction fuel with
  | zero => intro size avail i ρ _ _ he; exact ⟨i, ρ, he⟩
  | succ f ih =>
    intro size avail i ρ h hi he
    simp only [fillLoop]
    split
    · exact ⟨i, ρ, he⟩
    · by_cases hc : obs.getD i 0 > ideal.getD i 0 ∧ avail.getD i 0 > 0
      · simp only [hc, and_self, if_true]
        have he' := evenInv_step_can obs ideal size avail i ρ hi h he hc
        split
        · exact ⟨i + 1, ρ, he'⟩
        · obtain ⟨ρ', hn⟩ := evenInv_next obs ideal _ i ρ hi he'
          exact ih _ _ _ ρ' (fillInv_step 4 obs ideal size avail i h hc) (Nat.mod_lt _ (by omega)) hn
      · simp only [hc, if_false]
        have he' := evenInv_step_skip obs ideal size avail i ρ hi h he hc
        split
        · exact ⟨i + 1, ρ, he'⟩
        · obtain ⟨ρ', hn⟩ := evenInv_next obs ideal _ i ρ hi he'
          exact ih _ _ _ ρ' h (Nat.mod_lt _ (by omega)) hn

/-- **C08.fill_even** — the shortfall is made up evenly: of two bins with spare candidates, one that has not
given everything it could has received at most one candidate less than the other (d = requested, o = supply,
r = result; additions are r − d) -/
theorem balance_even (d0 d1 d2 d3 o0 o1 o2 o3 total : Nat) :
    let d := [d0, d1, d2, d3]
    let o := [o0, o1, o2, o3]
    let r := balance total d o false
    ¬ ((List.range 4).all fun i => o.getD i 0 ≥ d.getD i 0) = true →
    ∀ j < 4, ∀ k < 4, o.getD j 0 > d.getD j 0 → o.getD k 0 > d.getD k 0 → r.getD k 0 < o.getD k 0 →
      r.getD j 0 - d.getD j 0 ≤ r.getD k 0 - d.getD k 0 + 1 := by
  intro d o r hall j hj k hk hoj hok hrk
  let size0 := (List.range 4).map fun i => min (o.getD i 0) (d.getD i 0)
  let avail0 := (List.range 4).map fun i => o.getD i 0 - d.getD i 0
  have hr : r = fillLoop (4 * avail0.sum + 8) total size0 avail0 o d 0 := by
    show balance total d o false = _
    unfold balance; rw [if_neg hall]; rfl
  have hs0 : ∀ k < 4, size0.getD k 0 = min (o.getD k 0) (d.getD k 0) := by
    intro k hk
    have : k = 0 ∨ k = 1 ∨ k = 2 ∨ k = 3 := by omega
    rcases this with rfl | rfl | rfl | rfl <;> rfl
  have ha0 : ∀ k < 4, avail0.getD k 0 = o.getD k 0 - d.getD k 0 := by
    intro k hk
    have : k = 0 ∨ k = 1 ∨ k = 2 ∨ k = 3 := by omega
    rcases this with rfl | rfl | rfl | rfl <;> rfl
  have hinv0 : FillInv 4 o d size0 avail0 := by
    refine ⟨by simp [size0], by simp [avail0], ?_⟩
    intro k hk
    unfold BinInv
    rw [hs0 k hk, ha0 k hk]
    omega
  have he0 : EvenInv o d size0 0 0 := by
    intro k hk ho
    rw [hs0 k hk]
    simp only [Nat.not_lt_zero, if_false]
    omega
  obtain ⟨i', ρ', hev⟩ := fillLoop_even o d total (4 * avail0.sum + 8) size0 avail0 0 0 hinv0 (by omega) he0
  rw [← hr] at hev
  have ej := hev j hj hoj
  have ek := hev k hk hok
  obtain ⟨availF, hinvF⟩ := fillLoop_inv 4 o d total (4 * avail0.sum + 8) size0 avail0 0 hinv0
  rw [← hr] at hinvF
  have hbk := hinvF.bins k hk
  unfold BinInv at hbk
  split at ej <;> split at ek <;> omega

end Gofasta.Lemmas
