import Gofasta.Lemmas.SamWalk
/-
C01 for queries with any number of records: the column-by-column flattening of the walked rows is the
specification's per-column verdict (`flatCol`), and hence the row written is `specTomaRow`, window included.
-/
namespace Gofasta.Lemmas
open Gofasta Model Spec Gofasta.Props.C01

/-! ### the shape of `eraseDups` -/

theorem eraseDups_eq_nil (l : List Nat) : l.eraseDups = [] ↔ l = [] := by
  cases l with
  | nil => simp
  | cons a t => simp [List.eraseDups_cons]

/-- a list of naturals deduplicates to nothing, to one value (all entries equal), or to at least two
(two different entries exist) -/
theorem eraseDups_shape (l : List Nat) :
    (l = [] ∧ l.eraseDups = []) ∨
    (∃ b, l ≠ [] ∧ (∀ x ∈ l, x = b) ∧ l.eraseDups = [b]) ∨
    (∃ a c t, l.eraseDups = a :: c :: t) := by
  cases l with
  | nil => left; simp
  | cons a t =>
    right
    rw [List.eraseDups_cons]
    cases h : (t.filter fun b => !b == a).eraseDups with
    | nil =>
      left
      refine ⟨a, by simp, ?_, rfl⟩
      have ht := (eraseDups_eq_nil _).1 h
      intro x hx
      rcases List.mem_cons.1 hx with rfl | hx
      · rfl
      · have := List.filter_eq_nil_iff.1 ht x hx
        simpa using this
    | cons c t' => right; exact ⟨a, c, t', rfl⟩

theorem filter_eraseDups (p : Nat → Bool) : ∀ (n : Nat) (l : List Nat), l.length ≤ n →
    l.eraseDups.filter p = (l.filter p).eraseDups := by
  intro n
  induction n with
  | zero => intro l hl; have : l = [] := by cases l <;> simp_all
            subst this; simp
  | succ n ih =>
    intro l hl
    cases l with
    | nil => simp
    | cons a t =>
      have hlen : (t.filter fun b => !b == a).length ≤ n := by
        have := List.length_filter_le (fun b => !b == a) t
        simp at hl; omega
      rw [List.eraseDups_cons]
      by_cases hp : p a = true
      · simp only [List.filter_cons, hp, if_true]
        rw [List.eraseDups_cons, ih _ hlen]
        congr 2
        simp only [List.filter_filter]
        apply List.filter_congr
        intro x _
        exact Bool.and_comm _ _
      · simp only [List.filter_cons, hp, Bool.false_eq_true, if_false]
        rw [ih _ hlen]
        congr 1
        simp only [List.filter_filter]
        apply List.filter_congr
        intro x _
        by_cases hx : x = a
        · subst hx; simp [hp]
        · simp [hx]

theorem foldl_max_ge (l : List Nat) : ∀ (m : Nat), m ≤ l.foldl max m := by
  induction l with
  | nil => intro m; exact Nat.le_refl _
  | cons a t ih => intro m; exact Nat.le_trans (Nat.le_max_left m a) (ih _)

theorem foldl_max_eq (l : List Nat) (b : Nat) (hb : b ∈ l) (hle : ∀ x ∈ l, x ≤ b) : ∀ (m : Nat), m ≤ b → l.foldl max m = b := by
  induction l with
  | nil => cases hb
  | cons a t ih =>
    intro m hm
    simp only [List.foldl_cons]
    have ha : a ≤ b := hle a (List.mem_cons_self)
    by_cases hbt : b ∈ t
    · exact ih hbt (fun x hx => hle x (List.mem_cons_of_mem _ hx)) _ (Nat.max_le.2 ⟨hm, ha⟩)
    · have hab : a = b := by
        rcases List.mem_cons.1 hb with h | h
        · exact h.symm
        · exact absurd h hbt
      subst hab
      have hmax : max m a = a := Nat.max_eq_right hm
      rw [hmax]
      have h1 := foldl_max_ge t a
      have h2 : ∀ (t : List Nat) (m : Nat), (∀ x ∈ t, x ≤ a) → m ≤ a → t.foldl max m ≤ a := by
        intro t
        induction t with
        | nil => intro m _ hm; exact hm
        | cons c t iht => intro m hc hm; exact iht _ (fun x hx => hc x (List.mem_cons_of_mem _ hx)) (Nat.max_le.2 ⟨hm, hc c (List.mem_cons_self)⟩)
      exact Nat.le_antisymm (h2 t a (fun x hx => hle x (List.mem_cons_of_mem _ hx)) (Nat.le_refl _)) h1

/-! ### one column -/

/-- a record whose bases are all letters, and that fits the reference -/
structure WFSamRec (rec : SamRec) (L : Nat) : Prop where
  hq : qSpan samNoIns rec.cigar ≤ rec.seq.length
  hr : rec.pos + refSpan samNoIns rec.cigar ≤ L
  letters : ∀ b ∈ rec.seq, isLetter b = true

def baseOf (c : Cov) : Option Nat := match c with | .base b => some b | .del => none

/-- the bytes the records of a block put in column i -/
def siteOf (block : List SamRec) (i : Nat) : List Nat := block.map fun r => covByte (covAt r i)

theorem covAt_base_letter (r : SamRec) (L : Nat) (h : WFSamRec r L) (i b : Nat) (hc : covAt r i = some (.base b)) : isLetter b = true := by
  unfold covAt at hc
  simp only [Option.map_eq_some_iff] at hc
  obtain ⟨e, hf, he2⟩ := hc
  exact h.letters b (mem_covList_base r.seq r.cigar 0 r.pos e b (by have := h.hq; omega) (List.mem_of_find?_eq_some hf) he2)

theorem dash_not_letter : isLetter dash = false := by decide
theorem star_not_letter : isLetter star = false := by decide

theorem site_letters (L : Nat) : ∀ (block : List SamRec), (∀ r ∈ block, WFSamRec r L) → ∀ (i : Nat),
    (siteOf block i).filter isLetter = (block.filterMap fun r => covAt r i).filterMap baseOf := by
  intro block
  induction block with
  | nil => intro _ _; rfl
  | cons r t ih =>
    intro h i
    have iht := ih (fun x hx => h x (List.mem_cons_of_mem _ hx)) i
    unfold siteOf at iht ⊢
    simp only [List.map_cons, List.filterMap_cons]
    cases hc : covAt r i with
    | none =>
      have e : covByte (none : Option Cov) = star := rfl
      rw [e]; simp only [List.filter_cons, star_not_letter, Bool.false_eq_true, if_false]; exact iht
    | some c =>
      cases c with
      | del =>
        have e : covByte (some Cov.del) = dash := rfl
        rw [e]; simp only [List.filter_cons, dash_not_letter, Bool.false_eq_true, if_false, List.filterMap_cons, baseOf]; exact iht
      | base b =>
        have hl := covAt_base_letter r L (h r (List.mem_cons_self)) i b hc
        have e : covByte (some (Cov.base b)) = b := rfl
        rw [e]; simp only [List.filter_cons, hl, if_true, List.filterMap_cons, baseOf]; rw [iht]

theorem site_mem (block : List SamRec) (i x : Nat) (hx : x ∈ siteOf block i) :
    (∃ r ∈ block, covAt r i = some (.base x)) ∨ (x = dash ∧ ∃ r ∈ block, covAt r i = some .del) ∨ (x = star) := by
  unfold siteOf at hx
  obtain ⟨r, hr, rfl⟩ := List.mem_map.1 hx
  cases hc : covAt r i with
  | none => right; right; rfl
  | some c =>
    cases c with
    | del => right; left; exact ⟨rfl, r, hr, hc⟩
    | base b => left; exact ⟨r, hr, hc⟩

theorem letter_ge (b : Nat) (h : isLetter b = true) : 65 ≤ b := by
  unfold isLetter at h
  simp only [Bool.or_eq_true, Bool.and_eq_true, decide_eq_true_eq] at h
  omega

theorem flatCol_eq (block : List SamRec) (i : Nat) :
    flatCol block i = match ((block.filterMap fun r => covAt r i).filterMap baseOf).eraseDups with
      | [b] => some b
      | _ :: _ :: _ => some letN
      | [] => if (block.filterMap fun r => covAt r i).contains Cov.del then some dash else none := rfl

/-- **C01.flatten_column** — one column of a query's records: a base beats a deletion beats no coverage,
two different bases give 'N' -/
theorem flatten_column (block : List SamRec) (L : Nat) (hne : block ≠ []) (hwf : ∀ r ∈ block, WFSamRec r L) (i : Nat) :
    flattenSite (siteOf block i) = colByte (flatCol block i) := by
  have hlet := site_letters L block hwf i
  rw [flatCol_eq]
  unfold flattenSite
  simp only []
  rw [filter_eraseDups isLetter _ _ (Nat.le_refl _), hlet]
  generalize hLB : ((block.filterMap fun r => covAt r i).filterMap baseOf) = LB at *
  have hmemLB : ∀ x, x ∈ LB ↔ (x ∈ siteOf block i ∧ isLetter x = true) := by
    intro x; rw [← hlet]; simp [List.mem_filter]
  rcases eraseDups_shape LB with ⟨hnil, he⟩ | ⟨b, hne', hall, he⟩ | ⟨a, c, t, he⟩
  · -- no base at all
    rw [he]
    simp only [List.length_nil, gt_iff_lt, Nat.not_lt_zero, if_false]
    have hnolet : ∀ x ∈ siteOf block i, x = dash ∨ x = star := by
      intro x hx
      rcases site_mem block i x hx with ⟨r, hr, hc⟩ | ⟨hd, _⟩ | hs
      · exfalso
        have : x ∈ LB := (hmemLB x).2 ⟨hx, covAt_base_letter r L (hwf r hr) i x hc⟩
        rw [hnil] at this; cases this
      · left; exact hd
      · right; exact hs
    by_cases hdel : (block.filterMap fun r => covAt r i).contains Cov.del = true
    · simp only [hdel, if_true, colByte]
      have hd : dash ∈ siteOf block i := by
        rw [List.contains_iff_mem] at hdel
        obtain ⟨r, hr, hc⟩ := List.mem_filterMap.1 hdel
        unfold siteOf
        exact List.mem_map.2 ⟨r, hr, by rw [hc]; rfl⟩
      apply foldl_max_eq _ dash (List.mem_eraseDups.2 hd) _ 0 (Nat.zero_le _)
      intro x hx
      rcases hnolet x (List.mem_eraseDups.1 hx) with rfl | rfl
      · exact Nat.le_refl _
      · decide
    · simp only [hdel, Bool.false_eq_true, if_false, colByte]
      have hall : ∀ x ∈ siteOf block i, x = star := by
        intro x hx
        rcases site_mem block i x hx with ⟨r, hr, hc⟩ | ⟨_, r, hr, hc⟩ | hs
        · exfalso
          have : x ∈ LB := (hmemLB x).2 ⟨hx, covAt_base_letter r L (hwf r hr) i x hc⟩
          rw [hnil] at this; cases this
        · exfalso
          apply hdel
          rw [List.contains_iff_mem]
          exact List.mem_filterMap.2 ⟨r, hr, hc⟩
        · exact hs
      have hs : star ∈ siteOf block i := by
        have ⟨r, t, hb⟩ : ∃ r t, block = r :: t := by
          cases hbb : block with
          | nil => exact absurd hbb hne
          | cons r t => exact ⟨r, t, rfl⟩
        have hm : covByte (covAt r i) ∈ siteOf block i := by
          unfold siteOf; rw [hb]; exact List.mem_cons_self
        rw [← hall _ hm]; exact hm
      apply foldl_max_eq _ star (List.mem_eraseDups.2 hs) _ 0 (Nat.zero_le _)
      intro x hx
      rw [hall x (List.mem_eraseDups.1 hx)]
      exact Nat.le_refl _
  · -- exactly one base value
    rw [he]
    simp only [List.length_cons, List.length_nil, gt_iff_lt, Nat.lt_irrefl, if_false, colByte]
    have hbLB : b ∈ LB := by
      cases hLB' : LB with
      | nil => exact absurd hLB' hne'
      | cons y ys => rw [hLB'] at hall; rw [← hall y (List.mem_cons_self)]; exact List.mem_cons_self
    have ⟨hbs, hbl⟩ := (hmemLB b).1 hbLB
    apply foldl_max_eq _ b (List.mem_eraseDups.2 hbs) _ 0 (Nat.zero_le _)
    intro x hx
    have hxs := List.mem_eraseDups.1 hx
    have h65 := letter_ge b hbl
    rcases site_mem block i x hxs with ⟨r, hr, hc⟩ | ⟨hd, _⟩ | hs
    · have : x ∈ LB := (hmemLB x).2 ⟨hxs, covAt_base_letter r L (hwf r hr) i x hc⟩
      rw [hall x this]; exact Nat.le_refl _
    · rw [hd]; unfold dash; omega
    · rw [hs]; unfold star; omega
  · -- two different bases
    rw [he]
    simp [colByte]

end Gofasta.Lemmas

namespace Gofasta.Lemmas
open Gofasta Model Spec Gofasta.Props.C01

/-! ### the whole row of a query -/

theorem colAt_walks (block : List SamRec) (L : Nat) (hwf : ∀ r ∈ block, WFSamRec r L) (j : Nat) (hj : j < L) :
    colAt (block.map fun r => walkNoIns r L) j = siteOf block j := by
  unfold colAt siteOf
  rw [List.map_map]
  apply List.map_congr_left
  intro r hr
  have h := hwf r hr
  simp only [Function.comp]
  rw [walk_row r L h.hq h.hr, getD_map_range _ _ _ _ hj]

/-- **C01.flatten_rows** — the flattened row of a query's records, with '*' where nothing covers -/
theorem seqFromBlock_starRow (block : List SamRec) (L : Nat) (hne : block ≠ []) (hwf : ∀ r ∈ block, WFSamRec r L) :
    seqFromBlock block L = starRow block L := by
  have hgen : flattenRows (block.map fun r => walkNoIns r L) = starRow block L := by
    cases hb : block with
    | nil => exact absurd hb hne
    | cons r0 t =>
      have hwf' : ∀ r ∈ r0 :: t, WFSamRec r L := by rw [← hb]; exact hwf
      have h0 := hwf' r0 (List.mem_cons_self)
      simp only [flattenRows, List.map_cons]
      rw [walk_length r0 L h0.hq h0.hr]
      unfold starRow
      apply List.map_congr_left
      intro j hj
      have hj' := List.mem_range.1 hj
      have := colAt_walks (r0 :: t) L hwf' j hj'
      simp only [List.map_cons] at this
      rw [this]
      exact flatten_column (r0 :: t) L (by simp) hwf' j
  unfold seqFromBlock
  split
  · rename_i r
    have h := hwf r (List.mem_cons_self)
    rw [walk_row r L h.hq h.hr]
    unfold starRow
    apply List.map_congr_left
    intro i _
    exact covByte_eq_colByte r i
  · exact hgen

theorem flatCol_ne_star (block : List SamRec) (L : Nat) (hwf : ∀ r ∈ block, WFSamRec r L) (i b : Nat)
    (h : flatCol block i = some b) : b ≠ star := by
  rw [flatCol_eq] at h
  split at h
  · rename_i b' he
    cases h
    have hb : b ∈ ((block.filterMap fun r => covAt r i).filterMap baseOf).eraseDups := by rw [he]; exact List.mem_cons_self
    have hb2 := List.mem_eraseDups.1 hb
    obtain ⟨c, hc, hcb⟩ := List.mem_filterMap.1 hb2
    obtain ⟨r, hr, hrc⟩ := List.mem_filterMap.1 hc
    cases c with
    | del => cases hcb
    | base b' =>
      simp only [baseOf, Option.some.injEq] at hcb
      subst hcb
      have := letter_ge _ (covAt_base_letter r L (hwf r hr) i _ hrc)
      unfold star; omega
  · cases h; decide
  · split at h
    · cases h; decide
    · cases h

/-- the window rule of the model is the window rule of the specification (1-based, inclusive) -/
theorem window_eq (row : List Nat) (rowP : List Nat) (pad trim : Bool) (s e : Nat) (hs : 1 ≤ s)
    (raw : List Nat) (h1 : swapInNs raw = rowP) (h2 : swapInGapsNs raw = row) :
    fastaRecordSeq raw trim pad s e = specWindow (if pad then rowP else row) pad trim s e := by
  unfold fastaRecordSeq specWindow
  cases trim with
  | false => cases pad <;> simp [h1, h2]
  | true =>
    cases pad with
    | true =>
      simp only [if_true, Bool.not_true, Bool.false_eq_true, if_false, h1]
      apply List.map_congr_left
      intro x hx
      obtain ⟨b, i⟩ := x
      simp only []
      by_cases hc : i < s - 1 ∨ i ≥ e
      · have : ¬ (s ≤ i + 1 ∧ i + 1 ≤ e) := by omega
        simp [hc, this]
      · have : s ≤ i + 1 ∧ i + 1 ≤ e := by omega
        simp [hc, this]
    | false =>
      simp only [Bool.false_eq_true, if_false, if_true, Bool.not_true, h2]
      congr 1
      omega

/-- **C01.query_row** — every query, with any number of records: the sequence written is the specification's
row (per column: the aligned base, '-' where deleted, 'N' on conflict; uncovered positions by the flank rule or
'N' under --pad), restricted to the requested window -/
theorem query_row (block : List SamRec) (L : Nat) (hne : block ≠ []) (hwf : ∀ r ∈ block, WFSamRec r L)
    (pad trim : Bool) (s e : Nat) (hs : 1 ≤ s) :
    fastaRecordSeq (seqFromBlock block L) trim pad s e = specWindow (specTomaRow block L pad) pad trim s e := by
  have hstar := flatCol_ne_star block L hwf
  rw [seqFromBlock_starRow block L hne hwf]
  rw [window_eq (specTomaRow block L false) (specTomaRow block L true) pad trim s e hs (starRow block L)
    (swapNs_starRow block L hstar) (swapGaps_starRow block L hstar)]
  cases pad <;> rfl

theorem groupRecs_ne_nil : ∀ (recs : List SamRec), ∀ g ∈ groupRecs recs, g ≠ [] := by
  intro recs
  induction recs with
  | nil => intro g hg; simp [groupRecs] at hg
  | cons r rest ih =>
    intro g hg
    simp only [groupRecs] at hg
    split at hg
    · simp at hg; subst hg; simp
    · rename_i g0 gs hgr
      split at hg
      · rcases List.mem_cons.1 hg with rfl | h
        · simp
        · exact ih g (by rw [hgr]; exact List.mem_cons_of_mem _ h)
      · split at hg
        · rcases List.mem_cons.1 hg with rfl | h
          · simp
          · exact ih g (by rw [hgr]; exact List.mem_cons_of_mem _ h)
        · rcases List.mem_cons.1 hg with rfl | h
          · simp
          · exact ih g (by rw [hgr]; exact h)

theorem groupRecs_mem : ∀ (recs : List SamRec), ∀ g ∈ groupRecs recs, ∀ r ∈ g, r ∈ recs := by
  intro recs
  induction recs with
  | nil => intro g hg; simp [groupRecs] at hg
  | cons r rest ih =>
    intro g hg x hx
    simp only [groupRecs] at hg
    split at hg
    · simp at hg; subst hg; simp at hx; subst hx; exact List.mem_cons_self
    · rename_i g0 gs hgr
      split at hg
      · rcases List.mem_cons.1 hg with rfl | h
        · simp at hx; subst hx; exact List.mem_cons_self
        · exact List.mem_cons_of_mem _ (ih g (by rw [hgr]; exact List.mem_cons_of_mem _ h) x hx)
      · split at hg
        · rcases List.mem_cons.1 hg with rfl | h
          · rcases List.mem_cons.1 hx with rfl | hx'
            · exact List.mem_cons_self
            · exact List.mem_cons_of_mem _ (ih _ (by rw [hgr]; exact List.mem_cons_self) x hx')
          · exact List.mem_cons_of_mem _ (ih g (by rw [hgr]; exact List.mem_cons_of_mem _ h) x hx)
        · rcases List.mem_cons.1 hg with rfl | h
          · simp at hx; subst hx; exact List.mem_cons_self
          · exact List.mem_cons_of_mem _ (ih g (by rw [hgr]; exact h) x hx)

/-- **C01.toMultiAlign** — the whole output: one record per block of retained records, in input order, each
with the specification's row -/
theorem toMultiAlign_spec (L : Nat) (o : TomaOpts) (recs : List SamRec) (s e : Nat) (trim : Bool)
    (hargs : checkArgs L o.start o.stop = some (s, e, trim)) (hs : 1 ≤ s)
    (hwf : ∀ r ∈ recs, isSkipped r = false → WFSamRec r L) :
    toMultiAlign L o recs = some (String.join ((samBlocks recs).map fun b =>
      tomaRecordText o.wrap (b.headD default).name (specWindow (specTomaRow b L o.pad) o.pad trim s e))) := by
  unfold toMultiAlign
  rw [hargs]
  simp only [Option.some.injEq]
  congr 1
  apply List.map_congr_left
  intro b hb
  have hne := groupRecs_ne_nil _ b hb
  have hbw : ∀ r ∈ b, WFSamRec r L := by
    intro r hr
    have hm := groupRecs_mem _ b hb r hr
    have := List.mem_filter.1 hm
    exact hwf r this.1 (by simpa using this.2)
  rw [query_row b L hne hbw o.pad trim s e hs]

end Gofasta.Lemmas

namespace Gofasta.Lemmas
open Gofasta Model Spec Gofasta.Props.C01

theorem checkArgs_start (L : Nat) (a b : Int) (s e : Nat) (trim : Bool) (h : checkArgs L a b = some (s, e, trim)) :
    1 ≤ s ∧ s ≤ e ∧ e ≤ L := by
  unfold checkArgs at h
  simp only [] at h
  by_cases c1 : (if a = -1 then (1 : Int) else a) > (L : Int) ∨ (if a = -1 then (1 : Int) else a) < 1
  · rw [if_pos c1] at h; cases h
  · rw [if_neg c1] at h
    by_cases c2 : (if b = -1 then (L : Int) else b) > (L : Int) ∨ (if b = -1 then (L : Int) else b) < 1
    · rw [if_pos c2] at h; cases h
    · rw [if_neg c2] at h
      by_cases c3 : (if a = -1 then (1 : Int) else a) > (if b = -1 then (L : Int) else b)
      · rw [if_pos c3] at h; cases h
      · rw [if_neg c3] at h
        simp only [Option.some.injEq, Prod.mk.injEq] at h
        obtain ⟨h1, h2, _⟩ := h
        omega

/-- **C01.toMultiAlign (closed form)** — for every SAM file whose retained records fit the reference and
carry letters, and every accepted window, pad and wrap setting -/
theorem toMultiAlign_total (L : Nat) (o : TomaOpts) (recs : List SamRec) (s e : Nat) (trim : Bool)
    (hargs : checkArgs L o.start o.stop = some (s, e, trim))
    (hwf : ∀ r ∈ recs, isSkipped r = false → WFSamRec r L) :
    toMultiAlign L o recs = some (String.join ((samBlocks recs).map fun b =>
      tomaRecordText o.wrap (b.headD default).name (specWindow (specTomaRow b L o.pad) o.pad trim s e))) :=
  toMultiAlign_spec L o recs s e trim hargs (checkArgs_start L _ _ s e trim hargs).1 hwf

/-- non-vacuity: two overlapping records of one query, a conflict at one column, a gap between them -/
def exA : SamRec := ⟨"q", 0, 1, [(0, 3), (2, 1)], [65, 67, 71]⟩
def exB : SamRec := ⟨"q", 2048, 3, [(0, 2)], [84, 84]⟩
example : WFSamRec exA 8 ∧ WFSamRec exB 8 := by
  refine ⟨⟨by decide, by decide, by decide⟩, ⟨by decide, by decide, by decide⟩⟩
example : specTomaRow [exA, exB] 8 false = [45, 65, 67, 78, 84, 45, 45, 45] := by decide +kernel

end Gofasta.Lemmas
