import Gofasta.Lemmas.SchedFaultsAgg
/-
(B) of Lemmas/SchedFaultsAgg - the header write AT ONCE - over the CHAIN model (Model/SchedChain: any number of worker
pools; `sam variants` has two), which the closing remark of SchedFaultsAgg lists as not done.

The writer goroutine makes its first write call(s) BEFORE its receive loop and, when one of them fails, sits at
`cErr <- err` before it has received anything.  `Model.SchedChain.init` has the writer at the head of its loop and
`Model.SchedChain.Reach` starts there, so - exactly as in section 2 of SchedFaultsAgg for the one-pool model -
  * `ChainReachFrom cfg s0` is `Reach` with the start state a parameter (the same `step?`, no Model file touched),
  * `chainErrStart cfg e` is `init cfg` with the writer at `cErr <- e`; `chainHdrStart cfg e failed` is `init cfg`, or
    `chainErrStart cfg e` when the header call failed,
  * the invariant `Inv` of SchedChainProofs holds in these start states (`inv_chainErrStart`), and so does the history
    invariant `ChainHist` of SchedFaults (`hist_chainErrStart`); both are preserved by every step.

Contents
  1.  `ChainReachFrom`, `chainReachFrom_init`, `chainErrStart`, `chainHdrStart`, `inv_chainErrStart`,
      `hist_chainErrStart`, `chainReachFrom_inv`, `chainReachFrom_hist`, `chain_frozen`, `chainErrStart_frozen`,
      `chainErrStart_reportable`, `chainReachFrom_maximal_returned`, `chainErrStart_maximal`
  2.  the streaming writer `FW` (`IsFWc`): `chain_hdr_fault_reported`, `chain_hdr_fault_beyond_run_harmless`,
      `chain_hdr_written_is_prefix`, `chain_header_fault_immediate`, `chain_header_fault_immediate'`,
      `chain_header_fault_reportable_at_once`, `chain_hdr_fault_maximal_run`, `chain_hdr_fault_maximal_run_write_error`
  3.  the aggregating writer `AW` (`IsAWc`): `chain_agg_hdr_fault_reported`, `chain_agg_hdr_fault_beyond_run_harmless`,
      `chain_agg_hdr_written_is_prefix`, `chain_agg_header_fault_immediate`,
      `chain_agg_hdr_fault_maximal_run_write_error`
  4.  `gofasta sam variants` (configuration `samVarFCfg` of SchedFaults): `sam_variants_hdr_*`,
      `sam_variants_header_fault_immediate`; `gofasta sam variants --aggregate` with the header before the loop
      (configuration `samVarAggFCfg d [varAggHeader] []` of SchedFaultsAgg): `sam_variants_agg_hdr_*`,
      `sam_variants_agg_header_fault_immediate`
  namespace `Examples`: two pools of two workers, two records; runs from the header-first start (by decide)
-/
set_option autoImplicit false

namespace Gofasta.Lemmas.SchedFaultsChainHdr
open Gofasta Gofasta.Model
open Gofasta.Model.Sched (absorbAll)
open Gofasta.Lemmas.SchedCommands
open Gofasta.Lemmas.SchedFaults
open Gofasta.Lemmas.SchedFaultsAgg

variable {ε κ : Type}

/-! ## 1. start states of the chain -/

section startStates
open Gofasta.Model.SchedChain Gofasta.Lemmas.SchedChain
open Gofasta.Model.Sched (RPc WPc TPc OPc Chan)
variable {γ σ : Type}

/-- `Model.SchedChain.Reach` with the start state a parameter: the same step function, the same labels -/
inductive ChainReachFrom (cfg : Cfg γ ε σ) (s0 : State γ ε σ) : State γ ε σ → Prop where
  | start : ChainReachFrom cfg s0 s0
  | step {s s' : State γ ε σ} (l : Label) : ChainReachFrom cfg s0 s → step? cfg s l = some s' →
      ChainReachFrom cfg s0 s'

theorem chainReachFrom_init {cfg : Cfg γ ε σ} {s : State γ ε σ} :
    ChainReachFrom cfg (init cfg) s ↔ Reach cfg s := by
  constructor
  · intro h
    induction h with
    | start => exact Reach.init
    | step l _ hs ih => exact Reach.step l ih hs
  · intro h
    induction h with
    | init => exact ChainReachFrom.start
    | step l _ hs ih => exact ChainReachFrom.step l ih hs

/-- the start state of a chain whose writer goroutine has failed before its loop: everything as in
`Model.SchedChain.init`, the writer at `cErr <- e` -/
def chainErrStart (cfg : Cfg γ ε σ) (e : ε) : State γ ε σ := { init cfg with writer := .errS e }

/-- the start state of a chain whose writer makes its first write calls before its loop: `failed` says whether one of
them failed -/
def chainHdrStart (cfg : Cfg γ ε σ) (e : ε) (failed : Bool) : State γ ε σ :=
  if failed then chainErrStart cfg e else init cfg

theorem chainHdrStart_false (cfg : Cfg γ ε σ) (e : ε) : chainHdrStart cfg e false = init cfg := rfl
theorem chainHdrStart_true (cfg : Cfg γ ε σ) (e : ε) : chainHdrStart cfg e true = chainErrStart cfg e := rfl

/-- the invariant of SchedChainProofs holds in that start state, provided e is an error the writer can produce -/
theorem inv_chainErrStart (cfg : Cfg γ ε σ) (e : ε) (he : ∃ st, cfg.finish st = .error e) :
    Inv cfg (chainErrStart cfg e) := by
  have h := inv_init cfg
  exact ⟨h.lenW, h.lenT, h.lenC, h.wlen, h.np, h.caps, h.rinv, h.rExit, h.rClosed, h.wOk, h.wExit, h.chOk, h.arrOk,
    h.tOk, h.cons, h.tWait, h.tClosed,
    fun hw => by simp [chainErrStart] at hw,
    fun hw => by rcases hw with hw | hw <;> simp [chainErrStart] at hw,
    fun hw => by rcases hw with hw | hw <;> simp [chainErrStart] at hw,
    fun e' hw => by
      simp only [chainErrStart, OPc.errS.injEq] at hw
      subst hw; exact Or.inr he,
    h.mStage,
    ⟨fun hm => by simp [chainErrStart, init] at hm, fun hw => by simp [chainErrStart] at hw⟩, h.mErr⟩

theorem hist_chainErrStart (cfg : Cfg γ ε σ) (e : ε) (he : cfg.finish cfg.init = .error e) :
    ChainHist cfg (chainErrStart cfg e) := by
  constructor
  · intro e' hw
    simp only [chainErrStart, OPc.errS.injEq] at hw
    subst hw
    exact Or.inr ⟨rfl, he⟩
  · intro e' hm
    simp [chainErrStart, init] at hm

theorem chainReachFrom_inv {cfg : Cfg γ ε σ} {s0 s : State γ ε σ} (h0 : Inv cfg s0)
    (hr : ChainReachFrom cfg s0 s) : Inv cfg s := by
  induction hr with
  | start => exact h0
  | step l _ hs ih => exact inv_step ih hs

theorem chainReachFrom_hist {cfg : Cfg γ ε σ} {s0 s : State γ ε σ} (h0 : Inv cfg s0) (hh : ChainHist cfg s0)
    (hr : ChainReachFrom cfg s0 s) : ChainHist cfg s := by
  induction hr with
  | start => exact hh
  | step l hr hs ih => exact chain_hist_step (chainReachFrom_inv h0 hr) ih hs

/-- a writer that sits at `cErr <- err` stays there: it receives nothing, its state does not change -/
theorem chain_frozen {cfg : Cfg γ ε σ} {s0 s : State γ ε σ} {e : ε} (h0 : s0.writer = .errS e)
    (hr : ChainReachFrom cfg s0 s) : s.writer = .errS e ∧ s.wst = s0.wst ∧ s.arrival = s0.arrival := by
  induction hr with
  | start => exact ⟨h0, rfl, rfl⟩
  | step l hr hs ih =>
    obtain ⟨i1, i2, i3⟩ := ih
    rcases chain_writer_frame hs with ⟨h1, h2, h3, _⟩ | ⟨hw, _⟩ | ⟨hw, _⟩ | ⟨hw, _⟩
    · exact ⟨h1.trans i1, h2.trans i2, h3.trans i3⟩
    · rw [i1] at hw; cases hw
    · rw [i1] at hw; cases hw
    · rw [i1] at hw; cases hw

/-- every state reachable from `chainErrStart`: nothing has arrived, the writer's state is its initial state, the
writer sits at `cErr <- e`, main has not returned nil -/
theorem chainErrStart_frozen {cfg : Cfg γ ε σ} {s : State γ ε σ} {e : ε} (he : ∃ st, cfg.finish st = .error e)
    (hr : ChainReachFrom cfg (chainErrStart cfg e) s) :
    s.writer = .errS e ∧ s.wst = cfg.init ∧ s.arrival = [] ∧ s.main ≠ .ret none := by
  obtain ⟨h1, h2, h3⟩ := chain_frozen (e := e) rfl hr
  refine ⟨h1, h2, h3, ?_⟩
  intro hm
  have := (chainReachFrom_inv (inv_chainErrStart cfg e he) hr).mOk.mp hm
  rw [h1] at this; cases this

/-- the report can be made at once: in the start state itself main's `case err := <-cErr` is enabled -/
theorem chainErrStart_reportable (cfg : Cfg γ ε σ) (e : ε) :
    step? cfg (chainErrStart cfg e) (.mainErr .writer) = some { chainErrStart cfg e with main := .ret (some e) } := rfl

/-- no state reachable from a start state with the invariant is stuck before main has returned -/
theorem chainReachFrom_maximal_returned {cfg : Cfg γ ε σ} {s0 s : State γ ε σ} (hN : ∀ P ∈ cfg.pools, 1 ≤ P.N)
    (h0 : Inv cfg s0) (hr : ChainReachFrom cfg s0 s) (hstuck : enabled cfg s = []) : ∃ r, s.main = .ret r := by
  have h := chainReachFrom_inv h0 hr
  cases hm : s.main with
  | ret r => exact ⟨r, rfl⟩
  | stage j =>
    refine absurd hstuck (enabled_ne_nil_of_progress (chain_no_deadlock' hN h ?_))
    simp [State.final, h.np, hm, MPc.isRet]

/-- from `chainErrStart` with nothing else failing: every run that cannot be extended has returned e -/
theorem chainErrStart_maximal {cfg : Cfg γ ε σ} {s : State γ ε σ} {e : ε} (hN : ∀ P ∈ cfg.pools, 1 ≤ P.N)
    (he : cfg.finish cfg.init = .error e) (hr : ChainReachFrom cfg (chainErrStart cfg e) s)
    (hstuck : enabled cfg s = []) :
    (∃ e', s.main = .ret (some e')) ∧
    (cfg.readFail = none → (∀ x ∈ cfg.items, ∃ y, pass cfg.pools x = .ok y) → s.main = .ret (some e)) := by
  have h0 := inv_chainErrStart cfg e ⟨_, he⟩
  obtain ⟨hw, _, _, hnil⟩ := chainErrStart_frozen ⟨_, he⟩ hr
  obtain ⟨r, hm⟩ := chainReachFrom_maximal_returned hN h0 hr hstuck
  cases r with
  | none => exact absurd hm hnil
  | some e' =>
    refine ⟨⟨e', hm⟩, fun hrf hall => ?_⟩
    rcases (chainReachFrom_hist h0 (hist_chainErrStart cfg e he) hr).mErr e' hm with ⟨k, hk⟩ | ⟨x, hx, hf⟩ | hw'
    · rw [hrf] at hk; cases hk
    · obtain ⟨y, hy⟩ := hall x hx
      rw [hy] at hf; cases hf
    · rw [hw] at hw'
      cases hw'
      exact hm

/-- every schedule run from a start state stays within `ChainReachFrom` -/
theorem chain_runWith_reachFrom {cfg : Cfg γ ε σ} {s0 : State γ ε σ} (sched : List Nat) {s : State γ ε σ}
    (hr : ChainReachFrom cfg s0 s) : ChainReachFrom cfg s0 (runWith (step? cfg) (allLabels cfg) s sched) := by
  induction sched generalizing s with
  | nil => exact hr
  | cons k ks ih =>
    simp only [runWith]
    split
    · exact hr
    · rename_i l _
      split
      · rename_i s' hs; exact ih (ChainReachFrom.step l hr hs)
      · exact hr

/-- run a schedule of the chain from the header-first start state -/
def chainRunHdr (cfg : Cfg γ ε σ) (e : ε) (failed : Bool) (sched : List Nat) : State γ ε σ :=
  runWith (step? cfg) (allLabels cfg) (chainHdrStart cfg e failed) sched

theorem chainRunHdr_reachFrom (cfg : Cfg γ ε σ) (e : ε) (failed : Bool) (sched : List Nat) :
    ChainReachFrom cfg (chainHdrStart cfg e failed) (chainRunHdr cfg e failed sched) :=
  chain_runWith_reachFrom sched ChainReachFrom.start

end startStates

/-! ## 2. (B) for the streaming writer of SchedFaults over the chain -/

section hdrFW
open Gofasta.Model.SchedChain Gofasta.Lemmas.SchedChain

variable {γ : Type} {cfg : Cfg γ ε (FW γ)} {s : State γ ε (FW γ)} {d : Dest} {chunks : γ → List String}
  {header : String} {k0 : Nat} {e : ε}

theorem chain_fw_finish_init (h : IsFWc cfg d chunks header k0 e) (hd : d.fails 1 = true) :
    cfg.finish cfg.init = .error e := by
  rw [h.hfin, h.hinit]
  simp [FW.finish, FW.start, put_header, hd]

/-- the start state of the chain's streaming writer with the header written first: `init`, or - when the first call
fails - the writer at `cErr <- e`; the invariant of SchedChainProofs holds there -/
theorem chain_fw_hdrStart_inv (h : IsFWc cfg d chunks header k0 e) : Inv cfg (chainHdrStart cfg e (d.fails 1)) := by
  cases hd : d.fails 1 with
  | false => exact inv_init cfg
  | true => exact inv_chainErrStart cfg e ⟨_, chain_fw_finish_init h hd⟩

/-- **(B 1) chain_hdr_fault_reported**: the header call is made first; `failFrom k` or `failOnce k` with 1 ≤ k ≤ W: no
state reachable from the header-first start of the chain has main = ret none -/
theorem chain_hdr_fault_reported (h : IsFWc cfg d chunks header k0 e) (hN : ∀ P ∈ cfg.pools, 1 ≤ P.N) (k : Nat)
    (hd : d = .failFrom k ∨ d = .failOnce k) (hk1 : 1 ≤ k)
    (hkW : ∀ ys, cfg.items.map (pass cfg.pools) = ys.map Except.ok → k ≤ nCalls chunks ys)
    (hr : ChainReachFrom cfg (chainHdrStart cfg e (d.fails 1)) s) : s.main ≠ .ret none := by
  cases h1 : d.fails 1 with
  | false =>
    rw [h1] at hr
    exact chain_fault_reported h hN k hd hk1 hkW (chainReachFrom_init.mp hr)
  | true =>
    rw [h1] at hr
    exact (chainErrStart_frozen ⟨_, chain_fw_finish_init h h1⟩ hr).2.2.2

/-- **(B 2) chain_hdr_fault_beyond_run_harmless**: whatever the destination, a state reachable from the header-first
start in which main has returned nil has the sequential text accepted, every call having succeeded -/
theorem chain_hdr_fault_beyond_run_harmless (h : IsFWc cfg d chunks header k0 e) (hN : ∀ P ∈ cfg.pools, 1 ≤ P.N)
    (hr : ChainReachFrom cfg (chainHdrStart cfg e (d.fails 1)) s) (hm : s.main = .ret none) :
    ∃ ys : List γ, cfg.items.map (pass cfg.pools) = ys.map Except.ok ∧
      s.wst.sink.text = header ++ String.join (ys.map fun y => String.join (chunks y)) ∧
      s.wst.sink.failed = false ∧ s.wst.sink.calls = nCalls chunks ys ∧
      ∀ i, 1 ≤ i → i ≤ nCalls chunks ys → d.fails i = false := by
  cases h1 : d.fails 1 with
  | false =>
    rw [h1] at hr
    exact chain_fault_beyond_run_harmless h hN (chainReachFrom_init.mp hr) hm
  | true =>
    rw [h1] at hr
    exact absurd hm (chainErrStart_frozen ⟨_, chain_fw_finish_init h h1⟩ hr).2.2.2

/-- **(B 3) chain_hdr_written_is_prefix**: in every state reachable from the header-first start the text accepted is
the fault-free call sequence cut at a call boundary -/
theorem chain_hdr_written_is_prefix (h : IsFWc cfg d chunks header k0 e)
    (hr : ChainReachFrom cfg (chainHdrStart cfg e (d.fails 1)) s) :
    ∃ j, chainAccepted d chunks header k0 s =
      String.join ((callSeq header chunks (goodPrefix (pass cfg.pools) cfg.items)).take j) := by
  have hi := chainReachFrom_inv (chain_fw_hdrStart_inv h) hr
  exact fwAfter_text_prefix d chunks header k0 (chain_arrival_nodup hi) (chain_arrival_good hi)

theorem chain_hdr_written_is_prefix_ok (h : IsFWc cfg d chunks header k0 e) {ys : List γ}
    (hys : cfg.items.map (pass cfg.pools) = ys.map Except.ok)
    (hr : ChainReachFrom cfg (chainHdrStart cfg e (d.fails 1)) s) :
    ∃ j, chainAccepted d chunks header k0 s = String.join ((callSeq header chunks ys).take j) ∧
      String.join (callSeq header chunks ys) = header ++ String.join (ys.map fun y => String.join (chunks y)) := by
  obtain ⟨j, hj⟩ := chain_hdr_written_is_prefix h hr
  rw [goodPrefix_all_ok hys] at hj
  exact ⟨j, hj, join_callSeq header chunks ys⟩

/-- **(B) chain_header_fault_immediate**: the first call fails (`failFrom 1`, `failOnce 1`): in EVERY state reachable
from the header-first start of the chain the writer has received nothing and sits at `cErr <- e`; exactly one call -
the header - was ever made, nothing was accepted: no record text is ever presented to the destination; main never
returns nil -/
theorem chain_header_fault_immediate (h : IsFWc cfg d chunks header k0 e) (hd : d.fails 1 = true)
    (hr : ChainReachFrom cfg (chainHdrStart cfg e (d.fails 1)) s) :
    s.arrival = [] ∧ s.writer = .errS e ∧ s.wst.sink = ⟨"", 1, true⟩ ∧ chainAccepted d chunks header k0 s = "" ∧
      s.main ≠ .ret none := by
  rw [hd] at hr
  obtain ⟨h1, h2, h3, h4⟩ := chainErrStart_frozen ⟨_, chain_fw_finish_init h hd⟩ hr
  have hsink : (FW.start d header k0 : FW γ).sink = ⟨"", 1, true⟩ := by simp [FW.start, put_header, hd]
  refine ⟨h3, h1, by rw [h2, h.hinit]; exact hsink, ?_, h4⟩
  unfold chainAccepted
  rw [h3]
  exact congrArg Sink.text hsink

theorem chain_header_fault_immediate' (h : IsFWc cfg d chunks header k0 e) (hd : d = .failFrom 1 ∨ d = .failOnce 1)
    (hr : ChainReachFrom cfg (chainHdrStart cfg e (d.fails 1)) s) :
    s.arrival = [] ∧ s.writer = .errS e ∧ s.wst.sink = ⟨"", 1, true⟩ ∧ chainAccepted d chunks header k0 s = "" ∧
      s.main ≠ .ret none :=
  chain_header_fault_immediate h (Dest.fails_of_at hd) hr

/-- (B) the report is available at once: in the start state itself, before any record has moved, main's
`case err := <-cErr` can take the write error -/
theorem chain_header_fault_reportable_at_once (cfg : Cfg γ ε (FW γ)) (e : ε) :
    step? cfg (chainHdrStart cfg e true) (.mainErr .writer) =
      some { chainErrStart cfg e with main := .ret (some e) } := rfl

/-- **(B 1), whole runs**: every run from the header-first start that cannot be extended has returned an error -/
theorem chain_hdr_fault_maximal_run (h : IsFWc cfg d chunks header k0 e) (hN : ∀ P ∈ cfg.pools, 1 ≤ P.N) (k : Nat)
    (hd : d = .failFrom k ∨ d = .failOnce k) (hk1 : 1 ≤ k)
    (hkW : ∀ ys, cfg.items.map (pass cfg.pools) = ys.map Except.ok → k ≤ nCalls chunks ys)
    (hr : ChainReachFrom cfg (chainHdrStart cfg e (d.fails 1)) s) (hstuck : enabled cfg s = []) :
    ∃ e', s.main = .ret (some e') := by
  obtain ⟨r, hm⟩ := chainReachFrom_maximal_returned hN (chain_fw_hdrStart_inv h) hr hstuck
  cases r with
  | none => exact absurd hm (chain_hdr_fault_reported h hN k hd hk1 hkW hr)
  | some e' => exact ⟨e', hm⟩

/-- **(B 1), which error**: reader and workers do not fail: every run from the header-first start that cannot be
extended has returned the write error -/
theorem chain_hdr_fault_maximal_run_write_error (h : IsFWc cfg d chunks header k0 e) (hN : ∀ P ∈ cfg.pools, 1 ≤ P.N)
    (hrf : cfg.readFail = none) {ys : List γ} (hys : cfg.items.map (pass cfg.pools) = ys.map Except.ok) (k : Nat)
    (hd : d = .failFrom k ∨ d = .failOnce k) (hk1 : 1 ≤ k) (hkW : k ≤ nCalls chunks ys)
    (hr : ChainReachFrom cfg (chainHdrStart cfg e (d.fails 1)) s) (hstuck : enabled cfg s = []) :
    s.main = .ret (some e) := by
  cases h1 : d.fails 1 with
  | false =>
    rw [h1] at hr
    exact chain_fault_maximal_run_write_error h hN hrf hys k hd hk1 hkW (chainReachFrom_init.mp hr) hstuck
  | true =>
    rw [h1] at hr
    exact (chainErrStart_maximal hN (chain_fw_finish_init h h1) hr hstuck).2 hrf (all_ok_of_map hys)

end hdrFW

/-! ## 3. (B) for the aggregating writer over the chain: the calls `hs` are made before the loop -/

section hdrAW
open Gofasta.Model.SchedChain Gofasta.Lemmas.SchedChain

variable {γ : Type} {cfg : Cfg γ ε (AW κ)} {s : State γ ε (AW κ)} {d : Dest} {hs pre : List String} {acc0 : κ}
  {accum : κ → Nat × γ → κ} {rows : κ → List String} {e : ε} {R : List String}

theorem chain_aw_finish_init (h : IsAWc cfg d hs pre acc0 accum rows e)
    (hf : (Sink.putAll d Sink.empty hs).failed = true) : cfg.finish cfg.init = .error e := by
  rw [h.hfin, h.hinit]
  simp [AW.finish, AW.start, Sink.putAll_of_failed d _ _ hf, hf]

theorem chain_aw_hdrStart_inv (h : IsAWc cfg d hs pre acc0 accum rows e) :
    Inv cfg (chainHdrStart cfg e (Sink.putAll d Sink.empty hs).failed) := by
  cases hf : (Sink.putAll d Sink.empty hs).failed with
  | false => exact inv_init cfg
  | true => exact inv_chainErrStart cfg e ⟨_, chain_aw_finish_init h hf⟩

/-- **(B 1) for the aggregating writer over the chain** -/
theorem chain_agg_hdr_fault_reported (h : IsAWc cfg d hs pre acc0 accum rows e) (hN : ∀ P ∈ cfg.pools, 1 ≤ P.N)
    (hR : RowsAre cfg.items (pass cfg.pools) acc0 accum rows R) (k : Nat) (hd : d = .failFrom k ∨ d = .failOnce k)
    (hk1 : 1 ≤ k) (hkW : k ≤ aggW hs pre R)
    (hr : ChainReachFrom cfg (chainHdrStart cfg e (Sink.putAll d Sink.empty hs).failed) s) : s.main ≠ .ret none := by
  cases hf : (Sink.putAll d Sink.empty hs).failed with
  | false =>
    rw [hf] at hr
    exact chain_agg_fault_reported h hN hR k hd hk1 hkW (chainReachFrom_init.mp hr)
  | true =>
    rw [hf] at hr
    exact (chainErrStart_frozen ⟨_, chain_aw_finish_init h hf⟩ hr).2.2.2

/-- **(B 2) for the aggregating writer over the chain** -/
theorem chain_agg_hdr_fault_beyond_run_harmless (h : IsAWc cfg d hs pre acc0 accum rows e)
    (hN : ∀ P ∈ cfg.pools, 1 ≤ P.N) (hR : RowsAre cfg.items (pass cfg.pools) acc0 accum rows R)
    (hr : ChainReachFrom cfg (chainHdrStart cfg e (Sink.putAll d Sink.empty hs).failed) s)
    (hm : s.main = .ret none) :
    s.wst.sink.text = String.join (aggCalls hs pre R) ∧ s.wst.sink.failed = false ∧
      s.wst.sink.calls = aggW hs pre R ∧ ∀ i, 1 ≤ i → i ≤ aggW hs pre R → d.fails i = false := by
  cases hf : (Sink.putAll d Sink.empty hs).failed with
  | false =>
    rw [hf] at hr
    exact chain_agg_fault_beyond_run_harmless h hN hR (chainReachFrom_init.mp hr) hm
  | true =>
    rw [hf] at hr
    exact absurd hm (chainErrStart_frozen ⟨_, chain_aw_finish_init h hf⟩ hr).2.2.2

/-- **(B 3) for the aggregating writer over the chain** -/
theorem chain_agg_hdr_written_is_prefix (h : IsAWc cfg d hs pre acc0 accum rows e) (hN : ∀ P ∈ cfg.pools, 1 ≤ P.N)
    (hR : RowsAre cfg.items (pass cfg.pools) acc0 accum rows R)
    (hr : ChainReachFrom cfg (chainHdrStart cfg e (Sink.putAll d Sink.empty hs).failed) s) :
    ∃ j, chainAggAccepted d hs pre acc0 accum rows s = String.join ((aggCalls hs pre R).take j) := by
  cases hf : (Sink.putAll d Sink.empty hs).failed with
  | false =>
    rw [hf] at hr
    exact chain_agg_written_is_prefix h hN hR (chainReachFrom_init.mp hr)
  | true =>
    rw [hf] at hr
    obtain ⟨h1, _, h3, _⟩ := chainErrStart_frozen ⟨_, chain_aw_finish_init h hf⟩ hr
    obtain ⟨j, hj, ht⟩ := sink_text_take d hs
    refine ⟨j, ?_⟩
    rw [chainAggAccepted_not_recv (by rw [h1]; intro hc; cases hc), aggCalls, List.append_assoc,
      Sink.putAll_append d Sink.empty hs, Sink.putAll_of_failed d _ _ hf, ht, aggCalls, List.append_assoc,
      List.take_append_of_le_length hj]

/-- **(B) chain_agg_header_fault_immediate**: the aggregating writer of the chain writes its header before the loop and
that call fails: in every state reachable from the header-first start nothing has been received, one call was made,
nothing was accepted, main never returns nil -/
theorem chain_agg_header_fault_immediate {header : String} (h : IsAWc cfg d [header] [] acc0 accum rows e)
    (hd : d.fails 1 = true)
    (hr : ChainReachFrom cfg (chainHdrStart cfg e (Sink.putAll d Sink.empty [header]).failed) s) :
    s.arrival = [] ∧ s.writer = .errS e ∧ s.wst.sink = ⟨"", 1, true⟩ ∧
      chainAggAccepted d [header] [] acc0 accum rows s = "" ∧ s.main ≠ .ret none := by
  have hsink : Sink.putAll d Sink.empty [header] = ⟨"", 1, true⟩ := by
    simp [Sink.putAll, put_header, hd]
  have hf : (Sink.putAll d Sink.empty [header]).failed = true := by rw [hsink]
  rw [hf] at hr
  obtain ⟨h1, h2, h3, h4⟩ := chainErrStart_frozen ⟨_, chain_aw_finish_init h hf⟩ hr
  refine ⟨h3, h1, by rw [h2, h.hinit]; exact hsink, ?_, h4⟩
  rw [chainAggAccepted_not_recv (by rw [h1]; intro hc; cases hc), aggCalls, List.append_assoc,
    Sink.putAll_append d Sink.empty [header], Sink.putAll_of_failed d _ _ hf, hsink]

/-- **(B 1), whole runs, for the aggregating writer over the chain** -/
theorem chain_agg_hdr_fault_maximal_run (h : IsAWc cfg d hs pre acc0 accum rows e) (hN : ∀ P ∈ cfg.pools, 1 ≤ P.N)
    (hR : RowsAre cfg.items (pass cfg.pools) acc0 accum rows R) (k : Nat) (hd : d = .failFrom k ∨ d = .failOnce k)
    (hk1 : 1 ≤ k) (hkW : k ≤ aggW hs pre R)
    (hr : ChainReachFrom cfg (chainHdrStart cfg e (Sink.putAll d Sink.empty hs).failed) s)
    (hstuck : enabled cfg s = []) : ∃ e', s.main = .ret (some e') := by
  obtain ⟨r, hm⟩ := chainReachFrom_maximal_returned hN (chain_aw_hdrStart_inv h) hr hstuck
  cases r with
  | none => exact absurd hm (chain_agg_hdr_fault_reported h hN hR k hd hk1 hkW hr)
  | some e' => exact ⟨e', hm⟩

/-- **(B 1), which error, for the aggregating writer over the chain** -/
theorem chain_agg_hdr_fault_maximal_run_write_error (h : IsAWc cfg d hs pre acc0 accum rows e)
    (hN : ∀ P ∈ cfg.pools, 1 ≤ P.N) (hrf : cfg.readFail = none)
    (hall : ∀ x ∈ cfg.items, ∃ y, pass cfg.pools x = .ok y)
    (hR : RowsAre cfg.items (pass cfg.pools) acc0 accum rows R) (k : Nat) (hd : d = .failFrom k ∨ d = .failOnce k)
    (hk1 : 1 ≤ k) (hkW : k ≤ aggW hs pre R)
    (hr : ChainReachFrom cfg (chainHdrStart cfg e (Sink.putAll d Sink.empty hs).failed) s)
    (hstuck : enabled cfg s = []) : s.main = .ret (some e) := by
  cases hf : (Sink.putAll d Sink.empty hs).failed with
  | false =>
    rw [hf] at hr
    exact chain_agg_fault_maximal_run_write_error h hN hrf hall hR k hd hk1 hkW (chainReachFrom_init.mp hr) hstuck
  | true =>
    rw [hf] at hr
    exact (chainErrStart_maximal hN (chain_aw_finish_init h hf) hr hstuck).2 hrf hall

end hdrAW

/-! ## 4. the commands -/

/-! ### F (B). `gofasta sam variants`: two worker pools, the streaming writer (two calls per record), the header
written before the loop.  The configuration is `samVarFCfg` of SchedFaults. -/

section samVariantsHeaderFirst
open Gofasta.Model.SchedChain Gofasta.Lemmas.SchedChain Gofasta.Driver Gofasta.Lemmas.SamVarPipeline Gofasta.Base

/-- **F (B 1)**: any numbers of workers in the two pools, any capacities; the header call is made first; the
destination fails at call k, 1 ≤ k ≤ W: no schedule from the header-first start returns nil -/
theorem sam_variants_hdr_fault_reported (d : Dest) (vi : VarIn) (refID : String) (refRaw : List Nat)
    (blocks : List (List SamRec)) (pairOf : List SamRec → List Nat → List Nat × List Nat)
    (caller : List Nat → List Nat → List Region → List Nat → List Variant)
    (regions : List Region) (inter : List Nat) (N1 N2 cap0 cap1 cap2 : Nat) (rf : Option (Nat × RunErr))
    (hN1 : 1 ≤ N1) (hN2 : 1 ≤ N2) (k : Nat) (hd : d = .failFrom k ∨ d = .failOnce k) (hk1 : 1 ≤ k)
    (hkW : k ≤ samVarW refID blocks) {s : State _ _ _}
    (hr : ChainReachFrom (samVarFCfg d vi refID refRaw blocks pairOf caller regions inter N1 N2 cap0 cap1 cap2 rf)
      (chainHdrStart (samVarFCfg d vi refID refRaw blocks pairOf caller regions inter N1 N2 cap0 cap1 cap2 rf) .write
        (d.fails 1)) s) : s.main ≠ .ret none := by
  apply chain_hdr_fault_reported
    (samVarF_isFW d vi refID refRaw blocks pairOf caller regions inter N1 N2 cap0 cap1 cap2 rf)
    (samVarF_pools_pos hN1 hN2) k hd hk1 _ hr
  intro ys hys
  rw [samVarF_items_pass] at hys
  have hys' : ys = blocks.map (svBoth refRaw pairOf caller regions inter) :=
    ((List.map_inj_right (fun a b h => Except.ok.inj h)).mp hys).symm
  rw [hys', samVarF_nCalls]
  exact hkW

/-- **F (B 2)**: whatever the destination, whenever the driver returns nil from the header-first start the text
accepted is `samVarOn vi refID refRaw blocks pairOf caller` and none of the W calls failed -/
theorem sam_variants_hdr_fault_beyond_run_harmless (d : Dest) (vi : VarIn) (refID : String) (refRaw : List Nat)
    (blocks : List (List SamRec)) (pairOf : List SamRec → List Nat → List Nat × List Nat)
    (caller : List Nat → List Nat → List Region → List Nat → List Variant)
    (regions : List Region) (inter : List Nat) (hregs : samRegions vi refRaw = some (regions, inter))
    (hagg : vi.agg = false) (N1 N2 cap0 cap1 cap2 : Nat) (rf : Option (Nat × RunErr))
    (hN1 : 1 ≤ N1) (hN2 : 1 ≤ N2) {s : State _ _ _}
    (hr : ChainReachFrom (samVarFCfg d vi refID refRaw blocks pairOf caller regions inter N1 N2 cap0 cap1 cap2 rf)
      (chainHdrStart (samVarFCfg d vi refID refRaw blocks pairOf caller regions inter N1 N2 cap0 cap1 cap2 rf) .write
        (d.fails 1)) s) (hm : s.main = .ret none) :
    s.wst.sink.text = samVarOn vi refID refRaw blocks pairOf caller ∧ s.wst.sink.calls = samVarW refID blocks ∧
      ∀ i, 1 ≤ i → i ≤ samVarW refID blocks → d.fails i = false := by
  obtain ⟨ys, hys, htext, _, hcalls, hok⟩ := chain_hdr_fault_beyond_run_harmless
    (samVarF_isFW d vi refID refRaw blocks pairOf caller regions inter N1 N2 cap0 cap1 cap2 rf)
    (samVarF_pools_pos hN1 hN2) hr hm
  rw [samVarF_items_pass] at hys
  have hys' : ys = blocks.map (svBoth refRaw pairOf caller regions inter) :=
    ((List.map_inj_right (fun a b h => Except.ok.inj h)).mp hys).symm
  rw [hys', samVarF_nCalls] at hcalls hok
  refine ⟨?_, hcalls, hok⟩
  rw [htext, hys']
  exact samVar_text_eq vi refID refRaw blocks pairOf caller regions inter hregs hagg

/-- **F (B 3)**: in every state reachable from the header-first start of the two-pool chain the text accepted is the
call sequence of the sequential text cut at a call boundary -/
theorem sam_variants_hdr_written_is_prefix (d : Dest) (vi : VarIn) (refID : String) (refRaw : List Nat)
    (blocks : List (List SamRec)) (pairOf : List SamRec → List Nat → List Nat × List Nat)
    (caller : List Nat → List Nat → List Region → List Nat → List Variant)
    (regions : List Region) (inter : List Nat) (hregs : samRegions vi refRaw = some (regions, inter))
    (hagg : vi.agg = false) (N1 N2 cap0 cap1 cap2 : Nat) (rf : Option (Nat × RunErr)) {s : State _ _ _}
    (hr : ChainReachFrom (samVarFCfg d vi refID refRaw blocks pairOf caller regions inter N1 N2 cap0 cap1 cap2 rf)
      (chainHdrStart (samVarFCfg d vi refID refRaw blocks pairOf caller regions inter N1 N2 cap0 cap1 cap2 rf) .write
        (d.fails 1)) s) :
    ∃ j, chainAccepted d (svChunks vi refID) "query,mutations\n" 0 s =
        String.join ((callSeq "query,mutations\n" (svChunks vi refID)
          (blocks.map (svBoth refRaw pairOf caller regions inter))).take j) ∧
      String.join (callSeq "query,mutations\n" (svChunks vi refID)
          (blocks.map (svBoth refRaw pairOf caller regions inter))) = samVarOn vi refID refRaw blocks pairOf caller := by
  have hys := samVarF_items_pass d vi refID refRaw blocks pairOf caller regions inter N1 N2 cap0 cap1 cap2 rf
  obtain ⟨j, hj, hall⟩ := chain_hdr_written_is_prefix_ok
    (samVarF_isFW d vi refID refRaw blocks pairOf caller regions inter N1 N2 cap0 cap1 cap2 rf) hys hr
  refine ⟨j, hj, ?_⟩
  rw [hall]
  exact samVar_text_eq vi refID refRaw blocks pairOf caller regions inter hregs hagg

/-- **F (B) header_fault_immediate**: `failFrom 1` or `failOnce 1`: on every schedule of the two-pool chain nothing
reaches the writer, the only call ever made is the header call, nothing is accepted, main never returns nil (no
hypothesis on the numbers of workers, the capacities, the reader) -/
theorem sam_variants_header_fault_immediate (d : Dest) (vi : VarIn) (refID : String) (refRaw : List Nat)
    (blocks : List (List SamRec)) (pairOf : List SamRec → List Nat → List Nat × List Nat)
    (caller : List Nat → List Nat → List Region → List Nat → List Variant)
    (regions : List Region) (inter : List Nat) (N1 N2 cap0 cap1 cap2 : Nat) (rf : Option (Nat × RunErr))
    (hd : d = .failFrom 1 ∨ d = .failOnce 1) {s : State _ _ _}
    (hr : ChainReachFrom (samVarFCfg d vi refID refRaw blocks pairOf caller regions inter N1 N2 cap0 cap1 cap2 rf)
      (chainHdrStart (samVarFCfg d vi refID refRaw blocks pairOf caller regions inter N1 N2 cap0 cap1 cap2 rf) .write
        (d.fails 1)) s) :
    s.arrival = [] ∧ s.writer = .errS .write ∧ s.wst.sink = ⟨"", 1, true⟩ ∧
      chainAccepted d (svChunks vi refID) "query,mutations\n" 0 s = "" ∧ s.main ≠ .ret none :=
  chain_header_fault_immediate'
    (samVarF_isFW d vi refID refRaw blocks pairOf caller regions inter N1 N2 cap0 cap1 cap2 rf) hd hr

/-- **F (B 1), which error**: a reader that does not fail: every run of the two-pool chain from the header-first start
that cannot be extended has returned the write error -/
theorem sam_variants_hdr_fault_maximal_run_write_error (d : Dest) (vi : VarIn) (refID : String) (refRaw : List Nat)
    (blocks : List (List SamRec)) (pairOf : List SamRec → List Nat → List Nat × List Nat)
    (caller : List Nat → List Nat → List Region → List Nat → List Variant)
    (regions : List Region) (inter : List Nat) (N1 N2 cap0 cap1 cap2 : Nat)
    (hN1 : 1 ≤ N1) (hN2 : 1 ≤ N2) (k : Nat) (hd : d = .failFrom k ∨ d = .failOnce k) (hk1 : 1 ≤ k)
    (hkW : k ≤ samVarW refID blocks) {s : State _ _ _}
    (hr : ChainReachFrom (samVarFCfg d vi refID refRaw blocks pairOf caller regions inter N1 N2 cap0 cap1 cap2 none)
      (chainHdrStart (samVarFCfg d vi refID refRaw blocks pairOf caller regions inter N1 N2 cap0 cap1 cap2 none) .write
        (d.fails 1)) s)
    (hstuck : enabled (samVarFCfg d vi refID refRaw blocks pairOf caller regions inter N1 N2 cap0 cap1 cap2 none) s = []) :
    s.main = .ret (some .write) := by
  have hys := samVarF_items_pass d vi refID refRaw blocks pairOf caller regions inter N1 N2 cap0 cap1 cap2 none
  exact chain_hdr_fault_maximal_run_write_error
    (samVarF_isFW d vi refID refRaw blocks pairOf caller regions inter N1 N2 cap0 cap1 cap2 none)
    (samVarF_pools_pos hN1 hN2) rfl hys k hd hk1 (by rw [samVarF_nCalls]; exact hkW) hr hstuck

end samVariantsHeaderFirst

/-! ### F' (B). `gofasta sam variants --aggregate`: two worker pools, the aggregating writer that writes its header
BEFORE the loop: `samVarAggFCfg d [varAggHeader] []` of SchedFaultsAgg (`hs = [header]`, `pre = []`) -/

section samVariantsAggregateHeaderFirst
open Gofasta.Model.SchedChain Gofasta.Lemmas.SchedChain Gofasta.Driver Gofasta.Lemmas.SamVarPipeline Gofasta.Base
open Gofasta.Lemmas.AggVariants

/-- **F' (B 1)**: the destination fails at call k, 1 ≤ k ≤ W = 1 + the number of rows of the table: no schedule of the
chain from the header-first start returns nil -/
theorem sam_variants_agg_hdr_fault_reported (d : Dest) (vi : VarIn) (refID : String) (refRaw : List Nat)
    (blocks : List (List SamRec)) (pairOf : List SamRec → List Nat → List Nat × List Nat)
    (caller : List Nat → List Nat → List Region → List Nat → List Variant)
    (regions : List Region) (inter : List Nat)
    (hsep : Separated (aggKeys vi.append vi.start vi.stop refID (samLists refRaw blocks pairOf caller regions inter)))
    (N1 N2 cap0 cap1 cap2 : Nat) (rf : Option (Nat × RunErr)) (hN1 : 1 ≤ N1) (hN2 : 1 ≤ N2) (k : Nat)
    (hd : d = .failFrom k ∨ d = .failOnce k) (hk1 : 1 ≤ k)
    (hkW : k ≤ 1 + (varAggLines vi refID (samLists refRaw blocks pairOf caller regions inter)).length)
    {s : State _ _ _}
    (hr : ChainReachFrom (samVarAggFCfg d [varAggHeader] [] vi refID refRaw blocks pairOf caller regions inter
        N1 N2 cap0 cap1 cap2 rf)
      (chainHdrStart (samVarAggFCfg d [varAggHeader] [] vi refID refRaw blocks pairOf caller regions inter
        N1 N2 cap0 cap1 cap2 rf) .write (Sink.putAll d Sink.empty [varAggHeader]).failed) s) : s.main ≠ .ret none :=
  chain_agg_hdr_fault_reported
    (samVarAggF_isAW d [varAggHeader] [] vi refID refRaw blocks pairOf caller regions inter N1 N2 cap0 cap1 cap2 rf)
    (samVarAggF_pools_pos hN1 hN2)
    (samVar_rowsAre d [varAggHeader] [] vi refID refRaw blocks pairOf caller regions inter N1 N2 cap0 cap1 cap2 rf hsep)
    k hd hk1 (by rw [aggW_B]; exact hkW) hr

/-- **F' (B 2)**: whatever the destination, whenever the driver returns nil from the header-first start the text
accepted is `samVarOn vi refID refRaw blocks pairOf caller` (aggregate form) -/
theorem sam_variants_agg_hdr_fault_beyond_run_harmless (d : Dest) (vi : VarIn) (refID : String) (refRaw : List Nat)
    (blocks : List (List SamRec)) (pairOf : List SamRec → List Nat → List Nat × List Nat)
    (caller : List Nat → List Nat → List Region → List Nat → List Variant)
    (regions : List Region) (inter : List Nat) (hregs : samRegions vi refRaw = some (regions, inter))
    (hagg : vi.agg = true)
    (hsep : Separated (aggKeys vi.append vi.start vi.stop refID (samLists refRaw blocks pairOf caller regions inter)))
    (N1 N2 cap0 cap1 cap2 : Nat) (rf : Option (Nat × RunErr)) (hN1 : 1 ≤ N1) (hN2 : 1 ≤ N2) {s : State _ _ _}
    (hr : ChainReachFrom (samVarAggFCfg d [varAggHeader] [] vi refID refRaw blocks pairOf caller regions inter
        N1 N2 cap0 cap1 cap2 rf)
      (chainHdrStart (samVarAggFCfg d [varAggHeader] [] vi refID refRaw blocks pairOf caller regions inter
        N1 N2 cap0 cap1 cap2 rf) .write (Sink.putAll d Sink.empty [varAggHeader]).failed) s)
    (hm : s.main = .ret none) :
    s.wst.sink.text = samVarOn vi refID refRaw blocks pairOf caller ∧
      s.wst.sink.calls = 1 + (varAggLines vi refID (samLists refRaw blocks pairOf caller regions inter)).length ∧
      ∀ i, 1 ≤ i → i ≤ 1 + (varAggLines vi refID (samLists refRaw blocks pairOf caller regions inter)).length →
        d.fails i = false := by
  obtain ⟨h1, _, h3, h4⟩ := chain_agg_hdr_fault_beyond_run_harmless
    (samVarAggF_isAW d [varAggHeader] [] vi refID refRaw blocks pairOf caller regions inter N1 N2 cap0 cap1 cap2 rf)
    (samVarAggF_pools_pos hN1 hN2)
    (samVar_rowsAre d [varAggHeader] [] vi refID refRaw blocks pairOf caller regions inter N1 N2 cap0 cap1 cap2 rf hsep)
    hr hm
  rw [aggW_B] at h3 h4
  refine ⟨?_, h3, h4⟩
  rw [h1, aggCalls_B]
  exact samVarAgg_text_eq vi refID refRaw blocks pairOf caller regions inter hregs hagg

/-- **F' (B 3)**: in every state reachable from the header-first start of the two-pool chain the text accepted is the
header and the first rows of the table -/
theorem sam_variants_agg_hdr_written_is_prefix (d : Dest) (vi : VarIn) (refID : String) (refRaw : List Nat)
    (blocks : List (List SamRec)) (pairOf : List SamRec → List Nat → List Nat × List Nat)
    (caller : List Nat → List Nat → List Region → List Nat → List Variant)
    (regions : List Region) (inter : List Nat)
    (hsep : Separated (aggKeys vi.append vi.start vi.stop refID (samLists refRaw blocks pairOf caller regions inter)))
    (N1 N2 cap0 cap1 cap2 : Nat) (rf : Option (Nat × RunErr)) (hN1 : 1 ≤ N1) (hN2 : 1 ≤ N2) {s : State _ _ _}
    (hr : ChainReachFrom (samVarAggFCfg d [varAggHeader] [] vi refID refRaw blocks pairOf caller regions inter
        N1 N2 cap0 cap1 cap2 rf)
      (chainHdrStart (samVarAggFCfg d [varAggHeader] [] vi refID refRaw blocks pairOf caller regions inter
        N1 N2 cap0 cap1 cap2 rf) .write (Sink.putAll d Sink.empty [varAggHeader]).failed) s) :
    ∃ j, chainAggAccepted d [varAggHeader] [] ([], 0) (svAccum vi refID) (varAggRowsOf vi) s =
      String.join ((varAggHeader ::
        varAggLines vi refID (samLists refRaw blocks pairOf caller regions inter)).take j) :=
  chain_agg_hdr_written_is_prefix
    (samVarAggF_isAW d [varAggHeader] [] vi refID refRaw blocks pairOf caller regions inter N1 N2 cap0 cap1 cap2 rf)
    (samVarAggF_pools_pos hN1 hN2)
    (samVar_rowsAre d [varAggHeader] [] vi refID refRaw blocks pairOf caller regions inter N1 N2 cap0 cap1 cap2 rf hsep)
    hr

/-- **F' (B) header_fault_immediate**: `failFrom 1` or `failOnce 1`: on every schedule of the two-pool chain nothing is
ever received by the aggregating writer, one call was made, nothing is accepted, main never returns nil (no hypothesis
on the numbers of workers, the capacities, the reader, the keys) -/
theorem sam_variants_agg_header_fault_immediate (d : Dest) (vi : VarIn) (refID : String) (refRaw : List Nat)
    (blocks : List (List SamRec)) (pairOf : List SamRec → List Nat → List Nat × List Nat)
    (caller : List Nat → List Nat → List Region → List Nat → List Variant)
    (regions : List Region) (inter : List Nat) (N1 N2 cap0 cap1 cap2 : Nat) (rf : Option (Nat × RunErr))
    (hd : d = .failFrom 1 ∨ d = .failOnce 1) {s : State _ _ _}
    (hr : ChainReachFrom (samVarAggFCfg d [varAggHeader] [] vi refID refRaw blocks pairOf caller regions inter
        N1 N2 cap0 cap1 cap2 rf)
      (chainHdrStart (samVarAggFCfg d [varAggHeader] [] vi refID refRaw blocks pairOf caller regions inter
        N1 N2 cap0 cap1 cap2 rf) .write (Sink.putAll d Sink.empty [varAggHeader]).failed) s) :
    s.arrival = [] ∧ s.writer = .errS .write ∧ s.wst.sink = ⟨"", 1, true⟩ ∧
      chainAggAccepted d [varAggHeader] [] ([], 0) (svAccum vi refID) (varAggRowsOf vi) s = "" ∧
      s.main ≠ .ret none :=
  chain_agg_header_fault_immediate
    (samVarAggF_isAW d [varAggHeader] [] vi refID refRaw blocks pairOf caller regions inter N1 N2 cap0 cap1 cap2 rf)
    (Dest.fails_of_at hd) hr

/-- **F' (B 1), which error**: a reader that does not fail: every run of the chain from the header-first start that
cannot be extended has returned the write error -/
theorem sam_variants_agg_hdr_fault_maximal_run_write_error (d : Dest) (vi : VarIn) (refID : String)
    (refRaw : List Nat) (blocks : List (List SamRec)) (pairOf : List SamRec → List Nat → List Nat × List Nat)
    (caller : List Nat → List Nat → List Region → List Nat → List Variant)
    (regions : List Region) (inter : List Nat)
    (hsep : Separated (aggKeys vi.append vi.start vi.stop refID (samLists refRaw blocks pairOf caller regions inter)))
    (N1 N2 cap0 cap1 cap2 : Nat) (hN1 : 1 ≤ N1) (hN2 : 1 ≤ N2) (k : Nat)
    (hd : d = .failFrom k ∨ d = .failOnce k) (hk1 : 1 ≤ k)
    (hkW : k ≤ 1 + (varAggLines vi refID (samLists refRaw blocks pairOf caller regions inter)).length)
    {s : State _ _ _}
    (hr : ChainReachFrom (samVarAggFCfg d [varAggHeader] [] vi refID refRaw blocks pairOf caller regions inter
        N1 N2 cap0 cap1 cap2 none)
      (chainHdrStart (samVarAggFCfg d [varAggHeader] [] vi refID refRaw blocks pairOf caller regions inter
        N1 N2 cap0 cap1 cap2 none) .write (Sink.putAll d Sink.empty [varAggHeader]).failed) s)
    (hstuck : enabled (samVarAggFCfg d [varAggHeader] [] vi refID refRaw blocks pairOf caller regions inter
      N1 N2 cap0 cap1 cap2 none) s = []) : s.main = .ret (some .write) :=
  chain_agg_hdr_fault_maximal_run_write_error
    (samVarAggF_isAW d [varAggHeader] [] vi refID refRaw blocks pairOf caller regions inter N1 N2 cap0 cap1 cap2 none)
    (samVarAggF_pools_pos hN1 hN2) rfl
    (all_ok_of_map (samVarAggF_items_pass d [varAggHeader] [] vi refID refRaw blocks pairOf caller regions inter
      N1 N2 cap0 cap1 cap2 none))
    (samVar_rowsAre d [varAggHeader] [] vi refID refRaw blocks pairOf caller regions inter N1 N2 cap0 cap1 cap2 none hsep)
    k hd hk1 (by rw [aggW_B]; exact hkW) hr hstuck

end samVariantsAggregateHeaderFirst

/-! ## the statements are not vacuous: two pools of two workers, TWO records, runs from the header-first start -/

namespace Examples
open Gofasta.Lemmas.SchedCommands.Examples Gofasta.Lemmas.SchedFaults.Examples
open Gofasta.Driver Gofasta.Lemmas.SamVarPipeline Gofasta.Base Gofasta.Lemmas.AggVariants
open Gofasta.Model.SchedChain

/-- `sam variants` on two queries: pools of two workers, c_0 of capacity 1, c_1 and c_2 of capacity 2; W = 5 -/
def samVarFEx2 (d : Dest) := samVarFCfg d (pvVi "gff" false) "ref" pvRef (samBlocks [pvRec, pvRec2])
  (fun b r => blockToSeqPair b r) modelPair svRegs.1 svRegs.2 2 2 1 2 2 none

/-- `sam variants --aggregate` on the same two queries, the header written before the loop; four rows, W = 5 -/
def samAggHEx2 (d : Dest) := samVarAggFCfg d [varAggHeader] [] (pvVi "gff" true) "ref" pvRef
  (samBlocks [pvRec, pvRec2]) (fun b r => blockToSeqPair b r) modelPair svRegs.1 svRegs.2 2 2 1 2 2 none

/-- the schedule that avoids main's `cErr` arm as long as there is another step (found by search): 19 steps -/
def lateSched : List Nat := List.replicate 19 0

set_option maxRecDepth 100000 in
/-- the header call fails: in the start state the reader's send and main's `cErr` arm are enabled; on every explored
schedule main returns the write error, nothing has arrived at the writer, one call was made; the schedule [1] takes
main's `cErr` arm as the very first step -/
example :
    enabled (samVarFEx2 (.failFrom 1)) (chainHdrStart (samVarFEx2 (.failFrom 1)) .write ((Dest.failFrom 1).fails 1)) =
      [.send .reader, .mainErr .writer] ∧
    (chainRunHdr (samVarFEx2 (.failFrom 1)) .write ((Dest.failFrom 1).fails 1) csched1).main = .ret (some .write) ∧
    (chainRunHdr (samVarFEx2 (.failFrom 1)) .write ((Dest.failFrom 1).fails 1) csched2).main = .ret (some .write) ∧
    (chainRunHdr (samVarFEx2 (.failFrom 1)) .write ((Dest.failFrom 1).fails 1) csched2).arrival = [] ∧
    (chainRunHdr (samVarFEx2 (.failOnce 1)) .write ((Dest.failOnce 1).fails 1) csched1).main = .ret (some .write) ∧
    (chainRunHdr (samVarFEx2 (.failOnce 1)) .write ((Dest.failOnce 1).fails 1) csched2).main = .ret (some .write) ∧
    (chainRunHdr (samVarFEx2 (.failOnce 1)) .write ((Dest.failOnce 1).fails 1) csched2).wst.sink = ⟨"", 1, true⟩ ∧
    (chainRunHdr (samVarFEx2 (.failFrom 1)) .write ((Dest.failFrom 1).fails 1) [1]).main = .ret (some .write) := by
  decide +kernel

set_option maxRecDepth 100000 in
/-- the schedule that lets the chain run as long as possible before main takes the error: both pools drain, both
records sit in c_2 (capacity 2), main gets to stage 3, then only main's `cErr` arm is left - and still nothing has
reached the writer; the next step returns the write error -/
example :
    (chainRunHdr (samVarFEx2 (.failFrom 1)) .write true lateSched).arrival = [] ∧
    (chainRunHdr (samVarFEx2 (.failFrom 1)) .write true lateSched).writer = .errS .write ∧
    (chainRunHdr (samVarFEx2 (.failFrom 1)) .write true lateSched).main = .stage 3 ∧
    ((chainRunHdr (samVarFEx2 (.failFrom 1)) .write true lateSched).chans.map fun ch => ch.queue.map (·.1)) =
      [[], [], [0, 1]] ∧
    enabled (samVarFEx2 (.failFrom 1)) (chainRunHdr (samVarFEx2 (.failFrom 1)) .write true lateSched) =
      [.mainErr .writer] ∧
    (chainRunHdr (samVarFEx2 (.failFrom 1)) .write true (lateSched ++ [0])).main = .ret (some .write) := by
  decide +kernel

set_option maxRecDepth 100000 in
/-- the header call succeeds: the header-first start is `init`; a transient fault at a middle call (the name of the
second query), and no fault -/
example :
    (chainRunHdr (samVarFEx2 (.failOnce 4)) .write ((Dest.failOnce 4).fails 1) csched1).main = .ret (some .write) ∧
    (chainRunHdr (samVarFEx2 (.failOnce 4)) .write ((Dest.failOnce 4).fails 1) csched2).main = .ret (some .write) ∧
    (chainRunHdr (samVarFEx2 (.failOnce 4)) .write ((Dest.failOnce 4).fails 1) csched2).arrival.map (·.1) = [0, 1] ∧
    (chainRunHdr (samVarFEx2 .ok) .write (Dest.ok.fails 1) csched2).main = .ret none ∧
    (chainRunHdr (samVarFEx2 .ok) .write (Dest.ok.fails 1) csched2).wst.sink =
      ⟨"query,mutations\nq,aa:g:A2E(nuc:C5A)|ins:4:1|del:8:2\nr,aa:g:A2V(nuc:C5T)\n", 5, false⟩ := by
  decide +kernel

/-- the general theorem on this input: on EVERY schedule from the header-first start nothing is ever presented after
the header, and main does not return nil -/
example (sched : List Nat) :
    (chainRunHdr (samVarFEx2 (.failOnce 1)) .write ((Dest.failOnce 1).fails 1) sched).arrival = [] ∧
    (chainRunHdr (samVarFEx2 (.failOnce 1)) .write ((Dest.failOnce 1).fails 1) sched).wst.sink = ⟨"", 1, true⟩ ∧
    (chainRunHdr (samVarFEx2 (.failOnce 1)) .write ((Dest.failOnce 1).fails 1) sched).main ≠ .ret none := by
  obtain ⟨h1, _, h3, _, h5⟩ := sam_variants_header_fault_immediate (.failOnce 1) (pvVi "gff" false) "ref" pvRef
    (samBlocks [pvRec, pvRec2]) (fun b r => blockToSeqPair b r) modelPair svRegs.1 svRegs.2 2 2 1 2 2 none (Or.inr rfl)
    (chainRunHdr_reachFrom _ _ _ sched)
  exact ⟨h1, h3, h5⟩

/-- the general theorem on this input: EVERY schedule from the header-first start that has run until nothing is
enabled has returned the write error (a fault at any of the five calls) -/
example (k : Nat) (hk1 : 1 ≤ k) (hk5 : k ≤ 5) (sched : List Nat)
    (hstuck : enabled (samVarFEx2 (.failFrom k))
      (chainRunHdr (samVarFEx2 (.failFrom k)) .write ((Dest.failFrom k).fails 1) sched) = []) :
    (chainRunHdr (samVarFEx2 (.failFrom k)) .write ((Dest.failFrom k).fails 1) sched).main = .ret (some .write) :=
  sam_variants_hdr_fault_maximal_run_write_error (.failFrom k) (pvVi "gff" false) "ref" pvRef
    (samBlocks [pvRec, pvRec2]) (fun b r => blockToSeqPair b r) modelPair svRegs.1 svRegs.2 2 2 1 2 2
    (by decide) (by decide) k (Or.inl rfl) hk1 (by rw [show samVarW "ref" (samBlocks [pvRec, pvRec2]) = 5 by decide]; exact hk5)
    (chainRunHdr_reachFrom _ _ _ sched) hstuck

set_option maxRecDepth 100000 in
/-- (B) for the aggregating writer of the chain that writes its header before the loop: the header call fails - the
write error on every explored schedule, nothing received, one call; the header call succeeds - a fault at a middle row
is reported, and without a fault the whole table is accepted -/
example :
    (Sink.putAll (.failFrom 1) Sink.empty [varAggHeader]).failed = true ∧
    (Sink.putAll (.failOnce 3) Sink.empty [varAggHeader]).failed = false ∧
    (chainRunHdr (samAggHEx2 (.failFrom 1)) .write true csched1).main = .ret (some .write) ∧
    (chainRunHdr (samAggHEx2 (.failFrom 1)) .write true csched2).main = .ret (some .write) ∧
    (chainRunHdr (samAggHEx2 (.failFrom 1)) .write true csched2).arrival = [] ∧
    (chainRunHdr (samAggHEx2 (.failOnce 1)) .write true csched2).main = .ret (some .write) ∧
    (chainRunHdr (samAggHEx2 (.failOnce 1)) .write true csched2).wst.sink = ⟨"", 1, true⟩ ∧
    (chainRunHdr (samAggHEx2 (.failFrom 1)) .write true lateSched).arrival = [] ∧
    enabled (samAggHEx2 (.failFrom 1)) (chainRunHdr (samAggHEx2 (.failFrom 1)) .write true lateSched) =
      [.mainErr .writer] ∧
    (chainRunHdr (samAggHEx2 (.failFrom 1)) .write true (lateSched ++ [0])).main = .ret (some .write) ∧
    (chainRunHdr (samAggHEx2 (.failOnce 3)) .write false csched2).main = .ret (some .write) ∧
    (chainRunHdr (samAggHEx2 .ok) .write false csched2).main = .ret none ∧
    (chainRunHdr (samAggHEx2 .ok) .write false csched2).wst.sink.text =
      "mutation,frequency\naa:g:A2E(nuc:C5A),0.500000000\naa:g:A2V(nuc:C5T),0.500000000\nins:4:1,0.500000000\ndel:8:2,0.500000000\n" := by
  decide +kernel

/-- the general theorem on this input: on EVERY schedule nothing is ever received by the aggregating writer -/
example (sched : List Nat) :
    (chainRunHdr (samAggHEx2 (.failFrom 1)) .write (Sink.putAll (.failFrom 1) Sink.empty [varAggHeader]).failed
      sched).arrival = [] ∧
    (chainRunHdr (samAggHEx2 (.failFrom 1)) .write (Sink.putAll (.failFrom 1) Sink.empty [varAggHeader]).failed
      sched).main ≠ .ret none := by
  obtain ⟨h1, _, _, _, h5⟩ := sam_variants_agg_header_fault_immediate (.failFrom 1) (pvVi "gff" true) "ref" pvRef
    (samBlocks [pvRec, pvRec2]) (fun b r => blockToSeqPair b r) modelPair svRegs.1 svRegs.2 2 2 1 2 2 none (Or.inl rfl)
    (chainRunHdr_reachFrom _ _ _ sched)
  exact ⟨h1, h5⟩

end Examples

end Gofasta.Lemmas.SchedFaultsChainHdr
