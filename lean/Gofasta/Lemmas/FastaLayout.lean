import Gofasta.Model.Fasta
/-
Layout independence of the FASTA reader state machine: a list of records written with ANY chunking of
each sequence into lines, LF or CRLF line ends, with or without a final newline, is read back as exactly
those records.
-/
namespace Gofasta.Lemmas
open Gofasta Model

/-- a record as it is laid out in a file -/
structure LRec where
  id : List Nat
  desc : List Nat                -- the header line after '>'
  chunks : List (List Nat)       -- the sequence, line by line, as written

def LRec.seq (r : LRec) : List Nat := r.chunks.flatten

def LRec.lines (r : LRec) : List (List Nat) := (62 :: r.desc) :: r.chunks

def renderLines (recs : List LRec) : List (List Nat) := recs.flatMap LRec.lines

/-- a sequence line: non-empty, not starting with '>' -/
def SeqLine (l : List Nat) : Prop := l ≠ [] ∧ l.head? ≠ some 62

/-- state updates of the reader, named so that they can be rewritten with -/
def addBuf (s : RdState) (e : List Nat) : RdState := { s with buf := s.buf ++ e }

def startRec (s : RdState) (id d : List Nat) : RdState :=
  { started := s.started, id := id, desc := d, buf := [], width := (if s.counter = 0 then s.buf.length else s.width),
    counter := s.counter + 1, out := s.out ++ [mkRec s] }

@[simp] theorem addBuf_started (s : RdState) (e : List Nat) : (addBuf s e).started = s.started := rfl
@[simp] theorem addBuf_id (s : RdState) (e : List Nat) : (addBuf s e).id = s.id := rfl
@[simp] theorem addBuf_desc (s : RdState) (e : List Nat) : (addBuf s e).desc = s.desc := rfl
@[simp] theorem addBuf_buf (s : RdState) (e : List Nat) : (addBuf s e).buf = s.buf ++ e := rfl
@[simp] theorem addBuf_width (s : RdState) (e : List Nat) : (addBuf s e).width = s.width := rfl
@[simp] theorem addBuf_counter (s : RdState) (e : List Nat) : (addBuf s e).counter = s.counter := rfl
@[simp] theorem addBuf_out (s : RdState) (e : List Nat) : (addBuf s e).out = s.out := rfl
theorem addBuf_addBuf (s : RdState) (a b : List Nat) : addBuf (addBuf s a) b = addBuf s (a ++ b) := by
  simp [addBuf, List.append_assoc]
theorem addBuf_nil (s : RdState) : addBuf s [] = s := by simp [addBuf]

theorem rdStep_seqLine (m : Mode) (g : Nat → Nat) (s : RdState) (l : List Nat) (hs : s.started = true) (hl : SeqLine l)
    (hg : seqLine m l = some (l.map g)) : rdStep m s l = .ok (addBuf s (l.map g)) := by
  obtain ⟨hne, hh⟩ := hl
  cases l with
  | nil => exact absurd rfl hne
  | cons x t =>
    have hx : x ≠ 62 := by intro h; subst h; simp at hh
    unfold rdStep
    split
    · rename_i heq; cases heq
    · rename_i d heq; cases heq; exact absurd rfl hx
    · simp [hs, hg, addBuf]

/-- the lines of one sequence are absorbed into the buffer -/
theorem rdLines_chunks (m : Mode) (g : Nat → Nat) : ∀ (chunks : List (List Nat)) (s : RdState) (rest : List (List Nat)),
    s.started = true → (∀ l ∈ chunks, SeqLine l ∧ seqLine m l = some (l.map g)) →
    rdLines m s (chunks ++ rest) = rdLines m (addBuf s (chunks.flatten.map g)) rest := by
  intro chunks
  induction chunks with
  | nil => intro s rest _ _; simp [addBuf_nil]
  | cons c t ih =>
    intro s rest hs h
    have hc := h c (by simp)
    simp only [List.cons_append, rdLines]
    rw [rdStep_seqLine m g s c hs hc.1 hc.2]
    simp only
    rw [ih (addBuf s (c.map g)) rest (by simp [hs]) (fun l hl => h l (by simp [hl])), addBuf_addBuf]
    simp

/-- the record the reader builds from a laid-out record -/
def recOf (g : Nat → Nat) (r : LRec) (k : Nat) : FaRec :=
  { id := r.id, desc := r.desc, seq := r.seq.map g, idx := k, score := scoreSeq (r.seq.map g) }

def recsFrom (g : Nat → Nat) : List LRec → Nat → List FaRec
  | [], _ => []
  | r :: rs, k => recOf g r k :: recsFrom g rs (k + 1)

/-- well-formed laid-out record under a line map -/
structure WFRec (m : Mode) (g : Nat → Nat) (W : Nat) (r : LRec) : Prop where
  hid : firstField r.desc = some r.id
  hchunks : ∀ l ∈ r.chunks, SeqLine l ∧ seqLine m l = some (l.map g)
  hlen : r.seq.length = W

theorem rdStep_header_started (m : Mode) (s : RdState) (d id : List Nat) (hs : s.started = true) (hid : firstField d = some id)
    (hw : s.counter = 0 ∨ s.buf.length = s.width) : rdStep m s (62 :: d) = .ok (startRec s id d) := by
  unfold rdStep
  simp only [hid, hs, Bool.not_true, Bool.false_eq_true, if_false]
  rcases hw with h | h
  · simp [h, startRec, hs]
  · simp [h, startRec, hs]

/-- the core induction: with record r0 pending in the state (its header and sequence consumed), reading the
    remaining records and finishing yields r0 and then the rest, numbered consecutively. The records may be empty
    (W = 0) as long as r0 is not the only record of the file: the last record is flushed like every other one. -/
theorem rdLines_records (m : Mode) (g : Nat → Nat) (W : Nat) : ∀ (rs : List LRec) (s : RdState) (r0 : LRec) (k : Nat),
    (0 < W ∨ 0 < k ∨ rs ≠ []) → s.started = true → s.id = r0.id → s.desc = r0.desc → s.buf = r0.seq.map g → s.counter = k →
    (k > 0 → s.width = W) → r0.seq.length = W → (∀ r ∈ rs, WFRec m g W r) →
    (rdLines m s (renderLines rs)).bind rdFinish = .ok (s.out ++ recOf g r0 k :: recsFrom g rs (k + 1)) := by
  intro rs
  induction rs with
  | nil =>
    intro s r0 k hW hs hid hd hb hk hw hl _
    simp only [renderLines, List.flatMap_nil, rdLines, Except.bind, recsFrom]
    have hblen : s.buf.length = W := by rw [hb]; simp [hl]
    unfold rdFinish
    have h1 : (decide (s.buf.length > 0) || decide (s.counter > 0)) = true := by
      simp only [Bool.or_eq_true, decide_eq_true_eq]
      rcases hW with h | h | h
      · left; omega
      · right; omega
      · exact absurd rfl h
    simp only [h1, if_true]
    have h2' : (decide (s.counter > 0) && (s.buf.length != s.width)) = false := by
      by_cases hc : s.counter > 0
      · have := hw (by omega); simp [hc, hblen, this]
      · simp [hc]
    simp only [h2', Bool.false_eq_true, if_false]
    congr 2
    simp [mkRec, recOf, hid, hd, hb, hk]
  | cons r1 rest ih =>
    intro s r0 k _ hs hid hd hb hk hw hl hwf
    have hr1 := hwf r1 (by simp)
    have hblen : s.buf.length = W := by rw [hb]; simp [hl]
    simp only [renderLines, List.flatMap_cons, LRec.lines, List.cons_append, rdLines]
    have hcond : s.counter = 0 ∨ s.buf.length = s.width := by
      by_cases hc : s.counter = 0
      · exact Or.inl hc
      · right; have := hw (by omega); omega
    rw [rdStep_header_started m s r1.desc r1.id hs hr1.hid hcond]
    simp only
    rw [rdLines_chunks m g r1.chunks (startRec s r1.id r1.desc) _ (by simp [startRec, hs]) hr1.hchunks]
    have hwidth : k + 1 > 0 → (addBuf (startRec s r1.id r1.desc) (r1.chunks.flatten.map g)).width = W := by
      intro _
      simp only [addBuf_width, startRec]
      split
      · exact hblen
      · rename_i hc; exact hw (by omega)
    have := ih (addBuf (startRec s r1.id r1.desc) (r1.chunks.flatten.map g)) r1 (k + 1)
      (Or.inr (Or.inl (Nat.succ_pos k))) (by simp [startRec, hs]) (by simp [startRec]) (by simp [startRec]) (by simp [startRec, LRec.seq])
      (by simp [startRec, hk]) hwidth hr1.hlen (fun r hr => hwf r (by simp [hr]))
    simp only [renderLines] at this
    rw [this]
    congr 1
    simp only [addBuf_out, startRec, List.append_assoc, List.singleton_append, recsFrom]
    congr 2
    simp [mkRec, recOf, hid, hd, hb, hk]

end Gofasta.Lemmas

namespace Gofasta.Lemmas
open Gofasta Model

theorem readFasta_eq_bind (m : Mode) (bytes : List Nat) :
    readFasta m bytes = (rdLines m {} (splitLines bytes)).bind rdFinish := by
  unfold readFasta
  cases rdLines m {} (splitLines bytes) <;> rfl

/-- reading the lines of a non-empty list of well-formed records (of length 0 too, when there are at least two) -/
theorem rdLines_file (m : Mode) (g : Nat → Nat) (r0 : LRec) (rs : List LRec) (hpos : 0 < r0.seq.length ∨ rs ≠ [])
    (h0 : WFRec m g r0.seq.length r0) (hrs : ∀ r ∈ rs, WFRec m g r0.seq.length r) :
    (rdLines m {} (renderLines (r0 :: rs))).bind rdFinish = .ok (recsFrom g (r0 :: rs) 0) := by
  simp only [renderLines, List.flatMap_cons, LRec.lines, List.cons_append, rdLines]
  have hfirst : rdStep m {} (62 :: r0.desc) = .ok { started := true, id := r0.id, desc := r0.desc } := by
    unfold rdStep
    simp [h0.hid]
  rw [hfirst]
  simp only
  rw [rdLines_chunks m g r0.chunks _ _ rfl h0.hchunks]
  have := rdLines_records m g r0.seq.length rs
    (addBuf { started := true, id := r0.id, desc := r0.desc } (r0.chunks.flatten.map g)) r0 0
    (hpos.elim Or.inl (fun h => Or.inr (Or.inr h))) rfl rfl rfl (by simp [LRec.seq]) rfl (by intro h; omega) rfl hrs
  simp only [renderLines] at this
  rw [this]
  simp [recsFrom]

/-! ### from bytes to lines: bufio.ScanLines on a rendered file -/

theorem splitLinesAux_line : ∀ (l : List Nat) (rest acc : List Nat), (∀ b ∈ l, b ≠ 10) →
    splitLinesAux (l ++ 10 :: rest) acc = (acc.reverse ++ l) :: splitLinesAux rest [] := by
  intro l
  induction l with
  | nil => intro rest acc _; simp [splitLinesAux]
  | cons b t ih =>
    intro rest acc h
    have hb : b ≠ 10 := h b (by simp)
    have : splitLinesAux (b :: (t ++ 10 :: rest)) acc = splitLinesAux (t ++ 10 :: rest) (b :: acc) := by
      rw [splitLinesAux]
      intro hcon
      exact absurd hcon hb
    simp only [List.cons_append, this]
    rw [ih rest (b :: acc) (fun x hx => h x (by simp [hx]))]
    simp

theorem splitLinesAux_last : ∀ (l acc : List Nat), (∀ b ∈ l, b ≠ 10) →
    splitLinesAux l acc = if (acc.reverse ++ l).isEmpty then [] else [acc.reverse ++ l] := by
  intro l
  induction l with
  | nil => intro acc _; simp [splitLinesAux]
  | cons b t ih =>
    intro acc h
    have hb : b ≠ 10 := h b (by simp)
    have : splitLinesAux (b :: t) acc = splitLinesAux t (b :: acc) := by
      rw [splitLinesAux]
      intro hcon
      exact absurd hcon hb
    rw [this, ih (b :: acc) (fun x hx => h x (by simp [hx]))]
    simp

theorem dropCR_snoc (l : List Nat) : dropCR (l ++ [13]) = l := by
  simp [dropCR]

theorem dropCR_noCR (l : List Nat) (h : l.getLast? ≠ some 13) : dropCR l = l := by
  unfold dropCR
  split
  · rename_i heq; exact absurd heq h
  · rfl

/-- a line as it may appear in a FASTA file: no LF inside, not ending in CR -/
def CleanLine (l : List Nat) : Prop := (∀ b ∈ l, b ≠ 10) ∧ l.getLast? ≠ some 13

/-- the file text: every line followed by the line end (LF, or CRLF when `crlf`), the last line end
    present or not -/
def renderText (crlf finalEol : Bool) : List (List Nat) → List Nat
  | [] => []
  | [l] => if finalEol then l ++ (if crlf then [13, 10] else [10]) else l
  | l :: l' :: rest => l ++ (if crlf then [13, 10] else [10]) ++ renderText crlf finalEol (l' :: rest)

theorem splitLines_render (crlf finalEol : Bool) : ∀ (lines : List (List Nat)),
    (∀ l ∈ lines, CleanLine l ∧ l ≠ []) → splitLines (renderText crlf finalEol lines) = lines := by
  intro lines
  induction lines with
  | nil => intro _; simp [renderText, splitLines, splitLinesAux]
  | cons l t ih =>
    intro h
    obtain ⟨⟨hno10, hnoCR⟩, hne⟩ := h l (by simp)
    have ht := ih (fun x hx => h x (by simp [hx]))
    unfold splitLines at ht ⊢
    cases t with
    | nil =>
      simp only [renderText]
      by_cases hf : finalEol = true
      · simp only [hf, if_true]
        by_cases hc : crlf = true
        · simp only [hc, if_true]
          have : l ++ [13, 10] = (l ++ [13]) ++ 10 :: [] := by simp
          rw [this, splitLinesAux_line (l ++ [13]) [] [] (by
            intro b hb
            rcases List.mem_append.1 hb with hb | hb
            · exact hno10 b hb
            · simp at hb; omega)]
          simp [splitLinesAux, dropCR_snoc]
        · simp only [hc, Bool.false_eq_true, if_false]
          rw [splitLinesAux_line l [] [] hno10]
          simp [splitLinesAux, dropCR_noCR l hnoCR]
      · simp only [hf, Bool.false_eq_true, if_false]
        rw [splitLinesAux_last l [] hno10]
        have hle : l.isEmpty = false := by cases l <;> simp_all
        simp only [List.reverse_nil, List.nil_append, hle, Bool.false_eq_true, if_false, List.map_cons, List.map_nil,
          dropCR_noCR l hnoCR]
    | cons l' rest =>
      simp only [renderText]
      by_cases hc : crlf = true
      · simp only [hc, if_true] at ht ⊢
        have : l ++ [13, 10] ++ renderText true finalEol (l' :: rest) = (l ++ [13]) ++ 10 :: renderText true finalEol (l' :: rest) := by simp
        rw [this, splitLinesAux_line (l ++ [13]) _ [] (by
          intro b hb
          rcases List.mem_append.1 hb with hb | hb
          · exact hno10 b hb
          · simp at hb; omega)]
        simp only [List.reverse_nil, List.nil_append, List.map_cons, dropCR_snoc]
        rw [ht]
      · have hc' : crlf = false := by simpa using hc
        subst hc'
        simp only [Bool.false_eq_true, if_false] at ht ⊢
        have : l ++ [10] ++ renderText false finalEol (l' :: rest) = l ++ 10 :: renderText false finalEol (l' :: rest) := by simp
        rw [this, splitLinesAux_line l _ [] hno10]
        simp only [List.reverse_nil, List.nil_append, List.map_cons, dropCR_noCR l hnoCR]
        rw [ht]

end Gofasta.Lemmas
