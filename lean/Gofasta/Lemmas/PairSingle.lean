import Gofasta.Props.C02
import Gofasta.Lemmas.SamFlatten
import Gofasta.Lemmas.TopK
/-
C02 for a query aligned by a single record: the pair written by blockToSeqPair is lossless.
-/
namespace Gofasta.Lemmas
open Gofasta Model Spec Gofasta.Props.C01 Gofasta.Props.C02

theorem mem_insSorted {α : Type} (lt : α → α → Bool) (x y : α) : ∀ (l : List α), y ∈ insSorted lt x l ↔ y = x ∨ y ∈ l := by
  intro l
  induction l with
  | nil => simp [insSorted]
  | cons a t ih =>
    simp only [insSorted]
    split
    · simp
    · simp only [List.mem_cons, ih]
      constructor
      · rintro (h | h | h)
        · right; left; exact h
        · left; exact h
        · right; right; exact h
      · rintro (h | h | h)
        · right; left; exact h
        · left; exact h
        · right; right; exact h

theorem mem_sortStable {α : Type} (lt : α → α → Bool) (y : α) (l : List α) : y ∈ sortStable lt l ↔ y ∈ l := by
  induction l using rev_ind with
  | nil => simp [sortStable]
  | snoc l x ih =>
    rw [sortStable_append_singleton, mem_insSorted, ih]
    simp only [List.mem_append, List.mem_singleton]
    constructor
    · rintro (h | h); exact Or.inr h; exact Or.inl h
    · rintro (h | h); exact Or.inr h; exact Or.inl h

/-- the insertions of the only record of a block move nothing: they only advance that row's offset -/
theorem foldl_applyInsertion_single : ∀ (l : List (Nat × Nat × Nat)) (row : PairRow), (∀ x ∈ l, x.2.2 = 0) →
    ∃ row', l.foldl applyInsertion [row] = [row'] ∧ row'.ref = row.ref ∧ row'.que = row.que := by
  intro l
  induction l with
  | nil => intro row _; exact ⟨row, rfl, rfl, rfl⟩
  | cons x t ih =>
    intro row h
    have hx : x.2.2 = 0 := h x (List.mem_cons_self)
    have hstep : applyInsertion [row] x = [{ row with offset := row.offset + x.2.1 }] := by
      simp [applyInsertion, hx]
    simp only [List.foldl_cons, hstep]
    obtain ⟨row', h1, h2, h3⟩ := ih { row with offset := row.offset + x.2.1 } (fun y hy => h y (List.mem_cons_of_mem _ hy))
    exact ⟨row', h1, h2, h3⟩

theorem flattenSite_single (b : Nat) : flattenSite [b] = b := by
  unfold flattenSite
  have : [b].eraseDups = [b] := by simp [List.eraseDups_cons]
  simp only [this]
  by_cases h : isLetter b = true <;> simp [List.filter_cons, h]

theorem flattenRows_single (row : List Nat) : flattenRows [row] = row := by
  unfold flattenRows
  apply List.ext_getElem
  · simp
  · intro n h1 h2
    simp only [List.getElem_map, List.getElem_range, colAt, List.map_cons, List.map_nil]
    rw [flattenSite_single]
    have : n < row.length := by simpa using h1
    simp [List.getD_eq_getElem?_getD, this]

theorem padTo_self (row : List Nat) : padTo row.length row = row := by simp [padTo]

theorem insertionsOf_sum : ∀ (cigar : List (Nat × Nat)) (pos : Nat), ((insertionsOf pos cigar).map (·.2)).sum = insSpan cigar := by
  intro cigar
  induction cigar with
  | nil => intro pos; simp [insertionsOf, insSpan]
  | cons c rest ih =>
    intro pos
    obtain ⟨op, len⟩ := c
    simp only [insertionsOf, insSpan, List.map_append, List.sum_append]
    rw [ih]
    by_cases h : op = 1 <;> simp [h]

theorem que_row_length : ∀ (cigar : List (Nat × Nat)) (seq ref : List Nat) (q r : Nat),
    q + qSpan samInsRef cigar ≤ seq.length →
    (walkOps samInsRef seq ref cigar q r).1.length = refSpan samInsRef cigar + insSpan cigar := by
  intro cigar
  induction cigar with
  | nil => intro seq ref q r _; simp [walkOps, refSpan, insSpan]
  | cons c rest ih =>
    intro seq ref q r hq
    obtain ⟨op, len⟩ := c
    simp only [walkOps, refSpan, insSpan, qSpan] at hq ⊢
    cases he : opEntry samInsRef op with
    | none =>
      simp only [he] at hq ⊢
      have hne : op ≠ 1 := by
        intro h; subst h; simp [opEntry, samInsRef] at he
      simp only [hne, if_false]
      have := ih seq ref q r (by omega)
      omega
    | some e =>
      obtain ⟨cq, cr, ek, rk⟩ := e
      have hm := opEntry_mem he
      simp only [he, List.length_append] at hq ⊢
      simp only [samInsRef, List.mem_cons, Prod.mk.injEq, List.mem_nil_iff, or_false] at hm
      rcases hm with ⟨rfl, rfl, rfl, rfl, rfl⟩ | ⟨rfl, rfl, rfl, rfl, rfl⟩ | ⟨rfl, rfl, rfl, rfl, rfl⟩ | ⟨rfl, rfl, rfl, rfl, rfl⟩ |
        ⟨rfl, rfl, rfl, rfl, rfl⟩ | ⟨rfl, rfl, rfl, rfl, rfl⟩ | ⟨rfl, rfl, rfl, rfl, rfl⟩ | ⟨rfl, rfl, rfl, rfl, rfl⟩ | ⟨rfl, rfl, rfl, rfl, rfl⟩ <;>
        simp only [if_true, Bool.false_eq_true, if_false] at hq ⊢ <;>
        (rw [ih seq ref _ _ (by omega)]; simp [emit, List.length_take, List.length_drop]; try omega)

/-- the two rows blockToSeqPair writes for a query with one record, in closed form -/
theorem blockToSeqPair_single (rec : SamRec) (ref : List Nat)
    (hq : qSpan samInsRef rec.cigar ≤ rec.seq.length)
    (hr : rec.pos + refSpan samInsRef rec.cigar ≤ ref.length) :
    let w := walkOps samInsRef rec.seq ref rec.cigar 0 rec.pos
    blockToSeqPair [rec] ref =
      (ref.take rec.pos ++ w.2 ++ ref.drop (rec.pos + refSpan samInsRef rec.cigar),
       swapInNs (List.replicate rec.pos star ++ w.1 ++
         List.replicate (ref.length - (rec.pos + refSpan samInsRef rec.cigar)) star)) := by
  intro w
  have hw : walkWithRef rec ref true = (List.replicate rec.pos star ++ w.1, ref.take rec.pos ++ w.2) := by
    simp only [walkWithRef, if_true, op_table_ins_is_sam]; rfl
  have hw2len : w.2.length = refSpan samInsRef rec.cigar + insSpan rec.cigar :=
    ref_row_length ref rec.cigar rec.seq 0 rec.pos hr
  have hw1len : w.1.length = refSpan samInsRef rec.cigar + insSpan rec.cigar :=
    que_row_length rec.cigar rec.seq ref 0 rec.pos (by omega)
  unfold blockToSeqPair
  simp only [List.map_cons, List.map_nil, hw, List.length_cons, List.length_nil]
  have hinss : ∀ x ∈ sortStable (fun a b => decide (a.1 < b.1))
      (([rec].zip (List.range (0 + 1))).flatMap fun (r, i) => (insertionsOf r.pos r.cigar).map fun x => (x.1, x.2, i)), x.2.2 = 0 := by
    intro x hx
    rw [mem_sortStable] at hx
    simp at hx
    obtain ⟨a, b, _, rfl⟩ := hx
    rfl
  obtain ⟨row', hm, hmr, hmq⟩ := foldl_applyInsertion_single _
    ({ ref := ref.take rec.pos ++ w.2, que := List.replicate rec.pos star ++ w.1,
       refEnd := ((ref.take rec.pos ++ w.2).filter (· != dash)).length } : PairRow) hinss
  rw [hm]
  simp only [] at hmr hmq
  have hsum : ((([rec].zip (List.range (0 + 1))).flatMap fun x =>
      (insertionsOf x.1.pos x.1.cigar).map fun x_1 => (x_1.1, x_1.2, x.2)).map fun x => x.2.1).sum = insSpan rec.cigar := by
    simp only [Nat.zero_add, List.range_one, List.zip_cons_cons, List.zip_nil_right, List.flatMap_cons, List.flatMap_nil,
      List.append_nil, List.map_map]
    rw [← insertionsOf_sum rec.cigar rec.pos]
    rfl
  rw [hsum]
  have hlenR : row'.ref.length = rec.pos + (refSpan samInsRef rec.cigar + insSpan rec.cigar) := by
    rw [hmr]; simp [hw2len, List.length_take]; omega
  have hlenQ : row'.que.length = rec.pos + (refSpan samInsRef rec.cigar + insSpan rec.cigar) := by
    rw [hmq]; simp [hw1len]
  have hmx : List.foldl max 0 (List.map (fun r => r.ref.length) [row']) = row'.ref.length := by simp
  rw [hmx]
  simp only [List.map_cons, List.map_nil, flattenRows_single]
  have hp1 : padTo row'.ref.length row'.ref = row'.ref := padTo_self _
  have hp2 : padTo row'.ref.length row'.que = row'.que := by rw [hlenR, ← hlenQ]; exact padTo_self _
  rw [hp1, hp2, hmr, hmq]
  have hd : insSpan rec.cigar + ref.length - (ref.take rec.pos ++ w.2).length = ref.length - (rec.pos + refSpan samInsRef rec.cigar) := by
    have : (ref.take rec.pos ++ w.2).length = rec.pos + (refSpan samInsRef rec.cigar + insSpan rec.cigar) := by
      simp [hw2len, List.length_take]; omega
    rw [this]; omega
  rw [hd]
  have hd2 : ref.length - (ref.length - (rec.pos + refSpan samInsRef rec.cigar)) = rec.pos + refSpan samInsRef rec.cigar := by omega
  rw [hd2]

end Gofasta.Lemmas

namespace Gofasta.Lemmas
open Gofasta Model Spec Gofasta.Props.C01 Gofasta.Props.C02

/-! ### the properties of the single-record pair -/

theorem degap_append (a b : List Nat) : degap (a ++ b) = degap a ++ degap b := by simp [degap]

/-- **C02.single_ref_lossless** — removing '-' from the reference row gives back exactly the reference -/
theorem single_ref_lossless (rec : SamRec) (ref : List Nat) (hnd : NoDash ref)
    (hq : qSpan samInsRef rec.cigar ≤ rec.seq.length)
    (hr : rec.pos + refSpan samInsRef rec.cigar ≤ ref.length) :
    degap (blockToSeqPair [rec] ref).1 = ref := by
  rw [blockToSeqPair_single rec ref hq hr]
  simp only [degap_append]
  rw [ref_row_degap ref hnd]
  have h1 : degap (ref.take rec.pos) = ref.take rec.pos :=
    degap_noDash (fun x hx => hnd x (List.mem_of_mem_take hx))
  have h2 : degap (ref.drop (rec.pos + refSpan samInsRef rec.cigar)) = ref.drop (rec.pos + refSpan samInsRef rec.cigar) :=
    degap_noDash (fun x hx => hnd x (List.mem_of_mem_drop hx))
  rw [h1, h2]
  have : (ref.drop rec.pos).take (refSpan samInsRef rec.cigar) ++ ref.drop (rec.pos + refSpan samInsRef rec.cigar) = ref.drop rec.pos := by
    rw [← List.drop_drop]; exact List.take_append_drop _ _
  rw [List.append_assoc, this, List.take_append_drop]

/-- **C02.single_equal_length** — the two rows have the same length: reference length plus inserted bases -/
theorem single_lengths (rec : SamRec) (ref : List Nat)
    (hq : qSpan samInsRef rec.cigar ≤ rec.seq.length)
    (hr : rec.pos + refSpan samInsRef rec.cigar ≤ ref.length) :
    (blockToSeqPair [rec] ref).1.length = ref.length + insSpan rec.cigar ∧
    (blockToSeqPair [rec] ref).2.length = ref.length + insSpan rec.cigar := by
  rw [blockToSeqPair_single rec ref hq hr]
  have h2 := ref_row_length ref rec.cigar rec.seq 0 rec.pos hr
  have h1 := que_row_length rec.cigar rec.seq ref 0 rec.pos (by omega)
  simp only [swapInNs, List.length_append, List.length_map, List.length_take, List.length_drop, List.length_replicate, h1, h2]
  omega

/-- **C02.single_gap_columns** — the reference row has exactly as many '-' columns as the record inserts bases -/
theorem single_gap_count (rec : SamRec) (ref : List Nat) (hnd : NoDash ref)
    (hq : qSpan samInsRef rec.cigar ≤ rec.seq.length)
    (hr : rec.pos + refSpan samInsRef rec.cigar ≤ ref.length) :
    ((blockToSeqPair [rec] ref).1.filter (· == dash)).length = insSpan rec.cigar := by
  have hl := (single_lengths rec ref hq hr).1
  have hd := single_ref_lossless rec ref hnd hq hr
  have hsplit : ∀ (l : List Nat), l.length = (l.filter (· == dash)).length + (degap l).length := by
    intro l
    induction l with
    | nil => rfl
    | cons a t ih =>
      unfold degap at ih ⊢
      by_cases h : a = dash
      · subst h; simp [List.filter_cons]; omega
      · have h1 : (a == dash) = false := by simpa using h
        have h2 : (a != dash) = true := by simpa using h
        simp only [List.filter_cons, h1, h2, Bool.false_eq_true, if_false, if_true, List.length_cons]; omega
  have := hsplit (blockToSeqPair [rec] ref).1
  rw [hd, hl] at this
  omega

end Gofasta.Lemmas

namespace Gofasta.Lemmas
open Gofasta Model Spec Gofasta.Props.C01 Gofasta.Props.C02

/-! ### deleting the reference-gap columns gives the toMultiAlign --pad row -/

/-- the query row restricted to the columns where the reference row is not '-' -/
def keepRefCols (R Q : List Nat) : List Nat := ((R.zip Q).filter fun p => p.1 != dash).map (·.2)

theorem keepRefCols_append (R1 Q1 R2 Q2 : List Nat) (h : R1.length = Q1.length) :
    keepRefCols (R1 ++ R2) (Q1 ++ Q2) = keepRefCols R1 Q1 ++ keepRefCols R2 Q2 := by
  unfold keepRefCols
  rw [List.zip_append h, List.filter_append, List.map_append]

theorem keepRefCols_noDash (R Q : List Nat) (hnd : NoDash R) (h : R.length = Q.length) : keepRefCols R Q = Q := by
  unfold keepRefCols
  have : (R.zip Q).filter (fun p => p.1 != dash) = R.zip Q := by
    rw [List.filter_eq_self]
    intro p hp
    have := hnd p.1 (List.of_mem_zip hp).1
    simpa using this
  rw [this]
  exact List.map_snd_zip (by omega)

theorem keepRefCols_dashes (n : Nat) (Q : List Nat) : keepRefCols (List.replicate n dash) Q = [] := by
  unfold keepRefCols
  have : ((List.replicate n dash).zip Q).filter (fun p => p.1 != dash) = [] := by
    rw [List.filter_eq_nil_iff]
    intro p hp
    have := List.eq_of_mem_replicate (List.of_mem_zip hp).1
    simp [this]
  rw [this]; rfl

theorem keepRefCols_map (f : Nat → Nat) (R Q : List Nat) : keepRefCols R (Q.map f) = (keepRefCols R Q).map f := by
  unfold keepRefCols
  induction R generalizing Q with
  | nil => simp
  | cons a t ih =>
    cases Q with
    | nil => simp
    | cons b u =>
      simp only [List.map_cons, List.zip_cons_cons, List.filter_cons]
      split <;> simp [ih]

theorem opEntry_ins_cases (op : Nat) :
    (op = 0 ∨ op = 7 ∨ op = 8) ∧ opEntry samInsRef op = some (true, true, 1, 4) ∨
    op = 1 ∧ opEntry samInsRef op = some (true, false, 1, 2) ∨
    op = 2 ∧ opEntry samInsRef op = some (false, true, 2, 4) ∨
    op = 3 ∧ opEntry samInsRef op = some (false, true, 3, 4) ∨
    op = 4 ∧ opEntry samInsRef op = some (true, false, 0, 0) ∨
    (op = 5 ∨ op = 6) ∧ opEntry samInsRef op = some (false, false, 0, 0) ∨
    9 ≤ op ∧ opEntry samInsRef op = none := by
  by_cases h : op < 9
  · have : op = 0 ∨ op = 1 ∨ op = 2 ∨ op = 3 ∨ op = 4 ∨ op = 5 ∨ op = 6 ∨ op = 7 ∨ op = 8 := by omega
    rcases this with rfl | rfl | rfl | rfl | rfl | rfl | rfl | rfl | rfl <;> simp [opEntry, samInsRef]
  · right; right; right; right; right; right
    refine ⟨by omega, ?_⟩
    unfold opEntry samInsRef
    have hne : ∀ k, k < 9 → (k == op) = false := by intro k hk; simp; omega
    simp [List.find?, hne]

theorem spans_agree : ∀ (cigar : List (Nat × Nat)),
    qSpan samInsRef cigar = qSpan samNoIns cigar ∧ refSpan samInsRef cigar = refSpan samNoIns cigar := by
  intro cigar
  induction cigar with
  | nil => exact ⟨rfl, rfl⟩
  | cons c rest ih =>
    obtain ⟨op, len⟩ := c
    simp only [qSpan, refSpan, ih.1, ih.2]
    rcases opEntry_ins_cases op with ⟨ho, he⟩ | ⟨ho, he⟩ | ⟨ho, he⟩ | ⟨ho, he⟩ | ⟨ho, he⟩ | ⟨ho, he⟩ | ⟨ho, he⟩ <;>
      rcases opEntry_noins_cases op with ⟨ho', he'⟩ | ⟨ho', he'⟩ | ⟨ho', he'⟩ | ⟨ho', he'⟩ | ⟨ho', he'⟩ | ⟨ho', he'⟩ <;>
      first
        | (exfalso; omega)
        | (rw [he, he']; exact ⟨rfl, rfl⟩)

theorem noDash_drop_take {ref : List Nat} (hnd : NoDash ref) (r len : Nat) : NoDash ((ref.drop r).take len) :=
  noDash_slice hnd r len

/-- the paired walk with its insertion columns removed is the toMultiAlign walk -/
theorem walk_keepRefCols (ref : List Nat) (hnd : NoDash ref) : ∀ (cigar : List (Nat × Nat)) (seq : List Nat) (q r : Nat),
    q + qSpan samInsRef cigar ≤ seq.length → r + refSpan samInsRef cigar ≤ ref.length →
    keepRefCols (walkOps samInsRef seq ref cigar q r).2 (walkOps samInsRef seq ref cigar q r).1 =
      (walkOps samNoIns seq [] cigar q r).1 := by
  intro cigar
  induction cigar with
  | nil => intro seq q r _ _; simp [walkOps, keepRefCols]
  | cons c rest ih =>
    intro seq q r hq hr
    obtain ⟨op, len⟩ := c
    simp only [qSpan, refSpan] at hq hr
    simp only [walkOps]
    have hrefl : r + len ≤ ref.length → ((ref.drop r).take len).length = len := by
      intro h; simp [List.length_take, List.length_drop]; omega
    have hseql : q + len ≤ seq.length → ((seq.drop q).take len).length = len := by
      intro h; simp [List.length_take, List.length_drop]; omega
    rcases opEntry_ins_cases op with ⟨ho, he⟩ | ⟨ho, he⟩ | ⟨ho, he⟩ | ⟨ho, he⟩ | ⟨ho, he⟩ | ⟨ho, he⟩ | ⟨ho, he⟩ <;>
      rcases opEntry_noins_cases op with ⟨ho', he'⟩ | ⟨ho', he'⟩ | ⟨ho', he'⟩ | ⟨ho', he'⟩ | ⟨ho', he'⟩ | ⟨ho', he'⟩ <;>
      first
        | (exfalso; omega)
        | skip
    · -- M = X
      simp only [he, he'] at hq hr ⊢
      simp only [emit, if_true]
      rw [keepRefCols_append _ _ _ _ (by rw [hrefl (by omega), hseql (by omega)])]
      rw [keepRefCols_noDash _ _ (noDash_drop_take hnd r len) (by rw [hrefl (by omega), hseql (by omega)])]
      rw [ih seq _ _ (by omega) (by omega)]
    · -- I
      simp only [he, he'] at hq hr ⊢
      simp only [emit, if_true, Bool.false_eq_true, if_false, List.nil_append]
      rw [keepRefCols_append _ _ _ _ (by rw [hseql (by omega)]; simp)]
      rw [keepRefCols_dashes, List.nil_append]
      rw [ih seq _ _ (by omega) (by omega)]
    · -- D
      simp only [he, he'] at hq hr ⊢
      simp only [emit, if_true, Bool.false_eq_true, if_false]
      rw [keepRefCols_append _ _ _ _ (by rw [hrefl (by omega)]; simp)]
      rw [keepRefCols_noDash _ _ (noDash_drop_take hnd r len) (by rw [hrefl (by omega)]; simp)]
      rw [ih seq _ _ (by omega) (by omega)]
    · -- N
      simp only [he, he'] at hq hr ⊢
      simp only [emit, if_true, Bool.false_eq_true, if_false]
      rw [keepRefCols_append _ _ _ _ (by rw [hrefl (by omega)]; simp)]
      rw [keepRefCols_noDash _ _ (noDash_drop_take hnd r len) (by rw [hrefl (by omega)]; simp)]
      rw [ih seq _ _ (by omega) (by omega)]
    · -- S
      simp only [he, he'] at hq hr ⊢
      simp only [emit, if_true, Bool.false_eq_true, if_false, List.nil_append]
      rw [ih seq _ _ (by omega) (by omega)]
    · -- H P
      simp only [he, he'] at hq hr ⊢
      simp only [emit, Bool.false_eq_true, if_false, List.nil_append]
      rw [ih seq _ _ (by omega) (by omega)]
    · -- not an operator
      simp only [he, he'] at hq hr ⊢
      rw [ih seq _ _ (by omega) (by omega)]

end Gofasta.Lemmas

namespace Gofasta.Lemmas
open Gofasta Model Spec Gofasta.Props.C01 Gofasta.Props.C02

/-- **C02.single_skip_insertions** — deleting the reference-gap columns from the query row gives exactly the
`toMultiAlign --pad` row of the same query (the specification's row) -/
theorem single_skip_insertions (rec : SamRec) (ref : List Nat) (hnd : NoDash ref)
    (hq : qSpan samInsRef rec.cigar ≤ rec.seq.length)
    (hr : rec.pos + refSpan samInsRef rec.cigar ≤ ref.length)
    (hns : NoStarBases rec) :
    keepRefCols (blockToSeqPair [rec] ref).1 (blockToSeqPair [rec] ref).2 = specTomaRow [rec] ref.length true := by
  have hsp := spans_agree rec.cigar
  have hq' : qSpan samNoIns rec.cigar ≤ rec.seq.length := by rw [← hsp.1]; exact hq
  have hr' : rec.pos + refSpan samNoIns rec.cigar ≤ ref.length := by rw [← hsp.2]; exact hr
  rw [← single_record_row rec ref.length true hq' hr' hns 0 0]
  rw [blockToSeqPair_single rec ref hq hr]
  simp only []
  have h2 := ref_row_length ref rec.cigar rec.seq 0 rec.pos hr
  have h1 := que_row_length rec.cigar rec.seq ref 0 rec.pos (by omega)
  unfold swapInNs
  rw [keepRefCols_map]
  have hfr : fastaRecordSeq (walkNoIns rec ref.length) false true 0 0 = swapInNs (walkNoIns rec ref.length) := by
    simp [fastaRecordSeq]
  rw [hfr]
  unfold swapInNs
  congr 1
  rw [keepRefCols_append _ _ _ _ (by simp [List.length_take, h1, h2]; omega)]
  rw [keepRefCols_append _ _ _ _ (by simp [List.length_take]; omega)]
  rw [keepRefCols_noDash _ _ (fun x hx => hnd x (List.mem_of_mem_take hx)) (by simp [List.length_take]; omega)]
  rw [keepRefCols_noDash _ _ (fun x hx => hnd x (List.mem_of_mem_drop hx)) (by simp [List.length_drop])]
  rw [walk_keepRefCols ref hnd rec.cigar rec.seq 0 rec.pos (by omega) hr]
  unfold walkNoIns
  rw [op_table_is_sam]
  simp only [List.length_append, List.length_replicate]
  rw [walkOps_length rec.cigar rec.seq 0 rec.pos (by omega), hsp.2]

/-- non-vacuity: the record of the C02 example meets every hypothesis -/
example : NoDash [65, 67, 71, 84, 65, 67, 71, 84, 65, 67] ∧ qSpan samInsRef Props.C02.exRec.cigar ≤ Props.C02.exRec.seq.length ∧
    Props.C02.exRec.pos + refSpan samInsRef Props.C02.exRec.cigar ≤ 10 ∧ NoStarBases Props.C02.exRec := by
  refine ⟨?_, by decide, by decide, ?_⟩
  · intro b hb; have : b ≥ 65 := by simp at hb; omega
    unfold dash; omega
  · intro b hb; have : b ≥ 65 := by simp [Props.C02.exRec] at hb; omega
    unfold star; omega

end Gofasta.Lemmas
