import Gofasta.Lemmas.AggVariants
import Gofasta.Lemmas.VariantsOrder
/-
C13 for `variants --aggregate` (and `sam variants --aggregate`, which feeds the same writer): the table lists each
distinct mutation once, with count = number of query sequences whose per-sequence output contains it, total = number
of query sequences (the record named like the reference excluded), keeps exactly the entries with
count/total ≥ thrNum/thrDen, and is ordered by genomic position.
-/
namespace Gofasta.Lemmas.AggCount
open Gofasta Model Gofasta.Lemmas.AggVariants

/-! ### 0. names for the pieces of `variantsAggregate` -/

/-- the query rows: every row whose name differs from the reference name -/
def qrows (refID : String) (rows : List (String × List Variant)) : List (String × List Variant) :=
  rows.filter fun r => r.1 != refID

/-- the denominator of every frequency -/
def total (refID : String) (rows : List (String × List Variant)) : Nat := (qrows refID rows).length

/-- the counter keys of one row, in order: the records inside the window, `snps` erased, with their printed form -/
def rowKeys (a : Bool) (s e : Int) (r : String × List Variant) : List AggKey :=
  (r.2.filter (inWindow s e)).map (aggKeyOf a)

/-- the per-sequence output of one row as a list of strings (what `variantsLine` joins with a bar) -/
def seqMuts (a : Bool) (s e : Int) (r : String × List Variant) : List String :=
  (r.2.filter (inWindow s e)).map (formatVariant a)

theorem variantsLine_eq (a : Bool) (s e : Int) (r : String × List Variant) :
    variantsLine a s e r.1 r.2 = r.1 ++ "," ++ joinWith "|" (seqMuts a s e r) ++ "\n" := rfl

/-- the per-sequence output is one line per query row: name, comma, the texts of `seqMuts` joined by bars -/
theorem variantsOutput_eq (a : Bool) (s e : Int) (refID : String) (rows : List (String × List Variant)) :
    variantsOutput a s e refID rows = "query,mutations\n" ++ String.join ((qrows refID rows).map fun r =>
      r.1 ++ "," ++ joinWith "|" (seqMuts a s e r) ++ "\n") := rfl

theorem aggKeys_eq (a : Bool) (s e : Int) (refID : String) (rows : List (String × List Variant)) :
    aggKeys a s e refID rows = (qrows refID rows).flatMap (rowKeys a s e) := rfl

theorem seqMuts_eq (a : Bool) (s e : Int) (r : String × List Variant) :
    seqMuts a s e r = (rowKeys a s e r).map (·.rep) := by
  unfold seqMuts rowKeys
  rw [List.map_map]
  rfl

/-- number of query rows whose key list contains the key -/
def rowCount (a : Bool) (s e : Int) (refID : String) (rows : List (String × List Variant)) (k : AggKey) : Nat :=
  ((qrows refID rows).filter fun r => (rowKeys a s e r).contains k).length

/-- number of query rows whose per-sequence output contains the mutation text -/
def seqCount (a : Bool) (s e : Int) (refID : String) (rows : List (String × List Variant)) (m : String) : Nat :=
  ((qrows refID rows).filter fun r => (seqMuts a s e r).contains m).length

/-! ### (a) the stored count is the number of occurrences -/

/-- **C13v.a** — the count stored for a key after the two nested folds of `variantsAggregate` is the number of
occurrences of the key among the window-filtered, `snps`-erased records of all query rows. No hypothesis. -/
theorem agg_count (a : Bool) (s e : Int) (refID : String) (rows : List (String × List Variant)) (k : AggKey) :
    cnt k (aggCounts a s e refID rows) = (aggKeys a s e refID rows).count k := by
  unfold aggCounts
  rw [cnt_insAll]
  simp [cnt]

/-- the same, stated on the fold as it is written in `variantsAggregate` -/
theorem agg_count_fold (a : Bool) (s e : Int) (refID : String) (rows : List (String × List Variant)) (k : AggKey) :
    cnt k ((rows.filter fun r => r.1 != refID).foldl (fun m r => (r.2.filter (inWindow s e)).foldl (fun m v =>
      aggInsert { v := { v with snps := "" }, rep := formatVariant a v } m) m) []) =
    ((rows.filter fun r => r.1 != refID).flatMap fun r =>
      (r.2.filter (inWindow s e)).map fun v => ({ v := { v with snps := "" }, rep := formatVariant a v } : AggKey)).count k := by
  rw [counts_fold]
  exact agg_count a s e refID rows k

/-- the counting map has exactly one entry per key that occurs, carrying the number of occurrences -/
theorem mem_aggCounts (a : Bool) (s e : Int) (refID : String) (rows : List (String × List Variant)) (x : VEntry) :
    x ∈ aggCounts a s e refID rows ↔ x.1 ∈ aggKeys a s e refID rows ∧ x.2 = (aggKeys a s e refID rows).count x.1 := by
  have hk := insAll_keys (aggKeys a s e refID rows)
  unfold aggCounts
  rw [mem_iff_cnt _ hk.1, hk.2]
  have := agg_count a s e refID rows x.1
  unfold aggCounts at this
  rw [this]

theorem aggCounts_keys_nodup (a : Bool) (s e : Int) (refID : String) (rows : List (String × List Variant)) :
    (keys (aggCounts a s e refID rows)).Nodup := (insAll_keys (aggKeys a s e refID rows)).1

/-! ### (b) with duplicate-free rows the count is the number of sequences -/

section Generic
variable {κ : Type} [DecidableEq κ]

theorem count_nodup (k : κ) (l : List κ) (h : l.Nodup) : l.count k = if l.contains k then 1 else 0 := by
  rw [h.count]
  simp

theorem count_flatMap_nodup {ρ : Type} (f : ρ → List κ) (k : κ) : ∀ (rs : List ρ), (∀ r ∈ rs, (f r).Nodup) →
    (rs.flatMap f).count k = (rs.filter fun r => (f r).contains k).length := by
  intro rs
  induction rs with
  | nil => intro _; rfl
  | cons r t ih =>
    intro h
    simp only [List.flatMap_cons, List.count_append, List.filter_cons]
    rw [ih (fun x hx => h x (List.mem_cons_of_mem _ hx)), count_nodup k _ (h r List.mem_cons_self)]
    cases hc : (f r).contains k
    · simp
    · simp; omega

/-- without the hypothesis: the number of occurrences is at least the number of rows that contain the key -/
theorem count_flatMap_ge {ρ : Type} (f : ρ → List κ) (k : κ) : ∀ (rs : List ρ),
    (rs.filter fun r => (f r).contains k).length ≤ (rs.flatMap f).count k := by
  intro rs
  induction rs with
  | nil => simp
  | cons r t ih =>
    simp only [List.flatMap_cons, List.count_append, List.filter_cons]
    cases hc : (f r).contains k
    · simp only [Bool.false_eq_true, if_false]; omega
    · have : k ∈ f r := by simpa using hc
      have := List.count_pos_iff.2 this
      simp only [if_true, List.length_cons]; omega

end Generic

/-- the hypothesis of (b): no query row lists the same key twice inside the window -/
def RowsNodup (a : Bool) (s e : Int) (refID : String) (rows : List (String × List Variant)) : Prop :=
  ∀ r ∈ qrows refID rows, (rowKeys a s e r).Nodup

/-- **C13v.b** — if no query row lists a key twice (`RowsNodup`), the count stored for a key is the number of query
rows whose (window-filtered, `snps`-erased) list contains the key -/
theorem agg_count_is_sequences (a : Bool) (s e : Int) (refID : String) (rows : List (String × List Variant))
    (h : RowsNodup a s e refID rows) (k : AggKey) :
    cnt k (aggCounts a s e refID rows) = rowCount a s e refID rows k := by
  rw [agg_count, aggKeys_eq]
  exact count_flatMap_nodup (rowKeys a s e) k _ h

/-- in general the stored count is at least the number of rows, never less -/
theorem agg_count_ge_sequences (a : Bool) (s e : Int) (refID : String) (rows : List (String × List Variant)) (k : AggKey) :
    rowCount a s e refID rows k ≤ cnt k (aggCounts a s e refID rows) := by
  rw [agg_count, aggKeys_eq]
  exact count_flatMap_ge (rowKeys a s e) k _

/-- how `RowsNodup` follows for a row: its record list is duplicate-free and the key determines the record -/
def KeyInj (a : Bool) (l : List Variant) : Prop := ∀ v1 ∈ l, ∀ v2 ∈ l, aggKeyOf a v1 = aggKeyOf a v2 → v1 = v2

theorem rowKeys_nodup (a : Bool) (s e : Int) (r : String × List Variant) (hn : r.2.Nodup) (hi : KeyInj a r.2) :
    (rowKeys a s e r).Nodup := by
  unfold rowKeys
  have hf : (r.2.filter (inWindow s e)).Nodup := List.Nodup.sublist List.filter_sublist hn
  rw [List.nodup_iff_pairwise_ne] at hf ⊢
  rw [List.pairwise_map]
  refine List.Pairwise.imp_of_mem ?_ hf
  intro v1 v2 h1 h2 hne hk
  exact hne (hi v1 (List.mem_filter.1 h1).1 v2 (List.mem_filter.1 h2).1 hk)

/-! ### the table: the entries that are printed -/

/-- the entries of the table, in the order they are printed -/
def aggEntries (a : Bool) (s e : Int) (n d : Nat) (refID : String) (rows : List (String × List Variant)) : List VEntry :=
  (sortStable aggLt (aggCounts a s e refID rows)).filter fun x => x.2 * d ≥ n * total refID rows

/-- the printed text is one line per entry: printed form, comma, the count over the total to 9 decimals -/
theorem variantsAggregate_entries (a : Bool) (s e : Int) (n d : Nat) (refID : String) (rows : List (String × List Variant)) :
    variantsAggregate a s e n d refID rows =
      "mutation,frequency\n" ++ String.join ((aggEntries a s e n d refID rows).map fun x =>
        x.1.rep ++ "," ++ fmt9 x.2 (total refID rows) ++ "\n") :=
  variantsAggregate_eq a s e n d refID rows

/-! ### (d) the threshold -/

/-- **C13v.d (membership)** — an entry is printed iff its key occurs, its count is the number of occurrences, and
count * thrDen ≥ thrNum * total over the naturals (no rounding) -/
theorem mem_aggEntries (a : Bool) (s e : Int) (n d : Nat) (refID : String) (rows : List (String × List Variant)) (x : VEntry) :
    x ∈ aggEntries a s e n d refID rows ↔
      x.1 ∈ aggKeys a s e refID rows ∧ x.2 = (aggKeys a s e refID rows).count x.1 ∧ n * total refID rows ≤ x.2 * d := by
  unfold aggEntries
  rw [List.mem_filter, (sortStable_perm _).mem_iff, mem_aggCounts]
  simp only [ge_iff_le, decide_eq_true_eq, and_assoc]

/-- the cross-multiplied test IS the comparison of the two fractions (over the rationals of core Lean), equality
included -/
theorem cross_mul_iff (c t n d : Nat) (ht : 0 < t) (hd : 0 < d) :
    n * t ≤ c * d ↔ (n : Rat) / (d : Rat) ≤ (c : Rat) / (t : Rat) := by
  have ht' : (0 : Rat) < (t : Rat) := Rat.natCast_pos.2 ht
  have hd' : (0 : Rat) < (d : Rat) := Rat.natCast_pos.2 hd
  rw [← Rat.not_lt, Rat.div_lt_iff ht', Rat.div_def, Rat.mul_assoc, Rat.mul_comm _ (t : Rat), ← Rat.mul_assoc, ← Rat.div_def,
    Rat.lt_div_iff hd', Rat.not_lt, ← Rat.natCast_mul, ← Rat.natCast_mul, Rat.natCast_le_natCast]

/-- **C13v.d** — a key that occurs is printed iff count/total ≥ thrNum/thrDen as rationals, equality included;
total is the number of rows whose name differs from the reference name (`total`, `qrows`) -/
theorem agg_threshold (a : Bool) (s e : Int) (n d : Nat) (refID : String) (rows : List (String × List Variant))
    (hd : 0 < d) (k : AggKey) (hk : k ∈ aggKeys a s e refID rows) :
    (∃ c, (k, c) ∈ aggEntries a s e n d refID rows) ↔
      (n : Rat) / (d : Rat) ≤ (((aggKeys a s e refID rows).count k : Nat) : Rat) / ((total refID rows : Nat) : Rat) := by
  have ht : 0 < total refID rows := by
    rw [aggKeys_eq] at hk
    obtain ⟨r, hr, _⟩ := List.mem_flatMap.1 hk
    exact List.length_pos_of_mem hr
  rw [← cross_mul_iff _ _ _ _ ht hd]
  constructor
  · rintro ⟨c, hc⟩
    have := (mem_aggEntries a s e n d refID rows (k, c)).1 hc
    rw [← this.2.1]; exact this.2.2
  · intro h
    exact ⟨_, (mem_aggEntries a s e n d refID rows (k, _)).2 ⟨hk, rfl, h⟩⟩

/-- a frequency equal to the threshold is kept -/
theorem agg_threshold_equal_kept (a : Bool) (s e : Int) (refID : String) (rows : List (String × List Variant)) (x : VEntry)
    (hx : x ∈ aggCounts a s e refID rows) : x ∈ aggEntries a s e x.2 (total refID rows) refID rows := by
  rw [mem_aggEntries]
  have := (mem_aggCounts a s e refID rows x).1 hx
  exact ⟨this.1, this.2, Nat.le_refl _⟩

/-! ### (c) every key once -/

/-- **C13v.c (keys)** — every key occurs at most once in the table -/
theorem agg_each_once (a : Bool) (s e : Int) (n d : Nat) (refID : String) (rows : List (String × List Variant)) :
    ((aggEntries a s e n d refID rows).map (·.1)).Nodup := by
  unfold aggEntries
  have h1 : ((sortStable aggLt (aggCounts a s e refID rows)).map (fun (x : VEntry) => x.1)).Nodup :=
    ((sortStable_perm (lt := aggLt) (aggCounts a s e refID rows)).map (fun (x : VEntry) => x.1)).nodup_iff.2
      (aggCounts_keys_nodup a s e refID rows)
  exact List.Nodup.sublist (List.Sublist.map _ List.filter_sublist) h1

/-- the printed form of an entry is the per-sequence text of a record of a query row, inside the window, from which
the key was made -/
theorem agg_rep_is_seq_text (a : Bool) (s e : Int) (n d : Nat) (refID : String) (rows : List (String × List Variant))
    (x : VEntry) (hx : x ∈ aggEntries a s e n d refID rows) :
    ∃ r ∈ qrows refID rows, ∃ v ∈ r.2.filter (inWindow s e), x.1 = aggKeyOf a v ∧ x.1.rep = formatVariant a v ∧
      x.1.rep ∈ seqMuts a s e r := by
  have hk := ((mem_aggEntries a s e n d refID rows x).1 hx).1
  rw [aggKeys_eq] at hk
  obtain ⟨r, hr, hkr⟩ := List.mem_flatMap.1 hk
  obtain ⟨v, hv, hvk⟩ := List.mem_map.1 hkr
  refine ⟨r, hr, v, hv, hvk.symm, by rw [← hvk]; rfl, ?_⟩
  rw [← hvk]
  exact List.mem_map.2 ⟨v, hv, rfl⟩

/-! ### (e) the order of the table -/

section SortKey
variable {α : Type}

theorem insSorted_pairwise (lt : α → α → Bool) (r : α → α → Prop) (h1 : ∀ x y, lt x y = true → r x y)
    (h2 : ∀ x y, lt x y = false → r y x) (ht : ∀ x y z, r x y → r y z → r x z) (x : α) :
    ∀ (l : List α), l.Pairwise r → (insSorted lt x l).Pairwise r := by
  intro l
  induction l with
  | nil => intro _; simp [insSorted]
  | cons y t ih =>
    intro h
    have hy := (List.pairwise_cons.1 h).1
    have htl := (List.pairwise_cons.1 h).2
    simp only [insSorted]
    by_cases hxy : lt x y = true
    · simp only [hxy, if_true]
      refine List.pairwise_cons.2 ⟨?_, h⟩
      intro z hz
      rcases List.mem_cons.1 hz with rfl | hz
      · exact h1 _ _ hxy
      · exact ht _ _ _ (h1 _ _ hxy) (hy z hz)
    · have hxy' : lt x y = false := by simpa using hxy
      simp only [hxy', Bool.false_eq_true, if_false]
      refine List.pairwise_cons.2 ⟨?_, ih htl⟩
      intro z hz
      rcases List.mem_cons.1 ((insSorted_perm x t).mem_iff.1 hz) with rfl | hz
      · exact h2 _ _ hxy'
      · exact hy z hz

/-- a stable insertion sort orders its output by every transitive relation that the comparator refines, whether or
not the comparator itself is a strict weak order -/
theorem sortStable_pairwise (lt : α → α → Bool) (r : α → α → Prop) (h1 : ∀ x y, lt x y = true → r x y)
    (h2 : ∀ x y, lt x y = false → r y x) (ht : ∀ x y z, r x y → r y z → r x z) (l : List α) :
    (sortStable lt l).Pairwise r := by
  induction l using rev_ind with
  | nil => simp [sortStable]
  | snoc l x ih => rw [sortStable_append_singleton]; exact insSorted_pairwise lt r h1 h2 ht x _ ih

end SortKey

/-- position, then kind -/
def posKindLe (x y : VEntry) : Prop :=
  x.1.v.pos < y.1.v.pos ∨ (x.1.v.pos = y.1.v.pos ∧ x.1.v.kind.rank ≤ y.1.v.kind.rank)

theorem aggLt_true_posKind (x y : VEntry) (h : aggLt x y = true) : posKindLe x y := by
  unfold aggLt at h
  unfold posKindLe
  by_cases hp : x.1.v.pos = y.1.v.pos
  · right
    refine ⟨hp, ?_⟩
    simp only [hp, bne_self_eq_false, Bool.false_eq_true, if_false] at h
    by_cases hk : x.1.v.kind.rank = y.1.v.kind.rank
    · omega
    · have : (x.1.v.kind.rank != y.1.v.kind.rank) = true := by simpa using hk
      simp only [this, if_true, decide_eq_true_eq] at h
      omega
  · left
    have : (x.1.v.pos != y.1.v.pos) = true := by simpa using hp
    simp only [this, if_true, decide_eq_true_eq] at h
    exact h

theorem aggLt_false_posKind (x y : VEntry) (h : aggLt x y = false) : posKindLe y x := by
  unfold aggLt at h
  unfold posKindLe
  by_cases hp : x.1.v.pos = y.1.v.pos
  · right
    refine ⟨hp.symm, ?_⟩
    simp only [hp, bne_self_eq_false, Bool.false_eq_true, if_false] at h
    by_cases hk : x.1.v.kind.rank = y.1.v.kind.rank
    · omega
    · have : (x.1.v.kind.rank != y.1.v.kind.rank) = true := by simpa using hk
      simp only [this, if_true, decide_eq_false_iff_not] at h
      omega
  · left
    have : (x.1.v.pos != y.1.v.pos) = true := by simpa using hp
    simp only [this, if_true, decide_eq_false_iff_not] at h
    omega

theorem posKindLe_trans (x y z : VEntry) (h1 : posKindLe x y) (h2 : posKindLe y z) : posKindLe x z := by
  unfold posKindLe at *
  omega

/-- **C13v.e (order)** — the printed entries are in non-decreasing order of genomic position, and within one position
in the order aa, del, ins, nuc. No hypothesis: this holds although `aggLt` is not a strict weak order on all entries
(`AggVariants.aggLt_not_swo`). -/
theorem agg_sorted (a : Bool) (s e : Int) (n d : Nat) (refID : String) (rows : List (String × List Variant)) :
    (aggEntries a s e n d refID rows).Pairwise posKindLe :=
  List.Pairwise.filter _ (sortStable_pairwise aggLt posKindLe aggLt_true_posKind aggLt_false_posKind posKindLe_trans _)

theorem agg_sorted_pos (a : Bool) (s e : Int) (n d : Nat) (refID : String) (rows : List (String × List Variant)) :
    (aggEntries a s e n d refID rows).Pairwise (fun x y => x.1.v.pos ≤ y.1.v.pos) := by
  refine List.Pairwise.imp ?_ (agg_sorted a s e n d refID rows)
  intro x y h
  unfold posKindLe at h
  omega

/-- **C13v.e (nothing invented, nothing lost)** — the printed entries are, up to order, exactly the entries of the
counting map that pass the threshold -/
theorem agg_perm (a : Bool) (s e : Int) (n d : Nat) (refID : String) (rows : List (String × List Variant)) :
    (aggEntries a s e n d refID rows).Perm
      ((aggCounts a s e refID rows).filter fun x => x.2 * d ≥ n * total refID rows) :=
  (sortStable_perm _).filter _

/-- with threshold 0 the table is a permutation of the whole counting map -/
theorem agg_perm_all (a : Bool) (s e : Int) (d : Nat) (refID : String) (rows : List (String × List Variant)) :
    (aggEntries a s e 0 d refID rows).Perm (aggCounts a s e refID rows) := by
  have := agg_perm a s e 0 d refID rows
  simp only [Nat.zero_mul, ge_iff_le, Nat.zero_le, decide_true] at this
  rwa [List.filter_eq_self.2 (fun _ _ => rfl)] at this

/-! ### (f) the table in terms of the per-sequence strings -/

/-- hypothesis H1: no per-sequence line lists the same mutation text twice (inside the window) -/
def SeqNodup (a : Bool) (s e : Int) (refID : String) (rows : List (String × List Variant)) : Prop :=
  ∀ r ∈ qrows refID rows, (seqMuts a s e r).Nodup

/-- hypothesis H2: two different keys that occur never print the same text -/
def RepInj (ks : List AggKey) : Prop := ∀ k1 ∈ ks, ∀ k2 ∈ ks, k1.rep = k2.rep → k1 = k2

theorem nodup_of_map {α β : Type} (f : α → β) (l : List α) (h : (l.map f).Nodup) : l.Nodup := by
  rw [List.nodup_iff_pairwise_ne] at h ⊢
  rw [List.pairwise_map] at h
  exact List.Pairwise.imp (fun hne he => hne (by rw [he])) h

theorem rowsNodup_of_seqNodup (a : Bool) (s e : Int) (refID : String) (rows : List (String × List Variant))
    (h : SeqNodup a s e refID rows) : RowsNodup a s e refID rows := by
  intro r hr
  have := h r hr
  rw [seqMuts_eq] at this
  exact nodup_of_map _ _ this

theorem mem_aggKeys_of_row (a : Bool) (s e : Int) (refID : String) (rows : List (String × List Variant))
    (r : String × List Variant) (hr : r ∈ qrows refID rows) (k : AggKey) (hk : k ∈ rowKeys a s e r) :
    k ∈ aggKeys a s e refID rows := by
  rw [aggKeys_eq]
  exact List.mem_flatMap.2 ⟨r, hr, hk⟩

/-- under H2 "the row contains the key" and "the per-sequence line contains the text" are the same -/
theorem contains_rep_iff (a : Bool) (s e : Int) (refID : String) (rows : List (String × List Variant))
    (h2 : RepInj (aggKeys a s e refID rows)) (k : AggKey) (hk : k ∈ aggKeys a s e refID rows)
    (r : String × List Variant) (hr : r ∈ qrows refID rows) :
    (rowKeys a s e r).contains k = (seqMuts a s e r).contains k.rep := by
  rw [Bool.eq_iff_iff]
  simp only [List.contains_iff_mem]
  rw [seqMuts_eq]
  constructor
  · intro h; exact List.mem_map.2 ⟨k, h, rfl⟩
  · intro h
    obtain ⟨k', hk', hrep⟩ := List.mem_map.1 h
    have := h2 k' (mem_aggKeys_of_row a s e refID rows r hr k' hk') k hk hrep
    rw [← this]; exact hk'

theorem rowCount_eq_seqCount (a : Bool) (s e : Int) (refID : String) (rows : List (String × List Variant))
    (h2 : RepInj (aggKeys a s e refID rows)) (k : AggKey) (hk : k ∈ aggKeys a s e refID rows) :
    rowCount a s e refID rows k = seqCount a s e refID rows k.rep := by
  unfold rowCount seqCount
  congr 1
  apply List.filter_congr
  intro r hr
  exact contains_rep_iff a s e refID rows h2 k hk r hr

/-- **the count behind a frequency is the number of query sequences whose per-sequence output contains the text** -/
theorem count_eq_seqCount (a : Bool) (s e : Int) (refID : String) (rows : List (String × List Variant))
    (h1 : SeqNodup a s e refID rows) (h2 : RepInj (aggKeys a s e refID rows))
    (k : AggKey) (hk : k ∈ aggKeys a s e refID rows) :
    (aggKeys a s e refID rows).count k = seqCount a s e refID rows k.rep := by
  rw [← agg_count, agg_count_is_sequences a s e refID rows (rowsNodup_of_seqNodup a s e refID rows h1),
    rowCount_eq_seqCount a s e refID rows h2 k hk]

theorem seqCount_pos_iff (a : Bool) (s e : Int) (refID : String) (rows : List (String × List Variant)) (m : String) :
    0 < seqCount a s e refID rows m ↔ ∃ r ∈ qrows refID rows, m ∈ seqMuts a s e r := by
  unfold seqCount
  rw [List.length_pos_iff_exists_mem]
  constructor
  · rintro ⟨r, hr⟩
    have := List.mem_filter.1 hr
    exact ⟨r, this.1, by simpa using this.2⟩
  · rintro ⟨r, hr, hm⟩
    exact ⟨r, List.mem_filter.2 ⟨hr, by simpa using hm⟩⟩

theorem seqCount_le_total (a : Bool) (s e : Int) (refID : String) (rows : List (String × List Variant)) (m : String) :
    seqCount a s e refID rows m ≤ total refID rows := List.length_filter_le _ _

/-- the table as (mutation text, count) pairs in printed order -/
def aggTable (a : Bool) (s e : Int) (n d : Nat) (refID : String) (rows : List (String × List Variant)) : List (String × Nat) :=
  (aggEntries a s e n d refID rows).map fun x => (x.1.rep, x.2)

theorem variantsAggregate_table (a : Bool) (s e : Int) (n d : Nat) (refID : String) (rows : List (String × List Variant)) :
    variantsAggregate a s e n d refID rows =
      "mutation,frequency\n" ++ String.join ((aggTable a s e n d refID rows).map fun p =>
        p.1 ++ "," ++ fmt9 p.2 (total refID rows) ++ "\n") := by
  rw [variantsAggregate_entries]
  unfold aggTable
  rw [List.map_map]
  rfl

/-- which lines the table has -/
theorem mem_aggTable (a : Bool) (s e : Int) (n d : Nat) (refID : String) (rows : List (String × List Variant))
    (h1 : SeqNodup a s e refID rows) (h2 : RepInj (aggKeys a s e refID rows)) (m : String) (c : Nat) :
    (m, c) ∈ aggTable a s e n d refID rows ↔
      0 < seqCount a s e refID rows m ∧ c = seqCount a s e refID rows m ∧ n * total refID rows ≤ c * d := by
  unfold aggTable
  constructor
  · intro h
    obtain ⟨x, hx, hxe⟩ := List.mem_map.1 h
    simp only [Prod.mk.injEq] at hxe
    obtain ⟨hm, hc⟩ := hxe
    have hx' := (mem_aggEntries a s e n d refID rows x).1 hx
    have hcnt := count_eq_seqCount a s e refID rows h1 h2 x.1 hx'.1
    subst hm hc
    refine ⟨?_, by rw [hx'.2.1, hcnt], hx'.2.2⟩
    rw [← hcnt]
    exact List.count_pos_iff.2 hx'.1
  · rintro ⟨hp, hc, ht⟩
    obtain ⟨r, hr, hm⟩ := (seqCount_pos_iff a s e refID rows m).1 hp
    rw [seqMuts_eq] at hm
    obtain ⟨k, hk, hrep⟩ := List.mem_map.1 hm
    have hk' := mem_aggKeys_of_row a s e refID rows r hr k hk
    have hcnt := count_eq_seqCount a s e refID rows h1 h2 k hk'
    refine List.mem_map.2 ⟨(k, c), ?_, by simp [hrep]⟩
    rw [mem_aggEntries]
    refine ⟨hk', ?_, ht⟩
    simp only []
    rw [hcnt, hrep, hc]

/-- every mutation text at most once -/
theorem aggTable_nodup (a : Bool) (s e : Int) (n d : Nat) (refID : String) (rows : List (String × List Variant))
    (h2 : RepInj (aggKeys a s e refID rows)) : ((aggTable a s e n d refID rows).map (·.1)).Nodup := by
  unfold aggTable
  rw [List.map_map]
  have h := agg_each_once a s e n d refID rows
  have e1 : ((fun (p : String × Nat) => p.1) ∘ fun (x : VEntry) => (x.1.rep, x.2)) = (fun (k : AggKey) => k.rep) ∘ (fun (x : VEntry) => x.1) := rfl
  rw [e1, ← List.map_map]
  rw [List.nodup_iff_pairwise_ne] at h ⊢
  rw [List.pairwise_map]
  refine List.Pairwise.imp_of_mem ?_ h
  intro k1 k2 hk1 hk2 hne hrep
  apply hne
  obtain ⟨x1, hx1, rfl⟩ := List.mem_map.1 hk1
  obtain ⟨x2, hx2, rfl⟩ := List.mem_map.1 hk2
  exact h2 _ ((mem_aggEntries a s e n d refID rows x1).1 hx1).1 _ ((mem_aggEntries a s e n d refID rows x2).1 hx2).1 hrep

/-- **C13v — headline.** Assume (H1) no per-sequence line lists a mutation text twice and (H2) different keys that
occur print differently. Then the output of `variants --aggregate` is the header followed by one line
`m,fmt9 c total` per element `(m, c)` of a list `aggTable` such that
* `(m, c)` is in the list iff at least one query sequence has `m` in its per-sequence output, `c` is the number of
  query sequences whose per-sequence output contains `m`, and `c * thrDen ≥ thrNum * total` (for `thrDen > 0` and
  `total > 0`: `c / total ≥ thrNum / thrDen` over the rationals, `cross_mul_iff`), where `total` is the number of
  rows not named like the reference;
* no mutation text occurs twice;
* the lines are in non-decreasing order of genomic position (then aa, del, ins, nuc). -/
theorem variants_aggregate_spec (a : Bool) (s e : Int) (n d : Nat) (refID : String) (rows : List (String × List Variant))
    (h1 : SeqNodup a s e refID rows) (h2 : RepInj (aggKeys a s e refID rows)) :
    variantsAggregate a s e n d refID rows =
      "mutation,frequency\n" ++ String.join ((aggTable a s e n d refID rows).map fun p =>
        p.1 ++ "," ++ fmt9 p.2 (total refID rows) ++ "\n") ∧
    (∀ m c, (m, c) ∈ aggTable a s e n d refID rows ↔
      0 < seqCount a s e refID rows m ∧ c = seqCount a s e refID rows m ∧ n * total refID rows ≤ c * d) ∧
    ((aggTable a s e n d refID rows).map (·.1)).Nodup ∧
    (aggTable a s e n d refID rows = (aggEntries a s e n d refID rows).map fun x => (x.1.rep, x.2)) ∧
    (aggEntries a s e n d refID rows).Pairwise posKindLe :=
  ⟨variantsAggregate_table a s e n d refID rows, mem_aggTable a s e n d refID rows h1 h2,
    aggTable_nodup a s e n d refID rows h2, rfl, agg_sorted a s e n d refID rows⟩

/-- the same with the threshold read as a comparison of fractions -/
theorem variants_aggregate_spec_rat (a : Bool) (s e : Int) (n d : Nat) (refID : String) (rows : List (String × List Variant))
    (h1 : SeqNodup a s e refID rows) (h2 : RepInj (aggKeys a s e refID rows)) (hd : 0 < d) (m : String) :
    (∃ c, (m, c) ∈ aggTable a s e n d refID rows) ↔
      0 < seqCount a s e refID rows m ∧
        (n : Rat) / (d : Rat) ≤ ((seqCount a s e refID rows m : Nat) : Rat) / ((total refID rows : Nat) : Rat) := by
  constructor
  · rintro ⟨c, hc⟩
    obtain ⟨hp, rfl, ht⟩ := (mem_aggTable a s e n d refID rows h1 h2 m c).1 hc
    have htot : 0 < total refID rows := Nat.lt_of_lt_of_le hp (seqCount_le_total a s e refID rows m)
    exact ⟨hp, (cross_mul_iff _ _ _ _ htot hd).1 ht⟩
  · rintro ⟨hp, ht⟩
    have htot : 0 < total refID rows := Nat.lt_of_lt_of_le hp (seqCount_le_total a s e refID rows m)
    exact ⟨_, (mem_aggTable a s e n d refID rows h1 h2 m _).2 ⟨hp, rfl, (cross_mul_iff _ _ _ _ htot hd).2 ht⟩⟩

/-! ### the model's records: the amino-acid scan, one query and two queries in step -/

def nucRec (p r x : Nat) : Variant := { kind := .nuc, pos := (p : Int), refAl := [dec r], queAl := [dec x] }

def aaRec (reg : Region) (cnt : Nat) (aa : List Nat) (p : Nat) (snps : List Variant) : Variant :=
  { kind := .aa, feature := reg.name, refAl := [reg.translation.getD cnt 0], queAl := aa,
    pos := (p : Int) - 2 * reg.strand, residue := cnt + 1, snps := joinWith ";" (snps.map fmtNuc) }

theorem emit_spec (reg : Region) (s : AAState) (snps : List Variant) (p : Nat) (aa : List Nat) (haa : AAByte aa) :
    (if aa ≠ [reg.translation.getD s.aaCounter 0] ∧ aa ≠ [88] then
        ({ codonSnps := [], codon := [], aaCounter := s.aaCounter + 1,
           out := s.out ++ [{ kind := .aa, feature := reg.name, refAl := [reg.translation.getD s.aaCounter 0], queAl := aa,
                              pos := (p : Int) - 2 * reg.strand, residue := s.aaCounter + 1,
                              snps := joinWith ";" (snps.map fmtNuc) }] } : AAState)
        else { codonSnps := [], codon := [], aaCounter := s.aaCounter + 1, out := s.out ++ snps }).codonSnps = [] ∧
    (if aa ≠ [reg.translation.getD s.aaCounter 0] ∧ aa ≠ [88] then
        ({ codonSnps := [], codon := [], aaCounter := s.aaCounter + 1,
           out := s.out ++ [{ kind := .aa, feature := reg.name, refAl := [reg.translation.getD s.aaCounter 0], queAl := aa,
                              pos := (p : Int) - 2 * reg.strand, residue := s.aaCounter + 1,
                              snps := joinWith ";" (snps.map fmtNuc) }] } : AAState)
        else { codonSnps := [], codon := [], aaCounter := s.aaCounter + 1, out := s.out ++ snps }).codon = [] ∧
    (if aa ≠ [reg.translation.getD s.aaCounter 0] ∧ aa ≠ [88] then
        ({ codonSnps := [], codon := [], aaCounter := s.aaCounter + 1,
           out := s.out ++ [{ kind := .aa, feature := reg.name, refAl := [reg.translation.getD s.aaCounter 0], queAl := aa,
                              pos := (p : Int) - 2 * reg.strand, residue := s.aaCounter + 1,
                              snps := joinWith ";" (snps.map fmtNuc) }] } : AAState)
        else { codonSnps := [], codon := [], aaCounter := s.aaCounter + 1, out := s.out ++ snps }).aaCounter = s.aaCounter + 1 ∧
    ((if aa ≠ [reg.translation.getD s.aaCounter 0] ∧ aa ≠ [88] then
        ({ codonSnps := [], codon := [], aaCounter := s.aaCounter + 1,
           out := s.out ++ [{ kind := .aa, feature := reg.name, refAl := [reg.translation.getD s.aaCounter 0], queAl := aa,
                              pos := (p : Int) - 2 * reg.strand, residue := s.aaCounter + 1,
                              snps := joinWith ";" (snps.map fmtNuc) }] } : AAState)
        else { codonSnps := [], codon := [], aaCounter := s.aaCounter + 1, out := s.out ++ snps }).out = s.out ++ snps ∨
     ∃ aa', AAByte aa' ∧ (if aa ≠ [reg.translation.getD s.aaCounter 0] ∧ aa ≠ [88] then
        ({ codonSnps := [], codon := [], aaCounter := s.aaCounter + 1,
           out := s.out ++ [{ kind := .aa, feature := reg.name, refAl := [reg.translation.getD s.aaCounter 0], queAl := aa,
                              pos := (p : Int) - 2 * reg.strand, residue := s.aaCounter + 1,
                              snps := joinWith ";" (snps.map fmtNuc) }] } : AAState)
        else { codonSnps := [], codon := [], aaCounter := s.aaCounter + 1, out := s.out ++ snps }).out =
          s.out ++ [aaRec reg s.aaCounter aa' p snps]) := by
  by_cases hc : aa ≠ [reg.translation.getD s.aaCounter 0] ∧ aa ≠ [88]
  · rw [if_pos hc]
    exact ⟨rfl, rfl, rfl, Or.inr ⟨aa, haa, rfl⟩⟩
  · rw [if_neg hc]
    exact ⟨rfl, rfl, rfl, Or.inl rfl⟩

/-- what one step of the amino-acid scan does, case by case -/
theorem aaStep_spec (ref q cols : List Nat) (reg : Region) (s : AAState) (p : Nat) :
    (cols[p - 1]? = none ∧ aaStep ref q cols reg s p = s) ∨
    (∃ c, cols[p - 1]? = some c ∧ ∃ snps : List Variant,
      (snps = s.codonSnps ∨ ∃ r x, snps = s.codonSnps ++ [nucRec p r x]) ∧
      ((s.codon.length + 1 ≠ 3 ∧ (aaStep ref q cols reg s p).codonSnps = snps ∧
          (aaStep ref q cols reg s p).codon.length = s.codon.length + 1 ∧
          (aaStep ref q cols reg s p).aaCounter = s.aaCounter ∧ (aaStep ref q cols reg s p).out = s.out) ∨
       (s.codon.length + 1 = 3 ∧ (aaStep ref q cols reg s p).codonSnps = [] ∧ (aaStep ref q cols reg s p).codon = [] ∧
          (aaStep ref q cols reg s p).aaCounter = s.aaCounter + 1 ∧
          ((aaStep ref q cols reg s p).out = s.out ++ snps ∨
            ∃ aa, AAByte aa ∧ (aaStep ref q cols reg s p).out = s.out ++ [aaRec reg s.aaCounter aa p snps])))) := by
  unfold aaStep
  split
  · rename_i h; exact Or.inl ⟨h, rfl⟩
  · rename_i c h
    right
    refine ⟨c, h, ?_⟩
    simp only []
    refine ⟨(if encDiffer (q.getD c 0) (ref.getD c 0) = true then
        s.codonSnps ++ [{ kind := .nuc, pos := (p : Int), refAl := [dec (ref.getD c 0)], queAl := [dec (q.getD c 0)] }]
        else s.codonSnps), ?_, ?_⟩
    · split
      · exact Or.inr ⟨_, _, rfl⟩
      · exact Or.inl rfl
    · generalize (if encDiffer (q.getD c 0) (ref.getD c 0) = true then
        s.codonSnps ++ [{ kind := .nuc, pos := (p : Int), refAl := [dec (ref.getD c 0)], queAl := [dec (q.getD c 0)] }]
        else s.codonSnps) = snps
      by_cases hl : s.codon.length + 1 = 3
      · right
        have hl' : (s.codon ++ [dec (q.getD c 0)]).length = 3 := by simp [hl]
        simp only [hl', if_true]
        refine ⟨hl, ?_⟩
        split
        · rename_i a ha
          exact emit_spec reg s snps p a (dictLookup_aabyte _ a ha)
        · exact emit_spec reg s snps p [88] ⟨88, rfl, by omega, by omega⟩
      · left
        have hl' : ¬ (s.codon ++ [dec (q.getD c 0)]).length = 3 := by simp [hl]
        simp only [hl', if_false]
        exact ⟨hl, trivial, by simp, trivial, trivial⟩

def IsNuc (v : Variant) : Prop := ∃ p r x, v = nucRec p r x

def IsAA (reg : Region) (bound : Nat) (v : Variant) : Prop :=
  ∃ cnt aa p snps, AAByte aa ∧ cnt < bound ∧ v = aaRec reg cnt aa p snps

theorem isNuc_kind (v : Variant) (h : IsNuc v) : v.kind = .nuc := by
  obtain ⟨_, _, _, rfl⟩ := h; rfl

theorem isAA_kind (reg : Region) (b : Nat) (v : Variant) (h : IsAA reg b v) : v.kind = .aa := by
  obtain ⟨_, _, _, _, _, _, rfl⟩ := h; rfl

theorem isAA_residue (reg : Region) (b : Nat) (v : Variant) (h : IsAA reg b v) : v.residue ≤ b := by
  obtain ⟨c, _, _, _, _, hc, rfl⟩ := h
  show c + 1 ≤ b
  omega

theorem isAA_mono (reg : Region) (b b' : Nat) (hb : b ≤ b') (v : Variant) (h : IsAA reg b v) : IsAA reg b' v := by
  obtain ⟨c, aa, p, sn, h1, h2, h3⟩ := h
  exact ⟨c, aa, p, sn, h1, by omega, h3⟩

theorem not_aa_of_isNuc (v : Variant) (h : IsNuc v) (k : v.kind = .aa) : False := by
  rw [isNuc_kind v h] at k; cases k

/-- the invariant of one amino-acid scan: pending and written SNP records are SNP records, written amino-acid records
are records of this region numbered below the counter, and no two of them carry the same residue number -/
structure J (reg : Region) (s : AAState) : Prop where
  cs : ∀ v ∈ s.codonSnps, IsNuc v
  out : ∀ v ∈ s.out, IsNuc v ∨ IsAA reg s.aaCounter v
  uniq : ∀ v1 ∈ s.out, ∀ v2 ∈ s.out, v1.kind = .aa → v2.kind = .aa → v1.residue = v2.residue → v1 = v2

theorem snps_isNuc (s : AAState) (p : Nat) (snps : List Variant) (h : ∀ v ∈ s.codonSnps, IsNuc v)
    (hsn : snps = s.codonSnps ∨ ∃ r x, snps = s.codonSnps ++ [nucRec p r x]) : ∀ v ∈ snps, IsNuc v := by
  rcases hsn with rfl | ⟨r, x, rfl⟩
  · exact h
  · intro v hv
    rcases List.mem_append.1 hv with hv | hv
    · exact h v hv
    · simp only [List.mem_singleton] at hv; subst hv; exact ⟨_, _, _, rfl⟩

theorem J_step (ref q cols : List Nat) (reg : Region) (s : AAState) (p : Nat) (h : J reg s) :
    J reg (aaStep ref q cols reg s p) := by
  rcases aaStep_spec ref q cols reg s p with ⟨_, hr⟩ | ⟨c, _, snps, hsn, hcase⟩
  · rw [hr]; exact h
  · have hsnps := snps_isNuc s p snps h.cs hsn
    rcases hcase with ⟨_, h1, _, h3, h4⟩ | ⟨_, h1, _, h3, h4⟩
    · constructor
      · rw [h1]; exact hsnps
      · rw [h4, h3]; exact h.out
      · rw [h4]; exact h.uniq
    · have old : ∀ (l : List Variant), (∀ v ∈ l, IsNuc v) → ∀ v ∈ s.out ++ l, v.kind = .aa → v ∈ s.out := by
        intro l hl v hv k
        rcases List.mem_append.1 hv with hv | hv
        · exact hv
        · exact (not_aa_of_isNuc v (hl v hv) k).elim
      rcases h4 with h4 | ⟨aa, haa, h4⟩
      · constructor
        · rw [h1]; intro v hv; cases hv
        · rw [h4, h3]
          intro v hv
          rcases List.mem_append.1 hv with hv | hv
          · rcases h.out v hv with a | b
            · exact Or.inl a
            · exact Or.inr (isAA_mono reg _ _ (by omega) v b)
          · exact Or.inl (hsnps v hv)
        · rw [h4]
          intro v1 hv1 v2 hv2 k1 k2 hres
          exact h.uniq v1 (old snps hsnps v1 hv1 k1) v2 (old snps hsnps v2 hv2 k2) k1 k2 hres
      · constructor
        · rw [h1]; intro v hv; cases hv
        · rw [h4, h3]
          intro v hv
          rcases List.mem_append.1 hv with hv | hv
          · rcases h.out v hv with a | b
            · exact Or.inl a
            · exact Or.inr (isAA_mono reg _ _ (by omega) v b)
          · simp only [List.mem_singleton] at hv; subst hv
            exact Or.inr ⟨s.aaCounter, aa, p, snps, haa, by omega, rfl⟩
        · rw [h4]
          intro v1 hv1 v2 hv2 k1 k2 hres
          have bound : ∀ v ∈ s.out, v.kind = .aa → v.residue ≤ s.aaCounter := by
            intro v hv k
            rcases h.out v hv with a | b
            · exact (not_aa_of_isNuc v a k).elim
            · exact isAA_residue reg _ v b
          rcases List.mem_append.1 hv1 with m1 | m1 <;> rcases List.mem_append.1 hv2 with m2 | m2
          · exact h.uniq v1 m1 v2 m2 k1 k2 hres
          · simp only [List.mem_singleton] at m2; subst m2
            have := bound v1 m1 k1
            have e : (aaRec reg s.aaCounter aa p snps).residue = s.aaCounter + 1 := rfl
            omega
          · simp only [List.mem_singleton] at m1; subst m1
            have := bound v2 m2 k2
            have e : (aaRec reg s.aaCounter aa p snps).residue = s.aaCounter + 1 := rfl
            omega
          · simp only [List.mem_singleton] at m1 m2; rw [m1, m2]

theorem J_fold (ref q cols : List Nat) (reg : Region) : ∀ (ps : List Nat) (s : AAState), J reg s →
    J reg (ps.foldl (aaStep ref q cols reg) s) := by
  intro ps
  induction ps with
  | nil => intro s h; exact h
  | cons p t ih => intro s h; exact ih _ (J_step ref q cols reg s p h)

theorem J_init (reg : Region) : J reg {} :=
  ⟨(by intro v hv; cases hv), (by intro v hv; cases hv), (by intro v hv; cases hv)⟩

/-- the records of one region for one query -/
theorem getAAsPair_J (ref q cols : List Nat) (reg : Region) :
    (∀ v ∈ getAAsPair ref q cols reg, IsNuc v ∨ ∃ b, IsAA reg b v) ∧
    (∀ v1 ∈ getAAsPair ref q cols reg, ∀ v2 ∈ getAAsPair ref q cols reg, v1.kind = .aa → v2.kind = .aa →
      v1.residue = v2.residue → v1 = v2) := by
  have := J_fold ref q cols reg reg.positions {} (J_init reg)
  refine ⟨?_, this.uniq⟩
  intro v hv
  rcases this.out v hv with a | b
  · exact Or.inl a
  · exact Or.inr ⟨_, b⟩


/-- two scans of one region over the same reference, for two queries, run in step: same counter, same codon fill,
and amino-acid records with the same residue number sit at the same position -/
structure L (s1 s2 : AAState) : Prop where
  cnt : s1.aaCounter = s2.aaCounter
  len : s1.codon.length = s2.codon.length
  pos : ∀ v1 ∈ s1.out, ∀ v2 ∈ s2.out, v1.kind = .aa → v2.kind = .aa → v1.residue = v2.residue → v1.pos = v2.pos

theorem J_bound (reg : Region) (s : AAState) (j : J reg s) : ∀ v ∈ s.out, v.kind = .aa → v.residue ≤ s.aaCounter := by
  intro v hv k
  rcases j.out v hv with a | b
  · exact (not_aa_of_isNuc v a k).elim
  · exact isAA_residue reg _ v b

theorem pos_ext (reg : Region) (s1 s2 : AAState) (j1 : J reg s1) (j2 : J reg s2) (h : L s1 s2) (l1 l2 : List Variant) (P : Int)
    (h1 : ∀ v ∈ l1, IsNuc v ∨ (v.residue = s1.aaCounter + 1 ∧ v.pos = P))
    (h2 : ∀ v ∈ l2, IsNuc v ∨ (v.residue = s2.aaCounter + 1 ∧ v.pos = P)) :
    ∀ v1 ∈ s1.out ++ l1, ∀ v2 ∈ s2.out ++ l2, v1.kind = .aa → v2.kind = .aa → v1.residue = v2.residue → v1.pos = v2.pos := by
  intro v1 hv1 v2 hv2 k1 k2 hres
  have hc := h.cnt
  rcases List.mem_append.1 hv1 with m1 | m1 <;> rcases List.mem_append.1 hv2 with m2 | m2
  · exact h.pos v1 m1 v2 m2 k1 k2 hres
  · have b1 := J_bound reg s1 j1 v1 m1 k1
    rcases h2 v2 m2 with a | ⟨a, _⟩
    · exact (not_aa_of_isNuc v2 a k2).elim
    · omega
  · have b2 := J_bound reg s2 j2 v2 m2 k2
    rcases h1 v1 m1 with a | ⟨a, _⟩
    · exact (not_aa_of_isNuc v1 a k1).elim
    · omega
  · rcases h1 v1 m1 with a | ⟨_, a⟩
    · exact (not_aa_of_isNuc v1 a k1).elim
    · rcases h2 v2 m2 with b | ⟨_, b⟩
      · exact (not_aa_of_isNuc v2 b k2).elim
      · rw [a, b]

theorem tail_ok (reg : Region) (s r : AAState) (p : Nat) (snps : List Variant) (hsnps : ∀ v ∈ snps, IsNuc v)
    (h4 : r.out = s.out ++ snps ∨ ∃ aa, AAByte aa ∧ r.out = s.out ++ [aaRec reg s.aaCounter aa p snps]) :
    ∃ l, r.out = s.out ++ l ∧ ∀ v ∈ l, IsNuc v ∨ (v.residue = s.aaCounter + 1 ∧ v.pos = (p : Int) - 2 * reg.strand) := by
  rcases h4 with h4 | ⟨aa, _, h4⟩
  · exact ⟨snps, h4, fun v hv => Or.inl (hsnps v hv)⟩
  · refine ⟨_, h4, ?_⟩
    intro v hv
    simp only [List.mem_singleton] at hv; subst hv
    exact Or.inr ⟨rfl, rfl⟩

theorem L_step (ref q1 q2 cols : List Nat) (reg : Region) (s1 s2 : AAState) (p : Nat) (j1 : J reg s1) (j2 : J reg s2)
    (h : L s1 s2) : L (aaStep ref q1 cols reg s1 p) (aaStep ref q2 cols reg s2 p) := by
  rcases aaStep_spec ref q1 cols reg s1 p with ⟨n1, hr1⟩ | ⟨c1, e1, snps1, hsn1, hcase1⟩
  · rcases aaStep_spec ref q2 cols reg s2 p with ⟨_, hr2⟩ | ⟨c2, e2, _⟩
    · rw [hr1, hr2]; exact h
    · rw [n1] at e2; cases e2
  · rcases aaStep_spec ref q2 cols reg s2 p with ⟨n2, _⟩ | ⟨c2, e2, snps2, hsn2, hcase2⟩
    · rw [n2] at e1; cases e1
    · have hs1 := snps_isNuc s1 p snps1 j1.cs hsn1
      have hs2 := snps_isNuc s2 p snps2 j2.cs hsn2
      have hlen := h.len
      rcases hcase1 with ⟨g1, _, a2, a3, a4⟩ | ⟨g1, _, a2, a3, a4⟩ <;>
        rcases hcase2 with ⟨g2, _, b2, b3, b4⟩ | ⟨g2, _, b2, b3, b4⟩
      · constructor
        · rw [a3, b3]; exact h.cnt
        · rw [a2, b2, hlen]
        · rw [a4, b4]; exact h.pos
      · omega
      · omega
      · obtain ⟨l1, o1, t1⟩ := tail_ok reg s1 _ p snps1 hs1 a4
        obtain ⟨l2, o2, t2⟩ := tail_ok reg s2 _ p snps2 hs2 b4
        constructor
        · rw [a3, b3, h.cnt]
        · rw [a2, b2]
        · rw [o1, o2]
          exact pos_ext reg s1 s2 j1 j2 h l1 l2 _ t1 t2

theorem L_fold (ref q1 q2 cols : List Nat) (reg : Region) : ∀ (ps : List Nat) (s1 s2 : AAState), J reg s1 → J reg s2 → L s1 s2 →
    L (ps.foldl (aaStep ref q1 cols reg) s1) (ps.foldl (aaStep ref q2 cols reg) s2) := by
  intro ps
  induction ps with
  | nil => intro s1 s2 _ _ h; exact h
  | cons p t ih =>
    intro s1 s2 j1 j2 h
    exact ih _ _ (J_step ref q1 cols reg s1 p j1) (J_step ref q2 cols reg s2 p j2) (L_step ref q1 q2 cols reg s1 s2 p j1 j2 h)

/-- **the position of an amino-acid record is decided by the reference, the region and the residue number**: it is the
same for every query -/
theorem getAAsPair_pos (ref q1 q2 cols : List Nat) (reg : Region) :
    ∀ v1 ∈ getAAsPair ref q1 cols reg, ∀ v2 ∈ getAAsPair ref q2 cols reg, v1.kind = .aa → v2.kind = .aa →
      v1.residue = v2.residue → v1.pos = v2.pos :=
  (L_fold ref q1 q2 cols reg reg.positions {} {} (J_init reg) (J_init reg)
    ⟨rfl, rfl, (by intro v hv; cases hv)⟩).pos

/-! ### the records of one query, by origin -/

def IsIndel (v : Variant) : Prop := ∃ x : Nat × Nat, v = VariantsOrder.mkIns x ∨ v = VariantsOrder.mkDel x

theorem getNucsPair_isNuc (ref q cols inter : List Nat) : ∀ v ∈ getNucsPair ref q cols inter, IsNuc v := by
  intro v hv
  unfold getNucsPair at hv
  obtain ⟨p, _, hp⟩ := List.mem_filterMap.1 hv
  split at hp
  · simp only [] at hp
    split at hp
    · cases hp; exact ⟨_, _, _, rfl⟩
    · cases hp
  · cases hp

/-- every record of the model's list is an insertion or deletion record, a SNP record, or an amino-acid record that
the scan of one of the regions wrote -/
theorem mem_getVariantsPair (ref q : List Nat) (regions : List Region) (inter : List Nat) :
    ∀ v ∈ getVariantsPair ref q regions inter, IsIndel v ∨ IsNuc v ∨
      ∃ reg ∈ regions, v ∈ getAAsPair ref q (refCols ref) reg ∧ ∃ b, IsAA reg b v := by
  intro v hv
  unfold getVariantsPair at hv
  simp only [] at hv
  have hv' := ((Gofasta.Lemmas.mem_dedupRun _ v).1 hv).1
  rw [Gofasta.Lemmas.mem_sortStable] at hv'
  simp only [List.mem_append, List.mem_flatMap] at hv'
  rcases hv' with (h | h) | ⟨reg, hreg, h⟩
  · exact Or.inl (VariantsOrder.getIndelsPair_shape ref q v h)
  · exact Or.inr (Or.inl (getNucsPair_isNuc ref q _ inter v h))
  · rcases (getAAsPair_J ref q _ reg).1 v h with a | b
    · exact Or.inr (Or.inl a)
    · exact Or.inr (Or.inr ⟨reg, hreg, h, b⟩)

theorem isIndel_snps (v : Variant) (h : IsIndel v) : v.snps = "" ∧ v.kind ≠ .aa := by
  obtain ⟨x, rfl | rfl⟩ := h
  · exact ⟨rfl, by simp [VariantsOrder.mkIns]⟩
  · exact ⟨rfl, by simp [VariantsOrder.mkDel]⟩

theorem isNuc_snps (v : Variant) (h : IsNuc v) : v.snps = "" := by
  obtain ⟨_, _, _, rfl⟩ := h; rfl

/-- records other than amino-acid records carry no `snps` text -/
theorem getVariantsPair_noSnps (ref q : List Nat) (regions : List Region) (inter : List Nat) :
    ∀ v ∈ getVariantsPair ref q regions inter, v.kind ≠ .aa → v.snps = "" := by
  intro v hv k
  rcases mem_getVariantsPair ref q regions inter v hv with h | h | ⟨reg, _, _, b, h⟩
  · exact (isIndel_snps v h).1
  · exact isNuc_snps v h
  · exact absurd (isAA_kind reg b v h) k

/-! ### (b) for the model: when does the key decide the record -/

def erase (v : Variant) : Variant := { v with snps := "" }

theorem aggKeyOf_eq (a : Bool) (v : Variant) : aggKeyOf a v = ⟨erase v, formatVariant a v⟩ := rfl

theorem eq_of_erase (v1 v2 : Variant) (h : erase v1 = erase v2) (hs : v1.snps = v2.snps) : v1 = v2 := by
  obtain ⟨k1, p1, l1, r1, q1, f1, e1, s1⟩ := v1
  obtain ⟨k2, p2, l2, r2, q2, f2, e2, s2⟩ := v2
  simp only [erase, Variant.mk.injEq] at h
  simp only [] at hs
  simp only [Variant.mk.injEq]
  exact ⟨h.1, h.2.1, h.2.2.1, h.2.2.2.1, h.2.2.2.2.1, h.2.2.2.2.2.1, h.2.2.2.2.2.2.1, hs⟩

theorem erase_fields (v1 v2 : Variant) (h : erase v1 = erase v2) :
    v1.kind = v2.kind ∧ v1.pos = v2.pos ∧ v1.len = v2.len ∧ v1.refAl = v2.refAl ∧ v1.queAl = v2.queAl ∧
      v1.feature = v2.feature ∧ v1.residue = v2.residue :=
  ⟨show (erase v1).kind = (erase v2).kind from congrArg Variant.kind h,
   show (erase v1).pos = (erase v2).pos from congrArg Variant.pos h,
   show (erase v1).len = (erase v2).len from congrArg Variant.len h,
   show (erase v1).refAl = (erase v2).refAl from congrArg Variant.refAl h,
   show (erase v1).queAl = (erase v2).queAl from congrArg Variant.queAl h,
   show (erase v1).feature = (erase v2).feature from congrArg Variant.feature h,
   show (erase v1).residue = (erase v2).residue from congrArg Variant.residue h⟩

/-- with `--append-snps` the printed form of an amino-acid record ends with its `snps` text, so the key decides it -/
theorem snps_of_key_true (v1 v2 : Variant) (k1 : v1.kind = .aa) (he : erase v1 = erase v2)
    (hf : formatVariant true v1 = formatVariant true v2) : v1.snps = v2.snps := by
  obtain ⟨e0, _, _, e2, e4, e1, e3⟩ := erase_fields v1 v2 he
  have k2 : v2.kind = .aa := e0.symm.trans k1
  simp only [formatVariant, k1, k2, e1, e2, e3, e4, if_true] at hf
  have h1 := (String.append_right_inj _).1 hf
  have h2 := (String.append_left_inj _).1 h1
  exact (String.append_right_inj _).1 h2

/-- **with `--append-snps` the key decides the record in every list whose other records carry no `snps` text** -/
theorem keyInj_true (l : List Variant) (h : ∀ v ∈ l, v.kind ≠ .aa → v.snps = "") : KeyInj true l := by
  intro v1 hv1 v2 hv2 hk
  rw [aggKeyOf_eq, aggKeyOf_eq, AggKey.mk.injEq] at hk
  apply eq_of_erase v1 v2 hk.1
  by_cases k1 : v1.kind = .aa
  · exact snps_of_key_true v1 v2 k1 hk.1 hk.2
  · have k2 : v2.kind ≠ .aa := by
      have := (erase_fields v1 v2 hk.1).1
      intro k; apply k1; exact this.trans k
    rw [h v1 hv1 k1, h v2 hv2 k2]

theorem keyInj_true_model (ref q : List Nat) (regions : List Region) (inter : List Nat) :
    KeyInj true (getVariantsPair ref q regions inter) :=
  keyInj_true _ (getVariantsPair_noSnps ref q regions inter)

theorem eq_of_name : ∀ (regions : List Region), regions.Pairwise (fun r1 r2 => r1.name ≠ r2.name) →
    ∀ r1 ∈ regions, ∀ r2 ∈ regions, r1.name = r2.name → r1 = r2 := by
  intro regions
  induction regions with
  | nil => intro _ r1 h1; cases h1
  | cons r t ih =>
    intro h r1 h1 r2 h2 hn
    have hp := List.pairwise_cons.1 h
    rcases List.mem_cons.1 h1 with e1 | m1 <;> rcases List.mem_cons.1 h2 with e2 | m2
    · rw [e1, e2]
    · rw [e1] at hn; exact absurd hn (hp.1 r2 m2)
    · rw [e2] at hn; exact absurd hn.symm (hp.1 r1 m1)
    · exact ih hp.2 r1 m1 r2 m2 hn

theorem isAA_feature (reg : Region) (b : Nat) (v : Variant) (h : IsAA reg b v) : v.feature = reg.name := by
  obtain ⟨_, _, _, _, _, _, rfl⟩ := h; rfl

/-- **without `--append-snps`: the key decides the record when no two regions have the same name** -/
theorem keyInj_model (a : Bool) (ref q : List Nat) (regions : List Region) (inter : List Nat)
    (hn : regions.Pairwise (fun r1 r2 => r1.name ≠ r2.name)) :
    KeyInj a (getVariantsPair ref q regions inter) := by
  intro v1 hv1 v2 hv2 hk
  rw [aggKeyOf_eq, aggKeyOf_eq, AggKey.mk.injEq] at hk
  have hkind : v1.kind = v2.kind := (erase_fields v1 v2 hk.1).1
  have plain : ∀ v ∈ getVariantsPair ref q regions inter, v.kind ≠ .aa → v.snps = "" := getVariantsPair_noSnps ref q regions inter
  by_cases k1 : v1.kind = .aa
  · have k2 : v2.kind = .aa := hkind.symm.trans k1
    rcases mem_getVariantsPair ref q regions inter v1 hv1 with h | h | ⟨g1, hg1, m1, b1, a1⟩
    · exact absurd k1 (isIndel_snps v1 h).2
    · exact (not_aa_of_isNuc v1 h k1).elim
    · rcases mem_getVariantsPair ref q regions inter v2 hv2 with h | h | ⟨g2, hg2, m2, b2, a2⟩
      · exact absurd k2 (isIndel_snps v2 h).2
      · exact (not_aa_of_isNuc v2 h k2).elim
      · have hf : v1.feature = v2.feature := (erase_fields v1 v2 hk.1).2.2.2.2.2.1
        rw [isAA_feature g1 b1 v1 a1, isAA_feature g2 b2 v2 a2] at hf
        have hg := eq_of_name regions hn g1 hg1 g2 hg2 hf
        subst hg
        exact (getAAsPair_J ref q _ g1).2 v1 m1 v2 m2 k1 k2 (erase_fields v1 v2 hk.1).2.2.2.2.2.2
  · have k2 : v2.kind ≠ .aa := fun k => k1 (hkind.trans k)
    apply eq_of_erase v1 v2 hk.1
    rw [plain v1 hv1 k1, plain v2 hv2 k2]

/-! ### (c) for the model: reading the printed form back -/

def kindChar : VKind → Char | .aa => 'a' | .del => 'd' | .ins => 'i' | .nuc => 'n'

theorem format_head (a : Bool) (v : Variant) : (formatVariant a v).toList.head? = some (kindChar v.kind) := by
  have e1 : "aa:".toList = ['a', 'a', ':'] := rfl
  have e2 : "del:".toList = ['d', 'e', 'l', ':'] := rfl
  have e3 : "ins:".toList = ['i', 'n', 's', ':'] := rfl
  have e4 : "nuc:".toList = ['n', 'u', 'c', ':'] := rfl
  cases hk : v.kind <;>
    simp only [formatVariant, fmtNuc, hk, String.toList_append, e1, e2, e3, e4, List.head?_cons,
      kindChar, List.cons_append]

theorem kind_of_format (a : Bool) (v1 v2 : Variant) (h : formatVariant a v1 = formatVariant a v2) : v1.kind = v2.kind := by
  have h1 := format_head a v1
  rw [h, format_head a v2] at h1
  simp only [Option.some.injEq] at h1
  revert h1
  cases v1.kind <;> cases v2.kind <;> simp [kindChar]

theorem toDigits_inj (n m : Nat) (h : Nat.toDigits 10 n = Nat.toDigits 10 m) : n = m := by
  apply Nat.repr_injective
  rw [Nat.repr_eq_ofList_toDigits, Nat.repr_eq_ofList_toDigits, h]

theorem toString_nat_toList (n : Nat) : (toString n).toList = Nat.toDigits 10 n := by
  simp [Nat.toString_eq_repr, Nat.toList_repr]

theorem toString_int_toList (n : Nat) : (toString (n : Int)).toList = Nat.toDigits 10 n :=
  toString_nat_toList n

theorem digits_isDigit (n : Nat) : ∀ c ∈ Nat.toDigits 10 n, c.isDigit = true :=
  fun c hc => Nat.isDigit_of_mem_toDigits (by omega) (by omega) hc

/-- two texts "digits, a character that is not a digit, anything" are equal only if the digits and the rest are -/
theorem digits_split (n m : Nat) (c1 c2 : Char) (t1 t2 : List Char) (h1 : c1.isDigit = false) (h2 : c2.isDigit = false)
    (h : Nat.toDigits 10 n ++ c1 :: t1 = Nat.toDigits 10 m ++ c2 :: t2) : n = m ∧ c1 = c2 ∧ t1 = t2 := by
  obtain ⟨e1, e2⟩ := split_at_first (fun c => c.isDigit = true) _ _ c1 c2 t1 t2 (digits_isDigit n) (digits_isDigit m)
    (by simp [h1]) (by simp [h2]) h
  simp only [List.cons.injEq] at e2
  exact ⟨toDigits_inj n m e1, e2.1, e2.2⟩

theorem indel_format_inj (a : Bool) (x1 x2 : Nat × Nat) :
    (formatVariant a (VariantsOrder.mkIns x1) = formatVariant a (VariantsOrder.mkIns x2) → x1 = x2) ∧
    (formatVariant a (VariantsOrder.mkDel x1) = formatVariant a (VariantsOrder.mkDel x2) → x1 = x2) := by
  have e2 : "del:".toList = ['d', 'e', 'l', ':'] := rfl
  have e3 : "ins:".toList = ['i', 'n', 's', ':'] := rfl
  have e5 : ":".toList = [':'] := rfl
  have hc : ':'.isDigit = false := by decide
  constructor
  · intro h
    have h' := congrArg String.toList h
    simp only [formatVariant, VariantsOrder.mkIns, String.toList_append, toString_int_toList, toString_nat_toList, e3, e5,
      List.append_assoc, List.cons_append, List.nil_append, List.cons.injEq, true_and] at h'
    obtain ⟨a1, _, a3⟩ := digits_split _ _ _ _ _ _ hc hc h'
    exact Prod.ext a1 (toDigits_inj _ _ a3)
  · intro h
    have h' := congrArg String.toList h
    simp only [formatVariant, VariantsOrder.mkDel, String.toList_append, toString_int_toList, toString_nat_toList, e2, e5,
      List.append_assoc, List.cons_append, List.nil_append, List.cons.injEq, true_and] at h'
    obtain ⟨a1, _, a3⟩ := digits_split _ _ _ _ _ _ hc hc h'
    exact Prod.ext a1 (toDigits_inj _ _ a3)


theorem decTab_nd : ∀ x ∈ Gen.decTab, x < 256 ∧ (x < 48 ∨ 57 < x) := by decide +kernel

/-- a decoded base is a byte that is not a decimal digit -/
theorem dec_nd (e : Nat) : dec e < 256 ∧ (dec e < 48 ∨ 57 < dec e) := by
  unfold dec
  rw [List.getD_eq_getElem?_getD]
  by_cases h : e < Gen.decTab.length
  · rw [List.getElem?_eq_getElem h]
    exact decTab_nd _ (List.getElem_mem h)
  · rw [List.getElem?_eq_none (by omega)]
    simp

theorem ofNat_inj_byte (x y : Nat) (hx : x < 256) (hy : y < 256) (h : Char.ofNat x = Char.ofNat y) : x = y := by
  rw [← toNat_ofNat_valid x (Or.inl (by omega)), ← toNat_ofNat_valid y (Or.inl (by omega)), h]

theorem nuc_format_inj (a : Bool) (p1 r1 x1 p2 r2 x2 : Nat)
    (h : formatVariant a (nucRec p1 r1 x1) = formatVariant a (nucRec p2 r2 x2)) : nucRec p1 r1 x1 = nucRec p2 r2 x2 := by
  have e4 : "nuc:".toList = ['n', 'u', 'c', ':'] := rfl
  have h' := congrArg String.toList h
  simp only [formatVariant, nucRec, fmtNuc, bytesToString, String.toList_append, String.toList_ofList, toString_int_toList, e4,
    List.map_cons, List.map_nil, List.cons_append, List.nil_append, List.cons.injEq, true_and] at h'
  obtain ⟨hr, hrest⟩ := h'
  have n1 := dec_nd x1
  have n2 := dec_nd x2
  obtain ⟨a1, a2, _⟩ := digits_split _ _ _ _ _ _ (isDigit_ofNat_false _ n1.1 n1.2) (isDigit_ofNat_false _ n2.1 n2.2) hrest
  have hr' := ofNat_inj_byte _ _ (dec_nd r1).1 (dec_nd r2).1 hr
  have hx' := ofNat_inj_byte _ _ n1.1 n2.1 a2
  unfold nucRec
  rw [hr', hx', a1]

/-- the printed form of an amino-acid record can be read back: feature name (if it has no colon), residue number,
query residue -/
theorem aa_parse2 (a : Bool) (v1 v2 : Variant) (k1 : v1.kind = .aa) (k2 : v2.kind = .aa)
    (f1 : ∀ c ∈ v1.feature.toList, c ≠ ':') (f2 : ∀ c ∈ v2.feature.toList, c ≠ ':')
    (r1 : ∃ x, v1.refAl = [x]) (r2 : ∃ y, v2.refAl = [y]) (q1 : AAByte v1.queAl) (q2 : AAByte v2.queAl)
    (h : formatVariant a v1 = formatVariant a v2) :
    v1.feature = v2.feature ∧ v1.residue = v2.residue ∧ v1.queAl = v2.queAl := by
  have h' := congrArg String.toList h
  rw [aa_rep_toList a v1 k1, aa_rep_toList a v2 k2] at h'
  simp only [List.cons.injEq, true_and] at h'
  obtain ⟨e1, e2⟩ := split_at_first (fun c => c ≠ ':') _ _ ':' ':' _ _ f1 f2 (by simp) (by simp) h'
  obtain ⟨x, hx⟩ := r1
  obtain ⟨y, hy⟩ := r2
  obtain ⟨z1, hz1, z11, z12⟩ := q1
  obtain ⟨z2, hz2, z21, z22⟩ := q2
  rw [hx, hy, hz1, hz2] at e2
  simp only [List.map_cons, List.map_nil, List.cons_append, List.nil_append, List.cons.injEq, true_and] at e2
  obtain ⟨a1, a2, _⟩ := digits_split _ _ _ _ _ _ (isDigit_ofNat_false z1 z11 z12) (isDigit_ofNat_false z2 z21 z22) e2.2
  refine ⟨String.toList_inj.1 e1, a1, ?_⟩
  rw [hz1, hz2, ofNat_inj_byte z1 z2 z11 z21 a2]


theorem erase_ext (v1 v2 : Variant) (h1 : v1.kind = v2.kind) (h2 : v1.pos = v2.pos) (h3 : v1.len = v2.len)
    (h4 : v1.refAl = v2.refAl) (h5 : v1.queAl = v2.queAl) (h6 : v1.feature = v2.feature) (h7 : v1.residue = v2.residue) :
    erase v1 = erase v2 := by
  obtain ⟨k1, p1, l1, r1, q1, f1, e1, s1⟩ := v1
  obtain ⟨k2, p2, l2, r2, q2, f2, e2, s2⟩ := v2
  simp only at h1 h2 h3 h4 h5 h6 h7
  subst h1 h2 h3 h4 h5 h6 h7
  rfl

/-- **the printed form decides the key, across queries**: two records of the mutation lists of two queries (same
reference, same annotation) that print the same text are the same record up to `snps` — for annotations whose feature
names contain no colon and are pairwise different -/
theorem format_erase (a : Bool) (ref q1 q2 : List Nat) (regions : List Region) (inter : List Nat)
    (hreg : RegionsOk regions) (hn : regions.Pairwise (fun r1 r2 => r1.name ≠ r2.name))
    (v1 v2 : Variant) (hv1 : v1 ∈ getVariantsPair ref q1 regions inter) (hv2 : v2 ∈ getVariantsPair ref q2 regions inter)
    (h : formatVariant a v1 = formatVariant a v2) : erase v1 = erase v2 := by
  have hk := kind_of_format a v1 v2 h
  rcases mem_getVariantsPair ref q1 regions inter v1 hv1 with s1 | s1 | ⟨g1, hg1, m1, b1, a1⟩
  · rcases mem_getVariantsPair ref q2 regions inter v2 hv2 with s2 | s2 | ⟨g2, _, _, b2, a2⟩
    · obtain ⟨x1, rfl | rfl⟩ := s1 <;> obtain ⟨x2, rfl | rfl⟩ := s2
      · rw [(indel_format_inj a x1 x2).1 h]
      · cases hk
      · cases hk
      · rw [(indel_format_inj a x1 x2).2 h]
    · exfalso
      rw [isNuc_kind v2 s2] at hk
      obtain ⟨x1, rfl | rfl⟩ := s1 <;> cases hk
    · exfalso
      rw [isAA_kind g2 b2 v2 a2] at hk
      obtain ⟨x1, rfl | rfl⟩ := s1 <;> cases hk
  · rcases mem_getVariantsPair ref q2 regions inter v2 hv2 with s2 | s2 | ⟨g2, _, _, b2, a2⟩
    · exfalso
      rw [isNuc_kind v1 s1] at hk
      obtain ⟨x2, rfl | rfl⟩ := s2 <;> cases hk
    · obtain ⟨p1, r1, x1, rfl⟩ := s1
      obtain ⟨p2, r2, x2, rfl⟩ := s2
      rw [nuc_format_inj a _ _ _ _ _ _ h]
    · exfalso
      rw [isNuc_kind v1 s1, isAA_kind g2 b2 v2 a2] at hk
      cases hk
  · rcases mem_getVariantsPair ref q2 regions inter v2 hv2 with s2 | s2 | ⟨g2, hg2, m2, b2, a2⟩
    · exfalso
      rw [isAA_kind g1 b1 v1 a1] at hk
      obtain ⟨x2, rfl | rfl⟩ := s2 <;> cases hk
    · exfalso
      rw [isAA_kind g1 b1 v1 a1, isNuc_kind v2 s2] at hk
      cases hk
    · have k1 := isAA_kind g1 b1 v1 a1
      have k2 := isAA_kind g2 b2 v2 a2
      have f1 := isAA_feature g1 b1 v1 a1
      have f2 := isAA_feature g2 b2 v2 a2
      obtain ⟨c1, aa1, p1, sn1, haa1, _, e1⟩ := a1
      obtain ⟨c2, aa2, p2, sn2, haa2, _, e2⟩ := a2
      have hp := aa_parse2 a v1 v2 k1 k2 (by rw [f1]; exact (hreg g1 hg1).1) (by rw [f2]; exact (hreg g2 hg2).1)
        ⟨_, by rw [e1]; rfl⟩ ⟨_, by rw [e2]; rfl⟩ (by rw [e1]; exact haa1) (by rw [e2]; exact haa2) h
      have hg : g1 = g2 := eq_of_name regions hn g1 hg1 g2 hg2 (by rw [← f1, ← f2]; exact hp.1)
      subst hg
      have hpos := getAAsPair_pos ref q1 q2 (refCols ref) g1 v1 m1 v2 m2 k1 k2 hp.2.1
      have hres : c1 = c2 := by
        have := hp.2.1
        rw [e1, e2] at this
        have : c1 + 1 = c2 + 1 := this
        omega
      apply erase_ext v1 v2 hk hpos _ _ hp.2.2 hp.1 hp.2.1
      · rw [e1, e2]; rfl
      · rw [e1, e2, hres]; rfl

/-- H2 for the model -/
theorem repInj_model (a : Bool) (s e : Int) (refID : String) (ref : List Nat) (regions : List Region) (inter : List Nat)
    (recs : List (String × List Nat)) (hreg : RegionsOk regions) (hn : regions.Pairwise (fun r1 r2 => r1.name ≠ r2.name)) :
    RepInj (aggKeys a s e refID (modelRows ref regions inter recs)) := by
  have src : ∀ k ∈ aggKeys a s e refID (modelRows ref regions inter recs), ∃ q v, v ∈ getVariantsPair ref q regions inter ∧
      k = aggKeyOf a v := by
    intro k hk
    rw [aggKeys_eq] at hk
    obtain ⟨r, hr, hkr⟩ := List.mem_flatMap.1 hk
    obtain ⟨v, hv, hvk⟩ := List.mem_map.1 hkr
    obtain ⟨x, _, rfl⟩ := List.mem_map.1 (List.mem_filter.1 hr).1
    exact ⟨x.2, v, (List.mem_filter.1 hv).1, hvk.symm⟩
  intro k1 hk1 k2 hk2 hrep
  obtain ⟨q1, v1, m1, rfl⟩ := src k1 hk1
  obtain ⟨q2, v2, m2, rfl⟩ := src k2 hk2
  have hf : formatVariant a v1 = formatVariant a v2 := hrep
  rw [aggKeyOf_eq, aggKeyOf_eq, format_erase a ref q1 q2 regions inter hreg hn v1 v2 m1 m2 hf, hf]

/-- H1 for the model -/
theorem seqNodup_model (a : Bool) (s e : Int) (refID : String) (ref : List Nat) (regions : List Region) (inter : List Nat)
    (recs : List (String × List Nat)) (hreg : RegionsOk regions) (hn : regions.Pairwise (fun r1 r2 => r1.name ≠ r2.name)) :
    SeqNodup a s e refID (modelRows ref regions inter recs) := by
  intro r hr
  obtain ⟨x, _, rfl⟩ := List.mem_map.1 (List.mem_filter.1 hr).1
  unfold seqMuts
  simp only []
  have hnd : ((getVariantsPair ref x.2 regions inter).filter (inWindow s e)).Nodup :=
    List.Nodup.sublist List.filter_sublist (VariantsOrder.variants_nodup ref x.2 regions inter)
  rw [List.nodup_iff_pairwise_ne] at hnd ⊢
  rw [List.pairwise_map]
  refine List.Pairwise.imp_of_mem ?_ hnd
  intro v1 v2 h1 h2 hne hf
  apply hne
  have m1 := (List.mem_filter.1 h1).1
  have m2 := (List.mem_filter.1 h2).1
  apply keyInj_model a ref x.2 regions inter hn v1 m1 v2 m2
  rw [aggKeyOf_eq, aggKeyOf_eq, format_erase a ref x.2 x.2 regions inter hreg hn v1 v2 m1 m2 hf, hf]


/-! ### the theorems over the model's rows -/

/-- the rows the model hands to the aggregating writer have duplicate-free record lists -/
theorem modelRows_nodup (ref : List Nat) (regions : List Region) (inter : List Nat) (recs : List (String × List Nat)) :
    ∀ r ∈ modelRows ref regions inter recs, r.2.Nodup := by
  intro r hr
  obtain ⟨x, _, rfl⟩ := List.mem_map.1 hr
  exact VariantsOrder.variants_nodup ref x.2 regions inter

/-- `RowsNodup` for the model with `--append-snps`: from `variants_nodup` alone, any annotation -/
theorem rowsNodup_model_true (s e : Int) (refID : String) (ref : List Nat) (regions : List Region) (inter : List Nat)
    (recs : List (String × List Nat)) : RowsNodup true s e refID (modelRows ref regions inter recs) := by
  intro r hr
  have hm := (List.mem_filter.1 hr).1
  obtain ⟨x, _, rfl⟩ := List.mem_map.1 hm
  exact rowKeys_nodup true s e _ (VariantsOrder.variants_nodup ref x.2 regions inter) (keyInj_true_model ref x.2 regions inter)

/-- `RowsNodup` for the model, with or without `--append-snps`: from `variants_nodup` and pairwise different feature names -/
theorem rowsNodup_model (a : Bool) (s e : Int) (refID : String) (ref : List Nat) (regions : List Region) (inter : List Nat)
    (recs : List (String × List Nat)) (hn : regions.Pairwise (fun r1 r2 => r1.name ≠ r2.name)) :
    RowsNodup a s e refID (modelRows ref regions inter recs) := by
  intro r hr
  have hm := (List.mem_filter.1 hr).1
  obtain ⟨x, _, rfl⟩ := List.mem_map.1 hm
  exact rowKeys_nodup a s e _ (VariantsOrder.variants_nodup ref x.2 regions inter) (keyInj_model a ref x.2 regions inter hn)

/-- **C13v.b over the model, `--append-snps`** — the count of a key is the number of query sequences whose list
contains it: every reference row, every alignment, every annotation -/
theorem agg_count_is_sequences_model_true (s e : Int) (refID : String) (ref : List Nat) (regions : List Region)
    (inter : List Nat) (recs : List (String × List Nat)) (k : AggKey) :
    cnt k (aggCounts true s e refID (modelRows ref regions inter recs)) =
      rowCount true s e refID (modelRows ref regions inter recs) k :=
  agg_count_is_sequences true s e refID _ (rowsNodup_model_true s e refID ref regions inter recs) k

/-- **C13v.b over the model** — the same with or without `--append-snps` when no two features have the same name -/
theorem agg_count_is_sequences_model (a : Bool) (s e : Int) (refID : String) (ref : List Nat) (regions : List Region)
    (inter : List Nat) (recs : List (String × List Nat)) (hn : regions.Pairwise (fun r1 r2 => r1.name ≠ r2.name)) (k : AggKey) :
    cnt k (aggCounts a s e refID (modelRows ref regions inter recs)) =
      rowCount a s e refID (modelRows ref regions inter recs) k :=
  agg_count_is_sequences a s e refID _ (rowsNodup_model a s e refID ref regions inter recs hn) k

/-- **C13v over the model — headline.** For every encoded reference row, every alignment, every window and threshold,
and every annotation whose feature names contain no colon and are pairwise different and whose translations are
bytes: the output of `variants --aggregate` is the header and one line `m,fmt9 c total` per `(m, c)` of `aggTable`,
where `(m, c)` is listed iff some query sequence has `m` in its per-sequence output, `c` is the number of query
sequences whose per-sequence output contains `m`, and `c * thrDen ≥ thrNum * total`; no text is listed twice; the
lines are ordered by genomic position. -/
theorem variants_aggregate_spec_model (a : Bool) (s e : Int) (n d : Nat) (refID : String) (ref : List Nat)
    (regions : List Region) (inter : List Nat) (recs : List (String × List Nat))
    (hreg : RegionsOk regions) (hn : regions.Pairwise (fun r1 r2 => r1.name ≠ r2.name)) :
    variantsAggregate a s e n d refID (modelRows ref regions inter recs) =
      "mutation,frequency\n" ++ String.join ((aggTable a s e n d refID (modelRows ref regions inter recs)).map fun p =>
        p.1 ++ "," ++ fmt9 p.2 (total refID (modelRows ref regions inter recs)) ++ "\n") ∧
    (∀ m c, (m, c) ∈ aggTable a s e n d refID (modelRows ref regions inter recs) ↔
      0 < seqCount a s e refID (modelRows ref regions inter recs) m ∧
      c = seqCount a s e refID (modelRows ref regions inter recs) m ∧
      n * total refID (modelRows ref regions inter recs) ≤ c * d) ∧
    ((aggTable a s e n d refID (modelRows ref regions inter recs)).map (·.1)).Nodup ∧
    (aggTable a s e n d refID (modelRows ref regions inter recs) =
      (aggEntries a s e n d refID (modelRows ref regions inter recs)).map fun x => (x.1.rep, x.2)) ∧
    (aggEntries a s e n d refID (modelRows ref regions inter recs)).Pairwise posKindLe :=
  variants_aggregate_spec a s e n d refID _ (seqNodup_model a s e refID ref regions inter recs hreg hn)
    (repInj_model a s e refID ref regions inter recs hreg hn)

/-- the total of the model's rows is the number of records whose name differs from the reference name -/
theorem total_modelRows (refID : String) (ref : List Nat) (regions : List Region) (inter : List Nat)
    (recs : List (String × List Nat)) :
    total refID (modelRows ref regions inter recs) = (recs.filter fun r => r.1 != refID).length := by
  unfold total qrows modelRows
  rw [List.filter_map, List.length_map]
  rfl

/-! ### the hypotheses cannot be dropped: counterexamples -/

/-- reference ATG, query CCG; two features named g made of the same codon, written 1,2,3 and 2,1,3 -/
def cxbRegions : List Region := [⟨"g", 1, [1, 2, 3], [77]⟩, ⟨"g", 1, [2, 1, 3], [77]⟩]

def cxbRow : List Variant :=
  getVariantsPair ([65, 84, 71].map (enc false)) ([67, 67, 71].map (enc false)) cxbRegions []

/-- **`getVariantsPair` CAN return two records that differ only in `snps`**: the two records of this row print
differently with `--append-snps`, are different records (`variants_nodup` holds), and are equal once `snps` is erased -/
theorem cxb_differ_only_in_snps :
    cxbRow.map (formatVariant true) = ["aa:g:M1P(nuc:A1C;nuc:T2C)", "aa:g:M1P(nuc:T2C;nuc:A1C)"] ∧
    cxbRow.Nodup ∧ cxbRow.length = 2 ∧ (cxbRow.map erase).eraseDups.length = 1 := by
  refine ⟨?_, ?_, ?_, ?_⟩ <;> decide +kernel

/-- **so without `--append-snps` the count is NOT the number of sequences**: one query sequence, and the table gives
the mutation the frequency 2; the per-sequence output lists the text twice. `RowsNodup` fails, the stored count is 2,
the number of rows containing the key is 1. -/
theorem cxb_count_not_sequences :
    variantsAggregate false 0 0 0 1 "ref" [("q1", cxbRow)] = "mutation,frequency\naa:g:M1P,2.000000000\n" ∧
    variantsOutput false 0 0 "ref" [("q1", cxbRow)] = "query,mutations\nq1,aa:g:M1P|aa:g:M1P\n" ∧
    (aggCounts false 0 0 "ref" [("q1", cxbRow)]).map (·.2) = [2] ∧
    (aggCounts false 0 0 "ref" [("q1", cxbRow)]).map (fun x => rowCount false 0 0 "ref" [("q1", cxbRow)] x.1) = [1] := by
  refine ⟨?_, ?_, ?_, ?_⟩ <;> decide +kernel

/-- with `--append-snps` the same input is counted correctly (two keys, one sequence each) -/
theorem cxb_append_snps_ok :
    variantsAggregate true 0 0 0 1 "ref" [("q1", cxbRow)] =
      "mutation,frequency\naa:g:M1P(nuc:A1C;nuc:T2C),1.000000000\naa:g:M1P(nuc:T2C;nuc:A1C),1.000000000\n" := by
  decide +kernel

/-- reference ATGATG; two features named g, codon 1..3 and codon 4..6, both annotated M -/
def cxcRegions : List Region := [⟨"g", 1, [1, 2, 3], [77]⟩, ⟨"g", 1, [4, 5, 6], [77]⟩]

def cxcRows : List (String × List Variant) :=
  [("q1", getVariantsPair ([65, 84, 71, 65, 84, 71].map (enc false)) ([65, 65, 71, 65, 65, 71].map (enc false)) cxcRegions []),
   ("q2", getVariantsPair ([65, 84, 71, 65, 84, 71].map (enc false)) ([65, 65, 71, 65, 84, 71].map (enc false)) cxcRegions [])]

/-- **two different keys CAN print the same text** (H2 fails): the first residues of two features of one name, at
positions 1 and 4, both print as aa:g:M1K; the table lists the text twice, with two different frequencies, and the
first per-sequence line lists it twice (H1 fails as well) -/
theorem cxc_same_text_two_keys :
    variantsAggregate false 0 0 0 1 "ref" cxcRows = "mutation,frequency\naa:g:M1K,1.000000000\naa:g:M1K,0.500000000\n" ∧
    variantsOutput false 0 0 "ref" cxcRows = "query,mutations\nq1,aa:g:M1K|aa:g:M1K\nq2,aa:g:M1K\n" ∧
    (aggCounts false 0 0 "ref" cxcRows).map (fun x => (x.1.v.pos, x.1.rep, x.2)) = [(1, "aa:g:M1K", 2), (4, "aa:g:M1K", 1)] := by
  refine ⟨?_, ?_, ?_⟩ <;> decide +kernel

/-! ### non-vacuity: three query sequences, one mutation shared by two of them -/

def exNuc : Variant := { kind := .nuc, pos := 5, refAl := [67], queAl := [84] }
def exDel : Variant := { kind := .del, pos := 7, len := 1 }
def exRows : List (String × List Variant) := [("ref", []), ("a", [exNuc, exDel]), ("b", [exNuc]), ("c", [])]

example : SeqNodup false 0 0 "ref" exRows := by unfold SeqNodup; decide +kernel
example : RepInj (aggKeys false 0 0 "ref" exRows) := by unfold RepInj; decide +kernel
example : total "ref" exRows = 3 := by decide +kernel
example : seqCount false 0 0 "ref" exRows "nuc:C5T" = 2 ∧ seqCount false 0 0 "ref" exRows "del:7:1" = 1 := by
  constructor <;> decide +kernel
/-- threshold 2/3: the shared mutation (2 of 3) is kept, equality included; the other (1 of 3) is dropped -/
example : variantsAggregate false 0 0 2 3 "ref" exRows = "mutation,frequency\nnuc:C5T,0.666666667\n" := by decide +kernel
example : aggTable false 0 0 2 3 "ref" exRows = [("nuc:C5T", 2)] := by decide +kernel
/-- threshold 3/4: dropped -/
example : variantsAggregate false 0 0 3 4 "ref" exRows = "mutation,frequency\n" := by decide +kernel
/-- threshold 0: both, in order of position -/
example : variantsAggregate false 0 0 0 1 "ref" exRows =
    "mutation,frequency\nnuc:C5T,0.666666667\ndel:7:1,0.333333333\n" := by decide +kernel

/-- the same over the model: reference ATGA, queries ATGC, ATGC, ATGA, no coding region, position 4 listed as
intergenic; the hypotheses of `variants_aggregate_spec_model` hold for the empty annotation -/
def exRecs : List (String × List Nat) :=
  [("ref", [65, 84, 71, 65].map (enc false)), ("a", [65, 84, 71, 67].map (enc false)),
   ("b", [65, 84, 71, 67].map (enc false)), ("c", [65, 84, 71, 65].map (enc false))]

example : variantsAggregate false 0 0 2 3 "ref" (modelRows ([65, 84, 71, 65].map (enc false)) [] [4] exRecs) =
    "mutation,frequency\nnuc:A4C,0.666666667\n" := by decide +kernel
example : variantsAggregate false 0 0 3 4 "ref" (modelRows ([65, 84, 71, 65].map (enc false)) [] [4] exRecs) =
    "mutation,frequency\n" := by decide +kernel
example : RegionsOk [] ∧ ([] : List Region).Pairwise (fun r1 r2 => r1.name ≠ r2.name) :=
  ⟨(by intro r hr; cases hr), List.Pairwise.nil⟩

end Gofasta.Lemmas.AggCount
