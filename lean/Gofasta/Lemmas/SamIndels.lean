import Gofasta.Lemmas.PairMulti
import Gofasta.Props.C05
/-
C05 for alignments given in SAM form: the `ins:` and `del:` records that `getIndelsPair` reports on the (encoded) pair
built from the records of one query, stated in terms of the records themselves (CIGAR terms): insertion records by
reference position with the total number of inserted bases, deletion records as the maximal runs of reference
positions that some record deletes and no record covers with a base.
-/
namespace Gofasta.Lemmas.SamIndels
open Gofasta Base Model Spec Gofasta.Lemmas Gofasta.Props.C01 Gofasta.Props.C02 Gofasta.Props.C05

/-! ### Part 0 — the scanner on encoded rows, for arbitrary bytes

`C05.ins_spec` and `C05.del_spec` ask for rows over the accepted alphabet; the only fact used about the encoding is
that code 244 is produced by '-' and by nothing else, which holds for every natural number (bytes outside the
alphabet and numbers that are not bytes are encoded as 0). -/

theorem encSoft_length : Gen.encSoft.length = 256 := by decide +kernel

theorem enc_dash : enc false 45 = 244 := by decide +kernel

/-- the gap code is the code of '-' and of nothing else, for every number -/
theorem enc_gap_all (b : Nat) : (enc false b == gapCode) = isGap b := by
  unfold gapCode isGap
  by_cases hb : b < 256
  · by_cases he : enc false b = 0
    · have h45 : b ≠ 45 := by
        intro h; subst h; rw [enc_dash] at he; omega
      rw [he]
      have : (b == 45) = false := by simpa using h45
      rw [this]; rfl
    · exact enc_gap_iff b hb he
  · have he : enc false b = 0 := by
      unfold enc
      simp only [Bool.false_eq_true, if_false]
      rw [List.getD_eq_getElem?_getD, List.getElem?_eq_none (by rw [encSoft_length]; omega)]
      rfl
    have h45 : (b == 45) = false := by simp; omega
    rw [he, h45]; rfl

/-- `C05.ins_spec` without a hypothesis on the alphabet -/
theorem ins_spec_all (ref q : List Nat) :
    insOf (getIndelsPair (ref.map (enc false)) (q.map (enc false))) = specIns 0 (normalise ref q) := by
  rw [ins_spec_enc, zip_map_enc, normalise_eq_filter]
  have hfilter : ((ref.zip q).map (Prod.map (enc false) (enc false))).filter keepCol =
      ((ref.zip q).filter fun c => !(isGap c.1 && isGap c.2)).map (Prod.map (enc false) (enc false)) := by
    rw [List.filter_map]
    congr 1
    apply List.filter_congr
    intro c _
    simp only [Function.comp, keepCol, Prod.map_fst, Prod.map_snd, enc_gap_all]
  rw [hfilter]
  unfold specIns
  apply specInsBy_map (enc false) isGap (· == gapCode) _ _ 0 (Nat.le_refl _)
  intro c _
  exact enc_gap_all c.1

/-- `C05.del_spec` without a hypothesis on the alphabet -/
theorem del_spec_all (ref q : List Nat) :
    delOf (getIndelsPair (ref.map (enc false)) (q.map (enc false))) = specDelsBy isGap (ref.zip q) := by
  rw [del_spec_enc, zip_map_enc]
  have hq' : refColumnQueryBy (· == gapCode) ((ref.zip q).map (Prod.map (enc false) (enc false))) =
      (refColumnQueryBy isGap (ref.zip q)).map (enc false) := by
    unfold refColumnQueryBy
    rw [List.filter_map, List.map_map, List.map_map]
    congr 1
    apply List.filter_congr
    intro c _
    simp only [Function.comp, Prod.map_fst, enc_gap_all]
  unfold specDelsBy
  simp only [hq', List.length_map]
  congr 1
  apply specDelRunsBy_map (enc false) isGap (· == gapCode) _ _ 0 (Nat.le_refl _)
  intro b _
  exact enc_gap_all b


/-! ### Part 1 — insertion runs of a row written position by position

A list of columns of the shape  seg n, base n, seg (n+1), base (n+1), …, base (n+d-1), seg (n+d)  where every column of
a `seg` has a gap in the reference row and no `base` column has one: the maximal runs of reference-gap columns are the
non-empty `seg`s, and the run `seg p` has exactly p reference bases to its left. -/

theorem specInsBy_nil (g : Nat → Bool) (n : Nat) : specInsBy g n [] = [] := by rw [specInsBy]

/-- a column with a reference base: counted, nothing reported -/
theorem specInsBy_base (g : Nat → Bool) (n : Nat) (c : Nat × Nat) (t : List (Nat × Nat)) (hc : g c.1 = false) :
    specInsBy g n (c :: t) = specInsBy g (n + 1) t := by
  obtain ⟨r, q⟩ := c
  rw [specInsBy]
  simp only [] at hc
  simp [hc]

/-- a maximal run of reference-gap columns: one record, with the length of the run -/
theorem specInsBy_run (g : Nat → Bool) (n : Nat) (G rest : List (Nat × Nat)) (hG : ∀ c ∈ G, g c.1 = true) (hne : G ≠ [])
    (hrest : rest = [] ∨ ∃ c t, rest = c :: t ∧ g c.1 = false) :
    specInsBy g n (G ++ rest) = (n, G.length) :: specInsBy g n rest := by
  cases G with
  | nil => exact absurd rfl hne
  | cons c G' =>
    obtain ⟨r, q⟩ := c
    have hr : g r = true := hG (r, q) List.mem_cons_self
    have hG' : ∀ c ∈ G', (fun c : Nat × Nat => g c.1) c = true := fun c hc => hG c (List.mem_cons_of_mem _ hc)
    have htw : (rest.takeWhile fun c => g c.1) = [] ∧ (rest.dropWhile fun c => g c.1) = rest := by
      rcases hrest with rfl | ⟨c, t, rfl, hc⟩
      · simp
      · simp [hc]
    rw [List.cons_append, specInsBy]
    simp only [hr, if_true]
    rw [List.takeWhile_append_of_pos hG', List.dropWhile_append_of_pos hG', htw.1, htw.2]
    simp [Nat.add_comm]

/-- the records of a row written position by position -/
def runsOf (seg : Nat → List (Nat × Nat)) (p : Nat) : Option (Nat × Nat) :=
  if 0 < (seg p).length then some (p, (seg p).length) else none

theorem specInsBy_chunk (g : Nat → Bool) (n : Nat) (G : List (Nat × Nat)) (b : Nat × Nat) (rest : List (Nat × Nat))
    (hG : ∀ c ∈ G, g c.1 = true) (hb : g b.1 = false) :
    specInsBy g n (G ++ b :: rest) = (if 0 < G.length then [(n, G.length)] else []) ++ specInsBy g (n + 1) rest := by
  by_cases hne : G = []
  · subst hne
    simp [specInsBy_base g n b rest hb]
  · rw [specInsBy_run g n G (b :: rest) hG hne (Or.inr ⟨b, rest, rfl, hb⟩), specInsBy_base g n b rest hb]
    have : 0 < G.length := List.length_pos_iff.2 hne
    simp [this]

theorem specInsBy_layout (g : Nat → Bool) (seg : Nat → List (Nat × Nat)) (base : Nat → Nat × Nat)
    (hseg : ∀ p, ∀ c ∈ seg p, g c.1 = true) (hbase : ∀ p, g (base p).1 = false) : ∀ (d n : Nat),
    specInsBy g n ((List.range' n d).flatMap (fun i => seg i ++ [base i]) ++ seg (n + d)) =
      (List.range' n (d + 1)).filterMap (runsOf seg) := by
  intro d
  induction d with
  | zero =>
    intro n
    simp only [List.range'_zero, List.flatMap_nil, List.nil_append, Nat.add_zero]
    by_cases hne : seg n = []
    · simp [runsOf, hne, specInsBy_nil]
    · have := specInsBy_run g n (seg n) [] (hseg n) hne (Or.inl rfl)
      rw [List.append_nil] at this
      rw [this, specInsBy_nil]
      have hpos : 0 < (seg n).length := List.length_pos_iff.2 hne
      simp [runsOf, hpos]
  | succ d ih =>
    intro n
    rw [List.range'_succ, List.flatMap_cons, List.append_assoc, List.append_assoc, List.singleton_append,
      specInsBy_chunk g n (seg n) (base n) _ (hseg n) (hbase n)]
    have e : n + (d + 1) = n + 1 + d := by omega
    rw [e, ih (n + 1), List.range'_succ (n := d + 1), List.filterMap_cons]
    by_cases hpos : 0 < (seg n).length
    · simp [runsOf, hpos]
    · simp [runsOf, hpos]


/-! ### Part 2 — the insertion records of the pair of a block of records -/

/-- the insertions of all records of the block located at reference position p (p reference bases to their left),
record by record, along each CIGAR -/
def insAt (block : List SamRec) (p : Nat) : List (Nat × List Nat) :=
  (block.flatMap fun r => insList r.seq r.cigar 0 r.pos).filter fun x => x.1 == p

/-- the number of bases the records of the block insert at reference position p -/
def insTotal (block : List SamRec) (p : Nat) : Nat := ((insAt block p).map fun x => x.2.length).sum

/-- the insertion records the property demands: one per reference position at which bases are inserted, with the
total number of bases inserted there, in ascending position -/
def samInsRecords (block : List SamRec) (L : Nat) : List (Nat × Nat) :=
  (List.range (L + 1)).filterMap fun p => if 0 < insTotal block p then some (p, insTotal block p) else none

/-- the columns of the specified pair -/
def pairCols (block : List SamRec) (ref : List Nat) : List (Nat × Nat) :=
  (List.range (ref.length + 1)).flatMap (PairSpec.colsAt block ref)

def insSeg (block : List SamRec) (p : Nat) : List (Nat × Nat) :=
  (insAt block p).flatMap fun x => x.2.map fun b => (dash, b)

def baseCol (block : List SamRec) (ref : List Nat) (p : Nat) : Nat × Nat := (ref.getD p 0, (flatCol block p).getD letN)

theorem insSeg_length (block : List SamRec) (p : Nat) : (insSeg block p).length = insTotal block p := by
  unfold insSeg insTotal
  induction insAt block p with
  | nil => rfl
  | cons x t ih => simp [List.flatMap_cons, ih]

theorem zip_fst_snd {α β : Type} : ∀ (l : List (α × β)), (l.map (·.1)).zip (l.map (·.2)) = l
  | [] => rfl
  | c :: t => by simp [zip_fst_snd t]

theorem specPair_zip (block : List SamRec) (ref : List Nat) :
    (specPair block ref).1.zip (specPair block ref).2 = pairCols block ref := by
  rw [PairSpec.specPair_eq]
  exact zip_fst_snd _

theorem colsAt_lt (block : List SamRec) (ref : List Nat) (p : Nat) (hp : p < ref.length) :
    PairSpec.colsAt block ref p = insSeg block p ++ [baseCol block ref p] := by
  unfold PairSpec.colsAt insSeg insAt baseCol
  simp [List.getD_eq_getElem?_getD, hp]

theorem colsAt_end (block : List SamRec) (ref : List Nat) :
    PairSpec.colsAt block ref ref.length = insSeg block ref.length := by
  unfold PairSpec.colsAt insSeg insAt
  simp

/-- the columns of the pair, position by position -/
theorem pairCols_layout (block : List SamRec) (ref : List Nat) :
    pairCols block ref =
      (List.range' 0 ref.length).flatMap (fun i => insSeg block i ++ [baseCol block ref i]) ++ insSeg block (0 + ref.length) := by
  unfold pairCols
  rw [List.range_succ, List.flatMap_append, ← List.range_eq_range', Nat.zero_add]
  congr 1
  · apply PairMulti.flatMap_congr'
    intro p hp
    exact colsAt_lt block ref p (List.mem_range.1 hp)
  · simp [colsAt_end]

theorem insSeg_gap (block : List SamRec) (p : Nat) : ∀ c ∈ insSeg block p, isGap c.1 = true := by
  intro c hc
  unfold insSeg at hc
  obtain ⟨x, _, hx⟩ := List.mem_flatMap.1 hc
  obtain ⟨b, _, rfl⟩ := List.mem_map.1 hx
  rfl

theorem insSeg_bases (block : List SamRec) (p : Nat) : ∀ c ∈ insSeg block p, ∃ r ∈ block, c.2 ∈ r.seq := by
  intro c hc
  unfold insSeg insAt at hc
  obtain ⟨x, hx, hcx⟩ := List.mem_flatMap.1 hc
  obtain ⟨b, hb, rfl⟩ := List.mem_map.1 hcx
  obtain ⟨r, hr, hxr⟩ := List.mem_flatMap.1 (List.mem_filter.1 hx).1
  exact ⟨r, hr, PairMulti.insList_bases _ _ _ _ _ hxr b hb⟩

theorem baseCol_noGap (block : List SamRec) (ref : List Nat) (hnd : NoDash ref) (p : Nat) :
    isGap (baseCol block ref p).1 = false := by
  unfold baseCol isGap
  simp only []
  by_cases hp : p < ref.length
  · have : ref.getD p 0 = ref[p] := by simp [List.getD_eq_getElem?_getD, hp]
    rw [this]
    have := hnd ref[p] (List.getElem_mem hp)
    unfold dash at this
    simpa using this
  · have : ref.getD p 0 = 0 := by simp [List.getD_eq_getElem?_getD, List.getElem?_eq_none (Nat.le_of_not_lt hp)]
    rw [this]; rfl

/-- no column of the pair is a gap in both rows: the pair is its own pairwise relation -/
theorem normalise_specPair (block : List SamRec) (ref : List Nat) (hnd : NoDash ref)
    (hseq : ∀ r ∈ block, ∀ b ∈ r.seq, b ≠ dash) :
    normalise (specPair block ref).1 (specPair block ref).2 = pairCols block ref := by
  rw [normalise_eq_filter, specPair_zip]
  rw [List.filter_eq_self]
  intro c hc
  unfold pairCols at hc
  obtain ⟨p, hp, hcp⟩ := List.mem_flatMap.1 hc
  have hp' : p < ref.length + 1 := List.mem_range.1 hp
  by_cases hlt : p < ref.length
  · rw [colsAt_lt block ref p hlt] at hcp
    rcases List.mem_append.1 hcp with h | h
    · obtain ⟨r, hr, hb⟩ := insSeg_bases block p c h
      have := hseq r hr c.2 hb
      have h2 : isGap c.2 = false := by unfold isGap; unfold dash at this; simpa using this
      simp [h2]
    · simp only [List.mem_singleton] at h
      subst h
      simp [baseCol_noGap block ref hnd p]
  · have : p = ref.length := by omega
    subst this
    rw [colsAt_end] at hcp
    obtain ⟨r, hr, hb⟩ := insSeg_bases block _ c hcp
    have := hseq r hr c.2 hb
    have h2 : isGap c.2 = false := by unfold isGap; unfold dash at this; simpa using this
    simp [h2]

/-- the insertion runs of the specified pair -/
theorem specIns_specPair (block : List SamRec) (ref : List Nat) (hnd : NoDash ref)
    (hseq : ∀ r ∈ block, ∀ b ∈ r.seq, b ≠ dash) :
    specIns 0 (normalise (specPair block ref).1 (specPair block ref).2) = samInsRecords block ref.length := by
  rw [normalise_specPair block ref hnd hseq, pairCols_layout]
  unfold specIns
  rw [specInsBy_layout isGap (insSeg block) (baseCol block ref) (insSeg_gap block) (baseCol_noGap block ref hnd) ref.length 0]
  unfold samInsRecords
  rw [← List.range_eq_range']
  congr 1
  funext p
  unfold runsOf
  rw [insSeg_length]

/-- **C05.sam_ins (specified pair)** — the `ins:` records reported on the encoded pair of a block: exactly one record per
reference position p (0 ≤ p ≤ length of the reference) at which the records of the block insert at least one base,
at p, with the total number of bases inserted at p by all records, in ascending p -/
theorem specPair_ins (block : List SamRec) (ref : List Nat) (hnd : NoDash ref)
    (hseq : ∀ r ∈ block, ∀ b ∈ r.seq, b ≠ dash) :
    insOf (getIndelsPair ((specPair block ref).1.map (enc false)) ((specPair block ref).2.map (enc false))) =
      samInsRecords block ref.length := by
  rw [ins_spec_all, specIns_specPair block ref hnd hseq]


/-! ### Part 3 — the maximal runs of a row given position by position

For a row `v a, v (a+1), …, v (a+m-1)` (the symbol opposite reference bases a+1 … a+m, 1-based), `specDelRunsBy g a`
lists exactly the maximal runs of positions whose symbol satisfies g, as (1-based first position, length), in
ascending order and separated by at least one position that does not satisfy g. -/

/-- (s, l) is a maximal run of `G` inside the 0-based positions a … a+m-1: 1-based start s, length l -/
def IsRun (G : Nat → Bool) (a m : Nat) (d : Nat × Nat) : Prop :=
  0 < d.2 ∧ a < d.1 ∧ d.1 - 1 + d.2 ≤ a + m ∧ (∀ k, d.1 - 1 ≤ k → k < d.1 - 1 + d.2 → G k = true) ∧
  (a < d.1 - 1 → G (d.1 - 2) = false) ∧ (d.1 - 1 + d.2 < a + m → G (d.1 - 1 + d.2) = false)

theorem takeWhile_range (g : Nat → Bool) (v : Nat → Nat) : ∀ (m a : Nat), ∃ tw, tw ≤ m ∧
    (∀ k, a ≤ k → k < a + tw → g (v k) = true) ∧ (tw < m → g (v (a + tw)) = false) ∧
    (((List.range' a m).map v).takeWhile g).length = tw ∧
    ((List.range' a m).map v).dropWhile g = (List.range' (a + tw) (m - tw)).map v := by
  intro m
  induction m with
  | zero => intro a; exact ⟨0, Nat.le_refl _, by intro k h1 h2; omega, by intro h; omega, by simp, by simp⟩
  | succ m ih =>
    intro a
    by_cases hg : g (v a) = true
    · obtain ⟨tw, h1, h2, h3, h4, h5⟩ := ih (a + 1)
      refine ⟨tw + 1, by omega, ?_, ?_, ?_, ?_⟩
      · intro k hk1 hk2
        by_cases hka : k = a
        · subst hka; exact hg
        · exact h2 k (by omega) (by omega)
      · intro h
        have := h3 (by omega)
        have e : a + (tw + 1) = a + 1 + tw := by omega
        rw [e]; exact this
      · rw [List.range'_succ, List.map_cons, List.takeWhile_cons, if_pos hg, List.length_cons, h4]
      · rw [List.range'_succ, List.map_cons, List.dropWhile_cons, if_pos hg, h5]
        have e1 : a + (tw + 1) = a + 1 + tw := by omega
        have e2 : m + 1 - (tw + 1) = m - tw := by omega
        rw [e1, e2]
    · have hg' : g (v a) = false := by simpa using hg
      refine ⟨0, by omega, by intro k h1 h2; omega, by intro _; exact hg', ?_, ?_⟩
      · rw [List.range'_succ, List.map_cons, List.takeWhile_cons]
        simp [hg']
      · rw [List.range'_succ, List.map_cons, List.dropWhile_cons]
        simp [hg', List.range'_succ]

theorem isRun_skip (G : Nat → Bool) (a m : Nat) (d : Nat × Nat) (hG : G a = false) :
    IsRun G (a + 1) m d ↔ IsRun G a (m + 1) d := by
  obtain ⟨s, l⟩ := d
  unfold IsRun
  simp only []
  constructor
  · rintro ⟨hl, hs, hb, hall, hleft, hright⟩
    refine ⟨hl, by omega, by omega, hall, ?_, fun h => hright (by omega)⟩
    intro h
    by_cases h2 : a + 1 < s - 1
    · exact hleft h2
    · have e : s - 2 = a := by omega
      rw [e]; exact hG
  · rintro ⟨hl, hs, hb, hall, hleft, hright⟩
    have hs' : a + 1 < s := by
      by_cases h : s = a + 1
      · have := hall a (by omega) (by omega)
        rw [hG] at this; cases this
      · omega
    exact ⟨hl, hs', by omega, hall, fun h => hleft (by omega), fun h => hright (by omega)⟩

theorem isRun_first (G : Nat → Bool) (a m tw : Nat) (d : Nat × Nat) (hG : G a = true) (htw : tw ≤ m)
    (hrun : ∀ k, a + 1 ≤ k → k < a + 1 + tw → G k = true) (hstop : tw < m → G (a + 1 + tw) = false) :
    (d = (a + 1, 1 + tw) ∨ IsRun G (a + 1 + tw) (m - tw) d) ↔ IsRun G a (m + 1) d := by
  obtain ⟨s, l⟩ := d
  unfold IsRun
  simp only [Prod.mk.injEq]
  constructor
  · rintro (⟨rfl, rfl⟩ | ⟨hl, hs, hb, hall, hleft, hright⟩)
    · refine ⟨by omega, by omega, by omega, ?_, by intro h; omega, ?_⟩
      · intro k hk1 hk2
        by_cases hka : k = a
        · subst hka; exact hG
        · exact hrun k (by omega) (by omega)
      · intro h
        have e : a + 1 - 1 + (1 + tw) = a + 1 + tw := by omega
        rw [e]; exact hstop (by omega)
    · refine ⟨hl, by omega, by omega, hall, ?_, fun h => hright (by omega)⟩
      intro h
      by_cases h2 : a + 1 + tw < s - 1
      · exact hleft h2
      · have e : s - 1 = a + 1 + tw := by omega
        have h3 := hall (s - 1) (Nat.le_refl _) (by omega)
        rw [e, hstop (by omega)] at h3
        cases h3
  · rintro ⟨hl, hs, hb, hall, hleft, hright⟩
    by_cases hsa : s = a + 1
    · left
      refine ⟨hsa, ?_⟩
      subst hsa
      by_cases h1 : l < 1 + tw
      · have := hright (by omega)
        rw [hrun _ (by omega) (by omega)] at this
        cases this
      · by_cases h2 : 1 + tw < l
        · have := hall (a + 1 + tw) (by omega) (by omega)
          rw [hstop (by omega)] at this
          cases this
        · omega
    · right
      have hleft' := hleft (by omega)
      have hfar : a + 1 + tw ≤ s - 2 := by
        by_cases h1 : s - 2 = a
        · rw [h1, hG] at hleft'; cases hleft'
        · by_cases h2 : s - 2 < a + 1 + tw
          · rw [hrun (s - 2) (by omega) h2] at hleft'; cases hleft'
          · omega
      exact ⟨hl, by omega, by omega, hall, fun _ => hleft', fun h => hright (by omega)⟩

theorem not_isRun_zero (G : Nat → Bool) (a : Nat) (d : Nat × Nat) : ¬ IsRun G a 0 d := by
  rintro ⟨hl, hs, hb, _⟩
  omega

/-- **the runs listed are the maximal runs** -/
theorem mem_specDelRunsBy (g : Nat → Bool) (v : Nat → Nat) : ∀ (N m a : Nat), m ≤ N → ∀ (d : Nat × Nat),
    d ∈ specDelRunsBy g a ((List.range' a m).map v) ↔ IsRun (fun k => g (v k)) a m d := by
  intro N
  induction N with
  | zero =>
    intro m a hm d
    have : m = 0 := by omega
    subst this
    simp only [List.range'_zero, List.map_nil]
    rw [specDelRunsBy]
    simp [not_isRun_zero]
  | succ N ih =>
    intro m a hm d
    cases m with
    | zero =>
      simp only [List.range'_zero, List.map_nil]
      rw [specDelRunsBy]
      simp [not_isRun_zero]
    | succ m =>
      by_cases hg : g (v a) = true
      · obtain ⟨tw, h1, h2, h3, h4, h5⟩ := takeWhile_range g v m (a + 1)
        rw [List.range'_succ, List.map_cons, specDelRunsBy]
        simp only [hg, if_true]
        rw [h4, h5, List.mem_cons, ih (m - tw) (a + 1 + tw) (by omega) d]
        exact isRun_first (fun k => g (v k)) a m tw d hg h1 h2 h3
      · have hg' : g (v a) = false := by simpa using hg
        rw [List.range'_succ, List.map_cons, specDelRunsBy]
        simp only [hg', Bool.false_eq_true, if_false]
        rw [ih m (a + 1) (by omega) d]
        exact isRun_skip (fun k => g (v k)) a m d hg'

/-- the runs come in ascending order, each ending at least two positions before the next begins -/
theorem specDelRunsBy_sorted (g : Nat → Bool) (v : Nat → Nat) : ∀ (N m a : Nat), m ≤ N →
    (specDelRunsBy g a ((List.range' a m).map v)).Pairwise (fun x y => x.1 + x.2 < y.1) := by
  intro N
  induction N with
  | zero =>
    intro m a hm
    have : m = 0 := by omega
    subst this
    simp only [List.range'_zero, List.map_nil]
    rw [specDelRunsBy]
    exact List.Pairwise.nil
  | succ N ih =>
    intro m a hm
    cases m with
    | zero =>
      simp only [List.range'_zero, List.map_nil]
      rw [specDelRunsBy]
      exact List.Pairwise.nil
    | succ m =>
      by_cases hg : g (v a) = true
      · obtain ⟨tw, h1, h2, h3, h4, h5⟩ := takeWhile_range g v m (a + 1)
        rw [List.range'_succ, List.map_cons, specDelRunsBy]
        simp only [hg, if_true]
        rw [h4, h5]
        refine List.Pairwise.cons ?_ (ih (m - tw) (a + 1 + tw) (by omega))
        intro y hy
        obtain ⟨hl, hs, hb, hall, _, _⟩ := (mem_specDelRunsBy g v (m - tw) (m - tw) (a + 1 + tw) (Nat.le_refl _) y).1 hy
        simp only []
        by_cases hy1 : y.1 - 1 = a + 1 + tw
        · have := hall (y.1 - 1) (Nat.le_refl _) (by omega)
          simp only [] at this
          rw [hy1, h3 (by omega)] at this
          cases this
        · omega
      · have hg' : g (v a) = false := by simpa using hg
        rw [List.range'_succ, List.map_cons, specDelRunsBy]
        simp only [hg', Bool.false_eq_true, if_false]
        exact ih m (a + 1) (by omega)

/-- two lists in strictly ascending order of their first components with the same members are equal -/
theorem sorted_ext : ∀ (l1 l2 : List (Nat × Nat)), l1.Pairwise (fun x y => x.1 < y.1) → l2.Pairwise (fun x y => x.1 < y.1) →
    (∀ d, d ∈ l1 ↔ d ∈ l2) → l1 = l2 := by
  intro l1
  induction l1 with
  | nil =>
    intro l2 _ _ h
    cases l2 with
    | nil => rfl
    | cons b t => exact absurd ((h b).2 List.mem_cons_self) (by simp)
  | cons a t1 ih =>
    intro l2 h1 h2 h
    cases l2 with
    | nil => exact absurd ((h a).1 List.mem_cons_self) (by simp)
    | cons b t2 =>
      have p1 := List.pairwise_cons.1 h1
      have p2 := List.pairwise_cons.1 h2
      have hab : a = b := by
        rcases List.mem_cons.1 ((h a).1 List.mem_cons_self) with e | ha
        · exact e
        · rcases List.mem_cons.1 ((h b).2 List.mem_cons_self) with e | hb
          · exact e.symm
          · have := p1.1 b hb
            have := p2.1 a ha
            omega
      subst hab
      congr 1
      apply ih t2 p1.2 p2.2
      intro d
      constructor
      · intro hd
        rcases List.mem_cons.1 ((h d).1 (List.mem_cons_of_mem _ hd)) with e | hd2
        · subst e; have := p1.1 d hd; omega
        · exact hd2
      · intro hd
        rcases List.mem_cons.1 ((h d).2 (List.mem_cons_of_mem _ hd)) with e | hd2
        · subst e; have := p2.1 d hd; omega
        · exact hd2


/-! ### Part 4 — the deletion records of the pair of a block of records -/

/-- the query symbol opposite reference position p (0-based): the verdict of the records, 'N' where no record covers p -/
def delCol (block : List SamRec) (p : Nat) : Nat := (flatCol block p).getD letN

/-- the deletion records the property demands: the maximal runs of reference positions whose column is '-' (some record
deletes the position and none aligns a base to it), as (1-based first position, length), without the runs that contain
the first or the last reference base -/
def samDelRecords (block : List SamRec) (L : Nat) : List (Nat × Nat) :=
  (specDelRunsBy isGap 0 ((List.range L).map (delCol block))).filter fun d => d.1 ≠ 1 ∧ d.1 + d.2 - 1 ≠ L

/-- (s, l), 1-based start and length, is a maximal run of deleted positions strictly inside the reference: positions
s … s+l-1 are deleted, positions s-1 and s+l exist and are not -/
def IsDelRun (block : List SamRec) (L : Nat) (d : Nat × Nat) : Prop :=
  2 ≤ d.1 ∧ 0 < d.2 ∧ d.1 + d.2 ≤ L ∧ (∀ k, d.1 - 1 ≤ k → k < d.1 - 1 + d.2 → flatCol block k = some dash) ∧
  flatCol block (d.1 - 2) ≠ some dash ∧ flatCol block (d.1 - 1 + d.2) ≠ some dash

theorem isGap_delCol (block : List SamRec) (p : Nat) : isGap (delCol block p) = true ↔ flatCol block p = some dash := by
  unfold delCol isGap dash
  cases flatCol block p with
  | none => simp [letN]
  | some b => simp

theorem isGap_delCol_false (block : List SamRec) (p : Nat) : isGap (delCol block p) = false ↔ flatCol block p ≠ some dash := by
  show _ ↔ ¬ (flatCol block p = some dash)
  rw [← isGap_delCol]
  cases isGap (delCol block p) <;> simp

theorem refColumnQuery_pairCols (block : List SamRec) (ref : List Nat) (hnd : NoDash ref) :
    refColumnQueryBy isGap (pairCols block ref) = (List.range ref.length).map (delCol block) := by
  have h := PairSpec.keepRefCols_flatMap block ref hnd (ref.length + 1)
  rw [Nat.min_eq_right (Nat.le_succ _)] at h
  unfold keepRefCols at h
  rw [zip_fst_snd] at h
  exact h

/-- **C05.sam_del (specified pair)** — the `del:` records reported on the encoded pair of a block -/
theorem specPair_del (block : List SamRec) (ref : List Nat) (hnd : NoDash ref) :
    delOf (getIndelsPair ((specPair block ref).1.map (enc false)) ((specPair block ref).2.map (enc false))) =
      samDelRecords block ref.length := by
  rw [del_spec_all, specPair_zip]
  unfold specDelsBy samDelRecords
  simp only [refColumnQuery_pairCols block ref hnd, List.length_map, List.length_range]

/-- the records are the maximal runs of deleted positions strictly inside the reference -/
theorem mem_samDelRecords (block : List SamRec) (L : Nat) (d : Nat × Nat) :
    d ∈ samDelRecords block L ↔ IsDelRun block L d := by
  unfold samDelRecords
  rw [List.mem_filter, List.range_eq_range', mem_specDelRunsBy isGap (delCol block) L L 0 (Nat.le_refl _) d]
  obtain ⟨s, l⟩ := d
  unfold IsRun IsDelRun
  simp only [decide_eq_true_eq, Nat.zero_add]
  constructor
  · rintro ⟨⟨hl, hs, hb, hall, hleft, hright⟩, h1, h2⟩
    refine ⟨by omega, hl, by omega, fun k hk1 hk2 => (isGap_delCol block k).1 (hall k hk1 hk2), ?_, ?_⟩
    · exact (isGap_delCol_false block _).1 (hleft (by omega))
    · exact (isGap_delCol_false block _).1 (hright (by omega))
  · rintro ⟨hs, hl, hb, hall, hleft, hright⟩
    refine ⟨⟨hl, by omega, by omega, fun k hk1 hk2 => (isGap_delCol block k).2 (hall k hk1 hk2), ?_, ?_⟩, by omega, by omega⟩
    · intro _; exact (isGap_delCol_false block _).2 hleft
    · intro _; exact (isGap_delCol_false block _).2 hright

/-- in ascending order, two consecutive records separated by at least one position that is not deleted -/
theorem samDelRecords_sorted (block : List SamRec) (L : Nat) :
    (samDelRecords block L).Pairwise (fun x y => x.1 + x.2 < y.1) := by
  unfold samDelRecords
  apply List.Pairwise.filter
  rw [List.range_eq_range']
  exact specDelRunsBy_sorted isGap (delCol block) L L 0 (Nat.le_refl _)

/-- the two facts determine the list -/
theorem samDelRecords_unique (block : List SamRec) (L : Nat) (X : List (Nat × Nat))
    (hs : X.Pairwise (fun x y => x.1 < y.1)) (hm : ∀ d, d ∈ X ↔ IsDelRun block L d) : X = samDelRecords block L := by
  apply sorted_ext X _ hs
  · exact List.Pairwise.imp (fun {x y} (h : x.1 + x.2 < y.1) => by omega) (samDelRecords_sorted block L)
  · intro d
    rw [hm, mem_samDelRecords]


/-! ### Part 5 — the records reported by `sam variants` for a block of well-formed records -/

theorem letters_noDash (block : List SamRec) (L : Nat) (hwf : ∀ r ∈ block, WFSamRec r L) :
    ∀ r ∈ block, ∀ b ∈ r.seq, b ≠ dash := by
  intro r hr b hb
  have := letter_ge b ((hwf r hr).letters b hb)
  unfold dash; omega

/-- **C05.sam_ins** — `sam variants`, insertions: for every block of well-formed records of one query, the `ins:` records
reported on the encoded pair are: one record per reference position p at which the records of the block insert at
least one base, at p (the number of reference bases to the left), with the total number of bases inserted at p by all
records of the block (adjacent insertion columns form one run), in ascending p -/
theorem sam_ins (block : List SamRec) (ref : List Nat) (hnd : NoDash ref) (hge : ∀ b ∈ ref, star ≤ b)
    (hwf : ∀ r ∈ block, WFSamRec r ref.length) :
    insOf (getIndelsPair ((blockToSeqPair block ref).1.map (enc false)) ((blockToSeqPair block ref).2.map (enc false))) =
      samInsRecords block ref.length := by
  rw [PairMulti.blockToSeqPair_eq_specPair block ref hnd hge hwf]
  exact specPair_ins block ref hnd (letters_noDash block ref.length hwf)

/-- **C05.sam_del** — `sam variants`, deletions: the `del:` records are the maximal runs of reference positions whose
column is '-', without the runs that contain the first or the last reference base -/
theorem sam_del (block : List SamRec) (ref : List Nat) (hnd : NoDash ref) (hge : ∀ b ∈ ref, star ≤ b)
    (hwf : ∀ r ∈ block, WFSamRec r ref.length) :
    delOf (getIndelsPair ((blockToSeqPair block ref).1.map (enc false)) ((blockToSeqPair block ref).2.map (enc false))) =
      samDelRecords block ref.length := by
  rw [PairMulti.blockToSeqPair_eq_specPair block ref hnd hge hwf]
  exact specPair_del block ref hnd

/-- membership form of the insertion records -/
theorem mem_samInsRecords (block : List SamRec) (L : Nat) (d : Nat × Nat) :
    d ∈ samInsRecords block L ↔ d.1 ≤ L ∧ 0 < d.2 ∧ d.2 = insTotal block d.1 := by
  unfold samInsRecords
  rw [List.mem_filterMap]
  obtain ⟨p, n⟩ := d
  simp only [List.mem_range]
  constructor
  · rintro ⟨a, ha, h⟩
    by_cases hp : 0 < insTotal block a
    · rw [if_pos hp] at h
      simp only [Option.some.injEq, Prod.mk.injEq] at h
      obtain ⟨rfl, rfl⟩ := h
      exact ⟨by omega, hp, rfl⟩
    · rw [if_neg hp] at h; cases h
  · rintro ⟨h1, h2, h3⟩
    refine ⟨p, by omega, ?_⟩
    rw [← h3, if_pos h2]

/-- the total at p in the vocabulary of PairMulti: the widths of all insertions of the block located at p -/
theorem insTotal_eq_tot (block : List SamRec) (p : Nat) :
    insTotal block p = PairMulti.tot ((PairMulti.allIns block).filter fun x => x.1 == p) := by
  unfold insTotal insAt PairMulti.tot
  rw [PairMulti.spec_inss, List.filter_map, List.map_map]
  rfl

/-- the records of a well-formed block insert nothing beyond the end of the reference -/
theorem insTotal_pos_le (block : List SamRec) (L : Nat) (hwf : ∀ r ∈ block, WFSamRec r L) (p : Nat)
    (hp : 0 < insTotal block p) : p ≤ L := by
  unfold insTotal at hp
  cases hI : insAt block p with
  | nil => rw [hI] at hp; simp at hp
  | cons x t =>
    have hx : x ∈ insAt block p := by rw [hI]; exact List.mem_cons_self
    unfold insAt at hx
    obtain ⟨hx1, hx2⟩ := List.mem_filter.1 hx
    obtain ⟨r, hr, hxr⟩ := List.mem_flatMap.1 hx1
    have h1 := PairMulti.insList_le _ _ 0 _ _ hxr
    have h2 := (PairMulti.wf_ins r L (hwf r hr)).2
    have : x.1 = p := by simpa using hx2
    omega

/-- **C05.sam_ins, membership form** — `ins:p:n` is reported iff the records of the block insert n > 0 bases in all at p -/
theorem sam_ins_mem (block : List SamRec) (ref : List Nat) (hnd : NoDash ref) (hge : ∀ b ∈ ref, star ≤ b)
    (hwf : ∀ r ∈ block, WFSamRec r ref.length) (p n : Nat) :
    (p, n) ∈ insOf (getIndelsPair ((blockToSeqPair block ref).1.map (enc false)) ((blockToSeqPair block ref).2.map (enc false))) ↔
      0 < n ∧ n = insTotal block p := by
  rw [sam_ins block ref hnd hge hwf, mem_samInsRecords]
  simp only []
  constructor
  · rintro ⟨_, h2, h3⟩; exact ⟨h2, h3⟩
  · rintro ⟨h2, h3⟩
    exact ⟨insTotal_pos_le block ref.length hwf p (by omega), h2, h3⟩

/-- what "the column of position p is '-'" means for the records: some record deletes p and none aligns a base to it -/
theorem flatCol_dash_iff (block : List SamRec) (p : Nat)
    (hb : ∀ r ∈ block, covAt r p ≠ some (.base dash)) :
    flatCol block p = some dash ↔ (∃ r ∈ block, covAt r p = some .del) ∧ (∀ r ∈ block, ∀ b, covAt r p ≠ some (.base b)) := by
  rw [flatCol_eq]
  constructor
  · intro h
    split at h
    · rename_i b he
      exfalso
      have hb1 : b ∈ ((block.filterMap fun r => covAt r p).filterMap baseOf).eraseDups := by rw [he]; exact List.mem_cons_self
      obtain ⟨c, hc, hcb⟩ := List.mem_filterMap.1 (List.mem_eraseDups.1 hb1)
      obtain ⟨r, hr, hrc⟩ := List.mem_filterMap.1 hc
      cases c with
      | del => cases hcb
      | base b' =>
        simp only [baseOf, Option.some.injEq] at hcb
        subst hcb
        simp only [Option.some.injEq] at h
        subst h
        exact hb r hr hrc
    · exfalso; revert h; decide
    · rename_i he
      have hnil := (eraseDups_eq_nil _).1 he
      split at h
      · rename_i hc
        constructor
        · have := List.contains_iff_mem.1 hc
          obtain ⟨r, hr, hrc⟩ := List.mem_filterMap.1 this
          exact ⟨r, hr, hrc⟩
        · intro r hr b hrb
          have h1 : Cov.base b ∈ block.filterMap fun r => covAt r p := List.mem_filterMap.2 ⟨r, hr, hrb⟩
          have h2 : b ∈ (block.filterMap fun r => covAt r p).filterMap baseOf := List.mem_filterMap.2 ⟨_, h1, rfl⟩
          rw [hnil] at h2
          cases h2
      · cases h
  · rintro ⟨⟨r, hr, hrc⟩, hnb⟩
    have hnil : (block.filterMap fun r => covAt r p).filterMap baseOf = [] := by
      rw [List.filterMap_eq_nil_iff]
      intro c hc
      obtain ⟨r', hr', hrc'⟩ := List.mem_filterMap.1 hc
      cases c with
      | del => rfl
      | base b => exact absurd hrc' (hnb r' hr' b)
    rw [hnil]
    have hc : (block.filterMap fun r => covAt r p).contains Cov.del = true :=
      List.contains_iff_mem.2 (List.mem_filterMap.2 ⟨r, hr, hrc⟩)
    simp only [List.eraseDups_nil, hc, if_true]

theorem wf_no_dash_base (block : List SamRec) (L : Nat) (hwf : ∀ r ∈ block, WFSamRec r L) (p : Nat) :
    ∀ r ∈ block, covAt r p ≠ some (.base dash) := by
  intro r hr h
  have := covAt_base_letter r L (hwf r hr) p dash h
  rw [dash_not_letter] at this
  cases this


/-- position p is deleted by the block: some record deletes it and none aligns a base to it -/
def Deleted (block : List SamRec) (p : Nat) : Prop :=
  (∃ r ∈ block, covAt r p = some .del) ∧ (∀ r ∈ block, ∀ b, covAt r p ≠ some (.base b))

theorem flatCol_dash_iff_deleted (block : List SamRec) (L : Nat) (hwf : ∀ r ∈ block, WFSamRec r L) (p : Nat) :
    flatCol block p = some dash ↔ Deleted block p :=
  flatCol_dash_iff block p (wf_no_dash_base block L hwf p)

/-- **C05.sam_del, membership form** — `del:s:l` is reported iff reference positions s … s+l-1 (1-based) are deleted
(some record deletes them and none aligns a base), s > 1, s+l-1 is not the last position, and neither position s-1 nor
position s+l is deleted.  A position that no record covers is written 'N' in the pair, so it ends a run. -/
theorem sam_del_mem (block : List SamRec) (ref : List Nat) (hnd : NoDash ref) (hge : ∀ b ∈ ref, star ≤ b)
    (hwf : ∀ r ∈ block, WFSamRec r ref.length) (s l : Nat) :
    (s, l) ∈ delOf (getIndelsPair ((blockToSeqPair block ref).1.map (enc false)) ((blockToSeqPair block ref).2.map (enc false))) ↔
      2 ≤ s ∧ 0 < l ∧ s + l ≤ ref.length ∧ (∀ k, s - 1 ≤ k → k < s - 1 + l → Deleted block k) ∧
      ¬ Deleted block (s - 2) ∧ ¬ Deleted block (s - 1 + l) := by
  rw [sam_del block ref hnd hge hwf, mem_samDelRecords]
  unfold IsDelRun
  simp only [Ne, flatCol_dash_iff_deleted block ref.length hwf]

/-- the `del:` records come in ascending order and do not touch each other -/
theorem sam_del_sorted (block : List SamRec) (ref : List Nat) (hnd : NoDash ref) (hge : ∀ b ∈ ref, star ≤ b)
    (hwf : ∀ r ∈ block, WFSamRec r ref.length) :
    (delOf (getIndelsPair ((blockToSeqPair block ref).1.map (enc false)) ((blockToSeqPair block ref).2.map (enc false)))).Pairwise
      (fun x y => x.1 + x.2 < y.1) := by
  rw [sam_del block ref hnd hge hwf]
  exact samDelRecords_sorted block ref.length


/-! ### Part 6 — one record, operator by operator

`refLen pre` is the number of reference bases the operators `pre` consume (M D N = X), `qLen pre` the number of query
bases (M I S = X): the operator that follows `pre` in the CIGAR of a record at 0-based position `pos` acts at
reference position `pos + refLen pre`, i.e. with `pos + refLen pre` reference bases to its left. -/

def refLen : List (Nat × Nat) → Nat
  | [] => 0
  | (op, len) :: rest => (if op = 0 ∨ op = 2 ∨ op = 3 ∨ op = 7 ∨ op = 8 then len else 0) + refLen rest

def qLen : List (Nat × Nat) → Nat
  | [] => 0
  | (op, len) :: rest => (if op = 0 ∨ op = 1 ∨ op = 4 ∨ op = 7 ∨ op = 8 then len else 0) + qLen rest

theorem refLen_append (a b : List (Nat × Nat)) : refLen (a ++ b) = refLen a + refLen b := by
  induction a with
  | nil => simp [refLen]
  | cons c t ih => obtain ⟨op, len⟩ := c; simp only [List.cons_append, refLen, ih]; omega

theorem refLen_cons_of (op len : Nat) (t : List (Nat × Nat)) (h : op = 0 ∨ op = 2 ∨ op = 3 ∨ op = 7 ∨ op = 8) :
    refLen ((op, len) :: t) = len + refLen t := by simp [refLen, h]

theorem refLen_eq_refSpan : ∀ (cigar : List (Nat × Nat)), refLen cigar = refSpan samNoIns cigar := by
  intro cigar
  induction cigar with
  | nil => rfl
  | cons c rest ih =>
    obtain ⟨op, len⟩ := c
    simp only [refLen, refSpan, ih]
    rcases opEntry_noins_cases op with ⟨ho, he⟩ | ⟨ho, he⟩ | ⟨ho, he⟩ | ⟨ho, he⟩ | ⟨ho, he⟩ | ⟨ho, he⟩ <;> rw [he]
    · have : op = 0 ∨ op = 2 ∨ op = 3 ∨ op = 7 ∨ op = 8 := by omega
      simp [this]
    · have : op = 0 ∨ op = 2 ∨ op = 3 ∨ op = 7 ∨ op = 8 := by omega
      simp [this]
    · have : op = 0 ∨ op = 2 ∨ op = 3 ∨ op = 7 ∨ op = 8 := by omega
      simp [this]
    · have : ¬ (op = 0 ∨ op = 2 ∨ op = 3 ∨ op = 7 ∨ op = 8) := by omega
      simp [this]
    · have : ¬ (op = 0 ∨ op = 2 ∨ op = 3 ∨ op = 7 ∨ op = 8) := by omega
      simp [this]
    · have : ¬ (op = 0 ∨ op = 2 ∨ op = 3 ∨ op = 7 ∨ op = 8) := by omega
      simp [this]

/-! #### insertions -/

theorem insertionsOf_append : ∀ (pre rest : List (Nat × Nat)) (pos : Nat),
    insertionsOf pos (pre ++ rest) = insertionsOf pos pre ++ insertionsOf (pos + refLen pre) rest := by
  intro pre
  induction pre with
  | nil => intro rest pos; simp [insertionsOf, refLen]
  | cons c t ih =>
    intro rest pos
    obtain ⟨op, len⟩ := c
    simp only [List.cons_append, insertionsOf, refLen]
    by_cases hcr : op = 0 ∨ op = 2 ∨ op = 3 ∨ op = 7 ∨ op = 8
    · simp only [hcr, if_true]
      rw [ih, List.append_assoc, Nat.add_assoc]
    · simp only [hcr, if_false]
      rw [ih, List.append_assoc, Nat.zero_add]

theorem insertionsOf_ge : ∀ (cigar : List (Nat × Nat)) (pos : Nat), ∀ x ∈ insertionsOf pos cigar, pos ≤ x.1 := by
  intro cigar
  induction cigar with
  | nil => intro pos x hx; simp [insertionsOf] at hx
  | cons c t ih =>
    intro pos x hx
    obtain ⟨op, len⟩ := c
    simp only [insertionsOf] at hx
    rcases List.mem_append.1 hx with h | h
    · by_cases h1 : op = 1
      · simp only [h1, if_true, List.mem_singleton] at h
        subst h; exact Nat.le_refl _
      · simp [h1] at h
    · have := ih _ x h
      split at this <;> omega

theorem insertionsOf_le : ∀ (cigar : List (Nat × Nat)) (pos : Nat), ∀ x ∈ insertionsOf pos cigar, x.1 ≤ pos + refLen cigar := by
  intro cigar
  induction cigar with
  | nil => intro pos x hx; simp [insertionsOf] at hx
  | cons c t ih =>
    intro pos x hx
    obtain ⟨op, len⟩ := c
    simp only [insertionsOf] at hx
    simp only [refLen]
    rcases List.mem_append.1 hx with h | h
    · by_cases h1 : op = 1
      · simp only [h1, if_true, List.mem_singleton] at h
        subst h; simp only []; omega
      · simp [h1] at h
    · have := ih _ x h
      by_cases hcr : op = 0 ∨ op = 2 ∨ op = 3 ∨ op = 7 ∨ op = 8
      · simp only [hcr, if_true] at this ⊢; omega
      · simp only [hcr, if_false] at this ⊢; omega

/-- the number of bases the `I` operators of a CIGAR insert at reference position p -/
def cigarInsTotal (pos : Nat) (cigar : List (Nat × Nat)) (p : Nat) : Nat :=
  (((insertionsOf pos cigar).filter fun x => x.1 == p).map fun x => x.2).sum

theorem insTotal_single (rc : SamRec) (hq : qSpan samInsRef rc.cigar ≤ rc.seq.length) (p : Nat) :
    insTotal [rc] p = cigarInsTotal rc.pos rc.cigar p := by
  unfold insTotal insAt cigarInsTotal
  rw [PairMulti.insertionsOf_eq rc.seq rc.cigar 0 rc.pos (by omega)]
  simp only [List.flatMap_cons, List.flatMap_nil, List.append_nil]
  rw [List.filter_map, List.map_map]
  rfl

theorem mem_le_sum : ∀ (l : List Nat) (n : Nat), n ∈ l → n ≤ l.sum := by
  intro l
  induction l with
  | nil => intro n h; cases h
  | cons a t ih =>
    intro n h
    rw [List.sum_cons]
    rcases List.mem_cons.1 h with rfl | h
    · omega
    · have := ih n h; omega

/-- **C05.sam_ins, one record** — the `ins:` records of a query aligned by one record, from its CIGAR alone -/
theorem single_ins (rc : SamRec) (ref : List Nat) (hnd : NoDash ref) (hge : ∀ b ∈ ref, star ≤ b)
    (hwf : WFSamRec rc ref.length) :
    insOf (getIndelsPair ((blockToSeqPair [rc] ref).1.map (enc false)) ((blockToSeqPair [rc] ref).2.map (enc false))) =
      (List.range (ref.length + 1)).filterMap fun p =>
        if 0 < cigarInsTotal rc.pos rc.cigar p then some (p, cigarInsTotal rc.pos rc.cigar p) else none := by
  have hwf' : ∀ r ∈ [rc], WFSamRec r ref.length := by
    intro r hr; simp only [List.mem_singleton] at hr; subst hr; exact hwf
  rw [sam_ins [rc] ref hnd hge hwf']
  unfold samInsRecords
  have hq := (PairMulti.wf_ins rc ref.length hwf).1
  simp only [insTotal_single rc hq]

/-- every `I` operator with n > 0 bases, preceded by operators that consume P reference bases, is reported at
`pos + P` with at least n bases (the total of all `I` operators located there) -/
theorem single_ins_op (rc : SamRec) (ref : List Nat) (hnd : NoDash ref) (hge : ∀ b ∈ ref, star ≤ b)
    (hwf : WFSamRec rc ref.length) (pre post : List (Nat × Nat)) (n : Nat) (hc : rc.cigar = pre ++ (1, n) :: post) (hn : 0 < n) :
    ∃ m, n ≤ m ∧ (rc.pos + refLen pre, m) ∈
      insOf (getIndelsPair ((blockToSeqPair [rc] ref).1.map (enc false)) ((blockToSeqPair [rc] ref).2.map (enc false))) := by
  have hwf' : ∀ r ∈ [rc], WFSamRec r ref.length := by
    intro r hr; simp only [List.mem_singleton] at hr; subst hr; exact hwf
  have hq := (PairMulti.wf_ins rc ref.length hwf).1
  have hmem : (rc.pos + refLen pre, n) ∈ insertionsOf rc.pos rc.cigar := by
    rw [hc, insertionsOf_append]
    apply List.mem_append_right
    simp [insertionsOf]
  have hle : n ≤ cigarInsTotal rc.pos rc.cigar (rc.pos + refLen pre) := by
    unfold cigarInsTotal
    apply mem_le_sum
    apply List.mem_map.2
    exact ⟨(rc.pos + refLen pre, n), List.mem_filter.2 ⟨hmem, by simp⟩, rfl⟩
  refine ⟨cigarInsTotal rc.pos rc.cigar (rc.pos + refLen pre), hle, ?_⟩
  rw [sam_ins_mem [rc] ref hnd hge hwf', insTotal_single rc hq]
  exact ⟨by omega, rfl⟩

/-- an `I` operator between two operators that consume reference bases (the usual `…M nI M…`) is reported exactly:
`ins:(pos + P):n` -/
theorem single_ins_op_exact (rc : SamRec) (ref : List Nat) (hnd : NoDash ref) (hge : ∀ b ∈ ref, star ≤ b)
    (hwf : WFSamRec rc ref.length) (pre post : List (Nat × Nat)) (o1 l1 n o2 l2 : Nat)
    (hc : rc.cigar = pre ++ (o1, l1) :: (1, n) :: (o2, l2) :: post) (hn : 0 < n)
    (ho1 : o1 = 0 ∨ o1 = 2 ∨ o1 = 3 ∨ o1 = 7 ∨ o1 = 8) (hl1 : 0 < l1)
    (ho2 : o2 = 0 ∨ o2 = 2 ∨ o2 = 3 ∨ o2 = 7 ∨ o2 = 8) (hl2 : 0 < l2) :
    (rc.pos + refLen pre + l1, n) ∈
      insOf (getIndelsPair ((blockToSeqPair [rc] ref).1.map (enc false)) ((blockToSeqPair [rc] ref).2.map (enc false))) := by
  have hwf' : ∀ r ∈ [rc], WFSamRec r ref.length := by
    intro r hr; simp only [List.mem_singleton] at hr; subst hr; exact hwf
  have hq := (PairMulti.wf_ins rc ref.length hwf).1
  rw [sam_ins_mem [rc] ref hnd hge hwf', insTotal_single rc hq]
  refine ⟨hn, ?_⟩
  have h1 : ¬ o1 = 1 := by omega
  have h2 : ¬ o2 = 1 := by omega
  have hlist : (insertionsOf rc.pos rc.cigar).filter (fun x => x.1 == rc.pos + refLen pre + l1) = [(rc.pos + refLen pre + l1, n)] := by
    rw [hc, insertionsOf_append]
    have h11 : ¬ ((1 : Nat) = 0 ∨ (1 : Nat) = 2 ∨ (1 : Nat) = 3 ∨ (1 : Nat) = 7 ∨ (1 : Nat) = 8) := by omega
    simp only [insertionsOf, h1, h2, ho1, ho2, h11, if_true, if_false, List.nil_append, List.singleton_append]
    rw [List.filter_append, List.filter_cons]
    have ha : (insertionsOf rc.pos pre).filter (fun x => x.1 == rc.pos + refLen pre + l1) = [] := by
      apply PairMulti.filter_nil_of
      intro y hy
      have := insertionsOf_le pre rc.pos y hy
      simp; omega
    have hb : (insertionsOf (rc.pos + refLen pre + l1 + l2) post).filter (fun x => x.1 == rc.pos + refLen pre + l1) = [] := by
      apply PairMulti.filter_nil_of
      intro y hy
      have := insertionsOf_ge post _ y hy
      simp; omega
    rw [ha, hb]
    simp
  unfold cigarInsTotal
  rw [hlist]
  simp


/-! #### deletions, skipped regions, aligned bases -/

theorem opClass (op : Nat) :
    (op = 0 ∨ op = 7 ∨ op = 8) ∧ isAligned op = true ∨
    op = 2 ∧ isAligned op = false ∨
    op = 3 ∧ isAligned op = false ∨
    (op = 1 ∨ op = 4) ∧ isAligned op = false ∧ isQueryOnly op = true ∨
    (op = 5 ∨ op = 6 ∨ 9 ≤ op) ∧ isAligned op = false ∧ (op == 2) = false ∧ (op == 3) = false ∧ isQueryOnly op = false := by
  by_cases h : op < 9
  · have : op = 0 ∨ op = 1 ∨ op = 2 ∨ op = 3 ∨ op = 4 ∨ op = 5 ∨ op = 6 ∨ op = 7 ∨ op = 8 := by omega
    rcases this with rfl | rfl | rfl | rfl | rfl | rfl | rfl | rfl | rfl <;> simp [isAligned, isQueryOnly]
  · right; right; right; right
    refine ⟨by omega, ?_, ?_, ?_, ?_⟩
    · simp [isAligned]; omega
    · simp; omega
    · simp; omega
    · simp [isQueryOnly]; omega

theorem covList_aligned (seq : List Nat) (op len : Nat) (rest : List (Nat × Nat)) (q r : Nat) (h : op = 0 ∨ op = 7 ∨ op = 8) :
    covList seq ((op, len) :: rest) q r =
      ((List.range len).map fun k => (r + k, Cov.base (seq.getD (q + k) 0))) ++ covList seq rest (q + len) (r + len) := by
  rcases h with rfl | rfl | rfl <;> rfl

theorem covList_D (seq : List Nat) (len : Nat) (rest : List (Nat × Nat)) (q r : Nat) :
    covList seq ((2, len) :: rest) q r = ((List.range len).map fun k => (r + k, Cov.del)) ++ covList seq rest q (r + len) := rfl

theorem covList_N (seq : List Nat) (len : Nat) (rest : List (Nat × Nat)) (q r : Nat) :
    covList seq ((3, len) :: rest) q r = covList seq rest q (r + len) := rfl

theorem covList_IS (seq : List Nat) (op len : Nat) (rest : List (Nat × Nat)) (q r : Nat) (h : op = 1 ∨ op = 4) :
    covList seq ((op, len) :: rest) q r = covList seq rest (q + len) r := by
  rcases h with rfl | rfl <;> rfl

theorem covList_other (seq : List Nat) (op len : Nat) (rest : List (Nat × Nat)) (q r : Nat) (h : op = 5 ∨ op = 6 ∨ 9 ≤ op) :
    covList seq ((op, len) :: rest) q r = covList seq rest q r := by
  rcases opClass op with ⟨ho, _⟩ | ⟨ho, _⟩ | ⟨ho, _⟩ | ⟨ho, _⟩ | ⟨_, h1, h2, h3, h4⟩
  · exfalso; omega
  · exfalso; omega
  · exfalso; omega
  · exfalso; omega
  · simp only [covList, h1, h2, h3, h4, Bool.false_eq_true, if_false]

/-- the alignment relation of a CIGAR, cut after the operators `pre` -/
theorem covList_append (seq : List Nat) : ∀ (pre rest : List (Nat × Nat)) (q r : Nat),
    covList seq (pre ++ rest) q r = covList seq pre q r ++ covList seq rest (q + qLen pre) (r + refLen pre) := by
  intro pre
  induction pre with
  | nil => intro rest q r; simp [covList, qLen, refLen]
  | cons c t ih =>
    intro rest q r
    obtain ⟨op, len⟩ := c
    simp only [List.cons_append, qLen, refLen]
    rcases opClass op with ⟨ho, _⟩ | ⟨ho, _⟩ | ⟨ho, _⟩ | ⟨ho, _⟩ | ⟨ho, _⟩
    · have h1 : op = 0 ∨ op = 1 ∨ op = 4 ∨ op = 7 ∨ op = 8 := by omega
      have h2 : op = 0 ∨ op = 2 ∨ op = 3 ∨ op = 7 ∨ op = 8 := by omega
      rw [covList_aligned _ _ _ _ _ _ ho, covList_aligned _ _ _ _ _ _ ho, ih]
      simp only [h1, h2, if_true, List.append_assoc, Nat.add_assoc]
    · subst ho
      rw [covList_D, covList_D, ih]
      simp [List.append_assoc, Nat.add_assoc]
    · subst ho
      rw [covList_N, covList_N, ih]
      simp [Nat.add_assoc]
    · have h1 : op = 0 ∨ op = 1 ∨ op = 4 ∨ op = 7 ∨ op = 8 := by omega
      have h2 : ¬ (op = 0 ∨ op = 2 ∨ op = 3 ∨ op = 7 ∨ op = 8) := by omega
      rw [covList_IS _ _ _ _ _ _ ho, covList_IS _ _ _ _ _ _ ho, ih]
      simp only [h1, h2, if_true, if_false, Nat.add_assoc, Nat.zero_add]
    · have h1 : ¬ (op = 0 ∨ op = 1 ∨ op = 4 ∨ op = 7 ∨ op = 8) := by omega
      have h2 : ¬ (op = 0 ∨ op = 2 ∨ op = 3 ∨ op = 7 ∨ op = 8) := by omega
      rw [covList_other _ _ _ _ _ _ ho, covList_other _ _ _ _ _ _ ho, ih]
      simp only [h1, h2, if_false, Nat.zero_add]

/-- what a record says about a position spanned by the operator that follows `pre` in its CIGAR -/
theorem covAt_op (rc : SamRec) (pre rest : List (Nat × Nat)) (hc : rc.cigar = pre ++ rest) (p : Nat)
    (hp : rc.pos + refLen pre ≤ p) :
    covAt rc p = covLookup (covList rc.seq rest (qLen pre) (rc.pos + refLen pre)) p := by
  rw [covAt_eq_lookup]
  unfold covOf
  rw [hc, covList_append, Nat.zero_add]
  apply covLookup_append_right
  intro e he
  have := covList_lt rc.seq pre 0 rc.pos e he
  rw [← refLen_eq_refSpan] at this
  omega

/-- a `D` operator deletes the reference positions it spans -/
theorem covAt_D (rc : SamRec) (pre post : List (Nat × Nat)) (n : Nat) (hc : rc.cigar = pre ++ (2, n) :: post) (k : Nat) (hk : k < n) :
    covAt rc (rc.pos + refLen pre + k) = some Cov.del := by
  rw [covAt_op rc pre _ hc _ (by omega), covList_D]
  rw [covLookup_append_left _ _ _ ⟨(rc.pos + refLen pre + k, Cov.del), by
    apply List.mem_map.2; exact ⟨k, List.mem_range.2 hk, rfl⟩, rfl⟩]
  exact covLookup_block (fun _ => Cov.del) (rc.pos + refLen pre) n k hk

/-- an `N` operator (skipped region) says nothing about the reference positions it spans -/
theorem covAt_N (rc : SamRec) (pre post : List (Nat × Nat)) (n : Nat) (hc : rc.cigar = pre ++ (3, n) :: post) (k : Nat) (hk : k < n) :
    covAt rc (rc.pos + refLen pre + k) = none := by
  rw [covAt_op rc pre _ hc _ (by omega), covList_N]
  apply covLookup_none_of_gt
  intro e he
  have := covList_ge rc.seq post _ _ e he
  omega

/-- an `M`, `=` or `X` operator aligns a query base to each reference position it spans -/
theorem covAt_M (rc : SamRec) (pre post : List (Nat × Nat)) (op n : Nat) (ho : op = 0 ∨ op = 7 ∨ op = 8)
    (hc : rc.cigar = pre ++ (op, n) :: post) (k : Nat) (hk : k < n) :
    covAt rc (rc.pos + refLen pre + k) = some (Cov.base (rc.seq.getD (qLen pre + k) 0)) := by
  rw [covAt_op rc pre _ hc _ (by omega), covList_aligned _ _ _ _ _ _ ho]
  rw [covLookup_append_left _ _ _ ⟨(rc.pos + refLen pre + k, Cov.base (rc.seq.getD (qLen pre + k) 0)), by
    apply List.mem_map.2; exact ⟨k, List.mem_range.2 hk, rfl⟩, rfl⟩]
  exact covLookup_block (fun k => Cov.base (rc.seq.getD (qLen pre + k) 0)) (rc.pos + refLen pre) n k hk

theorem deleted_single (rc : SamRec) (p : Nat) : Deleted [rc] p ↔ covAt rc p = some Cov.del := by
  unfold Deleted
  constructor
  · rintro ⟨⟨r, hr, h⟩, _⟩
    simp only [List.mem_singleton] at hr
    subst hr; exact h
  · intro h
    refine ⟨⟨rc, List.mem_singleton.2 rfl, h⟩, ?_⟩
    intro r hr b hb
    simp only [List.mem_singleton] at hr
    subst hr
    rw [h] at hb
    cases hb

/-- **C05.sam_del, one record** — a `D` operator of n > 0 bases between two operators that align bases (`…M nD M…`),
preceded by operators that consume P reference bases in all, is reported as `del:(pos + P + 1):n` (pos 0-based) -/
theorem single_del_op (rc : SamRec) (ref : List Nat) (hnd : NoDash ref) (hge : ∀ b ∈ ref, star ≤ b)
    (hwf : WFSamRec rc ref.length) (pre post : List (Nat × Nat)) (o1 l1 n o2 l2 : Nat)
    (hc : rc.cigar = pre ++ (o1, l1) :: (2, n) :: (o2, l2) :: post) (hn : 0 < n)
    (ho1 : o1 = 0 ∨ o1 = 7 ∨ o1 = 8) (hl1 : 0 < l1) (ho2 : o2 = 0 ∨ o2 = 7 ∨ o2 = 8) (hl2 : 0 < l2) :
    (rc.pos + refLen pre + l1 + 1, n) ∈
      delOf (getIndelsPair ((blockToSeqPair [rc] ref).1.map (enc false)) ((blockToSeqPair [rc] ref).2.map (enc false))) := by
  have hwf' : ∀ r ∈ [rc], WFSamRec r ref.length := by
    intro r hr; simp only [List.mem_singleton] at hr; subst hr; exact hwf
  rw [sam_del_mem [rc] ref hnd hge hwf']
  have hr := hwf.hr
  rw [← refLen_eq_refSpan, hc, refLen_append] at hr
  have h1r : o1 = 0 ∨ o1 = 2 ∨ o1 = 3 ∨ o1 = 7 ∨ o1 = 8 := by omega
  have h2r : o2 = 0 ∨ o2 = 2 ∨ o2 = 3 ∨ o2 = 7 ∨ o2 = 8 := by omega
  have h22 : (2 : Nat) = 0 ∨ (2 : Nat) = 2 ∨ (2 : Nat) = 3 ∨ (2 : Nat) = 7 ∨ (2 : Nat) = 8 := by omega
  rw [refLen_cons_of _ _ _ h1r, refLen_cons_of _ _ _ h22, refLen_cons_of _ _ _ h2r] at hr
  have hcD : rc.cigar = (pre ++ [(o1, l1)]) ++ (2, n) :: (o2, l2) :: post := by rw [hc]; simp
  have hcM2 : rc.cigar = (pre ++ [(o1, l1), (2, n)]) ++ (o2, l2) :: post := by rw [hc]; simp
  have eD : refLen (pre ++ [(o1, l1)]) = refLen pre + l1 := by
    rw [refLen_append, refLen_cons_of _ _ _ h1r]; simp only [refLen]; omega
  have eM2 : refLen (pre ++ [(o1, l1), (2, n)]) = refLen pre + l1 + n := by
    rw [refLen_append, refLen_cons_of _ _ _ h1r, refLen_cons_of _ _ _ h22]; simp only [refLen]; omega
  refine ⟨by omega, hn, by omega, ?_, ?_, ?_⟩
  · intro k hk1 hk2
    rw [deleted_single]
    have := covAt_D rc (pre ++ [(o1, l1)]) ((o2, l2) :: post) n hcD (k - (rc.pos + refLen pre + l1)) (by omega)
    rw [eD] at this
    have e : rc.pos + (refLen pre + l1) + (k - (rc.pos + refLen pre + l1)) = k := by omega
    rw [e] at this
    exact this
  · rw [deleted_single]
    have := covAt_M rc pre ((2, n) :: (o2, l2) :: post) o1 l1 ho1 hc (l1 - 1) (by omega)
    have e : rc.pos + refLen pre + (l1 - 1) = rc.pos + refLen pre + l1 + 1 - 2 := by omega
    rw [e] at this
    rw [this]
    intro h; cases h
  · rw [deleted_single]
    have := covAt_M rc (pre ++ [(o1, l1), (2, n)]) post o2 l2 ho2 hcM2 0 hl2
    rw [eM2] at this
    have e : rc.pos + (refLen pre + l1 + n) + 0 = rc.pos + refLen pre + l1 + 1 - 1 + n := by omega
    rw [e] at this
    rw [this]
    intro h; cases h

/-- a skipped region (`N` operator) is never part of a reported deletion: its positions are written 'N' in the pair -/
theorem single_skip_op (rc : SamRec) (ref : List Nat) (hnd : NoDash ref) (hge : ∀ b ∈ ref, star ≤ b)
    (hwf : WFSamRec rc ref.length) (pre post : List (Nat × Nat)) (n : Nat) (hc : rc.cigar = pre ++ (3, n) :: post)
    (k : Nat) (hk : k < n) (s l : Nat)
    (hd : (s, l) ∈ delOf (getIndelsPair ((blockToSeqPair [rc] ref).1.map (enc false)) ((blockToSeqPair [rc] ref).2.map (enc false)))) :
    ¬ (s - 1 ≤ rc.pos + refLen pre + k ∧ rc.pos + refLen pre + k < s - 1 + l) := by
  have hwf' : ∀ r ∈ [rc], WFSamRec r ref.length := by
    intro r hr; simp only [List.mem_singleton] at hr; subst hr; exact hwf
  rw [sam_del_mem [rc] ref hnd hge hwf'] at hd
  obtain ⟨_, _, _, hall, _, _⟩ := hd
  rintro ⟨h1, h2⟩
  have := (deleted_single rc _).1 (hall _ h1 h2)
  rw [covAt_N rc pre post n hc k hk] at this
  cases this

/-- the column of a skipped position in the pair is 'N' -/
theorem single_skip_col (rc : SamRec) (pre post : List (Nat × Nat)) (n : Nat) (hc : rc.cigar = pre ++ (3, n) :: post)
    (k : Nat) (hk : k < n) : delCol [rc] (rc.pos + refLen pre + k) = letN := by
  unfold delCol
  rw [flatCol_single, covAt_N rc pre post n hc k hk]
  rfl


/-! ### non-vacuity -/

/-- three records of one query (overlapping, inserting at the same position, one ending with an insertion where the
next begins with one; a deletion in the third) -/
theorem exBlock_wf : NoDash PairMulti.exRef ∧ (∀ b ∈ PairMulti.exRef, star ≤ b) ∧
    ∀ r ∈ [PairMulti.exB1, PairMulti.exB2, PairMulti.exB3], WFSamRec r PairMulti.exRef.length := by
  refine ⟨by unfold NoDash; decide, by decide, ?_⟩
  intro r hr
  simp only [List.mem_cons, List.mem_nil_iff, or_false] at hr
  rcases hr with rfl | rfl | rfl <;> exact ⟨by decide, by decide, by decide⟩

example : samInsRecords [PairMulti.exB1, PairMulti.exB2, PairMulti.exB3] PairMulti.exRef.length = [(3, 3), (6, 3)] := by
  decide +kernel

example : samDelRecords [PairMulti.exB1, PairMulti.exB2, PairMulti.exB3] PairMulti.exRef.length = [(9, 1)] := by
  rw [← sam_del _ PairMulti.exRef exBlock_wf.1 exBlock_wf.2.1 exBlock_wf.2.2]
  decide +kernel

/-- one record 2M 2I 1M 2D 1M 2N 1M at 0-based position 1: `ins:3:2`, `del:5:2`, nothing for the skipped region -/
def exOne : SamRec := ⟨"q", 0, 1, [(0, 2), (1, 2), (0, 1), (2, 2), (0, 1), (3, 2), (0, 1)], [65, 67, 71, 84, 65, 67, 71]⟩

theorem exOne_wf : WFSamRec exOne PairMulti.exRef.length := ⟨by decide, by decide, by decide⟩

example : insOf (getIndelsPair ((blockToSeqPair [exOne] PairMulti.exRef).1.map (enc false))
    ((blockToSeqPair [exOne] PairMulti.exRef).2.map (enc false))) = [(3, 2)] := by decide +kernel

example : delOf (getIndelsPair ((blockToSeqPair [exOne] PairMulti.exRef).1.map (enc false))
    ((blockToSeqPair [exOne] PairMulti.exRef).2.map (enc false))) = [(5, 2)] := by decide +kernel

example : (3, 2) ∈ insOf (getIndelsPair ((blockToSeqPair [exOne] PairMulti.exRef).1.map (enc false))
    ((blockToSeqPair [exOne] PairMulti.exRef).2.map (enc false))) :=
  single_ins_op_exact exOne PairMulti.exRef exBlock_wf.1 exBlock_wf.2.1 exOne_wf [] [(2, 2), (0, 1), (3, 2), (0, 1)] 0 2 2 0 1 rfl
    (by decide) (by decide) (by decide) (by decide) (by decide)

example : (5, 2) ∈ delOf (getIndelsPair ((blockToSeqPair [exOne] PairMulti.exRef).1.map (enc false))
    ((blockToSeqPair [exOne] PairMulti.exRef).2.map (enc false))) :=
  single_del_op exOne PairMulti.exRef exBlock_wf.1 exBlock_wf.2.1 exOne_wf [(0, 2), (1, 2)] [(3, 2), (0, 1)] 0 1 2 0 1 rfl
    (by decide) (by decide) (by decide) (by decide) (by decide)

end Gofasta.Lemmas.SamIndels
