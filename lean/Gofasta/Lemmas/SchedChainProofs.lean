import Gofasta.Model.SchedChain
import Gofasta.Lemmas.SchedProofs
/-
Properties of the generic chain model (Gofasta/Model/SchedChain.lean: reader -> c_0 -> pool 0 -> ... -> c_m
-> writer, any number m of pools) that hold for EVERY schedule.  Route taken: ONE generic model and ONE
invariant indexed by pool and channel (not two concrete models).  The invariant `InvT cfg s t` carries a
record `t` "in transit" so that a send, a receive and a rendezvous are each proved as the composition of
two of four small updates (sender advances / push / pop / receiver takes delivery).
-/
namespace Gofasta.Lemmas.SchedChain
open Gofasta.Model.SchedChain
open Gofasta.Model.Sched (RPc WPc TPc OPc Chan absorbAll)
open Gofasta.Lemmas.Sched (widx held held_set_count all_isExited held_all_exited forall_mem_set
  absorbAll_snoc_ok forall_mem_snoc RInv rnext_inv rpos nSend_le nSend_none absorbAll_total)
variable {γ ε σ τ : Type}

/-! ### indexed access with defaults, and `List.set` -/

def qAt (L : List (Chan τ)) (k : Nat) : List τ :=
  match L[k]? with
  | some ch => ch.queue
  | none => []

def cAt (L : List (Chan τ)) (k : Nat) : Bool :=
  match L[k]? with
  | some ch => ch.closed
  | none => false

def wsAt (L : List (List (WPc γ ε))) (j : Nat) : List (WPc γ ε) :=
  match L[j]? with
  | some ws => ws
  | none => []

def tAt (L : List TPc) (j : Nat) : TPc :=
  match L[j]? with
  | some t => t
  | none => .waiting

theorem lt_of_getElem? {L : List τ} {k : Nat} {x : τ} (h : L[k]? = some x) : k < L.length :=
  (List.getElem?_eq_some_iff.mp h).1

theorem qAt_of {L : List (Chan τ)} {k : Nat} {ch : Chan τ} (h : L[k]? = some ch) : qAt L k = ch.queue := by
  simp [qAt, h]
theorem cAt_of {L : List (Chan τ)} {k : Nat} {ch : Chan τ} (h : L[k]? = some ch) : cAt L k = ch.closed := by
  simp [cAt, h]
theorem wsAt_of {L : List (List (WPc γ ε))} {j : Nat} {ws : List (WPc γ ε)} (h : L[j]? = some ws) :
    wsAt L j = ws := by simp [wsAt, h]
theorem tAt_of {L : List TPc} {j : Nat} {t : TPc} (h : L[j]? = some t) : tAt L j = t := by simp [tAt, h]

theorem qAt_set {L : List (Chan τ)} {k0 : Nat} (h : k0 < L.length) (ch : Chan τ) (k : Nat) :
    qAt (L.set k0 ch) k = if k = k0 then ch.queue else qAt L k := by
  unfold qAt
  rw [List.getElem?_set]
  by_cases hk : k0 = k
  · subst hk; simp [h]
  · have : ¬ k = k0 := fun e => hk e.symm
    simp [hk, this]

theorem cAt_set {L : List (Chan τ)} {k0 : Nat} (h : k0 < L.length) (ch : Chan τ) (k : Nat) :
    cAt (L.set k0 ch) k = if k = k0 then ch.closed else cAt L k := by
  unfold cAt
  rw [List.getElem?_set]
  by_cases hk : k0 = k
  · subst hk; simp [h]
  · have : ¬ k = k0 := fun e => hk e.symm
    simp [hk, this]

theorem wsAt_set {L : List (List (WPc γ ε))} {j0 : Nat} (h : j0 < L.length) (ws : List (WPc γ ε)) (j : Nat) :
    wsAt (L.set j0 ws) j = if j = j0 then ws else wsAt L j := by
  unfold wsAt
  rw [List.getElem?_set]
  by_cases hk : j0 = j
  · subst hk; simp [h]
  · have : ¬ j = j0 := fun e => hk e.symm
    simp [hk, this]

theorem tAt_set {L : List TPc} {j0 : Nat} (h : j0 < L.length) (t : TPc) (j : Nat) :
    tAt (L.set j0 t) j = if j = j0 then t else tAt L j := by
  unfold tAt
  rw [List.getElem?_set]
  by_cases hk : j0 = j
  · subst hk; simp [h]
  · have : ¬ j = j0 := fun e => hk e.symm
    simp [hk, this]

theorem count_flatMap_set {L : List τ} {g : τ → List Nat} {j : Nat} {x y : τ} (h : L[j]? = some x) (a : Nat) :
    List.count a ((L.set j y).flatMap g) + List.count a (g x) =
      List.count a (L.flatMap g) + List.count a (g y) := by
  induction L generalizing j with
  | nil => simp at h
  | cons b t ih =>
    cases j with
    | zero =>
      simp at h; subst h
      simp [List.flatMap_cons]; omega
    | succ j =>
      simp at h
      have := ih h
      simp [List.flatMap_cons] at this ⊢; omega

theorem flatMap_eq_nil_of {L : List τ} {g : τ → List Nat} (h : ∀ (k : Nat) (x : τ), L[k]? = some x → g x = []) :
    L.flatMap g = [] := by
  rw [List.flatMap_eq_nil_iff]
  intro x hx
  obtain ⟨k, hk⟩ := List.mem_iff_getElem?.mp hx
  exact h k x hk

/-! ### a record through the pools -/

theorem pass_append (l1 l2 : List (Pool γ ε)) (x : γ) :
    pass (l1 ++ l2) x = match pass l1 x with
      | .ok v => pass l2 v
      | .error e => .error e := by
  induction l1 generalizing x with
  | nil => rfl
  | cons P t ih =>
    simp only [List.cons_append, pass]
    cases P.f x with
    | ok y => exact ih y
    | error e => rfl

theorem pass_take_succ {pools : List (Pool γ ε)} {j : Nat} {P : Pool γ ε} (hP : pools[j]? = some P)
    {x v : γ} (h : pass (pools.take j) x = .ok v) : pass (pools.take (j + 1)) x = P.f v := by
  have hj := lt_of_getElem? hP
  have hP' : pools[j] = P := by
    have := List.getElem?_eq_getElem hj; rw [this] at hP; exact Option.some.inj hP
  rw [List.take_succ_eq_append_getElem hj, pass_append, h, hP']
  simp only [pass]
  cases P.f v <;> rfl

theorem pass_error_extends {pools : List (Pool γ ε)} {k : Nat} {x : γ} {e : ε}
    (h : pass (pools.take k) x = .error e) : pass pools x = .error e := by
  have := pass_append (pools.take k) (pools.drop k) x
  rw [List.take_append_drop, h] at this
  exact this

/-! ### the invariant -/

/-- record r is what the first k pools make of item r.1 -/
def GoodAt (cfg : Cfg γ ε σ) (k : Nat) (r : Nat × γ) : Prop :=
  ∃ x, cfg.items[r.1]? = some x ∧ pass (cfg.pools.take k) x = .ok r.2

/-- what a worker of pool j holds -/
def WOk (cfg : Cfg γ ε σ) (j : Nat) : WPc γ ε → Prop
  | .sendOut i y => GoodAt cfg (j + 1) (i, y)
  | .errS i e => ∃ x, cfg.items[i]? = some x ∧ pass (cfg.pools.take (j + 1)) x = .error e
  | _ => True

/-- the error e was produced by some component of the pipeline -/
def ErrSource (cfg : Cfg γ ε σ) (e : ε) : Prop :=
  (∃ k, cfg.readFail = some (k, e)) ∨ (∃ x ∈ cfg.items, pass cfg.pools x = .error e) ∨
  (∃ st r, cfg.absorb st r = .error e) ∨ (∃ st, cfg.finish st = .error e)

/-- a record between two goroutines: (channel, record) -/
abbrev Transit (γ : Type) := Option (Nat × (Nat × γ))

def tIdx : Transit γ → List Nat
  | some (_, r) => [r.1]
  | none => []

/-- the indices that are somewhere between the reader and the writer's state -/
def places (s : State γ ε σ) : List Nat :=
  s.chans.flatMap (fun ch => ch.queue.map Prod.fst) ++ s.workers.flatMap held ++ s.arrival.map Prod.fst

structure InvT (cfg : Cfg γ ε σ) (s : State γ ε σ) (t : Transit γ) : Prop where
  lenW : s.workers.length = cfg.m
  lenT : s.waiters.length = cfg.m
  lenC : s.chans.length = cfg.m + 1
  wlen : ∀ j P, cfg.pools[j]? = some P → (wsAt s.workers j).length = P.N
  np : s.panicked = false
  caps : ∀ k, (qAt s.chans k).length ≤ capOf cfg k
  rinv : RInv cfg.rd s.reader
  rExit : s.reader = .exited → cfg.readFail = none
  rClosed : s.reader = .exited ↔ cAt s.chans 0 = true
  wOk : ∀ j, ∀ p ∈ wsAt s.workers j, WOk cfg j p
  wExit : ∀ j, .exited ∈ wsAt s.workers j → cAt s.chans j = true ∧ qAt s.chans j = []
  chOk : ∀ k, ∀ r ∈ qAt s.chans k, GoodAt cfg k r
  arrOk : ∀ r ∈ s.arrival, GoodAt cfg cfg.m r
  tOk : ∀ k r, t = some (k, r) → GoodAt cfg k r
  /-- conservation: every index the reader has sent is in exactly one place -/
  cons : (places s ++ tIdx t).Perm (List.range (rpos cfg.rd s.reader))
  tWait : ∀ j, tAt s.waiters j ≠ .waiting → ∀ p ∈ wsAt s.workers j, p = .exited
  tClosed : ∀ j, tAt s.waiters j = .exited ↔ cAt s.chans (j + 1) = true
  oRecv : s.writer = .recv → absorbAll cfg.absorb cfg.init s.arrival = .ok s.wst
  oDone : (s.writer = .doneS ∨ s.writer = .exited) → cAt s.chans cfg.m = true ∧ qAt s.chans cfg.m = []
  oFold : (s.writer = .doneS ∨ s.writer = .exited) →
    ∃ st, absorbAll cfg.absorb cfg.init s.arrival = .ok st ∧ cfg.finish st = .ok s.wst
  oErr : ∀ e, s.writer = .errS e → (∃ st r, cfg.absorb st r = .error e) ∨ (∃ st, cfg.finish st = .error e)
  mStage : ∀ j, s.main = .stage j → j ≤ cfg.m + 1 ∧ ∀ k, k ≤ cfg.m → (cAt s.chans k = true ↔ k < j)
  mOk : s.main = .ret none ↔ s.writer = .exited
  mErr : ∀ e, s.main = .ret (some e) → ErrSource cfg e

abbrev Inv (cfg : Cfg γ ε σ) (s : State γ ε σ) : Prop := InvT cfg s none

theorem held_replicate_recv (n : Nat) : held (List.replicate n (WPc.recv : WPc γ ε)) = [] := by
  induction n with
  | zero => rfl
  | succ n ih => simp [held, List.replicate_succ]

theorem inv_init (cfg : Cfg γ ε σ) : Inv cfg (init cfg) := by
  obtain ⟨h1, h2, h3⟩ := rnext_inv cfg.rd 0 (Nat.zero_le _)
  have hq : ∀ k, qAt (init cfg).chans k = [] := by
    intro k; simp only [qAt, init, List.getElem?_replicate]; split <;> simp_all
    rename_i h; rw [← h.2]
  have hc : ∀ k, cAt (init cfg).chans k = false := by
    intro k; simp only [cAt, init, List.getElem?_replicate]; split <;> simp_all
    rename_i h; rw [← h.2]
  have hws : ∀ j, ∀ p ∈ wsAt (init cfg).workers j, p = .recv := by
    intro j p hp
    simp only [wsAt, init, List.getElem?_map] at hp
    cases hP : cfg.pools[j]? with
    | none => simp [hP] at hp
    | some P => simp [hP] at hp; exact hp.2
  have hta : ∀ j, tAt (init cfg).waiters j = .waiting := by
    intro j
    simp only [tAt, init, List.getElem?_map]
    cases cfg.pools[j]? <;> rfl
  refine ⟨?_, ?_, ?_, ?_, rfl, ?_, h1, ?_, ?_, ?_, ?_, ?_, ?_, ?_, ?_, ?_, ?_, ?_, ?_, ?_, ?_, ?_, ?_, ?_⟩
  · simp [init, Cfg.m]
  · simp [init, Cfg.m]
  · simp [init]
  · intro j P hP
    simp [wsAt, init, List.getElem?_map, hP]
  · intro k; rw [hq]; exact Nat.zero_le _
  · intro h; exact absurd h h2
  · rw [hc]; constructor
    · intro h; exact absurd h h2
    · intro h; cases h
  · intro j p hp; rw [hws j p hp]; trivial
  · intro j h; cases hws j _ h
  · intro k r hr; rw [hq] at hr; cases hr
  · intro r hr; simp [init] at hr
  · intro k r h; cases h
  · have e1 : (init cfg).chans.flatMap (fun ch => ch.queue.map Prod.fst) = [] := by
      apply flatMap_eq_nil_of
      intro k ch hk
      have := hq k; rw [qAt_of hk] at this; simp [this]
    have e2 : (init cfg).workers.flatMap held = [] := by
      apply flatMap_eq_nil_of
      intro j ws hj
      simp only [init, List.getElem?_map] at hj
      cases hP : cfg.pools[j]? with
      | none => simp [hP] at hj
      | some P => simp [hP] at hj; rw [← hj]; exact held_replicate_recv _
    simp only [places, e1, e2, tIdx]
    rw [show (init cfg).reader = Gofasta.Model.Sched.rnext cfg.rd 0 from rfl, h3]
    simp [init]
  · intro j h; exact absurd (hta j) h
  · intro j; rw [hta, hc]; constructor <;> (intro h; cases h)
  · intro _; rfl
  · intro h; simp [init] at h
  · intro h; simp [init] at h
  · intro e h; simp [init] at h
  · intro j hj
    simp [init] at hj
    subst hj
    refine ⟨Nat.zero_le _, fun k _ => ?_⟩
    rw [hc]; simp
  · simp [init]
  · intro e h; simp [init] at h

/-! ### the four small updates -/

section updates
variable {cfg : Cfg γ ε σ} {s : State γ ε σ}

theorem setW_eq {j w : Nat} {ws : List (WPc γ ε)} (hw : s.workers[j]? = some ws) (p : WPc γ ε) :
    setW s j w p = { s with workers := s.workers.set j (ws.set w p) } := by
  simp [setW, hw]

/-- worker w of pool j moves from p to q -/
theorem upd_worker {t t' : Transit γ} {j w : Nat} {ws : List (WPc γ ε)} {p q : WPc γ ε}
    (h : InvT cfg s t) (hw : s.workers[j]? = some ws) (hp : ws[w]? = some p) (hpne : p ≠ .exited)
    (hq : WOk cfg j q) (hqex : q = .exited → cAt s.chans j = true ∧ qAt s.chans j = [])
    (htOk : ∀ k r, t' = some (k, r) → GoodAt cfg k r)
    (hcount : ∀ a, List.count a (widx q) + List.count a (tIdx t') = List.count a (widx p) + List.count a (tIdx t)) :
    InvT cfg (setW s j w q) t' := by
  rw [setW_eq hw]
  have hjlt := lt_of_getElem? hw
  have hpm : p ∈ ws := List.mem_of_getElem? hp
  exact { h with
    lenW := by simp [h.lenW]
    wlen := by
      intro j' P hP
      show (wsAt (s.workers.set j (ws.set w q)) j').length = P.N
      rw [wsAt_set hjlt]
      split
      · rename_i e; subst e
        have := h.wlen j' P hP
        rw [wsAt_of hw] at this
        simpa using this
      · exact h.wlen j' P hP
    wOk := by
      intro j' p' hp'
      replace hp' : p' ∈ wsAt (s.workers.set j (ws.set w q)) j' := hp'
      rw [wsAt_set hjlt] at hp'
      split at hp'
      · rename_i e; subst e
        rcases List.mem_or_eq_of_mem_set hp' with h' | rfl
        · exact h.wOk j' p' (by rw [wsAt_of hw]; exact h')
        · exact hq
      · exact h.wOk j' p' hp'
    wExit := by
      intro j' hex
      replace hex : WPc.exited ∈ wsAt (s.workers.set j (ws.set w q)) j' := hex
      rw [wsAt_set hjlt] at hex
      split at hex
      · rename_i e; subst e
        rcases List.mem_or_eq_of_mem_set hex with h' | h'
        · exact h.wExit j' (by rw [wsAt_of hw]; exact h')
        · exact hqex h'.symm
      · exact h.wExit j' hex
    tOk := htOk
    cons := by
      have := h.cons
      rw [List.perm_iff_count] at this ⊢
      intro a
      have := this a
      have h1 := count_flatMap_set hw (g := held) (y := ws.set w q) a
      have h2 := held_set_count hp (q := q) a
      have h3 := hcount a
      simp only [places, List.count_append] at this ⊢
      omega
    tWait := by
      intro j' hne p' hp'
      replace hp' : p' ∈ wsAt (s.workers.set j (ws.set w q)) j' := hp'
      rw [wsAt_set hjlt] at hp'
      split at hp'
      · rename_i e; subst e
        have := h.tWait j' hne p (by rw [wsAt_of hw]; exact hpm)
        exact absurd this hpne
      · exact h.tWait j' hne p' hp' }

/-- the buffer of c_k changes from ch.queue to ch'.queue -/
theorem upd_chan {t t' : Transit γ} {k : Nat} {ch : Chan (Nat × γ)}
    (h : InvT cfg s t) (hk : s.chans[k]? = some ch) (q' : List (Nat × γ))
    (hcap : q'.length ≤ capOf cfg k) (hgood : ∀ r ∈ q', GoodAt cfg k r)
    (hemp : ch.closed = true → ch.queue = [] → q' = [])
    (htOk : ∀ k r, t' = some (k, r) → GoodAt cfg k r)
    (hcount : ∀ a, List.count a (q'.map Prod.fst) + List.count a (tIdx t') =
      List.count a (ch.queue.map Prod.fst) + List.count a (tIdx t)) :
    InvT cfg (putChan s k { ch with queue := q' }) t' := by
  have hklt := lt_of_getElem? hk
  have hcA : ∀ k', cAt (s.chans.set k { ch with queue := q' }) k' = cAt s.chans k' := by
    intro k'
    rw [cAt_set hklt]
    split
    · rename_i e; subst e; rw [cAt_of hk]
    · rfl
  unfold putChan
  exact { h with
    lenC := by simp [h.lenC]
    caps := by
      intro k'
      show (qAt (s.chans.set k { ch with queue := q' }) k').length ≤ _
      rw [qAt_set hklt]
      split
      · rename_i e; subst e; exact hcap
      · exact h.caps k'
    rClosed := by
      show _ ↔ cAt (s.chans.set k { ch with queue := q' }) 0 = true
      rw [hcA]; exact h.rClosed
    wExit := by
      intro j hex
      obtain ⟨c, q⟩ := h.wExit j hex
      show cAt (s.chans.set k { ch with queue := q' }) j = true ∧ qAt (s.chans.set k { ch with queue := q' }) j = []
      rw [hcA, qAt_set hklt]
      refine ⟨c, ?_⟩
      split
      · rename_i e; subst e
        rw [cAt_of hk] at c; rw [qAt_of hk] at q
        exact hemp c q
      · exact q
    chOk := by
      intro k' r hr
      replace hr : r ∈ qAt (s.chans.set k { ch with queue := q' }) k' := hr
      rw [qAt_set hklt] at hr
      split at hr
      · rename_i e; subst e; exact hgood r hr
      · exact h.chOk k' r hr
    tOk := htOk
    cons := by
      have := h.cons
      rw [List.perm_iff_count] at this ⊢
      intro a
      have := this a
      have h1 := count_flatMap_set hk (g := fun c => c.queue.map Prod.fst) (y := { ch with queue := q' }) a
      have h3 := hcount a
      simp only [places, List.count_append] at this h1 ⊢
      omega
    tClosed := by
      intro j
      show _ ↔ cAt (s.chans.set k { ch with queue := q' }) (j + 1) = true
      rw [hcA]; exact h.tClosed j
    oDone := by
      intro e
      obtain ⟨c, q⟩ := h.oDone e
      show cAt (s.chans.set k { ch with queue := q' }) cfg.m = true ∧
        qAt (s.chans.set k { ch with queue := q' }) cfg.m = []
      rw [hcA, qAt_set hklt]
      refine ⟨c, ?_⟩
      split
      · rename_i e; subst e
        rw [cAt_of hk] at c; rw [qAt_of hk] at q
        exact hemp c q
      · exact q
    mStage := by
      intro j hj
      obtain ⟨h1, h2⟩ := h.mStage j hj
      refine ⟨h1, fun k' hk' => ?_⟩
      show cAt (s.chans.set k { ch with queue := q' }) k' = true ↔ _
      rw [hcA]; exact h2 k' hk' }

/-- the reader's send of item i goes through -/
theorem adv_reader {i : Nat} {x : γ} (h : InvT cfg s none) (hr : s.reader = .sending i)
    (hx : cfg.items[i]? = some x) (hopen : cAt s.chans 0 = false) :
    InvT cfg { s with reader := Gofasta.Model.Sched.rnext cfg.rd (i + 1) } (some (0, (i, x))) := by
  have hi := h.rinv.rSend i hr
  obtain ⟨r1, r2, r3⟩ := rnext_inv cfg.rd (i + 1) hi
  exact { h with
    rinv := r1
    rExit := fun e => absurd e r2
    rClosed := ⟨fun e => absurd e r2, fun e => by rw [hopen] at e; cases e⟩
    tOk := by
      intro k r e
      cases e
      exact ⟨x, hx, rfl⟩
    cons := by
      have := h.cons
      rw [hr] at this
      show (places _ ++ tIdx _).Perm (List.range (rpos cfg.rd (Gofasta.Model.Sched.rnext cfg.rd (i + 1))))
      rw [r3]
      rw [List.perm_iff_count] at this ⊢
      intro a
      have := this a
      simp [places, tIdx, rpos, List.count_cons] at this ⊢
      by_cases h1 : a < i <;> by_cases h2 : i = a <;> by_cases h3 : a < i + 1 <;>
        simp [h1, h2, h3] at this ⊢ <;> omega }

/-- the writer takes delivery of r: its loop body -/
theorem upd_absorb {r : Nat × γ} (h : InvT cfg s (some (cfg.m, r))) (hw : s.writer = .recv) :
    InvT cfg (absorbInto cfg s r) none := by
  have hgood := h.tOk _ _ rfl
  have hfold := h.oRecv hw
  have hnr : s.main ≠ .ret none := fun e => by have := h.mOk.mp e; rw [hw] at this; cases this
  have hcons : (places { s with arrival := s.arrival ++ [r] } ++ tIdx (none : Transit γ)).Perm
      (List.range (rpos cfg.rd s.reader)) := by
    have := h.cons
    rw [List.perm_iff_count] at this ⊢
    intro a
    have := this a
    simp [places, tIdx, List.count_cons] at this ⊢
    omega
  unfold absorbInto
  split
  · rename_i st heq
    exact { h with
      arrOk := forall_mem_snoc h.arrOk hgood
      tOk := fun k r e => by cases e
      cons := hcons
      oRecv := fun _ => absorbAll_snoc_ok hfold heq
      oDone := fun e => by
        have e' : s.writer = .doneS ∨ s.writer = .exited := e
        rw [hw] at e'; rcases e' with e' | e' <;> cases e'
      oFold := fun e => by
        have e' : s.writer = .doneS ∨ s.writer = .exited := e
        rw [hw] at e'; rcases e' with e' | e' <;> cases e' }
  · rename_i e heq
    exact { h with
      arrOk := forall_mem_snoc h.arrOk hgood
      tOk := fun k r e => by cases e
      cons := hcons
      oRecv := fun e' => by cases e'
      oDone := fun e' => by rcases e' with e' | e' <;> cases e'
      oFold := fun e' => by rcases e' with e' | e' <;> cases e'
      oErr := fun e' he' => by cases he'; exact Or.inl ⟨_, _, heq⟩
      mOk := ⟨fun e' => absurd e' hnr, fun e' => (by cases e')⟩ }

end updates

/-! ### what the guards of the step functions say -/

section guards
variable {cfg : Cfg γ ε σ} {s : State γ ε σ}

theorem sndVal_reader {v : Nat × γ} (h : sndVal cfg s .reader = some v) :
    ∃ i x, s.reader = .sending i ∧ cfg.items[i]? = some x ∧ v = (i, x) := by
  simp only [sndVal] at h
  split at h
  · rename_i i hr
    split at h
    · rename_i x hx; cases h; exact ⟨i, x, hr, hx, rfl⟩
    · cases h
  · cases h

theorem sndVal_worker {j w : Nat} {v : Nat × γ} (h : sndVal cfg s (.worker j w) = some v) :
    ∃ ws, s.workers[j]? = some ws ∧ ws[w]? = some (.sendOut v.1 v.2) := by
  simp only [sndVal, getW] at h
  split at h
  · rename_i i y hg
    cases h
    split at hg
    · rename_i ws hw; exact ⟨ws, hw, hg⟩
    · cases hg
  · cases h

theorem rcvReady_worker {j w : Nat} (h : rcvReady cfg s (.worker j w) = true) :
    ∃ P ws, cfg.pools[j]? = some P ∧ s.workers[j]? = some ws ∧ ws[w]? = some .recv := by
  simp only [rcvReady, getW] at h
  split at h
  · rename_i P hP hg
    split at hg
    · rename_i ws hw; exact ⟨P, ws, hP, hw, hg⟩
    · cases hg
  · cases h

theorem rcvReady_writer (h : rcvReady cfg s .writer = true) : s.writer = .recv := by
  simp only [rcvReady] at h
  split at h
  · assumption
  · cases h

theorem sndAdvance_chans (a : Snd) : (sndAdvance cfg s a).chans = s.chans := by
  cases a with
  | reader => simp only [sndAdvance]; split <;> rfl
  | worker j w => simp only [sndAdvance, setW]; split <;> rfl

theorem getW_setW_ne {j j2 w w2 : Nat} (hne : j ≠ j2) (p : WPc γ ε) :
    getW (setW s j w p) j2 w2 = getW s j2 w2 := by
  unfold setW
  split
  · simp only [getW]; rw [List.getElem?_set_ne hne]
  · rfl

theorem rcvReady_adv {a : Snd} {b : Rcv} (hab : a.chan = b.chan cfg.m) (hb : rcvReady cfg s b = true) :
    rcvReady cfg (sndAdvance cfg s a) b = true := by
  cases a with
  | reader =>
    have : ∀ b, rcvReady cfg (sndAdvance cfg s .reader) b = rcvReady cfg s b := by
      intro b; simp only [sndAdvance]; split <;> (cases b <;> rfl)
    rw [this]; exact hb
  | worker j w =>
    cases b with
    | writer =>
      have : (sndAdvance cfg s (.worker j w)).writer = s.writer := by
        simp only [sndAdvance, setW]; split <;> rfl
      simp only [rcvReady] at hb ⊢; rw [this]; exact hb
    | worker j2 w2 =>
      have hne : j ≠ j2 := by simp [Snd.chan, Rcv.chan] at hab; omega
      simp only [rcvReady] at hb ⊢
      simp only [sndAdvance, getW_setW_ne hne]; exact hb

theorem rcvReady_putChan (k : Nat) (ch : Chan (Nat × γ)) (b : Rcv) :
    rcvReady cfg (putChan s k ch) b = rcvReady cfg s b := by
  cases b <;> rfl

theorem wOk_wnext {j : Nat} {P : Pool γ ε} {r : Nat × γ} (hP : cfg.pools[j]? = some P)
    (h : GoodAt cfg j r) : WOk cfg j (wnext P r) := by
  obtain ⟨x, hx, hp⟩ := h
  unfold wnext
  cases hf : P.f r.2 with
  | ok y => exact ⟨x, hx, by rw [pass_take_succ hP hp]; exact hf⟩
  | error e => exact ⟨x, hx, by rw [pass_take_succ hP hp]; exact hf⟩

theorem wnext_ne_exited (P : Pool γ ε) (r : Nat × γ) : wnext P r ≠ .exited := by
  unfold wnext; split <;> (intro h; cases h)

theorem widx_wnext (P : Pool γ ε) (r : Nat × γ) : widx (wnext P r) = [r.1] := by
  unfold wnext; split <;> rfl

/-- a goroutine sitting at a send: its channel is open -/
theorem snd_open {t : Transit γ} {a : Snd} {v : Nat × γ} (h : InvT cfg s t) (hv : sndVal cfg s a = some v) :
    cAt s.chans a.chan = false := by
  cases hc : cAt s.chans a.chan with
  | false => rfl
  | true =>
    exfalso
    cases a with
    | reader =>
      obtain ⟨i, x, hr, _, _⟩ := sndVal_reader hv
      have := h.rClosed.mpr hc
      rw [hr] at this; cases this
    | worker j w =>
      obtain ⟨ws, hw, hp⟩ := sndVal_worker hv
      have ht := (h.tClosed j).mpr hc
      have := h.tWait j (by rw [ht]; intro e; cases e) _ (by rw [wsAt_of hw]; exact List.mem_of_getElem? hp)
      cases this

/-- the sender's half of a communication -/
theorem snd_adv {a : Snd} {v : Nat × γ} (h : Inv cfg s) (hv : sndVal cfg s a = some v) :
    InvT cfg (sndAdvance cfg s a) (some (a.chan, v)) := by
  have hopen := snd_open h hv
  cases a with
  | reader =>
    obtain ⟨i, x, hr, hx, rfl⟩ := sndVal_reader hv
    have : sndAdvance cfg s .reader = { s with reader := Gofasta.Model.Sched.rnext cfg.rd (i + 1) } := by
      simp [sndAdvance, hr]
    rw [this]
    exact adv_reader h hr hx hopen
  | worker j w =>
    obtain ⟨ws, hw, hp⟩ := sndVal_worker hv
    have hgood : GoodAt cfg (j + 1) v := h.wOk j (.sendOut v.1 v.2) (by rw [wsAt_of hw]; exact List.mem_of_getElem? hp)
    refine upd_worker h hw hp (by intro e; cases e) trivial (by intro e; cases e) ?_ ?_
    · intro k r e; cases e; exact hgood
    · intro a; simp [tIdx]

/-- the receiver's half of a communication -/
theorem rcv_deliver {b : Rcv} {r : Nat × γ} (h : InvT cfg s (some (b.chan cfg.m, r)))
    (hb : rcvReady cfg s b = true) : Inv cfg (rcvDeliver cfg s b r) := by
  cases b with
  | writer => exact upd_absorb h (rcvReady_writer hb)
  | worker j w =>
    obtain ⟨P, ws, hP, hw, hp⟩ := rcvReady_worker hb
    have hgood : GoodAt cfg j r := h.tOk _ _ rfl
    simp only [rcvDeliver, hP]
    refine upd_worker h hw hp (by intro e; cases e) (wOk_wnext hP hgood)
      (fun e => absurd e (wnext_ne_exited P r)) (fun k r e => by cases e) ?_
    intro a; simp [tIdx, widx_wnext]

end guards

/-! ### preservation, one lemma per label -/

section preservation
variable {cfg : Cfg γ ε σ} {s s' : State γ ε σ}

theorem inv_send {a : Snd} (h : Inv cfg s) (hs : stepSend cfg s a = some s') : Inv cfg s' := by
  unfold stepSend at hs
  split at hs
  · rename_i v ch hv hk
    have hopen := snd_open h hv
    rw [cAt_of hk] at hopen
    split at hs
    · rename_i hcl; rw [hopen] at hcl; cases hcl
    · split at hs
      · rename_i hroom
        cases hs
        have h1 := snd_adv h hv
        have hk' : (sndAdvance cfg s a).chans[a.chan]? = some ch := by rw [sndAdvance_chans]; exact hk
        refine upd_chan (t' := none) h1 hk' (ch.queue ++ [v]) (by simp; omega) ?_ ?_ (fun k r e => by cases e) ?_
        · apply forall_mem_snoc
          · intro r hr; exact h.chOk a.chan r (by rw [qAt_of hk]; exact hr)
          · exact h1.tOk _ _ rfl
        · intro e; rw [hopen] at e; cases e
        · intro a'; simp [tIdx, List.count_cons]
      · cases hs
  · cases hs

theorem inv_recv {b : Rcv} (h : Inv cfg s) (hs : stepRecv cfg s b = some s') : Inv cfg s' := by
  unfold stepRecv at hs
  split at hs
  · rename_i ch hb hk
    split at hs
    · rename_i r rest hq
      cases hs
      have hcap := h.caps (b.chan cfg.m)
      rw [qAt_of hk, hq] at hcap
      have h1 : InvT cfg (putChan s (b.chan cfg.m) { ch with queue := rest }) (some (b.chan cfg.m, r)) := by
        refine upd_chan h hk rest (by simp at hcap; omega) ?_ ?_ ?_ ?_
        · intro r' hr'; exact h.chOk _ r' (by rw [qAt_of hk, hq]; simp [hr'])
        · intro _ e; rw [hq] at e; cases e
        · intro k r' e; cases e
          exact h.chOk _ r (by rw [qAt_of hk, hq]; simp)
        · intro a'; simp [tIdx, hq, List.count_cons]
      exact rcv_deliver h1 (by rw [rcvReady_putChan]; exact hb)
    · cases hs
  · cases hs

theorem inv_hand {a : Snd} {b : Rcv} (h : Inv cfg s) (hs : stepHand cfg s a b = some s') : Inv cfg s' := by
  unfold stepHand at hs
  split at hs
  · rename_i hcond
    split at hs
    · rename_i v ch hv hb hk
      split at hs
      · cases hs
      · cases hs
        have h1 := snd_adv h hv
        rw [hcond.1] at h1
        exact rcv_deliver h1 (rcvReady_adv hcond.1 hb)
    · cases hs
  · cases hs

theorem inv_closed {b : Rcv} (h : Inv cfg s) (hs : stepClosed cfg s b = some s') : Inv cfg s' := by
  unfold stepClosed at hs
  split at hs
  · rename_i ch hb hk
    split at hs
    · rename_i hc hq
      cases hs
      cases b with
      | worker j w =>
        obtain ⟨P, ws, hP, hw, hp⟩ := rcvReady_worker hb
        refine upd_worker h hw hp (by intro e; cases e) trivial ?_ (fun k r e => by cases e) (by intro a; simp)
        intro _
        have hk' : s.chans[j]? = some ch := hk
        exact ⟨by rw [cAt_of hk']; exact hc, by rw [qAt_of hk']; exact hq⟩
      | writer =>
        have hw := rcvReady_writer hb
        have hk' : s.chans[cfg.m]? = some ch := hk
        have hnr : s.main ≠ .ret none := fun e => by have := h.mOk.mp e; rw [hw] at this; cases this
        simp only [rcvEnd]
        split
        · rename_i st heq
          exact { h with
            oRecv := fun e' => by cases e'
            oDone := fun _ => ⟨by rw [cAt_of hk']; exact hc, by rw [qAt_of hk']; exact hq⟩
            oFold := fun _ => ⟨s.wst, h.oRecv hw, heq⟩
            oErr := fun e' he' => by cases he'
            mOk := ⟨fun e' => absurd e' hnr, fun e' => (by cases e')⟩ }
        · rename_i e heq
          exact { h with
            oRecv := fun e' => by cases e'
            oDone := fun e' => by rcases e' with e' | e' <;> cases e'
            oFold := fun e' => by rcases e' with e' | e' <;> cases e'
            oErr := fun e' he' => by cases he'; exact Or.inr ⟨_, heq⟩
            mOk := ⟨fun e' => absurd e' hnr, fun e' => (by cases e')⟩ }
    · cases hs
  · cases hs

theorem inv_wait {j : Nat} (h : Inv cfg s) (hs : stepWait s j = some s') : Inv cfg s' := by
  unfold stepWait at hs
  split at hs
  · rename_i ws ht hw
    split at hs
    · rename_i hall
      cases hs
      have hjlt := lt_of_getElem? ht
      have hnc : cAt s.chans (j + 1) ≠ true := fun e => by
        have := (h.tClosed j).mpr e; rw [tAt_of ht] at this; cases this
      exact { h with
        lenT := by simp [h.lenT]
        tWait := by
          intro j' hne p hp
          replace hne : tAt (s.waiters.set j .doneS) j' ≠ .waiting := hne
          rw [tAt_set hjlt] at hne
          split at hne
          · rename_i e; subst e
            rw [wsAt_of hw] at hp
            exact all_isExited.mp hall p hp
          · exact h.tWait j' hne p hp
        tClosed := by
          intro j'
          show tAt (s.waiters.set j .doneS) j' = .exited ↔ _
          rw [tAt_set hjlt]
          split
          · rename_i e; subst e
            exact ⟨fun e => (by cases e), fun e => absurd e hnc⟩
          · exact h.tClosed j' }
    · cases hs
  · cases hs

theorem not_ret_of_not_final (hnf : s.final = false) (r : Option ε) : s.main ≠ .ret r := by
  intro e
  simp [State.final, e, MPc.isRet] at hnf

theorem inv_mainErr {who : Who} (h : Inv cfg s) (hnf : s.final = false)
    (hs : stepMainErr s who = some s') : Inv cfg s' := by
  unfold stepMainErr at hs
  split at hs
  · rename_i e he
    cases hs
    have hnw : s.writer ≠ .exited := fun e' => not_ret_of_not_final hnf _ (h.mOk.mpr e')
    have hsrc : ErrSource cfg e := by
      cases who with
      | reader =>
        simp only [errOf] at he
        split at he
        · rename_i e' hr; cases he; exact Or.inl (h.rinv.rErr _ hr)
        · cases he
      | writer =>
        simp only [errOf] at he
        split at he
        · rename_i e' hr; cases he; exact Or.inr (Or.inr (h.oErr _ hr))
        · cases he
      | worker j w =>
        simp only [errOf, getW] at he
        split at he
        · rename_i i e' hg
          cases he
          split at hg
          · rename_i ws hw
            obtain ⟨x, hx, hp⟩ := h.wOk j _ (by rw [wsAt_of hw]; exact List.mem_of_getElem? hg)
            exact Or.inr (Or.inl ⟨x, List.mem_of_getElem? hx, pass_error_extends hp⟩)
          · cases hg
        · cases he
    exact { h with
      mStage := fun j e' => by cases e'
      mOk := ⟨fun e' => (by cases e'), fun e' => absurd e' hnw⟩
      mErr := fun e' he' => by cases he'; exact hsrc }
  · cases hs

/-- main, stage k ≤ m: the done arm closes c_k; the signalling goroutine (reader or waiter k-1) exits -/
theorem close_at {k : Nat} {ch : Chan (Nat × γ)} (h : Inv cfg s) (hm : s.main = .stage k) (hkm : k ≤ cfg.m)
    (hk : s.chans[k]? = some ch) (rd' : RPc ε) (wt' : List TPc)
    (hrpos : rpos cfg.rd rd' = rpos cfg.rd s.reader)
    (hrinv : RInv cfg.rd rd') (hrExit : rd' = .exited → cfg.readFail = none)
    (hrClosed : rd' = .exited ↔ (if 0 = k then true else cAt s.chans 0) = true)
    (hlenT : wt'.length = cfg.m)
    (htWait : ∀ j, tAt wt' j ≠ .waiting → ∀ p ∈ wsAt s.workers j, p = .exited)
    (htClosed : ∀ j, tAt wt' j = .exited ↔ (if j + 1 = k then true else cAt s.chans (j + 1)) = true) :
    Inv cfg { s with main := .stage (k + 1), reader := rd', waiters := wt',
                     chans := s.chans.set k { ch with closed := true } } := by
  have hklt := lt_of_getElem? hk
  obtain ⟨_, hst⟩ := h.mStage k hm
  have hnw : s.writer ≠ .exited := fun e' => by have := h.mOk.mpr e'; rw [hm] at this; cases this
  have hqA : ∀ k', qAt (s.chans.set k { ch with closed := true }) k' = qAt s.chans k' := by
    intro k'
    rw [qAt_set hklt]
    split
    · rename_i e; subst e; rw [qAt_of hk]
    · rfl
  have hcA : ∀ k', cAt (s.chans.set k { ch with closed := true }) k' = if k' = k then true else cAt s.chans k' := by
    intro k'; rw [cAt_set hklt]
  have hcmono : ∀ k', cAt s.chans k' = true → cAt (s.chans.set k { ch with closed := true }) k' = true := by
    intro k' e; rw [hcA]; split <;> simp [e]
  exact { h with
    lenT := hlenT
    lenC := by simp [h.lenC]
    caps := by intro k'; show (qAt (s.chans.set k _) k').length ≤ _; rw [hqA]; exact h.caps k'
    rinv := hrinv
    rExit := hrExit
    rClosed := by
      show rd' = .exited ↔ cAt (s.chans.set k _) 0 = true
      rw [hcA]; exact hrClosed
    wExit := by
      intro j hex
      obtain ⟨c, q⟩ := h.wExit j hex
      show cAt (s.chans.set k _) j = true ∧ qAt (s.chans.set k _) j = []
      rw [hqA]; exact ⟨hcmono j c, q⟩
    chOk := by
      intro k' r hr
      replace hr : r ∈ qAt (s.chans.set k _) k' := hr
      rw [hqA] at hr; exact h.chOk k' r hr
    tOk := fun k r e => by cases e
    cons := by
      have := h.cons
      show (places _ ++ tIdx none).Perm (List.range (rpos cfg.rd rd'))
      rw [hrpos]
      rw [List.perm_iff_count] at this ⊢
      intro a
      have := this a
      have h1 := count_flatMap_set hk (g := fun c => c.queue.map Prod.fst) (y := { ch with closed := true }) a
      simp only [places, List.count_append] at this h1 ⊢
      omega
    tWait := htWait
    tClosed := by
      intro j
      show tAt wt' j = .exited ↔ cAt (s.chans.set k _) (j + 1) = true
      rw [hcA]; exact htClosed j
    oDone := by
      intro e
      obtain ⟨c, q⟩ := h.oDone e
      show cAt (s.chans.set k _) cfg.m = true ∧ qAt (s.chans.set k _) cfg.m = []
      rw [hqA]; exact ⟨hcmono _ c, q⟩
    mStage := by
      intro j hj
      cases hj
      refine ⟨by omega, fun k' hk' => ?_⟩
      show cAt (s.chans.set k _) k' = true ↔ _
      rw [hcA]
      split
      · rename_i e; subst e; simp
      · rename_i hne
        rw [hst k' hk']; omega
    mOk := ⟨fun e' => (by cases e'), fun e' => absurd e' hnw⟩
    mErr := fun e' he' => by cases he' }

theorem inv_doneReader (h : Inv cfg s) (hm : s.main = .stage 0)
    (hs : stepDoneReader s = some s') : Inv cfg s' := by
  unfold stepDoneReader at hs
  split at hs
  · rename_i ch hr hk
    obtain ⟨_, hst⟩ := h.mStage 0 hm
    have hc : ch.closed = false := by
      have := hst 0 (Nat.zero_le _)
      rw [cAt_of hk] at this
      cases hcc : ch.closed with
      | false => rfl
      | true => have := this.mp hcc; omega
    simp only [hc, Bool.false_eq_true, if_false] at hs
    cases hs
    refine close_at h hm (Nat.zero_le _) hk .exited s.waiters ?_ ?_ ?_ ?_ h.lenT h.tWait ?_
    · rw [hr]; rfl
    · exact ⟨fun i e => (by cases e), fun e e' => (by cases e'), fun e => (by cases e)⟩
    · intro _; exact h.rinv.rDone hr
    · simp
    · intro j
      have : ¬ (j + 1 = 0) := by omega
      simp only [this, if_false]; exact h.tClosed j
  · cases hs

theorem inv_doneWaiter {j : Nat} (h : Inv cfg s) (hm : s.main = .stage (j + 1)) (hjm : j + 1 ≤ cfg.m)
    (hs : stepDoneWaiter s j = some s') : Inv cfg s' := by
  unfold stepDoneWaiter at hs
  split at hs
  · rename_i ch ht hk
    obtain ⟨_, hst⟩ := h.mStage (j + 1) hm
    have hjlt := lt_of_getElem? ht
    have hc : ch.closed = false := by
      have := hst (j + 1) hjm
      rw [cAt_of hk] at this
      cases hcc : ch.closed with
      | false => rfl
      | true => have := this.mp hcc; omega
    simp only [hc, Bool.false_eq_true, if_false] at hs
    cases hs
    refine close_at h hm hjm hk s.reader (s.waiters.set j .exited) rfl h.rinv h.rExit ?_ (by simp [h.lenT]) ?_ ?_
    · have : ¬ (0 = j + 1) := by omega
      simp only [this, if_false]; exact h.rClosed
    · intro j' hne p hp
      rw [tAt_set hjlt] at hne
      split at hne
      · rename_i e; subst e
        exact h.tWait j' (by rw [tAt_of ht]; intro e; cases e) p hp
      · exact h.tWait j' hne p hp
    · intro j'
      rw [tAt_set hjlt]
      by_cases e : j' = j
      · subst e; simp
      · have : ¬ (j' + 1 = j + 1) := by omega
        simp only [e, this, if_false]; exact h.tClosed j'
  · cases hs

theorem inv_doneWriter (h : Inv cfg s) (hs : stepDoneWriter s = some s') : Inv cfg s' := by
  unfold stepDoneWriter at hs
  split at hs
  · rename_i hw
    cases hs
    exact { h with
      oRecv := fun e' => by cases e'
      oDone := fun _ => h.oDone (Or.inl hw)
      oFold := fun _ => h.oFold (Or.inl hw)
      oErr := fun e' he' => by cases he'
      mStage := fun j e' => by cases e'
      mOk := ⟨fun _ => rfl, fun _ => rfl⟩
      mErr := fun e' he' => by cases he' }
  · cases hs

theorem inv_mainDone (h : Inv cfg s) (hs : stepMainDone cfg s = some s') : Inv cfg s' := by
  unfold stepMainDone at hs
  split at hs
  · cases hs
  · rename_i j hm
    split at hs
    · exact inv_doneWriter h hs
    · rename_i hne
      obtain ⟨hle, _⟩ := h.mStage j hm
      cases j with
      | zero => exact inv_doneReader h hm hs
      | succ j' => exact inv_doneWaiter h hm (by omega) hs

theorem inv_step {l : Label} (h : Inv cfg s) (hs : step? cfg s l = some s') : Inv cfg s' := by
  unfold step? at hs
  by_cases hnf : s.final = true
  · simp [hnf] at hs
  · have hnf' : s.final = false := by simpa using hnf
    simp only [hnf', Bool.false_eq_true, if_false] at hs
    cases l with
    | send a => exact inv_send h hs
    | recv b => exact inv_recv h hs
    | hand a b => exact inv_hand h hs
    | closed b => exact inv_closed h hs
    | wait j => exact inv_wait h hs
    | mainErr who => exact inv_mainErr h hnf' hs
    | mainDone => exact inv_mainDone h hs

theorem reach_inv (h : Reach cfg s) : Inv cfg s := by
  induction h with
  | init => exact inv_init cfg
  | step l _ hs ih => exact inv_step ih hs

end preservation

/-! ### T1: main returns nil only if every record went all the way through -/

section theorems
variable {cfg : Cfg γ ε σ} {s : State γ ε σ}

theorem pool_of_lt {j : Nat} (hj : j < cfg.m) : ∃ P, cfg.pools[j]? = some P :=
  ⟨cfg.pools[j], List.getElem?_eq_getElem hj⟩

/-- a closed and empty c_k: everything upstream of it has shut down and is empty -/
theorem upstream_drained (hN : ∀ P ∈ cfg.pools, 1 ≤ P.N) (h : Inv cfg s) :
    ∀ k, k ≤ cfg.m → cAt s.chans k = true → qAt s.chans k = [] →
      (∀ k', k' ≤ k → cAt s.chans k' = true ∧ qAt s.chans k' = []) ∧
      (∀ j, j < k → ∀ p ∈ wsAt s.workers j, p = .exited) := by
  intro k
  induction k with
  | zero =>
    intro _ hc hq
    refine ⟨fun k' hk' => ?_, fun j hj => by omega⟩
    have : k' = 0 := by omega
    subst this; exact ⟨hc, hq⟩
  | succ k ih =>
    intro hk hc hq
    have ht := (h.tClosed k).mpr hc
    have hall := h.tWait k (by rw [ht]; intro e; cases e)
    obtain ⟨P, hP⟩ := pool_of_lt (cfg := cfg) (j := k) (by omega)
    have hlen := h.wlen k P hP
    have hPN := hN P (List.mem_of_getElem? hP)
    have h0 : 0 < (wsAt s.workers k).length := by omega
    have hex : WPc.exited ∈ wsAt s.workers k := by
      have hm : (wsAt s.workers k)[0] ∈ wsAt s.workers k := List.getElem_mem h0
      rw [hall _ hm] at hm; exact hm
    obtain ⟨hc', hq'⟩ := h.wExit k hex
    obtain ⟨ih1, ih2⟩ := ih (by omega) hc' hq'
    refine ⟨fun k' hk' => ?_, fun j hj => ?_⟩
    · by_cases e : k' = k + 1
      · subst e; exact ⟨hc, hq⟩
      · exact ih1 k' (by omega)
    · by_cases e : j = k
      · subst e; exact hall
      · exact ih2 j (by omega)

theorem drained (hN : ∀ P ∈ cfg.pools, 1 ≤ P.N) (h : Inv cfg s) (hw : s.writer = .exited) :
    cfg.readFail = none ∧ (s.arrival.map Prod.fst).Perm (List.range cfg.items.length) := by
  obtain ⟨hc, hq⟩ := h.oDone (Or.inr hw)
  obtain ⟨h1, h2⟩ := upstream_drained hN h cfg.m (Nat.le_refl _) hc hq
  have hrd : s.reader = .exited := h.rClosed.mpr (h1 0 (Nat.zero_le _)).1
  have hrf := h.rExit hrd
  refine ⟨hrf, ?_⟩
  have e1 : s.chans.flatMap (fun ch => ch.queue.map Prod.fst) = [] := by
    apply flatMap_eq_nil_of
    intro k ch hk
    have hlt := lt_of_getElem? hk
    rw [h.lenC] at hlt
    have := (h1 k (by omega)).2
    rw [qAt_of hk] at this; simp [this]
  have e2 : s.workers.flatMap held = [] := by
    apply flatMap_eq_nil_of
    intro j ws hj
    have hlt := lt_of_getElem? hj
    rw [h.lenW] at hlt
    have := h2 j hlt
    rw [wsAt_of hj] at this
    exact held_all_exited this
  have := h.cons
  have hn : Gofasta.Model.Sched.nSend cfg.rd = cfg.items.length := nSend_none (cfg := cfg.rd) hrf
  simpa [places, e1, e2, tIdx, hrd, rpos, hn] using this

theorem chain_success_means_complete (hN : ∀ P ∈ cfg.pools, 1 ≤ P.N) (hr : Reach cfg s)
    (hm : s.main = .ret none) :
    cfg.readFail = none ∧ (∀ x ∈ cfg.items, ∃ y, pass cfg.pools x = .ok y) ∧
    ∃ recs : List (Nat × γ),
      (recs.map Prod.fst).Perm (List.range cfg.items.length) ∧
      (∀ r ∈ recs, ∃ x, cfg.items[r.1]? = some x ∧ pass cfg.pools x = .ok r.2) ∧
      ∃ st, absorbAll cfg.absorb cfg.init recs = .ok st ∧ cfg.finish st = .ok s.wst := by
  have h := reach_inv hr
  have hw := h.mOk.mp hm
  obtain ⟨hrf, hperm⟩ := drained hN h hw
  have hgood : ∀ r ∈ s.arrival, ∃ x, cfg.items[r.1]? = some x ∧ pass cfg.pools x = .ok r.2 := by
    intro r hr
    obtain ⟨x, hx, hp⟩ := h.arrOk r hr
    rw [show cfg.m = cfg.pools.length from rfl, List.take_length] at hp
    exact ⟨x, hx, hp⟩
  refine ⟨hrf, ?_, s.arrival, hperm, hgood, h.oFold (Or.inr hw)⟩
  intro x hx
  obtain ⟨i, hi, rfl⟩ := List.getElem_of_mem hx
  have hmem : i ∈ s.arrival.map Prod.fst := hperm.mem_iff.mpr (List.mem_range.mpr hi)
  obtain ⟨r, hr, rfl⟩ := List.mem_map.mp hmem
  obtain ⟨x', hx', hf⟩ := hgood r hr
  rw [List.getElem?_eq_getElem hi] at hx'
  cases hx'
  exact ⟨_, hf⟩

theorem recs_eq_filterMap {recs : List (Nat × γ)}
    (h : ∀ r ∈ recs, ∃ x, cfg.items[r.1]? = some x ∧ pass cfg.pools x = .ok r.2) :
    recs = (recs.map Prod.fst).filterMap (rec? cfg) := by
  induction recs with
  | nil => rfl
  | cons r t ih =>
    obtain ⟨x, hx, hf⟩ := h r (by simp)
    have hr : rec? cfg r.1 = some r := by simp [rec?, hx, hf]
    rw [List.map_cons, List.filterMap_cons, hr, ← ih (fun r' hr' => h r' (by simp [hr']))]

/-- T1 in terms of the arrival order of the indices alone -/
theorem chain_success_means_complete' (hN : ∀ P ∈ cfg.pools, 1 ≤ P.N) (hr : Reach cfg s)
    (hm : s.main = .ret none) :
    cfg.readFail = none ∧ (∀ x ∈ cfg.items, ∃ y, pass cfg.pools x = .ok y) ∧
    ∃ arrival : List Nat, arrival.Perm (List.range cfg.items.length) ∧
      ∃ st, absorbAll cfg.absorb cfg.init (arrival.filterMap (rec? cfg)) = .ok st ∧
        cfg.finish st = .ok s.wst := by
  obtain ⟨h1, h2, recs, h3, h4, h5⟩ := chain_success_means_complete hN hr hm
  refine ⟨h1, h2, recs.map Prod.fst, h3, ?_⟩
  rw [← recs_eq_filterMap h4]; exact h5

/-! ### T6 -/

theorem chain_no_panic (hr : Reach cfg s) : s.panicked = false := (reach_inv hr).np

/-- once c_0 is closed the reader is past its sends; once c_{j+1} is closed every worker of pool j has exited -/
theorem chain_no_send_on_closed (hr : Reach cfg s) :
    (cAt s.chans 0 = true → s.reader = .exited) ∧
    (∀ j, cAt s.chans (j + 1) = true → ∀ p ∈ wsAt s.workers j, p = .exited) := by
  have h := reach_inv hr
  refine ⟨h.rClosed.mpr, fun j hc => h.tWait j ?_⟩
  rw [(h.tClosed j).mpr hc]; intro e; cases e

/-- no goroutine sits at a send on a closed channel -/
theorem chain_no_sender_on_closed (hr : Reach cfg s) {a : Snd} {v : Nat × γ}
    (hv : sndVal cfg s a = some v) : cAt s.chans a.chan = false :=
  snd_open (reach_inv hr) hv

theorem chain_buffers_bounded (hr : Reach cfg s) : ∀ k, (qAt s.chans k).length ≤ capOf cfg k :=
  (reach_inv hr).caps

/-- main is at stage j: exactly the channels c_0 .. c_{j-1} are closed (each close ran once, in order) -/
theorem chain_closed_prefix (hr : Reach cfg s) {j : Nat} (hm : s.main = .stage j) :
    j ≤ cfg.m + 1 ∧ ∀ k, k ≤ cfg.m → (cAt s.chans k = true ↔ k < j) :=
  (reach_inv hr).mStage j hm

/-! ### T5 and T4 -/

theorem chain_error_has_source {e : ε} (hr : Reach cfg s) (hm : s.main = .ret (some e)) : ErrSource cfg e :=
  (reach_inv hr).mErr e hm

theorem chain_no_spurious_error (hrf : cfg.readFail = none) (hf : ∀ x ∈ cfg.items, ∃ y, pass cfg.pools x = .ok y)
    (ha : ∀ st r, ∃ st', cfg.absorb st r = .ok st') (hfin : ∀ st, ∃ st', cfg.finish st = .ok st')
    (hr : Reach cfg s) (e : ε) : s.main ≠ .ret (some e) := by
  intro hm
  rcases chain_error_has_source hr hm with ⟨k, h⟩ | ⟨x, hx, h⟩ | ⟨st, r, h⟩ | ⟨st, h⟩
  · rw [hrf] at h; cases h
  · obtain ⟨y, hy⟩ := hf x hx; rw [hy] at h; cases h
  · obtain ⟨st', hy⟩ := ha st r; rw [hy] at h; cases h
  · obtain ⟨st', hy⟩ := hfin st; rw [hy] at h; cases h

theorem chain_error_reported (hN : ∀ P ∈ cfg.pools, 1 ≤ P.N)
    (hfail : cfg.readFail ≠ none ∨ (∃ x ∈ cfg.items, ∃ e, pass cfg.pools x = .error e) ∨
      (∀ recs : List (Nat × γ), (recs.map Prod.fst).Perm (List.range cfg.items.length) →
        (∀ r ∈ recs, ∃ x, cfg.items[r.1]? = some x ∧ pass cfg.pools x = .ok r.2) →
        ∀ st st', absorbAll cfg.absorb cfg.init recs = .ok st → cfg.finish st ≠ .ok st'))
    (hr : Reach cfg s) : s.main ≠ .ret none := by
  intro hm
  obtain ⟨h1, h2, recs, h3, h4, st, h5, h6⟩ := chain_success_means_complete hN hr hm
  rcases hfail with h | ⟨x, hx, e, he⟩ | h
  · exact h h1
  · obtain ⟨y, hy⟩ := h2 x hx; rw [hy] at he; cases he
  · exact h recs h3 h4 st _ h5 h6

end theorems

/-! ### T2: no reachable non-final state is stuck -/

section progress
variable {cfg : Cfg γ ε σ} {s : State γ ε σ}

def Progress (cfg : Cfg γ ε σ) (s : State γ ε σ) : Prop :=
  ∃ l ∈ allLabels cfg, (step? cfg s l).isSome = true

theorem enabled_ne_nil_of_progress (h : Progress cfg s) : enabled cfg s ≠ [] := by
  obtain ⟨l, hl, hs⟩ := h
  intro he
  have : l ∈ enabled cfg s := by
    unfold enabled enabledWith
    exact List.mem_filter.mpr ⟨hl, hs⟩
  rw [he] at this; cases this

theorem progress_of_enabled_ne_nil (h : enabled cfg s ≠ []) : Progress cfg s := by
  cases he : enabled cfg s with
  | nil => exact absurd he h
  | cons l t =>
    have : l ∈ enabled cfg s := by rw [he]; simp
    unfold enabled enabledWith at this
    obtain ⟨h1, h2⟩ := List.mem_filter.mp this
    exact ⟨l, h1, h2⟩

theorem wid_mem (pools : List (Pool γ ε)) (j0 j w : Nat) (P : Pool γ ε) (hP : pools[j]? = some P)
    (hw : w < P.N) : (j0 + j, w) ∈ wids j0 pools := by
  induction pools generalizing j0 j with
  | nil => simp at hP
  | cons Q t ih =>
    cases j with
    | zero =>
      simp at hP; subst hP
      simp [wids, hw]
    | succ j =>
      simp at hP
      have := ih (j0 + 1) j hP
      simp only [wids, List.mem_append]
      right
      have e : j0 + 1 + j = j0 + (j + 1) := by omega
      rw [e] at this; exact this

/-- (j, w) names a worker of the configuration -/
def ValidW (cfg : Cfg γ ε σ) (j w : Nat) : Prop := ∃ P, cfg.pools[j]? = some P ∧ w < P.N

theorem validW_mem {j w : Nat} (h : ValidW cfg j w) : (j, w) ∈ wids 0 cfg.pools := by
  obtain ⟨P, hP, hw⟩ := h
  have := wid_mem cfg.pools 0 j w P hP hw
  simpa using this

theorem worker_valid (h : Inv cfg s) {j w : Nat} {ws : List (WPc γ ε)} {p : WPc γ ε}
    (hw : s.workers[j]? = some ws) (hp : ws[w]? = some p) : ValidW cfg j w := by
  have hj := lt_of_getElem? hw
  rw [h.lenW] at hj
  obtain ⟨P, hP⟩ := pool_of_lt hj
  have := h.wlen j P hP
  rw [wsAt_of hw] at this
  exact ⟨P, hP, by rw [← this]; exact lt_of_getElem? hp⟩

theorem snd_worker_mem {j w : Nat} (h : ValidW cfg j w) : Snd.worker j w ∈ senders cfg := by
  simp only [senders, List.mem_cons, List.mem_map]
  right; exact ⟨(j, w), validW_mem h, rfl⟩

theorem rcv_worker_mem {j w : Nat} (h : ValidW cfg j w) : Rcv.worker j w ∈ receivers cfg := by
  simp only [receivers, List.mem_cons, List.mem_map]
  right; exact ⟨(j, w), validW_mem h, rfl⟩

theorem who_worker_mem {j w : Nat} (h : ValidW cfg j w) : Who.worker j w ∈ whos cfg := by
  simp only [whos, List.mem_cons, List.mem_map]
  right; right; exact ⟨(j, w), validW_mem h, rfl⟩

theorem snd_reader_mem : Snd.reader ∈ senders cfg := by simp [senders]
theorem rcv_writer_mem : Rcv.writer ∈ receivers cfg := by simp [receivers]

theorem mem_send {a : Snd} (h : a ∈ senders cfg) : Label.send a ∈ allLabels cfg := by
  simp [allLabels, h]
theorem mem_recv {b : Rcv} (h : b ∈ receivers cfg) : Label.recv b ∈ allLabels cfg := by
  simp [allLabels, h]
theorem mem_closed {b : Rcv} (h : b ∈ receivers cfg) : Label.closed b ∈ allLabels cfg := by
  simp [allLabels, h]
theorem mem_wait {j : Nat} (h : j < cfg.m) : Label.wait j ∈ allLabels cfg := by
  simp [allLabels, h]
theorem mem_mainErr {who : Who} (h : who ∈ whos cfg) : Label.mainErr who ∈ allLabels cfg := by
  simp [allLabels, h]
theorem mem_mainDone : Label.mainDone ∈ allLabels cfg := by simp [allLabels]
theorem mem_hand {a : Snd} {b : Rcv} (ha : a ∈ senders cfg) (hb : b ∈ receivers cfg)
    (hab : a.chan = b.chan cfg.m) : Label.hand a b ∈ allLabels cfg := by
  simp only [allLabels, List.mem_cons, List.mem_append, List.mem_flatMap, List.mem_map, List.mem_filter]
  right; right
  exact ⟨a, ha, b, ⟨hb, by simp [hab]⟩, rfl⟩

theorem chan_of_le (h : Inv cfg s) {k : Nat} (hk : k ≤ cfg.m) : ∃ ch, s.chans[k]? = some ch :=
  ⟨s.chans[k]'(by rw [h.lenC]; omega), List.getElem?_eq_getElem _⟩

/-- a sender and a ready receiver on the same open channel: one of send, recv, hand is enabled -/
theorem comm_progress (h : Inv cfg s) (hnf : s.final = false) {a : Snd} {b : Rcv} {v : Nat × γ}
    (hab : a.chan = b.chan cfg.m) (hkm : a.chan ≤ cfg.m) (hv : sndVal cfg s a = some v)
    (hb : rcvReady cfg s b = true) (ha : a ∈ senders cfg) (hbm : b ∈ receivers cfg) : Progress cfg s := by
  obtain ⟨ch, hk⟩ := chan_of_le h hkm
  have hopen := snd_open h hv
  rw [cAt_of hk] at hopen
  by_cases hcap : capOf cfg a.chan = 0
  · exact ⟨.hand a b, mem_hand ha hbm hab, by simp [step?, hnf, stepHand, hab.symm, hcap, hv, hb, hk, hopen]⟩
  · by_cases hroom : ch.queue.length < capOf cfg a.chan
    · exact ⟨.send a, mem_send ha, by simp [step?, hnf, stepSend, hv, hk, hopen, hroom]⟩
    · cases hq : ch.queue with
      | nil => rw [hq] at hroom; simp at hroom; omega
      | cons r rest =>
        have hk' : s.chans[b.chan cfg.m]? = some ch := by rw [← hab]; exact hk
        exact ⟨.recv b, mem_recv hbm, by simp [step?, hnf, stepRecv, hb, hk', hq]⟩

theorem getW_of {j w : Nat} {ws : List (WPc γ ε)} (hw : s.workers[j]? = some ws) : getW s j w = ws[w]? := by
  simp [getW, hw]

/-- a goroutine blocked at a send on an open channel: something downstream can move -/
theorem sender_progress (hN : ∀ P ∈ cfg.pools, 1 ≤ P.N) (h : Inv cfg s) (hnf : s.final = false)
    (hnoerr : ∀ who, errOf s who = none) :
    ∀ d k (a : Snd) (v : Nat × γ), k + d = cfg.m → a.chan = k → sndVal cfg s a = some v →
      a ∈ senders cfg → Progress cfg s := by
  intro d
  induction d with
  | zero =>
    intro k a v hk hak hv ha
    have hkm : k = cfg.m := by omega
    have hopen := snd_open h hv
    -- the receiver is the writer, and it must be in its loop
    have hwr : s.writer = .recv := by
      cases hw : s.writer with
      | recv => rfl
      | errS e => have := hnoerr .writer; simp [errOf, hw] at this
      | doneS => have := (h.oDone (Or.inl hw)).1; rw [← hkm, ← hak, hopen] at this; cases this
      | exited => have := (h.oDone (Or.inr hw)).1; rw [← hkm, ← hak, hopen] at this; cases this
    exact comm_progress h hnf (b := .writer) (by simp [Rcv.chan]; omega) (by omega) hv
      (by simp [rcvReady, hwr]) ha rcv_writer_mem
  | succ d ih =>
    intro k a v hk hak hv ha
    have hklt : k < cfg.m := by omega
    have hopen := snd_open h hv
    rw [hak] at hopen
    obtain ⟨P, hP⟩ := pool_of_lt hklt
    have hlen := h.wlen k P hP
    have hPN := hN P (List.mem_of_getElem? hP)
    obtain ⟨ws, hw⟩ : ∃ ws, s.workers[k]? = some ws :=
      ⟨s.workers[k]'(by rw [h.lenW]; exact hklt), List.getElem?_eq_getElem _⟩
    rw [wsAt_of hw] at hlen
    by_cases hrecv : ∃ w : Nat, ws[w]? = some (WPc.recv : WPc γ ε)
    · obtain ⟨w, hp⟩ := hrecv
      have hval := worker_valid h hw hp
      exact comm_progress h hnf (b := .worker k w) (by simp [Rcv.chan, hak]) (by omega) hv
        (by simp [rcvReady, hP, getW_of hw, hp]) ha (rcv_worker_mem hval)
    · -- worker 0 of pool k holds a result and is blocked on c_{k+1}
      have h0 : 0 < ws.length := by omega
      have hg : ws[0]? = some ws[0] := List.getElem?_eq_getElem h0
      have hval := worker_valid h hw hg
      cases hp : ws[0] with
      | recv => exact absurd ⟨0, by rw [hg, hp]⟩ hrecv
      | errS i e =>
        have := hnoerr (.worker k 0)
        simp [errOf, getW_of hw, hg, hp] at this
      | exited =>
        have : WPc.exited ∈ wsAt s.workers k := by
          rw [wsAt_of hw, ← hp]; exact List.getElem_mem h0
        have := (h.wExit k this).1
        rw [hopen] at this; cases this
      | sendOut i y =>
        exact ih (k + 1) (.worker k 0) (i, y) (by omega) rfl
          (by simp [sndVal, getW_of hw, hg, hp]) (snd_worker_mem hval)

theorem errOf_mem (h : Inv cfg s) {who : Who} {e : ε} (he : errOf s who = some e) : who ∈ whos cfg := by
  cases who with
  | reader => simp [whos]
  | writer => simp [whos]
  | worker j w =>
    simp only [errOf, getW] at he
    split at he
    · rename_i i e' hg
      split at hg
      · rename_i ws hw; exact who_worker_mem (worker_valid h hw hg)
      · cases hg
    · cases he

theorem chain_no_deadlock' (hN : ∀ P ∈ cfg.pools, 1 ≤ P.N) (h : Inv cfg s) (hnf : s.final = false) :
    Progress cfg s := by
  -- somebody is waiting to report an error: main's cErr arm is ready in every stage
  by_cases herr : ∃ who e, errOf s who = some e
  · obtain ⟨who, e, he⟩ := herr
    exact ⟨.mainErr who, mem_mainErr (errOf_mem h he), by simp [step?, hnf, stepMainErr, he]⟩
  have hnoerr : ∀ who, errOf s who = none := by
    intro who
    cases he : errOf s who with
    | none => rfl
    | some e => exact absurd ⟨who, e, he⟩ herr
  cases hm : s.main with
  | ret r => simp [State.final, hm, MPc.isRet] at hnf
  | stage j =>
    obtain ⟨hjle, hst⟩ := h.mStage j hm
    by_cases hjm : j = cfg.m + 1
    · -- last stage: every channel is closed, the writer drains c_m and finishes
      subst hjm
      obtain ⟨ch, hk⟩ := chan_of_le h (Nat.le_refl cfg.m)
      have hc : ch.closed = true := by
        have := (hst cfg.m (Nat.le_refl _)).mpr (by omega)
        rw [cAt_of hk] at this; exact this
      cases hw : s.writer with
      | errS e => have := hnoerr .writer; simp [errOf, hw] at this
      | exited => have := h.mOk.mpr hw; rw [hm] at this; cases this
      | doneS =>
        exact ⟨.mainDone, mem_mainDone, by simp [step?, hnf, stepMainDone, hm, stepDoneWriter, hw]⟩
      | recv =>
        have hb : rcvReady cfg s .writer = true := by simp [rcvReady, hw]
        have hk' : s.chans[Rcv.writer.chan cfg.m]? = some ch := hk
        cases hq : ch.queue with
        | nil =>
          exact ⟨.closed .writer, mem_closed rcv_writer_mem, by simp [step?, hnf, stepClosed, hb, hk', hc, hq]⟩
        | cons r rest =>
          exact ⟨.recv .writer, mem_recv rcv_writer_mem, by simp [step?, hnf, stepRecv, hb, hk', hq]⟩
    · cases j with
      | zero =>
        obtain ⟨ch, hk⟩ := chan_of_le h (Nat.zero_le cfg.m)
        cases hr : s.reader with
        | errS e => have := hnoerr .reader; simp [errOf, hr] at this
        | exited =>
          have := h.rClosed.mp hr
          have := (hst 0 (Nat.zero_le _)).mp this; omega
        | doneS =>
          refine ⟨.mainDone, mem_mainDone, ?_⟩
          simp only [step?, hnf, stepMainDone, hm, stepDoneReader, hr, hk]
          have : ¬ (0 = cfg.m + 1) := by omega
          simp only [this]
          cases ch.closed <;> simp
        | sending i =>
          have hi : i < cfg.items.length :=
            Nat.lt_of_lt_of_le (h.rinv.rSend i hr) (nSend_le cfg.rd)
          have hx : cfg.items[i]? = some cfg.items[i] := List.getElem?_eq_getElem hi
          exact sender_progress hN h hnf hnoerr cfg.m 0 .reader (i, cfg.items[i]) (by omega) rfl
            (by simp [sndVal, hr, hx]) snd_reader_mem
      | succ j' =>
        have hj'lt : j' < cfg.m := by omega
        obtain ⟨ch1, hk1⟩ := chan_of_le h (k := j' + 1) (by omega)
        obtain ⟨tp, ht⟩ : ∃ tp, s.waiters[j']? = some tp :=
          ⟨s.waiters[j']'(by rw [h.lenT]; exact hj'lt), List.getElem?_eq_getElem _⟩
        obtain ⟨ws, hw⟩ : ∃ ws, s.workers[j']? = some ws :=
          ⟨s.workers[j']'(by rw [h.lenW]; exact hj'lt), List.getElem?_eq_getElem _⟩
        cases htp : tp with
        | exited =>
          have := (h.tClosed j').mp (by rw [tAt_of ht, htp])
          have := (hst (j' + 1) (by omega)).mp this; omega
        | doneS =>
          refine ⟨.mainDone, mem_mainDone, ?_⟩
          subst htp
          simp only [step?, hnf, stepMainDone, hm, stepDoneWaiter, ht, hk1]
          simp only [hjm]
          cases ch1.closed <;> simp
        | waiting =>
          subst htp
          by_cases hall : ws.all WPc.isExited = true
          · exact ⟨.wait j', mem_wait hj'lt, by simp [step?, hnf, stepWait, ht, hw, hall]⟩
          · have : ∃ p ∈ ws, p ≠ .exited := by
              apply Classical.byContradiction
              intro hcon
              apply hall
              rw [all_isExited]
              intro p hp
              apply Classical.byContradiction
              intro hne
              exact hcon ⟨p, hp, hne⟩
            obtain ⟨p, hp, hne⟩ := this
            obtain ⟨w, hpw⟩ := List.mem_iff_getElem?.mp hp
            have hval := worker_valid h hw hpw
            obtain ⟨P, hP⟩ := pool_of_lt hj'lt
            cases p with
            | exited => exact absurd rfl hne
            | errS i e =>
              have := hnoerr (.worker j' w)
              simp [errOf, getW_of hw, hpw] at this
            | sendOut i y =>
              exact sender_progress hN h hnf hnoerr (cfg.m - (j' + 1)) (j' + 1) (.worker j' w) (i, y)
                (by omega) rfl (by simp [sndVal, getW_of hw, hpw]) (snd_worker_mem hval)
            | recv =>
              -- c_{j'} is closed: the worker drains it or leaves its loop
              obtain ⟨ch0, hk0⟩ := chan_of_le h (k := j') (by omega)
              have hc0 : ch0.closed = true := by
                have := (hst j' (by omega)).mpr (by omega)
                rw [cAt_of hk0] at this; exact this
              have hb : rcvReady cfg s (.worker j' w) = true := by simp [rcvReady, hP, getW_of hw, hpw]
              have hk0' : s.chans[(Rcv.worker j' w).chan cfg.m]? = some ch0 := hk0
              cases hq : ch0.queue with
              | nil =>
                exact ⟨.closed (.worker j' w), mem_closed (rcv_worker_mem hval),
                  by simp [step?, hnf, stepClosed, hb, hk0', hc0, hq]⟩
              | cons r rest =>
                exact ⟨.recv (.worker j' w), mem_recv (rcv_worker_mem hval),
                  by simp [step?, hnf, stepRecv, hb, hk0', hq]⟩

theorem chain_no_deadlock (hN : ∀ P ∈ cfg.pools, 1 ≤ P.N) (hr : Reach cfg s)
    (hm : ∀ r, s.main ≠ .ret r) : enabled cfg s ≠ [] := by
  have h := reach_inv hr
  apply enabled_ne_nil_of_progress
  apply chain_no_deadlock' hN h
  simp only [State.final, h.np, Bool.false_or]
  cases hm' : s.main with
  | ret r => exact absurd hm' (hm r)
  | _ => rfl

end progress

/-! ### T3: every step decreases the measure -/

section measure
variable {cfg : Cfg γ ε σ} {s : State γ ε σ}

theorem wsμ_set {h : Nat} {ws : List (WPc γ ε)} {w : Nat} {p q : WPc γ ε} (hp : ws[w]? = some p) :
    wsμ h (ws.set w q) + wμ h p = wsμ h ws + wμ h q := by
  induction ws generalizing w with
  | nil => simp at hp
  | cons b t ih =>
    cases w with
    | zero => simp at hp; subst hp; simp [wsμ]; omega
    | succ w =>
      simp at hp
      have := ih hp
      simp [wsμ] at this ⊢; omega

theorem poolsμ_set {m : Nat} {L : List (List (WPc γ ε))} {j : Nat} {ws ws' : List (WPc γ ε)} (j0 : Nat)
    (hw : L[j]? = some ws) :
    poolsμ m j0 (L.set j ws') + wsμ (2 * (m - (j0 + j))) ws = poolsμ m j0 L + wsμ (2 * (m - (j0 + j))) ws' := by
  induction L generalizing j j0 with
  | nil => simp at hw
  | cons b t ih =>
    cases j with
    | zero => simp at hw; subst hw; simp [poolsμ]; omega
    | succ j =>
      simp at hw
      have := ih (j0 + 1) hw
      have e : j0 + 1 + j = j0 + (j + 1) := by omega
      rw [e] at this
      simp [poolsμ] at this ⊢; omega

theorem tsμ_set {L : List TPc} {j : Nat} {t t' : TPc} (ht : L[j]? = some t) :
    tsμ (L.set j t') + tμ t = tsμ L + tμ t' := by
  induction L generalizing j with
  | nil => simp at ht
  | cons b r ih =>
    cases j with
    | zero => simp at ht; subst ht; simp [tsμ]; omega
    | succ j =>
      simp at ht
      have := ih ht
      simp [tsμ] at this ⊢; omega

theorem chansμ_set {m : Nat} {L : List (Chan (Nat × γ))} {k : Nat} {ch ch' : Chan (Nat × γ)} (k0 : Nat)
    (hk : L[k]? = some ch) :
    chansμ m k0 (L.set k ch') + (2 * (m - (k0 + k)) + 1) * ch.queue.length =
      chansμ m k0 L + (2 * (m - (k0 + k)) + 1) * ch'.queue.length := by
  induction L generalizing k k0 with
  | nil => simp at hk
  | cons b t ih =>
    cases k with
    | zero => simp at hk; subst hk; simp [chansμ]; omega
    | succ k =>
      simp at hk
      have := ih (k0 + 1) hk
      have e : k0 + 1 + k = k0 + (k + 1) := by omega
      rw [e] at this
      simp [chansμ] at this ⊢; omega

theorem μ_setW {j w : Nat} {ws : List (WPc γ ε)} {p : WPc γ ε} (q : WPc γ ε)
    (hw : s.workers[j]? = some ws) (hp : ws[w]? = some p) :
    μ cfg (setW s j w q) + wμ (2 * (cfg.m - j)) p = μ cfg s + wμ (2 * (cfg.m - j)) q := by
  rw [setW_eq hw]
  have h1 := poolsμ_set (m := cfg.m) (ws' := ws.set w q) 0 hw
  have h2 := wsμ_set (h := 2 * (cfg.m - j)) (q := q) hp
  simp only [Nat.zero_add] at h1
  simp only [μ]
  omega

theorem μ_putChan {k : Nat} {ch : Chan (Nat × γ)} (ch' : Chan (Nat × γ)) (hk : s.chans[k]? = some ch) :
    μ cfg (putChan s k ch') + (2 * (cfg.m - k) + 1) * ch.queue.length =
      μ cfg s + (2 * (cfg.m - k) + 1) * ch'.queue.length := by
  have h1 := chansμ_set (m := cfg.m) (ch' := ch') 0 hk
  simp only [Nat.zero_add] at h1
  show rμ cfg s.reader + poolsμ cfg.m 0 s.workers + tsμ s.waiters + oμ s.writer + mμ cfg.m s.main +
      chansμ cfg.m 0 (s.chans.set k ch') + (if s.panicked then 0 else 1) + _ =
    rμ cfg s.reader + poolsμ cfg.m 0 s.workers + tsμ s.waiters + oμ s.writer + mμ cfg.m s.main +
      chansμ cfg.m 0 s.chans + (if s.panicked then 0 else 1) + _
  omega

theorem μ_absorbInto (r : Nat × γ) (hw : s.writer = .recv) : μ cfg (absorbInto cfg s r) ≤ μ cfg s := by
  unfold absorbInto
  split
  · simp [μ]
  · simp [μ, hw, oμ]

theorem rμ_rnext (cfg : Cfg γ ε σ) (i : Nat) :
    rμ cfg (Gofasta.Model.Sched.rnext cfg.rd (i + 1)) + (2 * cfg.m + 2) ≤ rμ cfg (.sending i) := by
  unfold Gofasta.Model.Sched.rnext
  by_cases h : i + 1 < Gofasta.Model.Sched.nSend cfg.rd
  · simp only [h, if_true, rμ]
    have e : Gofasta.Model.Sched.nSend cfg.rd - i = (Gofasta.Model.Sched.nSend cfg.rd - (i + 1)) + 1 := by omega
    rw [e, Nat.mul_succ]; omega
  · simp only [h, if_false]
    rcases Gofasta.Lemmas.Sched.rAfter_cases cfg.rd with ⟨h1, _⟩ | ⟨k, e, h1, _⟩ <;> rw [h1] <;>
      simp only [rμ] <;> omega

/-- what a sender carries -/
def sndW (cfg : Cfg γ ε σ) : Snd → Nat
  | .reader => 2 * cfg.m + 2
  | .worker j _ => 2 * (cfg.m - j)

/-- what a receiver will carry at most -/
def rcvW (cfg : Cfg γ ε σ) : Rcv → Nat
  | .worker j _ => 2 * (cfg.m - j)
  | .writer => 0

theorem μ_sndAdvance {a : Snd} {v : Nat × γ} (hv : sndVal cfg s a = some v) :
    μ cfg (sndAdvance cfg s a) + sndW cfg a ≤ μ cfg s := by
  cases a with
  | reader =>
    obtain ⟨i, x, hr, hx, rfl⟩ := sndVal_reader hv
    have := rμ_rnext cfg i
    simp only [sndAdvance, hr, μ, sndW]
    omega
  | worker j w =>
    obtain ⟨ws, hw, hp⟩ := sndVal_worker hv
    have := μ_setW (cfg := cfg) .recv hw hp
    simp only [sndAdvance, sndW, wμ] at this ⊢
    omega

theorem wμ_wnext_le (h : Nat) (P : Pool γ ε) (r : Nat × γ) : wμ h (wnext P r) ≤ 1 + h := by
  unfold wnext; split <;> simp [wμ]

theorem μ_rcvDeliver {b : Rcv} (r : Nat × γ) (hb : rcvReady cfg s b = true) :
    μ cfg (rcvDeliver cfg s b r) ≤ μ cfg s + rcvW cfg b := by
  cases b with
  | writer =>
    have := μ_absorbInto (cfg := cfg) r (rcvReady_writer hb)
    simp only [rcvDeliver, rcvW]; omega
  | worker j w =>
    obtain ⟨P, ws, hP, hw, hp⟩ := rcvReady_worker hb
    have h1 := μ_setW (cfg := cfg) (wnext P r) hw hp
    have h2 := wμ_wnext_le (2 * (cfg.m - j)) P r
    have h3 : wμ (2 * (cfg.m - j)) (WPc.recv : WPc γ ε) = 1 := rfl
    simp only [rcvDeliver, hP, rcvW] at h1 ⊢
    omega

theorem sndW_ge {a : Snd} (h : a.chan ≤ cfg.m) : 2 * (cfg.m - a.chan) + 1 + 1 ≤ sndW cfg a := by
  cases a with
  | reader => simp [sndW, Snd.chan]
  | worker j w => simp [sndW, Snd.chan] at h ⊢; omega

theorem rcvW_le (b : Rcv) : rcvW cfg b + 1 ≤ 2 * (cfg.m - b.chan cfg.m) + 1 := by
  cases b with
  | writer => simp [rcvW, Rcv.chan]
  | worker j w => simp [rcvW, Rcv.chan]

theorem mμ_ge {m : Nat} {mp : MPc ε} (h : ∀ j, mp = .stage j → j ≤ m + 1) (hr : mp.isRet = false) :
    2 ≤ mμ m mp := by
  cases mp with
  | ret r => simp [MPc.isRet] at hr
  | stage j => have := h j rfl; simp [mμ]; omega

theorem step_decreases {s' : State γ ε σ} {l : Label} (h : Inv cfg s)
    (hs : step? cfg s l = some s') : μ cfg s' < μ cfg s := by
  unfold step? at hs
  by_cases hnf : s.final = true
  · simp [hnf] at hs
  · have hnf' : s.final = false := by simpa using hnf
    have hp : s.panicked = false := h.np
    have hmain : 2 ≤ mμ cfg.m s.main :=
      mμ_ge (fun j e => (h.mStage j e).1) (by simp [State.final] at hnf'; exact hnf'.2)
    simp only [hnf', Bool.false_eq_true, if_false] at hs
    cases l with
    | send a =>
      replace hs : stepSend cfg s a = some s' := hs
      unfold stepSend at hs
      split at hs
      · rename_i v ch hv hk
        split at hs
        · cases hs; simp [μ, hp]
        · split at hs
          · cases hs
            have hkm : a.chan ≤ cfg.m := by have := lt_of_getElem? hk; rw [h.lenC] at this; omega
            have h1 := μ_sndAdvance hv
            have hk' : (sndAdvance cfg s a).chans[a.chan]? = some ch := by rw [sndAdvance_chans]; exact hk
            have h2 := μ_putChan (cfg := cfg) { ch with queue := ch.queue ++ [v] } hk'
            have h3 := sndW_ge hkm
            simp only [List.length_append, List.length_singleton, Nat.mul_succ] at h2
            omega
          · cases hs
      · cases hs
    | recv b =>
      replace hs : stepRecv cfg s b = some s' := hs
      unfold stepRecv at hs
      split at hs
      · rename_i ch hb hk
        split at hs
        · rename_i r rest hq
          cases hs
          have h1 := μ_putChan (cfg := cfg) { ch with queue := rest } hk
          have h2 := μ_rcvDeliver (cfg := cfg) (s := putChan s (b.chan cfg.m) { ch with queue := rest }) r
            (by rw [rcvReady_putChan]; exact hb)
          have h3 := rcvW_le (cfg := cfg) b
          simp only [hq, List.length_cons, Nat.mul_succ] at h1
          omega
        · cases hs
      · cases hs
    | hand a b =>
      replace hs : stepHand cfg s a b = some s' := hs
      unfold stepHand at hs
      split at hs
      · rename_i hcond
        split at hs
        · rename_i v ch hv hb hk
          split at hs
          · cases hs
          · cases hs
            have hkm : a.chan ≤ cfg.m := by have := lt_of_getElem? hk; rw [h.lenC] at this; omega
            have h1 := μ_sndAdvance hv
            have h2 := μ_rcvDeliver (cfg := cfg) v (rcvReady_adv hcond.1 hb)
            have h3 := sndW_ge hkm
            have h4 := rcvW_le (cfg := cfg) b
            rw [← hcond.1] at h4
            omega
        · cases hs
      · cases hs
    | closed b =>
      replace hs : stepClosed cfg s b = some s' := hs
      unfold stepClosed at hs
      split at hs
      · rename_i ch hb hk
        split at hs
        · cases hs
          cases b with
          | worker j w =>
            obtain ⟨P, ws, hP, hw, hpw⟩ := rcvReady_worker hb
            have := μ_setW (cfg := cfg) .exited hw hpw
            simp only [rcvEnd, wμ] at this ⊢; omega
          | writer =>
            have hw := rcvReady_writer hb
            simp only [rcvEnd]
            split <;> simp [μ, hw, oμ]
        · cases hs
      · cases hs
    | wait j =>
      replace hs : stepWait s j = some s' := hs
      unfold stepWait at hs
      split at hs
      · rename_i ws ht hw
        split at hs
        · cases hs
          have := tsμ_set (t' := .doneS) ht
          simp only [μ, tμ] at this ⊢; omega
        · cases hs
      · cases hs
    | mainErr who =>
      replace hs : stepMainErr s who = some s' := hs
      unfold stepMainErr at hs
      split at hs
      · cases hs
        have : ∀ r : Option ε, mμ cfg.m (MPc.ret r) = 0 := fun _ => rfl
        simp only [μ, this]; omega
      · cases hs
    | mainDone =>
      replace hs : stepMainDone cfg s = some s' := hs
      unfold stepMainDone at hs
      split at hs
      · cases hs
      · rename_i j hm
        obtain ⟨hjle, _⟩ := h.mStage j hm
        rw [hm] at hmain
        by_cases hjm : j = cfg.m + 1
        · simp only [hjm, if_true] at hs
          unfold stepDoneWriter at hs
          split at hs
          · rename_i hw; cases hs; simp only [μ, hw, oμ, mμ, hm] at hmain ⊢; omega
          · cases hs
        · simp only [hjm, if_false] at hs
          cases j with
          | zero =>
            replace hs : stepDoneReader s = some s' := hs
            unfold stepDoneReader at hs
            split at hs
            · rename_i ch hr hk
              split at hs
              · cases hs; simp [μ, hp]
              · cases hs
                have := chansμ_set (m := cfg.m) (ch' := { ch with closed := true }) 0 hk
                simp only [μ, hr, rμ, mμ, hm] at this ⊢; omega
            · cases hs
          | succ j' =>
            replace hs : stepDoneWaiter s j' = some s' := hs
            unfold stepDoneWaiter at hs
            split at hs
            · rename_i ch ht hk
              split at hs
              · cases hs; simp [μ, hp]
              · cases hs
                have h1 := chansμ_set (m := cfg.m) (ch' := { ch with closed := true }) 0 hk
                have h2 := tsμ_set (t' := .exited) ht
                simp only [μ, tμ, mμ, hm] at h1 h2 ⊢; omega
            · cases hs

theorem chain_terminates {s' : State γ ε σ} {l : Label} (hr : Reach cfg s)
    (hs : step? cfg s l = some s') : μ cfg s' < μ cfg s :=
  step_decreases (reach_inv hr) hs

end measure

/-! ### runs: every schedule is finite and every maximal run ends with main returned -/

section runs
variable {cfg : Cfg γ ε σ} {s : State γ ε σ}

/-- a finite run: the labels chosen by some scheduler, in order -/
inductive Steps (cfg : Cfg γ ε σ) : State γ ε σ → List Label → State γ ε σ → Prop where
  | nil (s : State γ ε σ) : Steps cfg s [] s
  | cons {s s1 s2 : State γ ε σ} {l : Label} {ls : List Label} :
      step? cfg s l = some s1 → Steps cfg s1 ls s2 → Steps cfg s (l :: ls) s2

theorem reach_steps {s' : State γ ε σ} {ls : List Label} (hr : Reach cfg s) (h : Steps cfg s ls s') :
    Reach cfg s' := by
  induction h with
  | nil s => exact hr
  | cons hs _ ih => exact ih (Reach.step _ hr hs)

/-- a run from a reachable state s has at most μ s steps -/
theorem chain_run_length_le {s' : State γ ε σ} {ls : List Label} (hr : Reach cfg s) (h : Steps cfg s ls s') :
    ls.length + μ cfg s' ≤ μ cfg s := by
  induction h with
  | nil s => simp
  | cons hs _ ih =>
    have := chain_terminates hr hs
    have := ih (Reach.step _ hr hs)
    simp; omega

theorem chain_maximal_run_returned (hN : ∀ P ∈ cfg.pools, 1 ≤ P.N) (hr : Reach cfg s)
    (hstuck : enabled cfg s = []) : ∃ r, s.main = .ret r := by
  apply Classical.byContradiction
  intro hcon
  exact chain_no_deadlock hN hr (fun r hm => hcon ⟨r, hm⟩) hstuck

theorem chain_maximal_run_error (hN : ∀ P ∈ cfg.pools, 1 ≤ P.N)
    (hfail : cfg.readFail ≠ none ∨ (∃ x ∈ cfg.items, ∃ e, pass cfg.pools x = .error e) ∨
      (∀ recs : List (Nat × γ), (recs.map Prod.fst).Perm (List.range cfg.items.length) →
        (∀ r ∈ recs, ∃ x, cfg.items[r.1]? = some x ∧ pass cfg.pools x = .ok r.2) →
        ∀ st st', absorbAll cfg.absorb cfg.init recs = .ok st → cfg.finish st ≠ .ok st'))
    (hr : Reach cfg s) (hstuck : enabled cfg s = []) : ∃ e, s.main = .ret (some e) ∧ ErrSource cfg e := by
  obtain ⟨r, hm⟩ := chain_maximal_run_returned hN hr hstuck
  cases r with
  | none => exact absurd hm (chain_error_reported hN hfail hr)
  | some e => exact ⟨e, hm, chain_error_has_source hr hm⟩

theorem chain_maximal_run_success (hN : ∀ P ∈ cfg.pools, 1 ≤ P.N)
    (hrf : cfg.readFail = none) (hf : ∀ x ∈ cfg.items, ∃ y, pass cfg.pools x = .ok y)
    (ha : ∀ st r, ∃ st', cfg.absorb st r = .ok st') (hfin : ∀ st, ∃ st', cfg.finish st = .ok st')
    (hr : Reach cfg s) (hstuck : enabled cfg s = []) :
    s.main = .ret none ∧
    ∃ recs : List (Nat × γ),
      (recs.map Prod.fst).Perm (List.range cfg.items.length) ∧
      (∀ r ∈ recs, ∃ x, cfg.items[r.1]? = some x ∧ pass cfg.pools x = .ok r.2) ∧
      ∃ st, absorbAll cfg.absorb cfg.init recs = .ok st ∧ cfg.finish st = .ok s.wst := by
  obtain ⟨r, hm⟩ := chain_maximal_run_returned hN hr hstuck
  cases r with
  | some e => exact absurd hm (chain_no_spurious_error hrf hf ha hfin hr e)
  | none => exact ⟨hm, (chain_success_means_complete hN hr hm).2.2⟩

theorem runWith_reach (sched : List Nat) (hr : Reach cfg s) :
    Reach cfg (runWith (step? cfg) (allLabels cfg) s sched) := by
  induction sched generalizing s with
  | nil => exact hr
  | cons k ks ih =>
    simp only [runWith]
    split
    · exact hr
    · rename_i l _
      split
      · rename_i s' hs; exact ih (Reach.step l hr hs)
      · exact hr

theorem runSchedule_reach (cfg : Cfg γ ε σ) (sched : List Nat) : Reach cfg (runSchedule cfg sched) :=
  runWith_reach sched Reach.init

theorem runWith_returned (sched : List Nat) {r : Option ε} (hm : s.main = .ret r) :
    runWith (step? cfg) (allLabels cfg) s sched = s := by
  cases sched with
  | nil => rfl
  | cons k ks =>
    have : enabledWith (step? cfg) (allLabels cfg) s = [] := by
      unfold enabledWith
      apply List.filter_eq_nil_iff.mpr
      intro l _
      simp [step?, State.final, hm, MPc.isRet]
    simp [runWith, this]

theorem runWith_returns (hN : ∀ P ∈ cfg.pools, 1 ≤ P.N) (sched : List Nat)
    (hr : Reach cfg s) (hlen : μ cfg s ≤ sched.length) :
    ∃ r, (runWith (step? cfg) (allLabels cfg) s sched).main = .ret r := by
  induction sched generalizing s with
  | nil =>
    apply Classical.byContradiction
    intro hcon
    have hne := chain_no_deadlock hN hr (fun r hm => hcon ⟨r, hm⟩)
    obtain ⟨l, _, hl⟩ := progress_of_enabled_ne_nil hne
    obtain ⟨s', hs'⟩ := Option.isSome_iff_exists.mp hl
    have := chain_terminates hr hs'
    simp at hlen; omega
  | cons k ks ih =>
    by_cases hret : ∃ r, s.main = .ret r
    · obtain ⟨r, hm⟩ := hret
      rw [runWith_returned _ hm]; exact ⟨r, hm⟩
    · have hne := chain_no_deadlock hN hr (fun r hm => hret ⟨r, hm⟩)
      have hpos : 0 < (enabled cfg s).length := List.length_pos_iff.mpr hne
      have hlt : k % (enabled cfg s).length < (enabled cfg s).length := Nat.mod_lt _ hpos
      have hget : (enabledWith (step? cfg) (allLabels cfg) s)[k % (enabledWith (step? cfg) (allLabels cfg) s).length]? =
          some ((enabled cfg s)[k % (enabled cfg s).length]) := List.getElem?_eq_getElem hlt
      have hmem : (enabled cfg s)[k % (enabled cfg s).length] ∈ enabled cfg s := List.getElem_mem hlt
      generalize (enabled cfg s)[k % (enabled cfg s).length] = l at hget hmem
      have hl : (step? cfg s l).isSome = true := by
        unfold enabled enabledWith at hmem
        exact (List.mem_filter.mp hmem).2
      obtain ⟨s', hs'⟩ := Option.isSome_iff_exists.mp hl
      have hdec := chain_terminates hr hs'
      simp only [runWith, hget, hs']
      apply ih (Reach.step l hr hs')
      simp at hlen; omega

/-- every schedule of length at least μ(init) runs the chain to the point where main has returned -/
theorem runSchedule_returns (hN : ∀ P ∈ cfg.pools, 1 ≤ P.N) (sched : List Nat)
    (hlen : μ cfg (init cfg) ≤ sched.length) : ∃ r, (runSchedule cfg sched).main = .ret r :=
  runWith_returns hN sched Reach.init hlen

end runs

/-! ### T1b: writers whose result does not depend on the arrival order -/

section writers
open Gofasta.Model

theorem reorder_out {items : List γ} {F : γ → Except ε γ} {recs : List (Nat × γ)}
    (hall : ∀ x ∈ items, ∃ y, F x = .ok y)
    (hperm : (recs.map Prod.fst).Perm (List.range items.length))
    (hgood : ∀ r ∈ recs, ∃ x, items[r.1]? = some x ∧ F x = .ok r.2) :
    (Reorder.run recs).map Except.ok = items.map F := by
  cases hrecs : recs with
  | nil =>
    rw [hrecs] at hperm
    have hl := hperm.length_eq
    simp at hl
    have : items = [] := List.eq_nil_of_length_eq_zero hl.symm
    rw [this]; rfl
  | cons r0 t =>
    rw [← hrecs]
    let val : Nat → Option γ := fun i => match items[i]? with
      | some x => (match F x with | .ok y => some y | .error _ => none)
      | none => none
    let g : Nat → γ := fun i => (val i).getD r0.2
    have hg : ∀ r ∈ recs, (r.1, g r.1) = r := by
      intro r hr
      obtain ⟨x, hx, hf⟩ := hgood r hr
      simp only [g, val, hx, hf, Option.getD_some]
    have hmap : recs = (recs.map Prod.fst).map (fun i => (i, g i)) := by
      rw [List.map_map]
      have : ∀ r ∈ recs, ((fun i => (i, g i)) ∘ Prod.fst) r = id r := fun r hr => hg r hr
      rw [List.map_congr_left this, List.map_id]
    rw [hmap, Reorder.run_perm g items.length _ hperm]
    apply List.ext_getElem
    · simp
    · intro i h1 h2
      simp at h1
      obtain ⟨y, hy⟩ := hall items[i] (List.getElem_mem h1)
      simp [g, val, List.getElem?_eq_getElem h1, hy]

/-- the re-ordering writer at the end of a chain of any length emits, in input order, every item
    passed through f_1, ..., f_m in turn - whatever the schedule -/
theorem chain_reorder_writer_in_order {cfg : Cfg γ ε (Reorder.St γ)} {s : State γ ε (Reorder.St γ)}
    (hN : ∀ P ∈ cfg.pools, 1 ≤ P.N)
    (habs : ∀ st r, cfg.absorb st r = .ok (Reorder.recv st r))
    (hfin : ∀ st, cfg.finish st = .ok st)
    (hinit : cfg.init = ⟨[], 0, []⟩)
    (hr : Reach cfg s) (hm : s.main = .ret none) :
    s.wst.out.map Except.ok = cfg.items.map (pass cfg.pools) := by
  obtain ⟨_, hall, recs, hperm, hgood, st, hfold, hfin'⟩ := chain_success_means_complete hN hr hm
  rw [absorbAll_total habs] at hfold
  injection hfold with hfold
  rw [hfin] at hfin'
  injection hfin' with hfin'
  rw [← hfin', ← hfold, hinit]
  exact reorder_out hall hperm hgood

/-- a writer whose loop body is total and commutative ends in the state of the in-order fold -/
theorem chain_commutative_writer {cfg : Cfg γ ε σ} {s : State γ ε σ} (hN : ∀ P ∈ cfg.pools, 1 ≤ P.N)
    (g : σ → Nat × γ → σ) (habs : ∀ st r, cfg.absorb st r = .ok (g st r))
    (hfin : ∀ st, cfg.finish st = .ok st)
    (hcomm : ∀ st a b, g (g st a) b = g (g st b) a)
    (hr : Reach cfg s) (hm : s.main = .ret none) :
    s.wst = ((List.range cfg.items.length).filterMap (rec? cfg)).foldl g cfg.init := by
  obtain ⟨_, _, recs, hperm, hgood, st, hfold, hfin'⟩ := chain_success_means_complete hN hr hm
  rw [absorbAll_total habs] at hfold
  injection hfold with hfold
  rw [hfin] at hfin'
  injection hfin' with hfin'
  rw [← hfin', ← hfold]
  rw [recs_eq_filterMap hgood]
  exact List.Perm.foldl_eq' (hperm.filterMap _) (fun x _ y _ z => hcomm z x y) _

end writers

/-! ### the statements are not vacuous: wrong variants of the m = 2 driver fail, concretely -/

namespace Demo
open Gofasta.Model

/-- pool A adds one and rejects 99 with error 7; pool B doubles and rejects 51 with error 8 -/
def pA (n c : Nat) : Pool Nat Nat := ⟨n, fun x => if x = 99 then .error 7 else .ok (x + 1), c⟩
def pB (n c : Nat) : Pool Nat Nat := ⟨n, fun x => if x = 51 then .error 8 else .ok (x * 2), c⟩

/-- the writer appends what arrives -/
def demo (items : List Nat) (pools : List (Pool Nat Nat)) (cap0 : Nat) : Cfg Nat Nat (List (Nat × Nat)) where
  items := items
  pools := pools
  cap0 := cap0
  readFail := none
  absorb := fun st r => .ok (st ++ [r])
  finish := fun st => .ok st
  init := []

/-- one item, two pools of one worker, all capacities 1 -/
def c1 := demo [10] [pA 1 1, pB 1 1] 1

/-- (a) closes of stage 2 and stage 3 swapped: after pool A is done main closes c_2 (not c_1);
    the worker of pool B then sends its result on the closed c_2 (Go panics) -/
theorem swap_send_on_closed :
    (runLabels (stepSwap c1) (init c1)
      [.send .reader, .recv (.worker 0 0), .send (.worker 0 0), .mainDone, .closed (.worker 0 0), .wait 0,
       .mainDone, .recv (.worker 1 0), .send (.worker 1 0)]).map (·.panicked) = some true := by
  decide

theorem swap_send_on_closed' :
    (runWith (stepSwap c1) (allLabels c1) (init c1) [0, 1, 1, 0, 1, 1, 0, 0, 0]).panicked = true := by
  decide

/-- (a) another schedule: the record gets through before the wrong close, but c_1 is never closed, the
    worker of pool B never leaves its loop, and main waits for cBDone for ever -/
theorem swap_deadlock :
    (runLabels (stepSwap c1) (init c1)
      [.send .reader, .recv (.worker 0 0), .send (.worker 0 0), .recv (.worker 1 0), .send (.worker 1 0),
       .recv .writer, .mainDone, .closed (.worker 0 0), .wait 0, .mainDone, .closed .writer]).map
      (fun s => ((enabledWith (stepSwap c1) (allLabels c1) s).isEmpty, s.main, s.workers)) =
      some (true, .stage 2, [[.exited], [.recv]]) := by
  decide

/-- (b) waiter B waits for wait group A: main closes c_2 and returns nil while the record is still in
    the hands of pool B's worker - the record is lost and no error is reported -/
theorem wrongWg_loses_record :
    (runLabels (stepWrongWg c1) (init c1)
      [.send .reader, .recv (.worker 0 0), .send (.worker 0 0), .recv (.worker 1 0), .mainDone,
       .closed (.worker 0 0), .wait 0, .wait 1, .mainDone, .mainDone, .closed .writer, .mainDone]).map
      (fun s => (s.main, s.wst, s.workers)) = some (.ret none, [], [[.exited], [.sendOut 0 22]]) := by
  decide

theorem wrongWg_loses_record' :
    (runWith (stepWrongWg c1) (allLabels c1) (init c1) [0, 1, 1, 1, 0, 1, 1, 2, 0, 0, 1, 0]).main = .ret none ∧
    (runWith (stepWrongWg c1) (allLabels c1) (init c1) [0, 1, 1, 1, 0, 1, 1, 2, 0, 0, 1, 0]).wst = [] := by
  decide

/-- the faithful driver on the same configuration: every record arrives -/
theorem faithful_c1 : (runSchedule c1 (List.replicate 17 0)).main = .ret none ∧
    (runSchedule c1 (List.replicate 17 0)).wst = [(0, 22)] := by
  decide

/-- errors of either pool are reported by the faithful driver -/
theorem faithful_reports :
    (runSchedule (demo [10, 99, 30] [pA 2 1, pB 2 1] 1) (List.replicate 41 0)).main = .ret (some 7) ∧
    (runSchedule (demo [10, 50, 30] [pA 2 1, pB 2 1] 1) (List.replicate 41 0)).main = .ret (some 8) := by
  decide

/-- m = 0 (reader -> c_0 -> consumer), unbuffered and buffered -/
theorem zero_pools :
    (runSchedule (demo [10, 20, 30] [] 0) (List.replicate 9 0)).main = .ret none ∧
    (runSchedule (demo [10, 20, 30] [] 0) (List.replicate 9 0)).wst = [(0, 10), (1, 20), (2, 30)] ∧
    (runSchedule (demo [10, 20, 30] [] 2) (List.replicate 12 0)).wst = [(0, 10), (1, 20), (2, 30)] := by
  decide

/-- the hypothesis N_j ≥ 1 is needed: an empty pool B strands the record in c_1 and main returns nil -/
theorem empty_pool_loses_record :
    (runSchedule (demo [10] [pA 1 1, pB 0 1] 1) (List.replicate 20 0)).main = .ret none ∧
    (runSchedule (demo [10] [pA 1 1, pB 0 1] 1) (List.replicate 20 0)).wst = [] := by
  decide

/-- m = 2, three items, pools of two and two workers, the re-ordering writer -/
def rdemo : Cfg Nat Nat (Reorder.St Nat) where
  items := [10, 20, 30]
  pools := [pA 2 2, pB 2 2]
  cap0 := 1
  readFail := none
  absorb := fun st r => .ok (Reorder.recv st r)
  finish := fun st => .ok st
  init := ⟨[], 0, []⟩

def sched1 : List Nat := List.replicate 29 0
def sched2 : List Nat := [0, 0, 0, 1, 2, 1, 1, 2, 1, 1, 1, 1] ++ List.replicate 17 0

/-- two schedules, two arrival orders at the writer, one output -/
example :
    (runSchedule rdemo sched1).arrival = [(0, 22), (1, 42), (2, 62)] ∧
    (runSchedule rdemo sched2).arrival = [(1, 42), (0, 22), (2, 62)] ∧
    (runSchedule rdemo sched1).wst.out = [22, 42, 62] ∧
    (runSchedule rdemo sched2).wst.out = [22, 42, 62] ∧
    (runSchedule rdemo sched1).main = .ret none ∧
    (runSchedule rdemo sched2).main = .ret none := by
  decide

/-- and the general theorem says the same about every schedule of rdemo -/
example (sched : List Nat) (h : (runSchedule rdemo sched).main = .ret none) :
    (runSchedule rdemo sched).wst.out = [22, 42, 62] := by
  have := chain_reorder_writer_in_order (cfg := rdemo) (by decide) (fun _ _ => rfl) (fun _ => rfl) rfl
    (runSchedule_reach rdemo sched) h
  have h2 : (runSchedule rdemo sched).wst.out.map (Except.ok (ε := Nat)) = [22, 42, 62].map Except.ok := this
  exact (List.map_inj_right (fun a b h => Except.ok.inj h)).mp h2

end Demo

/-! ### m = 1: the generic model is Model/Sched.lean -/

namespace OnePool
open Gofasta.Model

/-- a Model/Sched configuration as a chain with one pool -/
def ofSched (c : Sched.Cfg γ γ ε σ) : Cfg γ ε σ where
  items := c.items
  pools := [⟨c.N, c.f, c.capOut⟩]
  cap0 := c.capIn
  readFail := c.readFail
  absorb := c.absorb
  finish := c.finish
  init := c.init

def embMain : Sched.MPc ε → MPc ε
  | .stage1 => .stage 0
  | .stage2 => .stage 1
  | .stage3 => .stage 2
  | .ret r => .ret r

/-- a Model/Sched state as a state of the chain model -/
def emb (t : Sched.State γ γ ε σ) : State γ ε σ where
  reader := t.reader
  workers := [t.workers]
  waiters := [t.waiter]
  writer := t.writer
  main := embMain t.main
  chans := [t.cIn, t.cOut]
  wst := t.wst
  arrival := t.arrival
  panicked := t.panicked

def embLabel : Sched.Label → Label
  | .readerSend => .send .reader
  | .workerRecv w => .recv (.worker 0 w)
  | .handIn w => .hand .reader (.worker 0 w)
  | .workerClosed w => .closed (.worker 0 w)
  | .workerSend w => .send (.worker 0 w)
  | .writerRecv => .recv .writer
  | .handOut w => .hand (.worker 0 w) .writer
  | .writerClosed => .closed .writer
  | .wait => .wait 0
  | .mainErrReader => .mainErr .reader
  | .mainErrWorker w => .mainErr (.worker 0 w)
  | .mainErrWriter => .mainErr .writer
  | .mainReadDone => .mainDone
  | .mainWgDone => .mainDone
  | .mainWriteDone => .mainDone

variable {c : Sched.Cfg γ γ ε σ}

theorem pass_ofSched (x : γ) : pass (ofSched c).pools x = c.f x := by
  simp only [ofSched, pass]
  cases c.f x <;> rfl

theorem emb_final (t : Sched.State γ γ ε σ) : (emb t).final = t.final := by
  simp only [State.final, Sched.State.final, emb]
  cases t.main <;> rfl

theorem emb_init : init (ofSched c) = emb (Sched.init c) := rfl

theorem rnext_ofSched (j : Nat) : Sched.rnext (ofSched c).rd j = Sched.rnext c j := rfl

theorem wnext_ofSched (r : Nat × γ) : wnext ⟨c.N, c.f, c.capOut⟩ r = Sched.wnext c r := rfl

theorem absorbInto_emb (t : Sched.State γ γ ε σ) (r : Nat × γ) :
    absorbInto (ofSched c) (emb t) r = emb (Sched.absorbInto c t r) := by
  simp only [absorbInto, Sched.absorbInto, ofSched, emb]
  cases c.absorb t.wst r <;> rfl

/-- every step of Model/Sched (from a state satisfying its invariant) is the same step of the chain model
    with one pool -/
theorem sched_step_chain {t t' : Sched.State γ γ ε σ} {l : Sched.Label} (hI : Gofasta.Lemmas.Sched.Inv c t)
    (hs : Sched.step? c t l = some t') : step? (ofSched c) (emb t) (embLabel l) = some (emb t') := by
  unfold Sched.step? at hs
  by_cases hnf : t.final = true
  · simp [hnf] at hs
  · have hnf' : t.final = false := by simpa using hnf
    have hnfe : (emb t).final = false := by rw [emb_final]; exact hnf'
    simp only [hnf', Bool.false_eq_true, if_false] at hs
    cases l with
    | readerSend =>
      replace hs : Sched.stepReaderSend c t = some t' := hs
      unfold Sched.stepReaderSend at hs
      split at hs
      · rename_i i hr hc
        have := hI.rClosed.mpr hc; rw [hr] at this; cases this
      · rename_i i hr hc
        split at hs
        · rename_i x hx
          split at hs
          · rename_i hroom
            cases hs
            simp only [step?, embLabel, hnfe, stepSend, sndVal, Snd.chan]
            simp [emb, hr, hc, ofSched, hx, capOf, hroom, putChan, sndAdvance]
            rfl
          · cases hs
        · cases hs
      · cases hs
    | workerRecv w =>
      replace hs : Sched.stepWorkerRecv c t w = some t' := hs
      unfold Sched.stepWorkerRecv at hs
      split at hs
      · rename_i r rest hw hq
        cases hs
        simp only [step?, embLabel, hnfe, stepRecv, rcvReady, Rcv.chan, getW]
        simp [emb, hw, hq, ofSched, putChan, rcvDeliver, setW]
        rfl
      · cases hs
    | handIn w =>
      replace hs : Sched.stepHandIn c t w = some t' := hs
      unfold Sched.stepHandIn at hs
      split at hs
      · rename_i i hr hw hc hcap
        split at hs
        · rename_i x hx
          cases hs
          simp only [step?, embLabel, hnfe, stepHand, rcvReady, Rcv.chan, Snd.chan, sndVal, getW]
          simp [emb, hr, hw, hc, hcap, hx, ofSched, capOf, rcvDeliver, sndAdvance, setW]
          exact ⟨rfl, rfl⟩
        · cases hs
      · cases hs
    | workerClosed w =>
      replace hs : Sched.stepWorkerClosed t w = some t' := hs
      unfold Sched.stepWorkerClosed at hs
      split at hs
      · rename_i hw hc hq
        cases hs
        simp only [step?, embLabel, hnfe, stepClosed, rcvReady, Rcv.chan, getW]
        simp [emb, hw, hc, hq, ofSched, rcvEnd, setW]
      · cases hs
    | workerSend w =>
      replace hs : Sched.stepWorkerSend c t w = some t' := hs
      unfold Sched.stepWorkerSend at hs
      split at hs
      · rename_i i y hw hc
        have hmem := List.mem_of_getElem? hw
        have := hI.tWait (fun e => by have := hI.tClosed.mpr hc; rw [e] at this; cases this) _ hmem
        cases this
      · rename_i i y hw hc
        split at hs
        · rename_i hroom
          cases hs
          simp only [step?, embLabel, hnfe, stepSend, sndVal, Snd.chan, getW]
          simp [emb, hw, hc, hroom, ofSched, capOf, putChan, sndAdvance, setW]
        · cases hs
      · cases hs
    | writerRecv =>
      replace hs : Sched.stepWriterRecv c t = some t' := hs
      unfold Sched.stepWriterRecv at hs
      split at hs
      · rename_i r rest hw hq
        cases hs
        rw [← absorbInto_emb]
        simp only [step?, embLabel, hnfe, stepRecv, rcvReady, Rcv.chan]
        simp [emb, hw, hq, ofSched, putChan, rcvDeliver, Cfg.m]
      · cases hs
    | handOut w =>
      replace hs : Sched.stepHandOut c t w = some t' := hs
      unfold Sched.stepHandOut at hs
      split at hs
      · rename_i i y hw hwr hc hcap
        cases hs
        rw [← absorbInto_emb]
        simp only [step?, embLabel, hnfe, stepHand, rcvReady, Rcv.chan, Snd.chan, sndVal, getW]
        simp [emb, hw, hwr, hc, hcap, ofSched, capOf, rcvDeliver, sndAdvance, setW, Cfg.m]
      · cases hs
    | writerClosed =>
      replace hs : Sched.stepWriterClosed c t = some t' := hs
      unfold Sched.stepWriterClosed at hs
      split at hs
      · rename_i hw hc hq
        simp only [step?, embLabel, hnfe, stepClosed, rcvReady, Rcv.chan]
        simp [emb, hw, hc, hq, ofSched, rcvEnd, Cfg.m]
        split at hs <;> cases hs <;> simp [*]
      · cases hs
    | wait =>
      replace hs : Sched.stepWait t = some t' := hs
      unfold Sched.stepWait at hs
      split at hs
      · rename_i hw
        split at hs
        · rename_i hall
          cases hs
          simp only [step?, embLabel, hnfe, stepWait]
          simp [emb, hw, hall]
        · cases hs
      · cases hs
    | mainErrReader =>
      replace hs : Sched.stepMainErrReader t = some t' := hs
      unfold Sched.stepMainErrReader at hs
      split at hs
      · rename_i e hr
        cases hs
        simp only [step?, embLabel, hnfe, stepMainErr, errOf]
        simp [emb, hr, embMain]
      · cases hs
    | mainErrWorker w =>
      replace hs : Sched.stepMainErrWorker t w = some t' := hs
      unfold Sched.stepMainErrWorker at hs
      split at hs
      · rename_i i e hw
        cases hs
        simp only [step?, embLabel, hnfe, stepMainErr, errOf, getW]
        simp [emb, hw, embMain]
      · cases hs
    | mainErrWriter =>
      replace hs : Sched.stepMainErrWriter t = some t' := hs
      unfold Sched.stepMainErrWriter at hs
      split at hs
      · rename_i e hw
        cases hs
        simp only [step?, embLabel, hnfe, stepMainErr, errOf]
        simp [emb, hw, embMain]
      · cases hs
    | mainReadDone =>
      replace hs : Sched.stepMainReadDone t = some t' := hs
      unfold Sched.stepMainReadDone at hs
      split at hs
      · rename_i hm hr
        have hc := (hI.m1 hm).1
        simp only [hc] at hs
        cases hs
        simp only [step?, embLabel, hnfe, stepMainDone]
        simp [emb, hm, hr, hc, embMain, ofSched, Cfg.m, stepDoneReader]
      · cases hs
    | mainWgDone =>
      replace hs : Sched.stepMainWgDone t = some t' := hs
      unfold Sched.stepMainWgDone at hs
      split at hs
      · rename_i hm hw
        have hc := (hI.m2 hm).2
        simp only [hc] at hs
        cases hs
        simp only [step?, embLabel, hnfe, stepMainDone]
        simp [emb, hm, hw, hc, embMain, ofSched, Cfg.m, stepDoneWaiter]
      · cases hs
    | mainWriteDone =>
      replace hs : Sched.stepMainWriteDone t = some t' := hs
      unfold Sched.stepMainWriteDone at hs
      split at hs
      · rename_i hm hw
        cases hs
        simp only [step?, embLabel, hnfe, stepMainDone]
        simp [emb, hm, hw, embMain, ofSched, Cfg.m, stepDoneWriter]
      · cases hs

theorem getW_emb (t : Sched.State γ γ ε σ) (j w : Nat) :
    getW (emb t) j w = if j = 0 then t.workers[w]? else none := by
  cases j with
  | zero => simp [getW, emb]
  | succ j => simp [getW, emb]

/-- every enabled label of the chain model with one pool is (the image of) an enabled label of Model/Sched -/
theorem chain_enabled_sched {t : Sched.State γ γ ε σ} {s' : State γ ε σ} {l : Label}
    (hs : step? (ofSched c) (emb t) l = some s') :
    ∃ l', embLabel l' = l ∧ (Sched.step? c t l').isSome = true := by
  unfold step? at hs
  by_cases hnfe : (emb t).final = true
  · simp [hnfe] at hs
  · have hnfe' : (emb t).final = false := by simpa using hnfe
    have hnf : t.final = false := by rw [← emb_final]; exact hnfe'
    simp only [hnfe', Bool.false_eq_true, if_false] at hs
    cases l with
    | send a =>
      have hsome : (stepSend (ofSched c) (emb t) a).isSome = true := by
        have : stepSend (ofSched c) (emb t) a = some s' := hs
        rw [this]; rfl
      cases a with
      | reader =>
        refine ⟨.readerSend, rfl, ?_⟩
        simp only [stepSend, sndVal, Snd.chan] at hsome
        cases hr : t.reader with
        | sending i =>
          cases hx : c.items[i]? with
          | none => simp [emb, hr, ofSched, hx] at hsome
          | some x =>
            cases hc : t.cIn.closed with
            | true => simp [Sched.step?, hnf, Sched.stepReaderSend, hr, hc]
            | false =>
              by_cases hroom : t.cIn.queue.length < c.capIn
              · simp [Sched.step?, hnf, Sched.stepReaderSend, hr, hc, hx, hroom]
              · simp [emb, hr, ofSched, hx, hc, capOf, hroom] at hsome
        | errS e => simp [emb, hr] at hsome
        | doneS => simp [emb, hr] at hsome
        | exited => simp [emb, hr] at hsome
      | worker j w =>
        simp only [stepSend, sndVal, Snd.chan, getW_emb] at hsome
        cases j with
        | succ j => simp at hsome
        | zero =>
          refine ⟨.workerSend w, rfl, ?_⟩
          simp only [if_true] at hsome
          cases hw : t.workers[w]? with
          | none => simp [hw] at hsome
          | some p =>
            cases p with
            | sendOut i y =>
              cases hc : t.cOut.closed with
              | true => simp [Sched.step?, hnf, Sched.stepWorkerSend, hw, hc]
              | false =>
                by_cases hroom : t.cOut.queue.length < c.capOut
                · simp [Sched.step?, hnf, Sched.stepWorkerSend, hw, hc, hroom]
                · simp [emb, hw, ofSched, hc, capOf, hroom] at hsome
            | recv => simp [hw] at hsome
            | errS i e => simp [hw] at hsome
            | exited => simp [hw] at hsome
    | recv b =>
      have hsome : (stepRecv (ofSched c) (emb t) b).isSome = true := by
        have : stepRecv (ofSched c) (emb t) b = some s' := hs
        rw [this]; rfl
      cases b with
      | worker j w =>
        simp only [stepRecv, rcvReady, Rcv.chan, getW_emb] at hsome
        cases j with
        | succ j => simp [ofSched] at hsome
        | zero =>
          refine ⟨.workerRecv w, rfl, ?_⟩
          cases hw : t.workers[w]? with
          | none => simp [hw, ofSched] at hsome
          | some p =>
            cases p with
            | recv =>
              cases hq : t.cIn.queue with
              | nil => simp [hw, ofSched, emb, hq] at hsome
              | cons r rest => simp [Sched.step?, hnf, Sched.stepWorkerRecv, hw, hq]
            | sendOut i y => simp [hw, ofSched] at hsome
            | errS i e => simp [hw, ofSched] at hsome
            | exited => simp [hw, ofSched] at hsome
      | writer =>
        refine ⟨.writerRecv, rfl, ?_⟩
        simp only [stepRecv, rcvReady, Rcv.chan] at hsome
        cases hw : t.writer with
        | recv =>
          cases hq : t.cOut.queue with
          | nil => simp [emb, hw, ofSched, Cfg.m, hq] at hsome
          | cons r rest => simp [Sched.step?, hnf, Sched.stepWriterRecv, hw, hq]
        | errS e => simp [emb, hw] at hsome
        | doneS => simp [emb, hw] at hsome
        | exited => simp [emb, hw] at hsome
    | hand a b =>
      have hsome : (stepHand (ofSched c) (emb t) a b).isSome = true := by
        have : stepHand (ofSched c) (emb t) a b = some s' := hs
        rw [this]; rfl
      unfold stepHand at hsome
      split at hsome
      · rename_i hcond
        obtain ⟨hab, hcap⟩ := hcond
        cases a with
        | reader =>
          cases b with
          | writer => simp [Snd.chan, Rcv.chan, ofSched, Cfg.m] at hab
          | worker j w =>
            simp only [Snd.chan, Rcv.chan] at hab
            subst hab
            refine ⟨.handIn w, rfl, ?_⟩
            simp only [sndVal, rcvReady, Snd.chan, getW_emb, if_true] at hsome
            have hcap' : c.capIn = 0 := hcap
            cases hr : t.reader with
            | sending i =>
              cases hx : c.items[i]? with
              | none => simp [emb, hr, ofSched, hx] at hsome
              | some x =>
                cases hw : t.workers[w]? with
                | none => simp [emb, hr, ofSched, hx, hw] at hsome
                | some p =>
                  cases p with
                  | recv =>
                    cases hc : t.cIn.closed with
                    | true => simp [emb, hr, ofSched, hx, hw, hc] at hsome
                    | false => simp [Sched.step?, hnf, Sched.stepHandIn, hr, hw, hc, hcap', hx]
                  | sendOut i y => simp [emb, hr, ofSched, hx, hw] at hsome
                  | errS i e => simp [emb, hr, ofSched, hx, hw] at hsome
                  | exited => simp [emb, hr, ofSched, hx, hw] at hsome
            | errS e => simp [emb, hr] at hsome
            | doneS => simp [emb, hr] at hsome
            | exited => simp [emb, hr] at hsome
        | worker j w =>
          cases b with
          | worker j2 w2 =>
            simp only [Snd.chan, Rcv.chan] at hab
            subst hab
            simp [rcvReady, ofSched] at hsome
          | writer =>
            simp only [Snd.chan, Rcv.chan, ofSched, Cfg.m, List.length_cons, List.length_nil] at hab
            have hj : j = 0 := by omega
            subst hj
            refine ⟨.handOut w, rfl, ?_⟩
            simp only [sndVal, rcvReady, Snd.chan, getW_emb, if_true] at hsome
            have hcap' : c.capOut = 0 := hcap
            cases hw : t.workers[w]? with
            | none => simp [hw] at hsome
            | some p =>
              cases p with
              | sendOut i y =>
                cases hwr : t.writer with
                | recv =>
                  cases hc : t.cOut.closed with
                  | true => simp [emb, hw, hwr, hc] at hsome
                  | false => simp [Sched.step?, hnf, Sched.stepHandOut, hw, hwr, hc, hcap']
                | errS e => simp [emb, hw, hwr] at hsome
                | doneS => simp [emb, hw, hwr] at hsome
                | exited => simp [emb, hw, hwr] at hsome
              | recv => simp [hw] at hsome
              | errS i e => simp [hw] at hsome
              | exited => simp [hw] at hsome
      · cases hsome
    | closed b =>
      have hsome : (stepClosed (ofSched c) (emb t) b).isSome = true := by
        have : stepClosed (ofSched c) (emb t) b = some s' := hs
        rw [this]; rfl
      cases b with
      | worker j w =>
        simp only [stepClosed, rcvReady, Rcv.chan, getW_emb] at hsome
        cases j with
        | succ j => simp [ofSched] at hsome
        | zero =>
          refine ⟨.workerClosed w, rfl, ?_⟩
          cases hw : t.workers[w]? with
          | none => simp [hw, ofSched] at hsome
          | some p =>
            cases p with
            | recv =>
              cases hc : t.cIn.closed with
              | false => simp [hw, ofSched, emb, hc] at hsome
              | true =>
                cases hq : t.cIn.queue with
                | nil => simp [Sched.step?, hnf, Sched.stepWorkerClosed, hw, hc, hq]
                | cons r rest => simp [hw, ofSched, emb, hc, hq] at hsome
            | sendOut i y => simp [hw, ofSched] at hsome
            | errS i e => simp [hw, ofSched] at hsome
            | exited => simp [hw, ofSched] at hsome
      | writer =>
        refine ⟨.writerClosed, rfl, ?_⟩
        simp only [stepClosed, rcvReady, Rcv.chan] at hsome
        cases hw : t.writer with
        | recv =>
          cases hc : t.cOut.closed with
          | false => simp [emb, hw, ofSched, Cfg.m, hc] at hsome
          | true =>
            cases hq : t.cOut.queue with
            | nil =>
              simp only [Sched.step?, hnf, Sched.stepWriterClosed, hw, hc, hq]
              cases c.finish t.wst <;> simp
            | cons r rest => simp [emb, hw, ofSched, Cfg.m, hc, hq] at hsome
        | errS e => simp [emb, hw] at hsome
        | doneS => simp [emb, hw] at hsome
        | exited => simp [emb, hw] at hsome
    | wait j =>
      have hsome : (stepWait (emb t) j).isSome = true := by
        have : stepWait (emb t) j = some s' := hs
        rw [this]; rfl
      cases j with
      | succ j => simp [stepWait, emb] at hsome
      | zero =>
        refine ⟨.wait, rfl, ?_⟩
        cases hw : t.waiter with
        | waiting =>
          by_cases hall : t.workers.all Sched.WPc.isExited = true
          · simp [Sched.step?, hnf, Sched.stepWait, hw, hall]
          · simp [stepWait, emb, hw, hall] at hsome
        | doneS => simp [stepWait, emb, hw] at hsome
        | exited => simp [stepWait, emb, hw] at hsome
    | mainErr who =>
      have hsome : (stepMainErr (emb t) who).isSome = true := by
        have : stepMainErr (emb t) who = some s' := hs
        rw [this]; rfl
      cases who with
      | reader =>
        refine ⟨.mainErrReader, rfl, ?_⟩
        cases hr : t.reader with
        | errS e => simp [Sched.step?, hnf, Sched.stepMainErrReader, hr]
        | sending i => simp [stepMainErr, errOf, emb, hr] at hsome
        | doneS => simp [stepMainErr, errOf, emb, hr] at hsome
        | exited => simp [stepMainErr, errOf, emb, hr] at hsome
      | writer =>
        refine ⟨.mainErrWriter, rfl, ?_⟩
        cases hw : t.writer with
        | errS e => simp [Sched.step?, hnf, Sched.stepMainErrWriter, hw]
        | recv => simp [stepMainErr, errOf, emb, hw] at hsome
        | doneS => simp [stepMainErr, errOf, emb, hw] at hsome
        | exited => simp [stepMainErr, errOf, emb, hw] at hsome
      | worker j w =>
        simp only [stepMainErr, errOf, getW_emb] at hsome
        cases j with
        | succ j => simp at hsome
        | zero =>
          refine ⟨.mainErrWorker w, rfl, ?_⟩
          cases hw : t.workers[w]? with
          | none => simp [hw] at hsome
          | some p =>
            cases p with
            | errS i e => simp [Sched.step?, hnf, Sched.stepMainErrWorker, hw]
            | recv => simp [hw] at hsome
            | sendOut i y => simp [hw] at hsome
            | exited => simp [hw] at hsome
    | mainDone =>
      have hsome : (stepMainDone (ofSched c) (emb t)).isSome = true := by
        have : stepMainDone (ofSched c) (emb t) = some s' := hs
        rw [this]; rfl
      cases hm : t.main with
      | ret r => simp [stepMainDone, emb, hm, embMain] at hsome
      | stage1 =>
        refine ⟨.mainReadDone, rfl, ?_⟩
        cases hr : t.reader with
        | doneS =>
          simp only [Sched.step?, hnf, Sched.stepMainReadDone, hm, hr]
          cases t.cIn.closed <;> simp
        | sending i => simp [stepMainDone, emb, hm, embMain, ofSched, Cfg.m, stepDoneReader, hr] at hsome
        | errS e => simp [stepMainDone, emb, hm, embMain, ofSched, Cfg.m, stepDoneReader, hr] at hsome
        | exited => simp [stepMainDone, emb, hm, embMain, ofSched, Cfg.m, stepDoneReader, hr] at hsome
      | stage2 =>
        refine ⟨.mainWgDone, rfl, ?_⟩
        cases hw : t.waiter with
        | doneS =>
          simp only [Sched.step?, hnf, Sched.stepMainWgDone, hm, hw]
          cases t.cOut.closed <;> simp
        | waiting => simp [stepMainDone, emb, hm, embMain, ofSched, Cfg.m, stepDoneWaiter, hw] at hsome
        | exited => simp [stepMainDone, emb, hm, embMain, ofSched, Cfg.m, stepDoneWaiter, hw] at hsome
      | stage3 =>
        refine ⟨.mainWriteDone, rfl, ?_⟩
        cases hw : t.writer with
        | doneS => simp [Sched.step?, hnf, Sched.stepMainWriteDone, hm, hw]
        | recv => simp [stepMainDone, emb, hm, embMain, ofSched, Cfg.m, stepDoneWriter, hw] at hsome
        | errS e => simp [stepMainDone, emb, hm, embMain, ofSched, Cfg.m, stepDoneWriter, hw] at hsome
        | exited => simp [stepMainDone, emb, hm, embMain, ofSched, Cfg.m, stepDoneWriter, hw] at hsome

/-- every step of the chain model with one pool is a step of Model/Sched -/
theorem chain_step_sched {t : Sched.State γ γ ε σ} {s' : State γ ε σ} {l : Label}
    (hI : Gofasta.Lemmas.Sched.Inv c t) (hs : step? (ofSched c) (emb t) l = some s') :
    ∃ l' t', embLabel l' = l ∧ Sched.step? c t l' = some t' ∧ s' = emb t' := by
  obtain ⟨l', hl, hsome⟩ := chain_enabled_sched hs
  obtain ⟨t', ht'⟩ := Option.isSome_iff_exists.mp hsome
  refine ⟨l', t', hl, ht', ?_⟩
  have := sched_step_chain hI ht'
  rw [hl, hs] at this
  exact Option.some.inj this

theorem reach_emb {t : Sched.State γ γ ε σ} (h : Sched.Reach c t) : Reach (ofSched c) (emb t) := by
  induction h with
  | init => rw [← emb_init]; exact Reach.init
  | step l hr hs ih => exact Reach.step _ ih (sched_step_chain (Gofasta.Lemmas.Sched.reach_inv hr) hs)

theorem reach_is_emb {s : State γ ε σ} (h : Reach (ofSched c) s) : ∃ t, Sched.Reach c t ∧ s = emb t := by
  induction h with
  | init => exact ⟨Sched.init c, Sched.Reach.init, emb_init⟩
  | step l _ hs ih =>
    obtain ⟨t, hr, rfl⟩ := ih
    obtain ⟨l', t', _, ht', rfl⟩ := chain_step_sched (Gofasta.Lemmas.Sched.reach_inv hr) hs
    exact ⟨t', Sched.Reach.step l' hr ht', rfl⟩

/-- for m = 1 the chain model and Model/Sched.lean have the same reachable states (a bisimulation:
    `emb` maps states, `embLabel` maps labels, steps correspond one to one) -/
theorem chain_one_pool_agrees {s : State γ ε σ} :
    Reach (ofSched c) s ↔ ∃ t, Sched.Reach c t ∧ s = emb t :=
  ⟨reach_is_emb, fun ⟨_, hr, e⟩ => e ▸ reach_emb hr⟩

/-- hence the same outcomes: what main returns, together with the writer's state -/
theorem chain_one_pool_outcomes (r : Option ε) (w : σ) :
    (∃ s, Reach (ofSched c) s ∧ s.main = .ret r ∧ s.wst = w) ↔
    (∃ t, Sched.Reach c t ∧ t.main = .ret r ∧ t.wst = w) := by
  constructor
  · rintro ⟨s, hr, hm, hw⟩
    obtain ⟨t, ht, rfl⟩ := reach_is_emb hr
    refine ⟨t, ht, ?_, hw⟩
    cases hmt : t.main <;> simp [emb, embMain, hmt] at hm
    rw [hm]
  · rintro ⟨t, ht, hm, hw⟩
    exact ⟨emb t, reach_emb ht, by simp [emb, embMain, hm], hw⟩

/-- and the chain theorems instantiate to the statements of Lemmas/SchedProofs.lean, e.g. T1 -/
theorem chain_one_pool_T1 {s : State γ ε σ} (hN : 1 ≤ c.N) (hr : Reach (ofSched c) s)
    (hm : s.main = .ret none) :
    c.readFail = none ∧ (∀ x ∈ c.items, ∃ y, c.f x = .ok y) ∧
    ∃ recs : List (Nat × γ),
      (recs.map Prod.fst).Perm (List.range c.items.length) ∧
      (∀ r ∈ recs, ∃ x, c.items[r.1]? = some x ∧ c.f x = .ok r.2) ∧
      ∃ st, Sched.absorbAll c.absorb c.init recs = .ok st ∧ c.finish st = .ok s.wst := by
  have hN' : ∀ P ∈ (ofSched c).pools, 1 ≤ P.N := by
    intro P hP; simp [ofSched] at hP; subst hP; exact hN
  obtain ⟨h1, h2, recs, h3, h4, h5⟩ := chain_success_means_complete hN' hr hm
  refine ⟨h1, ?_, recs, h3, ?_, h5⟩
  · intro x hx; obtain ⟨y, hy⟩ := h2 x hx; exact ⟨y, by rw [← pass_ofSched (c := c)]; exact hy⟩
  · intro r hr'; obtain ⟨x, hx, hp⟩ := h4 r hr'; exact ⟨x, hx, by rw [← pass_ofSched (c := c)]; exact hp⟩

end OnePool

end Gofasta.Lemmas.SchedChain
