import Gofasta.Model.Sam
import Gofasta.Spec.Sam
import Gofasta.Props.C01
/-
The CIGAR walk of the model writes, at every reference position it spans, exactly what the SAM
alignment relation (Spec.covList) says about that position.
-/
namespace Gofasta.Lemmas
open Gofasta Model Spec Gofasta.Props.C01

def covByte : Option Cov → Nat
  | some (.base b) => b
  | some .del => dash
  | none => star

def covLookup (l : List (Nat × Cov)) (i : Nat) : Option Cov := (l.find? fun e => e.1 == i).map (·.2)

/-- every position recorded by the relation lies at or after the walk's current reference position -/
theorem covList_ge (seq : List Nat) : ∀ (cigar : List (Nat × Nat)) (q r : Nat), ∀ e ∈ covList seq cigar q r, r ≤ e.1 := by
  intro cigar
  induction cigar with
  | nil => intro q r e he; simp [covList] at he
  | cons c rest ih =>
    intro q r e he
    obtain ⟨op, len⟩ := c
    simp only [covList] at he
    split at he
    · rcases List.mem_append.1 he with h | h
      · simp only [List.mem_map, List.mem_range] at h
        obtain ⟨k, _, rfl⟩ := h; simp
      · have := ih _ _ e h; omega
    · split at he
      · rcases List.mem_append.1 he with h | h
        · simp only [List.mem_map, List.mem_range] at h
          obtain ⟨k, _, rfl⟩ := h; simp
        · have := ih _ _ e h; omega
      · split at he
        · have := ih _ _ e he; omega
        · split at he
          · exact ih _ _ e he
          · exact ih _ _ e he

theorem covLookup_append_left (a b : List (Nat × Cov)) (i : Nat) (h : ∃ e ∈ a, e.1 = i) :
    covLookup (a ++ b) i = covLookup a i := by
  unfold covLookup
  rw [List.find?_append]
  obtain ⟨e, he, hi⟩ := h
  cases hf : a.find? (fun e => e.1 == i) with
  | none =>
    have := List.find?_eq_none.1 hf e he
    simp [hi] at this
  | some x => simp

theorem covLookup_append_right (a b : List (Nat × Cov)) (i : Nat) (h : ∀ e ∈ a, e.1 ≠ i) :
    covLookup (a ++ b) i = covLookup b i := by
  unfold covLookup
  rw [List.find?_append]
  have : a.find? (fun e => e.1 == i) = none := by
    rw [List.find?_eq_none]
    intro e he
    simpa using h e he
  simp [this]

theorem covLookup_none_of_gt (l : List (Nat × Cov)) (i : Nat) (h : ∀ e ∈ l, i < e.1) : covLookup l i = none := by
  unfold covLookup
  have : l.find? (fun e => e.1 == i) = none := by
    rw [List.find?_eq_none]
    intro e he
    have := h e he
    simp; omega
  simp [this]

/-- look-up inside the block of positions written by one aligned / deleted operator -/
theorem covLookup_block (f : Nat → Cov) (r len j : Nat) (hj : j < len) :
    covLookup ((List.range len).map fun k => (r + k, f k)) (r + j) = some (f j) := by
  unfold covLookup
  induction len generalizing j with
  | zero => omega
  | succ n ih =>
    rw [List.range_succ, List.map_append, List.find?_append]
    by_cases hjn : j < n
    · have := ih j hjn
      cases hf : ((List.range n).map fun k => (r + k, f k)).find? (fun e => e.1 == r + j) with
      | none => rw [hf] at this; simp at this
      | some x => rw [hf] at this; simpa using this
    · have hjn' : j = n := by omega
      subst hjn'
      have : ((List.range j).map fun k => (r + k, f k)).find? (fun e => e.1 == r + j) = none := by
        rw [List.find?_eq_none]
        intro e he
        simp only [List.mem_map, List.mem_range] at he
        obtain ⟨k, hk, rfl⟩ := he
        simp; omega
      simp [this]

/-- the row written for one operator, position by position -/
theorem emit_eq_map (kind len q r : Nat) (seq : List Nat) (hq : kind = 1 → q + len ≤ seq.length) (hk : kind = 1 ∨ kind = 2 ∨ kind = 3) :
    emit kind len q r seq [] = (List.range len).map fun j =>
      if kind = 1 then seq.getD (q + j) 0 else if kind = 2 then dash else star := by
  rcases hk with rfl | rfl | rfl
  · simp only [emit, if_true]
    apply List.ext_getElem
    · simp [List.length_take, List.length_drop]; have := hq rfl; omega
    · intro i h1 h2
      simp only [List.getElem_take, List.getElem_drop, List.getElem_map, List.getElem_range]
      simp only [List.length_take, List.length_drop] at h1
      have : q + i < seq.length := by have := hq rfl; omega
      simp [List.getD_eq_getElem?_getD, this]
  · simp [emit, List.map_const']
  · simp [emit, List.map_const']

end Gofasta.Lemmas

namespace Gofasta.Lemmas
open Gofasta Model Spec Gofasta.Props.C01

theorem range_add_map {β : Type} (f : Nat → β) (a n : Nat) :
    (List.range (a + n)).map f = (List.range a).map f ++ (List.range n).map (fun j => f (a + j)) := by
  rw [List.range_add, List.map_append, List.map_map]
  rfl

theorem opEntry_noins_cases (op : Nat) :
    (op = 0 ∨ op = 7 ∨ op = 8) ∧ opEntry samNoIns op = some (true, true, 1, 0) ∨
    op = 2 ∧ opEntry samNoIns op = some (false, true, 2, 0) ∨
    op = 3 ∧ opEntry samNoIns op = some (false, true, 3, 0) ∨
    (op = 1 ∨ op = 4) ∧ opEntry samNoIns op = some (true, false, 0, 0) ∨
    (op = 5 ∨ op = 6) ∧ opEntry samNoIns op = some (false, false, 0, 0) ∨
    9 ≤ op ∧ opEntry samNoIns op = none := by
  by_cases h : op < 9
  · have : op = 0 ∨ op = 1 ∨ op = 2 ∨ op = 3 ∨ op = 4 ∨ op = 5 ∨ op = 6 ∨ op = 7 ∨ op = 8 := by omega
    rcases this with rfl | rfl | rfl | rfl | rfl | rfl | rfl | rfl | rfl <;> simp [opEntry, samNoIns]
  · right; right; right; right; right
    refine ⟨by omega, ?_⟩
    unfold opEntry samNoIns
    have hne : ∀ k, k < 9 → (k == op) = false := by intro k hk; simp; omega
    simp [List.find?, hne]

/-- **the walk writes the alignment relation**: at offset j of the stretch of reference the CIGAR spans, the row
    holds the base the relation aligns to that position, '-' if it deletes it, no-coverage otherwise -/
theorem walk_cov : ∀ (cigar : List (Nat × Nat)) (seq : List Nat) (q r : Nat), q + qSpan samNoIns cigar ≤ seq.length →
    (walkOps samNoIns seq [] cigar q r).1 =
      (List.range (refSpan samNoIns cigar)).map fun j => covByte (covLookup (covList seq cigar q r) (r + j)) := by
  intro cigar
  induction cigar with
  | nil => intro seq q r _; simp [walkOps, refSpan]
  | cons c rest ih =>
    intro seq q r hq
    obtain ⟨op, len⟩ := c
    simp only [walkOps, refSpan, qSpan, covList] at hq ⊢
    rcases opEntry_noins_cases op with ⟨hop, he⟩ | ⟨hop, he⟩ | ⟨hop, he⟩ | ⟨hop, he⟩ | ⟨hop, he⟩ | ⟨hop, he⟩
    · -- M = X : aligned bases
      have hal : isAligned op = true := by rcases hop with rfl | rfl | rfl <;> rfl
      simp only [he, hal, if_true] at hq ⊢
      rw [range_add_map, ih seq (q + len) (r + len) (by omega),
        emit_eq_map 1 len q r seq (by intro _; omega) (Or.inl rfl)]
      congr 1
      · apply List.map_congr_left
        intro j hj
        have hj' := List.mem_range.1 hj
        rw [covLookup_append_left _ _ _ ⟨(r + j, Cov.base (seq.getD (q + j) 0)),
          List.mem_map.2 ⟨j, hj, rfl⟩, rfl⟩, covLookup_block (fun k => Cov.base (seq.getD (q + k) 0)) r len j hj']
        simp [covByte]
      · apply List.map_congr_left
        intro j _
        rw [covLookup_append_right]
        · congr 2; omega
        · intro e hem
          simp only [List.mem_map, List.mem_range] at hem
          obtain ⟨k, hk, rfl⟩ := hem
          simp; omega
    · -- D : deleted reference bases
      subst hop
      have hal : isAligned 2 = false := rfl
      simp only [he, hal, Bool.false_eq_true, if_false, beq_self_eq_true, if_true] at hq ⊢
      rw [range_add_map, ih seq q (r + len) (by omega), emit_eq_map 2 len q r seq (by intro h; cases h) (Or.inr (Or.inl rfl))]
      congr 1
      · apply List.map_congr_left
        intro j hj
        have hj' := List.mem_range.1 hj
        rw [covLookup_append_left _ _ _ ⟨(r + j, Cov.del), List.mem_map.2 ⟨j, hj, rfl⟩, rfl⟩,
          covLookup_block (fun _ => Cov.del) r len j hj']
        simp [covByte]
      · apply List.map_congr_left
        intro j _
        rw [covLookup_append_right]
        · congr 2; omega
        · intro e hem
          simp only [List.mem_map, List.mem_range] at hem
          obtain ⟨k, hk, rfl⟩ := hem
          simp; omega
    · -- N : skipped reference bases, no coverage
      subst hop
      have hal : isAligned 3 = false := rfl
      have h2 : ((3 : Nat) == 2) = false := rfl
      simp only [he, hal, h2, Bool.false_eq_true, if_false, beq_self_eq_true, if_true] at hq ⊢
      rw [range_add_map, ih seq q (r + len) (by omega), emit_eq_map 3 len q r seq (by intro h; cases h) (Or.inr (Or.inr rfl))]
      congr 1
      · apply List.map_congr_left
        intro j hj
        have hj' := List.mem_range.1 hj
        rw [covLookup_none_of_gt]
        · simp [covByte]
        · intro e hem
          have := covList_ge seq rest q (r + len) e hem
          omega
      · apply List.map_congr_left
        intro j _
        congr 2; omega
    · -- I S : query only
      have hal : isAligned op = false := by rcases hop with rfl | rfl <;> rfl
      have h2 : (op == 2) = false := by rcases hop with rfl | rfl <;> rfl
      have h3 : (op == 3) = false := by rcases hop with rfl | rfl <;> rfl
      have hq1 : isQueryOnly op = true := by rcases hop with rfl | rfl <;> rfl
      simp only [he, hal, h2, h3, hq1, Bool.false_eq_true, if_false, if_true] at hq ⊢
      rw [ih seq (q + len) r (by omega)]
      simp [emit]
    · -- H P : nothing
      have hal : isAligned op = false := by rcases hop with rfl | rfl <;> rfl
      have h2 : (op == 2) = false := by rcases hop with rfl | rfl <;> rfl
      have h3 : (op == 3) = false := by rcases hop with rfl | rfl <;> rfl
      have hq1 : isQueryOnly op = false := by rcases hop with rfl | rfl <;> rfl
      simp only [he, hal, h2, h3, hq1, Bool.false_eq_true, if_false] at hq ⊢
      rw [ih seq q r (by omega)]
      simp [emit]
    · -- not an operator
      have hal : isAligned op = false := by simp [isAligned]; omega
      have h2 : (op == 2) = false := by simp; omega
      have h3 : (op == 3) = false := by simp; omega
      have hq1 : isQueryOnly op = false := by simp [isQueryOnly]; omega
      simp only [he, hal, h2, h3, hq1, Bool.false_eq_true, if_false] at hq ⊢
      rw [ih seq q r (by omega)]
      simp

end Gofasta.Lemmas

namespace Gofasta.Lemmas
open Gofasta Model Spec Gofasta.Props.C01

/-- every position recorded by the relation lies before the end of the stretch the CIGAR spans -/
theorem covList_lt (seq : List Nat) : ∀ (cigar : List (Nat × Nat)) (q r : Nat), ∀ e ∈ covList seq cigar q r,
    e.1 < r + refSpan samNoIns cigar := by
  intro cigar
  induction cigar with
  | nil => intro q r e he; simp [covList] at he
  | cons c rest ih =>
    intro q r e he
    obtain ⟨op, len⟩ := c
    simp only [covList] at he
    simp only [refSpan]
    rcases opEntry_noins_cases op with ⟨hop, hen⟩ | ⟨hop, hen⟩ | ⟨hop, hen⟩ | ⟨hop, hen⟩ | ⟨hop, hen⟩ | ⟨hop, hen⟩
    · have hal : isAligned op = true := by rcases hop with rfl | rfl | rfl <;> rfl
      simp only [hal, if_true] at he
      simp only [hen]
      rcases List.mem_append.1 he with h | h
      · simp only [List.mem_map, List.mem_range] at h
        obtain ⟨k, hk, rfl⟩ := h; simp; omega
      · have := ih _ _ e h; omega
    · subst hop
      have hal : isAligned 2 = false := rfl
      simp only [hal, Bool.false_eq_true, if_false, beq_self_eq_true, if_true] at he
      simp only [hen]
      rcases List.mem_append.1 he with h | h
      · simp only [List.mem_map, List.mem_range] at h
        obtain ⟨k, hk, rfl⟩ := h; simp; omega
      · have := ih _ _ e h; omega
    · subst hop
      have hal : isAligned 3 = false := rfl
      have h2 : ((3 : Nat) == 2) = false := rfl
      simp only [hal, h2, Bool.false_eq_true, if_false, beq_self_eq_true, if_true] at he
      simp only [hen]
      have := ih _ _ e he; omega
    · have hal : isAligned op = false := by rcases hop with rfl | rfl <;> rfl
      have h2 : (op == 2) = false := by rcases hop with rfl | rfl <;> rfl
      have h3 : (op == 3) = false := by rcases hop with rfl | rfl <;> rfl
      have hq1 : isQueryOnly op = true := by rcases hop with rfl | rfl <;> rfl
      simp only [hal, h2, h3, hq1, Bool.false_eq_true, if_false, if_true] at he
      simp only [hen]
      have := ih _ _ e he; omega
    · have hal : isAligned op = false := by rcases hop with rfl | rfl <;> rfl
      have h2 : (op == 2) = false := by rcases hop with rfl | rfl <;> rfl
      have h3 : (op == 3) = false := by rcases hop with rfl | rfl <;> rfl
      have hq1 : isQueryOnly op = false := by rcases hop with rfl | rfl <;> rfl
      simp only [hal, h2, h3, hq1, Bool.false_eq_true, if_false] at he
      simp only [hen]
      have := ih _ _ e he; omega
    · have hal : isAligned op = false := by simp [isAligned]; omega
      have h2 : (op == 2) = false := by simp; omega
      have h3 : (op == 3) = false := by simp; omega
      have hq1 : isQueryOnly op = false := by simp [isQueryOnly]; omega
      simp only [hal, h2, h3, hq1, Bool.false_eq_true, if_false] at he
      simp only [hen]
      have := ih _ _ e he; omega

theorem covAt_eq_lookup (rec : SamRec) (i : Nat) : covAt rec i = covLookup (covOf rec) i := rfl

/-- **C01.walk_row** — the whole reference-length row of one record, position by position -/
theorem walk_row (rec : SamRec) (L : Nat) (hq : qSpan samNoIns rec.cigar ≤ rec.seq.length)
    (hr : rec.pos + refSpan samNoIns rec.cigar ≤ L) :
    walkNoIns rec L = (List.range L).map fun i => covByte (covAt rec i) := by
  unfold walkNoIns
  rw [op_table_is_sam]
  have hbody := walk_cov rec.cigar rec.seq 0 rec.pos (by omega)
  have hlen := walkOps_length rec.cigar rec.seq 0 rec.pos (by omega)
  simp only [List.length_append, List.length_replicate, hlen]
  have hL : L = rec.pos + (refSpan samNoIns rec.cigar + (L - (rec.pos + refSpan samNoIns rec.cigar))) := by omega
  conv => rhs; rw [hL, range_add_map, range_add_map]
  rw [hbody, List.append_assoc]
  have hpre : List.replicate rec.pos star = (List.range rec.pos).map fun i => covByte (covAt rec i) := by
    have : (List.range rec.pos).map (fun i => covByte (covAt rec i)) = (List.range rec.pos).map (fun _ => star) := by
      apply List.map_congr_left
      intro i hi
      have hi' := List.mem_range.1 hi
      rw [covAt_eq_lookup, covLookup_none_of_gt]
      · rfl
      · intro e he
        have := covList_ge rec.seq rec.cigar 0 rec.pos e he
        omega
    rw [this, List.map_const']; simp
  have hpost : List.replicate (L - (rec.pos + refSpan samNoIns rec.cigar)) star =
      (List.range (L - (rec.pos + refSpan samNoIns rec.cigar))).map
        fun j => covByte (covAt rec (rec.pos + (refSpan samNoIns rec.cigar + j))) := by
    have : (List.range (L - (rec.pos + refSpan samNoIns rec.cigar))).map
        (fun j => covByte (covAt rec (rec.pos + (refSpan samNoIns rec.cigar + j)))) =
        (List.range (L - (rec.pos + refSpan samNoIns rec.cigar))).map (fun _ => star) := by
      apply List.map_congr_left
      intro i _
      rw [covAt_eq_lookup]
      have : covLookup (covOf rec) (rec.pos + (refSpan samNoIns rec.cigar + i)) = none := by
        unfold covLookup
        have : (covOf rec).find? (fun e => e.1 == rec.pos + (refSpan samNoIns rec.cigar + i)) = none := by
          rw [List.find?_eq_none]
          intro e he
          have := covList_lt rec.seq rec.cigar 0 rec.pos e he
          simp; omega
        simp [this]
      rw [this]; rfl
    rw [this, List.map_const']; simp
  rw [hpre, hpost]
  rfl

end Gofasta.Lemmas

namespace Gofasta.Lemmas
open Gofasta Model Spec Gofasta.Props.C01

/-- the per-column verdict of the specification for a query with a single record -/
theorem flatCol_single (rec : SamRec) (i : Nat) :
    flatCol [rec] i = match covAt rec i with
      | some (.base b) => some b
      | some .del => some dash
      | none => none := by
  unfold flatCol
  cases h : covAt rec i with
  | none => simp [h]
  | some c =>
    cases c with
    | base b => simp [h, List.eraseDups, List.eraseDupsBy, List.eraseDupsBy.loop]
    | del => simp [h, List.eraseDups, List.eraseDupsBy, List.eraseDupsBy.loop]

/-- what the specification writes for a column before the flank rule, as a byte ('*' = not covered) -/
def colByte (c : Option Nat) : Nat := match c with | some b => b | none => star

/-- the record never writes a no-coverage mark for an aligned base -/
def NoStarBases (rec : SamRec) : Prop := ∀ b ∈ rec.seq, b ≠ star

theorem covByte_eq_colByte (rec : SamRec) (i : Nat) : covByte (covAt rec i) = colByte (flatCol [rec] i) := by
  rw [flatCol_single]
  cases h : covAt rec i with
  | none => rfl
  | some c => cases c <;> rfl

theorem mem_covList_base (seq : List Nat) : ∀ (cigar : List (Nat × Nat)) (q r : Nat) (e : Nat × Cov) (b : Nat),
    q + qSpan samNoIns cigar ≤ seq.length → e ∈ covList seq cigar q r → e.2 = .base b → b ∈ seq := by
  intro cigar
  induction cigar with
  | nil => intro q r e b _ he; simp [covList] at he
  | cons c rest ih =>
    intro q r e b hq he hb
    obtain ⟨op, len⟩ := c
    simp only [covList] at he
    simp only [qSpan] at hq
    rcases opEntry_noins_cases op with ⟨hop, hen⟩ | ⟨hop, hen⟩ | ⟨hop, hen⟩ | ⟨hop, hen⟩ | ⟨hop, hen⟩ | ⟨hop, hen⟩
    · have hal : isAligned op = true := by rcases hop with rfl | rfl | rfl <;> rfl
      simp only [hal, if_true] at he
      simp only [hen] at hq
      rcases List.mem_append.1 he with h | h
      · simp only [List.mem_map, List.mem_range] at h
        obtain ⟨k, hk, rfl⟩ := h
        simp only [Cov.base.injEq] at hb
        subst hb
        have hlt : q + k < seq.length := by omega
        rw [List.getD_eq_getElem?_getD, List.getElem?_eq_getElem hlt]
        exact List.getElem_mem hlt
      · exact ih _ _ e b (by omega) h hb
    · subst hop
      have hal : isAligned 2 = false := rfl
      simp only [hal, Bool.false_eq_true, if_false, beq_self_eq_true, if_true] at he
      simp only [hen] at hq
      rcases List.mem_append.1 he with h | h
      · simp only [List.mem_map, List.mem_range] at h
        obtain ⟨k, hk, rfl⟩ := h
        cases hb
      · exact ih _ _ e b (by omega) h hb
    · subst hop
      have hal : isAligned 3 = false := rfl
      have h2 : ((3 : Nat) == 2) = false := rfl
      simp only [hal, h2, Bool.false_eq_true, if_false, beq_self_eq_true, if_true] at he
      simp only [hen] at hq
      exact ih _ _ e b (by omega) he hb
    · have hal : isAligned op = false := by rcases hop with rfl | rfl <;> rfl
      have h2 : (op == 2) = false := by rcases hop with rfl | rfl <;> rfl
      have h3 : (op == 3) = false := by rcases hop with rfl | rfl <;> rfl
      have hq1 : isQueryOnly op = true := by rcases hop with rfl | rfl <;> rfl
      simp only [hal, h2, h3, hq1, Bool.false_eq_true, if_false, if_true] at he
      simp only [hen] at hq
      exact ih _ _ e b (by omega) he hb
    · have hal : isAligned op = false := by rcases hop with rfl | rfl <;> rfl
      have h2 : (op == 2) = false := by rcases hop with rfl | rfl <;> rfl
      have h3 : (op == 3) = false := by rcases hop with rfl | rfl <;> rfl
      have hq1 : isQueryOnly op = false := by rcases hop with rfl | rfl <;> rfl
      simp only [hal, h2, h3, hq1, Bool.false_eq_true, if_false] at he
      simp only [hen] at hq
      exact ih _ _ e b (by omega) he hb
    · have hal : isAligned op = false := by simp [isAligned]; omega
      have h2 : (op == 2) = false := by simp; omega
      have h3 : (op == 3) = false := by simp; omega
      have hq1 : isQueryOnly op = false := by simp [isQueryOnly]; omega
      simp only [hal, h2, h3, hq1, Bool.false_eq_true, if_false] at he
      simp only [hen] at hq
      exact ih _ _ e b (by omega) he hb

/-- a covered column is never written as no-coverage -/
theorem colByte_star_iff (rec : SamRec) (i : Nat) (hq : qSpan samNoIns rec.cigar ≤ rec.seq.length) (hns : NoStarBases rec) :
    colByte (flatCol [rec] i) = star ↔ flatCol [rec] i = none := by
  rw [flatCol_single]
  cases h : covAt rec i with
  | none => simp [colByte]
  | some c =>
    cases c with
    | del => simp [colByte, dash, star]
    | base b =>
      simp only [colByte]
      constructor
      · intro hb
        exfalso
        unfold covAt at h
        simp only [Option.map_eq_some_iff] at h
        obtain ⟨e, hf, he2⟩ := h
        have hm := List.mem_of_find?_eq_some hf
        exact hns b (mem_covList_base rec.seq rec.cigar 0 rec.pos e b (by omega) hm he2) hb
      · intro hn; cases hn

end Gofasta.Lemmas

namespace Gofasta.Lemmas
open Gofasta Model Spec Gofasta.Props.C01

def isBaseCol (c : Option Nat) : Bool := match c with | some b => isLetter b | none => false

theorem isLetter_colByte (c : Option Nat) : isLetter (colByte c) = isBaseCol c := by
  cases c with
  | none => decide
  | some b => rfl

theorem find?_congr' {α : Type} (p q : α → Bool) : ∀ (l : List α), (∀ x ∈ l, p x = q x) → l.find? p = l.find? q := by
  intro l
  induction l with
  | nil => intro _; rfl
  | cons a t ih =>
    intro h
    simp only [List.find?_cons, h a (List.mem_cons_self)]
    rw [ih (fun x hx => h x (List.mem_cons_of_mem _ hx))]

theorem getD_map_range {β : Type} (f : Nat → β) (L i : Nat) (d : β) (hi : i < L) : ((List.range L).map f).getD i d = f i := by
  simp [List.getD_eq_getElem?_getD, hi]

/-- the row the walk and the flattening leave behind, written with '*' for no coverage -/
def starRow (block : List SamRec) (L : Nat) : List Nat := (List.range L).map fun i => colByte (flatCol block i)

theorem starRow_length (block : List SamRec) (L : Nat) : (starRow block L).length = L := by simp [starRow]

theorem firstLetter_starRow (block : List SamRec) (L : Nat) :
    firstLetterIdx (starRow block L) =
      (List.range L).find? fun i => isBaseCol (((List.range L).map (flatCol block)).getD i none) := by
  unfold firstLetterIdx
  rw [starRow_length]
  apply find?_congr'
  intro i hi
  have hi' : i < L := List.mem_range.1 hi
  rw [getD_map_range _ _ _ _ hi', starRow, getD_map_range _ _ _ _ hi', isLetter_colByte]

theorem lastLetter_starRow (block : List SamRec) (L : Nat) :
    lastLetterIdx (starRow block L) =
      (List.range L).reverse.find? fun i => isBaseCol (((List.range L).map (flatCol block)).getD i none) := by
  unfold lastLetterIdx
  rw [starRow_length]
  apply find?_congr'
  intro i hi
  have hi' : i < L := List.mem_range.1 (List.mem_reverse.1 hi)
  rw [getD_map_range _ _ _ _ hi', starRow, getD_map_range _ _ _ _ hi', isLetter_colByte]

def flankCols (cols : List (Option Nat)) (L : Nat) (pad : Bool) (first last : Option Nat) : List Nat :=
  (cols.zip (List.range L)).map fun (c, i) =>
    match c with
    | some b => b
    | none =>
      if pad then letN else
      match first, last with
      | some f, some l => if f < i ∧ i < l then letN else dash
      | _, _ => dash

theorem specTomaRow_eq (block : List SamRec) (L : Nat) (pad : Bool) :
    specTomaRow block L pad = flankCols ((List.range L).map (flatCol block)) L pad
      ((List.range L).find? fun i => isBaseCol (((List.range L).map (flatCol block)).getD i none))
      ((List.range L).reverse.find? fun i => isBaseCol (((List.range L).map (flatCol block)).getD i none)) := rfl

/-- **C01.pad_rule** — under --pad every position nothing covers is 'N' -/
theorem swapNs_starRow (block : List SamRec) (L : Nat) (hstar : ∀ i b, flatCol block i = some b → b ≠ star) :
    swapInNs (starRow block L) = specTomaRow block L true := by
  apply List.ext_getElem
  · simp [swapInNs, starRow, specTomaRow]
  · intro n h1 h2
    have hn : n < L := by simpa [swapInNs, starRow] using h1
    simp only [swapInNs, starRow, specTomaRow, List.getElem_map, List.getElem_zip, List.getElem_range]
    cases hc : flatCol block n with
    | none => simp [colByte]
    | some b => simp [colByte, hstar n b hc]

/-- **C01.flank_rule** — without --pad a position nothing covers is '-' outside the query's first and last aligned
base and 'N' strictly between them -/
theorem swapGaps_starRow (block : List SamRec) (L : Nat) (hstar : ∀ i b, flatCol block i = some b → b ≠ star) :
    swapInGapsNs (starRow block L) = specTomaRow block L false := by
  unfold swapInGapsNs
  rw [firstLetter_starRow, lastLetter_starRow]
  rw [specTomaRow_eq]
  unfold flankCols
  generalize hF : ((List.range L).find? fun i => isBaseCol (((List.range L).map (flatCol block)).getD i none)) = F
  generalize hLs : ((List.range L).reverse.find? fun i => isBaseCol (((List.range L).map (flatCol block)).getD i none)) = Ls
  have hstarLetter : isLetter star = false := by decide
  cases F with
  | none =>
    apply List.ext_getElem
    · simp [starRow]
    · intro n h1 h2
      simp only [starRow, List.getElem_map, List.getElem_zip, List.getElem_range]
      cases hc : flatCol block n with
      | none => simp [colByte]
      | some b => simp [colByte, hstar n b hc]
  | some f =>
    cases Ls with
    | none =>
      apply List.ext_getElem
      · simp [starRow]
      · intro n h1 h2
        simp only [starRow, List.getElem_map, List.getElem_zip, List.getElem_range]
        cases hc : flatCol block n with
        | none => simp [colByte]
        | some b => simp [colByte, hstar n b hc]
    | some l =>
      have hf := List.find?_some hF
      have hfm := List.mem_range.1 (List.mem_of_find?_eq_some hF)
      have hl := List.find?_some hLs
      have hlm := List.mem_range.1 (List.mem_reverse.1 (List.mem_of_find?_eq_some hLs))
      rw [getD_map_range _ _ _ _ hfm] at hf
      rw [getD_map_range _ _ _ _ hlm] at hl
      apply List.ext_getElem
      · simp [starRow]
      · intro n h1 h2
        simp only [starRow, List.getElem_map, List.getElem_zip, List.getElem_range, List.length_map, List.length_range]
        cases hc : flatCol block n with
        | some b => simp [colByte, hstar n b hc]
        | none =>
          have hnf : n ≠ f := by intro e; subst e; rw [hc] at hf; cases hf
          have hnl : n ≠ l := by intro e; subst e; rw [hc] at hl; cases hl
          simp only [colByte, if_true]
          by_cases h1 : n < f
          · have : ¬ (f < n ∧ n < l) := by omega
            simp [h1, this]
          · by_cases h2 : n > l
            · have : ¬ (f < n ∧ n < l) := by omega
              simp [h1, h2, this]
            · have : f < n ∧ n < l := by omega
              simp [h1, h2, this]

/-- **C01.single_record_row** — a query aligned by one record: the row written (before windowing) is the
specification's row, every column of it, for either setting of --pad -/
theorem single_record_row (rec : SamRec) (L : Nat) (pad : Bool)
    (hq : qSpan samNoIns rec.cigar ≤ rec.seq.length) (hr : rec.pos + refSpan samNoIns rec.cigar ≤ L)
    (hns : NoStarBases rec) (s e : Nat) :
    fastaRecordSeq (walkNoIns rec L) false pad s e = specTomaRow [rec] L pad := by
  have hrow : walkNoIns rec L = starRow [rec] L := by
    rw [walk_row rec L hq hr]
    unfold starRow
    apply List.map_congr_left
    intro i _
    exact covByte_eq_colByte rec i
  have hstar : ∀ i b, flatCol [rec] i = some b → b ≠ star := by
    intro i b hb hbs
    have := (colByte_star_iff rec i hq hns).1 (by rw [hb]; exact hbs)
    rw [hb] at this; cases this
  unfold fastaRecordSeq
  cases pad with
  | true => simp only [if_true, Bool.false_eq_true, if_false]; rw [hrow]; exact swapNs_starRow [rec] L hstar
  | false => simp only [Bool.false_eq_true, if_false]; rw [hrow]; exact swapGaps_starRow [rec] L hstar

end Gofasta.Lemmas
