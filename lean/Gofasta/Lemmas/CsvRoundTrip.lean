import Gofasta.Model.Csv
/-
C09: what `updown list` writes, `updown topranking` reads back — for every row, whatever the ID.
-/
namespace Gofasta.Lemmas.CsvRT
open Gofasta Model Model.Csv

/-! ### split / join -/

theorem splitB_ne_nil (sep : Nat) : ∀ (s : Bytes), splitB sep s ≠ [] := by
  intro s
  induction s with
  | nil => simp [splitB]
  | cons b t ih =>
    simp only [splitB]
    split
    · simp
    · split
      · simp
      · simp

theorem splitB_plain (sep : Nat) : ∀ (s : Bytes), (∀ b ∈ s, b ≠ sep) → splitB sep s = [s] := by
  intro s
  induction s with
  | nil => intro _; rfl
  | cons b t ih =>
    intro h
    have hb : b ≠ sep := h b (List.mem_cons_self)
    simp only [splitB, hb, if_false]
    rw [ih (fun x hx => h x (List.mem_cons_of_mem _ hx))]

theorem splitB_append_sep (sep : Nat) : ∀ (s rest : Bytes), (∀ b ∈ s, b ≠ sep) →
    splitB sep (s ++ sep :: rest) = s :: splitB sep rest := by
  intro s
  induction s with
  | nil => intro rest _; simp [splitB]
  | cons b t ih =>
    intro rest h
    have hb : b ≠ sep := h b (List.mem_cons_self)
    simp only [List.cons_append, splitB, hb, if_false]
    rw [ih rest (fun x hx => h x (List.mem_cons_of_mem _ hx))]

/-- splitting a joined list of separator-free parts gives the parts back -/
theorem splitB_joinB (sep : Nat) : ∀ (parts : List Bytes), parts ≠ [] → (∀ p ∈ parts, ∀ b ∈ p, b ≠ sep) →
    splitB sep (joinB sep parts) = parts := by
  intro parts
  induction parts with
  | nil => intro h; exact absurd rfl h
  | cons p t ih =>
    intro _ h
    cases t with
    | nil => simp only [joinB]; exact splitB_plain sep p (h p (List.mem_cons_self))
    | cons q t' =>
      simp only [joinB]
      rw [splitB_append_sep sep p _ (h p (List.mem_cons_self))]
      rw [ih (by simp) (fun x hx => h x (List.mem_cons_of_mem _ hx))]

/-! ### numbers -/

theorem digitsOf_ne_nil (n : Nat) : digitsOf n ≠ [] := by
  unfold digitsOf
  intro h
  exact Nat.toDigits_ne_nil (List.map_eq_nil_iff.1 h)

theorem digitsOf_isDigit (n : Nat) : ∀ b ∈ digitsOf n, isDigitB b = true := by
  intro b hb
  unfold digitsOf at hb
  obtain ⟨c, hc, rfl⟩ := List.mem_map.1 hb
  have hd := Nat.isDigit_of_mem_toDigits (by decide) (by decide) hc
  simp only [Char.isDigit, Bool.and_eq_true, decide_eq_true_eq] at hd
  simp only [isDigitB, Bool.and_eq_true, decide_eq_true_eq]
  have h1 : (48 : Nat) ≤ c.toNat := by
    have := hd.1; exact this
  have h2 : c.toNat ≤ 57 := by
    have := hd.2; exact this
  exact ⟨h1, h2⟩

theorem digitsVal_map (l : List Char) (init : Nat) :
    (l.map Char.toNat).foldl (fun acc b => 10 * acc + (b - 48)) init = Nat.ofDigitChars 10 l init := by
  induction l generalizing init with
  | nil => rfl
  | cons c t ih =>
    simp only [List.map_cons, List.foldl_cons, Nat.ofDigitChars_cons]
    exact ih _

theorem digitsVal_digitsOf (n : Nat) : digitsVal (digitsOf n) = n := by
  unfold digitsVal digitsOf
  rw [digitsVal_map]
  exact Nat.ofDigitChars_ten_toDigits

/-- strconv.Atoi reads back what strconv.Itoa wrote -/
theorem atoi_digitsOf (n : Nat) (hn : n ≤ maxInt64) : atoi (digitsOf n) = some (n : Int) := by
  have hne := digitsOf_ne_nil n
  have hd := digitsOf_isDigit n
  cases hds : digitsOf n with
  | nil => exact absurd hds hne
  | cons b t =>
    have hb : isDigitB b = true := hd b (by rw [hds]; exact List.mem_cons_self)
    have hb45 : b ≠ 45 := by
      intro h; subst h; simp [isDigitB] at hb
    have hb43 : b ≠ 43 := by
      intro h; subst h; simp [isDigitB] at hb
    unfold atoi
    simp only [hb45, hb43, if_false]
    have hall : (b :: t).all isDigitB = true := by
      rw [← hds]; exact List.all_eq_true.2 hd
    have hv : digitsVal (b :: t) = n := by rw [← hds]; exact digitsVal_digitsOf n
    simp [hall, hv, hn]

theorem digit_not (n : Nat) (x : Nat) (hx : isDigitB x = false) : ∀ b ∈ digitsOf n, b ≠ x := by
  intro b hb h
  subst h
  have := digitsOf_isDigit n b hb
  rw [hx] at this; cases this

/-! ### the ambiguity field -/

def flatAmbs (ambs : List (Nat × Nat)) : List Int := ambs.flatMap fun a => [(a.1 : Int), (a.2 : Int)]

def AmbsOk (ambs : List (Nat × Nat)) : Prop := ∀ a ∈ ambs, a.1 ≤ maxInt64 ∧ a.2 ≤ maxInt64

theorem ambB_ne_nil (a : Nat × Nat) : ambB a ≠ [] := by
  unfold ambB
  split
  · exact digitsOf_ne_nil _
  · intro h
    have := digitsOf_ne_nil a.1
    cases hd : digitsOf a.1 with
    | nil => exact this hd
    | cons x t => rw [hd] at h; simp at h

theorem ambB_no_pipe (a : Nat × Nat) : ∀ b ∈ ambB a, b ≠ pipe := by
  intro b hb
  unfold ambB at hb
  split at hb
  · exact digit_not _ pipe (by decide) b hb
  · rcases List.mem_append.1 hb with h | h
    · exact digit_not _ pipe (by decide) b h
    · rcases List.mem_cons.1 h with h | h
      · subst h; decide
      · exact digit_not _ pipe (by decide) b h

theorem joinB_eq_nil (sep : Nat) (parts : List Bytes) (hp : ∀ p ∈ parts, p ≠ []) : joinB sep parts = [] → parts = [] := by
  intro h
  cases parts with
  | nil => rfl
  | cons p t =>
    exfalso
    have hpne := hp p (List.mem_cons_self)
    cases t with
    | nil => simp only [joinB] at h; exact hpne h
    | cons q t' =>
      simp only [joinB] at h
      cases p with
      | nil => exact hpne rfl
      | cons x xs => simp at h

theorem amb_step (A : List Int) (a : Nat × Nat) (h1 : a.1 ≤ maxInt64) (h2 : a.2 ≤ maxInt64) :
    (match splitB dashB (ambB a) with
      | [x] => (match atoi x with | some v => some (A ++ [v, v]) | none => none)
      | [x, y] => (match atoi x, atoi y with | some v, some w => some (A ++ [v, w]) | _, _ => none)
      | _ => none) = some (A ++ [(a.1 : Int), (a.2 : Int)]) := by
  unfold ambB
  by_cases he : a.1 = a.2
  · simp only [he, if_true]
    rw [splitB_plain dashB _ (digit_not _ dashB (by decide))]
    simp only [atoi_digitsOf a.2 h2]
  · simp only [he, if_false]
    rw [splitB_append_sep dashB _ _ (digit_not _ dashB (by decide)), splitB_plain dashB _ (digit_not _ dashB (by decide))]
    simp only [atoi_digitsOf a.1 h1, atoi_digitsOf a.2 h2]

theorem amb_fold : ∀ (ambs : List (Nat × Nat)) (A : List Int), AmbsOk ambs →
    (ambs.map ambB).foldl (fun acc a =>
      match acc with
      | none => none
      | some A =>
        match splitB dashB a with
        | [x] => (match atoi x with | some v => some (A ++ [v, v]) | none => none)
        | [x, y] => (match atoi x, atoi y with | some v, some w => some (A ++ [v, w]) | _, _ => none)
        | _ => none) (some A) = some (A ++ flatAmbs ambs) := by
  intro ambs
  induction ambs with
  | nil => intro A _; simp [flatAmbs]
  | cons a t ih =>
    intro A h
    have ha := h a (List.mem_cons_self)
    simp only [List.map_cons, List.foldl_cons]
    rw [amb_step A a ha.1 ha.2]
    rw [ih _ (fun x hx => h x (List.mem_cons_of_mem _ hx))]
    simp [flatAmbs, List.append_assoc]

/-- getAmbArr reads back the ambiguity column -/
theorem ambArr_render (ambs : List (Nat × Nat)) (h : AmbsOk ambs) :
    ambArr (joinB pipe (ambs.map ambB)) = some (flatAmbs ambs) := by
  unfold ambArr
  by_cases he : joinB pipe (ambs.map ambB) = []
  · have : ambs.map ambB = [] := joinB_eq_nil pipe _ (by
      intro p hp; obtain ⟨a, _, rfl⟩ := List.mem_map.1 hp; exact ambB_ne_nil a) he
    have : ambs = [] := List.map_eq_nil_iff.1 this
    subst this
    simp [joinB, flatAmbs]
  · simp only [he, if_false]
    have hne : ambs.map ambB ≠ [] := by
      intro h0; rw [h0] at he; exact he rfl
    rw [splitB_joinB pipe _ hne (by
      intro p hp; obtain ⟨a, _, rfl⟩ := List.mem_map.1 hp; exact ambB_no_pipe a)]
    have := amb_fold ambs [] h
    rw [List.nil_append] at this
    exact this

/-! ### the SNP field -/

/-- a byte that may stand for a reference or query symbol in a SNP: not a CSV or list delimiter -/
def symOk (b : Nat) : Prop := b ≠ comma ∧ b ≠ quote ∧ b ≠ nl ∧ b ≠ cr ∧ b ≠ pipe

def SnpsOk (snps : List Snp) : Prop := ∀ s ∈ snps, s.1 ≤ maxInt64 ∧ symOk s.2.1 ∧ symOk s.2.2

theorem snpB_inner (s : Snp) : ((snpB s).drop 1).take ((snpB s).length - 2) = digitsOf s.1 := by
  unfold snpB
  have h1 : (s.2.1 :: digitsOf s.1 ++ [s.2.2]).drop 1 = digitsOf s.1 ++ [s.2.2] := rfl
  have h2 : (s.2.1 :: digitsOf s.1 ++ [s.2.2]).length - 2 = (digitsOf s.1).length := by
    simp only [List.length_cons, List.length_append, List.length_nil]; omega
  rw [h1, h2, List.take_left']
  rfl

theorem snpB_len (s : Snp) : ¬ (snpB s).length < 2 := by
  unfold snpB
  simp only [List.length_cons, List.length_append, List.length_nil]
  omega

theorem snpPositions_render : ∀ (snps : List Snp), SnpsOk snps →
    (match snpPositions (snps.map snpB) with | .ok ps => some ps | _ => none) = some (snps.map fun s => (s.1 : Int)) := by
  intro snps
  induction snps with
  | nil => intro _; rfl
  | cons s t ih =>
    intro h
    have hs := h s (List.mem_cons_self)
    have iht := ih (fun x hx => h x (List.mem_cons_of_mem _ hx))
    simp only [List.map_cons, snpPositions, snpB_len s, if_false, snpB_inner s, atoi_digitsOf s.1 hs.1]
    cases hp : snpPositions (t.map snpB) with
    | ok ps => rw [hp] at iht; simp only [Option.some.injEq] at iht; simp [iht]
    | error => rw [hp] at iht; cases iht
    | panic => rw [hp] at iht; cases iht

theorem snpB_no_pipe (s : Snp) (h : symOk s.2.1 ∧ symOk s.2.2) : ∀ b ∈ snpB s, b ≠ pipe := by
  intro b hb
  unfold snpB at hb
  rcases List.mem_cons.1 hb with rfl | hb
  · exact h.1.2.2.2.2
  · rcases List.mem_append.1 hb with hb | hb
    · exact digit_not _ pipe (by decide) b hb
    · simp only [List.mem_singleton] at hb; subst hb; exact h.2.2.2.2.2

theorem snpB_ne_nil (s : Snp) : snpB s ≠ [] := by unfold snpB; simp

/-! ### the reader on rendered fields -/

theorem normalise_noCr : ∀ (n : Nat) (t : Bytes), t.length ≤ n → (∀ b ∈ t, b ≠ cr) → normalise t = t := by
  intro n
  induction n with
  | zero => intro t h _; have : t = [] := by cases t <;> simp_all
            subst this; rfl
  | succ n ih =>
    intro t hl h
    match t, hl, h with
    | [], _, _ => rfl
    | [b], _, h =>
      have : b ≠ cr := h b (List.mem_cons_self)
      simp [normalise, this]
    | a :: b :: t', hl, h =>
      have ha : a ≠ cr := h a (List.mem_cons_self)
      simp only [normalise, ha, false_and, if_false]
      rw [ih (b :: t') (by simp at hl ⊢; omega) (fun x hx => h x (List.mem_cons_of_mem _ hx))]

theorem run_append : ∀ (a b : Bytes) (recs : List (List Bytes)) (cur : List Bytes) (st : St),
    run recs cur st (a ++ b) =
      (match run recs cur st a with
       | (x, true) => run x.1 x.2.1 x.2.2 b
       | (x, false) => (x, false)) := by
  intro a
  induction a with
  | nil => intro b recs cur st; simp [run]
  | cons c t ih =>
    intro b recs cur st
    simp only [List.cons_append, run]
    cases hs : step recs cur st c with
    | none => rfl
    | some x => obtain ⟨r, c', s⟩ := x; exact ih b r c' s

/-- no delimiter inside: comma, quote, line feed -/
def Plain (f : Bytes) : Prop := ∀ b ∈ f, b ≠ comma ∧ b ≠ quote ∧ b ≠ nl

theorem run_bare : ∀ (f rest : Bytes) (recs : List (List Bytes)) (cur : List Bytes) (acc : Bytes), Plain f →
    run recs cur (.bare acc) (f ++ rest) = run recs cur (.bare (acc ++ f)) rest := by
  intro f
  induction f with
  | nil => intro rest recs cur acc _; simp
  | cons b t ih =>
    intro rest recs cur acc h
    have hb := h b (List.mem_cons_self)
    simp only [List.cons_append, run, step, hb.1, hb.2.1, hb.2.2, if_false]
    rw [ih rest recs cur (acc ++ [b]) (fun x hx => h x (List.mem_cons_of_mem _ hx))]
    simp [List.append_assoc]

/-- a plain field followed by a comma -/
theorem run_plain_comma (f rest : Bytes) (recs : List (List Bytes)) (cur : List Bytes) (h : Plain f) :
    run recs cur .fieldStart (f ++ comma :: rest) = run recs (f :: cur) .fieldStart rest := by
  cases f with
  | nil => simp [run, step, comma, quote]
  | cons b t =>
    have hb := h b (List.mem_cons_self)
    simp only [List.cons_append, run, step, hb.1, hb.2.1, hb.2.2, if_false]
    rw [run_bare t (comma :: rest) recs cur [b] (fun x hx => h x (List.mem_cons_of_mem _ hx))]
    simp [run, step]

/-- a plain field followed by the end of the line closes the record (unless the line is empty) -/
theorem run_plain_nl (f rest : Bytes) (recs : List (List Bytes)) (cur : List Bytes) (h : Plain f) (hc : cur ≠ [] ∨ f ≠ []) :
    run recs cur .fieldStart (f ++ nl :: rest) = run ((f :: cur).reverse :: recs) [] .fieldStart rest := by
  cases f with
  | nil =>
    have hcur : cur ≠ [] := by rcases hc with h | h; exact h; exact absurd rfl h
    simp [run, step, comma, quote, nl, hcur]
  | cons b t =>
    have hb := h b (List.mem_cons_self)
    simp only [List.cons_append, run, step, hb.1, hb.2.1, hb.2.2, if_false]
    rw [run_bare t (nl :: rest) recs cur [b] (fun x hx => h x (List.mem_cons_of_mem _ hx))]
    simp [run, step, nl, comma]

def escQ (id : Bytes) : Bytes := id.flatMap fun b => if b == quote then [quote, quote] else [b]

theorem escQ_cons_quote (t : Bytes) : escQ (quote :: t) = quote :: quote :: escQ t := by
  unfold escQ; simp [List.flatMap_cons]

theorem escQ_cons_other (b : Nat) (t : Bytes) (hb : b ≠ quote) : escQ (b :: t) = b :: escQ t := by
  have hbq : (b == quote) = false := by simpa using hb
  unfold escQ; simp only [List.flatMap_cons, hbq, Bool.false_eq_true, if_false]; rfl

theorem run_quoted : ∀ (id rest : Bytes) (recs : List (List Bytes)) (cur : List Bytes) (acc : Bytes),
    run recs cur (.quoted acc) (escQ id ++ rest) = run recs cur (.quoted (acc ++ id)) rest := by
  intro id
  induction id with
  | nil => intro rest recs cur acc; simp [escQ]
  | cons b t ih =>
    intro rest recs cur acc
    by_cases hb : b = quote
    · subst hb
      rw [escQ_cons_quote]
      simp only [List.cons_append, run, step, if_true]
      rw [ih rest recs cur (acc ++ [quote])]
      simp [List.append_assoc]
    · rw [escQ_cons_other b t hb]
      simp only [List.cons_append, run, step, hb, if_false]
      rw [ih rest recs cur (acc ++ [b])]
      simp [List.append_assoc]

/-- **the ID column**: whatever bytes the ID holds, the reader gets it back from the (possibly quoted) field -/
theorem run_id_comma (id rest : Bytes) (recs : List (List Bytes)) (cur : List Bytes) :
    run recs cur .fieldStart (quoteField id ++ comma :: rest) = run recs (id :: cur) .fieldStart rest := by
  unfold quoteField
  by_cases hq : needsQuote id = true
  · simp only [hq, if_true]
    have hesc : (id.flatMap fun b => if b == quote then [quote, quote] else [b]) = escQ id := rfl
    rw [hesc]
    simp only [List.cons_append, List.append_assoc, run, step, if_true]
    rw [run_quoted id _ recs cur []]
    simp [run, step, comma, quote]
  · simp only [hq, Bool.false_eq_true, if_false]
    apply run_plain_comma
    intro b hb
    have : ¬ (b == comma || b == quote || b == cr || b == nl) = true := by
      intro hh; apply hq; unfold needsQuote; exact List.any_eq_true.2 ⟨b, hb, hh⟩
    simp only [Bool.or_eq_true, beq_iff_eq, not_or] at this
    exact ⟨this.1.1.1, this.1.1.2, this.2⟩

/-! ### a whole row, a whole file -/

theorem plain_digits (n : Nat) : Plain (digitsOf n) := by
  intro b hb
  exact ⟨digit_not n comma (by decide) b hb, digit_not n quote (by decide) b hb, digit_not n nl (by decide) b hb⟩

theorem plain_append {a b : Bytes} (ha : Plain a) (hb : Plain b) : Plain (a ++ b) := by
  intro x hx
  rcases List.mem_append.1 hx with h | h
  · exact ha x h
  · exact hb x h

theorem plain_cons {x : Nat} {a : Bytes} (hx : x ≠ comma ∧ x ≠ quote ∧ x ≠ nl) (ha : Plain a) : Plain (x :: a) := by
  intro y hy
  rcases List.mem_cons.1 hy with rfl | h
  · exact hx
  · exact ha y h

theorem plain_joinB : ∀ (parts : List Bytes), (∀ p ∈ parts, Plain p) → Plain (joinB pipe parts) := by
  intro parts
  induction parts with
  | nil => intro _ b hb; cases hb
  | cons p t ih =>
    intro h
    cases t with
    | nil => simp only [joinB]; exact h p (List.mem_cons_self)
    | cons q t' =>
      simp only [joinB]
      exact plain_append (h p (List.mem_cons_self))
        (plain_cons (by decide) (ih (fun x hx => h x (List.mem_cons_of_mem _ hx))))

theorem plain_snpB (s : Snp) (h : symOk s.2.1 ∧ symOk s.2.2) : Plain (snpB s) := by
  unfold snpB
  exact plain_cons ⟨h.1.1, h.1.2.1, h.1.2.2.1⟩
    (plain_append (plain_digits _) (plain_cons ⟨h.2.1, h.2.2.1, h.2.2.2.1⟩ (fun _ hb => by cases hb)))

theorem plain_ambB (a : Nat × Nat) : Plain (ambB a) := by
  unfold ambB
  split
  · exact plain_digits _
  · exact plain_append (plain_digits _) (plain_cons (by decide) (plain_digits _))

/-- the five fields of a rendered row -/
def rowFields (id : Bytes) (l : UDLine) : List Bytes :=
  [id, joinB pipe (l.snps.map snpB), joinB pipe (l.ambs.map ambB), digitsOf l.snpCount, digitsOf l.ambCount]

/-- **one row through the reader**: the record is the five fields, the ID as it was -/
theorem run_row (id : Bytes) (l : UDLine) (hs : SnpsOk l.snps) (rest : Bytes) (recs : List (List Bytes)) :
    run recs [] .fieldStart (rowB id l ++ nl :: rest) = run (rowFields id l :: recs) [] .fieldStart rest := by
  unfold rowB
  have p1 : Plain (joinB pipe (l.snps.map snpB)) := plain_joinB _ (by
    intro p hp; obtain ⟨s, hsm, rfl⟩ := List.mem_map.1 hp
    exact plain_snpB s (hs s hsm).2)
  have p2 : Plain (joinB pipe (l.ambs.map ambB)) := plain_joinB _ (by
    intro p hp; obtain ⟨a, _, rfl⟩ := List.mem_map.1 hp; exact plain_ambB a)
  simp only [List.append_assoc, List.cons_append]
  rw [run_id_comma, run_plain_comma _ _ _ _ p1, run_plain_comma _ _ _ _ p2, run_plain_comma _ _ _ _ (plain_digits _),
    run_plain_nl _ _ _ _ (plain_digits _) (Or.inl (by simp))]
  rfl

theorem run_rows : ∀ (rows : List (Bytes × UDLine)) (recs : List (List Bytes)), (∀ r ∈ rows, SnpsOk r.2.snps) →
    run recs [] .fieldStart (rows.flatMap fun r => rowB r.1 r.2 ++ [nl]) =
      (((rows.map fun r => rowFields r.1 r.2).reverse ++ recs, [], .fieldStart), true) := by
  intro rows
  induction rows with
  | nil => intro recs _; simp [run]
  | cons r t ih =>
    intro recs h
    simp only [List.flatMap_cons, List.append_assoc, List.singleton_append]
    rw [run_row r.1 r.2 (h r (List.mem_cons_self)), ih _ (fun x hx => h x (List.mem_cons_of_mem _ hx))]
    simp

theorem run_header (rest : Bytes) :
    run [] [] .fieldStart (headerB ++ nl :: rest) = run [splitB comma headerB] [] .fieldStart rest := by
  have h : run [] [] .fieldStart (headerB ++ [nl]) = (([splitB comma headerB], [], .fieldStart), true) := by decide +kernel
  have := run_append (headerB ++ [nl]) rest [] [] .fieldStart
  simp only [List.append_assoc, List.singleton_append] at this
  rw [this, h]

/-! ### no carriage return anywhere in the rendered file -/

def NoCr (t : Bytes) : Prop := ∀ b ∈ t, b ≠ cr

theorem noCr_append {a b : Bytes} (ha : NoCr a) (hb : NoCr b) : NoCr (a ++ b) := by
  intro x hx
  rcases List.mem_append.1 hx with h | h
  · exact ha x h
  · exact hb x h

theorem noCr_cons {x : Nat} {a : Bytes} (hx : x ≠ cr) (ha : NoCr a) : NoCr (x :: a) := by
  intro y hy
  rcases List.mem_cons.1 hy with rfl | h
  · exact hx
  · exact ha y h

theorem noCr_nil : NoCr [] := fun _ h => by cases h

theorem noCr_digits (n : Nat) : NoCr (digitsOf n) := digit_not n cr (by decide)

theorem noCr_joinB : ∀ (parts : List Bytes), (∀ p ∈ parts, NoCr p) → NoCr (joinB pipe parts) := by
  intro parts
  induction parts with
  | nil => intro _; exact noCr_nil
  | cons p t ih =>
    intro h
    cases t with
    | nil => simp only [joinB]; exact h p (List.mem_cons_self)
    | cons q t' =>
      simp only [joinB]
      exact noCr_append (h p (List.mem_cons_self)) (noCr_cons (by decide) (ih (fun x hx => h x (List.mem_cons_of_mem _ hx))))

theorem noCr_quoteField (id : Bytes) (h : NoCr id) : NoCr (quoteField id) := by
  unfold quoteField
  split
  · apply noCr_cons (by decide)
    apply noCr_append
    · intro b hb
      obtain ⟨x, hx, hbx⟩ := List.mem_flatMap.1 hb
      split at hbx
      · simp only [List.mem_cons, List.not_mem_nil, or_false, or_self] at hbx; subst hbx; decide
      · have hbx' := List.mem_singleton.1 hbx
        rw [hbx']; exact h x hx
    · exact noCr_cons (by decide) noCr_nil
  · exact h

theorem noCr_row (id : Bytes) (l : UDLine) (hid : NoCr id) (hs : SnpsOk l.snps) : NoCr (rowB id l) := by
  unfold rowB
  have n1 : NoCr (joinB pipe (l.snps.map snpB)) := noCr_joinB _ (by
    intro p hp; obtain ⟨s, hsm, rfl⟩ := List.mem_map.1 hp
    have := (hs s hsm).2
    unfold snpB
    exact noCr_cons this.1.2.2.2.1 (noCr_append (noCr_digits _) (noCr_cons this.2.2.2.2.1 noCr_nil)))
  have n2 : NoCr (joinB pipe (l.ambs.map ambB)) := noCr_joinB _ (by
    intro p hp; obtain ⟨a, _, rfl⟩ := List.mem_map.1 hp
    unfold ambB
    split
    · exact noCr_digits _
    · exact noCr_append (noCr_digits _) (noCr_cons (by decide) (noCr_digits _)))
  simp only [List.append_assoc, List.cons_append]
  exact noCr_append (noCr_quoteField id hid) (noCr_cons (by decide) (noCr_append n1 (noCr_cons (by decide)
    (noCr_append n2 (noCr_cons (by decide) (noCr_append (noCr_digits _) (noCr_cons (by decide) (noCr_digits _))))))))

theorem noCr_header : NoCr headerB := by
  intro b hb
  have : headerB.all (fun b => b != cr) = true := by decide +kernel
  have := List.all_eq_true.1 this b hb
  simpa using this

/-! ### the round trip -/

/-- what the reader is expected to give back for a row -/
def expected (id : Bytes) (l : UDLine) : Row :=
  { id := id, snps := l.snps.map snpB, snpPos := l.snps.map fun s => (s.1 : Int), ambs := flatAmbs l.ambs,
    ambCount := (l.ambCount : Int) }

/-- a row `updown list` can write: numbers within int, SNP symbols that are not delimiters, an ID without line breaks -/
structure RowOk (id : Bytes) (l : UDLine) : Prop where
  id : ∀ b ∈ id, b ≠ cr ∧ b ≠ nl
  snps : SnpsOk l.snps
  ambs : AmbsOk l.ambs
  count : l.ambCount ≤ maxInt64

theorem parseRow_fields (id : Bytes) (l : UDLine) (h : RowOk id l) (acc : List Row) :
    parseRow (rowFields id l) (.ok acc) = .ok (acc ++ [expected id l]) := by
  unfold parseRow rowFields
  simp only [List.getD_cons_succ, List.getD_cons_zero]
  rw [ambArr_render l.ambs h.ambs]
  simp only []
  have hsn : (if joinB pipe (l.snps.map snpB) = [] then [] else splitB pipe (joinB pipe (l.snps.map snpB))) = l.snps.map snpB := by
    by_cases he : joinB pipe (l.snps.map snpB) = []
    · have : l.snps.map snpB = [] := joinB_eq_nil pipe _ (by
        intro p hp; obtain ⟨s, _, rfl⟩ := List.mem_map.1 hp; exact snpB_ne_nil s) he
      rw [if_pos he]; exact this.symm
    · simp only [he, if_false]
      have hne : l.snps.map snpB ≠ [] := by intro h0; rw [h0] at he; exact he rfl
      exact splitB_joinB pipe _ hne (by
        intro p hp; obtain ⟨s, hsm, rfl⟩ := List.mem_map.1 hp; exact snpB_no_pipe s (h.snps s hsm).2)
  rw [hsn]
  have hp := snpPositions_render l.snps h.snps
  cases hsp : snpPositions (l.snps.map snpB) with
  | ok ps =>
    rw [hsp] at hp
    simp only [Option.some.injEq] at hp
    simp only [atoi_digitsOf l.ambCount h.count, hp]
    rfl
  | error => rw [hsp] at hp; cases hp
  | panic => rw [hsp] at hp; cases hp

theorem parse_all : ∀ (rows : List (Bytes × UDLine)) (acc : List Row), (∀ r ∈ rows, RowOk r.1 r.2) →
    (rows.map fun r => rowFields r.1 r.2).foldl (fun o r => parseRow r o) (.ok acc) =
      .ok (acc ++ rows.map fun r => expected r.1 r.2) := by
  intro rows
  induction rows with
  | nil => intro acc _; simp
  | cons r t ih =>
    intro acc h
    simp only [List.map_cons, List.foldl_cons]
    rw [parseRow_fields r.1 r.2 (h r (List.mem_cons_self)) acc, ih _ (fun x hx => h x (List.mem_cons_of_mem _ hx))]
    simp [List.append_assoc]

theorem takeWhile_all {α : Type} (p : α → Bool) : ∀ (l : List α), (∀ x ∈ l, p x = true) → l.takeWhile p = l := by
  intro l
  induction l with
  | nil => intro _; rfl
  | cons a t ih =>
    intro h
    simp only [List.takeWhile_cons, h a (List.mem_cons_self), if_true]
    rw [ih (fun x hx => h x (List.mem_cons_of_mem _ hx))]

/-- **C09.csv_roundtrip** — `updown topranking` reads back exactly what `updown list` wrote: for every list of rows,
whatever bytes the IDs hold (commas and double quotes included), the CSV reader returns the same IDs, SNP strings,
SNP positions, ambiguity ranges and ambiguity counts, in the same order -/
theorem csv_roundtrip (rows : List (Bytes × UDLine)) (h : ∀ r ∈ rows, RowOk r.1 r.2) :
    readUDL (fileB rows) = .ok (rows.map fun r => expected r.1 r.2) := by
  have hnocr : NoCr (fileB rows) := by
    unfold fileB
    apply noCr_append (noCr_append noCr_header (noCr_cons (by decide) noCr_nil))
    intro b hb
    obtain ⟨r, hr, hbr⟩ := List.mem_flatMap.1 hb
    have hrow := noCr_row r.1 r.2 (fun x hx => ((h r hr).id x hx).1) (h r hr).snps
    exact noCr_append hrow (noCr_cons (by decide) noCr_nil) b hbr
  have hrun : run [] [] .fieldStart (fileB rows) =
      (((rows.map fun r => rowFields r.1 r.2).reverse ++ [splitB comma headerB], [], .fieldStart), true) := by
    unfold fileB
    rw [List.append_assoc, List.singleton_append, run_header, run_rows rows _ (fun r hr => (h r hr).snps)]
  unfold readUDL readRecs
  rw [normalise_noCr _ _ (Nat.le_refl _) hnocr, hrun]
  simp only [finish, if_true]
  have hrev : ((rows.map fun r => rowFields r.1 r.2).reverse ++ [splitB comma headerB]).reverse =
      splitB comma headerB :: rows.map fun r => rowFields r.1 r.2 := by simp
  rw [hrev]
  have h5 : (splitB comma headerB).length = 5 := by decide +kernel
  have hsame : sameCount (splitB comma headerB :: rows.map fun r => rowFields r.1 r.2) =
      (splitB comma headerB :: rows.map fun r => rowFields r.1 r.2, true) := by
    unfold sameCount
    simp only []
    have hall : ∀ x ∈ (splitB comma headerB :: rows.map fun r => rowFields r.1 r.2),
        (x.length == (splitB comma headerB).length) = true := by
      intro x hx
      rcases List.mem_cons.1 hx with rfl | hx
      · simp
      · obtain ⟨r, _, rfl⟩ := List.mem_map.1 hx
        rw [h5]; rfl
    rw [takeWhile_all _ _ hall]
    simp
  rw [hsame]
  simp only [Bool.and_self, ne_eq, not_true_eq_false, if_false, if_true]
  rw [parse_all rows [] h]
  simp

end Gofasta.Lemmas.CsvRT
